#!/usr/bin/env python3
"""recordfixed.py <proposed-lines.jsonl|-> PROP 'keysubstr=commit-subject-substr' ...
Appends the proposed known-finding lines to known_findings.jsonl; a line whose key contains one of the
key substrings is recorded as fixed by the /repo commit whose subject contains the given text, the others
are recorded as they are (open). Lines whose key is already present are skipped (an existing open line with a
matching key is flipped to fixed instead)."""
import json, re, subprocess, sys
src, prop = sys.argv[1], sys.argv[2]
maps = [a.split("=", 1) for a in sys.argv[3:]]
log = subprocess.run(["git", "-C", "/repo", "log", "--format=%h %s"], capture_output=True, text=True).stdout.splitlines()
def commit(sub):
    m = [l.split()[0] for l in log if sub in l]
    if len(m) != 1:
        sys.exit("subject %r matches %d commits" % (sub, len(m)))
    return m[0]
maps = [(k, commit(s)) for k, s in maps]
def fixed_for(key):
    for k, c in maps:
        if k in key:
            return c
    return None
def clean(w, c):
    w = re.sub(r"^(open:|fixed:)\s*", "", w)
    w = re.sub(r"^property=C\d\d\s*", "", w)
    w = re.sub(r"\s*Patch(es)? [\d, and]+ in /var/tmp/\S+\.?", "", w)
    w = re.sub(r"\(patch \S+\)", "", w)
    return "fixed: property=%s %s %s" % (prop, c, w.strip())
existing = [json.loads(l) for l in open("/verif/known_findings.jsonl") if l.strip()]
have = {(d["property"], d["key"]): d for d in existing}
new = []
if src != "-":
    new = [json.loads(l) for l in open(src) if l.strip()]
n_fixed = n_open = n_flip = 0
for d in existing:
    if d["property"] == prop and d["status"] != "fixed":
        c = fixed_for(d["key"])
        if c:
            d["status"], d["commit"], d["what"] = "fixed", c, clean(d["what"], c)
            n_flip += 1
for d in new:
    d["property"] = prop
    if (prop, d["key"]) in have:
        continue
    c = fixed_for(d["key"])
    if c:
        d = {"property": prop, "key": d["key"], "status": "fixed", "commit": c, "what": clean(d["what"], c)}
        n_fixed += 1
    else:
        d = {"property": prop, "key": d["key"], "status": "open", "what": re.sub(r"^(open:)\s*", "", d["what"])}
        n_open += 1
    existing.append(d)
open("/verif/known_findings.jsonl", "w").write("\n".join(json.dumps(d, ensure_ascii=False) for d in existing) + "\n")
print("new fixed %d, new open %d, flipped %d" % (n_fixed, n_open, n_flip))
