#!/bin/sh
# Run gonum's own tests for the given packages without letting -mod=mod touch /repo/go.sum.
# usage: tools/repotest.sh [-C dir] ./stat/combin ...
. /verif/goenv.sh
DIR=/repo
if [ "$1" = "-C" ]; then DIR=$2; shift 2; fi
W=$(mktemp -d /var/tmp/repotest.XXXXXX)
cp $DIR/go.mod $W/go.mod; cp $DIR/go.sum $W/go.sum
(cd $DIR && go test -modfile=$W/go.mod -vet=off -count=1 "$@")
rc=$?
rm -rf $W
exit $rc
