#!/bin/bash
# Runs gonum's pinned baseline test suite against /repo (without touching go.sum) and
# compares the set of passing tests with /root/.vp/BASELINE.json.
. /verif/goenv.sh
W=$(mktemp -d /var/tmp/baseline.XXXXXX)
cp /repo/go.mod $W/go.mod; cp /repo/go.sum $W/go.sum
(cd /repo && go test -modfile=$W/go.mod -json -vet=off -count=1 -timeout 120m ./... > $W/out.json 2> $W/err.txt)
python3 - "$W/out.json" <<'PY'
import json,sys,ast
base=json.load(open('/root/.vp/BASELINE.json'))
sp=base['stable_pass']
if isinstance(sp,str): sp=ast.literal_eval(sp)
want=set(sp)
res={}
for l in open(sys.argv[1]):
    try: e=json.loads(l)
    except Exception: continue
    if e.get('Test') and e.get('Action') in ('pass','fail','skip'):
        res[e['Package']+'::'+e['Test']]=e['Action']
passed={k for k,v in res.items() if v=='pass'}
missing=sorted(want-passed)
print("baseline tests: %d, passing now: %d, missing/failing: %d" % (len(want), len(want&passed), len(missing)))
for m in missing[:60]: print("  NOT PASSING:", m, res.get(m))
PY
rm -rf $W
