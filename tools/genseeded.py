#!/usr/bin/env python3
"""Writes /verif/seeded/README.md: one row per recorded seeded change (from seeded/*/meta.json and
seeded/strengthening.json, the hand-kept record of what had to be strengthened to catch a change)."""
import json, os, re, glob
root = "/verif/seeded"
notes = {}
p = os.path.join(root, "strengthening.json")
if os.path.exists(p):
    notes = json.load(open(p))
rows = []
for d in sorted(glob.glob(root + "/C*-*")):
    m = json.load(open(os.path.join(d, "meta.json")))
    sid = os.path.basename(d)
    files = sorted({l.split(" b/")[1].strip() for l in open(os.path.join(d, "patch.diff")) if l.startswith("diff --git")})
    br = m.get("breaks", "").strip().splitlines()
    title = ""
    for l in br:
        l = l.strip().lstrip("# ").strip()
        if l:
            title = l
            break
    title = re.sub(r"^(Change|Seed(ed change)?)\s*\d+\s*[—:\-–]*\s*", "", title)[:150]
    keys = sorted({re.sub(r"^--- ", "", k).split()[0] for k in m.get("check_violation_keys", []) if k.startswith("---")})
    det = "yes" if m.get("detected") else ("by another check" if "caught by ./check" in notes.get(sid, "") or "./check C05 catches" in notes.get(sid, "") else "NO")
    rows.append((sid, ", ".join(files), title, det, "; ".join(keys)[:160], notes.get(sid, "")))
with open(os.path.join(root, "README.md"), "w") as f:
    f.write("# Seeded breaking changes\n\nEach directory holds `patch.diff` (apply with `git -C /repo apply`), the author's demonstration test\n"
            "(`demo_test.go.txt`), the author's notes and `meta.json` (what was confirmed in a scratch worktree and what the\n"
            "property's quick check printed with the patch applied). The authors saw only the property text.\n\n")
    det = sum(1 for r in rows if r[3] == "yes")
    other = sum(1 for r in rows if r[3] == "by another check")
    f.write("%d changes recorded, %d detected by the quick tier of the property's check, %d by the check of the property they actually break.\n\n" % (len(rows), det, other))
    f.write("| id | file(s) | change | detected | failing sub-check keys | strengthening needed |\n|---|---|---|---|---|---|\n")
    for r in rows:
        f.write("| " + " | ".join(x.replace("|", "/") for x in r) + " |\n")
print(len(rows), "rows;", sum(1 for r in rows if r[3] == "yes"), "detected")
