#!/opt/veriftools/pyvenv/bin/python
import json, jsonschema, glob, sys
ok = True
try:
    jsonschema.validate(json.load(open('/verif/MANIFEST.json')), json.load(open('/root/.vp/MANIFEST.schema.json')))
except Exception as e:
    ok = False; print("MANIFEST invalid:", e)
es = json.load(open('/root/.vp/EVIDENCE.schema.json'))
for f in sorted(glob.glob('/verif/evidence/*.json')):
    try:
        jsonschema.validate(json.load(open(f)), es)
    except Exception as e:
        ok = False; print(f, "invalid:", str(e)[:300])
print("valid" if ok else "INVALID")
sys.exit(0 if ok else 1)
