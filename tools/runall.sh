#!/bin/bash
# runs every registered check's quick tier sequentially; prints one summary line per property
cd /verif
for p in $(python3 -c "import json;print(' '.join(c['property_id'] for c in json.load(open('MANIFEST.json'))['checks']))"); do
  t0=$(date +%s)
  ./check $p --tier ${TIER:-quick} --seed ${SEED:-1} > /var/tmp/runall-$p.log 2>&1
  rc=$?
  echo "$p exit=$rc wall=$(( $(date +%s) - t0 ))s $(grep -c '^KNOWN-FINDING' /var/tmp/runall-$p.log) known; $(grep '^VIOLATION\|^INCONCLUSIVE' /var/tmp/runall-$p.log | head -3 | cut -c1-150 | tr '\n' ' ')"
done
