#!/usr/bin/env python3
"""Regenerates MANIFEST.json from harness/<pkg>/verif.json files and properties.jsonl."""
import json, os
V = os.path.dirname(os.path.dirname(os.path.abspath(__file__)))
props = [json.loads(l) for l in open(os.path.join(V, "properties.jsonl")) if l.strip()]
checks, na = [], []
for p in props:
    pid = p["id"]
    cfgp = os.path.join(V, "harness", pid.lower(), "verif.json")
    if not os.path.exists(cfgp):
        na.append({"property_id": pid, "reason": "check not implemented yet in this revision (planned, see DESIGN.md section 4)"})
        continue
    cfg = json.load(open(cfgp))
    checks.append({
        "property_id": pid,
        "quick_cmd": "./check %s --tier quick" % pid,
        "thorough_cmd": "./check %s --tier thorough" % pid,
        "evidence_file": "/verif/evidence/%s.json" % pid,
        "replay_cmd_template": "./check %s --replay {path}" % pid,
        "engine": "rapid-harness",
        "level_claimed": {"category": "exploration", "text": cfg["level_text"], "design_ref": cfg.get("design_ref", "DESIGN.md section 4, " + pid)},
        "level_note": cfg["level_note"],
        "technique": cfg["technique"],
    })
m = {
    "version": 1,
    "setup_cmd": "./check --setup",
    "hooks": {
        "guard": "verif",
        "enable": "no hooks are needed: checks import gonum through a replace directive to /repo and reach internal packages with go test -overlay; nothing in /repo is built differently",
        "baseline_off_cmd": json.load(open("/root/.vp/BASELINE.json"))["cmd"],
        "source_commits": [],
        "add_only": True,
    },
    "engines": [{"name": "rapid-harness", "path": "/verif/harness", "serves_properties": [c["property_id"] for c in checks],
                 "kind_free_text": "Go test binaries using pgregory.net/rapid v1.3.0 generators plus exhaustive small-space enumerations, sharded over 16 processes by the python driver ./check; explicit oracles (reference models, round trips, differential and metamorphic relations); failing cases are shrunk and saved as JSON replay files"}],
    "checks": checks,
    "not_applicable": na,
    "notes": "All checks rebuild from /repo's working tree (go test -c with a replace directive). Known findings: /verif/known_findings.jsonl. VERIF_SEED selects the rapid seeds (0 is remapped to 1).",
}
json.dump(m, open(os.path.join(V, "MANIFEST.json"), "w"), indent=1)
print("checks:", [c["property_id"] for c in checks], "not_applicable:", [n["property_id"] for n in na])
