#!/usr/bin/env python3
"""seedtest.py PROP n [--check-only] : verifies a seeded change produced by an independent agent
(/tmp/seed-PROP.out/change<n>.diff + demo<n>_test.go) in a scratch worktree and then runs the
property's quick check against /repo with the change applied. Prints a summary dict as JSON."""
import json, os, re, shutil, subprocess, sys
prop, n = sys.argv[1], sys.argv[2]
rnd = 1
if "--round" in sys.argv:
    rnd = int(sys.argv[sys.argv.index("--round") + 1])
out = ("/tmp/seed-%s.out" if rnd == 1 else "/tmp/seed%d-%%s.out" % rnd) % prop
sid = str(int(n) + 3 * (rnd - 1))
diff = os.path.join(out, "change%s.diff" % n)
demo = os.path.join(out, "demo%s_test.go" % n)
env = dict(os.environ, GOFLAGS="-mod=mod", GOPROXY="off", GOSUMDB="off", GOTOOLCHAIN="local")
res = {"property": prop, "n": n}
first = open(demo).readline()
head = "".join(open(demo).readlines()[:6])
m = re.findall(r"\s\./([\w./-]+)", head)
if m:
    pkgdir = m[-1].rstrip("./")
else:
    m2 = re.search(r"[Bb]elongs in (\S+?)[\s;,(]", first) or re.search(r"[Bb]elongs in (\S+)", first)
    pkgdir = m2.group(1).rstrip(".;,/")
first = head
cmdm = re.search(r"go test(.*?)\s\./[\w./-]+", first, re.S)
cmdtxt = cmdm.group(1) if cmdm else first
tags = re.search(r"-tags[ =](\S+)", cmdtxt)
run = re.search(r"-run[ =]'?\"?([\w^$|]+)", cmdtxt)
race = "-race" in cmdtxt
res["pkgdir"] = pkgdir
wt = "/tmp/seedv-%s-%s" % (prop, sid)
subprocess.run(["git", "-C", "/repo", "worktree", "remove", "--force", wt], capture_output=True)
subprocess.run(["git", "-C", "/repo", "worktree", "add", "-q", "--detach", wt, "HEAD"], check=True)
def gotest(extra):
    cmd = ["go", "test", "-count=1", "-vet=off"] + extra
    r = subprocess.run(cmd, cwd=wt, env=env, capture_output=True, text=True, timeout=3600)
    return r.returncode, (r.stdout + r.stderr)[-1500:]
try:
    demo_dst = os.path.join(wt, pkgdir, "zz_seed_demo_test.go")
    targs = (["-tags", tags.group(1)] if tags else []) + (["-race"] if race else [])
    rargs = ["-run", run.group(1) if run else "Seed"]
    # (3) demo passes on the unmodified tree
    shutil.copy(demo, demo_dst)
    rc, o = gotest(targs + rargs + ["./" + pkgdir])
    res["demo_passes_without_change"] = rc == 0
    if rc != 0: res["demo_clean_output"] = o
    # apply change
    a = subprocess.run(["git", "apply", diff], cwd=wt, capture_output=True, text=True)
    res["applies"] = a.returncode == 0
    if a.returncode != 0:
        res["apply_err"] = a.stderr[-500:]
    else:
        # (2) demo fails with the change
        rc, o = gotest(targs + rargs + ["./" + pkgdir])
        res["demo_fails_with_change"] = rc != 0
        # (1) gonum's own tests of the touched packages pass with the change
        os.remove(demo_dst)
        touched = sorted({os.path.dirname(l.split(" b/")[1].strip()) for l in open(diff) if l.startswith("diff --git")})
        rc, o = gotest(["./" + t for t in touched])
        res["existing_tests_pass_with_change"] = rc == 0
        if rc != 0: res["existing_tests_output"] = o
        res["touched"] = touched
finally:
    subprocess.run(["git", "-C", "/repo", "worktree", "remove", "--force", wt], capture_output=True)
# run the property's check against a scratch worktree with the change applied (VERIF_REPO makes the
# driver build from that tree exactly as it would from /repo; /repo itself is not touched, so this can
# run beside other work). --in-repo applies to /repo itself instead.
if "--in-repo" in sys.argv:
    subprocess.run(["git", "-C", "/repo", "apply", diff], check=True)
    cenv = dict(os.environ)
else:
    wt2 = "/tmp/seedc-%s-%s" % (prop, sid)
    subprocess.run(["git", "-C", "/repo", "worktree", "remove", "--force", wt2], capture_output=True)
    subprocess.run(["git", "-C", "/repo", "worktree", "add", "-q", "--detach", wt2, "HEAD"], check=True)
    subprocess.run(["git", "apply", diff], cwd=wt2, check=True)
    cenv = dict(os.environ, VERIF_REPO=wt2)
try:
    r = subprocess.run(["/verif/check", prop, "--tier", "quick", "--no-evidence"], capture_output=True, text=True, cwd="/verif", env=cenv)
    res["check_exit"] = r.returncode
    res["check_lines"] = [l[:220] for l in r.stdout.splitlines() if l.startswith(("VIOLATION", "---", "INCONCLUSIVE"))][:8]
finally:
    if "--in-repo" in sys.argv:
        subprocess.run(["git", "-C", "/repo", "checkout", "--", "."], check=True)
    else:
        subprocess.run(["git", "-C", "/repo", "worktree", "remove", "--force", wt2], capture_output=True)
ok = res.get("demo_passes_without_change") and res.get("applies") and res.get("demo_fails_with_change") and res.get("existing_tests_pass_with_change")
res["confirmed"] = bool(ok)
if ok:
    d = "/verif/seeded/%s-%s" % (prop, sid)
    os.makedirs(d, exist_ok=True)
    shutil.copy(diff, os.path.join(d, "patch.diff"))
    shutil.copy(demo, os.path.join(d, "demo_test.go.txt"))
    notes = os.path.join(out, "notes%s.md" % n)
    if os.path.exists(notes):
        shutil.copy(notes, os.path.join(d, "notes.md"))
    meta = {
        "property": prop,
        "breaks": open(notes).read()[:1500] if os.path.exists(notes) else "",
        "package": pkgdir,
        "what_was_run": {
            "demo_on_unmodified_tree": "passes" ,
            "demo_with_change": "fails",
            "gonum_tests_of_touched_packages_with_change": "pass (%s)" % ", ".join(res.get("touched", [])),
            "check": "/verif/check %s --tier quick with the patch applied to /repo (git apply), then git checkout -- ." % prop,
        },
        "check_exit_with_change": res.get("check_exit"),
        "check_violation_keys": [l for l in res.get("check_lines", []) if l.startswith("---")],
        "detected": res.get("check_exit") == 1,
        "repo_head_when_tested": subprocess.run(["git", "-C", "/repo", "log", "--format=%h", "-1"], capture_output=True, text=True).stdout.strip(),
    }
    json.dump(meta, open(os.path.join(d, "meta.json"), "w"), indent=1)
print(json.dumps(res, indent=1))
