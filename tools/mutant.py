#!/usr/bin/env python3
"""Apply a textual mutation to a scratch copy of /repo and run a property check against it.
usage: mutant.py <property> <name> <file> <nth> <old> <new> [--tier quick] [--keep]
   nth = which occurrence (1-based) of <old> in <file> to replace (0 = all)
Prints the check's exit status. The scratch copy is removed afterwards."""
import sys, os, shutil, subprocess
prop, name, path, nth, old, new = sys.argv[1:7]
extra = sys.argv[7:]
nth = int(nth)
dst = "/var/tmp/mut-%s-%s" % (prop, name)
shutil.rmtree(dst, ignore_errors=True)
shutil.copytree("/repo", dst, symlinks=True)
p = os.path.join(dst, path)
s = open(p).read()
old = old.encode().decode("unicode_escape"); new = new.encode().decode("unicode_escape")
cnt = s.count(old)
if cnt == 0:
    print("MUTANT %s: pattern not found" % name); shutil.rmtree(dst); sys.exit(9)
if nth == 0:
    s = s.replace(old, new)
else:
    idx = -1
    for _ in range(nth):
        idx = s.find(old, idx + 1)
        if idx < 0:
            print("MUTANT %s: occurrence %d not found (%d present)" % (name, nth, cnt)); shutil.rmtree(dst); sys.exit(9)
    s = s[:idx] + new + s[idx + len(old):]
open(p, "w").write(s)
env = dict(os.environ, VERIF_REPO=dst)
keep = "--keep" in extra
extra = [e for e in extra if e != "--keep"]
r = subprocess.run(["/verif/check", prop, "--no-evidence"] + extra, env=env, capture_output=True, text=True)
lines = [l for l in r.stdout.splitlines() if l.startswith("VIOLATION") or l.startswith("---") or l.startswith("INCONCLUSIVE")]
print("MUTANT %s/%s exit=%d %s" % (prop, name, r.returncode, "KILLED" if r.returncode == 1 else ("SURVIVED" if r.returncode == 0 else "INCONCLUSIVE")))
for l in lines[:6]:
    print("   ", l[:200])
if r.returncode == 2:
    print(r.stdout[-1500:])
if not keep:
    shutil.rmtree(dst, ignore_errors=True)
# remove the replay files the mutant produced
newdir = "/verif/replays/%s/new" % prop
sys.exit(0)
