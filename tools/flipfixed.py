#!/usr/bin/env python3
"""flipfixed.py PROP 'key-substring' 'commit-subject-substring' [more triples...]
Marks matching open lines of /verif/known_findings.jsonl as fixed with the hash of the /repo commit
whose subject contains the given text."""
import json, subprocess, sys
log = subprocess.run(["git", "-C", "/repo", "log", "--format=%h %s"], capture_output=True, text=True).stdout.splitlines()
def commit(sub):
    m = [l.split()[0] for l in log if sub in l]
    if len(m) != 1:
        sys.exit("commit subject %r matches %d commits" % (sub, len(m)))
    return m[0]
args = sys.argv[1:]
triples = [(args[i], args[i+1], commit(args[i+2])) for i in range(0, len(args), 3)]
out, n = [], 0
for l in open('/verif/known_findings.jsonl'):
    s = l.strip()
    if not s:
        continue
    d = json.loads(s)
    if d['status'] == 'open':
        for prop, ks, h in triples:
            if d['property'] == prop and ks in d['key']:
                d['status'] = 'fixed'; d['commit'] = h
                w = d['what']
                if w.startswith('open: '): w = w[6:]
                if not w.startswith('fixed:'): w = 'fixed: ' + w
                d['what'] = w; n += 1
                break
    out.append(json.dumps(d, ensure_ascii=False))
open('/verif/known_findings.jsonl', 'w').write('\n'.join(out) + '\n')
print("flipped", n)
