#!/bin/bash
# usage: applyfix.sh <patch>...   applies format-patch files to /repo as individual commits,
# dropping any hunk that touches gonum's tests (existing tests must pass unedited).
cd /repo || exit 1
for p in "$@"; do
  if ! grep -q '^diff --git a/.*\(_test\.go\|lapack/testlapack/\)' "$p"; then
    # no test files touched: let git am handle encoding of subject/body
    if git -c user.name=builder -c user.email=builder@example.com am -q --committer-date-is-author-date "$p" 2>/tmp/applyerr; then
      echo "APPLIED $(git log --format='%h %s' -1)"
    else
      git am --abort 2>/dev/null; echo "SKIP (git am failed): $p"; head -5 /tmp/applyerr
    fi
    continue
  fi
  subj=$(grep -m1 '^Subject:' "$p" | sed 's/^Subject: \(\[PATCH[^]]*\] \)\?//')
  # body: lines after the blank line following Subject up to '---'
  body=$(awk '/^Subject:/{s=1;next} s&&/^$/{b=1;next} /^---$/{exit} b{print}' "$p")
  # continuation lines of a folded subject
  cont=$(awk '/^Subject:/{s=1;next} s&&/^ /{print;next} s{exit}' "$p" | tr -d '\n')
  subj="$subj$cont"
  if ! git apply --check --exclude='*_test.go' --exclude='lapack/testlapack/*' "$p" 2>/tmp/applyerr; then
    echo "SKIP (does not apply): $p"; cat /tmp/applyerr | head -5; continue
  fi
  git apply --exclude='*_test.go' --exclude='lapack/testlapack/*' "$p"
  if git diff --quiet; then echo "SKIP (only test changes): $p"; continue; fi
  git -c user.name=builder -c user.email=builder@example.com commit -qam "$subj" -m "$body"
  echo "APPLIED $(git log --format=%h -1) $subj"
done
