// Package c14 checks property C14: structural graph algorithms (components,
// topological sort, cycle enumeration, cliques, cores, dominators, spanning
// trees, traversals, colourings, products and generators) agree with their
// definitions, evaluated by brute force in the harness, on every graph.
package c14

import (
	"testing"

	"verifharness/vk"
)

func TestMain(m *testing.M) { vk.Main(m, "C14") }
