package c14

import (
	"context"
	"fmt"
	"math/rand/v2"
	"sort"
	"strings"
	"testing"

	"gonum.org/v1/gonum/graph"
	"gonum.org/v1/gonum/graph/coloring"
	"pgregory.net/rapid"
	"verifharness/vk"
)

// ---- graph/coloring ----------------------------------------------------------------------

type colCase struct {
	G
	Partial [][2]int  `json:"partial"` // (node index, colour >= 0); nil: no partial colouring
	Seed    [2]uint64 `json:"seed"`    // PCG seed for Randomized
	Term    int       `json:"term"`    // DsaturExact terminator: 0 nil, 1 context.Background(), 2 already cancelled
}

// chromatic returns the chromatic number by backtracking (n <= 10).
func chromatic(m *M) int {
	n := m.n
	if n == 0 {
		return 0
	}
	col := make([]int, n)
	var try func(v, k, used int) bool
	try = func(v, k, used int) bool {
		if v == n {
			return true
		}
		// colours 0..used-1 are in use; allow one new colour (symmetry breaking)
		for c := 0; c < k && c <= used; c++ {
			ok := true
			for u := 0; u < v; u++ {
				if m.adj[u][v] && col[u] == c {
					ok = false
					break
				}
			}
			if ok {
				col[v] = c
				nu := used
				if c == used {
					nu++
				}
				if try(v+1, k, nu) {
					return true
				}
			}
		}
		return false
	}
	for k := 1; ; k++ {
		if try(0, k, 0) {
			return k
		}
	}
}

type colResult struct {
	k      int
	colors map[int64]int
	err    error
}

// checkColoring validates one returned colouring. partial is nil when no
// partial colouring was supplied.
func checkColoring(name string, m *M, r colResult, partial map[int64]int, maxDeg int) *vk.Failure {
	if m.n == 0 {
		if r.k != 0 || len(r.colors) != 0 || r.err != nil {
			return vk.Failf(name+"-empty-graph", "empty graph: k=%d colors=%v err=%v", r.k, r.colors, r.err)
		}
		return nil
	}
	if r.err != nil {
		return vk.Failf(name+"-error", "unexpected error %v (partial %v)", r.err, partial)
	}
	if len(r.colors) != m.n {
		return vk.Failf(name+"-not-total", "%d nodes coloured, graph has %d", len(r.colors), m.n)
	}
	distinct := map[int]bool{}
	for v := 0; v < m.n; v++ {
		cv, ok := r.colors[m.id[v]]
		if !ok {
			return vk.Failf(name+"-not-total", "node %d has no colour", m.id[v])
		}
		distinct[cv] = true
		if pc, ok := partial[m.id[v]]; ok && pc != cv {
			return vk.Failf(name+"-partial-not-kept", "node %d was pre-coloured %d, result has %d", m.id[v], pc, cv)
		}
	}
	for _, e := range m.edges {
		if r.colors[m.id[e[0]]] == r.colors[m.id[e[1]]] {
			return vk.Failf(name+"-not-proper", "adjacent nodes %d and %d both have colour %d (partial %v)", m.id[e[0]], m.id[e[1]], r.colors[m.id[e[0]]], partial)
		}
	}
	if r.k != len(distinct) {
		return vk.Failf(name+"-k", "k=%d but the colouring uses %d distinct colours (partial %v)", r.k, len(distinct), partial)
	}
	if len(partial) == 0 {
		for c := range distinct {
			if c < 0 || c >= r.k {
				return vk.Failf(name+"-colour-range", "colour %d outside [0,%d)", c, r.k)
			}
		}
		if maxDeg >= 0 && r.k > maxDeg+1 {
			return vk.Failf(name+"-more-than-delta+1", "k=%d exceeds max degree + 1 = %d", r.k, maxDeg+1)
		}
	}
	return nil
}

type neverDone struct{}

func (neverDone) Done() <-chan struct{} { return nil }
func (neverDone) Err() error            { return nil }

func checkCol(c colCase) *vk.Failure {
	return withIndet(c.G, func(g G) *vk.Failure { c2 := c; c2.G = g; return checkCol1(c2) })
}

func checkCol1(c colCase) *vk.Failure {
	c.Dir = false
	m := model(c.G)
	n := m.n
	maxDeg := 0
	for v := 0; v < n; v++ {
		maxDeg = max(maxDeg, m.degree(v))
	}
	var partial map[int64]int
	valid := true
	negative := false // some pre-assigned colour is negative (not excluded by the documentation)
	if c.Partial != nil && n > 0 {
		partial = map[int64]int{}
		byIdx := map[int]int{}
		for _, p := range c.Partial {
			v := ((p[0] % n) + n) % n
			col := p[1]
			if col < 0 {
				negative = true
			}
			byIdx[v] = col
			partial[m.id[v]] = col
		}
		for _, e := range m.edges {
			cu, ok1 := byIdx[e[0]]
			cv, ok2 := byIdx[e[1]]
			if ok1 && ok2 && cu == cv {
				valid = false
			}
		}
	}
	chi := -1
	if n <= 10 {
		chi = chromatic(m)
	}
	vk.Class("col/" + c.Cls)
	switch {
	case partial == nil:
		vk.Class("col/partial=nil")
	case len(partial) == 0:
		vk.Class("col/partial=empty")
	case valid && negative:
		vk.Class("col/partial=proper-with-negative-colour")
	case valid:
		vk.Class("col/partial=proper")
	default:
		vk.Class("col/partial=improper")
	}
	if chi >= 3 || len(partial) > 0 {
		vk.NonTrivial("col", m.edgeKey(), fmt.Sprint(c.Partial), c.Term)
	}
	vk.Sample("coloring", c)
	g := m.undirected(0)

	type heur struct {
		name string
		f    func(p map[int64]int) colResult
	}
	hs := []heur{
		{"dsatur", func(p map[int64]int) colResult { k, cs, err := coloring.Dsatur(g, p); return colResult{k, cs, err} }},
		{"welshpowell", func(p map[int64]int) colResult {
			k, cs, err := coloring.WelshPowell(g, p)
			return colResult{k, cs, err}
		}},
		{"sansegundo", func(p map[int64]int) colResult { k, cs, err := coloring.SanSegundo(g, p); return colResult{k, cs, err} }},
		{"randomized", func(p map[int64]int) colResult {
			k, cs, err := coloring.Randomized(g, p, rand.NewPCG(c.Seed[0], c.Seed[1]))
			return colResult{k, cs, err}
		}},
	}
	for _, h := range hs {
		// without a partial colouring
		r := h.f(nil)
		if f := checkColoring(h.name, m, r, nil, maxDeg); f != nil {
			return f
		}
		if chi >= 0 && n > 0 && r.k < chi {
			return vk.Failf(h.name+"-below-chi", "k=%d below the chromatic number %d", r.k, chi)
		}
		if n > 0 {
			if f := checkSets(h.name, r.colors); f != nil {
				return f
			}
		}
		if partial == nil {
			continue
		}
		in := make(map[int64]int, len(partial))
		for k, v := range partial {
			in[k] = v
		}
		r = h.f(in)
		if n == 0 {
			continue
		}
		if !valid {
			if r.err != coloring.ErrInvalidPartialColoring {
				return vk.Failf(h.name+"-improper-partial-accepted", "partial colouring %v gives two adjacent nodes the same colour: err=%v k=%d, want ErrInvalidPartialColoring", partial, r.err, r.k)
			}
			continue
		}
		if negative && r.err == coloring.ErrInvalidPartialColoring {
			continue // rejecting a negative colour as inadmissible is a documented outcome
		}
		if f := checkColoring(h.name+"-partial", m, r, partial, -1); f != nil {
			if negative && strings.HasSuffix(f.Key, "-partial-k") {
				// Specific key: a proper partial colouring with a negative colour is
				// accepted but k is not the number of colours of the result.
				return vk.Failf("partial-negative-colour-k", "%s with partial colouring %v (a negative colour) returns nil error and %s", h.name, partial, f.Msg)
			}
			return f
		}
	}

	// DsaturExact
	if n <= 16 {
		var term coloring.Terminator
		var cancelled error
		switch c.Term {
		case 1:
			term = context.Background()
		case 2:
			ctx, cancel := context.WithCancel(context.Background())
			cancel()
			term = ctx
			cancelled = ctx.Err()
		case 3:
			term = neverDone{}
		}
		k, cs, err := coloring.DsaturExact(term, g)
		if err != nil && (cancelled == nil || err != cancelled) {
			return vk.Failf("dsaturexact-error", "error %v with terminator class %d", err, c.Term)
		}
		if f := checkColoring("dsaturexact", m, colResult{k, cs, nil}, nil, maxDeg); f != nil {
			return f
		}
		if chi >= 0 && n > 0 {
			if k < chi {
				return vk.Failf("dsaturexact-below-chi", "k=%d below the chromatic number %d", k, chi)
			}
			if err == nil && k != chi {
				return vk.Failf("dsaturexact-not-chromatic", "k=%d, chromatic number is %d (nil error)", k, chi)
			}
		}
		if err == nil && n > 0 {
			// never worse than a heuristic when it ran to completion
			if hk, _, _ := coloring.Dsatur(g, nil); k > hk {
				return vk.Failf("dsaturexact-worse-than-heuristic", "exact k=%d, Dsatur heuristic k=%d", k, hk)
			}
		}
	}
	// RecursiveLargestFirst (last: see withIndet)
	{
		k, cs := coloring.RecursiveLargestFirst(g)
		if f := checkColoring("rlf", m, colResult{k, cs, nil}, nil, maxDeg); f != nil {
			return f
		}
	}

	return nil
}

func checkSets(name string, colors map[int64]int) *vk.Failure {
	sets := coloring.Sets(colors)
	total := 0
	for col, ids := range sets {
		if !sort.SliceIsSorted(ids, func(i, j int) bool { return ids[i] < ids[j] }) {
			return vk.Failf(name+"-sets-unsorted", "Sets: colour %d ids %v not ascending", col, ids)
		}
		for i, id := range ids {
			if got, ok := colors[id]; !ok || got != col {
				return vk.Failf(name+"-sets-wrong", "Sets puts node %d under colour %d, its colour is %d", id, col, got)
			}
			if i > 0 && ids[i-1] == id {
				return vk.Failf(name+"-sets-duplicate", "Sets repeats node %d", id)
			}
		}
		total += len(ids)
	}
	if total != len(colors) {
		return vk.Failf(name+"-sets-count", "Sets covers %d nodes, colouring has %d", total, len(colors))
	}
	return nil
}

func drawPartial(t *rapid.T, g G) [][2]int {
	if g.N == 0 {
		return nil
	}
	switch rapid.IntRange(0, 5).Draw(t, "pcls") {
	case 0, 1:
		return nil
	case 2:
		// distinct colours: always proper
		k := rapid.IntRange(0, g.N).Draw(t, "pn")
		off := rapid.IntRange(0, 3).Draw(t, "poff")
		p := [][2]int{}
		for i := 0; i < k; i++ {
			v := rapid.IntRange(0, g.N-1).Draw(t, "pv")
			p = append(p, [2]int{v, v + off})
		}
		return p
	}
	k := rapid.IntRange(0, min(g.N, 8)).Draw(t, "pn")
	hi := rapid.IntRange(1, 6).Draw(t, "phi")
	lo := 0
	if rapid.IntRange(0, 4).Draw(t, "pneg") == 0 {
		lo = -2 // colours are ints; the documentation does not exclude negative ones
	}
	p := [][2]int{}
	for i := 0; i < k; i++ {
		p = append(p, [2]int{rapid.IntRange(0, g.N-1).Draw(t, "pv"), rapid.IntRange(lo, hi).Draw(t, "pc")})
	}
	return p
}

func TestColoring(t *testing.T) {
	blocks, total := exhPlan(false, vk.Pick(5, 6))
	vk.Enumerate(t, "coloring-exh", total, func(i int) colCase {
		g := exhG(false, blocks, i)
		c := colCase{G: g, Seed: [2]uint64{uint64(i), 7}, Term: i % 4}
		// partial colourings from the index: every third graph none
		if g.N > 0 && i%3 != 0 {
			r := vk.NewSplitMix(uint64(i) * 31)
			c.Partial = [][2]int{}
			for k := r.Intn(g.N + 1); k > 0; k-- {
				c.Partial = append(c.Partial, [2]int{r.Intn(g.N), r.Intn(3)})
			}
		}
		return c
	}, checkCol)
	vk.Run(t, "coloring", vk.Opts{Quick: 6000, Thorough: 120000, NoCrumb: true}, func(t *rapid.T) colCase {
		var g G
		if rapid.IntRange(0, 3).Draw(t, "szcls") > 0 {
			g = drawG(t, false, 10, undClasses, []int{contOrdered, contSimple, contIndet})
		} else {
			g = drawG(t, false, 40, undClasses, []int{contOrdered, contSimple, contIndet})
		}
		return colCase{G: g, Partial: drawPartial(t, g),
			Seed: [2]uint64{rapid.Uint64().Draw(t, "s0"), rapid.Uint64().Draw(t, "s1")},
			Term: rapid.IntRange(0, 3).Draw(t, "term")}
	}, checkCol)
}

var _ graph.Node = onode(0)
