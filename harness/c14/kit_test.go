package c14

import (
	"fmt"
	"runtime/debug"
	"sort"
	"strings"

	"gonum.org/v1/gonum/graph"
	"gonum.org/v1/gonum/graph/iterator"
	"gonum.org/v1/gonum/graph/multi"
	"gonum.org/v1/gonum/graph/simple"
	"pgregory.net/rapid"
	"verifharness/vk"
)

// G is the graph part of every case. Nodes are the indices 0..N-1; E lists
// the edges explicitly (so that rapid can shrink them); IDs selects how
// indices map to node IDs; Ord seeds the ID permutation, the iteration order
// of the harness container and the parallel-line multiplicities; Cont selects
// the container handed to gonum.
type G struct {
	N    int      `json:"n"`
	Dir  bool     `json:"dir"`
	E    [][2]int `json:"e"`
	IDs  int      `json:"ids"`  // 0: id=index, 1: a permutation of 0..n-1, 2: sparse, large and negative IDs
	Ord  uint64   `json:"ord"`  // seed of ID permutation / iteration order
	Cont int      `json:"cont"` // 0: harness container with case-determined iteration order, 1: gonum simple, 2: gonum multi
	Cls  string   `json:"cls,omitempty"`
}

const (
	contOrdered = 0
	contSimple  = 1
	contMulti   = 2
	// contIndet is the harness container with iterators of indeterminate
	// length: Nodes, From and To return iterators whose Len is negative, which
	// graph.Iterator allows ("the consuming function must be able to operate on
	// the items of the iterator directly").
	contIndet = 3
)

// indetNodes is a graph.Nodes of unknown length.
type indetNodes struct {
	ns []graph.Node
	i  int
}

func (it *indetNodes) Next() bool {
	if it.i < len(it.ns) {
		it.i++
		return true
	}
	it.i = len(it.ns) + 1
	return false
}

func (it *indetNodes) Node() graph.Node {
	if it.i < 1 || it.i > len(it.ns) {
		return nil
	}
	return it.ns[it.i-1]
}
func (it *indetNodes) Len() int { return -1 }
func (it *indetNodes) Reset()   { it.i = 0 }

func (g *obase) iter(ns []graph.Node) graph.Nodes {
	if g.indet {
		return &indetNodes{ns: append([]graph.Node(nil), ns...)}
	}
	if len(ns) == 0 {
		return graph.Empty
	}
	return iterator.NewOrderedNodes(append([]graph.Node(nil), ns...))
}

// M is the normalised model of a G: adjacency matrix, deduplicated edge list,
// ID map. Self-loops, out-of-range and duplicate edges of the case are dropped
// (shrinking can produce them), so every G denotes a valid self-loop-free graph.
type M struct {
	n     int
	dir   bool
	adj   [][]bool
	edges [][2]int // directed: (from,to); undirected: (min,max); in first-occurrence order
	id    []int64
	idx   map[int64]int
	c     G
}

func model(c G) *M {
	n := c.N
	if n < 0 {
		n = 0
	}
	m := &M{n: n, dir: c.Dir, c: c, idx: make(map[int64]int, n)}
	m.adj = make([][]bool, n)
	for i := range m.adj {
		m.adj[i] = make([]bool, n)
	}
	for _, e := range c.E {
		u, v := e[0], e[1]
		if u < 0 || v < 0 || u >= n || v >= n || u == v {
			continue
		}
		if !c.Dir && u > v {
			u, v = v, u
		}
		if m.adj[u][v] {
			continue
		}
		m.adj[u][v] = true
		if !c.Dir {
			m.adj[v][u] = true
		}
		m.edges = append(m.edges, [2]int{u, v})
	}
	m.id = idMap(n, c.IDs, c.Ord)
	for i, id := range m.id {
		m.idx[id] = i
	}
	return m
}

// idMap returns the node ID of every index.
func idMap(n, class int, seed uint64) []int64 {
	id := make([]int64, n)
	switch class {
	default:
		for i := range id {
			id[i] = int64(i)
		}
	case 1:
		p := vk.NewSplitMix(seed ^ 0x1d).Perm(n)
		for i := range id {
			id[i] = int64(p[i])
		}
	case 2:
		// n distinct values: a lattice around zero with a large step, the
		// two ends pushed to +-2^62; then permuted.
		vals := make([]int64, n)
		for k := range vals {
			vals[k] = int64(k-n/2)*1000003 + 17
		}
		if n >= 2 {
			vals[0] = -(1 << 62) - 5
			vals[n-1] = (1 << 62) + 9
		}
		p := vk.NewSplitMix(seed ^ 0x2e).Perm(n)
		for i := range id {
			id[i] = vals[p[i]]
		}
	}
	return id
}

func (m *M) degree(u int) int {
	d := 0
	for v := 0; v < m.n; v++ {
		if m.adj[u][v] {
			d++
		}
	}
	return d
}

// edgeKey is a canonical text of the labelled edge set (for NonTrivial hashes).
func (m *M) edgeKey() string {
	es := append([][2]int(nil), m.edges...)
	sort.Slice(es, func(i, j int) bool {
		if es[i][0] != es[j][0] {
			return es[i][0] < es[j][0]
		}
		return es[i][1] < es[j][1]
	})
	var sb strings.Builder
	fmt.Fprintf(&sb, "%d/%v/", m.n, m.dir)
	for _, e := range es {
		fmt.Fprintf(&sb, "%d-%d,", e[0], e[1])
	}
	fmt.Fprintf(&sb, "/ids%d/c%d", m.c.IDs, m.c.Cont)
	return sb.String()
}

// reach returns the reflexive-transitive closure of the adjacency relation.
func (m *M) reach() [][]bool {
	n := m.n
	r := make([][]bool, n)
	for i := range r {
		r[i] = append([]bool(nil), m.adj[i]...)
		r[i][i] = true
	}
	for k := 0; k < n; k++ {
		for i := 0; i < n; i++ {
			if !r[i][k] {
				continue
			}
			for j := 0; j < n; j++ {
				if r[k][j] {
					r[i][j] = true
				}
			}
		}
	}
	return r
}

// nodeIdx converts nodes returned by gonum to indices (same order); ok is false if a
// node is unknown or nil.
func (m *M) nodeIdx(ns []graph.Node) (out []int, ok bool) {
	out = make([]int, 0, len(ns))
	for _, x := range ns {
		if x == nil {
			return nil, false
		}
		i, has := m.idx[x.ID()]
		if !has {
			return nil, false
		}
		out = append(out, i)
	}
	return out, true
}

func sortedCopy(a []int) []int {
	b := append([]int(nil), a...)
	sort.Ints(b)
	return b
}

func setKey(a []int) string { return fmt.Sprint(sortedCopy(a)) }

// ---- containers --------------------------------------------------------------

type onode int64

func (n onode) ID() int64 { return int64(n) }

// obase is a read-only graph whose iteration orders are fixed by the case.
type obase struct {
	m     *M
	nodes []graph.Node   // iteration order of Nodes()
	from  [][]graph.Node // by index, iteration order of From
	to    [][]graph.Node
	w     func(u, v int) float64
	indet bool
}

func (g *obase) Node(id int64) graph.Node {
	if _, ok := g.m.idx[id]; ok {
		return onode(id)
	}
	return nil
}

func (g *obase) Nodes() graph.Nodes { return g.iter(g.nodes) }

func (g *obase) From(id int64) graph.Nodes {
	i, ok := g.m.idx[id]
	if !ok {
		return graph.Empty
	}
	return g.iter(g.from[i])
}

func (g *obase) HasEdgeBetween(x, y int64) bool {
	i, ok1 := g.m.idx[x]
	j, ok2 := g.m.idx[y]
	return ok1 && ok2 && (g.m.adj[i][j] || g.m.adj[j][i])
}

func (g *obase) weight(i, j int) float64 {
	if g.w == nil {
		return 1
	}
	if !g.m.dir && i > j {
		i, j = j, i
	}
	return g.w(i, j)
}

func (g *obase) Edge(u, v int64) graph.Edge {
	if e := g.WeightedEdge(u, v); e != nil {
		return e
	}
	return nil
}

func (g *obase) WeightedEdge(u, v int64) graph.WeightedEdge {
	i, ok1 := g.m.idx[u]
	j, ok2 := g.m.idx[v]
	if !ok1 || !ok2 || !g.m.adj[i][j] {
		return nil
	}
	return simple.WeightedEdge{F: onode(u), T: onode(v), W: g.weight(i, j)}
}

func (g *obase) Weight(x, y int64) (float64, bool) {
	i, ok1 := g.m.idx[x]
	j, ok2 := g.m.idx[y]
	if !ok1 || !ok2 {
		return 0, false
	}
	if i == j {
		return 0, true
	}
	if g.m.adj[i][j] {
		return g.weight(i, j), true
	}
	return 0, false
}

type odir struct{ obase }

func (g *odir) HasEdgeFromTo(u, v int64) bool {
	i, ok1 := g.m.idx[u]
	j, ok2 := g.m.idx[v]
	return ok1 && ok2 && g.m.adj[i][j]
}

func (g *odir) To(id int64) graph.Nodes {
	i, ok := g.m.idx[id]
	if !ok {
		return graph.Empty
	}
	return g.iter(g.to[i])
}

type oundir struct {
	obase
	edgeOrder [][2]int
}

func (g *oundir) EdgeBetween(x, y int64) graph.Edge { return g.Edge(x, y) }
func (g *oundir) WeightedEdgeBetween(x, y int64) graph.WeightedEdge {
	return g.WeightedEdge(x, y)
}
func (g *oundir) WeightedEdges() graph.WeightedEdges {
	if len(g.edgeOrder) == 0 {
		return graph.Empty
	}
	es := make([]graph.WeightedEdge, len(g.edgeOrder))
	for k, e := range g.edgeOrder {
		es[k] = simple.WeightedEdge{F: onode(g.m.id[e[0]]), T: onode(g.m.id[e[1]]), W: g.weight(e[0], e[1])}
	}
	return iterator.NewOrderedWeightedEdges(es)
}

func (m *M) newBase(salt uint64, w func(u, v int) float64) obase {
	r := vk.NewSplitMix(m.c.Ord ^ salt ^ 0xabcdef)
	g := obase{m: m, w: w, indet: m.c.Cont == contIndet}
	for _, i := range r.Perm(m.n) {
		g.nodes = append(g.nodes, onode(m.id[i]))
	}
	g.from = make([][]graph.Node, m.n)
	g.to = make([][]graph.Node, m.n)
	for u := 0; u < m.n; u++ {
		for _, v := range r.Perm(m.n) {
			if m.adj[u][v] {
				g.from[u] = append(g.from[u], onode(m.id[v]))
			}
		}
		for _, v := range r.Perm(m.n) {
			if m.adj[v][u] {
				g.to[u] = append(g.to[u], onode(m.id[v]))
			}
		}
	}
	return g
}

// directed builds the directed graph of the case in the container selected by
// c.Cont. salt varies the iteration order of the harness container.
func (m *M) directed(salt uint64) graph.Directed {
	switch m.c.Cont {
	case contSimple:
		g := simple.NewDirectedGraph()
		r := vk.NewSplitMix(m.c.Ord ^ salt ^ 0x51)
		for _, i := range r.Perm(m.n) {
			g.AddNode(simple.Node(m.id[i]))
		}
		for _, k := range r.Perm(len(m.edges)) {
			e := m.edges[k]
			g.SetEdge(simple.Edge{F: simple.Node(m.id[e[0]]), T: simple.Node(m.id[e[1]])})
		}
		return g
	case contMulti:
		g := multi.NewDirectedGraph()
		r := vk.NewSplitMix(m.c.Ord ^ salt ^ 0x52)
		for _, i := range r.Perm(m.n) {
			g.AddNode(multi.Node(m.id[i]))
		}
		lid := int64(0)
		for _, k := range r.Perm(len(m.edges)) {
			e := m.edges[k]
			for c := 1 + r.Intn(3)/2; c > 0; c-- { // one line, sometimes two
				g.SetLine(multi.Line{F: multi.Node(m.id[e[0]]), T: multi.Node(m.id[e[1]]), UID: lid})
				lid++
			}
		}
		return g
	}
	return &odir{m.newBase(salt, nil)}
}

func (m *M) undirected(salt uint64) graph.Undirected {
	switch m.c.Cont {
	case contSimple:
		g := simple.NewUndirectedGraph()
		r := vk.NewSplitMix(m.c.Ord ^ salt ^ 0x53)
		for _, i := range r.Perm(m.n) {
			g.AddNode(simple.Node(m.id[i]))
		}
		for _, k := range r.Perm(len(m.edges)) {
			e := m.edges[k]
			u, v := e[0], e[1]
			if r.Intn(2) == 0 {
				u, v = v, u
			}
			g.SetEdge(simple.Edge{F: simple.Node(m.id[u]), T: simple.Node(m.id[v])})
		}
		return g
	case contMulti:
		g := multi.NewUndirectedGraph()
		r := vk.NewSplitMix(m.c.Ord ^ salt ^ 0x54)
		for _, i := range r.Perm(m.n) {
			g.AddNode(multi.Node(m.id[i]))
		}
		lid := int64(0)
		for _, k := range r.Perm(len(m.edges)) {
			e := m.edges[k]
			for c := 1 + r.Intn(3)/2; c > 0; c-- {
				u, v := e[0], e[1]
				if r.Intn(2) == 0 {
					u, v = v, u
				}
				g.SetLine(multi.Line{F: multi.Node(m.id[u]), T: multi.Node(m.id[v]), UID: lid})
				lid++
			}
		}
		return g
	}
	return m.oundirected(salt, nil)
}

func (m *M) oundirected(salt uint64, w func(u, v int) float64) *oundir {
	g := &oundir{obase: m.newBase(salt, w)}
	r := vk.NewSplitMix(m.c.Ord ^ salt ^ 0x55)
	for _, k := range r.Perm(len(m.edges)) {
		e := m.edges[k]
		if r.Intn(2) == 0 {
			e[0], e[1] = e[1], e[0]
		}
		g.edgeOrder = append(g.edgeOrder, e)
	}
	return g
}

// ---- generators --------------------------------------------------------------

var undClasses = []string{"sparse", "half", "dense", "comps", "cycle", "cliquey", "bipartite", "tree"}
var dirClasses = []string{"sparse", "half", "dense", "comps", "dag", "cycle", "cliquey", "bipartite", "tree"}

// drawSize draws n in [0,maxN], biased to small graphs (the brute-force
// oracles and the interesting tie-breaks live there) with a tail to maxN.
func drawSize(t *rapid.T, maxN int) int {
	k := rapid.IntRange(0, 99).Draw(t, "nmix")
	switch {
	case k < 55:
		return rapid.IntRange(0, min(8, maxN)).Draw(t, "n")
	case k < 85:
		return rapid.IntRange(min(5, maxN), min(16, maxN)).Draw(t, "n")
	}
	return rapid.IntRange(min(10, maxN), maxN).Draw(t, "n")
}

func coin(t *rapid.T, pct int) bool {
	// 0 shrinks to "absent".
	return rapid.IntRange(0, 99).Draw(t, "p") >= 100-pct
}

// drawG draws a graph of one of the density classes. classes restricts the
// classes; conts the containers.
func drawG(t *rapid.T, dir bool, maxN int, classes []string, conts []int) G {
	cls := rapid.SampledFrom(classes).Draw(t, "cls")
	n := drawSize(t, maxN)
	c := G{N: n, Dir: dir, Cls: cls}
	c.IDs = rapid.IntRange(0, 2).Draw(t, "ids")
	c.Ord = rapid.Uint64().Draw(t, "ord")
	c.Cont = rapid.SampledFrom(conts).Draw(t, "cont")
	var und [][2]int // undirected skeleton u<v
	pairs := func(pct int, ok func(u, v int) bool) {
		for u := 0; u < n; u++ {
			for v := u + 1; v < n; v++ {
				if (ok == nil || ok(u, v)) && coin(t, pct) {
					und = append(und, [2]int{u, v})
				}
			}
		}
	}
	switch cls {
	case "sparse":
		if n >= 2 {
			k := rapid.IntRange(0, 2*n).Draw(t, "m")
			for i := 0; i < k; i++ {
				u := rapid.IntRange(0, n-1).Draw(t, "u")
				v := rapid.IntRange(0, n-1).Draw(t, "v")
				if u != v {
					und = append(und, [2]int{min(u, v), max(u, v)})
				}
			}
		}
	case "half":
		pairs(50, nil)
	case "dense":
		pairs(88, nil)
	case "comps":
		grp := make([]int, n)
		k := rapid.IntRange(2, 5).Draw(t, "groups")
		for i := range grp {
			grp[i] = rapid.IntRange(0, k-1).Draw(t, "grp")
		}
		pairs(55, func(u, v int) bool { return grp[u] == grp[v] })
	case "dag":
		pairs(35, nil)
	case "cycle":
		if n >= 3 {
			k := rapid.IntRange(3, n).Draw(t, "clen")
			for i := 0; i < k; i++ {
				und = append(und, [2]int{i, (i + 1) % k}) // orientation i -> i+1 kept below
			}
			for ch := rapid.IntRange(0, 2).Draw(t, "chords"); ch > 0; ch-- {
				u := rapid.IntRange(0, n-1).Draw(t, "u")
				v := rapid.IntRange(0, n-1).Draw(t, "v")
				if u != v {
					und = append(und, [2]int{u, v})
				}
			}
		}
	case "cliquey":
		if n >= 2 {
			k := rapid.IntRange(1, 5).Draw(t, "cliques")
			for ; k > 0; k-- {
				sz := rapid.IntRange(2, min(6, n)).Draw(t, "csz")
				mem := rapid.SliceOfNDistinct(rapid.IntRange(0, n-1), sz, sz, rapid.ID[int]).Draw(t, "cmem")
				for a := 0; a < len(mem); a++ {
					for b := a + 1; b < len(mem); b++ {
						und = append(und, [2]int{min(mem[a], mem[b]), max(mem[a], mem[b])})
					}
				}
			}
		}
	case "bipartite":
		side := make([]bool, n)
		for i := range side {
			side[i] = rapid.Bool().Draw(t, "side")
		}
		pairs(45, func(u, v int) bool { return side[u] != side[v] })
	case "tree":
		for v := 1; v < n; v++ {
			und = append(und, [2]int{rapid.IntRange(0, v-1).Draw(t, "parent"), v})
		}
	}
	if !dir {
		c.E = und
		return c
	}
	for _, e := range und {
		switch {
		case cls == "dag":
			c.E = append(c.E, e) // index order is a topological order; the ID map hides it
		case cls == "cycle":
			c.E = append(c.E, e)
		default:
			switch rapid.IntRange(0, 3).Draw(t, "orient") {
			case 0:
				c.E = append(c.E, e)
			case 1:
				c.E = append(c.E, [2]int{e[1], e[0]})
			default:
				c.E = append(c.E, e, [2]int{e[1], e[0]})
			}
		}
	}
	return c
}

// ---- exhaustive enumeration ----------------------------------------------------

type exhBlock struct {
	n, ids int
	count  int
}

// exhPlan lists, for graphs on 0..maxN nodes and the three ID maps, how many
// labelled graphs there are.
func exhPlan(dir bool, maxN int) (blocks []exhBlock, total int) {
	for n := 0; n <= maxN; n++ {
		p := n * (n - 1) / 2
		if dir {
			p = n * (n - 1)
		}
		for ids := 0; ids < 3; ids++ {
			if n < 2 && ids > 0 {
				continue // the ID maps coincide up to an irrelevant value
			}
			blocks = append(blocks, exhBlock{n, ids, 1 << p})
			total += 1 << p
		}
	}
	return
}

// exhG decodes case i of the plan.
func exhG(dir bool, blocks []exhBlock, i int) G {
	for _, b := range blocks {
		if i >= b.count {
			i -= b.count
			continue
		}
		c := G{N: b.n, Dir: dir, IDs: b.ids, Cls: "exhaustive"}
		c.Ord = uint64(i)*0x9e3779b97f4a7c15 + uint64(b.n*7+b.ids)
		bit := 0
		for u := 0; u < b.n; u++ {
			for v := 0; v < b.n; v++ {
				if u == v || (!dir && v < u) {
					continue
				}
				if i>>bit&1 == 1 {
					c.E = append(c.E, [2]int{u, v})
				}
				bit++
			}
		}
		// Containers rotate deterministically.
		c.Cont = (i + b.ids) % 2
		return c
	}
	panic("exhG: index out of range")
}

// ---- indeterminate iterators ------------------------------------------------------

// indetRoutine names the routine a failure key belongs to (the key up to the
// first assertion word), for the narrow keys of failures that only occur when
// the graph's iterators report a negative Len.
func indetRoutine(key string) string {
	key = strings.TrimPrefix(key, "und-")
	for _, p := range []string{"sortstab", "sort", "tarjan", "pathexists", "ispathin", "equal", "dircycles",
		"lt", "slt", "intervals", "cc", "ucycles", "bk", "degeneracy", "kcore", "cliquegraph", "kclique",
		"und-pathexists", "und-ispathin", "und-equal", "prim", "kruskal", "bfs", "dfs", "traverse",
		"dsaturexact", "dsatur", "welshpowell", "sansegundo", "randomized", "rlf",
		"cartesian", "tensor", "lexicographical", "strong", "conormal", "modularext", "modular"} {
		if strings.HasPrefix(key, p+"-") || key == p {
			return p
		}
	}
	if i := strings.Index(key, "-"); i > 0 {
		return key[:i]
	}
	return key
}

// withIndet runs check on g. For the indeterminate-length container the same
// case is first checked on the ordinary harness container: a failure there is
// reported as it is; a failure that only occurs with the negative Len gets the
// key "<routine>-indeterminate-len".
func withIndet(g G, check func(G) *vk.Failure) *vk.Failure {
	if g.Cont != contIndet {
		return check(g)
	}
	h := g
	h.Cont = contOrdered
	if f := check(h); f != nil {
		return f
	}
	f, routine, text := indetGuard(func() *vk.Failure { return check(g) })
	if routine != "" {
		return vk.Failf(routine+"-indeterminate-len", "only with iterators whose Len() is negative (graph.Iterator allows that): the call panics: %s", text)
	}
	if f == nil {
		return nil
	}
	return vk.Failf(indetRoutine(f.Key)+"-indeterminate-len", "only with iterators whose Len() is negative (graph.Iterator allows that): [%s] %s", f.Key, f.Msg)
}

// indetGuard runs f; a panic is attributed to the exported gonum function the
// harness called (the outermost gonum frame below the harness frames).
func indetGuard(f func() *vk.Failure) (fl *vk.Failure, routine, text string) {
	defer func() {
		r := recover()
		if r == nil {
			return
		}
		text = fmt.Sprint(r)
		routine = "unknown"
		for _, line := range strings.Split(string(debug.Stack()), "\n") {
			if strings.HasPrefix(line, "verifharness/c14.") && routine != "unknown" {
				break
			}
			if strings.HasPrefix(line, "gonum.org/v1/gonum/graph/") {
				name := line[strings.LastIndex(line, "/")+1:]
				if i := strings.Index(name, "("); i >= 0 {
					if j := strings.LastIndex(name[:i], "."); j >= 0 && !strings.Contains(name[:i], ".(") {
						name = name[j+1 : i]
					} else {
						continue // a method or closure: keep looking for the exported entry point
					}
				}
				if name != "" && name[0] >= 'A' && name[0] <= 'Z' {
					routine = strings.ToLower(name)
				}
			}
		}
		if alias, ok := map[string]string{"recursivelargestfirst": "rlf", "dominators": "lt", "dominatorsslt": "slt",
			"directedcyclesin": "dircycles", "undirectedcyclesin": "ucycles", "bronkerbosch": "bk",
			"connectedcomponents": "cc", "degeneracyordering": "degeneracy", "kcliquecommunities": "kclique",
			"tarjanscc": "tarjan", "sortstabilized": "sortstab", "pathexistsin": "pathexists"}[routine]; ok {
			routine = alias
		}
	}()
	return f(), "", ""
}
