package c14

import (
	"fmt"
	"os"
	"runtime"
	"time"
)

// A broken graph algorithm can loop while accumulating results (for example a
// cycle enumeration that never blocks a node). The kit's watchdog turns a case
// without progress into a hang report after hang_s seconds; this guard bounds
// the memory such a case may take from the (shared) machine in the meantime:
// the process exits and the driver re-executes the breadcrumb case.
const memLimit = 2 << 30

func init() {
	go func() {
		var ms runtime.MemStats
		for {
			time.Sleep(250 * time.Millisecond)
			runtime.ReadMemStats(&ms)
			if ms.HeapInuse > memLimit {
				// garbage that has not been collected yet is not accumulation
				runtime.GC()
				runtime.ReadMemStats(&ms)
			}
			if ms.HeapInuse > memLimit {
				fmt.Fprintf(os.Stderr, "c14: heap in use %d MiB exceeds the guard of %d MiB: a library call is accumulating memory without bound; exiting 5\n", ms.HeapInuse>>20, memLimit>>20)
				os.Exit(5)
			}
		}
	}()
}
