package c14

import (
	"fmt"
	"sort"
	"strings"
	"testing"

	"gonum.org/v1/gonum/graph"
	"gonum.org/v1/gonum/graph/flow"
	"pgregory.net/rapid"
	"verifharness/vk"
)

// ---- Dominators, DominatorsSLT, Intervals --------------------------------------

type domCase struct {
	G
	Root int `json:"root"` // index of the root / entry node
}

// reachAvoiding returns the nodes reachable from root without passing through
// avoid (avoid<0: none).
func reachAvoiding(m *M, root, avoid int) []bool {
	seen := make([]bool, m.n)
	if root == avoid {
		return seen
	}
	seen[root] = true
	stack := []int{root}
	for len(stack) > 0 {
		u := stack[len(stack)-1]
		stack = stack[:len(stack)-1]
		for v := 0; v < m.n; v++ {
			if m.adj[u][v] && !seen[v] && v != avoid {
				seen[v] = true
				stack = append(stack, v)
			}
		}
	}
	return seen
}

// idoms evaluates the set definition: u dominates v iff every path from root to
// v contains u, i.e. v is unreachable once u is removed. idom(v) is the strict
// dominator of v that is dominated by every other strict dominator of v.
func idoms(m *M, root int) (idom []int, reach []bool) {
	n := m.n
	reach = reachAvoiding(m, root, -1)
	dom := make([][]bool, n) // dom[u][v]: u strictly dominates v
	cnt := make([]int, n)    // number of strict dominators of v
	for u := 0; u < n; u++ {
		dom[u] = make([]bool, n)
		if !reach[u] {
			continue
		}
		var without []bool
		if u != root {
			without = reachAvoiding(m, root, u)
		} else {
			without = make([]bool, n)
		}
		for v := 0; v < n; v++ {
			if v != u && reach[v] && !without[v] {
				dom[u][v] = true
				cnt[v]++
			}
		}
	}
	idom = make([]int, n)
	for v := range idom {
		idom[v] = -1
		if !reach[v] || v == root {
			continue
		}
		// the strict dominator with the most strict dominators of its own
		best := -1
		for u := 0; u < n; u++ {
			if dom[u][v] && (best < 0 || cnt[u] > cnt[best]) {
				best = u
			}
		}
		idom[v] = best
	}
	return idom, reach
}

func checkDomTree(name string, m *M, root int, idom []int, reach []bool, dt flow.DominatorTree) *vk.Failure {
	if dt.Root() == nil || dt.Root().ID() != m.id[root] {
		return vk.Failf(name+"-root", "Root() = %v, want %d", dt.Root(), m.id[root])
	}
	children := make([][]int, m.n)
	for v := 0; v < m.n; v++ {
		got := dt.DominatorOf(m.id[v])
		switch {
		case idom[v] < 0:
			if got != nil {
				why := "unreachable from the root"
				if v == root {
					why = "the root"
				}
				return vk.Failf(name+"-extra", "DominatorOf(%d) = %d, but the node is %s", m.id[v], got.ID(), why)
			}
		case got == nil:
			return vk.Failf(name+"-missing", "DominatorOf(%d) = nil, want %d (root %d)", m.id[v], m.id[idom[v]], m.id[root])
		case got.ID() != m.id[idom[v]]:
			return vk.Failf(name+"-idom", "DominatorOf(%d) = %d, want %d (root %d)", m.id[v], got.ID(), m.id[idom[v]], m.id[root])
		}
		if idom[v] >= 0 {
			children[idom[v]] = append(children[idom[v]], v)
		}
	}
	for u := 0; u < m.n; u++ {
		got, ok := m.nodeIdx(dt.DominatedBy(m.id[u]))
		if !ok {
			return vk.Failf(name+"-dominatedby-foreign", "DominatedBy(%d) contains a nil or unknown node", m.id[u])
		}
		sort.Ints(got)
		if fmt.Sprint(got) != fmt.Sprint(children[u]) {
			return vk.Failf(name+"-dominatedby", "DominatedBy(%d) = indices %v, want %v", m.id[u], got, children[u])
		}
	}
	return nil
}

func checkDom(c domCase) *vk.Failure {
	return withIndet(c.G, func(g G) *vk.Failure { c2 := c; c2.G = g; return checkDom1(c2) })
}

func checkDom1(c domCase) *vk.Failure {
	c.Dir = true
	m := model(c.G)
	if m.n == 0 {
		return nil
	}
	root := ((c.Root % m.n) + m.n) % m.n
	idom, reach := idoms(m, root)
	nontrivial := false
	nreach := 0
	for v := range idom {
		if reach[v] {
			nreach++
		}
		if idom[v] >= 0 && idom[v] != root {
			nontrivial = true
		}
	}
	vk.Class("dom/" + c.Cls)
	if nontrivial {
		vk.Class("dom/non-root-dominator")
		vk.NonTrivial("dom", m.edgeKey(), root)
	}
	if nreach < m.n {
		vk.Class("dom/with-unreachable")
	}
	vk.Sample("dir-dom", c)
	g := m.directed(0)
	lt := flow.Dominators(onode(m.id[root]), g)
	if f := checkDomTree("lt", m, root, idom, reach, lt); f != nil {
		return f
	}
	slt := flow.DominatorsSLT(onode(m.id[root]), g)
	if f := checkDomTree("slt", m, root, idom, reach, slt); f != nil {
		return f
	}
	return nil
}

// checkIntervals: on a flow graph (every node reachable from the entry) the
// intervals partition the nodes; every interval is single-entry through its
// head; all closed paths inside an interval pass through the head; intervals
// are maximal; the interval graph has an arc I->J exactly when some arc of g
// leads from I to J.
func checkIntervals(c domCase) *vk.Failure {
	return withIndet(c.G, func(g G) *vk.Failure { c2 := c; c2.G = g; return checkIntervals1(c2) })
}

func checkIntervals1(c domCase) *vk.Failure {
	c.Dir = true
	m0 := model(c.G)
	if m0.n == 0 {
		return nil
	}
	root0 := ((c.Root % m0.n) + m0.n) % m0.n
	// Restrict to the part reachable from the entry (the definition is about
	// flow graphs): relabel indices.
	reach := reachAvoiding(m0, root0, -1)
	newIdx := make([]int, m0.n)
	k := 0
	for i := range newIdx {
		newIdx[i] = -1
		if reach[i] {
			newIdx[i] = k
			k++
		}
	}
	c2 := c.G
	c2.N = k
	c2.E = nil
	for _, e := range m0.edges {
		if reach[e[0]] && reach[e[1]] {
			c2.E = append(c2.E, [2]int{newIdx[e[0]], newIdx[e[1]]})
		}
	}
	m := model(c2)
	root := newIdx[root0]
	n := m.n
	vk.Class("intervals/" + c.Cls)
	vk.Sample("dir-intervals", c)
	g := m.directed(0)
	var ig flow.IntervalGraph
	if r := vk.Call(func() { ig = flow.Intervals(g, m.id[root]) }); r.Outcome != vk.Returned {
		key := "intervals-panic"
		if r.Outcome == vk.RuntimeFault && strings.Contains(r.Text, "nil pointer dereference") {
			// Specific key: a header node is never given an interval and
			// linkIntervals dereferences node2interval[succ] == nil.
			key = "intervals-panic-nil-deref"
		}
		return vk.Failf(key, "Intervals(g, %d) on a flow graph ended in %v: %s", m.id[root], r.Outcome, r.Text)
	}
	rootHasPred := false
	for u := 0; u < n; u++ {
		if m.adj[u][root] {
			rootHasPred = true
		}
	}
	in := make([]int, n) // interval of each node
	for i := range in {
		in[i] = -1
	}
	keys := make([]int64, 0, len(ig.Intervals))
	for k := range ig.Intervals {
		keys = append(keys, k)
	}
	sort.Slice(keys, func(i, j int) bool { return keys[i] < keys[j] })
	heads := make(map[int64]int)
	for _, key := range keys {
		iv := ig.Intervals[key]
		if iv == nil {
			return vk.Failf("intervals-nil", "Intervals[%d] is nil", key)
		}
		is, ok := m.nodeIdx(graph.NodesOf(iv.Nodes()))
		if !ok {
			return vk.Failf("intervals-foreign-node", "interval %d has a nil or unknown node", key)
		}
		for _, v := range is {
			if in[v] >= 0 {
				if rootHasPred {
					// Specific key: the entry node has predecessors (a loop back to
					// the entry); findInterval absorbs the entry (and then possibly
					// further, already assigned nodes) into a later interval.
					return vk.Failf("intervals-entry-reabsorbed", "node %d is in intervals %d and %d; the entry node %d has predecessors", m.id[v], in[v], key, m.id[root])
				}
				return vk.Failf("intervals-overlap", "node %d is in intervals %d and %d", m.id[v], in[v], key)
			}
			in[v] = int(key)
		}
		if iv.Head() == nil {
			return vk.Failf("intervals-head", "interval %d has no head", key)
		}
		h, ok := m.idx[iv.Head().ID()]
		if !ok || in[h] != int(key) {
			return vk.Failf("intervals-head", "head %d of interval %d is not one of its nodes", iv.Head().ID(), key)
		}
		heads[key] = h
	}
	for v := 0; v < n; v++ {
		if in[v] < 0 {
			return vk.Failf("intervals-not-partition", "node %d (reachable from entry %d) is in no interval", m.id[v], m.id[root])
		}
	}
	if len(keys) > 1 {
		vk.Class("intervals/several")
		vk.NonTrivial("intervals", m.edgeKey(), root)
	}
	if in[root] < 0 || heads[int64(in[root])] != root {
		return vk.Failf("intervals-entry", "the entry node %d is not the head of its interval", m.id[root])
	}
	if ig.Head() == nil || ig.Head().ID() != m.id[root] {
		return vk.Failf("intervals-graph-head", "IntervalGraph.Head() = %v, want entry %d", ig.Head(), m.id[root])
	}
	for v := 0; v < n; v++ {
		h := heads[int64(in[v])]
		if v == h {
			// A head other than the entry has a predecessor outside its interval.
			if v != root {
				out := false
				for u := 0; u < n; u++ {
					if m.adj[u][v] && in[u] != in[v] {
						out = true
					}
				}
				if !out {
					return vk.Failf("intervals-head-no-entry", "head %d has no predecessor outside its interval", m.id[v])
				}
			}
			continue
		}
		// single entry: every predecessor of a non-head member is a member
		for u := 0; u < n; u++ {
			if m.adj[u][v] && in[u] != in[v] {
				return vk.Failf("intervals-second-entry", "arc %d->%d enters interval %d (head %d) at a node other than the head", m.id[u], m.id[v], in[v], m.id[h])
			}
		}
	}
	// every closed path of an interval contains the head; maximality
	for _, key := range keys {
		h := heads[key]
		c3 := G{N: n, Dir: true}
		for _, e := range m.edges {
			if in[e[0]] == int(key) && in[e[1]] == int(key) && e[0] != h && e[1] != h {
				c3.E = append(c3.E, e)
			}
		}
		r := model(c3).reach()
		for _, e := range c3.E {
			if r[e[1]][e[0]] {
				return vk.Failf("intervals-cycle-avoids-head", "interval %d has a closed path through %d->%d that avoids its head %d", key, m.id[e[0]], m.id[e[1]], m.id[h])
			}
		}
		for v := 0; v < n; v++ {
			if in[v] == int(key) || v == root {
				continue
			}
			all, any := true, false
			for u := 0; u < n; u++ {
				if m.adj[u][v] {
					any = true
					if in[u] != int(key) {
						all = false
					}
				}
			}
			if any && all {
				return vk.Failf("intervals-not-maximal", "all predecessors of node %d lie in interval %d (head %d) but the node is not in it", m.id[v], key, m.id[h])
			}
		}
	}
	// internal arcs of every interval
	for _, a := range keys {
		iv := ig.Intervals[a]
		for _, e := range m.edges {
			inside := in[e[0]] == int(a) && in[e[1]] == int(a)
			if got := iv.HasEdgeFromTo(m.id[e[0]], m.id[e[1]]); got != inside {
				return vk.Failf("intervals-internal-arcs", "Interval %d HasEdgeFromTo(%d,%d)=%v want %v", a, m.id[e[0]], m.id[e[1]], got, inside)
			}
		}
	}
	// interval graph arcs: I->J exactly when some arc of g leads from I to J
	want := map[[2]int]bool{}
	outDeg := map[int]int{}
	inDeg := map[int]int{}
	for _, e := range m.edges {
		k := [2]int{in[e[0]], in[e[1]]}
		if k[0] != k[1] && !want[k] {
			want[k] = true
			outDeg[k[0]]++
			inDeg[k[1]]++
		}
	}
	for _, a := range keys {
		for _, b := range keys {
			if a == b {
				continue
			}
			w := want[[2]int{int(a), int(b)}]
			got := ig.HasEdgeFromTo(a, b)
			if got == w {
				continue
			}
			if w && (outDeg[int(a)] >= 2 || inDeg[int(b)] >= 2) {
				// Specific key: an interval with two or more outgoing (or
				// incoming) interval-graph arcs keeps only one of them.
				return vk.Failf("intervals-graph-arc-lost", "IntervalGraph.HasEdgeFromTo(%d,%d)=false although an arc of g leads from interval %d to interval %d (interval %d has %d successors, interval %d has %d predecessors)", a, b, a, b, a, outDeg[int(a)], b, inDeg[int(b)])
			}
			return vk.Failf("intervals-graph-arcs", "IntervalGraph.HasEdgeFromTo(%d,%d)=%v, definition gives %v", a, b, got, w)
		}
	}
	return nil
}

func TestDirDom(t *testing.T) {
	blocks, total := exhPlan(true, vk.Pick(3, 4))
	maxN := vk.Pick(3, 4)
	gen := func(i int) domCase { return domCase{G: exhG(true, blocks, i/maxN), Root: i % maxN} }
	vk.Enumerate(t, "dir-dom-exh", total*maxN, gen, checkDom)
	draw := func(t *rapid.T) domCase {
		g := drawG(t, true, 40, dirClasses, []int{contOrdered, contOrdered, contSimple, contIndet})
		return domCase{G: g, Root: rapid.IntRange(0, max(g.N-1, 0)).Draw(t, "root")}
	}
	vk.Run(t, "dir-dom", vk.Opts{Quick: 8000, Thorough: 150000, NoCrumb: true}, draw, checkDom)
	// Larger flow graphs (50..300 nodes, every node reachable from node 0, long
	// DFS chains plus back and cross arcs): these exercise path compression and
	// the size-balanced linking of the two Lengauer-Tarjan variants. The arc list
	// is expanded from a drawn seed but stored in the case.
	vk.Run(t, "dir-dom-big", vk.Opts{Quick: 300, Thorough: 6000, NoCrumb: true}, func(t *rapid.T) domCase {
		n := rapid.IntRange(50, 300).Draw(t, "n")
		chain := rapid.IntRange(0, 100).Draw(t, "chainpct")
		extra := rapid.IntRange(0, 3*n).Draw(t, "extra")
		r := vk.NewSplitMix(rapid.Uint64().Draw(t, "seed"))
		g := G{N: n, Dir: true, Cls: "flowlike", IDs: rapid.IntRange(0, 2).Draw(t, "ids"), Ord: r.Uint64(),
			Cont: rapid.SampledFrom([]int{contOrdered, contSimple}).Draw(t, "cont")}
		for v := 1; v < n; v++ {
			u := v - 1
			if r.Intn(100) >= chain {
				u = r.Intn(v)
			}
			g.E = append(g.E, [2]int{u, v})
		}
		for k := 0; k < extra; k++ {
			u, v := r.Intn(n), r.Intn(n)
			if u != v {
				g.E = append(g.E, [2]int{u, v})
			}
		}
		return domCase{G: g, Root: 0}
	}, checkDom)
	vk.Enumerate(t, "dir-intervals-exh", total*maxN, gen, checkIntervals)
	vk.Run(t, "dir-intervals", vk.Opts{Quick: 4000, Thorough: 80000, NoCrumb: true}, draw, checkIntervals)
}
