package c14

import (
	"fmt"
	"math/big"
	"sort"
	"strings"
	"testing"

	"gonum.org/v1/gonum/graph"
	"gonum.org/v1/gonum/graph/community"
	"gonum.org/v1/gonum/graph/simple"
	"gonum.org/v1/gonum/graph/topo"
	"pgregory.net/rapid"
	"verifharness/vk"
)

// ---- ConnectedComponents, UndirectedCyclesIn, BronKerbosch, DegeneracyOrdering,
// ---- KCore, CliqueGraph, KCliqueCommunities --------------------------------------

type undCase struct {
	G
	K int `json:"k"` // k for KCore / KCliqueCommunities beyond the systematic small values
}

// components labels the connected components (undirected reachability).
func components(m *M) (comp []int, nc int) {
	comp = make([]int, m.n)
	for i := range comp {
		comp[i] = -1
	}
	for s := 0; s < m.n; s++ {
		if comp[s] >= 0 {
			continue
		}
		comp[s] = nc
		stack := []int{s}
		for len(stack) > 0 {
			u := stack[len(stack)-1]
			stack = stack[:len(stack)-1]
			for v := 0; v < m.n; v++ {
				if (m.adj[u][v] || m.adj[v][u]) && comp[v] < 0 {
					comp[v] = nc
					stack = append(stack, v)
				}
			}
		}
		nc++
	}
	return
}

// maximalCliques enumerates the maximal cliques by plain extension: a clique R
// with candidate set P (common neighbours later than the last added) and
// excluded set X (common neighbours already tried) is maximal iff both are
// empty. For n <= 12 it is cross-checked against subset enumeration.
func maximalCliques(m *M) [][]int {
	var out [][]int
	var rec func(r, p, x []int)
	rec = func(r, p, x []int) {
		if len(p) == 0 && len(x) == 0 {
			out = append(out, append([]int(nil), r...))
			return
		}
		for len(p) > 0 {
			v := p[0]
			var np, nx []int
			for _, w := range p {
				if m.adj[v][w] {
					np = append(np, w)
				}
			}
			for _, w := range x {
				if m.adj[v][w] {
					nx = append(nx, w)
				}
			}
			rec(append(r, v), np, nx)
			p = p[1:]
			x = append(x, v)
		}
	}
	all := make([]int, m.n)
	for i := range all {
		all[i] = i
	}
	if m.n > 0 { // the empty set is not counted as a clique of the empty graph
		rec(nil, all, nil)
	}
	return out
}

func maximalCliquesBySubsets(m *M) map[string]bool {
	n := m.n
	nb := make([]uint32, n)
	for u := 0; u < n; u++ {
		for v := 0; v < n; v++ {
			if m.adj[u][v] {
				nb[u] |= 1 << v
			}
		}
	}
	isClique := func(s uint32) bool {
		for u := 0; u < n; u++ {
			if s>>u&1 == 1 && (s&^(1<<u))&^nb[u] != 0 {
				return false
			}
		}
		return true
	}
	out := map[string]bool{}
	for s := uint32(1); s < 1<<n; s++ {
		if !isClique(s) {
			continue
		}
		maximal := true
		for v := 0; v < n; v++ {
			if s>>v&1 == 0 && s&^nb[v] == 0 {
				maximal = false
				break
			}
		}
		if maximal {
			var mem []int
			for v := 0; v < n; v++ {
				if s>>v&1 == 1 {
					mem = append(mem, v)
				}
			}
			out[fmt.Sprint(mem)] = true
		}
	}
	return out
}

// coreNumbers returns the core number of every node by the peeling definition:
// the k-core is what remains after repeatedly deleting nodes of degree < k.
func coreNumbers(m *M) (core []int, degeneracy int) {
	n := m.n
	core = make([]int, n)
	for k := 1; ; k++ {
		alive := make([]bool, n)
		cnt := 0
		for i := range alive {
			alive[i] = core[i] == k-1 // survivors of the (k-1)-core
			if alive[i] {
				cnt++
			}
		}
		for changed := true; changed; {
			changed = false
			for u := 0; u < n; u++ {
				if !alive[u] {
					continue
				}
				d := 0
				for v := 0; v < n; v++ {
					if alive[v] && m.adj[u][v] {
						d++
					}
				}
				if d < k {
					alive[u] = false
					changed = true
				}
			}
		}
		any := false
		for u := range alive {
			if alive[u] {
				core[u] = k
				any = true
			}
		}
		if !any {
			return core, k - 1
		}
	}
}

func checkUnd(c undCase) *vk.Failure {
	return withIndet(c.G, func(g G) *vk.Failure { c2 := c; c2.G = g; return checkUnd1(c2) })
}

func checkUnd1(c undCase) *vk.Failure {
	c.Dir = false
	m := model(c.G)
	n := m.n
	comp, nc := components(m)
	cliques := maximalCliques(m)
	wantCl := make(map[string]bool, len(cliques))
	maxClique := 0
	for _, cl := range cliques {
		wantCl[setKey(cl)] = true
		if len(cl) > maxClique {
			maxClique = len(cl)
		}
	}
	if n <= 12 && n > 0 {
		ref := maximalCliquesBySubsets(m)
		if len(ref) != len(wantCl) {
			return vk.Failf("harness-clique-oracles-disagree", "extension %d, subsets %d", len(wantCl), len(ref))
		}
		for k := range ref {
			if !wantCl[k] {
				return vk.Failf("harness-clique-oracles-disagree", "subset enumeration finds %s", k)
			}
		}
	}
	cyclomatic := len(m.edges) - n + nc
	vk.Class("und/" + c.Cls)
	vk.Class(fmt.Sprintf("und/cont=%d", c.Cont))
	if maxClique >= 3 {
		vk.Class("und/clique>=3")
	}
	if cyclomatic >= 1 {
		vk.Class("und/has-cycle")
	}
	if nc >= 2 {
		vk.Class("und/components>=2")
	}
	if maxClique >= 3 || cyclomatic >= 1 {
		vk.NonTrivial("und", m.edgeKey(), c.K)
	}
	vk.Sample("und-struct", c)
	g := m.undirected(0)

	// ConnectedComponents
	cc := topo.ConnectedComponents(g)
	if f := checkPartition("cc", m, cc, comp); f != nil {
		return f
	}

	// PathExistsIn, IsPathIn, Equal on undirected graphs.
	if f := checkUndPaths(m, g, comp, c.Ord); f != nil {
		return f
	}

	// UndirectedCyclesIn: a cycle basis.
	if f := checkCycleBasis(m, topo.UndirectedCyclesIn(g), cyclomatic); f != nil {
		return f
	}

	// BronKerbosch
	got := topo.BronKerbosch(g)
	gotCl := make(map[string]bool, len(got))
	for _, cl := range got {
		is, ok := m.nodeIdx(cl)
		if !ok {
			return vk.Failf("bk-foreign-node", "clique %s has a nil or unknown node", fmtNodes(cl))
		}
		for a := 0; a < len(is); a++ {
			for b := a + 1; b < len(is); b++ {
				if is[a] == is[b] {
					return vk.Failf("bk-repeated-node", "clique %s repeats a node", fmtNodes(cl))
				}
				if !m.adj[is[a]][is[b]] {
					return vk.Failf("bk-not-clique", "%s is not a clique: %d and %d are not adjacent", fmtNodes(cl), m.id[is[a]], m.id[is[b]])
				}
			}
		}
		k := setKey(is)
		if !wantCl[k] {
			return vk.Failf("bk-not-maximal", "clique %s is not maximal", fmtNodes(cl))
		}
		if gotCl[k] {
			return vk.Failf("bk-duplicate", "clique %s reported twice", fmtNodes(cl))
		}
		gotCl[k] = true
	}
	for _, cl := range cliques {
		if !gotCl[setKey(cl)] {
			return vk.Failf("bk-missing", "maximal clique %v (ids) not reported; %d reported, %d exist", m.ids(cl), len(got), len(cliques))
		}
	}

	// DegeneracyOrdering and KCore
	if f := checkCores(m, g); f != nil {
		return f
	}

	// CliqueGraph
	if f := checkCliqueGraph(m, g, cliques); f != nil {
		return f
	}

	// KCliqueCommunities
	ks := []int{1, 2, 3, 4}
	if c.K >= 5 && len(m.edges) <= 70 {
		ks = append(ks, c.K)
	}
	for _, k := range ks {
		if f := checkKCommunities(m, g, k, comp, nc); f != nil {
			return f
		}
	}
	if f := vk.MustPanic("kclique-k0", func() { community.KCliqueCommunities(0, g) }); f != nil {
		return f
	}
	if f := checkUndEqual(m, g, c.Ord); f != nil {
		return f
	}
	// KCore for k beyond degeneracy+1 and for negative k (every node has at
	// least k neighbours when k <= 0: the k-core is the whole graph).
	if n > 0 {
		core, d := coreNumbers(m)
		if c.K > d+1 || c.K < 0 {
			if f := checkKCore(m, g, c.K, core, d); f != nil {
				return f
			}
		}
	}
	return nil
}

func checkUndPaths(m *M, g graph.Undirected, comp []int, seed uint64) *vk.Failure {
	n := m.n
	if n == 0 {
		return nil
	}
	q := vk.NewSplitMix(seed ^ 0x7a7a)
	for k := 0; k < min(n*n, 30); k++ {
		u, v := k/n%n, k%n
		if n*n > 30 {
			u, v = q.Intn(n), q.Intn(n)
		}
		if got := topo.PathExistsIn(g, onode(m.id[u]), onode(m.id[v])); got != (comp[u] == comp[v]) {
			return vk.Failf("und-pathexists", "PathExistsIn(%d,%d)=%v, same component=%v", m.id[u], m.id[v], got, comp[u] == comp[v])
		}
	}
	for k := 0; k < 4; k++ {
		var p []graph.Node
		want := true
		l := q.Intn(5)
		cur := q.Intn(n)
		for s := 0; s <= l; s++ {
			p = append(p, onode(m.id[cur]))
			nxt := q.Intn(n)
			var outs []int
			for v := 0; v < n; v++ {
				if m.adj[cur][v] {
					outs = append(outs, v)
				}
			}
			if len(outs) > 0 && q.Intn(3) > 0 {
				nxt = outs[q.Intn(len(outs))]
			}
			if s < l && !m.adj[cur][nxt] {
				want = false
			}
			cur = nxt
		}
		if got := topo.IsPathIn(g, p); got != want {
			return vk.Failf("und-ispathin", "IsPathIn(%s)=%v want %v", fmtNodes(p), got, want)
		}
	}
	return nil
}

// checkUndEqual: topo.Equal on undirected graphs (called last: see withIndet).
func checkUndEqual(m *M, g graph.Undirected, seed uint64) *vk.Failure {
	n := m.n
	if n == 0 {
		return nil
	}
	q := vk.NewSplitMix(seed ^ 0x7b7b)
	g2 := m.undirected(0x99)
	if !topo.Equal(g, g2) || !topo.Equal(g2, g) {
		return vk.Failf("und-equal-same", "Equal(g, copy of g) = false")
	}
	if n >= 2 {
		u := q.Intn(n)
		v := (u + 1 + q.Intn(n-1)) % n
		c2 := m.c
		c2.E = nil
		for _, e := range m.edges {
			if !(e[0] == min(u, v) && e[1] == max(u, v)) {
				c2.E = append(c2.E, e)
			}
		}
		if !m.adj[u][v] {
			c2.E = append(c2.E, [2]int{u, v})
		}
		m2 := model(c2)
		if topo.Equal(g, m2.undirected(0x98)) {
			return vk.Failf("und-equal-differs-one-edge", "Equal = true for graphs differing in edge %d-%d", m.id[u], m.id[v])
		}
	}
	return nil
}

func (m *M) ids(is []int) []int64 {
	out := make([]int64, len(is))
	for k, i := range is {
		out[k] = m.id[i]
	}
	return out
}

// checkPartition: blocks is a partition of V that equals the labelling want.
func checkPartition(name string, m *M, blocks [][]graph.Node, want []int) *vk.Failure {
	got := make([]int, m.n)
	for i := range got {
		got[i] = -1
	}
	for bi, b := range blocks {
		is, ok := m.nodeIdx(b)
		if !ok {
			return vk.Failf(name+"-foreign-node", "block %d has a nil or unknown node", bi)
		}
		if len(is) == 0 {
			return vk.Failf(name+"-empty-block", "block %d is empty", bi)
		}
		for _, i := range is {
			if got[i] >= 0 {
				return vk.Failf(name+"-not-partition", "node %d appears twice", m.id[i])
			}
			got[i] = bi
		}
	}
	for i := 0; i < m.n; i++ {
		if got[i] < 0 {
			return vk.Failf(name+"-not-partition", "node %d is in no block", m.id[i])
		}
	}
	for i := 0; i < m.n; i++ {
		for j := i + 1; j < m.n; j++ {
			if (got[i] == got[j]) != (want[i] == want[j]) {
				return vk.Failf(name+"-wrong-blocks", "nodes %d,%d: same block=%v, definition=%v", m.id[i], m.id[j], got[i] == got[j], want[i] == want[j])
			}
		}
	}
	return nil
}

func checkCycleBasis(m *M, cycles [][]graph.Node, cyclomatic int) *vk.Failure {
	eidx := map[[2]int]int{}
	for k, e := range m.edges {
		eidx[e] = k
	}
	var vecs []*big.Int
	for _, cy := range cycles {
		is, ok := m.nodeIdx(cy)
		if !ok {
			return vk.Failf("ucycles-foreign-node", "cycle %s has a nil or unknown node", fmtNodes(cy))
		}
		if len(is) < 4 || is[0] != is[len(is)-1] {
			return vk.Failf("ucycles-not-closed", "cycle %s is not of the form [v0 ... vk v0] with at least three distinct nodes", fmtNodes(cy))
		}
		is = is[:len(is)-1]
		seen := map[int]bool{}
		v := new(big.Int)
		for k, u := range is {
			if seen[u] {
				return vk.Failf("ucycles-not-simple", "cycle %s repeats a node", fmtNodes(cy))
			}
			seen[u] = true
			w := is[(k+1)%len(is)]
			if !m.adj[u][w] {
				return vk.Failf("ucycles-not-in-graph", "cycle %s uses the absent edge %d-%d", fmtNodes(cy), m.id[u], m.id[w])
			}
			v.SetBit(v, eidx[[2]int{min(u, w), max(u, w)}], 1)
		}
		vecs = append(vecs, v)
	}
	if len(cycles) != cyclomatic {
		return vk.Failf("ucycles-count", "%d cycles returned, a cycle basis has |E|-|V|+c = %d elements", len(cycles), cyclomatic)
	}
	// independence over GF(2): Gaussian elimination keyed by the highest bit
	pivot := map[int]*big.Int{}
	for k, v := range vecs {
		v = new(big.Int).Set(v)
		for v.Sign() != 0 {
			h := v.BitLen() - 1
			p, ok := pivot[h]
			if !ok {
				pivot[h] = v
				break
			}
			v.Xor(v, p)
		}
		if v.Sign() == 0 {
			return vk.Failf("ucycles-dependent", "cycle %s is a symmetric difference of earlier cycles: not a basis", fmtNodes(cycles[k]))
		}
	}
	return nil
}

func checkCores(m *M, g graph.Undirected) *vk.Failure {
	n := m.n
	if n == 0 {
		if f := vk.MustReturn("degeneracy-empty-graph", func() { topo.DegeneracyOrdering(g) }); f != nil {
			return f
		}
		return nil
	}
	core, d := coreNumbers(m)
	order, cores := topo.DegeneracyOrdering(g)
	ois, ok := m.nodeIdx(order)
	if !ok || len(ois) != n {
		return vk.Failf("degeneracy-order-not-permutation", "order %s", fmtNodes(order))
	}
	pos := make([]int, n)
	for i := range pos {
		pos[i] = -1
	}
	for p, i := range ois {
		if pos[i] >= 0 {
			return vk.Failf("degeneracy-order-not-permutation", "order %s repeats a node", fmtNodes(order))
		}
		pos[i] = p
	}
	// Degeneracy ordering: every node has at most d neighbours on one side
	// (the doc does not say which side; accept either direction).
	if !backDegreeAtMost(m, ois, d) && !backDegreeAtMost(m, reversed(ois), d) {
		return vk.Failf("degeneracy-order-back-degree", "order %s: some node has more than %d (the degeneracy) neighbours before it, and the same holds for the reversed order", fmtNodes(order), d)
	}
	if len(cores) != d+1 {
		return vk.Failf("degeneracy-core-count", "%d core classes returned, degeneracy is %d", len(cores), d)
	}
	for k, cl := range cores {
		is, ok := m.nodeIdx(cl)
		if !ok {
			return vk.Failf("degeneracy-core-foreign-node", "cores[%d] = %s", k, fmtNodes(cl))
		}
		var want []int
		for v := 0; v < n; v++ {
			if core[v] == k {
				want = append(want, v)
			}
		}
		if setKey(is) != setKey(want) {
			return vk.Failf("degeneracy-core-class", "cores[%d] = ids %v; nodes of core number %d are %v (so the union of cores[%d:] is not the %d-core)", k, m.ids(sortedCopy(is)), k, m.ids(want), k, k)
		}
	}
	for k := 0; k <= d+1; k++ {
		if f := checkKCore(m, g, k, core, d); f != nil {
			return f
		}
	}
	return nil
}

func checkKCore(m *M, g graph.Undirected, k int, core []int, d int) *vk.Failure {
	var kc []graph.Node
	r := vk.Call(func() { kc = topo.KCore(k, g) })
	if r.Outcome != vk.Returned {
		if k < 0 {
			// Specific key: negative k.
			return vk.Failf("kcore-panic-negative-k", "KCore(%d, g) ended in %v: %s (every node has at least %d neighbours: the %d-core is the whole graph)", k, r.Outcome, r.Text, k, k)
		}
		if k > d+1 {
			// Specific key: k beyond degeneracy+1 (the k-core is empty).
			return vk.Failf("kcore-panic-k-beyond-degeneracy", "KCore(%d, g) on a graph of degeneracy %d ended in %v: %s (the %d-core is the empty set)", k, d, r.Outcome, r.Text, k)
		}
		return vk.Failf("kcore-panic", "KCore(%d, g) ended in %v: %s", k, r.Outcome, r.Text)
	}
	is, ok := m.nodeIdx(kc)
	if !ok {
		return vk.Failf("kcore-foreign-node", "KCore(%d) = %s", k, fmtNodes(kc))
	}
	var want []int
	for v := 0; v < m.n; v++ {
		if core[v] >= k {
			want = append(want, v)
		}
	}
	if len(is) != len(want) || setKey(is) != setKey(want) {
		return vk.Failf("kcore-set", "KCore(%d) = ids %v, the %d-core (peeling definition) is %v", k, m.ids(sortedCopy(is)), k, m.ids(want))
	}
	// "nodes in an optimal ordering for the coloring number": inside the core,
	// at most d neighbours on one side.
	sub := make([]int, 0, len(is))
	sub = append(sub, is...)
	if !backDegreeAtMost(m, sub, d) && !backDegreeAtMost(m, reversed(sub), d) {
		return vk.Failf("kcore-order", "KCore(%d) order %s is not a degeneracy ordering of the core", k, fmtNodes(kc))
	}
	return nil
}

func reversed(a []int) []int {
	b := make([]int, len(a))
	for i, v := range a {
		b[len(a)-1-i] = v
	}
	return b
}

// backDegreeAtMost: every node of the sequence has at most d neighbours earlier
// in the sequence.
func backDegreeAtMost(m *M, seq []int, d int) bool {
	seen := make([]bool, m.n)
	for _, u := range seq {
		c := 0
		for v := 0; v < m.n; v++ {
			if seen[v] && m.adj[u][v] {
				c++
			}
		}
		if c > d {
			return false
		}
		seen[u] = true
	}
	return true
}

func checkCliqueGraph(m *M, g graph.Undirected, cliques [][]int) *vk.Failure {
	dst := simple.NewUndirectedGraph()
	topo.CliqueGraph(dst, g)
	nodes := graph.NodesOf(dst.Nodes())
	if len(nodes) != len(cliques) {
		return vk.Failf("cliquegraph-node-count", "%d nodes, %d maximal cliques", len(nodes), len(cliques))
	}
	want := map[string]bool{}
	for _, cl := range cliques {
		want[setKey(cl)] = true
	}
	mem := map[int64][]int{}
	seen := map[string]bool{}
	for _, x := range nodes {
		cn, ok := x.(topo.Clique)
		if !ok {
			return vk.Failf("cliquegraph-node-type", "node %T is not a topo.Clique", x)
		}
		is, ok := m.nodeIdx(cn.Nodes())
		if !ok {
			return vk.Failf("cliquegraph-foreign-node", "clique node %d: %s", cn.ID(), fmtNodes(cn.Nodes()))
		}
		k := setKey(is)
		if !want[k] || seen[k] {
			return vk.Failf("cliquegraph-nodes", "clique node %d = %s is not a maximal clique or is repeated", cn.ID(), fmtNodes(cn.Nodes()))
		}
		seen[k] = true
		mem[cn.ID()] = sortedCopy(is)
	}
	for _, a := range nodes {
		for _, b := range nodes {
			if a.ID() >= b.ID() {
				continue
			}
			var common []int
			for _, u := range mem[a.ID()] {
				for _, v := range mem[b.ID()] {
					if u == v {
						common = append(common, u)
					}
				}
			}
			e := dst.Edge(a.ID(), b.ID())
			if (e != nil) != (len(common) > 0) {
				return vk.Failf("cliquegraph-edges", "cliques %v and %v share %d nodes, edge present=%v", m.ids(mem[a.ID()]), m.ids(mem[b.ID()]), len(common), e != nil)
			}
			if e == nil {
				continue
			}
			ce, ok := e.(topo.CliqueGraphEdge)
			if !ok {
				return vk.Failf("cliquegraph-edge-type", "edge %T is not a topo.CliqueGraphEdge", e)
			}
			is, ok := m.nodeIdx(ce.Nodes())
			if !ok || setKey(is) != setKey(common) || len(is) != len(common) {
				return vk.Failf("cliquegraph-edge-nodes", "edge between cliques %v and %v carries %s, the common nodes are %v", m.ids(mem[a.ID()]), m.ids(mem[b.ID()]), fmtNodes(ce.Nodes()), m.ids(common))
			}
		}
	}
	return nil
}

// kCommunities evaluates the definition of Palla et al.: the k-cliques
// (k-subsets that are cliques) are linked when they share k-1 nodes; a
// community is the union of a connected class of k-cliques.
func kCommunities(m *M, k int) map[string]bool {
	var kcl [][]int
	var rec func(start int, cur []int)
	rec = func(start int, cur []int) {
		if len(cur) == k {
			kcl = append(kcl, append([]int(nil), cur...))
			return
		}
		for v := start; v < m.n; v++ {
			ok := true
			for _, u := range cur {
				if !m.adj[u][v] {
					ok = false
					break
				}
			}
			if ok {
				rec(v+1, append(cur, v))
			}
		}
	}
	rec(0, nil)
	parent := make([]int, len(kcl))
	for i := range parent {
		parent[i] = i
	}
	var find func(int) int
	find = func(x int) int {
		for parent[x] != x {
			parent[x] = parent[parent[x]]
			x = parent[x]
		}
		return x
	}
	for i := range kcl {
		for j := i + 1; j < len(kcl); j++ {
			sh := 0
			for _, u := range kcl[i] {
				for _, v := range kcl[j] {
					if u == v {
						sh++
					}
				}
			}
			if sh >= k-1 {
				parent[find(i)] = find(j)
			}
		}
	}
	union := map[int]map[int]bool{}
	for i, cl := range kcl {
		r := find(i)
		if union[r] == nil {
			union[r] = map[int]bool{}
		}
		for _, v := range cl {
			union[r][v] = true
		}
	}
	out := map[string]bool{}
	for _, s := range union {
		var mem []int
		for v := range s {
			mem = append(mem, v)
		}
		out[setKey(mem)] = true
	}
	return out
}

func checkKCommunities(m *M, g graph.Undirected, k int, comp []int, nc int) *vk.Failure {
	got := community.KCliqueCommunities(k, g)
	name := fmt.Sprintf("kclique-k%d", min(k, 5))
	switch k {
	case 1:
		if len(got) != 1 {
			return vk.Failf(name+"-count", "k=1: %d communities, want the single set of all nodes", len(got))
		}
		is, ok := m.nodeIdx(got[0])
		all := make([]int, m.n)
		for i := range all {
			all[i] = i
		}
		if !ok || len(is) != m.n || setKey(is) != setKey(all) {
			return vk.Failf(name+"-set", "k=1: community %s is not the node set", fmtNodes(got[0]))
		}
		return nil
	case 2:
		return checkPartition(name, m, got, comp)
	}
	// number of k-cliques can be large on dense graphs: the generator keeps dense
	// graphs small.
	want := kCommunities(m, k)
	inComm := make([]bool, m.n)
	for key := range want {
		for _, f := range strings.Fields(strings.Trim(key, "[]")) {
			var v int
			fmt.Sscan(f, &v)
			inComm[v] = true
		}
	}
	seen := map[string]bool{}
	single := map[int]bool{}
	for _, cm := range got {
		is, ok := m.nodeIdx(cm)
		if !ok {
			return vk.Failf(name+"-foreign-node", "community %s", fmtNodes(cm))
		}
		for a := 0; a < len(is); a++ {
			for b := a + 1; b < len(is); b++ {
				if is[a] == is[b] {
					return vk.Failf(name+"-repeated-node", "community %s repeats a node", fmtNodes(cm))
				}
			}
		}
		if len(is) < k {
			// Nodes outside every k-clique community are returned as singletons.
			if len(is) != 1 || inComm[is[0]] || single[is[0]] {
				return vk.Failf(name+"-small-community", "community %s has fewer than k=%d nodes and is not a singleton of a node outside all communities", fmtNodes(cm), k)
			}
			single[is[0]] = true
			continue
		}
		key := setKey(is)
		if !want[key] {
			return vk.Failf(name+"-not-a-community", "community ids %v is not a union of a class of adjacent %d-cliques (k-1 shared nodes); the definition gives %d communities", m.ids(sortedCopy(is)), k, len(want))
		}
		if seen[key] {
			return vk.Failf(name+"-duplicate", "community %v returned twice", m.ids(sortedCopy(is)))
		}
		seen[key] = true
	}
	if len(seen) != len(want) {
		return vk.Failf(name+"-missing", "%d communities of >= %d nodes returned, the definition gives %d", len(seen), k, len(want))
	}
	return nil
}

func drawUnd(t *rapid.T) undCase {
	var g G
	conts := []int{contOrdered, contOrdered, contSimple, contMulti, contIndet}
	switch rapid.IntRange(0, 9).Draw(t, "szcls") {
	case 0, 1, 2, 3, 4, 5:
		g = drawG(t, false, 12, undClasses, conts)
	case 6, 7:
		g = drawG(t, false, 18, undClasses, conts)
	default:
		g = drawG(t, false, 40, []string{"sparse", "comps", "cycle", "cliquey", "bipartite", "tree"}, conts)
	}
	k := 0
	switch rapid.IntRange(0, 7).Draw(t, "kbig") {
	case 0, 1:
		k = rapid.IntRange(5, 45).Draw(t, "k")
	case 2:
		k = rapid.IntRange(-3, -1).Draw(t, "kneg")
	}
	return undCase{G: g, K: k}
}

func TestUndStruct(t *testing.T) {
	blocks, total := exhPlan(false, vk.Pick(5, 6))
	vk.Enumerate(t, "und-struct-exh", total, func(i int) undCase {
		g := exhG(false, blocks, i)
		if i%5 == 4 {
			g.Cont = contMulti
		}
		return undCase{G: g, K: 0}
	}, checkUnd)
	vk.Run(t, "und-struct", vk.Opts{Quick: 8000, Thorough: 150000, NoCrumb: true}, drawUnd, checkUnd)
}

var _ = sort.Ints
