package c14

import (
	"fmt"
	"math"
	"sort"
	"testing"

	"gonum.org/v1/gonum/graph"
	"gonum.org/v1/gonum/graph/path"
	"gonum.org/v1/gonum/graph/simple"
	"pgregory.net/rapid"
	"verifharness/vk"
)

// ---- Prim, Kruskal -----------------------------------------------------------------

type mstCase struct {
	G
	W    []int `json:"w"`    // weight numerators per model edge (missing entries: 1); weight = W/4
	Wcls int   `json:"wcls"` // 0: as drawn, 1: all equal, 2: distinct, 3: as drawn with numerators >= 7 replaced by +Inf
}

func (c mstCase) weights(m *M) []float64 {
	w := make([]float64, len(m.edges))
	for k := range w {
		v := 4
		if k < len(c.W) {
			v = c.W[k]
		}
		switch c.Wcls {
		case 1:
			v = 4
		case 2:
			v = 4*k - 9 // distinct, some negative
		}
		w[k] = float64(v) / 4 // dyadic: all sums exact
		if c.Wcls == 3 && v >= 7 {
			w[k] = math.Inf(1) // an edge of infinite weight is still an edge
		}
	}
	return w
}

type uf []int

func newUF(n int) uf {
	p := make(uf, n)
	for i := range p {
		p[i] = i
	}
	return p
}
func (p uf) find(x int) int {
	for p[x] != x {
		p[x] = p[p[x]]
		x = p[x]
	}
	return x
}
func (p uf) union(a, b int) bool {
	a, b = p.find(a), p.find(b)
	if a == b {
		return false
	}
	p[a] = b
	return true
}

// minForestWeight: harness Kruskal; for <= 12 edges also the minimum over all
// edge subsets that form a spanning forest.
func minForestWeight(m *M, w []float64, nc int) (float64, *vk.Failure) {
	ord := make([]int, len(m.edges))
	for i := range ord {
		ord[i] = i
	}
	sort.SliceStable(ord, func(i, j int) bool { return w[ord[i]] < w[ord[j]] })
	p := newUF(m.n)
	var kr float64
	for _, k := range ord {
		if p.union(m.edges[k][0], m.edges[k][1]) {
			kr += w[k]
		}
	}
	if len(m.edges) <= 12 {
		best, found := 0.0, false
		need := m.n - nc
		for s := 0; s < 1<<len(m.edges); s++ {
			cnt := 0
			for b := s; b != 0; b &= b - 1 {
				cnt++
			}
			if cnt != need {
				continue
			}
			q := newUF(m.n)
			ok := true
			var tot float64
			for k := range m.edges {
				if s>>k&1 == 1 {
					if !q.union(m.edges[k][0], m.edges[k][1]) {
						ok = false
						break
					}
					tot += w[k]
				}
			}
			if ok && (!found || tot < best) {
				best, found = tot, true
			}
		}
		if !found || best != kr {
			return 0, vk.Failf("harness-mst-oracles-disagree", "kruskal %v, brute force %v (found=%v)", kr, best, found)
		}
	}
	return kr, nil
}

func checkMST(c mstCase) *vk.Failure {
	return withIndet(c.G, func(g G) *vk.Failure { c2 := c; c2.G = g; return checkMST1(c2) })
}

func checkMST1(c mstCase) *vk.Failure {
	c.Dir = false
	m := model(c.G)
	w := c.weights(m)
	comp, nc := components(m)
	want, f := minForestWeight(m, w, nc)
	if f != nil {
		return f
	}
	widx := map[[2]int]float64{}
	for k, e := range m.edges {
		widx[e] = w[k]
	}
	wf := func(u, v int) float64 { return widx[[2]int{u, v}] }
	vk.Class("mst/" + c.Cls)
	vk.Class(fmt.Sprintf("mst/wcls=%d", c.Wcls))
	if len(m.edges) > m.n-nc {
		vk.Class("mst/has-choice")
		vk.NonTrivial("mst", m.edgeKey(), fmt.Sprint(w))
	}
	vk.Sample("und-mst", c)

	var g interface {
		graph.WeightedUndirected
		WeightedEdges() graph.WeightedEdges
	}
	if c.Cont == contSimple {
		sg := simple.NewWeightedUndirectedGraph(0, 0)
		r := vk.NewSplitMix(c.Ord ^ 0x61)
		for _, i := range r.Perm(m.n) {
			sg.AddNode(simple.Node(m.id[i]))
		}
		for _, k := range r.Perm(len(m.edges)) {
			e := m.edges[k]
			sg.SetWeightedEdge(simple.WeightedEdge{F: simple.Node(m.id[e[0]]), T: simple.Node(m.id[e[1]]), W: w[k]})
		}
		g = sg
	} else {
		g = m.oundirected(0, wf)
	}
	for _, alg := range []string{"prim", "kruskal"} {
		dst := simple.NewWeightedUndirectedGraph(0, 0)
		var got float64
		if alg == "prim" {
			got = path.Prim(dst, g)
		} else {
			got = path.Kruskal(dst, g)
		}
		// dst: nodes = V
		dn, ok := m.nodeIdx(graph.NodesOf(dst.Nodes()))
		if !ok || len(dn) != m.n {
			return vk.Failf(alg+"-nodes", "dst has %d nodes (or foreign ones), g has %d", len(dn), m.n)
		}
		// edges of dst are edges of g with their weights
		p := newUF(m.n)
		var sum float64
		ne := 0
		es := dst.WeightedEdges()
		for es.Next() {
			e := es.WeightedEdge()
			u, ok1 := m.idx[e.From().ID()]
			v, ok2 := m.idx[e.To().ID()]
			if !ok1 || !ok2 || !m.adj[u][v] {
				return vk.Failf(alg+"-foreign-edge", "dst edge %d-%d is not an edge of g", e.From().ID(), e.To().ID())
			}
			if e.Weight() != wf(min(u, v), max(u, v)) {
				return vk.Failf(alg+"-edge-weight", "dst edge %d-%d has weight %v, in g %v", e.From().ID(), e.To().ID(), e.Weight(), wf(min(u, v), max(u, v)))
			}
			if !p.union(u, v) {
				return vk.Failf(alg+"-cycle", "dst contains a cycle through %d-%d", e.From().ID(), e.To().ID())
			}
			sum += e.Weight()
			ne++
		}
		if ne != m.n-nc {
			if alg == "prim" && c.Wcls == 3 && ne < m.n-nc {
				// Specific key: a node whose only connections have weight +Inf is
				// never attached (keys start at +Inf and an update needs w < key).
				return vk.Failf("prim-inf-weight-not-spanning", "with edges of weight +Inf, dst has %d edges; a spanning forest of g (%d nodes, %d components) has %d", ne, m.n, nc, m.n-nc)
			}
			return vk.Failf(alg+"-not-spanning", "dst has %d edges; a spanning forest of g (%d nodes, %d components) has %d", ne, m.n, nc, m.n-nc)
		}
		for i := 0; i < m.n; i++ {
			for j := i + 1; j < m.n; j++ {
				if (p.find(i) == p.find(j)) != (comp[i] == comp[j]) {
					return vk.Failf(alg+"-components", "nodes %d,%d: connected in dst=%v, in g=%v", m.id[i], m.id[j], p.find(i) == p.find(j), comp[i] == comp[j])
				}
			}
		}
		if got != sum {
			return vk.Failf(alg+"-returned-weight", "returned weight %v, the edges of dst sum to %v", got, sum)
		}
		if sum != want {
			return vk.Failf(alg+"-not-minimum", "forest weight %v, minimum spanning forest weight %v", sum, want)
		}
	}
	// "If dst has nodes that exist in g, Prim/Kruskal will panic."
	if m.n > 0 {
		for _, alg := range []string{"prim", "kruskal"} {
			dst := simple.NewWeightedUndirectedGraph(0, 0)
			dst.AddNode(simple.Node(m.id[int(c.Ord%uint64(m.n))]))
			if f := vk.MustPanic(alg+"-dst-has-node", func() {
				if alg == "prim" {
					path.Prim(dst, g)
				} else {
					path.Kruskal(dst, g)
				}
			}); f != nil {
				return f
			}
		}
	}
	return nil
}

func TestUndMST(t *testing.T) {
	blocks, total := exhPlan(false, vk.Pick(5, 6))
	vk.Enumerate(t, "und-mst-exh", total, func(i int) mstCase {
		g := exhG(false, blocks, i)
		r := vk.NewSplitMix(uint64(i) + 99)
		w := make([]int, len(g.E))
		for k := range w {
			w[k] = r.Intn(4) * 2 // few values: many ties
		}
		return mstCase{G: g, W: w, Wcls: i % 3 / 2 * 2} // mostly drawn weights, one third distinct
	}, checkMST)
	vk.Run(t, "und-mst", vk.Opts{Quick: 6000, Thorough: 120000, NoCrumb: true}, func(t *rapid.T) mstCase {
		g := drawG(t, false, 40, undClasses, []int{contOrdered, contOrdered, contSimple, contIndet})
		// one numerator per drawn edge is enough (the model has at most that many)
		w := rapid.SliceOfN(rapid.IntRange(-8, 12), len(g.E), len(g.E)).Draw(t, "w")
		return mstCase{G: g, W: w, Wcls: rapid.SampledFrom([]int{0, 0, 0, 1, 2, 3}).Draw(t, "wcls")}
	}, checkMST)
}
