package c14

import (
	"fmt"
	"testing"

	"gonum.org/v1/gonum/graph"
	"gonum.org/v1/gonum/graph/traverse"
	"pgregory.net/rapid"
	"verifharness/vk"
)

// ---- traverse.BreadthFirst, traverse.DepthFirst ----------------------------------------

type travCase struct {
	G
	Root   int    `json:"root"`
	Filter uint64 `json:"filter"` // 0: no Traverse filter; else seed of the set of forbidden edges
	Target uint64 `json:"target"` // seed of the until-predicate (set of target nodes)
	Depth  int    `json:"depth"`  // BFS: until also stops at depth >= Depth when Depth > 0
}

// allowed reports whether the Traverse filter lets the edge u->v through.
func (c travCase) allowed(dir bool, u, v int) bool {
	if c.Filter == 0 {
		return true
	}
	if !dir && u > v {
		u, v = v, u
	}
	h := vk.NewSplitMix(c.Filter ^ uint64(u*131+v)*0x9e37).Uint64()
	return h%4 != 0
}

func (c travCase) isTarget(v int) bool {
	if c.Target == 0 {
		return false
	}
	return vk.NewSplitMix(c.Target^uint64(v)*0x51ed).Uint64()%5 == 0
}

// hops returns BFS hop distances from root over allowed edges (-1: unreachable).
func hops(m *M, c travCase, root int) []int {
	d := make([]int, m.n)
	for i := range d {
		d[i] = -1
	}
	d[root] = 0
	q := []int{root}
	for len(q) > 0 {
		u := q[0]
		q = q[1:]
		for v := 0; v < m.n; v++ {
			if m.adj[u][v] && d[v] < 0 && c.allowed(m.dir, u, v) {
				d[v] = d[u] + 1
				q = append(q, v)
			}
		}
	}
	return d
}

func checkTraverse(c travCase) *vk.Failure {
	return withIndet(c.G, func(g G) *vk.Failure { c2 := c; c2.G = g; return checkTraverse1(c2) })
}

func checkTraverse1(c travCase) *vk.Failure {
	m := model(c.G)
	n := m.n
	vk.Class(fmt.Sprintf("trav/%s/dir=%v", c.Cls, c.Dir))
	vk.Class(fmt.Sprintf("trav/cont=%d", c.Cont))
	var g graph.Graph
	if c.Dir {
		g = m.directed(0)
	} else {
		g = m.undirected(0)
	}
	vk.Sample("traverse", c)
	if n == 0 {
		return nil
	}
	root := ((c.Root % n) + n) % n
	dist := hops(m, c, root)
	nreach := 0
	for _, d := range dist {
		if d >= 0 {
			nreach++
		}
	}
	if nreach >= 3 && nreach < n || c.Filter != 0 && nreach >= 3 {
		vk.NonTrivial("trav", m.edgeKey(), root, c.Filter, c.Target, c.Depth)
	}
	if c.Filter != 0 {
		vk.Class("trav/filtered")
	}
	var filter func(graph.Edge) bool
	var traversed map[[2]int]int
	var badEdge *vk.Failure
	if c.Filter != 0 {
		filter = func(e graph.Edge) bool {
			if e == nil {
				badEdge = vk.Failf("traverse-nil-edge", "Traverse was called with a nil edge")
				return false
			}
			u, ok1 := m.idx[e.From().ID()]
			v, ok2 := m.idx[e.To().ID()]
			if !ok1 || !ok2 || !(m.adj[u][v] || (!m.dir && m.adj[v][u])) {
				badEdge = vk.Failf("traverse-foreign-edge", "Traverse was called with %d->%d, not an edge of g", e.From().ID(), e.To().ID())
				return false
			}
			traversed[[2]int{u, v}]++
			return c.allowed(m.dir, u, v)
		}
	}
	rootNode := g.Node(m.id[root])

	// -- full walks (until == nil): Visit exactly once on every reachable node.
	for _, kind := range []string{"bfs", "dfs"} {
		visits := make([]int, n)
		var foreign *vk.Failure
		visit := func(x graph.Node) {
			i, ok := m.idx[x.ID()]
			if !ok {
				foreign = vk.Failf(kind+"-visit-foreign", "Visit called with unknown node %d", x.ID())
				return
			}
			visits[i]++
		}
		traversed = map[[2]int]int{}
		var res graph.Node
		var visited func(graph.Node) bool
		if kind == "bfs" {
			w := traverse.BreadthFirst{Visit: visit, Traverse: filter}
			res = w.Walk(g, rootNode, nil)
			visited = w.Visited
		} else {
			w := traverse.DepthFirst{Visit: visit, Traverse: filter}
			res = w.Walk(g, rootNode, nil)
			visited = w.Visited
		}
		if foreign != nil {
			return foreign
		}
		if badEdge != nil {
			return badEdge
		}
		if res != nil {
			return vk.Failf(kind+"-nil-until-result", "Walk with until=nil returned node %d", res.ID())
		}
		for v := 0; v < n; v++ {
			want := 0
			if dist[v] >= 0 {
				want = 1
			}
			if visits[v] != want {
				return vk.Failf(kind+"-visit-count", "root %d: Visit called %d times on node %d, reachable=%v", m.id[root], visits[v], m.id[v], dist[v] >= 0)
			}
			if visited(onode(m.id[v])) != (dist[v] >= 0) {
				return vk.Failf(kind+"-visited", "root %d: Visited(%d)=%v, reachable=%v", m.id[root], m.id[v], !(dist[v] >= 0), dist[v] >= 0)
			}
		}
		if filter != nil {
			// "Traverse is called on all edges that may be traversed during the
			// walk. This includes edges that would hop to an already visited node."
			for u := 0; u < n; u++ {
				for v := 0; v < n; v++ {
					if !m.adj[u][v] {
						continue
					}
					called := traversed[[2]int{u, v}] > 0
					if !m.dir {
						called = called || traversed[[2]int{v, u}] > 0
					}
					if called != (dist[u] >= 0 || (!m.dir && dist[v] >= 0)) {
						return vk.Failf(kind+"-traverse-calls", "root %d: Traverse called on edge %d-%d: %v; edge leaves a visited node: %v", m.id[root], m.id[u], m.id[v], called, !called)
					}
				}
			}
		}
	}

	// -- BFS with until: called in non-decreasing depth order with depth = hop
	// distance, once per node, stops at the first satisfying node.
	{
		visits := make([]int, n)
		w := traverse.BreadthFirst{Traverse: filter, Visit: func(x graph.Node) {
			if i, ok := m.idx[x.ID()]; ok {
				visits[i]++
			}
		}}
		traversed = map[[2]int]int{}
		calls := make([]int, n)
		last := 0
		var fail *vk.Failure
		stopAt := -1
		res := w.Walk(g, rootNode, func(x graph.Node, d int) bool {
			i, ok := m.idx[x.ID()]
			if !ok {
				fail = vk.Failf("bfs-until-foreign", "until called with unknown node %d", x.ID())
				return true
			}
			if fail != nil {
				return true
			}
			if visits[i] != 1 {
				fail = vk.Failf("bfs-until-before-visit", "until called on node %d after %d calls of Visit on it (want exactly one)", x.ID(), visits[i])
			}
			calls[i]++
			if calls[i] > 1 {
				fail = vk.Failf("bfs-until-twice", "until called twice on node %d", x.ID())
			}
			if d != dist[i] {
				fail = vk.Failf("bfs-depth", "root %d: until(node %d, depth %d), hop distance is %d", m.id[root], x.ID(), d, dist[i])
			}
			if d < last {
				fail = vk.Failf("bfs-depth-order", "root %d: depth %d reported after depth %d", m.id[root], d, last)
			}
			last = d
			if c.isTarget(i) || (c.Depth > 0 && d >= c.Depth) {
				stopAt = i
				return true
			}
			return false
		})
		if fail != nil {
			return fail
		}
		if badEdge != nil {
			return badEdge
		}
		// expected: the satisfying reachable nodes of minimal depth
		minD := -1
		for v := 0; v < n; v++ {
			if dist[v] >= 0 && (c.isTarget(v) || (c.Depth > 0 && dist[v] >= c.Depth)) && (minD < 0 || dist[v] < minD) {
				minD = dist[v]
			}
		}
		switch {
		case minD < 0:
			if res != nil {
				return vk.Failf("bfs-until-result", "root %d: Walk returned %d although no reachable node satisfies until", m.id[root], res.ID())
			}
			for v := 0; v < n; v++ {
				if (calls[v] == 1) != (dist[v] >= 0) {
					return vk.Failf("bfs-until-coverage", "root %d: until called %d times on node %d, reachable=%v", m.id[root], calls[v], m.id[v], dist[v] >= 0)
				}
			}
		case res == nil:
			return vk.Failf("bfs-until-result", "root %d: Walk returned nil although a node at depth %d satisfies until", m.id[root], minD)
		default:
			i, ok := m.idx[res.ID()]
			if !ok || i != stopAt {
				return vk.Failf("bfs-until-result", "root %d: Walk returned %d, until first returned true on index %d", m.id[root], res.ID(), stopAt)
			}
			if dist[i] != minD {
				return vk.Failf("bfs-until-not-first", "root %d: Walk returned node %d at depth %d, a satisfying node exists at depth %d", m.id[root], res.ID(), dist[i], minD)
			}
			// every node of smaller depth was offered to until before
			for v := 0; v < n; v++ {
				if dist[v] >= 0 && dist[v] < minD && calls[v] != 1 {
					return vk.Failf("bfs-until-skipped", "root %d: node %d at depth %d was not offered to until before the walk stopped at depth %d", m.id[root], m.id[v], dist[v], minD)
				}
			}
		}
	}

	// -- reuse: "Reset resets the state of the traverser for reuse". A walk that
	// may stop early (until returns true while nodes are still queued or
	// stacked), Reset, then a full walk from another root on the same value must
	// behave like a walk of a fresh traverser: Visit exactly once on every node
	// reachable from the new root and on nothing else, and for BFS until(x, d)
	// with d the hop distance from the new root.
	if n >= 2 {
		root2 := (root + 1 + int(c.Target%uint64(n-1))) % n
		dist2 := hops(m, c, root2)
		rootNode2 := g.Node(m.id[root2])
		for _, kind := range []string{"bfs", "dfs"} {
			visits := make([]int, n)
			second := false
			var fail *vk.Failure
			visit := func(x graph.Node) {
				if i, ok := m.idx[x.ID()]; ok && second {
					visits[i]++
				}
			}
			stopFirst := func(i, d int) bool { return c.isTarget(i) || (c.Depth > 0 && d >= c.Depth) }
			traversed = map[[2]int]int{}
			var visited func(graph.Node) bool
			if kind == "bfs" {
				w := traverse.BreadthFirst{Visit: visit, Traverse: filter}
				w.Walk(g, rootNode, func(x graph.Node, d int) bool { return stopFirst(m.idx[x.ID()], d) })
				w.Reset()
				second = true
				w.Walk(g, rootNode2, func(x graph.Node, d int) bool {
					i, ok := m.idx[x.ID()]
					if ok && fail == nil && d != dist2[i] {
						fail = vk.Failf("bfs-reuse-depth", "after an earlier walk from %d and Reset, the walk from %d reports node %d at depth %d, hop distance is %d", m.id[root], m.id[root2], x.ID(), d, dist2[i])
					}
					return false
				})
				visited = w.Visited
			} else {
				w := traverse.DepthFirst{Visit: visit, Traverse: filter}
				w.Walk(g, rootNode, func(x graph.Node) bool { return stopFirst(m.idx[x.ID()], 0) })
				w.Reset()
				second = true
				w.Walk(g, rootNode2, nil)
				visited = w.Visited
			}
			if fail != nil {
				return fail
			}
			if badEdge != nil {
				return badEdge
			}
			for v := 0; v < n; v++ {
				want := 0
				if dist2[v] >= 0 {
					want = 1
				}
				if visits[v] != want {
					return vk.Failf(kind+"-reuse-visits", "after an earlier walk from %d (stopped by until) and Reset, the walk from %d visited node %d %d times; it is reachable from the new root: %v", m.id[root], m.id[root2], m.id[v], visits[v], dist2[v] >= 0)
				}
				if visited(g.Node(m.id[v])) != (dist2[v] >= 0) {
					return vk.Failf(kind+"-reuse-visited", "after Reset and a walk from %d, Visited(%d) = %v, reachable = %v", m.id[root2], m.id[v], !(dist2[v] >= 0), dist2[v] >= 0)
				}
			}
		}
	}

	// -- a second Walk on the same traverser WITHOUT Reset (the traversers are
	// "stateful"; WalkAll itself calls Walk repeatedly on one value). The set
	// of visited nodes persists, so the second walk may skip nodes; but it is
	// "a traversal of the graph g starting from the given node": everything it
	// examines must be reachable from the new start node, and a breadth-first
	// walk examines the start node at depth 0 and no node at a depth below its
	// hop distance from the start node.
	if n >= 2 {
		root2 := (root + 1 + int(c.Target%uint64(n-1))) % n
		dist2 := hops(m, c, root2)
		rootNode2 := g.Node(m.id[root2])
		stopFirst := func(i, d int) bool { return c.isTarget(i) || (c.Depth > 0 && d >= c.Depth) }
		for _, kind := range []string{"bfs", "dfs"} {
			var fail *vk.Failure
			traversed = map[[2]int]int{}
			if kind == "bfs" {
				w := traverse.BreadthFirst{Traverse: filter}
				if w.Walk(g, rootNode, func(x graph.Node, d int) bool { return stopFirst(m.idx[x.ID()], d) }) == nil {
					continue // the first walk ran to completion
				}
				vk.Class("trav/rewalk-after-early-stop")
				w.Walk(g, rootNode2, func(x graph.Node, d int) bool {
					i, ok := m.idx[x.ID()]
					if !ok || fail != nil {
						return false
					}
					switch {
					case dist2[i] < 0:
						fail = vk.Failf("bfs-rewalk-stale-queue", "Walk from %d stopped early; a second Walk (no Reset) from %d examines node %d, which is not reachable from %d", m.id[root], m.id[root2], x.ID(), m.id[root2])
					case i == root2 && d != 0, d < dist2[i]:
						fail = vk.Failf("bfs-rewalk-stale-queue", "Walk from %d stopped early; a second Walk (no Reset) from %d reports node %d at depth %d, its hop distance from %d is %d", m.id[root], m.id[root2], x.ID(), d, m.id[root2], dist2[i])
					}
					return false
				})
			} else {
				w := traverse.DepthFirst{Traverse: filter}
				if w.Walk(g, rootNode, func(x graph.Node) bool { return stopFirst(m.idx[x.ID()], 0) }) == nil {
					continue
				}
				w.Walk(g, rootNode2, func(x graph.Node) bool {
					i, ok := m.idx[x.ID()]
					if ok && fail == nil && dist2[i] < 0 {
						fail = vk.Failf("dfs-rewalk-stale-stack", "Walk from %d stopped early; a second Walk (no Reset) from %d examines node %d, which is not reachable from %d", m.id[root], m.id[root2], x.ID(), m.id[root2])
					}
					return false
				})
			}
			if badEdge != nil {
				return badEdge
			}
			if fail != nil {
				return fail
			}
		}
	}

	// -- DFS with until
	{
		visits := make([]int, n)
		w := traverse.DepthFirst{Traverse: filter, Visit: func(x graph.Node) {
			if i, ok := m.idx[x.ID()]; ok {
				visits[i]++
			}
		}}
		traversed = map[[2]int]int{}
		calls := make([]int, n)
		var fail *vk.Failure
		stopAt := -1
		res := w.Walk(g, rootNode, func(x graph.Node) bool {
			i, ok := m.idx[x.ID()]
			if !ok {
				fail = vk.Failf("dfs-until-foreign", "until called with unknown node %d", x.ID())
				return true
			}
			if visits[i] != 1 && fail == nil {
				fail = vk.Failf("dfs-until-before-visit", "until called on node %d after %d calls of Visit on it (want exactly one)", x.ID(), visits[i])
			}
			calls[i]++
			if calls[i] > 1 && fail == nil {
				fail = vk.Failf("dfs-until-twice", "until called twice on node %d", x.ID())
			}
			if dist[i] < 0 && fail == nil {
				fail = vk.Failf("dfs-until-unreachable", "root %d: until called on unreachable node %d", m.id[root], x.ID())
			}
			if c.isTarget(i) {
				stopAt = i
				return true
			}
			return false
		})
		if fail != nil {
			return fail
		}
		any := false
		for v := 0; v < n; v++ {
			if dist[v] >= 0 && c.isTarget(v) {
				any = true
			}
		}
		switch {
		case !any:
			if res != nil {
				return vk.Failf("dfs-until-result", "root %d: Walk returned %d although no reachable node satisfies until", m.id[root], res.ID())
			}
			for v := 0; v < n; v++ {
				if (calls[v] == 1) != (dist[v] >= 0) {
					return vk.Failf("dfs-until-coverage", "root %d: until called %d times on node %d, reachable=%v", m.id[root], calls[v], m.id[v], dist[v] >= 0)
				}
			}
		case res == nil:
			return vk.Failf("dfs-until-result", "root %d: Walk returned nil although a reachable node satisfies until", m.id[root])
		default:
			i, ok := m.idx[res.ID()]
			if !ok || i != stopAt {
				return vk.Failf("dfs-until-result", "root %d: Walk returned %d, until first returned true on index %d", m.id[root], res.ID(), stopAt)
			}
			if !w.Visited(res) {
				return vk.Failf("dfs-until-result-not-visited", "root %d: Visited(%d) is false for the node the walk stopped at", m.id[root], res.ID())
			}
		}
	}

	// -- WalkAll (undirected): before/after bracket one walk per connected
	// component (of the filtered graph), during sees every node once.
	if !c.Dir {
		ug := g.(graph.Undirected)
		// components of the filtered graph
		fc := G{N: n, Dir: false}
		for _, e := range m.edges {
			if c.allowed(false, e[0], e[1]) {
				fc.E = append(fc.E, e)
			}
		}
		comp, nc := components(model(fc))
		for _, kind := range []string{"bfs", "dfs"} {
			traversed = map[[2]int]int{}
			var blocks [][]graph.Node
			var cur []graph.Node
			open := false
			var fail *vk.Failure
			before := func() {
				if open {
					fail = vk.Failf(kind+"-walkall-bracket", "before called twice without after")
				}
				open = true
			}
			after := func() {
				if !open {
					fail = vk.Failf(kind+"-walkall-bracket", "after called without before")
				}
				open = false
				blocks = append(blocks, cur)
				cur = nil
			}
			during := func(x graph.Node) {
				if !open {
					fail = vk.Failf(kind+"-walkall-bracket", "during called outside before/after")
				}
				cur = append(cur, x)
			}
			if kind == "bfs" {
				w := traverse.BreadthFirst{Traverse: filter}
				w.WalkAll(ug, before, after, during)
			} else {
				w := traverse.DepthFirst{Traverse: filter}
				w.WalkAll(ug, before, after, during)
			}
			if fail != nil {
				return fail
			}
			if badEdge != nil {
				return badEdge
			}
			if len(blocks) != nc {
				return vk.Failf(kind+"-walkall-components", "%d walks, the (filtered) graph has %d components", len(blocks), nc)
			}
			if f := checkPartition(kind+"-walkall", m, blocks, comp); f != nil {
				return f
			}
		}
	}
	return nil
}

func TestTraverse(t *testing.T) {
	for _, dir := range []bool{true, false} {
		dir := dir
		maxN := vk.Pick(3, 4)
		if !dir {
			maxN = vk.Pick(4, 5)
		}
		blocks, total := exhPlan(dir, maxN)
		name := "traverse-und"
		if dir {
			name = "traverse-dir"
		}
		vk.Enumerate(t, name+"-exh", total*maxN, func(i int) travCase {
			g := exhG(dir, blocks, i/maxN)
			if i%7 == 6 {
				g.Cont = contMulti
			}
			c := travCase{G: g, Root: i % maxN}
			if i%2 == 1 {
				c.Filter = uint64(i) | 1
			}
			if i%3 != 0 {
				c.Target = uint64(i)*77 + 1
			}
			c.Depth = i / 3 % 3
			return c
		}, checkTraverse)
		vk.Run(t, name, vk.Opts{Quick: 5000, Thorough: 100000, NoCrumb: true}, func(t *rapid.T) travCase {
			classes := undClasses
			if dir {
				classes = dirClasses
			}
			g := drawG(t, dir, 40, classes, []int{contOrdered, contOrdered, contSimple, contMulti, contIndet})
			c := travCase{G: g, Root: rapid.IntRange(0, max(g.N-1, 0)).Draw(t, "root")}
			if rapid.Bool().Draw(t, "filtered") {
				c.Filter = rapid.Uint64Range(1, 1<<40).Draw(t, "filter")
			}
			if rapid.IntRange(0, 2).Draw(t, "targeted") > 0 {
				c.Target = rapid.Uint64Range(1, 1<<40).Draw(t, "target")
			}
			c.Depth = rapid.IntRange(0, 4).Draw(t, "depth")
			return c
		}, checkTraverse)
	}
}
