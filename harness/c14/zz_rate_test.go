package c14

import (
	"fmt"
	"os"
	"testing"

	"gonum.org/v1/gonum/graph/coloring"
	"verifharness/vk"
)

func TestZZRate(t *testing.T) {
	if os.Getenv("ZZRATE") == "" {
		t.Skip()
	}
	r := vk.NewSplitMix(12345)
	for n := 7; n <= 16; n++ {
		for _, pct := range []int{25, 35, 45, 55, 65} {
			graphs, failing, failCalls, sub := 1500, 0, 0, 0
			for gi := 0; gi < graphs; gi++ {
				c := G{N: n, Ord: r.Uint64(), Cont: contOrdered}
				for u := 0; u < n; u++ {
					for v := u + 1; v < n; v++ {
						if r.Intn(100) < pct {
							c.E = append(c.E, [2]int{u, v})
						}
					}
				}
				m := model(c)
				chi := chromaticOrdered(m)
				bad := 0
				subopt := false
				for call := 0; call < 8; call++ {
					g := m.undirected(uint64(call) * 0x9e3779b97f4a7c15)
					if hk, _, _ := coloring.Dsatur(g, nil); hk > chi {
						subopt = true
					}
					k, _, _ := coloring.DsaturExact(nil, g)
					if k != chi {
						bad++
					}
				}
				if subopt {
					sub++
				}
				if bad > 0 {
					failing++
					failCalls += bad
				}
			}
			fmt.Printf("n=%d p=%d%%: heuristic-suboptimal %d/%d, failing graphs %d (calls %d of %d)\n", n, pct, sub, graphs, failing, failCalls, failing*8)
		}
	}
}
