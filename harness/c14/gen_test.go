package c14

import (
	"fmt"
	"math"
	"math/rand/v2"
	"strings"
	"testing"

	"gonum.org/v1/gonum/graph"
	"gonum.org/v1/gonum/graph/graphs/gen"
	"gonum.org/v1/gonum/graph/multi"
	"gonum.org/v1/gonum/graph/simple"
	"pgregory.net/rapid"
	"verifharness/vk"
)

// ---- deterministic generators: Complete, Cycle, Path, Star, Wheel, Tree -----------------

type genDetCase struct {
	Kind   string  `json:"kind"`
	Dir    bool    `json:"dir"`
	IDs    []int64 `json:"ids"`    // may contain duplicates (then the call must panic)
	Range  bool    `json:"range"`  // use gen.IDRange{IDs[0], IDs[0]+len-1} instead of IDSet
	Center int64   `json:"center"` // Star, Wheel
	Fan    int     `json:"fan"`    // Tree
}

type builderGraph interface {
	gen.NodeIDGraphBuilder
	graph.Graph
}

func checkGenDet(c genDetCase) *vk.Failure {
	ids := append([]int64(nil), c.IDs...)
	var ider gen.IDer = gen.IDSet(ids)
	if c.Range && len(ids) > 0 {
		for i := range ids {
			ids[i] = ids[0] + int64(i)
		}
		ider = gen.IDRange{First: ids[0], Last: ids[0] + int64(len(ids)) - 1}
	}
	n := len(ids)
	dup := false
	seen := map[int64]bool{}
	for _, id := range ids {
		if seen[id] {
			dup = true
		}
		seen[id] = true
	}
	withCenter := c.Kind == "star" || c.Kind == "wheel"
	if withCenter && seen[c.Center] && n > 0 {
		dup = true
	}
	vk.Class(fmt.Sprintf("gendet/%s/dir=%v", c.Kind, c.Dir))
	vk.NonTrivial("gendet", c.Kind, c.Dir, fmt.Sprint(ids), c.Center, c.Fan)
	vk.Sample("gen-det-"+c.Kind, c)
	var dst builderGraph
	if c.Dir {
		dst = simple.NewDirectedGraph()
	} else {
		dst = simple.NewUndirectedGraph()
	}
	call := func() {
		switch c.Kind {
		case "complete":
			gen.Complete(dst, ider)
		case "cycle":
			gen.Cycle(dst, ider)
		case "path":
			gen.Path(dst, ider)
		case "star":
			gen.Star(dst, c.Center, ider)
		case "wheel":
			gen.Wheel(dst, c.Center, ider)
		case "tree":
			gen.Tree(dst, c.Fan, ider)
		}
	}
	// expected arcs (as ordered pairs; undirected: either orientation)
	want := map[[2]int64]bool{}
	add := func(u, v int64) { want[[2]int64{u, v}] = true }
	mustPanic := dup && n >= 2 || dup && withCenter
	switch c.Kind {
	case "complete":
		for i := 0; i < n; i++ {
			for j := i + 1; j < n; j++ {
				add(ids[i], ids[j])
			}
		}
	case "cycle":
		if n >= 2 {
			for i := 0; i < n; i++ {
				add(ids[i], ids[(i+1)%n])
			}
		}
	case "path":
		for i := 0; i+1 < n; i++ {
			add(ids[i], ids[i+1])
		}
	case "star", "wheel":
		for i := 0; i < n; i++ {
			add(c.Center, ids[i])
		}
		if c.Kind == "wheel" && n >= 2 {
			for i := 0; i < n; i++ {
				add(ids[i], ids[(i+1)%n])
			}
		}
	case "tree":
		if n >= 2 && (c.Fan < 1 || n <= c.Fan) {
			mustPanic = true
		}
		if !mustPanic && n >= 2 {
			for i := 0; i < n; i++ {
				for j := c.Fan*i + 1; j <= c.Fan*i+c.Fan && j < n; j++ {
					add(ids[i], ids[j])
				}
			}
		}
	}
	if mustPanic {
		if f := vk.MustPanic(c.Kind+"-must-panic", call); f != nil {
			f.Msg += fmt.Sprintf(" (ids %v center %d fan %d)", ids, c.Center, c.Fan)
			return f
		}
		return nil
	}
	if f := vk.MustReturn(c.Kind+"-panic", call); f != nil {
		f.Msg += fmt.Sprintf(" (ids %v center %d fan %d)", ids, c.Center, c.Fan)
		return f
	}
	wantNodes := map[int64]bool{}
	for _, id := range ids {
		wantNodes[id] = true
	}
	if withCenter {
		wantNodes[c.Center] = true
	}
	nodes := graph.NodesOf(dst.Nodes())
	if len(nodes) != len(wantNodes) {
		return vk.Failf(c.Kind+"-node-count", "%d nodes, want %d (ids %v)", len(nodes), len(wantNodes), ids)
	}
	for _, x := range nodes {
		if !wantNodes[x.ID()] {
			return vk.Failf(c.Kind+"-foreign-node", "node %d not among the requested IDs %v", x.ID(), ids)
		}
	}
	for u := range wantNodes {
		for v := range wantNodes {
			if u == v {
				continue
			}
			var got, w bool
			if c.Dir {
				got = dst.(graph.Directed).HasEdgeFromTo(u, v)
				w = want[[2]int64{u, v}]
				if c.Kind == "complete" {
					// the orientation inside a directed dst is not documented:
					// require only that every pair is joined
					got = dst.HasEdgeBetween(u, v)
					w = true
				}
			} else {
				got = dst.HasEdgeBetween(u, v)
				w = want[[2]int64{u, v}] || want[[2]int64{v, u}]
			}
			if got != w {
				return vk.Failf(c.Kind+"-edge-set", "edge %d->%d present=%v, definition=%v (ids %v center %d fan %d dir=%v)", u, v, got, w, ids, c.Center, c.Fan, c.Dir)
			}
		}
	}
	return nil
}

func TestGenDet(t *testing.T) {
	kinds := []string{"complete", "cycle", "path", "star", "wheel", "tree"}
	// exhaustive: lengths 0..7, both containers, contiguous ranges, all fan-outs
	var cases []genDetCase
	for _, k := range kinds {
		for _, dir := range []bool{false, true} {
			for n := 0; n <= 7; n++ {
				ids := make([]int64, n)
				for i := range ids {
					ids[i] = int64(3 + i)
				}
				fans := []int{0}
				if k == "tree" {
					fans = []int{-1, 0, 1, 2, 3, 4, 7, 8}
				}
				for _, f := range fans {
					cases = append(cases, genDetCase{Kind: k, Dir: dir, IDs: ids, Range: true, Center: 1, Fan: f})
					perm := append([]int64(nil), ids...)
					for i := range perm {
						perm[i] = int64((i*5+2)%max(n, 1))*11 - 20
					}
					cases = append(cases, genDetCase{Kind: k, Dir: dir, IDs: perm, Center: 1000, Fan: f})
				}
			}
		}
	}
	vk.Enumerate(t, "gen-det-exh", len(cases), func(i int) genDetCase { return cases[i] }, checkGenDet)
	vk.Run(t, "gen-det", vk.Opts{Quick: 3000, Thorough: 60000, NoCrumb: true}, func(t *rapid.T) genDetCase {
		c := genDetCase{Kind: rapid.SampledFrom(kinds).Draw(t, "kind"), Dir: rapid.Bool().Draw(t, "dir")}
		n := rapid.IntRange(0, 12).Draw(t, "n")
		idg := rapid.Int64Range(-6, 20)
		if rapid.IntRange(0, 3).Draw(t, "wide") == 0 {
			idg = rapid.Int64Range(-(1 << 40), 1<<40)
		}
		if rapid.IntRange(0, 4).Draw(t, "dups") == 0 {
			c.IDs = rapid.SliceOfN(idg, n, n).Draw(t, "ids") // duplicates likely
		} else {
			c.IDs = rapid.SliceOfNDistinct(idg, n, n, rapid.ID[int64]).Draw(t, "ids")
		}
		c.Range = rapid.IntRange(0, 3).Draw(t, "range") == 0
		c.Center = idg.Draw(t, "center")
		c.Fan = rapid.IntRange(-1, 13).Draw(t, "fan")
		return c
	}, checkGenDet)
}

// ---- random generators: structural invariants --------------------------------------------

type genRandCase struct {
	Kind  string    `json:"kind"`
	Dir   bool      `json:"dir"`
	N     int       `json:"n"`
	M     int       `json:"m"` // Gnm size; d for SmallWorldsBB/PowerLaw; m for the attachment models; q for NavigableSmallWorld
	P     vk.F      `json:"p"` // probability / delta
	A     vk.F      `json:"a"` // Duplication alpha; NavigableSmallWorld r
	S     vk.F      `json:"s"` // Duplication sigma
	Dims  []int     `json:"dims"`
	PDist int       `json:"pdist"` // NavigableSmallWorld p
	Seed  [2]uint64 `json:"seed"`
}

func countEdges(g graph.Graph) (nodes, edges, loops int) {
	ns := graph.NodesOf(g.Nodes())
	_, dir := g.(graph.Directed)
	for _, u := range ns {
		to := g.From(u.ID())
		for to.Next() {
			v := to.Node()
			if v.ID() == u.ID() {
				loops++
			}
			if dir || u.ID() <= v.ID() {
				edges++
			}
		}
	}
	return len(ns), edges, loops
}

func checkGenRand(c genRandCase) *vk.Failure {
	src := rand.NewPCG(c.Seed[0], c.Seed[1])
	p, a, s := float64(c.P), float64(c.A), float64(c.S)
	vk.Class(fmt.Sprintf("genrand/%s/dir=%v", c.Kind, c.Dir))
	vk.NonTrivial("genrand", c.Kind, c.Dir, c.N, c.M, p, a, s, fmt.Sprint(c.Dims), c.PDist, c.Seed)
	vk.Sample("gen-rand-"+c.Kind, c)
	type sgraph interface {
		gen.GraphBuilder
		graph.Graph
	}
	var dst sgraph
	if c.Dir {
		dst = simple.NewDirectedGraph()
	} else {
		dst = simple.NewUndirectedGraph()
	}
	n := c.N
	pairs := n * (n - 1) / 2
	var err error
	switch c.Kind {
	case "gnp":
		if f := vk.MustReturn("gnp-panic", func() { err = gen.Gnp(dst, n, p, src) }); f != nil {
			return f
		}
		bad := p < 0 || p > 1
		if bad != (err != nil) {
			return vk.Failf("gnp-error", "p=%v: err=%v", p, err)
		}
		nn, ne, loops := countEdges(dst)
		if bad {
			if nn != 0 {
				return vk.Failf("gnp-error-side-effect", "p=%v rejected but dst has %d nodes", p, nn)
			}
			return nil
		}
		if nn != n || loops != 0 {
			return vk.Failf("gnp-order", "order %d want %d; %d self-loops", nn, n, loops)
		}
		full := pairs
		if c.Dir {
			full = 2 * pairs
		}
		if p == 0 && ne != 0 || p == 1 && ne != full || ne > full {
			return vk.Failf("gnp-size", "n=%d p=%v dir=%v: %d edges (complete graph has %d)", n, p, c.Dir, ne, full)
		}
	case "gnm":
		m := c.M
		if f := vk.MustReturn("gnm-panic", func() { err = gen.Gnm(dst, n, m, src) }); f != nil {
			return f
		}
		maxM := pairs
		if c.Dir {
			maxM = 2 * pairs
		}
		bad := m < 0 || m > maxM
		if c.Dir && m == maxM+1 {
			return nil // m/2 rounds down into range: covered by the odd-m case below
		}
		if bad != (err != nil) {
			return vk.Failf("gnm-error", "n=%d m=%d dir=%v: err=%v", n, m, c.Dir, err)
		}
		if bad {
			return nil
		}
		nn, ne, loops := countEdges(dst)
		if nn != n || loops != 0 {
			return vk.Failf("gnm-order", "order %d want %d; %d self-loops", nn, n, loops)
		}
		if ne != m {
			if c.Dir && m%2 == 1 && ne == m-1 {
				// Specific key: directed dst with odd m.
				return vk.Failf("gnm-directed-odd-m", "Gnm(directed dst, n=%d, m=%d) built %d arcs; documented: 'of order n and size m'", n, m, ne)
			}
			return vk.Failf("gnm-size", "Gnm(n=%d, m=%d, dir=%v) built %d edges", n, m, c.Dir, ne)
		}
	case "smallworldsbb":
		d := c.M
		if f := vk.MustReturn("smallworldsbb-panic", func() { err = gen.SmallWorldsBB(dst, n, d, p, src) }); f != nil {
			f.Msg += fmt.Sprintf(" (n=%d d=%d p=%v dir=%v)", n, d, p, c.Dir)
			return f
		}
		bad := d < 1 || d > (n-1)/2 || p < 0 || p >= 1
		if bad != (err != nil) {
			return vk.Failf("smallworldsbb-error", "n=%d d=%d p=%v: err=%v", n, d, p, err)
		}
		if bad {
			return nil
		}
		nn, ne, loops := countEdges(dst)
		if nn != n || loops != 0 {
			return vk.Failf("smallworldsbb-order", "order %d want %d; %d self-loops", nn, n, loops)
		}
		lim := n * d
		if c.Dir {
			lim *= 2
		}
		if ne > lim {
			return vk.Failf("smallworldsbb-size", "n=%d d=%d: %d edges, more than n*d", n, d, ne)
		}
		if p == 0 {
			// "Node degree is specified by d and edge replacement by the
			// probability, p": without replacement the graph is the ring lattice in
			// which every node is joined to its d nearest neighbours on either side.
			for u := 0; u < n; u++ {
				for v := 0; v < n; v++ {
					if u == v {
						continue
					}
					gap := (v - u + n) % n
					lattice := gap <= d || n-gap <= d
					var has bool
					if c.Dir {
						has = dst.(graph.Directed).HasEdgeFromTo(int64(u), int64(v))
					} else {
						has = dst.HasEdgeBetween(int64(u), int64(v))
					}
					if has != lattice {
						return vk.Failf("smallworldsbb-p0-not-ring-lattice", "SmallWorldsBB(n=%d, d=%d, p=0, dir=%v): edge %d-%d present=%v, in the ring lattice=%v; the graph has %d edges, the lattice has %d", n, d, c.Dir, u, v, has, lattice, ne, lim)
					}
				}
			}
		}
	case "powerlaw", "bipartitepowerlaw":
		d := c.M
		var mg interface {
			graph.MultigraphBuilder
			graph.Multigraph
		}
		if c.Dir {
			mg = multi.NewDirectedGraph()
		} else {
			mg = multi.NewUndirectedGraph()
		}
		var p1, p2 []graph.Node
		if f := vk.MustReturn(c.Kind+"-panic", func() {
			if c.Kind == "powerlaw" {
				err = gen.PowerLaw(mg, n, d, src)
			} else {
				p1, p2, err = gen.BipartitePowerLaw(mg, n, d, src)
			}
		}); f != nil {
			return f
		}
		if (d < 1) != (err != nil) {
			return vk.Failf(c.Kind+"-error", "d=%d: err=%v", d, err)
		}
		if d < 1 {
			return nil
		}
		ns := graph.NodesOf(mg.Nodes())
		wantN, wantL := n, n*d
		side := map[int64]int{}
		if c.Kind == "bipartitepowerlaw" {
			wantN, wantL = 2*n, 2*n*d
			if len(p1) != n || len(p2) != n {
				return vk.Failf(c.Kind+"-partitions", "partition sizes %d,%d want %d,%d", len(p1), len(p2), n, n)
			}
			for _, x := range p1 {
				side[x.ID()] = 1
			}
			for _, x := range p2 {
				if side[x.ID()] != 0 {
					return vk.Failf(c.Kind+"-partitions", "node %d in both partitions", x.ID())
				}
				side[x.ID()] = 2
			}
		}
		if len(ns) != wantN {
			return vk.Failf(c.Kind+"-order", "order %d want %d", len(ns), wantN)
		}
		deg := map[int64]int{}
		lines := 0
		for _, u := range ns {
			for _, v := range ns {
				if !c.Dir && u.ID() > v.ID() {
					continue
				}
				ls := mg.Lines(u.ID(), v.ID())
				for ls.Next() {
					l := ls.Line()
					lines++
					deg[l.From().ID()]++
					deg[l.To().ID()]++
					if c.Kind == "bipartitepowerlaw" && side[l.From().ID()] == side[l.To().ID()] {
						return vk.Failf(c.Kind+"-not-bipartite", "line %d-%d joins two nodes of the same partition", l.From().ID(), l.To().ID())
					}
				}
			}
		}
		if lines != wantL {
			return vk.Failf(c.Kind+"-size", "n=%d d=%d: %d lines, want %d", n, d, lines, wantL)
		}
		for _, u := range ns {
			if c.Kind == "bipartitepowerlaw" && side[u.ID()] == 0 {
				return vk.Failf(c.Kind+"-partitions", "node %d in no partition", u.ID())
			}
			if deg[u.ID()] < d {
				return vk.Failf(c.Kind+"-min-degree", "node %d has degree %d < d=%d", u.ID(), deg[u.ID()], d)
			}
		}
	case "tunableclustering", "prefattach":
		m := c.M
		ud := simple.NewUndirectedGraph()
		if f := vk.MustReturn(c.Kind+"-panic", func() {
			if c.Kind == "tunableclustering" {
				err = gen.TunableClusteringScaleFree(ud, n, m, p, src)
			} else {
				err = gen.PreferentialAttachment(ud, n, m, src)
			}
		}); f != nil {
			f.Msg += fmt.Sprintf(" (n=%d m=%d p=%v)", n, m, p)
			return f
		}
		bad := n <= m || (c.Kind == "tunableclustering" && (p < 0 || p > 1))
		if bad != (err != nil) {
			return vk.Failf(c.Kind+"-error", "n=%d m=%d p=%v: err=%v", n, m, p, err)
		}
		if bad {
			return nil
		}
		nn, ne, loops := countEdges(ud)
		if nn != n || loops != 0 {
			return vk.Failf(c.Kind+"-order", "n=%d m=%d: order %d; %d self-loops", n, m, nn, loops)
		}
		if ne != (n-m)*m {
			return vk.Failf(c.Kind+"-size", "n=%d m=%d: %d edges, want (n-m)*m = %d (each added node brings m edges)", n, m, ne, (n-m)*m)
		}
	case "navigable":
		q, pd, r := c.M, c.PDist, a
		if f := vk.MustReturn("navigable-panic", func() { err = gen.NavigableSmallWorld(dst, c.Dims, pd, q, r, src) }); f != nil {
			f.Msg += fmt.Sprintf(" (dims=%v p=%d q=%d r=%v)", c.Dims, pd, q, r)
			return f
		}
		bad := pd < 1 || q < 0 || r < 0
		if bad && err == nil {
			return vk.Failf("navigable-error", "dims=%v p=%d q=%d r=%v accepted", c.Dims, pd, q, r)
		}
		if bad {
			return nil
		}
		size := 1
		for _, d := range c.Dims {
			size *= d
		}
		// coordinates of node k (IDs are 0..size-1 in a fresh graph)
		coord := func(k int) []int {
			out := make([]int, len(c.Dims))
			for i := range c.Dims { // first dimension varies fastest (gen's idxFrom)
				out[i] = k % c.Dims[i]
				k /= c.Dims[i]
			}
			return out
		}
		dist := func(x, y int) int {
			cx, cy := coord(x), coord(y)
			t := 0
			for i := range cx {
				t += abs(cx[i] - cy[i])
			}
			return t
		}
		nonLocalMin := size
		for x := 0; x < size; x++ {
			cnt := 0
			for y := 0; y < size; y++ {
				if dist(x, y) > pd {
					cnt++
				}
			}
			nonLocalMin = min(nonLocalMin, cnt)
		}
		if err != nil {
			if q > nonLocalMin && strings.Contains(err.Error(), "depleted") {
				return nil // more long-range links requested than non-local nodes exist
			}
			return vk.Failf("navigable-error", "dims=%v p=%d q=%d r=%v: err=%v", c.Dims, pd, q, r, err)
		}
		nn, _, loops := countEdges(dst)
		if nn != size || loops != 0 {
			return vk.Failf("navigable-order", "order %d want %d; %d self-loops", nn, size, loops)
		}
		for x := 0; x < size; x++ {
			for y := 0; y < size; y++ {
				if x == y {
					continue
				}
				var has bool
				if c.Dir {
					has = dst.(graph.Directed).HasEdgeFromTo(int64(x), int64(y))
				} else {
					has = dst.HasEdgeBetween(int64(x), int64(y))
				}
				local := dist(x, y) <= pd
				if local && !has {
					key := "navigable-local-missing"
					if !c.Dir {
						key = "navigable-undirected-local-missing" // same cause as the undirected non-local edges
					}
					return vk.Failf(key, "dims=%v p=%d: grid nodes %v and %v at Manhattan distance %d are not joined", c.Dims, pd, coord(x), coord(y), dist(x, y))
				}
				if q == 0 && !local && has {
					key := "navigable-nonlocal-edge-with-q0"
					if !c.Dir {
						// Specific key: undirected dst (the closure variable un is
						// swapped with vn and never restored).
						key = "navigable-undirected-nonlocal-edge-with-q0"
					}
					return vk.Failf(key, "dims=%v p=%d q=0 dir=%v: nodes %v and %v at Manhattan distance %d are joined although no long-range links were requested", c.Dims, pd, c.Dir, coord(x), coord(y), dist(x, y))
				}
			}
		}
	case "duplication":
		ud := simple.NewUndirectedGraph()
		if f := vk.MustReturn("duplication-panic", func() { err = gen.Duplication(ud, n, p, a, s, src) }); f != nil {
			return f
		}
		bad := p < 0 || p > 1 || a <= 0 || a > 1 || s < 0 || s > 1
		if bad != (err != nil) {
			return vk.Failf("duplication-error", "delta=%v alpha=%v sigma=%v: err=%v", p, a, s, err)
		}
		if bad {
			return nil
		}
		nn, _, loops := countEdges(ud)
		if nn != n || loops != 0 {
			return vk.Failf("duplication-order", "n=%d: order %d; %d self-loops", n, nn, loops)
		}
		// every duplicate is connected into the rest of the graph, so the graph
		// grown from a single node is connected
		ns := graph.NodesOf(ud.Nodes())
		if len(ns) > 0 {
			seen := map[int64]bool{ns[0].ID(): true}
			stack := []int64{ns[0].ID()}
			for len(stack) > 0 {
				u := stack[len(stack)-1]
				stack = stack[:len(stack)-1]
				to := ud.From(u)
				for to.Next() {
					if v := to.Node().ID(); !seen[v] {
						seen[v] = true
						stack = append(stack, v)
					}
				}
			}
			if len(seen) != len(ns) {
				return vk.Failf("duplication-disconnected", "n=%d delta=%v alpha=%v sigma=%v: only %d of %d nodes connected", n, p, a, s, len(seen), len(ns))
			}
		}
	}
	return nil
}

func abs(x int) int {
	if x < 0 {
		return -x
	}
	return x
}

func drawProb(t *rapid.T, label string) vk.F {
	switch rapid.IntRange(0, 9).Draw(t, label+"cls") {
	case 0:
		return 0
	case 1:
		return 1
	case 2:
		return vk.F(rapid.SampledFrom([]float64{-0.5, 1.5, -1e-9, 1 + 1e-9}).Draw(t, label+"bad"))
	}
	return vk.F(float64(rapid.IntRange(1, 31).Draw(t, label)) / 32)
}

func TestGenRand(t *testing.T) {
	kinds := []string{"gnp", "gnm", "smallworldsbb", "powerlaw", "bipartitepowerlaw", "tunableclustering", "prefattach", "navigable", "duplication"}
	vk.Run(t, "gen-rand", vk.Opts{Quick: 6000, Thorough: 100000, NoCrumb: true}, func(t *rapid.T) genRandCase {
		c := genRandCase{Kind: rapid.SampledFrom(kinds).Draw(t, "kind"), Dir: rapid.Bool().Draw(t, "dir")}
		c.Seed = [2]uint64{rapid.Uint64().Draw(t, "s0"), rapid.Uint64().Draw(t, "s1")}
		c.N = rapid.IntRange(0, 24).Draw(t, "n")
		c.P = drawProb(t, "p")
		switch c.Kind {
		case "gnm":
			mx := c.N * (c.N - 1) / 2
			if c.Dir {
				mx *= 2
			}
			lo := -1
			if c.Dir {
				lo = 0 // a negative size with a directed dst is not rejected (m/2 == 0); not specified
			}
			c.M = rapid.IntRange(lo, mx+2).Draw(t, "m")
		case "smallworldsbb":
			c.M = rapid.IntRange(0, (c.N-1)/2+1).Draw(t, "d")
		case "powerlaw", "bipartitepowerlaw":
			c.M = rapid.IntRange(0, 4).Draw(t, "d")
		case "tunableclustering", "prefattach":
			c.Dir = false
			lo := 0
			if c.Kind == "prefattach" {
				lo = 1
			}
			c.M = rapid.IntRange(lo, 6).Draw(t, "m")
		case "navigable":
			c.Dims = rapid.SliceOfN(rapid.IntRange(1, 5), 1, 3).Draw(t, "dims")
			c.PDist = rapid.IntRange(0, 3).Draw(t, "pdist")
			c.M = rapid.SampledFrom([]int{0, 0, 0, 1, 2, 5, -1}).Draw(t, "q")
			c.A = vk.F(rapid.SampledFrom([]float64{0, 1, 2, 0.5, -1}).Draw(t, "r"))
		case "duplication":
			c.Dir = false
			c.N = rapid.IntRange(1, 24).Draw(t, "n1")
			c.A = vk.F(rapid.SampledFrom([]float64{0.25, 0.5, 1, 1, 0, 1.5}).Draw(t, "alpha"))
			if rapid.IntRange(0, 4).Draw(t, "nan") == 0 {
				c.S = vk.F(math.NaN())
			} else {
				c.S = drawProb(t, "sigma")
			}
		}
		return c
	}, checkGenRand)
}
