package c14

import (
	"fmt"
	"testing"

	"gonum.org/v1/gonum/graph"
	"gonum.org/v1/gonum/graph/product"
	"gonum.org/v1/gonum/graph/simple"
	"pgregory.net/rapid"
	"verifharness/vk"
)

// ---- graph/product -----------------------------------------------------------------------

type prodCase struct {
	A     G      `json:"a"`
	B     G      `json:"b"`
	Agree uint64 `json:"agree"` // seed of the ModularExt agreement predicate
}

type prodDef struct {
	name string
	def  func(sameA, sameB, adjA, adjB bool) bool
	call func(dst graph.Builder, a, b graph.Graph)
}

var prodDefs = []prodDef{
	{"cartesian", func(sa, sb, aa, ab bool) bool { return (sa && ab) || (aa && sb) }, product.Cartesian},
	{"tensor", func(sa, sb, aa, ab bool) bool { return aa && ab }, product.Tensor},
	{"lexicographical", func(sa, sb, aa, ab bool) bool { return aa || (sa && ab) }, product.Lexicographical},
	{"strong", func(sa, sb, aa, ab bool) bool { return (sa && ab) || (aa && sb) || (aa && ab) }, product.Strong},
	{"conormal", func(sa, sb, aa, ab bool) bool { return aa || ab }, product.CoNormal},
	{"modular", func(sa, sb, aa, ab bool) bool { return !sa && !sb && (aa == ab) }, product.Modular},
}

func checkProduct(c prodCase) *vk.Failure {
	if c.A.Cont == contIndet || c.B.Cont == contIndet {
		// both factors (in)determinate together, so that one wrapper serves
		c.A.Cont, c.B.Cont = contIndet, contIndet
	}
	return withIndet(c.A, func(g G) *vk.Failure {
		c2 := c
		c2.A = g
		c2.B.Cont = g.Cont
		return checkProduct1(c2)
	})
}

func checkProduct1(c prodCase) *vk.Failure {
	c.B.Dir = c.A.Dir
	dir := c.A.Dir
	ma, mb := model(c.A), model(c.B)
	vk.Class(fmt.Sprintf("product/dir=%v", dir))
	if len(ma.edges) > 0 && len(mb.edges) > 0 {
		vk.NonTrivial("product", ma.edgeKey(), mb.edgeKey(), c.Agree)
		vk.Class("product/both-have-edges")
	}
	vk.Sample("product", c)
	var a, b graph.Graph
	if dir {
		a, b = ma.directed(1), mb.directed(2)
	} else {
		a, b = ma.undirected(1), mb.undirected(2)
	}
	agree := func(ua, va, ub, vb int) bool {
		if c.Agree == 0 {
			return true
		}
		if !dir {
			if ua > va {
				ua, va = va, ua
			}
			if ub > vb {
				ub, vb = vb, ub
			}
		}
		return vk.NewSplitMix(c.Agree^uint64(ua*1000+va*100+ub*10+vb)).Uint64()%3 != 0
	}
	defs := append([]prodDef(nil), prodDefs...)
	var agreeFail *vk.Failure
	defs = append(defs,
		prodDef{"modularext-nil", prodDefs[5].def, func(dst graph.Builder, a, b graph.Graph) { product.ModularExt(dst, a, b, nil) }},
		prodDef{"modularext", nil, func(dst graph.Builder, a, b graph.Graph) {
			product.ModularExt(dst, a, b, func(ea, eb graph.Edge) bool {
				if ea == nil || eb == nil {
					agreeFail = vk.Failf("modularext-agree-nil-edge", "agree called with a nil edge")
					return false
				}
				ua, ok1 := ma.idx[ea.From().ID()]
				va, ok2 := ma.idx[ea.To().ID()]
				ub, ok3 := mb.idx[eb.From().ID()]
				vb, ok4 := mb.idx[eb.To().ID()]
				if !ok1 || !ok2 || !ok3 || !ok4 || !(ma.adj[ua][va] || !dir && ma.adj[va][ua]) || !(mb.adj[ub][vb] || !dir && mb.adj[vb][ub]) {
					agreeFail = vk.Failf("modularext-agree-foreign-edge", "agree called with edges %d->%d, %d->%d that are not edges of a and b", ea.From().ID(), ea.To().ID(), eb.From().ID(), eb.To().ID())
					return false
				}
				return agree(ua, va, ub, vb)
			})
		}})
	for _, d := range defs {
		var dst graph.Builder
		var dg graph.Graph
		if dir {
			x := simple.NewDirectedGraph()
			dst, dg = x, x
		} else {
			x := simple.NewUndirectedGraph()
			dst, dg = x, x
		}
		if f := vk.MustReturn(d.name+"-panic", func() { d.call(dst, a, b) }); f != nil {
			return f
		}
		if agreeFail != nil {
			return agreeFail
		}
		// node set = V(a) x V(b)
		nodes := graph.NodesOf(dg.Nodes())
		if len(nodes) != ma.n*mb.n {
			return vk.Failf(d.name+"-node-count", "%d nodes, |V(a)|*|V(b)| = %d", len(nodes), ma.n*mb.n)
		}
		at := map[[2]int]int64{}
		for _, x := range nodes {
			pn, ok := x.(product.Node)
			if !ok {
				return vk.Failf(d.name+"-node-type", "node %T is not a product.Node", x)
			}
			if pn.A == nil || pn.B == nil {
				return vk.Failf(d.name+"-node-nil", "product node %d has a nil component", pn.ID())
			}
			ia, ok1 := ma.idx[pn.A.ID()]
			ib, ok2 := mb.idx[pn.B.ID()]
			if !ok1 || !ok2 {
				return vk.Failf(d.name+"-node-foreign", "product node %d = (%d,%d) is not in V(a) x V(b)", pn.ID(), pn.A.ID(), pn.B.ID())
			}
			if _, dup := at[[2]int{ia, ib}]; dup {
				return vk.Failf(d.name+"-node-duplicate", "pair (%d,%d) appears twice", pn.A.ID(), pn.B.ID())
			}
			at[[2]int{ia, ib}] = pn.ID()
		}
		for p, pid := range at {
			for q, qid := range at {
				if p == q {
					continue
				}
				sa, sb := p[0] == q[0], p[1] == q[1]
				aa, ab := ma.adj[p[0]][q[0]], mb.adj[p[1]][q[1]]
				var want bool
				if d.def != nil {
					want = d.def(sa, sb, aa, ab)
				} else {
					want = !sa && !sb && ((aa && ab && agree(p[0], q[0], p[1], q[1])) || (!aa && !ab))
				}
				var got bool
				if dir {
					got = dg.(graph.Directed).HasEdgeFromTo(pid, qid)
				} else {
					got = dg.HasEdgeBetween(pid, qid)
				}
				if got != want {
					return vk.Failf(d.name+"-edge-set", "(%d,%d)~(%d,%d): edge present=%v, definition=%v [a: same=%v adjacent=%v; b: same=%v adjacent=%v]",
						ma.id[p[0]], mb.id[p[1]], ma.id[q[0]], mb.id[q[1]], got, want, sa, aa, sb, ab)
				}
			}
		}
	}
	return nil
}

func TestProduct(t *testing.T) {
	// exhaustive: all pairs of undirected graphs on <= 3 nodes and of directed
	// graphs on <= 2 (thorough: 3) nodes, identity IDs; random: <= 5 x 5 nodes.
	type pair struct {
		dir  bool
		a, b int
	}
	var pairs []pair
	ub, ut := exhPlan(false, 3)
	db, dt := exhPlan(true, vk.Pick(2, 3))
	for i := 0; i < ut; i++ {
		for j := 0; j < ut; j++ {
			if (i+j)%vk.Pick(3, 1) == 0 {
				pairs = append(pairs, pair{false, i, j})
			}
		}
	}
	for i := 0; i < dt; i++ {
		for j := 0; j < dt; j++ {
			if (i+j)%vk.Pick(3, 7) == 0 {
				pairs = append(pairs, pair{true, i, j})
			}
		}
	}
	vk.Enumerate(t, "product-exh", len(pairs), func(i int) prodCase {
		p := pairs[i]
		blocks := ub
		if p.dir {
			blocks = db
		}
		c := prodCase{A: exhG(p.dir, blocks, p.a), B: exhG(p.dir, blocks, p.b)}
		if i%2 == 1 {
			c.Agree = uint64(i)
		}
		return c
	}, checkProduct)
	vk.Run(t, "product", vk.Opts{Quick: 4000, Thorough: 60000, NoCrumb: true}, func(t *rapid.T) prodCase {
		dir := rapid.Bool().Draw(t, "dir")
		classes := []string{"sparse", "half", "dense", "tree", "cycle"}
		conts := []int{contOrdered, contSimple, contIndet}
		c := prodCase{A: drawG(t, dir, 5, classes, conts), B: drawG(t, dir, 5, classes, conts)}
		if rapid.Bool().Draw(t, "agree") {
			c.Agree = rapid.Uint64Range(1, 1<<40).Draw(t, "agreeseed")
		}
		return c
	}, checkProduct)
}
