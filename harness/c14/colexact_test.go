package c14

import (
	"fmt"
	"testing"

	"gonum.org/v1/gonum/graph/coloring"
	"pgregory.net/rapid"
	"verifharness/vk"
)

// ---- DsaturExact attains the chromatic number (11..16 nodes) ---------------------------
//
// The branch and bound of DsaturExact only runs when the Dsatur heuristic does
// not already meet the clique bound, and what it explores depends on the node
// order of the graph. Such graphs do not exist below 8 nodes and are rare below
// 13, so this sub-check draws graphs of 11..16 nodes in the density range where
// the heuristic is most often sub-optimal (G(n,p), p in 0.35..0.70), Mycielski
// constructions and crown graphs with extra edges, computes the chromatic
// number independently (exact backtracking in the harness) and calls
// DsaturExact several times on the same graph under different, case-determined
// node iteration orders.

type colExactCase struct {
	G
	Calls int `json:"calls"` // number of iteration orders tried
}

// chromaticOrdered is chromatic with the nodes taken by decreasing degree
// (much faster on 13..16 nodes) and the clique-free lower bound 1.
func chromaticOrdered(m *M) int {
	n := m.n
	if n == 0 {
		return 0
	}
	ord := make([]int, n)
	for i := range ord {
		ord[i] = i
	}
	deg := make([]int, n)
	for i := range deg {
		deg[i] = m.degree(i)
	}
	// insertion sort by decreasing degree (stable)
	for i := 1; i < n; i++ {
		for j := i; j > 0 && deg[ord[j]] > deg[ord[j-1]]; j-- {
			ord[j], ord[j-1] = ord[j-1], ord[j]
		}
	}
	col := make([]int, n)
	var try func(p, k, used int) bool
	try = func(p, k, used int) bool {
		if p == n {
			return true
		}
		v := ord[p]
		for c := 0; c < k && c <= used; c++ {
			ok := true
			for q := 0; q < p; q++ {
				if m.adj[ord[q]][v] && col[ord[q]] == c {
					ok = false
					break
				}
			}
			if !ok {
				continue
			}
			col[v] = c
			nu := used
			if c == used {
				nu++
			}
			if try(p+1, k, nu) {
				return true
			}
		}
		return false
	}
	for k := 1; ; k++ {
		if try(0, k, 0) {
			return k
		}
	}
}

func checkColExact(c colExactCase) *vk.Failure {
	c.Dir = false
	m := model(c.G)
	n := m.n
	if n == 0 {
		return nil
	}
	chi := chromaticOrdered(m)
	if n <= 10 {
		if alt := chromatic(m); alt != chi {
			return vk.Failf("harness-chromatic-oracles-disagree", "ordered %d, plain %d", chi, alt)
		}
	}
	calls := c.Calls
	if calls < 1 {
		calls = 1
	}
	if calls > 16 {
		calls = 16
	}
	vk.Class("colexact/" + c.Cls)
	vk.Class(fmt.Sprintf("colexact/n=%d", n))
	vk.Sample("coloring-exact", c)
	maxDeg := 0
	for v := 0; v < n; v++ {
		maxDeg = max(maxDeg, m.degree(v))
	}
	searched := false
	for call := 0; call < calls; call++ {
		// a different node / adjacency iteration order per call
		g := m.undirected(uint64(call) * 0x9e3779b97f4a7c15)
		if hk, _, _ := coloring.Dsatur(g, nil); hk > chi {
			searched = true // the heuristic bound is not optimal: the exact search has to improve on it
		}
		var term coloring.Terminator
		if call%2 == 1 {
			term = neverDone{}
		}
		k, cs, err := coloring.DsaturExact(term, g)
		if err != nil {
			return vk.Failf("dsaturexact-error", "error %v without cancellation", err)
		}
		if f := checkColoring("dsaturexact", m, colResult{k, cs, nil}, nil, maxDeg); f != nil {
			return f
		}
		if k != chi {
			return vk.Failf("dsaturexact-not-chromatic", "call %d (iteration order %d): k=%d with nil error, the chromatic number is %d (n=%d, %d edges)", call, call, k, chi, n, len(m.edges))
		}
	}
	if searched {
		vk.Class("colexact/heuristic-suboptimal")
		vk.NonTrivial("colexact", m.edgeKey())
	}
	return nil
}

// mycielski returns the Mycielskian of the graph on k nodes with edges e:
// nodes 0..k-1 (original), k..2k-1 (shadows), 2k (apex).
func mycielski(k int, e [][2]int) (int, [][2]int) {
	out := append([][2]int(nil), e...)
	for _, x := range e {
		out = append(out, [2]int{x[0], k + x[1]}, [2]int{x[1], k + x[0]})
	}
	for i := 0; i < k; i++ {
		out = append(out, [2]int{k + i, 2 * k})
	}
	return 2*k + 1, out
}

func drawColExact(t *rapid.T) colExactCase {
	c := colExactCase{Calls: rapid.IntRange(4, 8).Draw(t, "calls")}
	c.G = G{IDs: rapid.IntRange(0, 2).Draw(t, "ids"), Ord: rapid.Uint64().Draw(t, "ord"), Cont: contOrdered}
	switch cls := rapid.IntRange(0, 9).Draw(t, "cls"); {
	case cls < 7:
		c.Cls = "gnp"
		// Measured against a pruning error in the exact search: the share of
		// graphs whose result depends on the branch and bound grows from
		// ~0.1% at n=11..12 to ~2% at n=15..16 and peaks at densities 0.5..0.7.
		n := rapid.IntRange(11, 16).Draw(t, "n")
		if rapid.IntRange(0, 4).Draw(t, "big") > 0 {
			n = rapid.IntRange(14, 16).Draw(t, "nbig")
		}
		pct := rapid.IntRange(35, 70).Draw(t, "pct")
		if rapid.Bool().Draw(t, "dense") {
			pct = rapid.IntRange(50, 68).Draw(t, "pctdense")
		}
		c.N = n
		if rapid.IntRange(0, 3).Draw(t, "drawn") == 0 {
			// edge by edge (shrinkable, but rapid's integer draws are not uniform)
			for u := 0; u < n; u++ {
				for v := u + 1; v < n; v++ {
					if coin(t, pct) {
						c.E = append(c.E, [2]int{u, v})
					}
				}
			}
		} else {
			// a true G(n,p) sample expanded from a drawn seed, stored in the case
			r := vk.NewSplitMix(rapid.Uint64().Draw(t, "gseed"))
			for u := 0; u < n; u++ {
				for v := u + 1; v < n; v++ {
					if r.Intn(100) < pct {
						c.E = append(c.E, [2]int{u, v})
					}
				}
			}
		}
	case cls < 9:
		c.Cls = "mycielski"
		k := rapid.IntRange(5, 7).Draw(t, "k")
		var base [][2]int
		for u := 0; u < k; u++ {
			for v := u + 1; v < k; v++ {
				if coin(t, 50) {
					base = append(base, [2]int{u, v})
				}
			}
		}
		c.N, c.E = mycielski(k, base)
		// a few extra edges among the shadows
		for x := rapid.IntRange(0, 4).Draw(t, "extra"); x > 0; x-- {
			u := rapid.IntRange(0, c.N-1).Draw(t, "u")
			v := rapid.IntRange(0, c.N-1).Draw(t, "v")
			if u != v {
				c.E = append(c.E, [2]int{min(u, v), max(u, v)})
			}
		}
	default:
		c.Cls = "crown"
		h := rapid.IntRange(5, 8).Draw(t, "half")
		c.N = 2 * h
		for i := 0; i < h; i++ {
			for j := 0; j < h; j++ {
				if i != j {
					c.E = append(c.E, [2]int{i, h + j})
				}
			}
		}
		for x := rapid.IntRange(0, 8).Draw(t, "extra"); x > 0; x-- {
			u := rapid.IntRange(0, c.N-1).Draw(t, "u")
			v := rapid.IntRange(0, c.N-1).Draw(t, "v")
			if u != v {
				c.E = append(c.E, [2]int{min(u, v), max(u, v)})
			}
		}
	}
	return c
}

func TestColoringExact(t *testing.T) {
	vk.Run(t, "coloring-exact", vk.Opts{Quick: 6000, Thorough: 20000, NoCrumb: true}, drawColExact, checkColExact)
}
