package c14

import (
	"fmt"
	"sort"
	"testing"

	"gonum.org/v1/gonum/graph"
	"gonum.org/v1/gonum/graph/topo"
	"pgregory.net/rapid"
	"verifharness/vk"
)

// ---- TarjanSCC, Sort, SortStabilized, PathExistsIn, IsPathIn, Equal -----------

type sccCase struct {
	G
	Q uint64 `json:"q"` // seed for sampled queries (pairs, paths)
}

// sccOf returns the block index of every node (blocks numbered by smallest
// member) from the closure.
func sccOf(n int, r [][]bool) (blk []int, nblk int) {
	blk = make([]int, n)
	for i := range blk {
		blk[i] = -1
	}
	for i := 0; i < n; i++ {
		if blk[i] >= 0 {
			continue
		}
		for j := i; j < n; j++ {
			if r[i][j] && r[j][i] {
				blk[j] = nblk
			}
		}
		nblk++
	}
	return
}

func byIDDesc(ns []graph.Node) {
	sort.Slice(ns, func(i, j int) bool { return ns[i].ID() > ns[j].ID() })
}

func checkSCC(c sccCase) *vk.Failure {
	return withIndet(c.G, func(g G) *vk.Failure { c2 := c; c2.G = g; return checkSCC1(c2) })
}

func checkSCC1(c sccCase) *vk.Failure {
	c.Dir = true
	m := model(c.G)
	n := m.n
	r := m.reach()
	blk, nblk := sccOf(n, r)
	size := make([]int, nblk)
	for _, b := range blk {
		size[b]++
	}
	cyclic := 0
	for _, s := range size {
		if s > 1 {
			cyclic++
		}
	}
	vk.Class("scc/" + c.Cls)
	vk.Class(fmt.Sprintf("scc/cont=%d", c.Cont))
	if nblk >= 2 && len(m.edges) > 0 {
		vk.NonTrivial("scc", m.edgeKey())
		if cyclic > 0 {
			vk.Class("scc/cyclic")
		} else {
			vk.Class("scc/dag")
		}
	}
	vk.Sample("dir-scc", c)
	g := m.directed(0)

	// TarjanSCC: partition of V by mutual reachability.
	sccs := topo.TarjanSCC(g)
	seen := make([]int, n)
	for i := range seen {
		seen[i] = -1
	}
	for bi, s := range sccs {
		is, ok := m.nodeIdx(s)
		if !ok {
			return vk.Failf("tarjan-foreign-node", "component %d contains a nil or unknown node", bi)
		}
		if len(is) == 0 {
			return vk.Failf("tarjan-empty-component", "component %d is empty", bi)
		}
		for _, i := range is {
			if seen[i] >= 0 {
				return vk.Failf("tarjan-not-partition", "node index %d (id %d) appears twice", i, m.id[i])
			}
			seen[i] = bi
		}
	}
	for i := 0; i < n; i++ {
		if seen[i] < 0 {
			return vk.Failf("tarjan-not-partition", "node index %d (id %d) is in no component", i, m.id[i])
		}
	}
	for i := 0; i < n; i++ {
		for j := i + 1; j < n; j++ {
			if (seen[i] == seen[j]) != (blk[i] == blk[j]) {
				return vk.Failf("tarjan-wrong-blocks", "ids %d,%d: same block=%v, mutually reachable=%v", m.id[i], m.id[j], seen[i] == seen[j], blk[i] == blk[j])
			}
		}
	}

	// Sort and SortStabilized.
	if f := checkSorted("sort", m, blk, size, cyclic, nil, func() ([]graph.Node, error) { return topo.Sort(g) }); f != nil {
		return f
	}
	if f := checkSorted("sortstab-nil", m, blk, size, cyclic, nil, func() ([]graph.Node, error) { return topo.SortStabilized(g, nil) }); f != nil {
		return f
	}
	if f := checkSorted("sortstab-desc", m, blk, size, cyclic, byIDDesc, func() ([]graph.Node, error) { return topo.SortStabilized(g, byIDDesc) }); f != nil {
		return f
	}
	// Stabilisation: the result is a function of the graph and the order
	// function, not of the iteration order of the container.
	if c.Cont == contOrdered {
		g2 := m.directed(0x77)
		for _, ord := range []func([]graph.Node){nil, byIDDesc} {
			a, ea := topo.SortStabilized(g, ord)
			b, eb := topo.SortStabilized(g2, ord)
			if fmtNodes(a) != fmtNodes(b) || fmt.Sprint(ea) != fmt.Sprint(eb) {
				return vk.Failf("sortstab-order-dependent", "two iteration orders of the same graph give %s (%v) and %s (%v)", fmtNodes(a), ea, fmtNodes(b), eb)
			}
		}
	}

	// PathExistsIn against the closure; IsPathIn against the adjacency matrix.
	q := vk.NewSplitMix(c.Q)
	if n > 0 {
		pairs := n * n
		if pairs > 40 {
			pairs = 40
		}
		for k := 0; k < pairs; k++ {
			u, v := k/n%n, k%n
			if n*n > 40 {
				u, v = q.Intn(n), q.Intn(n)
			}
			if got := topo.PathExistsIn(g, onode(m.id[u]), onode(m.id[v])); got != r[u][v] {
				return vk.Failf("pathexists", "PathExistsIn(%d,%d)=%v, reachable=%v", m.id[u], m.id[v], got, r[u][v])
			}
		}
		for k := 0; k < 6; k++ {
			var p []graph.Node
			want := true
			l := q.Intn(6)
			cur := q.Intn(n)
			for s := 0; s <= l; s++ {
				p = append(p, onode(m.id[cur]))
				// follow an arc when possible (2/3 of the time), else jump
				var outs []int
				for v := 0; v < n; v++ {
					if m.adj[cur][v] {
						outs = append(outs, v)
					}
				}
				nxt := q.Intn(n)
				if len(outs) > 0 && q.Intn(3) > 0 {
					nxt = outs[q.Intn(len(outs))]
				}
				if s < l && !m.adj[cur][nxt] {
					want = false
				}
				cur = nxt
			}
			if got := topo.IsPathIn(g, p); got != want {
				return vk.Failf("ispathin", "IsPathIn(%s)=%v want %v", fmtNodes(p), got, want)
			}
		}
	}
	if !topo.IsPathIn(g, nil) {
		return vk.Failf("ispathin-empty", "IsPathIn(g, nil) = false")
	}
	if topo.IsPathIn(g, []graph.Node{onode(987654321)}) {
		return vk.Failf("ispathin-absent", "IsPathIn of a single absent node = true")
	}

	// Equal: same node set and same successor sets.
	if f := checkEqual(m, g, q); f != nil {
		return f
	}
	return nil
}

func fmtNodes(ns []graph.Node) string {
	s := "["
	for i, x := range ns {
		if i > 0 {
			s += " "
		}
		if x == nil {
			s += "nil"
		} else {
			s += fmt.Sprint(x.ID())
		}
	}
	return s + "]"
}

// checkSorted validates the contract of Sort/SortStabilized.
func checkSorted(name string, m *M, blk, size []int, cyclic int, ord func([]graph.Node), call func() ([]graph.Node, error)) *vk.Failure {
	sorted, err := call()
	n := m.n
	pos := make([]int, len(size)) // position of each block in the output
	for i := range pos {
		pos[i] = -1
	}
	if cyclic == 0 {
		if err != nil {
			return vk.Failf(name+"-error-on-dag", "acyclic graph: error %v", err)
		}
		if len(sorted) != n {
			return vk.Failf(name+"-not-permutation", "acyclic graph with %d nodes: output %s", n, fmtNodes(sorted))
		}
	} else {
		if err == nil {
			return vk.Failf(name+"-no-error-on-cycle", "graph with %d cyclic components: nil error, output %s", cyclic, fmtNodes(sorted))
		}
		un, ok := err.(topo.Unorderable)
		if !ok {
			return vk.Failf(name+"-error-type", "error is %T, want topo.Unorderable", err)
		}
		if len(un) != cyclic {
			return vk.Failf(name+"-unorderable-count", "Unorderable lists %d components, graph has %d cyclic components", len(un), cyclic)
		}
		if len(sorted) != len(size) {
			return vk.Failf(name+"-length", "output has %d entries, want %d (singletons + one nil per cyclic component): %s", len(sorted), len(size), fmtNodes(sorted))
		}
		// The k-th nil marks the k-th listed component.
		k := 0
		for p, x := range sorted {
			if x != nil {
				continue
			}
			if k >= len(un) {
				return vk.Failf(name+"-nil-count", "more nil markers than cyclic components: %s", fmtNodes(sorted))
			}
			is, ok := m.nodeIdx(un[k])
			if !ok || len(is) < 2 {
				return vk.Failf(name+"-unorderable-component", "component %d is %s", k, fmtNodes(un[k]))
			}
			b := blk[is[0]]
			if size[b] != len(is) {
				return vk.Failf(name+"-unorderable-component", "component %s is not a strongly connected component (size %d)", fmtNodes(un[k]), size[b])
			}
			for _, i := range is {
				if blk[i] != b {
					return vk.Failf(name+"-unorderable-component", "component %s mixes strongly connected components", fmtNodes(un[k]))
				}
			}
			dup := map[int]bool{}
			for _, i := range is {
				if dup[i] {
					return vk.Failf(name+"-unorderable-component", "component %s repeats a node", fmtNodes(un[k]))
				}
				dup[i] = true
			}
			if pos[b] >= 0 {
				return vk.Failf(name+"-unorderable-duplicate", "component listed twice: %s", fmtNodes(un[k]))
			}
			pos[b] = p
			// members ordered by the order function
			want := append([]graph.Node(nil), un[k]...)
			if ord == nil {
				sort.Slice(want, func(i, j int) bool { return want[i].ID() < want[j].ID() })
			} else {
				ord(want)
			}
			if fmtNodes(want) != fmtNodes(un[k]) {
				return vk.Failf(name+"-unorderable-member-order", "component %s is not in the documented order %s", fmtNodes(un[k]), fmtNodes(want))
			}
			k++
		}
		if k != len(un) {
			return vk.Failf(name+"-nil-count", "%d nil markers for %d cyclic components: %s", k, len(un), fmtNodes(sorted))
		}
	}
	for p, x := range sorted {
		if x == nil {
			continue
		}
		i, ok := m.idx[x.ID()]
		if !ok {
			return vk.Failf(name+"-foreign-node", "unknown node %d in output", x.ID())
		}
		if size[blk[i]] != 1 {
			return vk.Failf(name+"-cyclic-node-listed", "node %d of a cyclic component appears in the sorted output %s", x.ID(), fmtNodes(sorted))
		}
		if pos[blk[i]] >= 0 {
			return vk.Failf(name+"-not-permutation", "node %d appears twice: %s", x.ID(), fmtNodes(sorted))
		}
		pos[blk[i]] = p
	}
	for b, p := range pos {
		if p < 0 {
			return vk.Failf(name+"-not-permutation", "block %d missing from output %s", b, fmtNodes(sorted))
		}
	}
	for _, e := range m.edges {
		bu, bv := blk[e[0]], blk[e[1]]
		if bu != bv && pos[bu] >= pos[bv] {
			return vk.Failf(name+"-arc-backward", "arc %d->%d goes backward in %s (err=%v)", m.id[e[0]], m.id[e[1]], fmtNodes(sorted), err)
		}
	}
	return nil
}

func checkEqual(m *M, g graph.Directed, q *vk.SplitMix) *vk.Failure {
	g2 := m.directed(0x99)
	if !topo.Equal(g, g2) || !topo.Equal(g2, g) {
		return vk.Failf("equal-same", "Equal(g, copy of g) = false")
	}
	if m.n == 0 {
		return nil
	}
	// A graph differing in exactly one arc, or in one node.
	c2 := m.c
	c2.E = nil
	u, v := q.Intn(m.n), q.Intn(m.n)
	if u == v {
		v = (u + 1) % m.n
	}
	if u != v {
		for _, e := range m.edges {
			if e[0] == u && e[1] == v {
				continue
			}
			c2.E = append(c2.E, e)
		}
		if !m.adj[u][v] {
			c2.E = append(c2.E, [2]int{u, v})
		}
		m2 := model(c2)
		m2.id, m2.idx = m.id, m.idx
		h := m2.directed(0x98)
		if topo.Equal(g, h) || topo.Equal(h, g) {
			return vk.Failf("equal-differs-one-arc", "Equal = true for graphs differing in arc %d->%d", m.id[u], m.id[v])
		}
	}
	c3 := m.c
	c3.N = m.n + 1
	m3 := model(c3)
	copy(m3.id, m.id)
	m3.id[m.n] = 424242424242
	m3.idx = map[int64]int{}
	for i, id := range m3.id {
		m3.idx[id] = i
	}
	h := m3.directed(0x97)
	if topo.Equal(g, h) || topo.Equal(h, g) {
		return vk.Failf("equal-extra-node", "Equal = true for graphs differing in one isolated node")
	}
	return nil
}

func TestDirSCC(t *testing.T) {
	blocks, total := exhPlan(true, vk.Pick(3, 4))
	vk.Enumerate(t, "dir-scc-exh", total, func(i int) sccCase {
		g := exhG(true, blocks, i)
		if i%5 == 4 {
			g.Cont = contMulti
		}
		return sccCase{G: g, Q: uint64(i)}
	}, checkSCC)
	vk.Run(t, "dir-scc", vk.Opts{Quick: 8000, Thorough: 150000, NoCrumb: true}, func(t *rapid.T) sccCase {
		g := drawG(t, true, 40, dirClasses, []int{contOrdered, contOrdered, contSimple, contMulti, contIndet})
		return sccCase{G: g, Q: rapid.Uint64().Draw(t, "q")}
	}, checkSCC)
}

// ---- DirectedCyclesIn ----------------------------------------------------------

type cycCase struct{ G }

// elementaryCycles enumerates the elementary cycles of m: for every start s the
// simple paths from s through nodes > s that return to s. Each cycle is
// reported once, as the index sequence starting at its smallest index. The
// enumeration stops (ok=false) beyond limit cycles.
func elementaryCycles(m *M, limit int) (out [][]int, ok bool) {
	n := m.n
	on := make([]bool, n)
	back := make([]bool, n) // nodes >= s from which s is reachable inside {s..n-1}
	var path []int
	ok = true
	steps := 0
	var rec func(s, u int)
	rec = func(s, u int) {
		if !ok {
			return
		}
		if steps++; steps > 4_000_000 {
			ok = false
			return
		}
		for v := s; v < n; v++ {
			if !m.adj[u][v] || !back[v] {
				continue
			}
			if v == s {
				out = append(out, append([]int(nil), path...))
				if len(out) > limit {
					ok = false
					return
				}
				continue
			}
			if on[v] {
				continue
			}
			on[v] = true
			path = append(path, v)
			rec(s, v)
			path = path[:len(path)-1]
			on[v] = false
		}
	}
	for s := 0; s < n; s++ {
		for i := range back {
			back[i] = false
		}
		back[s] = true
		stack := []int{s}
		for len(stack) > 0 {
			x := stack[len(stack)-1]
			stack = stack[:len(stack)-1]
			for y := s; y < n; y++ {
				if m.adj[y][x] && !back[y] {
					back[y] = true
					stack = append(stack, y)
				}
			}
		}
		on[s] = true
		path = append(path[:0], s)
		rec(s, s)
		on[s] = false
	}
	return out, ok
}

func rotateMin(c []int) []int {
	k := 0
	for i := range c {
		if c[i] < c[k] {
			k = i
		}
	}
	return append(append([]int(nil), c[k:]...), c[:k]...)
}

func checkDirCycles(c cycCase) *vk.Failure {
	return withIndet(c.G, func(g G) *vk.Failure { return checkDirCycles1(cycCase{g}) })
}

func checkDirCycles1(c cycCase) *vk.Failure {
	c.Dir = true
	m := model(c.G)
	want, ok := elementaryCycles(m, 60000)
	if !ok {
		vk.Inconclusive("dir-cycles: more than 60000 elementary cycles")
		return nil
	}
	vk.Class("dircycles/" + c.Cls)
	switch {
	case len(want) == 0:
		vk.Class("dircycles/count=0")
	case len(want) == 1:
		vk.Class("dircycles/count=1")
	case len(want) < 10:
		vk.Class("dircycles/count=2..9")
	default:
		vk.Class("dircycles/count>=10")
	}
	if len(want) >= 2 {
		vk.NonTrivial("dircycles", m.edgeKey())
	}
	vk.Sample("dir-cycles", c)
	g := m.directed(0)
	got := topo.DirectedCyclesIn(g)
	wantSet := make(map[string]bool, len(want))
	for _, w := range want {
		wantSet[fmt.Sprint(w)] = true
	}
	gotSet := make(map[string]bool, len(got))
	for _, cy := range got {
		is, ok := m.nodeIdxOrdered(cy)
		if !ok {
			return vk.Failf("dircycles-foreign-node", "cycle %s has a nil or unknown node", fmtNodes(cy))
		}
		if len(is) < 3 || is[0] != is[len(is)-1] {
			return vk.Failf("dircycles-not-closed", "cycle %s is not of the form [v0 ... vk v0]", fmtNodes(cy))
		}
		is = is[:len(is)-1]
		dup := map[int]bool{}
		for k, u := range is {
			if dup[u] {
				return vk.Failf("dircycles-not-elementary", "cycle %s repeats a node", fmtNodes(cy))
			}
			dup[u] = true
			if !m.adj[u][is[(k+1)%len(is)]] {
				return vk.Failf("dircycles-not-in-graph", "cycle %s uses the absent arc %d->%d", fmtNodes(cy), m.id[u], m.id[is[(k+1)%len(is)]])
			}
		}
		key := fmt.Sprint(rotateMin(is))
		if gotSet[key] {
			return vk.Failf("dircycles-duplicate", "cycle %s reported twice (up to rotation)", fmtNodes(cy))
		}
		gotSet[key] = true
	}
	for _, w := range want {
		if !gotSet[fmt.Sprint(w)] {
			ids := make([]int64, len(w))
			for k, u := range w {
				ids[k] = m.id[u]
			}
			return vk.Failf("dircycles-missing", "elementary cycle %v not reported (%d reported, %d exist)", ids, len(got), len(want))
		}
	}
	if len(gotSet) != len(wantSet) {
		return vk.Failf("dircycles-count", "%d cycles reported, %d exist", len(gotSet), len(wantSet))
	}
	return nil
}

// nodeIdxOrdered is nodeIdx without sorting.
func (m *M) nodeIdxOrdered(ns []graph.Node) ([]int, bool) { return m.nodeIdx(ns) }

func TestDirCycles(t *testing.T) {
	blocks, total := exhPlan(true, vk.Pick(3, 4))
	vk.Enumerate(t, "dir-cycles-exh", total, func(i int) cycCase { return cycCase{exhG(true, blocks, i)} }, checkDirCycles)
	vk.Run(t, "dir-cycles", vk.Opts{Quick: 6000, Thorough: 120000}, func(t *rapid.T) cycCase {
		// Dense classes stay at <= 7 nodes (the complete digraph on 7 nodes has
		// 2365 elementary cycles); the sparse-like classes go to 40 nodes.
		if rapid.IntRange(0, 2).Draw(t, "small") > 0 {
			return cycCase{drawG(t, true, 7, dirClasses, []int{contOrdered, contSimple, contIndet})}
		}
		if rapid.Bool().Draw(t, "mid") {
			return cycCase{drawG(t, true, 20, []string{"sparse", "comps"}, []int{contOrdered, contSimple, contIndet})}
		}
		return cycCase{drawG(t, true, 40, []string{"dag", "cycle", "tree"}, []int{contOrdered, contSimple, contIndet})}
	}, checkDirCycles)
}
