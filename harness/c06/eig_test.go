package c06

import (
	"fmt"
	"math"
	"math/cmplx"
	"sort"
	"testing"

	"gonum.org/v1/gonum/mat"
	"pgregory.net/rapid"
	"verifharness/vk"
)

// ---- EigenSym ----------------------------------------------------------------

type eigSymCase struct {
	N       int
	Class   string // spd, indef, cluster, band, zero
	LogK    int
	Band    int
	Vectors bool
	Reuse   bool
	AKind   int
	Dst     int
	Seed    uint64
}

func drawEigSym(t *rapid.T) eigSymCase {
	return eigSymCase{
		N:       dimN(t, "n", 1),
		Class:   rapid.SampledFrom([]string{"spd", "indef", "indef", "cluster", "band", "zero"}).Draw(t, "class"),
		LogK:    rapid.SampledFrom([]int{0, 1, 3, 6, 12}).Draw(t, "logk"),
		Band:    rapid.IntRange(0, 4).Draw(t, "band"),
		Vectors: rapid.IntRange(0, 3).Draw(t, "vectors") != 0,
		Reuse:   rapid.IntRange(0, 3).Draw(t, "reuse") == 0,
		AKind:   rapid.IntRange(0, 15).Draw(t, "akind"),
		Dst:     rapid.IntRange(0, 2).Draw(t, "dst"),
		Seed:    vk.SeedGen(t, "seed"),
	}
}

func checkEigSym(c eigSymCase) *vk.Failure {
	n := c.N
	sm := vk.NewSplitMix(c.Seed)
	st := struc{sym: true, band: -1}
	var A *M
	var lam []float64
	scale := math.Ldexp(1, sm.Intn(7)-3)
	switch c.Class {
	case "spd":
		lam = logSpaced(n, scale, math.Pow(10, float64(c.LogK)), sm)
	case "indef":
		lam = logSpaced(n, scale, math.Pow(10, float64(c.LogK)), sm)
		for i := range lam {
			if sm.Intn(2) == 0 {
				lam[i] = -lam[i]
			}
		}
	case "cluster":
		lam = make([]float64, n)
		vals := []float64{scale, -scale, scale / 2, 0}
		for i := range lam {
			lam[i] = vals[sm.Intn(len(vals))]
		}
	case "zero":
		lam = make([]float64, n)
	case "band":
		A = genBandSPD(n, minInt(c.Band, n-1), sm)
		st.band = minInt(c.Band, n-1)
		if n <= 40 {
			lam, _ = jacobiEig(A, false)
		}
	}
	if A == nil {
		A = genSym(n, lam, sm)
	}
	if lam != nil {
		lam = append([]float64(nil), lam...)
		sort.Float64s(lam)
	}
	sk := pickSymKind(c.AKind, st)
	vk.Class("eigsym/class=" + c.Class)
	vk.Class("eigsym/a=" + symKindNames[sk])
	vk.Class(fmt.Sprintf("eigsym/vectors=%v", c.Vectors))
	vk.Sample("eigsym", c)
	if n >= 2 && (sk != sSym || c.Dst != dEmpty || !c.Vectors || c.Class == "zero" || c.Class == "cluster") {
		vk.NonTrivial("eigsym", n, c.Class, sk, c.Dst, c.Vectors, c.Reuse)
	}
	as := mkSym(sk, A, st, sm)
	var es mat.EigenSym
	if c.Reuse {
		es.Factorize(mat.NewSymDense(3, []float64{2, 1, 0, 1, 2, 1, 0, 1, 2}), true)
	}
	if !es.Factorize(as, c.Vectors) {
		vk.Inconclusive("eigsym-factorize-returned-false")
		return nil
	}
	if es.SymmetricDim() != n {
		return failf("dims", "SymmetricDim=%d want %d", es.SymmetricDim(), n)
	}
	var vals []float64
	if sm.Intn(2) == 0 {
		vals = es.Values(nil)
	} else {
		vals = es.Values(make([]float64, n))
	}
	raw := es.RawValues()
	if len(vals) != n || len(raw) != n {
		return failf("values-len", "len(Values)=%d len(RawValues)=%d want %d", len(vals), len(raw), n)
	}
	fa := frob(A)
	tol := cOrth*float64(n)*eps*fa + 1e-300
	for i := range vals {
		if !sameBits(vals[i], raw[i]) {
			return failf("rawvalues", "RawValues differs from Values at %d", i)
		}
		if i > 0 && !(vals[i-1] <= vals[i]) {
			return failf("values-order", "Values not ascending at %d: %v %v", i, vals[i-1], vals[i])
		}
		if lam != nil && !leq(math.Abs(vals[i]-lam[i]), tol) {
			return failf("values", "n=%d class %s lambda[%d]=%v reference %v tol %g", n, c.Class, i, vals[i], lam[i], tol)
		}
	}
	if !c.Vectors {
		if f := vk.MustPanic("vectorsto-without-vectors", func() { var d mat.Dense; es.VectorsTo(&d) }); f != nil {
			return f
		}
		if f := vk.MustPanic("at-without-vectors", func() { es.At(0, 0) }); f != nil {
			return f
		}
		if es.RawQ() != nil {
			return failf("rawq-without-vectors", "RawQ() is not nil although vectors were not computed")
		}
		return nil
	}
	Q, f := extractDense("vectorsto", c.Dst, n, n, sm, es.VectorsTo)
	if f != nil {
		return f
	}
	if d := orthoDefect(Q); !leq(d, cOrth*float64(n)*eps) {
		return failf("q-not-orthogonal", "n=%d ||Q'Q-I||_F=%g", n, d)
	}
	ql := newM(n, n)
	for i := 0; i < n; i++ {
		for j := 0; j < n; j++ {
			ql.d[i*n+j] = Q.at(i, j) * vals[j]
		}
	}
	if d := frob(subM(A, mul(ql, Q.t()))); !leq(d, tol) {
		return failf("reconstruct", "n=%d class %s ||A-Q*L*Q'||_F=%g tol %g", n, c.Class, d, tol)
	}
	for k := 0; k < 3; k++ {
		i, j := sm.Intn(n), sm.Intn(n)
		if d := math.Abs(es.At(i, j) - A.at(i, j)); !leq(d, tol) {
			return failf("at", "At(%d,%d)=%v A=%v", i, j, es.At(i, j), A.at(i, j))
		}
	}
	if rq := es.RawQ(); rq == nil || !sameM(toM(rq), Q) {
		return failf("rawq", "RawQ differs from VectorsTo")
	}
	return nil
}

func TestEigenSym(t *testing.T) {
	vk.Run(t, "eigsym", vk.Opts{Quick: 2000, Thorough: 60000}, drawEigSym, checkEigSym)
}

// ---- Eigen -------------------------------------------------------------------

var eigenKinds = []mat.EigenKind{mat.EigenNone, mat.EigenLeft, mat.EigenRight, mat.EigenBoth, mat.EigenBoth}

type eigenCase struct {
	N     int
	Class string // general, sym, rot, tri, nilpotent-ish
	Kind  int
	Reuse bool
	AKind int
	Dst   int
	Seed  uint64
}

func drawEigen(t *rapid.T) eigenCase {
	return eigenCase{
		N:     dimN(t, "n", 1),
		Class: rapid.SampledFrom([]string{"general", "general", "sym", "rot", "rot-repeated", "near-identity", "tri", "similar"}).Draw(t, "class"),
		Kind:  rapid.IntRange(0, len(eigenKinds)-1).Draw(t, "kind"),
		Reuse: rapid.IntRange(0, 3).Draw(t, "reuse") == 0,
		AKind: rapid.IntRange(0, 15).Draw(t, "akind"),
		Dst:   rapid.IntRange(0, 2).Draw(t, "dst"),
		Seed:  vk.SeedGen(t, "seed"),
	}
}

// cM is a dense complex matrix.
type cM struct {
	r, c int
	d    []complex128
}

func extractC(what string, state, n int, to func(*mat.CDense)) (*cM, *vk.Failure) {
	var dst *mat.CDense
	switch state {
	case dSized, dView:
		d := make([]complex128, n*n)
		for i := range d {
			d[i] = complex(garbage, garbage)
		}
		dst = mat.NewCDense(n, n, d)
	default:
		dst = &mat.CDense{}
	}
	to(dst)
	r, c := dst.Dims()
	if r != n || c != n {
		return nil, failf(what+"-dst-dims", "destination is %d×%d want %d×%d", r, c, n, n)
	}
	m := &cM{n, n, make([]complex128, n*n)}
	for i := 0; i < n; i++ {
		for j := 0; j < n; j++ {
			m.d[i*n+j] = dst.At(i, j)
		}
	}
	return m, nil
}

func checkEigen(c eigenCase) *vk.Failure {
	n := c.N
	sm := vk.NewSplitMix(c.Seed)
	st := struc{band: -1}
	var A *M
	var symLam []float64
	scale := math.Ldexp(1, sm.Intn(5)-2)
	switch c.Class {
	case "general":
		A = newM(n, n)
		sm.FillFinite(A.d)
	case "sym":
		symLam = logSpaced(n, scale, 1e3, sm)
		for i := range symLam {
			if sm.Intn(2) == 0 {
				symLam[i] = -symLam[i]
			}
		}
		A = genSym(n, symLam, sm)
		st.sym = true
		sort.Float64s(symLam)
	case "rot":
		// block diagonal of scaled 2×2 rotations (complex pairs), orthogonally mixed
		A = newM(n, n)
		for i := 0; i+1 < n; i += 2 {
			th := 0.1 + 3*sm.Float()
			r := scale * (0.5 + sm.Float())
			A.d[i*n+i], A.d[i*n+i+1] = r*math.Cos(th), -r*math.Sin(th)
			A.d[(i+1)*n+i], A.d[(i+1)*n+i+1] = r*math.Sin(th), r*math.Cos(th)
		}
		if n%2 == 1 {
			A.d[n*n-1] = scale
		}
		for h := 0; h < 2; h++ {
			v := gaussVec(n, sm)
			houseLeft(A, v)
			houseRight(A, v)
		}
	case "rot-repeated":
		// identical 2×2 rotation blocks: repeated complex pairs
		A = newM(n, n)
		th := 0.1 + 3*sm.Float()
		for i := 0; i+1 < n; i += 2 {
			A.d[i*n+i], A.d[i*n+i+1] = scale*math.Cos(th), -scale*math.Sin(th)
			A.d[(i+1)*n+i], A.d[(i+1)*n+i+1] = scale*math.Sin(th), scale*math.Cos(th)
		}
		if n%2 == 1 {
			A.d[n*n-1] = scale
		}
		if sm.Intn(2) == 0 {
			v := gaussVec(n, sm)
			houseLeft(A, v)
			houseRight(A, v)
		}
	case "near-identity":
		// identity plus rounding-level non-symmetric noise (what HOGSVD feeds to
		// Eigen when all matrices have orthonormal columns)
		A = eyeM(n)
		for i := range A.d {
			A.d[i] += float64(sm.Intn(5)-2) * eps
		}
	case "tri":
		A = newM(n, n)
		for i := 0; i < n; i++ {
			for j := i; j < n; j++ {
				A.d[i*n+j] = sm.Finite()
			}
		}
	case "similar":
		// X D X^-1 with a moderately conditioned X: real eigenvalues, non-normal
		A = newM(n, n)
		for i := 0; i < n; i++ {
			A.d[i*n+i] = float64(sm.Intn(7) - 3)
		}
		X := genSigma(n, n, logSpaced(n, 1, 10, sm), sm)
		_, _, Xi, ok := luRef(X)
		if ok {
			A = mul(mul(X, A), Xi)
		}
	}
	ak := pickKind(c.AKind, st)
	kind := eigenKinds[c.Kind]
	vk.Class("eigen/class=" + c.Class)
	vk.Class(fmt.Sprintf("eigen/kind=%d", int(kind)))
	vk.Class("eigen/a=" + kindNames[ak])
	vk.Sample("eigen", c)
	if n >= 2 && (ak != kDense || c.Dst != dEmpty || kind != mat.EigenRight) {
		vk.NonTrivial("eigen", n, c.Class, int(kind), ak, c.Dst, c.Reuse)
	}
	am := mkMat(ak, A, st, sm)
	var e mat.Eigen
	if c.Reuse {
		e.Factorize(mat.NewDense(2, 2, []float64{0, 1, -1, 0}), mat.EigenBoth)
	} else if e.Kind() != -1 {
		return failf("kind-before-factorize", "Kind()=%d on a zero Eigen, documented -1", e.Kind())
	}
	var fok bool
	if res := vk.Call(func() { fok = e.Factorize(am, kind) }); res.Outcome == vk.RuntimeFault {
		return failf("factorize-runtime-fault", "Eigen.Factorize (n=%d class %s kind %d) ended in a runtime fault: %s", n, c.Class, kind, res.Text)
	} else if res.Outcome != vk.Returned {
		return failf("factorize-panic", "Eigen.Factorize (n=%d class %s): %s", n, c.Class, res.Text)
	}
	if !fok {
		vk.Inconclusive("eigen-factorize-returned-false")
		return nil
	}
	if !sameM(toM(am), A) {
		return failf("factorize-modified-a", "Factorize changed its argument")
	}
	if e.Kind() != kind {
		return failf("kind", "Kind()=%d want %d", e.Kind(), kind)
	}
	var vals []complex128
	if sm.Intn(2) == 0 {
		vals = e.Values(nil)
	} else {
		vals = e.Values(make([]complex128, n))
	}
	if len(vals) != n {
		return failf("values-len", "len(Values)=%d want %d", len(vals), n)
	}
	fa := frob(A)
	fn := float64(n)
	tol := cOrth*fn*eps*fa + 1e-300
	var sum complex128
	var tr float64
	for i := 0; i < n; i++ {
		tr += A.at(i, i)
		sum += vals[i]
		if cmplx.IsNaN(vals[i]) || cmplx.IsInf(vals[i]) {
			return failf("values-nonfinite", "eigenvalue %d is %v", i, vals[i])
		}
	}
	for i := 0; i < n; i++ {
		if imag(vals[i]) != 0 {
			if i+1 >= n || vals[i+1] != cmplx.Conj(vals[i]) {
				return failf("values-conjugate-pairs", "complex eigenvalue %d=%v is not followed by its conjugate", i, vals[i])
			}
			i++
		}
	}
	if !leq(cmplx.Abs(sum-complex(tr, 0)), math.Sqrt(fn)*tol) {
		return failf("trace", "n=%d sum of eigenvalues %v, trace %v, tol %g", n, sum, tr, math.Sqrt(fn)*tol)
	}
	if symLam != nil {
		re := make([]float64, n)
		for i, v := range vals {
			re[i] = real(v)
			if !leq(math.Abs(imag(v)), tol) {
				return failf("sym-values-imag", "symmetric input: eigenvalue %v has imaginary part above %g", v, tol)
			}
		}
		sort.Float64s(re)
		for i := range re {
			if !leq(math.Abs(re[i]-symLam[i]), tol) {
				return failf("sym-values", "symmetric input n=%d: eigenvalue %d = %v, prescribed %v, tol %g", n, i, re[i], symLam[i], tol)
			}
		}
	}
	if c.Class == "tri" {
		// eigenvalues of a triangular matrix are its diagonal (same multiset)
		di, re := make([]float64, n), make([]float64, n)
		for i := 0; i < n; i++ {
			di[i], re[i] = A.at(i, i), real(vals[i])
			if imag(vals[i]) != 0 {
				return failf("tri-values-complex", "triangular input has complex eigenvalue %v", vals[i])
			}
		}
		sort.Float64s(di)
		sort.Float64s(re)
		for i := range di {
			if re[i] != di[i] {
				return failf("tri-values", "triangular input: sorted eigenvalues %v differ from sorted diagonal %v", re, di)
			}
		}
	}
	checkVecs := func(what string, V *cM, left bool) *vk.Failure {
		for j := 0; j < n; j++ {
			var nrm, big, second float64
			bigI := 0
			for i := 0; i < n; i++ {
				a := cmplx.Abs(V.d[i*n+j])
				nrm += a * a
				if a > big {
					second, big, bigI = big, a, i
				} else if a > second {
					second = a
				}
			}
			nrm = math.Sqrt(nrm)
			if !leq(math.Abs(nrm-1), 100*fn*eps) {
				return failf(what+"-norm", "n=%d vector %d has Euclidean norm %v, documented 1", n, j, nrm)
			}
			if second < big*(1-1e-6) && !leq(math.Abs(imag(V.d[bigI*n+j])), 100*eps) {
				return failf(what+"-largest-component-real", "n=%d vector %d: largest component %v is not real", n, j, V.d[bigI*n+j])
			}
			// residual
			var res float64
			for i := 0; i < n; i++ {
				var s complex128
				if !left {
					for k := 0; k < n; k++ {
						s += complex(A.at(i, k), 0) * V.d[k*n+j]
					}
					s -= vals[j] * V.d[i*n+j]
				} else {
					// (u^H A)_i - lambda u^H_i
					for k := 0; k < n; k++ {
						s += cmplx.Conj(V.d[k*n+j]) * complex(A.at(k, i), 0)
					}
					s -= vals[j] * cmplx.Conj(V.d[i*n+j])
				}
				res += real(s)*real(s) + imag(s)*imag(s)
			}
			res = math.Sqrt(res)
			if !leq(res, tol) {
				return failf(what+"-residual", "n=%d class %s pair %d (lambda=%v): residual %g exceeds %g", n, c.Class, j, vals[j], res, tol)
			}
		}
		return nil
	}
	if kind&mat.EigenRight != 0 {
		V, f := extractC("vectorsto", c.Dst, n, e.VectorsTo)
		if f != nil {
			return f
		}
		if f := checkVecs("right", V, false); f != nil {
			return f
		}
	} else if f := vk.MustPanic("vectorsto-without-right", func() { var d mat.CDense; e.VectorsTo(&d) }); f != nil {
		return f
	}
	if kind&mat.EigenLeft != 0 {
		V, f := extractC("leftvectorsto", c.Dst, n, e.LeftVectorsTo)
		if f != nil {
			return f
		}
		if f := checkVecs("left", V, true); f != nil {
			return f
		}
	} else if f := vk.MustPanic("leftvectorsto-without-left", func() { var d mat.CDense; e.LeftVectorsTo(&d) }); f != nil {
		return f
	}
	return nil
}

func TestEigen(t *testing.T) {
	vk.Run(t, "eigen", vk.Opts{Quick: 2000, Thorough: 60000}, drawEigen, checkEigen)
}
