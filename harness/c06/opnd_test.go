package c06

// Operand representations: every logical matrix / vector handed to the code
// under test can be wrapped in several concrete mat types, with NaN padding in
// the parts of the backing storage that must not be referenced.

import (
	"fmt"
	"math"

	"gonum.org/v1/gonum/blas"
	"gonum.org/v1/gonum/blas/blas64"
	"gonum.org/v1/gonum/mat"
	"pgregory.net/rapid"
	"verifharness/vk"
)

var nan = math.NaN()

// basicMat implements only mat.Matrix (the "At-only" operand kind).
type basicMat struct{ m *M }

func (b basicMat) Dims() (int, int)    { return b.m.r, b.m.c }
func (b basicMat) At(i, j int) float64 { return b.m.at(i, j) }
func (b basicMat) T() mat.Matrix       { return mat.Transpose{Matrix: b} }

// basicSym implements only mat.Symmetric.
type basicSym struct{ basicMat }

func (b basicSym) SymmetricDim() int { return b.m.r }

// basicSymBand implements only mat.SymBanded.
type basicSymBand struct {
	basicMat
	k int
}

func (b basicSymBand) SymmetricDim() int     { return b.m.r }
func (b basicSymBand) Bandwidth() (int, int) { return b.k, b.k }
func (b basicSymBand) TBand() mat.Banded     { return b }
func (b basicSymBand) SymBand() (int, int)   { return b.m.r, b.k }
func (b basicSymBand) T() mat.Matrix         { return b }

// basicVec implements only mat.Vector.
type basicVec struct{ d []float64 }

func (b basicVec) Dims() (int, int)    { return len(b.d), 1 }
func (b basicVec) At(i, j int) float64 { return b.d[i] }
func (b basicVec) T() mat.Matrix       { return mat.Transpose{Matrix: b} }
func (b basicVec) AtVec(i int) float64 { return b.d[i] }
func (b basicVec) Len() int            { return len(b.d) }

// basicTri implements only mat.Triangular (upper).
type basicTri struct{ basicMat }

func (b basicTri) Triangle() (int, mat.TriKind) { return b.m.r, mat.Upper }
func (b basicTri) TTri() mat.Triangular         { return mat.TransposeTri{Triangular: b} }

// Kinds of general-matrix operands.
const (
	kDense = iota
	kView
	kTrans
	kTransView
	kBasic
	kSym     // only for symmetric data
	kBand    // only for banded data
	kSymBand // only for symmetric banded data
	nKinds
)

var kindNames = [...]string{"dense", "view", "trans", "transview", "basic", "sym", "band", "symband"}

// struc describes structure of the logical matrix that allows special kinds.
type struc struct {
	sym  bool
	band int // bandwidth (kl=ku=band), -1 if not banded
}

// pickKind maps a drawn kind index onto a kind valid for the structure.
func pickKind(k int, s struc) int {
	general := []int{kDense, kView, kTrans, kTransView, kBasic}
	var special []int
	if s.sym {
		special = append(special, kSym)
	}
	if s.band >= 0 {
		special = append(special, kBand)
		if s.sym {
			special = append(special, kSymBand)
		}
	}
	if k < 0 {
		k = -k
	}
	// indices 8..15 select a structured representation when the class has one
	if k%16 >= 8 && len(special) > 0 {
		return special[k%len(special)]
	}
	return general[k%len(general)]
}

// denseView embeds a in a larger NaN-filled Dense and returns the view.
func denseView(a *M, sm *vk.SplitMix) *mat.Dense {
	pr, pc := sm.Intn(3), sm.Intn(3)
	qr, qc := sm.Intn(3), 1+sm.Intn(3)
	R, C := a.r+pr+qr, a.c+pc+qc
	big := mat.NewDense(R, C, nil)
	raw := big.RawMatrix()
	for i := range raw.Data {
		raw.Data[i] = nan
	}
	v := big.Slice(pr, pr+a.r, pc, pc+a.c).(*mat.Dense)
	for i := 0; i < a.r; i++ {
		for j := 0; j < a.c; j++ {
			v.Set(i, j, a.at(i, j))
		}
	}
	return v
}

func denseOf(a *M) *mat.Dense {
	return mat.NewDense(a.r, a.c, append([]float64(nil), a.d...))
}

// mkMat wraps the logical matrix a in the requested representation.
func mkMat(kind int, a *M, s struc, sm *vk.SplitMix) mat.Matrix {
	switch kind {
	case kDense:
		return denseOf(a)
	case kView:
		return denseView(a, sm)
	case kTrans:
		return denseOf(a.t()).T()
	case kTransView:
		return denseView(a.t(), sm).T()
	case kBasic:
		return basicMat{a.clone()}
	case kSym:
		return mkSym(0, a, s, sm)
	case kBand:
		k := s.band
		if k > a.r-1 {
			k = a.r - 1
		}
		if k > a.c-1 {
			k = a.c - 1
		}
		b := mat.NewBandDense(a.r, a.c, k, k, nil)
		raw := b.RawBand()
		for i := range raw.Data {
			raw.Data[i] = nan
		}
		for i := 0; i < a.r; i++ {
			for j := maxInt(0, i-k); j <= minInt(a.c-1, i+k); j++ {
				b.SetBand(i, j, a.at(i, j))
			}
		}
		return b
	case kSymBand:
		return mkSymBand(0, a, s.band, sm)
	}
	panic("c06: bad kind")
}

// Symmetric operand kinds.
const (
	sSym = iota
	sSymView
	sBasicSym
	sSymBand // only for banded
	nSymKinds
)

var symKindNames = [...]string{"symdense", "symview", "basicsym", "symband"}

func pickSymKind(k int, s struc) int {
	allowed := []int{sSym, sSymView, sBasicSym}
	if s.band >= 0 {
		allowed = append(allowed, sSymBand)
	}
	if k < 0 {
		k = -k
	}
	return allowed[k%len(allowed)]
}

// mkSym wraps a symmetric logical matrix; the unreferenced lower triangle of
// SymDense storage holds NaN.
func mkSym(kind int, a *M, s struc, sm *vk.SplitMix) mat.Symmetric {
	n := a.r
	switch kind {
	case sSym:
		d := make([]float64, n*n)
		for i := 0; i < n; i++ {
			for j := 0; j < n; j++ {
				if j >= i {
					d[i*n+j] = a.at(i, j)
				} else {
					d[i*n+j] = nan
				}
			}
		}
		return mat.NewSymDense(n, d)
	case sSymView:
		p, q := sm.Intn(3), 1+sm.Intn(3)
		N := n + p + q
		d := make([]float64, N*N)
		for i := range d {
			d[i] = nan
		}
		big := mat.NewSymDense(N, d)
		v := big.SliceSym(p, p+n).(*mat.SymDense)
		for i := 0; i < n; i++ {
			for j := i; j < n; j++ {
				v.SetSym(i, j, a.at(i, j))
			}
		}
		return v
	case sBasicSym:
		return basicSym{basicMat{a.clone()}}
	case sSymBand:
		return mkSymBand(0, a, s.band, sm)
	}
	panic("c06: bad sym kind")
}

// SymBanded operand kinds.
const (
	sbCompact = iota
	sbStrided
	sbBasic
	nSymBandKinds
)

var symBandKindNames = [...]string{"symband", "symband-strided", "basic-symband"}

func mkSymBand(kind int, a *M, k int, sm *vk.SplitMix) mat.SymBanded {
	n := a.r
	if k > n-1 {
		k = n - 1
	}
	switch kind {
	case sbCompact, sbStrided:
		stride := k + 1
		if kind == sbStrided {
			stride += 1 + sm.Intn(3)
		}
		d := make([]float64, n*stride)
		for i := range d {
			d[i] = nan
		}
		for i := 0; i < n; i++ {
			for j := i; j <= i+k && j < n; j++ {
				d[i*stride+(j-i)] = a.at(i, j)
			}
		}
		var b mat.SymBandDense
		b.SetRawSymBand(blas64.SymmetricBand{N: n, K: k, Stride: stride, Uplo: blas.Upper, Data: d})
		return &b
	case sbBasic:
		return basicSymBand{basicMat{a.clone()}, k}
	}
	panic("c06: bad symband kind")
}

// Right-hand-side kinds.
const (
	bDense = iota
	bView
	bTrans
	bBasic
	nBKinds
)

var bKindNames = [...]string{"dense", "view", "trans", "basic"}

func mkB(kind int, b *M, sm *vk.SplitMix) mat.Matrix {
	switch kind {
	case bDense:
		return denseOf(b)
	case bView:
		return denseView(b, sm)
	case bTrans:
		return denseOf(b.t()).T()
	case bBasic:
		return basicMat{b.clone()}
	}
	panic("c06: bad b kind")
}

// Vector kinds.
const (
	vUnit = iota
	vStrided
	vBasic
	nVKinds
)

var vKindNames = [...]string{"vec", "vec-strided", "basic-vec"}

// stridedVec returns a VecDense with increment > 1 over a NaN-filled backing.
func stridedVec(x []float64, sm *vk.SplitMix) *mat.VecDense {
	n := len(x)
	cols := 2 + sm.Intn(3)
	j := sm.Intn(cols)
	big := mat.NewDense(n, cols, nil)
	raw := big.RawMatrix()
	for i := range raw.Data {
		raw.Data[i] = nan
	}
	v := big.ColView(j).(*mat.VecDense)
	for i, f := range x {
		v.SetVec(i, f)
	}
	return v
}

func mkVec(kind int, x []float64, sm *vk.SplitMix) mat.Vector {
	switch kind {
	case vUnit:
		return mat.NewVecDense(len(x), append([]float64(nil), x...))
	case vStrided:
		return stridedVec(x, sm)
	case vBasic:
		return basicVec{append([]float64(nil), x...)}
	}
	panic("c06: bad vec kind")
}

// Destination states.
const (
	dEmpty = iota
	dSized
	dView
	dAlias
	nDst
)

var dstNames = [...]string{"empty", "sized", "view", "alias"}

// dstDense is a destination matrix together with what is needed to verify that
// nothing outside it was written.
type dstDense struct {
	d    *mat.Dense
	big  *mat.Dense // enclosing matrix for views
	pr   int
	pc   int
	r, c int
}

const garbage = 7.25e77 // value pre-filled into non-empty destinations

// mkDst builds the destination for an r×c result. alias (if non-nil and
// state==dAlias) is used as the destination itself.
func mkDst(state, r, c int, alias *mat.Dense, sm *vk.SplitMix) (dstDense, int) {
	switch state {
	case dAlias:
		if alias != nil {
			ar, ac := alias.Dims()
			if ar == r && ac == c {
				return dstDense{d: alias, r: r, c: c}, dAlias
			}
		}
		state = dSized
		fallthrough
	case dSized:
		d := mat.NewDense(r, c, nil)
		raw := d.RawMatrix()
		for i := range raw.Data {
			raw.Data[i] = garbage
		}
		return dstDense{d: d, r: r, c: c}, dSized
	case dView:
		pr, pc := sm.Intn(3), sm.Intn(3)
		qr, qc := sm.Intn(3), 1+sm.Intn(3)
		big := mat.NewDense(r+pr+qr, c+pc+qc, nil)
		raw := big.RawMatrix()
		for i := range raw.Data {
			raw.Data[i] = garbage
		}
		v := big.Slice(pr, pr+r, pc, pc+c).(*mat.Dense)
		return dstDense{d: v, big: big, pr: pr, pc: pc, r: r, c: c}, dView
	}
	return dstDense{d: &mat.Dense{}, r: r, c: c}, dEmpty
}

// result extracts the destination as an M after verifying its shape and that a
// view's surroundings are untouched.
func (d dstDense) result(what string) (*M, *vk.Failure) {
	r, c := d.d.Dims()
	if r != d.r || c != d.c {
		return nil, vk.Failf(what+"-dst-dims", "destination is %d×%d, want %d×%d", r, c, d.r, d.c)
	}
	if d.big != nil {
		R, C := d.big.Dims()
		for i := 0; i < R; i++ {
			for j := 0; j < C; j++ {
				in := i >= d.pr && i < d.pr+d.r && j >= d.pc && j < d.pc+d.c
				if !in && d.big.At(i, j) != garbage {
					return nil, vk.Failf(what+"-dst-view-overrun", "element (%d,%d) outside the %d×%d destination view at (%d,%d) was overwritten with %v", i, j, d.r, d.c, d.pr, d.pc, d.big.At(i, j))
				}
			}
		}
	}
	return toM(d.d), nil
}

func toM(a mat.Matrix) *M {
	r, c := a.Dims()
	m := newM(r, c)
	for i := 0; i < r; i++ {
		for j := 0; j < c; j++ {
			m.d[i*c+j] = a.At(i, j)
		}
	}
	return m
}

// dstVec is a destination vector.
type dstVec struct {
	v   *mat.VecDense
	big *mat.Dense
	col int
	n   int
}

func mkDstVec(state, n int, alias *mat.VecDense, sm *vk.SplitMix) (dstVec, int) {
	switch state {
	case dAlias:
		if alias != nil && alias.Len() == n {
			return dstVec{v: alias, n: n}, dAlias
		}
		state = dSized
		fallthrough
	case dSized:
		d := make([]float64, n)
		for i := range d {
			d[i] = garbage
		}
		return dstVec{v: mat.NewVecDense(n, d), n: n}, dSized
	case dView:
		cols := 2 + sm.Intn(3)
		j := sm.Intn(cols)
		big := mat.NewDense(n, cols, nil)
		raw := big.RawMatrix()
		for i := range raw.Data {
			raw.Data[i] = garbage
		}
		return dstVec{v: big.ColView(j).(*mat.VecDense), big: big, col: j, n: n}, dView
	}
	return dstVec{v: &mat.VecDense{}, n: n}, dEmpty
}

func (d dstVec) result(what string) (*M, *vk.Failure) {
	if d.v.Len() != d.n {
		return nil, vk.Failf(what+"-dst-dims", "destination vector has length %d, want %d", d.v.Len(), d.n)
	}
	if d.big != nil {
		R, C := d.big.Dims()
		for i := 0; i < R; i++ {
			for j := 0; j < C; j++ {
				if j != d.col && d.big.At(i, j) != garbage {
					return nil, vk.Failf(what+"-dst-view-overrun", "element (%d,%d) beside the strided destination vector (column %d) was overwritten with %v", i, j, d.col, d.big.At(i, j))
				}
			}
		}
	}
	m := newM(d.n, 1)
	for i := 0; i < d.n; i++ {
		m.d[i] = d.v.AtVec(i)
	}
	return m, nil
}

// sameM reports bitwise equality (NaN == NaN).
func sameM(a, b *M) bool {
	if a.r != b.r || a.c != b.c {
		return false
	}
	for i := range a.d {
		if !vk.SameBits(a.d[i], b.d[i]) {
			return false
		}
	}
	return true
}

// opnd is the part of a case that selects representations; it is embedded in
// the case structs of the sub-checks.
type opnd struct {
	AKind int  // representation of A (index, reduced modulo the kinds valid for the class)
	BKind int  // representation of b
	Dst   int  // destination state
	Trans bool // transpose flag of SolveTo where the method has one
	Vec   bool // use the *VecTo / SolveVec form (forces nrhs = 1)
	Nrhs  int
}

func drawOpnd(t *rapid.T, maxRhs int) opnd {
	o := opnd{
		AKind: rapid.IntRange(0, 15).Draw(t, "akind"),
		BKind: rapid.IntRange(0, 3).Draw(t, "bkind"),
		Dst:   rapid.IntRange(0, nDst-1).Draw(t, "dst"),
		Trans: rapid.Bool().Draw(t, "trans"),
		Vec:   rapid.IntRange(0, 2).Draw(t, "vec") == 0,
	}
	o.Nrhs = vk.Dim(t, "nrhs", 1, maxRhs, 4)
	if o.Vec {
		o.Nrhs = 1
	}
	return o
}

// dimNM draws a dimension: mostly <= 40, about 10 % up to 150.
func dimN(t *rapid.T, label string, lo int) int {
	if rapid.IntRange(0, 9).Draw(t, label+"_big") == 9 {
		return vk.Dim(t, label+"L", 41, 150, 64, 128)
	}
	return vk.Dim(t, label, lo, 40, 8, 16, 32)
}

// solveCall runs one solve through the Dense or the Vec form with the operand
// representations of o and returns the solution and the error result.
//
//	xr, xc     shape of the solution
//	b          logical right-hand side
//	callM      invokes the matrix form
//	callV      invokes the vector form (nil if the type has none)
func solveCall(what string, o opnd, xr int, b *M, sm *vk.SplitMix,
	callM func(dst *mat.Dense, b mat.Matrix) error,
	callV func(dst *mat.VecDense, b mat.Vector) error) (x *M, err error, label string, f *vk.Failure) {

	if o.Vec && callV != nil && b.c == 1 {
		vkd := o.BKind % nVKinds
		bv := mkVec(vkd, b.d, sm)
		var alias *mat.VecDense
		if vd, ok := bv.(*mat.VecDense); ok {
			alias = vd
		}
		dst, st := mkDstVec(o.Dst, xr, alias, sm)
		label = fmt.Sprintf("b=%s dst=%s", vKindNames[vkd], dstNames[st])
		err = callV(dst.v, bv)
		if st != dAlias {
			for i := 0; i < b.r; i++ {
				if !sameBits(bv.AtVec(i), b.d[i]) {
					return nil, err, label, failf(what+"-b-modified", "right-hand side element %d changed from %v to %v (%s)", i, b.d[i], bv.AtVec(i), label)
				}
			}
		}
		if err != nil {
			return nil, err, label, nil // the destination is unspecified after an error
		}
		x, f = dst.result(what)
		return x, err, label, f
	}
	bk := o.BKind % nBKinds
	bm := mkB(bk, b, sm)
	var alias *mat.Dense
	if bd, ok := bm.(*mat.Dense); ok {
		alias = bd
	}
	dst, st := mkDst(o.Dst, xr, b.c, alias, sm)
	label = fmt.Sprintf("b=%s dst=%s", bKindNames[bk], dstNames[st])
	err = callM(dst.d, bm)
	if st != dAlias {
		if !sameM(toM(bm), b) {
			return nil, err, label, failf(what+"-b-modified", "right-hand side was modified by the call (%s)", label)
		}
	}
	if err != nil {
		return nil, err, label, nil
	}
	x, f = dst.result(what)
	return x, err, label, f
}

var failf = vk.Failf

func sameBits(a, b float64) bool { return vk.SameBits(a, b) }

// nontrivialOpnd implements the non-triviality rule for operand choices.
func (o opnd) nontrivial(akind int) bool {
	return akind != kDense || o.BKind%nBKinds != bDense || o.Dst != dEmpty || o.Trans || o.Vec
}
