package c06

import (
	"math"
	"testing"

	"gonum.org/v1/gonum/mat"
	"pgregory.net/rapid"
	"verifharness/vk"
)

// late collects failures of oracles that are reported only if nothing else in
// the case fails (used for oracles hit by an open known finding, so that the
// rest of the case is still checked).
type late struct{ f *vk.Failure }

func (l *late) add(f *vk.Failure) {
	if l.f == nil {
		l.f = f
	}
}

// rectGen describes a generated m×n matrix.
type rectGen struct {
	A        *M
	sigma    []float64 // prescribed singular values (descending), len min(m,n)
	kappa2   float64
	ill      bool // kappa ~ 1/eps or numerically rank deficient: no accuracy claims
	singular bool // an exactly zero column (tall/square) or row (wide): exact zero on the triangular factor's diagonal
	rank     int  // numerical rank by construction
}

func genRect(class string, m, n, logk int, zeroRow bool, sm *vk.SplitMix) rectGen {
	k := minInt(m, n)
	g := rectGen{rank: k}
	kappa := math.Pow(10, float64(logk))
	scale := math.Ldexp(1, sm.Intn(7)-3)
	switch class {
	case "well", "zero":
		g.sigma = logSpaced(k, scale, kappa, sm)
		g.kappa2 = g.sigma[0] / g.sigma[k-1]
	case "illcond":
		g.sigma = logSpaced(k, scale, 1e16, sm)
		g.kappa2 = g.sigma[0] / g.sigma[k-1]
		g.ill = k > 1
	case "allzero":
		g.sigma = make([]float64, k)
		g.kappa2 = math.Inf(1)
		g.ill = true
		g.rank = 0
	case "rankdef":
		g.sigma = logSpaced(k, scale, kappa, sm)
		if k >= 2 {
			r := 1 + sm.Intn(k-1)
			for i := r; i < k; i++ {
				g.sigma[i] = 0
			}
			g.rank = r
			g.ill = true
			g.kappa2 = math.Inf(1)
		} else {
			g.kappa2 = 1
		}
	default:
		panic("c06: rect class " + class)
	}
	g.A = genSigma(m, n, g.sigma, sm)
	if class == "zero" {
		if !zeroRow {
			j := sm.Intn(n)
			for i := 0; i < m; i++ {
				g.A.d[i*n+j] = 0
			}
		} else {
			i := sm.Intn(m)
			for j := 0; j < n; j++ {
				g.A.d[i*n+j] = 0
			}
		}
		g.singular = true
		g.kappa2 = math.Inf(1)
	}
	return g
}

// lsOracle checks that the columns of x are least-squares solutions of
// min ||b - T x||_2 for the tall or square p×q matrix T through the normal
// equations residual: x is the exact solution for (T+dT, b+db) with
// ||dT||_F <= e ||T||_F, ||db|| <= e ||b||, which gives
// ||T'(b - T x)|| <= e ||T||_F (2||b|| + ||T||_F ||x||), e = C max(p,q) eps.
func lsOracle(what string, T, x, b *M) *vk.Failure {
	if x.hasNaN() {
		return failf(what+"-nonfinite", "solution contains NaN/Inf although no error was returned")
	}
	e := cOrth * float64(maxInt(T.r, T.c)) * eps
	r, _ := residDD(T, x, b)
	g := mul(T.t(), r)
	tf := frob(T)
	for c := 0; c < x.c; c++ {
		tol := e * tf * (2*norm2(b.col(c)) + tf*norm2(x.col(c)))
		if got := norm2(g.col(c)); !leq(got, tol+1e-300) {
			return failf(what+"-normal-equations", "%d×%d rhs %d: ||T'(b-Tx)||=%g exceeds %g", T.r, T.c, c, got, tol)
		}
	}
	return nil
}

// mnOracle checks that the columns of x are minimum-norm solutions of W x = b
// for the wide or square full-rank p×q matrix W: small residual, and x in the
// row space of W up to e*kappa_F*||x||.
func mnOracle(what string, W, x, b *M, kappa2 float64, skipRange bool) *vk.Failure {
	if x.hasNaN() {
		return failf(what+"-nonfinite", "solution contains NaN/Inf although no error was returned")
	}
	e := cOrth * float64(maxInt(W.r, W.c)) * eps
	r, _ := residDD(W, x, b)
	wf := frob(W)
	for c := 0; c < x.c; c++ {
		tol := e * (wf*norm2(x.col(c)) + norm2(b.col(c)))
		if got := norm2(r.col(c)); !leq(got, tol+1e-300) {
			return failf(what+"-residual", "%d×%d rhs %d: ||b-Wx||=%g exceeds %g", W.r, W.c, c, got, tol)
		}
	}
	if skipRange || W.r == W.c {
		return nil
	}
	Q := orthBasis(W.t()) // q×p orthonormal basis of the row space
	proj := mul(Q, mul(Q.t(), x))
	d := subM(x, proj)
	kf := kappa2 * math.Sqrt(float64(minInt(W.r, W.c)))
	for c := 0; c < x.c; c++ {
		tol := 2 * e * kf * norm2(x.col(c))
		if got := norm2(d.col(c)); !leq(got, tol+1e-300) {
			return failf(what+"-not-minimum-norm", "%d×%d rhs %d: component of x outside the row space %g exceeds %g", W.r, W.c, c, got, tol)
		}
	}
	return nil
}

// directOracle: square nonsingular system solved by an orthogonal method.
func directOracle(what string, A, x, b *M) *vk.Failure {
	return mnOracle(what, A, x, b, 1, true)
}

type qrlqCase struct {
	Type  string // qr, lq
	M, N  int
	Class string
	LogK  int
	Reuse bool // the receiver already holds a factorization of another shape
	opnd
	Seed uint64
}

func drawQRLQ(t *rapid.T) qrlqCase {
	c := qrlqCase{
		Type:  rapid.SampledFrom([]string{"qr", "lq"}).Draw(t, "type"),
		Class: rapid.SampledFrom([]string{"well", "well", "well", "well", "illcond", "zero", "rankdef"}).Draw(t, "class"),
		LogK:  rapid.SampledFrom([]int{0, 1, 3, 6}).Draw(t, "logk"),
		Reuse: rapid.IntRange(0, 3).Draw(t, "reuse") == 0,
		opnd:  drawOpnd(t, 6),
		Seed:  vk.SeedGen(t, "seed"),
	}
	a, b := dimN(t, "p", 1), dimN(t, "q", 1)
	if rapid.IntRange(0, 3).Draw(t, "square") == 0 {
		b = a
	}
	if a < b {
		a, b = b, a
	}
	if c.Type == "qr" {
		c.M, c.N = a, b
	} else {
		c.M, c.N = b, a
	}
	return c
}

// extractDense calls to(dst) with a destination in the given state and returns
// the r×c result.
func extractDense(what string, state, r, c int, sm *vk.SplitMix, to func(*mat.Dense)) (*M, *vk.Failure) {
	if state == dAlias {
		state = dSized
	}
	dst, _ := mkDst(state, r, c, nil, sm)
	to(dst.d)
	return dst.result(what)
}

func condRange(what string, cond, kappa2 float64, n int, T *M) *vk.Failure {
	// Cond is an estimate from below of kappa_inf of the triangular factor:
	// kappa_inf <= n*kappa_2 (hard upper bound); the lower side is the bound the
	// estimator always attains (altLower) for the k×k triangle of T.
	fn := float64(n)
	if !(cond <= kappa2*fn*(1+1e-6)) {
		return failf(what+"-cond-upper", "Cond=%g exceeds n*kappa_2=%g", cond, kappa2*fn)
	}
	Tk := newM(n, n)
	for i := 0; i < n; i++ {
		copy(Tk.d[i*n:(i+1)*n], T.d[i*T.c:i*T.c+n])
	}
	if _, _, inv, ok := luRef(Tk); ok {
		if f := condLower(what+"-cond-lower", cond, normInf(Tk), inv.t(), kappa2/fn); f != nil {
			return f
		}
	}
	return nil
}

func checkQRLQ(c qrlqCase) *vk.Failure {
	m, n := c.M, c.N
	sm := vk.NewSplitMix(c.Seed)
	g := genRect(c.Class, m, n, c.LogK, c.Type == "lq", sm)
	A := g.A
	ak := pickKind(c.AKind, struc{band: -1})
	vk.Class(c.Type + "/class=" + c.Class)
	vk.Class(c.Type + "/a=" + kindNames[ak])
	switch {
	case m > n:
		vk.Class(c.Type + "/shape=tall")
	case m < n:
		vk.Class(c.Type + "/shape=wide")
	default:
		vk.Class(c.Type + "/shape=square")
	}
	vk.Sample(c.Type, c)
	if minInt(m, n) >= 2 && (c.opnd.nontrivial(ak) || g.singular) {
		vk.NonTrivial(c.Type, m, n, c.Class, ak, c.BKind, c.Dst, c.Trans, c.Vec, c.Nrhs)
	}
	am := mkMat(ak, A, struc{band: -1}, sm)
	mx := maxInt(m, n)
	tolA := cOrth * float64(mx) * eps * frob(A)
	var lt late

	var solveM func(dst *mat.Dense, trans bool, b mat.Matrix) error
	var solveV func(dst *mat.VecDense, trans bool, b mat.Vector) error
	var cond float64
	var at func(i, j int) float64
	qsize := m
	if c.Type == "lq" {
		qsize = n
	}
	var Q, T *M // T is the trapezoidal factor
	var f *vk.Failure
	st1, st2 := sm.Intn(3), sm.Intn(3)
	if c.Type == "qr" {
		var qr mat.QR
		if c.Reuse {
			qr.Factorize(mat.NewDense(3, 2, []float64{1, 2, 3, 4, 5, 7}))
			var q0 mat.Dense
			qr.QTo(&q0)
		}
		qr.Factorize(am)
		i0, j0 := sm.Intn(m), sm.Intn(n)
		if d := math.Abs(qr.At(i0, j0) - A.at(i0, j0)); !leq(d, tolA) {
			return failf("at-before-qto", "QR.At(%d,%d)=%v A=%v", i0, j0, qr.At(i0, j0), A.at(i0, j0))
		}
		if Q, f = extractDense("qto", st1, m, m, sm, qr.QTo); f != nil {
			return f
		}
		if T, f = extractDense("rto", st2, m, n, sm, qr.RTo); f != nil {
			return f
		}
		solveM, solveV, cond, at = qr.SolveTo, qr.SolveVecTo, qr.Cond(), qr.At
	} else {
		var lq mat.LQ
		if c.Reuse {
			lq.Factorize(mat.NewDense(2, 3, []float64{1, 2, 3, 4, 5, 7}))
			if r := vk.Call(func() { lq.Factorize(am) }); r.Outcome != vk.Returned {
				lt.add(failf("lq-refactorize-panic", "LQ.Factorize of a %d×%d matrix on a receiver holding a 2×3 factorization ended in %v: %s", m, n, r.Outcome, r.Text))
				lq = mat.LQ{}
				lq.Factorize(am)
			}
		} else {
			lq.Factorize(am)
		}
		if Q, f = extractDense("qto", st1, n, n, sm, lq.QTo); f != nil {
			return f
		}
		if T, f = extractDense("lto", st2, m, n, sm, lq.LTo); f != nil {
			return f
		}
		solveM, solveV, cond, at = lq.SolveTo, lq.SolveVecTo, lq.Cond(), lq.At
	}
	if !sameM(toM(am), A) {
		return failf("factorize-modified-a", "Factorize changed its argument (%s)", kindNames[ak])
	}
	// trapezoidal structure is exact
	for i := 0; i < m; i++ {
		for j := 0; j < n; j++ {
			outside := (c.Type == "qr" && i > j) || (c.Type == "lq" && j > i)
			if outside && T.at(i, j) != 0 {
				key := "factor-not-trapezoidal"
				if st2 != dEmpty {
					key = "factor-to-nonempty-dst-not-zeroed"
				}
				lt.add(failf(key, "%s %d×%d: extracted triangular factor has [%d,%d]=%v outside the triangle (destination state %s)", c.Type, m, n, i, j, T.at(i, j), dstNames[st2]))
				T.set(i, j, 0)
			}
		}
	}
	if d := orthoDefect(Q); !leq(d, cOrth*float64(qsize)*eps) {
		return failf("q-not-orthogonal", "%s %d×%d: ||Q'Q-I||_F=%g tol %g", c.Type, m, n, d, cOrth*float64(qsize)*eps)
	}
	var P *M
	if c.Type == "qr" {
		P = mul(Q, T)
	} else {
		P = mul(T, Q)
	}
	if d := frob(subM(A, P)); !leq(d, tolA) {
		return failf("reconstruct", "%s %d×%d: ||A-product||_F=%g tol %g", c.Type, m, n, d, tolA)
	}
	for k := 0; k < 3; k++ {
		i, j := sm.Intn(m), sm.Intn(n)
		if d := math.Abs(at(i, j) - A.at(i, j)); !leq(d, tolA) {
			return failf("at", "%s At(%d,%d)=%v A=%v", c.Type, i, j, at(i, j), A.at(i, j))
		}
	}
	k := minInt(m, n)
	if g.singular {
		if !math.IsInf(cond, 1) {
			return failf("cond-singular", "%s class zero: Cond=%v want +Inf", c.Type, cond)
		}
	} else if !g.ill {
		if f := condRange(c.Type, cond, g.kappa2, k, T); f != nil {
			return f
		}
	}

	// Solve. Which of the two problems is solved depends on type and trans:
	//   QR: !trans -> LS with A (m×n tall);  trans -> min-norm with A' (n×m wide)
	//   LQ: !trans -> min-norm with A (wide); trans -> LS with A' (tall)
	var Op *M
	if c.Trans {
		Op = A.t()
	} else {
		Op = A
	}
	ls := (c.Type == "qr") != c.Trans
	b := genRHS(Op.r, c.Nrhs, sm)
	if sm.Intn(2) == 0 {
		b = mul(Op, genRHS(Op.c, c.Nrhs, sm))
	}
	x, err, label, f := solveCall("solve", c.opnd, Op.c, b, sm,
		func(dst *mat.Dense, bm mat.Matrix) error { return solveM(dst, c.Trans, bm) },
		func(dst *mat.VecDense, bv mat.Vector) error { return solveV(dst, c.Trans, bv) })
	vk.Class(c.Type + "/" + label)
	if f := errIffCond(c.Type+"-solve", err, cond); f != nil {
		f.Msg += " (class " + c.Class + " " + label + ")"
		return f
	}
	if g.singular {
		cv, ok := condOf(err)
		if !ok || !math.IsInf(cv, 1) {
			return failf("solve-singular-no-error", "%s %d×%d trans=%v class zero: err=%v, want Condition(+Inf) (%s)", c.Type, m, n, c.Trans, err, label)
		}
		return lt.f
	}
	if f != nil {
		return f
	}
	if err != nil {
		cv, ok := condOf(err)
		if !ok {
			return failf("solve-error-type", "error %v is not a mat.Condition", err)
		}
		if !g.ill {
			return failf("solve-spurious-error", "%s %d×%d class %s logk=%d: %v (%s)", c.Type, m, n, c.Class, c.LogK, err, label)
		}
		if !(cv > mat.ConditionTolerance) {
			return failf("solve-error-value", "Condition error %g does not exceed ConditionTolerance", cv)
		}
		return lt.f
	}
	if g.ill && x.hasNaN() {
		return lt.f
	}
	what := c.Type + "-solve"
	if ls {
		f = lsOracle(what, Op, x, b)
	} else {
		f = mnOracle(what, Op, x, b, g.kappa2, g.ill)
	}
	if f != nil {
		f.Msg += " (trans=" + map[bool]string{false: "false", true: "true"}[c.Trans] + " " + label + ")"
		return f
	}
	if m == n && !g.ill {
		if f := directOracle(what, Op, x, b); f != nil {
			return f
		}
	}
	return lt.f
}

func TestQRLQ(t *testing.T) {
	vk.Run(t, "qrlq", vk.Opts{Quick: 4000, Thorough: 120000}, drawQRLQ, checkQRLQ)
}
