package c06

import (
	"fmt"
	"math"
	"testing"

	"gonum.org/v1/gonum/mat"
	"pgregory.net/rapid"
	"verifharness/vk"
)

// Dense.Solve and VecDense.SolveVec: shape based dispatch (LU / QR / LQ), the
// SolveToer fast path (TriDense, LU, QR, LQ and their transposes) and a == b.

type solveCase struct {
	M, N   int
	Form   string // general, tri, lu, qr, lq, self
	Class  string // well, illcond, zero
	LogK   int
	TransA bool // pass a.T() of the stored operand (the logical A is unchanged for Form general)
	opnd
	Seed uint64
}

func drawSolve(t *rapid.T) solveCase {
	c := solveCase{
		M:      dimN(t, "m", 1),
		N:      dimN(t, "n", 1),
		Form:   rapid.SampledFrom([]string{"general", "general", "general", "general", "tri", "lu", "qr", "lq", "self"}).Draw(t, "form"),
		Class:  rapid.SampledFrom([]string{"well", "well", "well", "illcond", "zero"}).Draw(t, "class"),
		LogK:   rapid.SampledFrom([]int{0, 1, 3, 6}).Draw(t, "logk"),
		TransA: rapid.Bool().Draw(t, "transa"),
		opnd:   drawOpnd(t, 5),
		Seed:   vk.SeedGen(t, "seed"),
	}
	if rapid.IntRange(0, 2).Draw(t, "square") == 0 {
		c.N = c.M
	}
	switch c.Form {
	case "tri", "lu", "self":
		c.N = c.M
	case "qr":
		if c.M < c.N {
			c.M, c.N = c.N, c.M
		}
	case "lq":
		if c.M > c.N {
			c.M, c.N = c.N, c.M
		}
	}
	return c
}

func checkSolve(c solveCase) *vk.Failure {
	m, n := c.M, c.N
	sm := vk.NewSplitMix(c.Seed)
	vk.Class("solve/form=" + c.Form)
	vk.Class("solve/class=" + c.Class)
	vk.Sample("solve", c)

	// Op is the logical matrix of the system Op * X = B that Solve is asked to solve.
	var Op *M
	var a mat.Matrix
	var g rectGen
	singular, ill := false, false
	kappa2 := 1.0
	ak := kDense
	var triBound *M // |T| for triangular systems
	switch c.Form {
	case "general", "self", "lu", "qr", "lq":
		zeroRow := m < n
		if c.Form == "lq" {
			zeroRow = true
		} else if c.Form == "qr" {
			zeroRow = false
		}
		g = genRect(c.Class, m, n, c.LogK, zeroRow, sm)
		singular, ill, kappa2 = g.singular, g.ill, g.kappa2
	case "tri":
		T := newM(n, n)
		upper := sm.Intn(2) == 0
		for i := 0; i < n; i++ {
			for j := 0; j < n; j++ {
				if (upper && j > i) || (!upper && j < i) {
					T.d[i*n+j] = sm.Finite() / float64(n)
				}
			}
			T.d[i*n+i] = (1 + sm.Float()) * float64(1-2*sm.Intn(2))
		}
		if c.Class == "zero" {
			T.d[sm.Intn(n)*(n+1)] = 0
			singular = true
		}
		if c.Class == "illcond" {
			T.d[sm.Intn(n)*(n+1)] *= 1e-22
			ill = true
		}
		kind := mat.Lower
		if upper {
			kind = mat.Upper
		}
		td := mat.NewTriDense(n, kind, nil)
		for i := 0; i < n; i++ {
			for j := 0; j < n; j++ {
				if (upper && j >= i) || (!upper && j <= i) {
					td.SetTri(i, j, T.at(i, j))
				}
			}
		}
		if c.TransA {
			a, Op = td.T(), T.t()
		} else {
			a, Op = td, T
		}
		triBound = Op.abs()
	}
	switch c.Form {
	case "general", "self":
		ak = pickKind(c.AKind, struc{band: -1})
		a, Op = mkMat(ak, g.A, struc{band: -1}, sm), g.A
	case "lu":
		var lu mat.LU
		lu.Factorize(denseOf(g.A))
		if c.TransA {
			a, Op = lu.T(), g.A.t()
		} else {
			a, Op = &lu, g.A
		}
	case "qr":
		var qr mat.QR
		qr.Factorize(denseOf(g.A))
		if c.TransA {
			a, Op = qr.T(), g.A.t()
		} else {
			a, Op = &qr, g.A
		}
	case "lq":
		var lq mat.LQ
		lq.Factorize(denseOf(g.A))
		if c.TransA {
			a, Op = lq.T(), g.A.t()
		} else {
			a, Op = &lq, g.A
		}
	}
	vk.Class("solve/a=" + kindNames[ak])
	or, oc := Op.r, Op.c
	switch {
	case or > oc:
		vk.Class("solve/shape=tall")
	case or < oc:
		vk.Class("solve/shape=wide")
	default:
		vk.Class("solve/shape=square")
	}
	if minInt(m, n) >= 2 {
		vk.NonTrivial("solve", m, n, c.Form, c.Class, ak, c.TransA, c.BKind, c.Dst, c.Vec, c.Nrhs)
	}

	if c.Form == "self" {
		// a == b: documented fast path x = I
		ad, ok := a.(*mat.Dense)
		if !ok {
			ad = denseOf(g.A)
		}
		dstS, stS := mkDst(c.Dst, n, n, nil, sm)
		vk.Class("solve/self dst=" + dstNames[stS])
		err := dstS.d.Solve(ad, ad)
		if singular || ill {
			return nil
		}
		if err != nil {
			return failf("self-error", "Solve(a, a) returned %v", err)
		}
		X, fS := dstS.result("self")
		if fS != nil {
			return fS
		}
		r, _ := residDD(g.A, X, g.A)
		for j := 0; j < n; j++ {
			tol := cOrth * float64(n) * eps * (frob(g.A)*norm2(X.col(j)) + norm2(g.A.col(j)))
			if !leq(norm2(r.col(j)), tol) {
				return failf("self-residual", "Solve(a, a): ||A - A X|| column %d = %g", j, norm2(r.col(j)))
			}
		}
		// the same matrix value on both sides with different transpose
		// flags is an ordinary system op(A) X = op'(A), not the a == b case
		if m == n {
			for _, tt := range [][2]bool{{true, false}, {false, true}, {true, true}} {
				var am, bm mat.Matrix = ad, ad
				refA, refB := g.A, g.A
				name := "Solve(a, a)"
				if tt[0] {
					am, refA = ad.T(), g.A.t()
				}
				if tt[1] {
					bm, refB = ad.T(), g.A.t()
				}
				name = fmt.Sprintf("Solve(a%s, a%s) with one matrix value a", map[bool]string{true: ".T()", false: ""}[tt[0]], map[bool]string{true: ".T()", false: ""}[tt[1]])
				dstT, _ := mkDst(c.Dst, n, n, nil, sm)
				if err := dstT.d.Solve(am, bm); err != nil {
					return failf("self-transposed-error", "%s returned %v", name, err)
				}
				XT, fT := dstT.result("self-transposed")
				if fT != nil {
					return fT
				}
				rt, _ := residDD(refA, XT, refB)
				for j := 0; j < n; j++ {
					tol := cOrth * float64(n) * eps * (frob(refA)*norm2(XT.col(j)) + norm2(refB.col(j)))
					if !leq(norm2(rt.col(j)), tol) {
						return failf("self-transposed-residual", "%s: ||op'(A) - op(A) X|| column %d = %g (tolerance %g)", name, j, norm2(rt.col(j)), tol)
					}
				}
			}
		}
		return nil
	}

	b := genRHS(or, c.Nrhs, sm)
	if sm.Intn(2) == 0 {
		b = mul(Op, genRHS(oc, c.Nrhs, sm))
	}
	x, err, label, f := solveCall("solve", c.opnd, oc, b, sm,
		func(dst *mat.Dense, bm mat.Matrix) error { return dst.Solve(a, bm) },
		func(dst *mat.VecDense, bv mat.Vector) error { return dst.SolveVec(a, bv) })
	vk.Class("solve/" + label)
	desc := fmt.Sprintf("form=%s %d×%d class=%s transA=%v a=%s %s", c.Form, or, oc, c.Class, c.TransA, kindNames[ak], label)
	if or == oc && (c.Form == "general" || c.Form == "lu") {
		var lu mat.LU
		lu.Factorize(denseOf(g.A))
		if fc := errIffCond("square", err, lu.Cond()); fc != nil {
			fc.Msg += " (" + desc + ")"
			return fc
		}
	}
	if singular {
		cv, ok := condOf(err)
		if !ok || !math.IsInf(cv, 1) {
			return failf("singular-no-error", "%s: err=%v, want Condition(+Inf) for an exactly singular system", desc, err)
		}
		return nil
	}
	if f != nil {
		return f
	}
	if err != nil {
		cv, ok := condOf(err)
		if !ok {
			return failf("error-type", "%s: error %v is not a mat.Condition", desc, err)
		}
		if !ill {
			return failf("spurious-error", "%s: %v for a well-conditioned system (logk=%d)", desc, err, c.LogK)
		}
		if !(cv > mat.ConditionTolerance) {
			return failf("error-value", "Condition error %g does not exceed ConditionTolerance", cv)
		}
		return nil
	}
	if triBound != nil && ill {
		// TriDense.SolveTo: no error means that the condition estimate, which is
		// at least ||T||*altLower, does not exceed ConditionTolerance.
		base := Op
		if c.TransA {
			base = Op.t() // the stored triangle, on which Trcon works
		}
		if _, _, inv, okInv := luRef(base); okInv {
			if lo := normInf(base) * altLower(inv.t()); lo > mat.ConditionTolerance*(1+1e-3) {
				return failf("tri-missed-condition-error", "%s: Solve with a triangular matrix whose condition estimate is at least %g > ConditionTolerance returned a nil error", desc, lo)
			}
		}
	}
	if ill && x.hasNaN() {
		return nil
	}
	switch {
	case triBound != nil:
		if x.hasNaN() {
			return failf("nonfinite", "%s: NaN/Inf in the solution", desc)
		}
		r, _ := residDD(Op, x, b)
		for j := 0; j < x.c; j++ {
			for i := 0; i < n; i++ {
				var bound float64
				for k := 0; k < n; k++ {
					bound += triBound.at(i, k) * math.Abs(x.at(k, j))
				}
				tol := 2*float64(n+5)*eps*bound + 1e-300
				if !leq(math.Abs(r.at(i, j)), tol) {
					return failf("tri-backward-error", "%s: |b-Tx|[%d,%d]=%g exceeds %g", desc, i, j, math.Abs(r.at(i, j)), tol)
				}
			}
		}
	case or == oc && c.Form != "qr" && c.Form != "lq":
		// LU path: componentwise bound with |L||U| of the same deterministic factorization
		var lu mat.LU
		lu.Factorize(denseOf(g.A))
		L, U, piv := luRaw(&lu)
		_, S := mulDD(L, U)
		if f := luResidual("square", g.A, S, piv, Op != g.A && c.Form == "lu", x, b); f != nil {
			f.Msg = desc + ": " + f.Msg
			return f
		}
	case or >= oc:
		if f := lsOracle("ls", Op, x, b); f != nil {
			f.Msg = desc + ": " + f.Msg
			return f
		}
		if or == oc && !ill {
			if f := directOracle("ls", Op, x, b); f != nil {
				f.Msg = desc + ": " + f.Msg
				return f
			}
		}
	default:
		if f := mnOracle("minnorm", Op, x, b, kappa2, ill); f != nil {
			f.Msg = desc + ": " + f.Msg
			return f
		}
	}
	return nil
}

func TestSolve(t *testing.T) {
	vk.Run(t, "solve", vk.Opts{Quick: 3000, Thorough: 90000}, drawSolve, checkSolve)
}
