package c06

// Factorization values own their data.
//
//  1. argument independence: after Factorize(a) the caller overwrites a (and the
//     backing slices it was built from); everything the factorization reports
//     afterwards - extracted factors, determinants, condition numbers, solves -
//     must be bit-identical to what it reported before.
//  2. receiver reuse: a factorization value that held the factorization of
//     another matrix of another shape must, after Factorize(a), report exactly
//     what a fresh value reports.
//
// No numerical oracle is involved: the comparison is between two observations
// of the same deterministic computation, so it is exact.

import (
	"fmt"
	"math"
	"testing"

	"gonum.org/v1/gonum/mat"
	"pgregory.net/rapid"
	"verifharness/vk"
)

type argIndepCase struct {
	Kind string // lu chol qr lq svd eigsym eig gsvd bandchol pivchol
	M, N int
	P    int  // rows of the second GSVD operand
	View bool // the operand is a window of a larger matrix
	Prev int  // 0: fresh receiver; 1: receiver used before for a smaller problem; 2: for a larger one
	Seed uint64
}

var argIndepKinds = []string{"lu", "chol", "qr", "lq", "svd", "eigsym", "eig", "gsvd", "bandchol", "pivchol"}

func drawArgIndep(t *rapid.T) argIndepCase {
	return argIndepCase{
		Kind: rapid.SampledFrom(argIndepKinds).Draw(t, "kind"),
		M:    rapid.IntRange(1, 9).Draw(t, "m"),
		N:    rapid.IntRange(1, 9).Draw(t, "n"),
		P:    rapid.IntRange(1, 9).Draw(t, "p"),
		View: rapid.Bool().Draw(t, "view"),
		Prev: rapid.IntRange(0, 2).Draw(t, "prev"),
		Seed: vk.SeedGen(t, "seed"),
	}
}

// obs collects the bit patterns of everything observable.
type obs struct{ v []uint64 }

func (o *obs) f(x ...float64) {
	for _, y := range x {
		o.v = append(o.v, math.Float64bits(y))
	}
}
func (o *obs) m(a mat.Matrix) {
	r, c := a.Dims()
	o.v = append(o.v, uint64(r), uint64(c))
	for i := 0; i < r; i++ {
		for j := 0; j < c; j++ {
			o.f(a.At(i, j))
		}
	}
}
func (o *obs) eq(p *obs) (int, bool) {
	if len(o.v) != len(p.v) {
		return -1, false
	}
	for i := range o.v {
		if o.v[i] != p.v[i] {
			return i, false
		}
	}
	return 0, true
}

// randDense returns an r×c matrix (a window of a larger one when view is set)
// together with a function that overwrites all of its backing storage.
func randDense(r, c int, view bool, sm *vk.SplitMix, spd bool) (*mat.Dense, func()) {
	pr, pc, oi, oj := r, c, 0, 0
	if view {
		pr, pc, oi, oj = r+2, c+3, 1, 2
	}
	back := make([]float64, pr*pc)
	for i := range back {
		back[i] = sm.Finite()
	}
	parent := mat.NewDense(pr, pc, back)
	d := parent.Slice(oi, oi+r, oj, oj+c).(*mat.Dense)
	if spd {
		// A := G*Gᵀ + r*I
		g := mat.NewDense(r, r, nil)
		for i := 0; i < r; i++ {
			for j := 0; j < r; j++ {
				g.Set(i, j, sm.Finite())
			}
		}
		var p mat.Dense
		p.Mul(g, g.T())
		for i := 0; i < r; i++ {
			for j := 0; j < r; j++ {
				d.Set(i, j, p.At(i, j))
			}
			d.Set(i, i, d.At(i, i)+float64(r))
		}
	}
	return d, func() {
		for i := range back {
			back[i] = 1e3 + float64(i)
		}
	}
}

func symOf(d *mat.Dense) *mat.SymDense {
	n, _ := d.Dims()
	s := mat.NewSymDense(n, nil)
	for i := 0; i < n; i++ {
		for j := i; j < n; j++ {
			s.SetSym(i, j, d.At(i, j))
		}
	}
	return s
}

// factor factorizes into recv (built by mk, possibly used before) and returns an
// observer of the factorization plus the scribble function for the argument.
func checkArgIndep(c argIndepCase) *vk.Failure {
	vk.Class("argindep/" + c.Kind + fmt.Sprintf("/prev=%d", c.Prev))
	vk.NonTrivial("argindep", c.Kind, c.M, c.N, c.P, c.View, c.Prev, c.Seed)
	vk.Sample("argindep", c)
	m, n, p := c.M, c.N, c.P
	// run builds a receiver (fresh or used before), factorizes the case's
	// matrix into it and returns an observation function and the scribbler.
	run := func(prev int) (observe func() *obs, scribble func(), ok bool) {
		sm := vk.NewSplitMix(c.Seed)
		pm, pn := m, n
		switch prev {
		case 1:
			pm, pn = maxInt(1, m-2), maxInt(1, n-2)
		case 2:
			pm, pn = m+3, n+2
		}
		psm := vk.NewSplitMix(c.Seed ^ 0xabcdef)
		rhs := func(r int) *mat.Dense {
			b := mat.NewDense(r, 2, nil)
			q := vk.NewSplitMix(c.Seed ^ 0x5151)
			for i := 0; i < r; i++ {
				b.Set(i, 0, q.Finite())
				b.Set(i, 1, q.Finite())
			}
			return b
		}
		switch c.Kind {
		case "lu":
			var f mat.LU
			if prev != 0 {
				pa, _ := randDense(pn, pn, false, psm, false)
				f.Factorize(pa)
			}
			a, scr := randDense(n, n, c.View, sm, false)
			f.Factorize(a)
			return func() *obs {
				o := &obs{}
				var l, u mat.TriDense
				f.LTo(&l)
				f.UTo(&u)
				o.m(&l)
				o.m(&u)
				for _, v := range f.RowPivots(nil) {
					o.v = append(o.v, uint64(v))
				}
				d, s := f.LogDet()
				o.f(d, s, f.Cond())
				var x mat.Dense
				if err := f.SolveTo(&x, false, rhs(n)); err == nil {
					o.m(&x)
				}
				return o
			}, scr, true
		case "chol", "pivchol":
			a, scr := randDense(n, n, c.View, sm, true)
			s := symOf(a)
			scr2 := func() {
				scr()
				raw := s.RawSymmetric()
				for i := range raw.Data {
					raw.Data[i] = -7
				}
			}
			if c.Kind == "chol" {
				var f mat.Cholesky
				if prev != 0 {
					pa, _ := randDense(pn, pn, false, psm, true)
					f.Factorize(symOf(pa))
				}
				if !f.Factorize(s) {
					return nil, nil, false
				}
				return func() *obs {
					o := &obs{}
					var u mat.TriDense
					f.UTo(&u)
					o.m(&u)
					o.f(f.LogDet(), f.Det(), f.Cond())
					var x mat.Dense
					if err := f.SolveTo(&x, rhs(n)); err == nil {
						o.m(&x)
					}
					var back mat.SymDense
					f.ToSym(&back)
					o.m(&back)
					return o
				}, scr2, true
			}
			var f mat.PivotedCholesky
			if prev != 0 {
				pa, _ := randDense(pn, pn, false, psm, true)
				f.Factorize(symOf(pa), -1)
			}
			f.Factorize(s, -1)
			return func() *obs {
				o := &obs{}
				var u mat.TriDense
				f.UTo(&u)
				o.m(&u)
				o.v = append(o.v, uint64(f.Rank()))
				for _, v := range f.ColumnPivots(nil) {
					o.v = append(o.v, uint64(v))
				}
				o.f(f.Cond())
				var x mat.Dense
				if err := f.SolveTo(&x, rhs(n)); err == nil {
					o.m(&x)
				}
				return o
			}, scr2, true
		case "bandchol":
			k := minInt(2, n-1)
			a, _ := randDense(n, n, false, sm, true)
			sb := mat.NewSymBandDense(n, k, nil)
			for i := 0; i < n; i++ {
				for j := i; j < minInt(n, i+k+1); j++ {
					sb.SetSymBand(i, j, a.At(i, j))
				}
				sb.SetSymBand(i, i, sb.At(i, i)+float64(4*n))
			}
			var f mat.BandCholesky
			if prev != 0 {
				pk := minInt(1, pn-1)
				ps := mat.NewSymBandDense(pn, pk, nil)
				for i := 0; i < pn; i++ {
					ps.SetSymBand(i, i, 3+float64(i))
				}
				f.Factorize(ps)
			}
			if !f.Factorize(sb) {
				return nil, nil, false
			}
			return func() *obs {
					o := &obs{}
					o.m(&f)
					o.f(f.LogDet(), f.Det(), f.Cond())
					var x mat.Dense
					if err := f.SolveTo(&x, rhs(n)); err == nil {
						o.m(&x)
					}
					return o
				}, func() {
					raw := sb.RawSymBand()
					for i := range raw.Data {
						raw.Data[i] = -3
					}
				}, true
		case "qr":
			if m < n {
				m, n = n, m
			}
			var f mat.QR
			if prev != 0 {
				pa, _ := randDense(maxInt(pm, pn), minInt(pm, pn), false, psm, false)
				f.Factorize(pa)
				// populate whatever the value caches (the formed Q)
				var q mat.Dense
				f.QTo(&q)
				_ = f.At(0, 0)
			}
			a, scr := randDense(m, n, c.View, sm, false)
			f.Factorize(a)
			return func() *obs {
				o := &obs{}
				var q, r mat.Dense
				f.QTo(&q)
				f.RTo(&r)
				o.m(&q)
				o.m(&r)
				o.m(&f)
				o.f(f.Cond())
				var x mat.Dense
				if err := f.SolveTo(&x, false, rhs(m)); err == nil {
					o.m(&x)
				}
				return o
			}, scr, true
		case "lq":
			if m > n {
				m, n = n, m
			}
			var f mat.LQ
			if prev != 0 {
				pa, _ := randDense(minInt(pm, pn), maxInt(pm, pn), false, psm, false)
				f.Factorize(pa)
				var q mat.Dense
				f.QTo(&q)
				_ = f.At(0, 0)
			}
			a, scr := randDense(m, n, c.View, sm, false)
			f.Factorize(a)
			return func() *obs {
				o := &obs{}
				var q, l mat.Dense
				f.QTo(&q)
				f.LTo(&l)
				o.m(&q)
				o.m(&l)
				o.m(&f)
				o.f(f.Cond())
				var x mat.Dense
				if err := f.SolveTo(&x, false, rhs(m)); err == nil {
					o.m(&x)
				}
				return o
			}, scr, true
		case "svd":
			var f mat.SVD
			if prev != 0 {
				pa, _ := randDense(pm, pn, false, psm, false)
				f.Factorize(pa, mat.SVDFull)
			}
			a, scr := randDense(m, n, c.View, sm, false)
			if !f.Factorize(a, mat.SVDThin) {
				return nil, nil, false
			}
			return func() *obs {
				o := &obs{}
				o.f(f.Values(nil)...)
				var u, v mat.Dense
				f.UTo(&u)
				f.VTo(&v)
				o.m(&u)
				o.m(&v)
				o.f(f.Cond())
				o.v = append(o.v, uint64(f.Rank(1e-12)))
				return o
			}, scr, true
		case "eigsym":
			a, scr := randDense(n, n, c.View, sm, true)
			s := symOf(a)
			var f mat.EigenSym
			if prev != 0 {
				pa, _ := randDense(pn, pn, false, psm, true)
				f.Factorize(symOf(pa), true)
			}
			if !f.Factorize(s, true) {
				return nil, nil, false
			}
			return func() *obs {
					o := &obs{}
					o.f(f.Values(nil)...)
					var v mat.Dense
					f.VectorsTo(&v)
					o.m(&v)
					return o
				}, func() {
					scr()
					raw := s.RawSymmetric()
					for i := range raw.Data {
						raw.Data[i] = 11
					}
				}, true
		case "eig":
			var f mat.Eigen
			if prev != 0 {
				pa, _ := randDense(pn, pn, false, psm, false)
				f.Factorize(pa, mat.EigenBoth)
			}
			a, scr := randDense(n, n, c.View, sm, false)
			if !f.Factorize(a, mat.EigenBoth) {
				return nil, nil, false
			}
			return func() *obs {
				o := &obs{}
				for _, z := range f.Values(nil) {
					o.f(real(z), imag(z))
				}
				var v, w mat.CDense
				f.VectorsTo(&v)
				f.LeftVectorsTo(&w)
				for _, cm := range []*mat.CDense{&v, &w} {
					r, cc := cm.Dims()
					for i := 0; i < r; i++ {
						for j := 0; j < cc; j++ {
							o.f(real(cm.At(i, j)), imag(cm.At(i, j)))
						}
					}
				}
				return o
			}, scr, true
		case "gsvd":
			var f mat.GSVD
			if prev != 0 {
				pa, _ := randDense(pm+1, pn, false, psm, false)
				pb, _ := randDense(pn+1, pn, false, psm, false)
				f.Factorize(pa, pb, mat.GSVDU|mat.GSVDV|mat.GSVDQ)
			}
			// full column rank stacked operand keeps clear of the recorded
			// rank-deficient GSVD findings
			a, scrA := randDense(m+n, n, c.View, sm, false)
			b, scrB := randDense(p+n, n, c.View, sm, false)
			if !f.Factorize(a, b, mat.GSVDU|mat.GSVDV|mat.GSVDQ) {
				return nil, nil, false
			}
			return func() *obs {
				o := &obs{}
				o.f(f.ValuesA(nil)...)
				o.f(f.ValuesB(nil)...)
				o.f(f.GeneralizedValues(nil)...)
				var u, v, q, zr, s1, s2 mat.Dense
				f.UTo(&u)
				f.VTo(&v)
				f.QTo(&q)
				f.ZeroRTo(&zr)
				f.SigmaATo(&s1)
				f.SigmaBTo(&s2)
				for _, x := range []*mat.Dense{&u, &v, &q, &zr, &s1, &s2} {
					o.m(x)
				}
				k, l := f.Rank()
				o.v = append(o.v, uint64(k), uint64(l))
				return o
			}, func() { scrA(); scrB() }, true
		}
		return nil, nil, false
	}

	observe, scribble, ok := run(c.Prev)
	if !ok {
		vk.Class("argindep/factorization-failed")
		return nil
	}
	var before, after *obs
	if r := vk.Call(func() { before = observe() }); r.Outcome != vk.Returned {
		return vk.Failf("observe-panics/"+c.Kind, "reading a %s factorization (%d×%d, receiver history %d) panics: %s", c.Kind, c.M, c.N, c.Prev, r.Text)
	}
	scribble()
	if r := vk.Call(func() { after = observe() }); r.Outcome != vk.Returned {
		return vk.Failf("depends-on-argument/"+c.Kind, "after the caller overwrote the factorized matrix, reading the %s factorization panics: %s", c.Kind, r.Text)
	}
	if i, same := before.eq(after); !same {
		return vk.Failf("depends-on-argument/"+c.Kind, "%s (%d×%d view=%v): observation %d of the factorization changed after the caller overwrote the matrix it had passed to Factorize", c.Kind, c.M, c.N, c.View, i)
	}
	if c.Prev != 0 {
		// the same factorization on a fresh receiver
		obsFresh, _, ok2 := run(0)
		if !ok2 {
			return vk.Failf("reused-receiver-differs/"+c.Kind, "%s: factorization succeeds on a used receiver and fails on a fresh one", c.Kind)
		}
		var fresh *obs
		if r := vk.Call(func() { fresh = obsFresh() }); r.Outcome != vk.Returned {
			return vk.Failf("observe-panics/"+c.Kind, "fresh receiver: %s", r.Text)
		}
		if i, same := before.eq(fresh); !same {
			return vk.Failf("reused-receiver-differs/"+c.Kind, "%s (%d×%d, receiver used before for a %s problem): observation %d differs from what a fresh receiver reports for the same matrix", c.Kind, c.M, c.N, map[int]string{1: "smaller", 2: "larger"}[c.Prev], i)
		}
	}
	return nil
}

func TestFactorizationOwnsItsData(t *testing.T) {
	vk.Run(t, "argindep", vk.Opts{Quick: 6000, Thorough: 100000}, drawArgIndep, checkArgIndep)
}
