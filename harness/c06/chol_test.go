package c06

import (
	"fmt"
	"math"
	"testing"

	"gonum.org/v1/gonum/mat"
	"pgregory.net/rapid"
	"verifharness/vk"
)

// symGen describes a generated symmetric matrix.
type symGen struct {
	A     *M
	st    struc
	pd    bool // positive definite with margin (Cholesky must succeed)
	notpd bool // has an eigenvalue <= 0 with margin / an exactly zero pivot (Cholesky must fail)
	ill   bool // kappa ~ 1/eps: either outcome
	psd0  bool // positive semi-definite with an exactly zero row/column
}

var cholClasses = []string{"spd", "spd", "spd", "band-spd", "band-spd", "notpd", "band-notpd", "psd-zero", "illcond"}

func genSymClass(class string, n, logk, band int, sm *vk.SplitMix) symGen {
	g := symGen{st: struc{sym: true, band: -1}}
	kappa := math.Pow(10, float64(logk))
	scale := math.Ldexp(1, sm.Intn(7)-3)
	if band > n-1 {
		band = n - 1
	}
	switch class {
	case "spd":
		g.A = genSym(n, logSpaced(n, scale, kappa, sm), sm)
		g.pd = true
	case "illcond":
		g.A = genSym(n, logSpaced(n, scale, 1e16, sm), sm)
		g.ill = n > 1
		g.pd = n == 1
	case "band-spd":
		g.A = genBandSPD(n, band, sm)
		g.st.band = band
		g.pd = true
	case "notpd":
		lam := logSpaced(n, scale, kappa, sm)
		// at least one clearly negative eigenvalue
		neg := 1 + sm.Intn(maxInt(1, n/2))
		for i := 0; i < neg; i++ {
			lam[i] = -lam[i]
		}
		g.A = genSym(n, lam, sm)
		g.notpd = true
	case "band-notpd":
		g.A = genBandSPD(n, band, sm)
		i := sm.Intn(n)
		g.A.d[i*n+i] = -g.A.d[i*n+i] // e_i' A e_i < 0
		g.st.band = band
		g.notpd = true
	case "psd-zero":
		g.A = genSym(n, logSpaced(n, scale, kappa, sm), sm)
		j := sm.Intn(n)
		for i := 0; i < n; i++ {
			g.A.d[i*n+j], g.A.d[j*n+i] = 0, 0
		}
		g.notpd = true
		g.psd0 = true
	default:
		panic("c06: class " + class)
	}
	return g
}

type cholCase struct {
	Type  string // chol, band, piv
	N     int
	Class string
	LogK  int
	Band  int
	opnd
	Seed uint64
}

func drawChol(t *rapid.T) cholCase {
	c := cholCase{
		Type:  rapid.SampledFrom([]string{"chol", "chol", "band", "piv"}).Draw(t, "type"),
		N:     dimN(t, "n", 1),
		Class: rapid.SampledFrom(cholClasses).Draw(t, "class"),
		LogK:  rapid.SampledFrom([]int{0, 1, 3, 6}).Draw(t, "logk"),
		Band:  rapid.IntRange(0, 5).Draw(t, "band"),
		opnd:  drawOpnd(t, 6),
		Seed:  vk.SeedGen(t, "seed"),
	}
	if c.Type == "band" {
		c.Class = rapid.SampledFrom([]string{"band-spd", "band-spd", "band-notpd"}).Draw(t, "bclass")
	}
	return c
}

// cholReconstruct checks |A - U'U| <= 2*gamma_{n+1}*|U'||U| and returns S=|U'||U|.
func cholReconstruct(A, U *M, perm []int) (*M, *vk.Failure) {
	n := A.r
	P, S := mulDD(U.t(), U)
	g := 2 * float64(n+5) * eps
	for i := 0; i < n; i++ {
		for j := 0; j < n; j++ {
			aij := A.at(i, j)
			if perm != nil {
				aij = A.at(perm[i], perm[j])
			}
			d := math.Abs(aij - P.at(i, j))
			tol := g*S.at(i, j) + 1e-300
			if !leq(d, tol) {
				return S, failf("reconstruct", "n=%d |A-U'U|[%d,%d]=%g exceeds 2*gamma*(|U'||U|)=%g", n, i, j, d, tol)
			}
		}
	}
	return S, nil
}

// symResidual checks |b - A x| <= g * (S |x|) componentwise (A symmetric).
func symResidual(what string, A, S *M, g float64, x, b *M) *vk.Failure {
	n := A.r
	if x.hasNaN() {
		return failf(what+"-nonfinite", "solution contains NaN/Inf although no error was returned")
	}
	r, _ := residDD(A, x, b)
	for c := 0; c < x.c; c++ {
		for i := 0; i < n; i++ {
			var bound float64
			for j := 0; j < n; j++ {
				bound += S.at(i, j) * math.Abs(x.at(j, c))
			}
			tol := g*bound + 1e-300
			if !leq(math.Abs(r.at(i, c)), tol) {
				return failf(what+"-backward-error", "n=%d rhs %d row %d: |b-Ax|=%g exceeds bound %g", n, c, i, math.Abs(r.at(i, c)), tol)
			}
		}
	}
	return nil
}

// spdScalars checks LogDet, Det and Cond of a successfully factorized SPD matrix
// against the harness's own Cholesky / inverse. normS is ||  |U'||U|  ||_F (or a
// bound on it).
func spdScalars(A *M, normS float64, logdet, det, cond float64) *vk.Failure {
	n := A.r
	R, ok := cholRef(A)
	_, _, inv, ok2 := luRef(A)
	if !ok || !ok2 {
		return nil
	}
	var refLog, sumAbs float64
	for i := 0; i < n; i++ {
		l := 2 * math.Log(R.at(i, i))
		refLog += l
		sumAbs += math.Abs(l)
	}
	tolLog := 2*math.Sqrt(float64(n))*float64(n+5)*eps*normS*frob(inv) + 8*float64(n)*eps*sumAbs + 1e-14
	if tolLog < 0.1 {
		if !leq(math.Abs(logdet-refLog), tolLog) {
			return failf("logdet", "n=%d LogDet=%v reference %v tol %g", n, logdet, refLog, tolLog)
		}
		if math.Abs(refLog) < 600 {
			want := math.Exp(refLog)
			if !leq(math.Abs(det-want), (2*tolLog+8*eps)*want) {
				return failf("det", "n=%d Det=%v reference %v", n, det, want)
			}
		}
	}
	kinf := normInf(A) * normInf(inv)
	relRef := 1e3 * float64(n) * eps * kinf
	if relRef < 0.1 {
		if !(cond <= kinf*(1+relRef)) {
			return failf("cond-upper", "n=%d Cond=%g exceeds kappa_1=%g", n, cond, kinf)
		}
		if f := condLower("cond-lower", cond, normInf(A), inv, kinf); f != nil {
			return f
		}
	}
	return nil
}

func garbageSym(n int) *mat.SymDense {
	d := make([]float64, n*n)
	for i := range d {
		d[i] = garbage
	}
	return mat.NewSymDense(n, d)
}

func checkChol(c cholCase) *vk.Failure {
	if f := checkCholInner(c); f != nil || c.Type != "band" {
		return f
	}
	// A zero-value BandCholesky is an empty receiver: the state queries must
	// answer, not fault (the zero Cholesky and PivotedCholesky do). Checked last
	// so that the rest of the case is evaluated behind this finding.
	var z mat.BandCholesky
	empty := false
	res := vk.Call(func() { empty = z.IsEmpty() })
	if res.Outcome == vk.RuntimeFault {
		return failf("band-zero-value-fault", "IsEmpty() on a zero-value BandCholesky ended in a runtime fault: %s", res.Text)
	}
	if res.Outcome == vk.Returned && !empty {
		return failf("band-zero-value-not-empty", "IsEmpty() on a zero-value BandCholesky returned false")
	}
	if r := vk.Call(func() { z.SymBand() }); r.Outcome == vk.RuntimeFault {
		return failf("band-zero-value-fault", "SymBand() on a zero-value BandCholesky ended in a runtime fault: %s", r.Text)
	}
	if r := vk.Call(func() { z.Bandwidth() }); r.Outcome == vk.RuntimeFault {
		return failf("band-zero-value-fault", "Bandwidth() on a zero-value BandCholesky ended in a runtime fault: %s", r.Text)
	}
	return nil
}

func checkCholInner(c cholCase) *vk.Failure {
	n := c.N
	sm := vk.NewSplitMix(c.Seed)
	g := genSymClass(c.Class, n, c.LogK, c.Band, sm)
	A := g.A
	vk.Class("chol/type=" + c.Type)
	vk.Class("chol/class=" + c.Class)
	vk.Sample("chol-"+c.Type, c)
	nontriv := func(kind int) {
		if n >= 2 && (kind != 0 || c.BKind%nBKinds != bDense || c.Dst != dEmpty || c.Vec || g.notpd) {
			vk.NonTrivial("chol", c.Type, n, c.Class, kind, c.BKind, c.Dst, c.Vec, c.Nrhs)
		}
	}
	b := genRHS(n, c.Nrhs, sm)
	if sm.Intn(2) == 0 {
		b = mul(A, b)
	}
	// finish handles the outcome of a solve shared by the three types.
	finish := func(x *M, err error, label string, f *vk.Failure, S *M, gam float64, cond float64) *vk.Failure {
		vk.Class("chol/" + label)
		if fc := errIffCond(c.Type+"-solve", err, cond); fc != nil {
			fc.Msg += " (class " + c.Class + " " + label + ")"
			return fc
		}
		if f != nil {
			return f
		}
		if err != nil {
			cv, ok := condOf(err)
			if !ok {
				return failf("solve-error-type", "error %v is not a mat.Condition", err)
			}
			if !g.ill {
				return failf("solve-spurious-error", "%s class %s n=%d logk=%d: solve returned %v for a well-conditioned matrix (%s)", c.Type, c.Class, n, c.LogK, err, label)
			}
			if !(cv > mat.ConditionTolerance) {
				return failf("solve-error-value", "Condition error %g does not exceed ConditionTolerance", cv)
			}
			return nil
		}
		if g.ill && x.hasNaN() {
			return nil
		}
		if f := symResidual("solve", A, S, gam, x, b); f != nil {
			f.Msg += " (" + c.Type + " " + label + ")"
			return f
		}
		return nil
	}

	switch c.Type {
	case "chol":
		sk := pickSymKind(c.AKind, g.st)
		vk.Class("chol/a=" + symKindNames[sk])
		nontriv(sk)
		as := mkSym(sk, A, g.st, sm)
		var ch mat.Cholesky
		if sm.Intn(4) == 0 {
			ch.Factorize(mat.NewSymDense(2, []float64{2, 1, 1, 2}))
		}
		ok := ch.Factorize(as)
		if g.notpd {
			if ok {
				return failf("notpd-accepted", "Cholesky.Factorize returned true for class %s n=%d (%s)", c.Class, n, symKindNames[sk])
			}
			if f := vk.MustPanic("failed-cond-no-panic", func() { ch.Cond() }); f != nil {
				return f
			}
			if f := vk.MustPanic("failed-solve-no-panic", func() { var d mat.Dense; _ = ch.SolveTo(&d, denseOf(b)) }); f != nil {
				return f
			}
			return nil
		}
		if g.pd && !ok {
			return failf("spd-rejected", "Cholesky.Factorize returned false for class %s n=%d logk=%d", c.Class, n, c.LogK)
		}
		if !ok {
			vk.Class("chol/illcond-rejected")
			return nil
		}
		if ch.SymmetricDim() != n {
			return failf("dims", "SymmetricDim=%d want %d", ch.SymmetricDim(), n)
		}
		var ut, lt *mat.TriDense
		var sd *mat.SymDense
		if sm.Intn(2) == 0 {
			ut, lt, sd = garbageTri(n, mat.Upper), garbageTri(n, mat.Lower), garbageSym(n)
		} else {
			ut, lt, sd = &mat.TriDense{}, &mat.TriDense{}, &mat.SymDense{}
		}
		ch.UTo(ut)
		ch.LTo(lt)
		ch.ToSym(sd)
		U, L := triToM(ut), triToM(lt)
		if !sameM(L, U.t()) {
			return failf("lto-not-transpose", "LTo is not the transpose of UTo")
		}
		if !sameM(triToM(ch.RawU()), U) {
			return failf("rawu", "RawU differs from UTo")
		}
		for i := 0; i < n; i++ {
			if !(U.at(i, i) > 0) {
				return failf("u-diagonal", "U[%d,%d]=%v is not positive", i, i, U.at(i, i))
			}
		}
		S, f := cholReconstruct(A, U, nil)
		if f != nil {
			return f
		}
		for i := 0; i < n; i++ {
			for j := 0; j < n; j++ {
				tol := 6*float64(n+5)*eps*S.at(i, j) + 1e-300
				if d := math.Abs(sd.At(i, j) - A.at(i, j)); !leq(d, tol) {
					return failf("tosym", "ToSym[%d,%d]=%v, A=%v, tol %g", i, j, sd.At(i, j), A.at(i, j), tol)
				}
			}
		}
		for k := 0; k < 4; k++ {
			i, j := sm.Intn(n), sm.Intn(n)
			tol := 6*float64(n+5)*eps*S.at(i, j) + 1e-300
			if d := math.Abs(ch.At(i, j) - A.at(i, j)); !leq(d, tol) {
				return failf("at", "At(%d,%d)=%v, A=%v, tol %g", i, j, ch.At(i, j), A.at(i, j), tol)
			}
		}
		if !g.ill {
			if f := spdScalars(A, frob(S), ch.LogDet(), ch.Det(), ch.Cond()); f != nil {
				return f
			}
		}
		x, err, label, f := solveCall("solve", c.opnd, n, b, sm,
			func(dst *mat.Dense, bm mat.Matrix) error { return ch.SolveTo(dst, bm) },
			func(dst *mat.VecDense, bv mat.Vector) error { return ch.SolveVecTo(dst, bv) })
		if f := finish(x, err, label, f, S, 2*float64(3*n+6)*eps, ch.Cond()); f != nil {
			return f
		}
		// SolveCholTo: X = A^-1 B with B given by its own Cholesky factorization
		// (two triangular solves with U_a and a product with U_b: each step is
		// backward stable, the composition carries a factor kappa_2(A)).
		if g.pd && c.Class == "spd" && sm.Intn(3) == 0 {
			Bm := genSym(n, logSpaced(n, 1, 10, sm), sm)
			var chB mat.Cholesky
			if chB.Factorize(mkSym(sSym, Bm, struc{sym: true, band: -1}, sm)) {
				dstC, stC := mkDst(c.Dst, n, n, nil, sm)
				if err := ch.SolveCholTo(dstC.d, &chB); err != nil {
					return failf("solvechol-spurious-error", "SolveCholTo returned %v for logk=%d", err, c.LogK)
				}
				X, f := dstC.result("solvechol")
				if f != nil {
					return f
				}
				r, _ := residDD(A, X, Bm)
				tol := cOrth * float64(n) * eps * math.Pow(10, float64(c.LogK)) * (frob(A)*frob(X) + frob(Bm))
				if !leq(frob(r), tol) {
					return failf("solvechol", "n=%d logk=%d: ||A*X-B||_F=%g exceeds %g (dst=%s)", n, c.LogK, frob(r), tol, dstNames[stC])
				}
				vk.Class("chol/solvechol")
			}
		}
		// InverseTo: (A + dA) X = I columnwise is not what Potri does; use the
		// normwise residual ||A X - I||_F <= C n eps kappa_F.
		if g.pd && sm.Intn(3) == 0 {
			var inv mat.SymDense
			if err := ch.InverseTo(&inv); err != nil {
				return failf("inverse-spurious-error", "InverseTo returned %v for class %s logk=%d", err, c.Class, c.LogK)
			}
			X := toM(&inv)
			R := mul(A, X)
			for i := 0; i < n; i++ {
				R.d[i*n+i] -= 1
			}
			kf := frob(A) * frob(X)
			tol := cOrth * float64(n) * eps * kf * kf
			if !leq(frob(R), tol) {
				return failf("inverse", "n=%d ||A*InverseTo-I||_F=%g tol %g", n, frob(R), tol)
			}
			vk.Class("chol/inverse")
		}
		return nil

	case "band":
		bk := c.AKind % nSymBandKinds
		vk.Class("chol/a=" + symBandKindNames[bk])
		nontriv(bk + 1)
		k := g.st.band
		ab := mkSymBand(bk, A, k, sm)
		var ch mat.BandCholesky
		ok := ch.Factorize(ab)
		if g.notpd {
			if ok {
				return failf("band-notpd-accepted", "BandCholesky.Factorize returned true for class %s n=%d k=%d", c.Class, n, k)
			}
			if f := vk.MustPanic("band-failed-cond-no-panic", func() { ch.Cond() }); f != nil {
				return f
			}
			return nil
		}
		if !ok {
			return failf("band-spd-rejected", "BandCholesky.Factorize returned false for class %s n=%d k=%d", c.Class, n, k)
		}
		if nn, kk := ch.SymBand(); nn != n || kk != k {
			return failf("band-symband", "SymBand=%d,%d want %d,%d", nn, kk, n, k)
		}
		// (|U'||U|)_ij <= sqrt((U'U)_ii (U'U)_jj) <= sqrt(a_ii a_jj)(1+gamma).
		S := newM(n, n)
		for i := 0; i < n; i++ {
			for j := 0; j < n; j++ {
				S.d[i*n+j] = 1.001 * math.Sqrt(A.at(i, i)*A.at(j, j))
			}
		}
		for i := 0; i < n; i++ {
			for j := 0; j < n; j++ {
				tol := 6 * float64(n+5) * eps * S.at(i, j)
				if d := math.Abs(ch.At(i, j) - A.at(i, j)); !leq(d, tol) {
					return failf("band-at", "n=%d k=%d At(%d,%d)=%v, A=%v, tol %g", n, k, i, j, ch.At(i, j), A.at(i, j), tol)
				}
			}
		}
		if f := spdScalars(A, frob(S), ch.LogDet(), ch.Det(), ch.Cond()); f != nil {
			f.Key = "band-" + f.Key
			return f
		}
		x, err, label, f := solveCall("band-solve", c.opnd, n, b, sm,
			func(dst *mat.Dense, bm mat.Matrix) error { return ch.SolveTo(dst, bm) },
			func(dst *mat.VecDense, bv mat.Vector) error { return ch.SolveVecTo(dst, bv) })
		return finish(x, err, label, f, S, 2*float64(3*n+6)*eps, ch.Cond())

	case "piv":
		sk := pickSymKind(c.AKind, g.st)
		vk.Class("chol/a=" + symKindNames[sk])
		nontriv(sk)
		as := mkSym(sk, A, g.st, sm)
		var ch mat.PivotedCholesky
		ok := ch.Factorize(as, -1)
		if g.notpd && ok {
			return failf("piv-notpd-accepted", "PivotedCholesky.Factorize returned true for class %s n=%d", c.Class, n)
		}
		if g.pd && !ok {
			return failf("piv-spd-rejected", "PivotedCholesky.Factorize returned false for class %s n=%d logk=%d", c.Class, n, c.LogK)
		}
		var ut *mat.TriDense
		if sm.Intn(2) == 0 {
			ut = garbageTri(n, mat.Upper)
		} else {
			ut = &mat.TriDense{}
		}
		ch.UTo(ut)
		U := triToM(ut)
		piv := ch.ColumnPivots(nil)
		if len(piv) != n || !isPerm(piv) {
			return failf("piv-pivots-not-permutation", "ColumnPivots=%v", piv)
		}
		rank := ch.Rank()
		if rank < 0 || rank > n || (ok && rank != n) {
			return failf("piv-rank", "Rank=%d ok=%v n=%d", rank, ok, n)
		}
		if !ok {
			// documented: rows of U from Rank to n contain zeros
			for i := rank; i < n; i++ {
				for j := 0; j < n; j++ {
					if U.at(i, j) != 0 {
						return failf("piv-trapezoid", "ok=false rank=%d but U[%d,%d]=%v", rank, i, j, U.at(i, j))
					}
				}
			}
		}
		if ok || g.psd0 {
			if g.psd0 && rank != n-1 {
				// exactly one zero pivot by construction, all others well above the tolerance
				return failf("piv-rank-psd", "class psd-zero n=%d logk=%d: Rank=%d want %d", n, c.LogK, rank, n-1)
			}
			S, f := cholReconstruct(A, U, piv)
			if f != nil {
				f.Key = "piv-" + f.Key
				return f
			}
			for k := 0; k < 4; k++ {
				i, j := sm.Intn(n), sm.Intn(n)
				tol := 6*float64(n+5)*eps*S.at(ipos(piv, i), ipos(piv, j)) + 1e-300
				if d := math.Abs(ch.At(i, j) - A.at(i, j)); !leq(d, tol) {
					return failf("piv-at", "At(%d,%d)=%v, A=%v, tol %g", i, j, ch.At(i, j), A.at(i, j), tol)
				}
			}
			if !ok {
				if f := vk.MustPanic("piv-failed-solve-no-panic", func() { var d mat.Dense; _ = ch.SolveTo(&d, denseOf(b)) }); f != nil {
					return f
				}
				return nil
			}
			// S in the original ordering
			So := newM(n, n)
			for i := 0; i < n; i++ {
				for j := 0; j < n; j++ {
					So.d[piv[i]*n+piv[j]] = S.at(i, j)
				}
			}
			if !g.ill {
				kinf := 0.0
				if _, _, inv, okr := luRef(A); okr {
					kinf = normInf(A) * normInf(inv)
					relRef := 1e3 * float64(n) * eps * kinf
					if relRef < 0.1 {
						cond := ch.Cond()
						if !(cond <= kinf*(1+relRef)) {
							return failf("piv-cond", "n=%d Cond=%g kappa_1=%g", n, cond, kinf)
						}
						if f := condLower("piv-cond", cond, normInf(A), permSym(inv, piv), kinf); f != nil { // Pocon sees P'AP
							return f
						}
					}
				}
			}
			x, err, label, f := solveCall("piv-solve", c.opnd, n, b, sm,
				func(dst *mat.Dense, bm mat.Matrix) error { return ch.SolveTo(dst, bm) },
				func(dst *mat.VecDense, bv mat.Vector) error { return ch.SolveVecTo(dst, bv) })
			return finish(x, err, label, f, So, 2*float64(3*n+6)*eps, ch.Cond())
		}
		return nil
	}
	return failf("bad-case", "type %q", c.Type)
}

// ipos returns k with p[k] == i.
func ipos(p []int, i int) int {
	for k, v := range p {
		if v == i {
			return k
		}
	}
	return -1
}

func TestCholesky(t *testing.T) {
	vk.Run(t, "chol", vk.Opts{Quick: 4000, Thorough: 120000}, drawChol, checkChol)
}

var _ = fmt.Sprint
