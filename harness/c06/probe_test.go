package c06

import (
	"fmt"
	"testing"

	"gonum.org/v1/gonum/lapack"
	"gonum.org/v1/gonum/lapack/gonum"
	"verifharness/vk"
)

func TestProbe(t *testing.T) {
	impl := gonum.Implementation{}
	n := 129
	sm := vk.NewSplitMix(11)
	g := genRect("rankdef", n, n, 0, false, sm)
	for _, blocked := range []bool{false, true} {
		a := append([]float64(nil), g.A.d...)
		d, e := make([]float64, n), make([]float64, n-1)
		tauq, taup := make([]float64, n), make([]float64, n)
		work := make([]float64, 64*n*4)
		if blocked {
			impl.Dgebrd(n, n, a, n, d, e, tauq, taup, work, len(work))
		} else {
			impl.Dgebd2(n, n, a, n, d, e, tauq, taup, work)
		}
		for _, blockedGen := range []bool{false, true} {
			q := append([]float64(nil), a...)
			if blockedGen {
				impl.Dorgbr(lapack.GenerateQ, n, n, n, q, n, tauq, work, len(work))
			} else {
				impl.Dorg2r(n, n, n, q, n, tauq, work)
			}
			Q := &M{n, n, q}
			// P^T via Dorgbr(GeneratePT) (blocked) only
			pt := append([]float64(nil), a...)
			impl.Dorgbr(lapack.GeneratePT, n, n, n, pt, n, taup, work, len(work))
			PT := &M{n, n, pt}
			B := newM(n, n)
			for i := 0; i < n; i++ {
				B.d[i*n+i] = d[i]
				if i < n-1 {
					B.d[i*n+i+1] = e[i]
				}
			}
			rec := frob(subM(g.A, mul(mul(Q, B), PT)))
			fmt.Printf("gebrd blocked=%v orgq blocked=%v: ||Q'Q-I||=%g ||P P'-I||=%g ||A-QBP'||=%g\n", blocked, blockedGen, orthoDefect(Q), orthoDefect(PT.t()), rec)
		}
	}
}
