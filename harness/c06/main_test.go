// Package c06 checks property C06: mat factorization types reconstruct, solve
// and update consistently.
package c06

import (
	"testing"

	"verifharness/vk"
)

func TestMain(m *testing.M) { vk.Main(m, "C06") }
