package c06

// Independent reference numerics used by the C06 oracles. Nothing in this file
// calls gonum: dense row-major matrices, double-double products, Householder
// reflections, Jacobi eigen/SVD, textbook Cholesky / LU / QR.

import (
	"math"
	"sort"

	"verifharness/vk"
)

const eps = vk.Eps // unit roundoff 2^-53

// cOrth is the fixed constant of the normwise bound C*max(m,n)*eps*||A||_F used
// for orthogonal factorizations (DESIGN section 3: two orders above what
// Householder methods deliver, ten orders below an indexing or sign error).
const cOrth = 200.0

// M is a dense row-major matrix.
type M struct {
	r, c int
	d    []float64
}

func newM(r, c int) *M { return &M{r, c, make([]float64, r*c)} }

func (a *M) at(i, j int) float64     { return a.d[i*a.c+j] }
func (a *M) set(i, j int, v float64) { a.d[i*a.c+j] = v }
func (a *M) clone() *M               { return &M{a.r, a.c, append([]float64(nil), a.d...)} }

func (a *M) t() *M {
	b := newM(a.c, a.r)
	for i := 0; i < a.r; i++ {
		for j := 0; j < a.c; j++ {
			b.d[j*b.c+i] = a.d[i*a.c+j]
		}
	}
	return b
}

func eyeM(n int) *M {
	a := newM(n, n)
	for i := 0; i < n; i++ {
		a.d[i*n+i] = 1
	}
	return a
}

func (a *M) abs() *M {
	b := newM(a.r, a.c)
	for i, v := range a.d {
		b.d[i] = math.Abs(v)
	}
	return b
}

func (a *M) col(j int) []float64 {
	x := make([]float64, a.r)
	for i := range x {
		x[i] = a.d[i*a.c+j]
	}
	return x
}

func (a *M) hasNaN() bool {
	for _, v := range a.d {
		if math.IsNaN(v) || math.IsInf(v, 0) {
			return true
		}
	}
	return false
}

// frob returns the Frobenius norm (NaN if any entry is NaN).
func frob(a *M) float64 {
	var s float64
	for _, v := range a.d {
		s += v * v
	}
	return math.Sqrt(s)
}

func norm2(x []float64) float64 {
	var s float64
	for _, v := range x {
		s += v * v
	}
	return math.Sqrt(s)
}

func normInf(a *M) float64 {
	var mx float64
	for i := 0; i < a.r; i++ {
		var s float64
		for j := 0; j < a.c; j++ {
			s += math.Abs(a.d[i*a.c+j])
		}
		if s > mx || math.IsNaN(s) {
			mx = s
		}
	}
	return mx
}

func norm1(a *M) float64 { return normInf(a.t()) }

func subM(a, b *M) *M {
	c := newM(a.r, a.c)
	for i := range c.d {
		c.d[i] = a.d[i] - b.d[i]
	}
	return c
}

// mul returns a*b in plain float64 (used where the bound has ample slack).
func mul(a, b *M) *M {
	if a.c != b.r {
		panic("c06: mul shape")
	}
	p := newM(a.r, b.c)
	for i := 0; i < a.r; i++ {
		pi := p.d[i*p.c : (i+1)*p.c]
		for k := 0; k < a.c; k++ {
			aik := a.d[i*a.c+k]
			if aik == 0 {
				continue
			}
			bk := b.d[k*b.c : (k+1)*b.c]
			for j, v := range bk {
				pi[j] += aik * v
			}
		}
	}
	return p
}

// mulDD returns a*b evaluated in double-double and rounded once, together with
// |a|*|b| (the scale of the componentwise rounding bounds).
func mulDD(a, b *M) (p, s *M) {
	if a.c != b.r {
		panic("c06: mulDD shape")
	}
	p, s = newM(a.r, b.c), newM(a.r, b.c)
	bt := b.t()
	for i := 0; i < a.r; i++ {
		ai := a.d[i*a.c : (i+1)*a.c]
		for j := 0; j < b.c; j++ {
			bj := bt.d[j*bt.c : (j+1)*bt.c]
			var acc vk.DD
			var sa float64
			for k, v := range ai {
				acc.AddProd(v, bj[k])
				sa += math.Abs(v * bj[k])
			}
			p.d[i*p.c+j] = acc.Float()
			s.d[i*s.c+j] = sa
		}
	}
	return p, s
}

// residDD returns b - a*x evaluated in double-double, and |a|*|x|.
func residDD(a, x, b *M) (r, s *M) {
	r, s = newM(b.r, b.c), newM(b.r, b.c)
	xt := x.t()
	for i := 0; i < a.r; i++ {
		ai := a.d[i*a.c : (i+1)*a.c]
		for j := 0; j < x.c; j++ {
			xj := xt.d[j*xt.c : (j+1)*xt.c]
			var acc vk.DD
			var sa float64
			acc.Add(b.d[i*b.c+j])
			for k, v := range ai {
				acc.AddProd(-v, xj[k])
				sa += math.Abs(v * xj[k])
			}
			r.d[i*r.c+j] = acc.Float()
			s.d[i*s.c+j] = sa
		}
	}
	return r, s
}

// houseLeft applies H = I - 2vv'/(v'v) from the left to a.
func houseLeft(a *M, v []float64) {
	var vv float64
	for _, x := range v {
		vv += x * x
	}
	if vv == 0 {
		return
	}
	for j := 0; j < a.c; j++ {
		var dot float64
		for i := 0; i < a.r; i++ {
			dot += v[i] * a.d[i*a.c+j]
		}
		f := 2 * dot / vv
		for i := 0; i < a.r; i++ {
			a.d[i*a.c+j] -= f * v[i]
		}
	}
}

// houseRight applies H = I - 2vv'/(v'v) from the right to a.
func houseRight(a *M, v []float64) {
	var vv float64
	for _, x := range v {
		vv += x * x
	}
	if vv == 0 {
		return
	}
	for i := 0; i < a.r; i++ {
		row := a.d[i*a.c : (i+1)*a.c]
		var dot float64
		for j, x := range v {
			dot += row[j] * x
		}
		f := 2 * dot / vv
		for j, x := range v {
			row[j] -= f * x
		}
	}
}

func gaussVec(n int, sm *vk.SplitMix) []float64 {
	v := make([]float64, n)
	for i := range v {
		v[i] = sm.Norm()
	}
	return v
}

// genSigma builds an m×n matrix Q1*diag(sigma)*Q2' where Q1, Q2 are products of
// a few random Householder reflections: its singular values are sigma up to a
// perturbation of a few eps*max(sigma).
func genSigma(m, n int, sigma []float64, sm *vk.SplitMix) *M {
	a := newM(m, n)
	for i, s := range sigma {
		a.d[i*n+i] = s
	}
	k := 3
	for h := 0; h < k; h++ {
		houseLeft(a, gaussVec(m, sm))
		houseRight(a, gaussVec(n, sm))
	}
	return a
}

// genSym builds the symmetric matrix Q*diag(lambda)*Q'.
func genSym(n int, lambda []float64, sm *vk.SplitMix) *M {
	a := newM(n, n)
	for i, s := range lambda {
		a.d[i*n+i] = s
	}
	for h := 0; h < 3; h++ {
		v := gaussVec(n, sm)
		houseLeft(a, v)
		houseRight(a, v)
	}
	symmetrize(a)
	return a
}

func symmetrize(a *M) {
	n := a.r
	for i := 0; i < n; i++ {
		for j := i + 1; j < n; j++ {
			a.d[j*n+i] = a.d[i*n+j]
		}
	}
}

// genBandSPD builds a symmetric, strictly diagonally dominant band matrix with
// positive diagonal (hence SPD, eigenvalues in [1, 1+2*max row sum]).
func genBandSPD(n, k int, sm *vk.SplitMix) *M {
	a := newM(n, n)
	for i := 0; i < n; i++ {
		for j := i + 1; j <= i+k && j < n; j++ {
			v := sm.Finite() / 2
			a.d[i*n+j], a.d[j*n+i] = v, v
		}
	}
	for i := 0; i < n; i++ {
		var s float64
		for j := 0; j < n; j++ {
			if j != i {
				s += math.Abs(a.d[i*n+j])
			}
		}
		a.d[i*n+i] = 1 + s + sm.Float()
	}
	return a
}

// logSpaced returns k values from hi down to hi/kappa (geometric), shuffled
// positions irrelevant: descending order.
func logSpaced(k int, hi, kappa float64, sm *vk.SplitMix) []float64 {
	s := make([]float64, k)
	for i := range s {
		switch {
		case i == 0:
			s[i] = hi
		case i == k-1:
			s[i] = hi / kappa
		default:
			s[i] = hi * math.Pow(kappa, -sm.Float())
		}
	}
	sort.Sort(sort.Reverse(sort.Float64Slice(s)))
	return s
}

// jacobiEig returns the eigenvalues (ascending) and, if wantV, the matching
// orthonormal eigenvectors (columns) of the symmetric matrix a by the cyclic
// Jacobi method.
func jacobiEig(a *M, wantV bool) ([]float64, *M) {
	n := a.r
	A := a.clone()
	var V *M
	if wantV {
		V = eyeM(n)
	}
	for sweep := 0; sweep < 60; sweep++ {
		var off float64
		for p := 0; p < n; p++ {
			for q := p + 1; q < n; q++ {
				off += A.d[p*n+q] * A.d[p*n+q]
			}
		}
		if off == 0 {
			break
		}
		for p := 0; p < n-1; p++ {
			for q := p + 1; q < n; q++ {
				apq := A.d[p*n+q]
				if apq == 0 {
					continue
				}
				app, aqq := A.d[p*n+p], A.d[q*n+q]
				g := 100 * math.Abs(apq)
				if sweep > 3 && math.Abs(app)+g == math.Abs(app) && math.Abs(aqq)+g == math.Abs(aqq) {
					A.d[p*n+q], A.d[q*n+p] = 0, 0
					continue
				}
				theta := (aqq - app) / (2 * apq)
				var t float64
				if math.IsInf(theta, 0) {
					t = 0
				} else {
					t = 1 / (math.Abs(theta) + math.Sqrt(theta*theta+1))
					if theta < 0 {
						t = -t
					}
				}
				c := 1 / math.Sqrt(t*t+1)
				s := t * c
				// A <- J' A J with J the rotation in the (p,q) plane.
				for k := 0; k < n; k++ {
					akp, akq := A.d[k*n+p], A.d[k*n+q]
					A.d[k*n+p] = c*akp - s*akq
					A.d[k*n+q] = s*akp + c*akq
				}
				for k := 0; k < n; k++ {
					apk, aqk := A.d[p*n+k], A.d[q*n+k]
					A.d[p*n+k] = c*apk - s*aqk
					A.d[q*n+k] = s*apk + c*aqk
				}
				A.d[p*n+q], A.d[q*n+p] = 0, 0
				if wantV {
					for k := 0; k < n; k++ {
						vkp, vkq := V.d[k*n+p], V.d[k*n+q]
						V.d[k*n+p] = c*vkp - s*vkq
						V.d[k*n+q] = s*vkp + c*vkq
					}
				}
			}
		}
	}
	idx := make([]int, n)
	for i := range idx {
		idx[i] = i
	}
	sort.SliceStable(idx, func(x, y int) bool { return A.d[idx[x]*n+idx[x]] < A.d[idx[y]*n+idx[y]] })
	vals := make([]float64, n)
	var Vs *M
	if wantV {
		Vs = newM(n, n)
	}
	for k, i := range idx {
		vals[k] = A.d[i*n+i]
		if wantV {
			for r := 0; r < n; r++ {
				Vs.d[r*n+k] = V.d[r*n+i]
			}
		}
	}
	return vals, Vs
}

// jacobiSVD returns the singular values (descending) and the thin factors
// U (m×k), V (n×k), k = min(m,n), by one-sided (Hestenes) Jacobi.
func jacobiSVD(a *M) (s []float64, U, V *M) {
	if a.r < a.c {
		s, v, u := jacobiSVD(a.t())
		return s, u, v
	}
	m, n := a.r, a.c
	G := a.clone()
	W := eyeM(n)
	for sweep := 0; sweep < 60; sweep++ {
		rotated := false
		for p := 0; p < n-1; p++ {
			for q := p + 1; q < n; q++ {
				var al, be, ga float64
				for i := 0; i < m; i++ {
					gp, gq := G.d[i*n+p], G.d[i*n+q]
					al += gp * gp
					be += gq * gq
					ga += gp * gq
				}
				if ga == 0 || math.Abs(ga) <= 1e-16*math.Sqrt(al*be) {
					continue
				}
				rotated = true
				zeta := (be - al) / (2 * ga)
				t := 1 / (math.Abs(zeta) + math.Sqrt(1+zeta*zeta))
				if zeta < 0 {
					t = -t
				}
				c := 1 / math.Sqrt(1+t*t)
				sn := c * t
				for i := 0; i < m; i++ {
					gp, gq := G.d[i*n+p], G.d[i*n+q]
					G.d[i*n+p] = c*gp - sn*gq
					G.d[i*n+q] = sn*gp + c*gq
				}
				for i := 0; i < n; i++ {
					wp, wq := W.d[i*n+p], W.d[i*n+q]
					W.d[i*n+p] = c*wp - sn*wq
					W.d[i*n+q] = sn*wp + c*wq
				}
			}
		}
		if !rotated {
			break
		}
	}
	sv := make([]float64, n)
	idx := make([]int, n)
	for j := 0; j < n; j++ {
		sv[j] = norm2(G.col(j))
		idx[j] = j
	}
	sort.SliceStable(idx, func(x, y int) bool { return sv[idx[x]] > sv[idx[y]] })
	s = make([]float64, n)
	U, V = newM(m, n), newM(n, n)
	for k, j := range idx {
		s[k] = sv[j]
		for i := 0; i < m; i++ {
			if sv[j] > 0 {
				U.d[i*n+k] = G.d[i*n+j] / sv[j]
			}
		}
		for i := 0; i < n; i++ {
			V.d[i*n+k] = W.d[i*n+j]
		}
	}
	return s, U, V
}

// cholRef returns the upper Cholesky factor of the symmetric matrix a, or
// ok=false if a pivot is not positive.
func cholRef(a *M) (R *M, ok bool) {
	n := a.r
	R = newM(n, n)
	for j := 0; j < n; j++ {
		for i := 0; i <= j; i++ {
			var acc vk.DD
			acc.Add(a.d[i*n+j])
			for k := 0; k < i; k++ {
				acc.AddProd(-R.d[k*n+i], R.d[k*n+j])
			}
			s := acc.Float()
			if i == j {
				if !(s > 0) {
					return R, false
				}
				R.d[j*n+j] = math.Sqrt(s)
			} else {
				R.d[i*n+j] = s / R.d[i*n+i]
			}
		}
	}
	return R, true
}

// cholSolveRef solves a x = b given the upper factor R (a = R'R).
func cholSolveRef(R *M, b []float64) []float64 {
	n := R.r
	y := make([]float64, n)
	for i := 0; i < n; i++ { // R' y = b
		var acc vk.DD
		acc.Add(b[i])
		for k := 0; k < i; k++ {
			acc.AddProd(-R.d[k*n+i], y[k])
		}
		y[i] = acc.Float() / R.d[i*n+i]
	}
	x := make([]float64, n)
	for i := n - 1; i >= 0; i-- { // R x = y
		var acc vk.DD
		acc.Add(y[i])
		for k := i + 1; k < n; k++ {
			acc.AddProd(-R.d[i*n+k], x[k])
		}
		x[i] = acc.Float() / R.d[i*n+i]
	}
	return x
}

// forwardRt solves R' y = b.
func forwardRt(R *M, b []float64) []float64 {
	n := R.r
	y := make([]float64, n)
	for i := 0; i < n; i++ {
		var acc vk.DD
		acc.Add(b[i])
		for k := 0; k < i; k++ {
			acc.AddProd(-R.d[k*n+i], y[k])
		}
		y[i] = acc.Float() / R.d[i*n+i]
	}
	return y
}

// luRef factorizes a copy of a with partial pivoting; returns log|det|, sign and
// the inverse (Gauss-Jordan on the factor), ok=false on an exactly zero pivot.
func luRef(a *M) (logdet, sign float64, inv *M, ok bool) {
	n := a.r
	A := a.clone()
	inv = eyeM(n)
	sign = 1
	for j := 0; j < n; j++ {
		p := j
		for i := j + 1; i < n; i++ {
			if math.Abs(A.d[i*n+j]) > math.Abs(A.d[p*n+j]) {
				p = i
			}
		}
		if A.d[p*n+j] == 0 {
			return math.Inf(-1), 0, nil, false
		}
		if p != j {
			sign = -sign
			for k := 0; k < n; k++ {
				A.d[p*n+k], A.d[j*n+k] = A.d[j*n+k], A.d[p*n+k]
				inv.d[p*n+k], inv.d[j*n+k] = inv.d[j*n+k], inv.d[p*n+k]
			}
		}
		piv := A.d[j*n+j]
		if piv < 0 {
			sign = -sign
		}
		logdet += math.Log(math.Abs(piv))
		for k := 0; k < n; k++ {
			A.d[j*n+k] /= piv
			inv.d[j*n+k] /= piv
		}
		for i := 0; i < n; i++ {
			if i == j {
				continue
			}
			f := A.d[i*n+j]
			if f == 0 {
				continue
			}
			for k := 0; k < n; k++ {
				A.d[i*n+k] -= f * A.d[j*n+k]
				inv.d[i*n+k] -= f * inv.d[j*n+k]
			}
		}
	}
	return logdet, sign, inv, true
}

// orthBasis returns an m×n matrix with orthonormal columns spanning the column
// space of the m×n (m >= n, full column rank) matrix a (Householder QR).
func orthBasis(a *M) *M {
	m, n := a.r, a.c
	A := a.clone()
	vs := make([][]float64, n)
	for j := 0; j < n; j++ {
		v := make([]float64, m)
		var nrm float64
		for i := j; i < m; i++ {
			v[i] = A.d[i*n+j]
			nrm += v[i] * v[i]
		}
		nrm = math.Sqrt(nrm)
		if nrm == 0 {
			vs[j] = nil
			continue
		}
		if v[j] >= 0 {
			v[j] += nrm
		} else {
			v[j] -= nrm
		}
		houseLeft(A, v)
		vs[j] = v
	}
	Q := newM(m, n)
	for j := 0; j < n; j++ {
		Q.d[j*n+j] = 1
	}
	for j := n - 1; j >= 0; j-- {
		if vs[j] != nil {
			houseLeft(Q, vs[j])
		}
	}
	return Q
}

// orthoDefect returns ||Q'Q - I||_F.
func orthoDefect(q *M) float64 {
	g := mul(q.t(), q)
	for i := 0; i < g.r; i++ {
		g.d[i*g.c+i] -= 1
	}
	return frob(g)
}

func maxInt(a, b int) int {
	if a > b {
		return a
	}
	return b
}

func minInt(a, b int) int {
	if a < b {
		return a
	}
	return b
}

// leq reports x <= tol and is false for NaN x (a NaN result is a failure).
func leq(x, tol float64) bool { return x <= tol }
