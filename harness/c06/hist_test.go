package c06

import (
	"fmt"
	"math"
	"testing"

	"gonum.org/v1/gonum/mat"
	"pgregory.net/rapid"
	"verifharness/vk"
)

// ---- Cholesky update histories ---------------------------------------------------

// cholOp is one step of a history over a single Cholesky factorization. The
// whole list is drawn up front so that rapid shrinks it as one value.
type cholOp struct {
	Kind string // up, down, ext, scale, clone, setfromu, zero
	// T places the step relative to the positive-definiteness boundary:
	//   down: alpha*x'A^-1 x = T  (PD iff T < 1)
	//   ext:  k = T * w'A^-1 w    (PD iff T > 1); with W0 the border vector w is zero and k = T-1
	T     float64
	Alpha float64 // |alpha| of SymRankOne, factor of Scale
	W0    bool
	Recv  int // 0: receiver == orig, 1: fresh zero value, 2: a valid factorization of another matrix, 3: a factorization emptied by Reset
	VKind int // representation of the vector argument
	Seed  uint64
}

type cholHistCase struct {
	N    int
	LogK int
	Ops  []cholOp
	Seed uint64
}

var boundaryT = []float64{0.25, 0.5, 0.9, 0.999, 1 - 1e-9, 1 - 1e-13, 1, 1 + 1e-13, 1 + 1e-9, 1.001, 1.5, 4}

func drawCholHist(t *rapid.T) cholHistCase {
	c := cholHistCase{
		N:    vk.Dim(t, "n", 1, 40, 8, 16, 32),
		LogK: rapid.SampledFrom([]int{0, 1, 3}).Draw(t, "logk"),
		Seed: vk.SeedGen(t, "seed"),
	}
	nops := rapid.IntRange(1, 30).Draw(t, "nops")
	for i := 0; i < nops; i++ {
		op := cholOp{
			Kind:  rapid.SampledFrom([]string{"up", "up", "down", "down", "down", "ext", "ext", "scale", "clone", "setfromu", "zero"}).Draw(t, "op"),
			Alpha: rapid.SampledFrom([]float64{1, 1, 0.5, 2, 1e-3, 7.5}).Draw(t, "alpha"),
			W0:    rapid.IntRange(0, 7).Draw(t, "w0") == 0,
			Recv:  rapid.IntRange(0, 3).Draw(t, "recv"),
			VKind: rapid.IntRange(0, nVKinds-1).Draw(t, "vkind"),
			Seed:  rapid.Uint64().Draw(t, "opseed"),
		}
		switch op.Kind {
		case "down":
			// mostly safely inside, sometimes at or beyond the boundary
			if rapid.IntRange(0, 2).Draw(t, "edge") == 0 {
				op.T = rapid.SampledFrom(boundaryT).Draw(t, "T")
			} else {
				op.T = rapid.SampledFrom([]float64{0.1, 0.25, 0.5, 0.75}).Draw(t, "Tin")
			}
		case "ext":
			if rapid.IntRange(0, 2).Draw(t, "edge") == 0 {
				op.T = rapid.SampledFrom(boundaryT).Draw(t, "T")
			} else {
				op.T = rapid.SampledFrom([]float64{1.25, 2, 4, 10}).Draw(t, "Tin")
			}
		}
		c.Ops = append(c.Ops, op)
	}
	return c
}

func cholToM(ch *mat.Cholesky) *M {
	var s mat.SymDense
	ch.ToSym(&s)
	return toM(&s)
}

func cholU(ch *mat.Cholesky) *M {
	var u mat.TriDense
	ch.UTo(&u)
	return triToM(&u)
}

func checkCholHist(c cholHistCase) *vk.Failure {
	sm := vk.NewSplitMix(c.Seed)
	n := c.N
	A := genSym(n, logSpaced(n, math.Ldexp(1, sm.Intn(5)-2), math.Pow(10, float64(c.LogK)), sm), sm)
	vk.Class(fmt.Sprintf("cholhist/len=%d", (len(c.Ops)+4)/5*5))
	vk.Sample("cholhist", c)
	if n >= 2 && len(c.Ops) >= 2 {
		vk.NonTrivial("cholhist", n, c.LogK, fmt.Sprintf("%v", c.Ops))
	}
	cur := &mat.Cholesky{}
	if !cur.Factorize(mkSym(sSym, A, struc{sym: true, band: -1}, sm)) {
		return failf("initial-factorize", "Factorize returned false for an SPD matrix n=%d logk=%d", n, c.LogK)
	}
	var lt late
	scaleMax := frob(A)
	condStale := false // cur descends (through Scale/Clone, which copy cond) from the open alpha==0 finding
	for step, op := range c.Ops {
		n = A.r
		if n > 44 && op.Kind == "ext" {
			continue
		}
		// state of the model before the step
		lam, _ := jacobiEig(A, false)
		if !(lam[0] > 0) || lam[n-1]/lam[0] > 1e10 {
			vk.Class("cholhist/truncated-ill-conditioned")
			break
		}
		kappa := lam[n-1] / lam[0]
		// Distance from the positive-definiteness boundary below which the
		// outcome is not asserted: rounding in gonum's own test (relative
		// 1e3*n*eps*kappa, DESIGN 4/C06) and the discrepancy between the model and
		// the matrix actually represented by the factor, which may be as large as
		// the reconstruction tolerance granted so far, relative to lambda_min.
		margin := 1e3 * float64(n) * eps * kappa
		if m2 := 2 * cOrth * float64(n) * eps * scaleMax * float64(step+1) / lam[0]; m2 > margin {
			margin = m2
		}
		R, okR := cholRef(A)
		if !okR {
			break
		}
		osm := vk.NewSplitMix(op.Seed)
		vk.Class("cholhist/op=" + op.Kind)

		// receiver
		var recv *mat.Cholesky
		var recvBefore *M // factor held by a non-empty receiver distinct from orig
		switch op.Recv {
		case 0:
			recv = cur
		case 1:
			recv = &mat.Cholesky{}
		case 3:
			// emptied by Reset: "so that it can be reused as the receiver of a
			// dimensionally restricted operation"
			recv = &mat.Cholesky{}
			recv.Clone(cur)
			recv.Reset()
		default:
			recv = &mat.Cholesky{}
			recv.Clone(cur)
			recv.Scale(3, recv)
			recvBefore = cholU(recv)
		}
		origU := cholU(cur)
		// expected outcome and model update
		expect := 0 // +1 must succeed, -1 must fail, 0 borderline
		An := A
		var xnorm2 float64
		var call func() bool
		what := op.Kind
		switch op.Kind {
		case "up", "zero", "down":
			z := gaussVec(n, osm)
			alpha := op.Alpha
			switch op.Kind {
			case "zero":
				alpha = 0
				expect = 1
			case "up":
				expect = 1
			case "down":
				p := forwardRt(R, z)
				rho0 := norm2(p) * norm2(p)
				s := math.Sqrt(op.T / (rho0 * alpha))
				for i := range z {
					z[i] *= s
				}
				alpha = -alpha
				switch {
				case math.Abs(op.T-1) <= margin:
					expect = 0
				case op.T < 1:
					expect = 1
				default:
					expect = -1
				}
			}
			xnorm2 = math.Abs(alpha) * norm2(z) * norm2(z)
			An = A.clone()
			for i := 0; i < n; i++ {
				for j := 0; j < n; j++ {
					An.d[i*n+j] += alpha * z[i] * z[j]
				}
			}
			symmetrize(An)
			mkx := func(kind int) mat.Vector { return mkVec(kind, z, osm) }
			xk := op.VKind
			call = func() bool {
				var ok bool
				res := vk.Call(func() { ok = recv.SymRankOne(cur, alpha, mkx(xk)) })
				if res.Outcome == vk.RuntimeFault && xk == vBasic {
					lt.add(failf("symrankone-basic-vector-fault", "Cholesky.SymRankOne with a Vector that is not a RawVectorer ended in a runtime fault: %s", res.Text))
					xk = vUnit
					ok = recv.SymRankOne(cur, alpha, mkx(xk))
				} else if res.Outcome != vk.Returned {
					panic(fmt.Sprintf("SymRankOne: %v %s", res.Outcome, res.Text))
				}
				return ok
			}
		case "ext":
			w := gaussVec(n, osm)
			var k float64
			if op.W0 {
				for i := range w {
					w[i] = 0
				}
				k = (op.T - 1) * lam[n-1]
				switch {
				case op.T > 1+1e-6:
					expect = 1
				case op.T <= 1:
					expect = -1 // k <= 0 = w'A^-1 w exactly
				}
			} else {
				p := forwardRt(R, w)
				s0 := norm2(p) * norm2(p)
				k = op.T * s0
				switch {
				case math.Abs(op.T-1) <= margin:
					expect = 0
				case op.T > 1:
					expect = 1
				default:
					expect = -1
				}
			}
			v := append(append([]float64(nil), w...), k)
			xnorm2 = norm2(v)
			An = newM(n+1, n+1)
			for i := 0; i < n; i++ {
				copy(An.d[i*(n+1):i*(n+1)+n], A.d[i*n:(i+1)*n])
				An.d[i*(n+1)+n] = w[i]
				An.d[n*(n+1)+i] = w[i]
			}
			An.d[n*(n+1)+n] = k
			call = func() bool { return recv.ExtendVecSym(cur, mkVec(op.VKind, v, osm)) }
		case "scale":
			expect = 1
			An = A.clone()
			for i := range An.d {
				An.d[i] *= op.Alpha
			}
			call = func() bool { recv.Scale(op.Alpha, cur); return true }
		case "clone":
			expect = 1
			call = func() bool { recv.Clone(cur); return true }
		case "setfromu":
			expect = 1
			var ut mat.Triangular
			switch osm.Intn(3) {
			case 0:
				ut = cur.RawU()
			case 1:
				var u mat.TriDense
				cur.UTo(&u)
				ut = &u
			default:
				ut = basicTri{basicMat{cholU(cur)}}
			}
			if op.Recv == 0 {
				// SetFromU(own RawU) would alias; use a copy
				var u mat.TriDense
				cur.UTo(&u)
				ut = &u
			}
			call = func() bool { recv.SetFromU(ut); return true }
		default:
			return failf("bad-case", "op %q", op.Kind)
		}

		desc := fmt.Sprintf("step %d/%d %s(T=%g alpha=%g recv=%d vec=%s) n=%d kappa=%.3g", step+1, len(c.Ops), what, op.T, op.Alpha, op.Recv, vKindNames[op.VKind%nVKinds], n, kappa)
		var ok bool
		if op.Recv == 3 {
			if res := vk.Call(func() { ok = call() }); res.Outcome == vk.PackagePanic {
				lt.add(failf("reset-receiver-panic", "%s: the operation panicked (%s) on a receiver emptied by Reset, which is documented to be reusable as the receiver of a dimensionally restricted operation", desc, res.Text))
				recv = &mat.Cholesky{}
				ok = call()
			} else if res.Outcome != vk.Returned {
				panic(res.Value)
			}
		} else {
			ok = call()
		}
		switch expect {
		case 1:
			vk.Class("cholhist/expect=ok")
		case -1:
			vk.Class("cholhist/expect=fail")
		default:
			vk.Class("cholhist/expect=borderline")
		}
		if expect == 1 && !ok {
			return failf("update-rejected", "%s: returned false although the updated matrix is positive definite with margin", desc)
		}
		if expect == -1 && ok {
			return failf("nonpd-update-accepted", "%s: returned true although the updated matrix is not positive definite", desc)
		}
		if recv != cur {
			if !sameM(cholU(cur), origU) {
				return failf("orig-modified", "%s: the orig argument was modified", desc)
			}
		}
		if !ok {
			// documented: receiver left unchanged / not updated
			switch op.Recv {
			case 0:
				if !sameM(cholU(cur), origU) {
					return failf("failed-update-changed-receiver", "%s: returned false but the receiver (== orig) changed", desc)
				}
			case 1, 3:
				if !recv.IsEmpty() {
					lt.add(failf("failed-update-changed-fresh-receiver", "%s: returned false but the previously empty receiver now holds a %d×%d factorization (documented: receiver left unchanged)", desc, recv.SymmetricDim(), recv.SymmetricDim()))
				}
			default:
				if recv.IsEmpty() || !sameM(cholU(recv), recvBefore) {
					lt.add(failf("failed-update-changed-other-receiver", "%s: returned false but the receiver's factorization changed (documented: receiver left unchanged)", desc))
				}
			}
			continue
		}
		// success: the receiver represents the updated model
		if op.Kind == "scale" {
			scaleMax *= op.Alpha // earlier errors are scaled with the matrix
		}
		if s := frob(An) + xnorm2; s > scaleMax {
			scaleMax = s
		}
		nn := An.r
		if recv.SymmetricDim() != nn {
			return failf("update-dims", "%s: receiver is %d×%d want %d", desc, recv.SymmetricDim(), recv.SymmetricDim(), nn)
		}
		U := cholU(recv)
		for i := 0; i < nn; i++ {
			if !(U.at(i, i) > 0) {
				return failf("update-diagonal", "%s: U[%d,%d]=%v not positive", desc, i, i, U.at(i, i))
			}
		}
		tol := cOrth * float64(nn) * eps * scaleMax * float64(step+2)
		if d := frob(subM(mul(U.t(), U), An)); !leq(d, tol) {
			return failf("update-reconstruct", "%s: ||U'U - model||_F=%g exceeds %g", desc, d, tol)
		}
		// Cond of the updated factorization (over-estimate allowed, see DESIGN)
		lamN, _ := jacobiEig(An, false)
		if lamN[0] > 0 {
			k2 := lamN[nn-1] / lamN[0]
			// kappa of the represented matrix is known only if the granted
			// reconstruction tolerance is small against lambda_min of the model
			if 1e3*float64(nn)*eps*k2 < 0.1 && tol <= 1e-3*lamN[0] {
				cond := recv.Cond()
				fn := float64(nn)
				recomputed := !(op.Kind == "zero" || op.Kind == "scale" || op.Kind == "clone")
				if recomputed {
					condStale = false
				}
				_, _, invN, okN := luRef(An)
				var f *vk.Failure
				if okN {
					f = condLower("update-cond-lower", cond, normInf(An), invN, k2)
				}
				if f != nil {
					f.Msg = desc + ": " + f.Msg
					if (op.Kind == "zero" && op.Recv != 0) || condStale {
						f.Key = "symrankone-alpha0-cond-not-set"
						lt.add(f)
						condStale = true
					} else {
						return f
					}
				}
				if !condStale && !(cond <= fn*fn*k2*(1+1e-3)) {
					return failf("update-cond-upper", "%s: Cond()=%g exceeds n^2*kappa_2=%g", desc, cond, fn*fn*k2)
				}
			}
		}
		A, cur = An, recv
	}
	return lt.f
}

func TestCholHist(t *testing.T) {
	vk.Run(t, "cholhist", vk.Opts{Quick: 2000, Thorough: 36000}, drawCholHist, checkCholHist)
}

// ---- LU.RankOne chains ----------------------------------------------------------------

type luOp struct {
	Spike int // 0: small general update; >0: alpha = 10^Spike * d_ii on one diagonal entry
	Recv  int // 0: receiver == orig, 1: fresh zero value, 2: an LU of the same size holding another matrix
	VKind int
	Seed  uint64
}

type luHistCase struct {
	N    int
	Ops  []luOp
	Seed uint64
}

func drawLUHist(t *rapid.T) luHistCase {
	c := luHistCase{N: vk.Dim(t, "n", 1, 40, 8, 16, 32), Seed: vk.SeedGen(t, "seed")}
	nops := rapid.IntRange(1, 12).Draw(t, "nops")
	for i := 0; i < nops; i++ {
		c.Ops = append(c.Ops, luOp{
			Spike: rapid.SampledFrom([]int{0, 0, 0, 1, 3, 5}).Draw(t, "spike"),
			Recv:  rapid.IntRange(0, 2).Draw(t, "recv"),
			VKind: rapid.IntRange(0, nVKinds-1).Draw(t, "vkind"),
			Seed:  rapid.Uint64().Draw(t, "opseed"),
		})
	}
	return c
}

// ddMargin returns min_j (|d_jj| - sum_{i != j} |d_ij|) of D.
func ddMargin(D *M) float64 {
	n := D.r
	mn := math.Inf(1)
	for j := 0; j < n; j++ {
		var s float64
		for i := 0; i < n; i++ {
			if i != j {
				s += math.Abs(D.at(i, j))
			}
		}
		if m := math.Abs(D.at(j, j)) - s; m < mn {
			mn = m
		}
	}
	return mn
}

// luRaw extracts L, U and the row pivots without validating them.
func luRaw(lu *mat.LU) (L, U *M, piv []int) {
	var lt, ut mat.TriDense
	lu.LTo(&lt)
	lu.UTo(&ut)
	return triToM(&lt), triToM(&ut), lu.RowPivots(nil)
}

func checkLUHist(c luHistCase) *vk.Failure {
	n := c.N
	sm := vk.NewSplitMix(c.Seed)
	vk.Sample("luhist", c)
	vk.Class(fmt.Sprintf("luhist/len=%d", (len(c.Ops)+3)/4*4))
	if n >= 2 && len(c.Ops) >= 2 {
		vk.NonTrivial("luhist", n, fmt.Sprintf("%v", c.Ops))
	}
	// D strictly column diagonally dominant, A = Pi*D with a row permutation Pi:
	// partial pivoting undoes Pi and never swaps afterwards, and P'A' stays
	// column diagonally dominant under the small / diagonal-spike updates below,
	// so the fixed-pivot update LU.RankOne performs is well defined and stable.
	D := newM(n, n)
	sm.FillFinite(D.d)
	for j := 0; j < n; j++ {
		var s float64
		for i := 0; i < n; i++ {
			if i != j {
				s += math.Abs(D.at(i, j))
			}
		}
		D.d[j*n+j] = (1 + s) * (1.5 + sm.Float()) * float64(1-2*sm.Intn(2))
	}
	pi := sm.Perm(n)
	permRows := func(D *M) *M {
		A := newM(n, n)
		for i := 0; i < n; i++ {
			copy(A.d[pi[i]*n:(pi[i]+1)*n], D.d[i*n:(i+1)*n])
		}
		return A
	}
	A := permRows(D)
	cur := &mat.LU{}
	cur.Factorize(denseOf(A))
	piv0 := cur.RowPivots(nil)
	var lt late
	tainted := false // cur descends from a RankOne into a fresh receiver (open finding: ok flag not copied)
	scaleMax := frob(A)
	for step, op := range c.Ops {
		osm := vk.NewSplitMix(op.Seed)
		x, y := make([]float64, n), make([]float64, n)
		var alpha float64
		Dn := D.clone()
		if op.Spike > 0 {
			i := osm.Intn(n)
			x[pi[i]], y[i] = 1, 1
			alpha = math.Pow(10, float64(op.Spike)) * D.at(i, i)
			Dn.d[i*n+i] += alpha
		} else {
			mg := ddMargin(D)
			xd := make([]float64, n) // x in D's row order
			for i := 0; i < n; i++ {
				xd[i] = osm.Float()*2 - 1
				y[i] = osm.Float()*2 - 1
				x[pi[i]] = xd[i]
			}
			alpha = 0.2 * mg / float64(n) * float64(1-2*osm.Intn(2))
			for i := 0; i < n; i++ {
				for j := 0; j < n; j++ {
					Dn.d[i*n+j] += alpha * xd[i] * y[j]
				}
			}
		}
		if !(ddMargin(Dn) > 0) {
			break
		}
		An := permRows(Dn)
		if s := frob(An); s > scaleMax {
			scaleMax = s
		}
		var recv *mat.LU
		switch op.Recv {
		case 0:
			recv = cur
		case 1:
			recv = &mat.LU{}
		default:
			recv = &mat.LU{}
			recv.Factorize(denseOf(eyeM(n)))
		}
		var origL, origU *M
		if recv != cur {
			origL, origU, _ = luRaw(cur)
		}
		recv.RankOne(cur, alpha, mkVec(op.VKind, x, osm), mkVec((op.VKind+1)%nVKinds, y, osm))
		desc := fmt.Sprintf("step %d/%d RankOne(spike=%d recv=%d) n=%d", step+1, len(c.Ops), op.Spike, op.Recv, n)
		vk.Class(fmt.Sprintf("luhist/spike=%d recv=%d", op.Spike, op.Recv))
		if recv != cur {
			l2, u2, _ := luRaw(cur)
			if !sameM(l2, origL) || !sameM(u2, origU) {
				return failf("orig-modified", "%s: the orig argument was modified", desc)
			}
		}
		// (|L| <= 1 need not hold after an update, so luFactors is not used here)
		L, U, piv := luRaw(recv)
		if len(piv) != n || L.r != n || U.r != n {
			return failf("rankone-dims", "%s: factors have the wrong size", desc)
		}
		for i := 0; i < n; i++ {
			if L.at(i, i) != 1 {
				return failf("rankone-l-unit-diagonal", "%s: L[%d,%d]=%v", desc, i, i, L.at(i, i))
			}
		}
		for i := range piv {
			if piv[i] != piv0[i] {
				return failf("rankone-pivots-changed", "%s: RowPivots changed from %v to %v (documented P*L'*U')", desc, piv0, piv)
			}
		}
		P := mul(L, U)
		R := newM(n, n)
		for i := 0; i < n; i++ {
			copy(R.d[i*n:(i+1)*n], P.d[piv[i]*n:(piv[i]+1)*n])
		}
		tol := cOrth * float64(n) * eps * scaleMax * float64(step+2)
		if d := frob(subM(R, An)); !leq(d, tol) {
			return failf("rankone-reconstruct", "%s: ||P*L*U - model||_F=%g exceeds %g", desc, d, tol)
		}
		refLog, refSign, inv, okr := luRef(An)
		if !okr {
			break
		}
		kinf := normInf(An) * normInf(inv)
		if op.Recv == 1 {
			tainted = true
		} else if op.Recv == 2 {
			tainted = false // receiver was produced by Factorize (ok == true)
		}
		cond := recv.Cond()
		if 1e3*float64(n)*eps*kinf < 0.1 && tol*frob(inv) < 1e-3 {
			if f := condLower("rankone-cond-lower", cond, normInf(An), inv.t(), kinf); f != nil {
				f.Msg = desc + ": " + f.Msg
				return f
			}
			if !(cond <= 4*float64(n)*kinf*(1+1e-3)) {
				return failf("rankone-cond-upper", "%s: Cond()=%g exceeds 4n*kappa_inf=%g", desc, cond, 4*float64(n)*kinf)
			}
		}
		// Det / LogDet / SolveTo of the updated factorization
		logdet, sign := recv.LogDet()
		tolLog := cOrth*float64(n)*eps*frob(An)*frob(inv)*float64(step+2) + 1e-13
		if tolLog < 0.1 {
			if !leq(math.Abs(logdet-refLog), tolLog) || sign != refSign {
				return failf("rankone-logdet", "%s: LogDet=%v,%v reference %v,%v", desc, logdet, sign, refLog, refSign)
			}
			det := recv.Det()
			want := refSign * math.Exp(refLog)
			b := genRHS(n, 2, osm)
			var xs mat.Dense
			err := recv.SolveTo(&xs, false, denseOf(b))
			if tainted && (det == 0 || err != nil) {
				lt.add(failf("rankone-other-receiver-flagged-singular", "%s: after RankOne into a receiver that was not produced by Factorize, Det()=%v (model %v) and SolveTo err=%v: the non-singularity flag of orig is not carried over", desc, det, want, err))
			} else {
				if math.Abs(refLog) < 600 && !leq(math.Abs(det-want), (2*tolLog+8*eps)*math.Abs(want)) {
					return failf("rankone-det", "%s: Det=%v reference %v", desc, det, want)
				}
				if err != nil {
					return failf("rankone-solve-error", "%s: SolveTo returned %v, kappa_inf=%g", desc, err, kinf)
				}
				X := toM(&xs)
				r, _ := residDD(An, X, b)
				for j := 0; j < 2; j++ {
					rt := tol*norm2(X.col(j)) + cOrth*float64(n)*eps*norm2(b.col(j))
					if !leq(norm2(r.col(j)), rt) {
						return failf("rankone-solve", "%s: ||b-A'x||=%g exceeds %g", desc, norm2(r.col(j)), rt)
					}
				}
			}
		}
		D, A, cur = Dn, An, recv
	}
	_ = A
	return lt.f
}

func TestLUHist(t *testing.T) {
	vk.Run(t, "luhist", vk.Opts{Quick: 1500, Thorough: 30000}, drawLUHist, checkLUHist)
}
