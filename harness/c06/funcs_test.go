package c06

import (
	"fmt"
	"math"
	"math/big"
	"testing"

	"gonum.org/v1/gonum/mat"
	"pgregory.net/rapid"
	"verifharness/vk"
)

// Dense.Inverse, Dense.Exp, Dense.Pow, SymDense.PowPSD against their definitions.

type funcCase struct {
	Fn    string // inverse, pow, exp, powpsd
	N     int
	Class string
	LogK  int
	Pow   int     // exponent of Pow
	P     float64 // exponent of PowPSD
	Norm  float64 // 1-norm of the argument of Exp
	AKind int
	Dst   int // empty, sized, view, alias (receiver == argument)
	Seed  uint64
}

func drawFunc(t *rapid.T) funcCase {
	c := funcCase{
		Fn:    rapid.SampledFrom([]string{"inverse", "inverse", "pow", "exp", "exp", "powpsd", "inversetri"}).Draw(t, "fn"),
		LogK:  rapid.SampledFrom([]int{0, 1, 3, 6}).Draw(t, "logk"),
		Pow:   rapid.IntRange(0, 9).Draw(t, "pow"),
		P:     rapid.SampledFrom([]float64{0.5, -0.5, 1, 2, -1, 0.3, 0, 3, -2}).Draw(t, "p"),
		Norm:  rapid.SampledFrom([]float64{0, 0.01, 0.014, 0.016, 0.2, 0.26, 0.9, 1, 2, 2.2, 5, 5.5, 12, 30}).Draw(t, "norm"),
		AKind: rapid.IntRange(0, 15).Draw(t, "akind"),
		Dst:   rapid.IntRange(0, dAliasT).Draw(t, "dst"),
		Seed:  vk.SeedGen(t, "seed"),
	}
	switch c.Fn {
	case "inverse":
		c.N = dimN(t, "n", 1)
		c.Class = rapid.SampledFrom([]string{"well", "well", "well", "sym-indef", "illcond", "zero-col", "zero-row"}).Draw(t, "class")
	case "pow":
		c.N = vk.Dim(t, "n", 1, 24, 8)
		c.Class = rapid.SampledFrom([]string{"general", "sym", "integer"}).Draw(t, "class")
	case "exp":
		c.N = vk.Dim(t, "n", 1, 10, 2, 4)
		c.Class = rapid.SampledFrom([]string{"general", "general", "sym", "nilpotent", "diag"}).Draw(t, "class")
	case "inversetri":
		c.N = vk.Dim(t, "n", 1, 30, 8, 16)
		c.Class = rapid.SampledFrom([]string{"well", "well", "zero-diag", "illcond"}).Draw(t, "class")
	case "powpsd":
		c.N = vk.Dim(t, "n", 1, 30, 8, 16)
		// A zero eigenvalue is on the boundary and in general undecidable in
		// floating point; the classes zero / diag-zero / block-zero are the
		// decidable part: EigenSym computes their smallest eigenvalue as exactly 0
		// (verified per case in the check), semidef is asserted only through the
		// computed eigenvalues.
		c.Class = rapid.SampledFrom([]string{"spd", "spd", "spd", "notpd", "zero", "diag-zero", "block-zero", "semidef"}).Draw(t, "class")
	}
	return c
}

// dAliasT is one more destination state of the matrix functions: the receiver is
// the argument's underlying matrix and the argument is its transpose, m.F(m.T()).
const dAliasT = nDst

func funcDstName(d int) string {
	if d == dAliasT {
		return "alias-transposed"
	}
	return dstNames[d]
}

// bigMat is an n×n matrix of 320-bit floats.
type bigMat struct {
	n int
	d []*big.Float
}

const bigPrec = 320

func newBig(n int) *bigMat {
	b := &bigMat{n, make([]*big.Float, n*n)}
	for i := range b.d {
		b.d[i] = new(big.Float).SetPrec(bigPrec)
	}
	return b
}

func (a *bigMat) mul(b *bigMat) *bigMat {
	n := a.n
	c := newBig(n)
	t := new(big.Float).SetPrec(bigPrec)
	for i := 0; i < n; i++ {
		for k := 0; k < n; k++ {
			aik := a.d[i*n+k]
			if aik.Sign() == 0 {
				continue
			}
			for j := 0; j < n; j++ {
				t.Mul(aik, b.d[k*n+j])
				c.d[i*n+j].Add(c.d[i*n+j], t)
			}
		}
	}
	return c
}

// expRef computes exp(A) by scaling, a Taylor series in 320-bit arithmetic and
// repeated squaring.
func expRef(A *M) *M {
	n := A.r
	s := 0
	for nrm := norm1(A); nrm > 0.5; nrm /= 2 {
		s++
	}
	X := newBig(n)
	for i, v := range A.d {
		X.d[i].SetFloat64(v)
		X.d[i].SetMantExp(X.d[i], -s)
	}
	sum, term := newBig(n), newBig(n)
	for i := 0; i < n; i++ {
		sum.d[i*n+i].SetInt64(1)
		term.d[i*n+i].SetInt64(1)
	}
	for k := 1; k < 200; k++ {
		term = term.mul(X)
		kk := new(big.Float).SetPrec(bigPrec).SetInt64(int64(k))
		small := true
		for i := range term.d {
			term.d[i].Quo(term.d[i], kk)
			sum.d[i].Add(sum.d[i], term.d[i])
			if term.d[i].Sign() != 0 && term.d[i].MantExp(nil) > -300 {
				small = false
			}
		}
		if small {
			break
		}
	}
	for ; s > 0; s-- {
		sum = sum.mul(sum)
	}
	R := newM(n, n)
	for i := range R.d {
		R.d[i], _ = sum.d[i].Float64()
	}
	return R
}

func checkFunc(c funcCase) *vk.Failure {
	n := c.N
	sm := vk.NewSplitMix(c.Seed)
	vk.Class("func/" + c.Fn + "/class=" + c.Class)
	vk.Class("func/" + c.Fn + "/dst=" + funcDstName(c.Dst))
	vk.Sample("func-"+c.Fn, c)
	fn := float64(n)

	// denseArg returns the argument and, for Dst == alias, uses it as receiver.
	run := func(A *M, st struc, call func(dst *mat.Dense, a mat.Matrix) error) (*M, error, string, *vk.Failure) {
		ak := pickKind(c.AKind, st)
		if n >= 2 && (ak != kDense || c.Dst != dEmpty || c.Class == "zero-col" || c.Class == "zero-row" || c.Class == "notpd") {
			vk.NonTrivial("func", c.Fn, n, c.Class, ak, c.Dst, c.Pow, c.P, c.Norm)
		}
		var a mat.Matrix
		var alias *mat.Dense
		dstState := c.Dst
		switch c.Dst {
		case dAlias:
			// m.F(m)
			if sm.Intn(2) == 0 {
				alias = denseOf(A)
			} else {
				alias = denseView(A, sm)
			}
			a = alias
			ak = kDense
		case dAliasT:
			// m.F(m.T()): m stores A', so that the argument is the logical A and
			// the expected result is F(A), computed from an explicit copy.
			if sm.Intn(2) == 0 {
				alias = denseOf(A.t())
			} else {
				alias = denseView(A.t(), sm)
			}
			a = alias.T()
			ak = kTrans
			dstState = dAlias
		default:
			a = mkMat(ak, A, st, sm)
		}
		dst, stt := mkDst(dstState, n, n, alias, sm)
		label := fmt.Sprintf("a=%s dst=%s", kindNames[ak], funcDstName(c.Dst))
		err := call(dst.d, a)
		if stt != dAlias && !sameM(toM(a), A) {
			return nil, err, label, failf(c.Fn+"-modified-a", "the argument was modified (%s)", label)
		}
		if err != nil {
			return nil, err, label, nil
		}
		X, f := dst.result(c.Fn)
		return X, nil, label, f
	}

	switch c.Fn {
	case "inverse":
		g := genSquare(c.Class, n, c.LogK, 0, sm)
		A := g.A
		X, err, label, f := run(A, g.st, func(dst *mat.Dense, a mat.Matrix) error { return dst.Inverse(a) })
		if f != nil {
			return f
		}
		{
			// Inverse and LU use the same Getrf/Gecon computation and norm: the
			// Condition error must agree with LU.Cond of the same matrix.
			var lu mat.LU
			lu.Factorize(denseOf(A))
			if fc := errIffCond("inverse", err, lu.Cond()); fc != nil {
				fc.Msg += fmt.Sprintf(" (class %s n=%d %s)", c.Class, n, label)
				return fc
			}
		}
		if g.singular {
			cv, ok := condOf(err)
			if !ok || !math.IsInf(cv, 1) {
				return failf("inverse-singular-no-error", "Inverse of an exactly singular matrix (class %s n=%d): err=%v (%s)", c.Class, n, err, label)
			}
			return nil
		}
		if err != nil {
			if _, ok := condOf(err); !ok {
				return failf("inverse-error-type", "error %v is not a mat.Condition", err)
			}
			if !g.ill {
				return failf("inverse-spurious-error", "Inverse returned %v for class %s logk=%d n=%d (%s)", err, c.Class, c.LogK, n, label)
			}
			return nil
		}
		if g.ill {
			return nil
		}
		if X.hasNaN() {
			return failf("inverse-nonfinite", "NaN/Inf in the inverse (%s)", label)
		}
		// Getri (Higham, ASNA 14.3, method B): |X A - I| <= c n eps |X||L||U|, so
		// ||X A - I||_F <= c n^2 eps ||X||_F ||A||_F for modest growth; the right
		// residual carries another factor kappa.
		kf := frob(A) * frob(X)
		Lr := mul(X, A)
		Rr := mul(A, X)
		for i := 0; i < n; i++ {
			Lr.d[i*n+i] -= 1
			Rr.d[i*n+i] -= 1
		}
		tol := cOrth * fn * fn * eps * kf
		if !leq(frob(Lr), tol) {
			return failf("inverse-left-residual", "n=%d class %s logk=%d: ||X*A-I||_F=%g exceeds %g (%s)", n, c.Class, c.LogK, frob(Lr), tol, label)
		}
		if !leq(frob(Rr), tol*kf) {
			return failf("inverse-right-residual", "n=%d class %s logk=%d: ||A*X-I||_F=%g exceeds %g (%s)", n, c.Class, c.LogK, frob(Rr), tol*kf, label)
		}
		return nil

	case "pow":
		A := newM(n, n)
		st := struc{band: -1}
		switch c.Class {
		case "general":
			sm.FillFinite(A.d)
		case "sym":
			sm.FillFinite(A.d)
			symmetrize(A)
			st.sym = true
		case "integer":
			for i := range A.d {
				A.d[i] = float64(sm.Intn(5) - 2)
			}
		}
		k := c.Pow
		X, err, label, f := run(A, st, func(dst *mat.Dense, a mat.Matrix) error { dst.Pow(a, k); return nil })
		_ = err
		if f != nil {
			return f
		}
		ref, refAbs := eyeM(n), eyeM(n)
		absA := A.abs()
		for i := 0; i < k; i++ {
			ref, _ = mulDD(ref, A)
			refAbs = mul(refAbs, absA)
		}
		for i := 0; i < n; i++ {
			for j := 0; j < n; j++ {
				tol := 4*float64(k+1)*float64(n+4)*eps*refAbs.at(i, j) + 1e-300
				if k <= 1 {
					tol = 0
				}
				if d := math.Abs(X.at(i, j) - ref.at(i, j)); !leq(d, tol) {
					return failf("pow", "n=%d class %s A^%d [%d,%d]=%v reference %v tol %g (%s)", n, c.Class, k, i, j, X.at(i, j), ref.at(i, j), tol, label)
				}
			}
		}
		if f := vk.MustPanic("pow-negative", func() { var d mat.Dense; d.Pow(denseOf(A), -1) }); f != nil {
			return f
		}
		return nil

	case "exp":
		A := newM(n, n)
		st := struc{band: -1}
		switch c.Class {
		case "general":
			sm.FillFinite(A.d)
		case "sym":
			sm.FillFinite(A.d)
			symmetrize(A)
			st.sym = true
		case "nilpotent":
			for i := 0; i < n; i++ {
				for j := i + 1; j < n; j++ {
					A.d[i*n+j] = sm.Finite()
				}
			}
		case "diag":
			for i := 0; i < n; i++ {
				A.d[i*n+i] = sm.Finite()
			}
		}
		if n1 := norm1(A); n1 > 0 {
			f := c.Norm / n1
			for i := range A.d {
				A.d[i] *= f
			}
		}
		n1 := norm1(A)
		vk.Class(fmt.Sprintf("func/exp/norm=%g", c.Norm))
		X, err, label, f := run(A, st, func(dst *mat.Dense, a mat.Matrix) error { dst.Exp(a); return nil })
		_ = err
		if f != nil {
			return f
		}
		ref := expRef(A)
		// exp(A+E) - exp(A) is bounded by ||E|| e^{||A||} e^{||E||}; a backward
		// error ||E|| <= C n eps ||A|| of the Pade / squaring evaluation gives
		tol := cOrth * fn * eps * (1 + n1) * math.Exp(n1)
		if d := frob(subM(X, ref)); !leq(d, tol) {
			return failf("exp", "n=%d class %s ||A||_1=%g: ||Exp(A)-ref||_F=%g exceeds %g (%s)", n, c.Class, n1, d, tol, label)
		}
		return nil

	case "inversetri":
		// TriDense.InverseTri: T*X = I, X of the same triangle kind, exactly
		// singular => Condition(+Inf), ill-conditioned => Condition error
		// (documented: "If a is ill-conditioned, a Condition error will be returned").
		upper := sm.Intn(2) == 0
		T := newM(n, n)
		for i := 0; i < n; i++ {
			for j := 0; j < n; j++ {
				if (upper && j > i) || (!upper && j < i) {
					T.d[i*n+j] = sm.Finite() / float64(n)
				}
			}
			T.d[i*n+i] = (1 + sm.Float()) * float64(1-2*sm.Intn(2))
		}
		switch c.Class {
		case "zero-diag":
			T.d[sm.Intn(n)*(n+1)] = 0
		case "illcond":
			T.d[sm.Intn(n)*(n+1)] *= 1e-22
		}
		kind := mat.Lower
		if upper {
			kind = mat.Upper
		}
		mkTri := func(X *M, k mat.TriKind) *mat.TriDense {
			td := mat.NewTriDense(n, k, nil)
			raw := td.RawTriangular()
			for i := range raw.Data {
				raw.Data[i] = nan // the other triangle must not be referenced
			}
			for i := 0; i < n; i++ {
				for j := 0; j < n; j++ {
					if (k == mat.Upper && j >= i) || (k == mat.Lower && j <= i) {
						td.SetTri(i, j, X.at(i, j))
					}
				}
			}
			return td
		}
		form := c.AKind % 4
		var a mat.Triangular
		var dst *mat.TriDense
		switch {
		case c.Dst == dAlias || c.Dst == dAliasT:
			td := mkTri(T, kind)
			a, dst = td, td
			form = 4
		case form == 0:
			a = mkTri(T, kind)
		case form == 1:
			// the transpose of a triangle of the other kind holding T'
			ok := mat.Upper
			if upper {
				ok = mat.Lower
			}
			a = mkTri(T.t(), ok).TTri()
		case form == 2 && upper:
			a = basicTri{basicMat{T.clone()}}
		default:
			a = mkTri(T, kind)
		}
		if dst == nil {
			if c.Dst == dSized || c.Dst == dView {
				dst = garbageTri(n, kind)
			} else {
				dst = &mat.TriDense{}
			}
		}
		vk.Class(fmt.Sprintf("func/inversetri/form=%d", form))
		if n >= 2 {
			vk.NonTrivial("func", c.Fn, n, c.Class, form, c.Dst, upper)
		}
		err := dst.InverseTri(a)
		desc := fmt.Sprintf("n=%d class %s upper=%v form=%d dst=%s", n, c.Class, upper, form, funcDstName(c.Dst))
		if c.Class == "zero-diag" {
			cv, ok := condOf(err)
			if !ok || !math.IsInf(cv, 1) {
				return failf("inversetri-singular-no-error", "%s: InverseTri of a triangular matrix with an exactly zero diagonal entry returned err=%v", desc, err)
			}
			return nil
		}
		_, _, inv, okInv := luRef(T)
		if !okInv {
			return nil
		}
		kinf := normInf(T) * normInf(inv)
		if err != nil {
			cv, ok := condOf(err)
			if !ok {
				return failf("inversetri-error-type", "%s: error %v is not a mat.Condition", desc, err)
			}
			if c.Class == "well" {
				return failf("inversetri-spurious-error", "%s: %v for kappa_inf=%g", desc, err, kinf)
			}
			if !(cv > mat.ConditionTolerance) {
				return failf("inversetri-error-value", "%s: Condition error %g does not exceed ConditionTolerance", desc, cv)
			}
			return nil
		}
		// no error: the condition estimate (which is at least ||T||*altLower) must
		// not exceed ConditionTolerance
		if lo := normInf(T) * altLower(inv.t()); lo > mat.ConditionTolerance*(1+1e-3) {
			return failf("inversetri-missed-condition-error", "%s: InverseTri returned nil although the condition estimate is at least %g (kappa_inf=%g) > ConditionTolerance; Dense.Inverse reports a Condition error for such input", desc, lo, kinf)
		}
		if c.Class != "well" {
			return nil
		}
		if k2, kk := dst.Triangle(); k2 != n || kk != kind {
			return failf("inversetri-shape", "%s: result is %d×%d kind %v", desc, k2, k2, kk)
		}
		X := triToM(dst)
		if X.hasNaN() {
			return failf("inversetri-nonfinite", "%s: NaN/Inf in the inverse", desc)
		}
		R := mul(T, X)
		for i := 0; i < n; i++ {
			R.d[i*n+i] -= 1
		}
		// triangular inversion: |T X - I| <= c n eps |T||X| (Higham, ASNA 14.2)
		tol := cOrth * fn * eps * frob(T) * frob(X)
		if !leq(frob(R), tol) {
			return failf("inversetri-residual", "%s: ||T*X-I||_F=%g exceeds %g", desc, frob(R), tol)
		}
		return nil

	case "powpsd":
		var g symGen
		switch c.Class {
		case "zero", "diag-zero", "block-zero", "semidef":
			g = symGen{A: newM(n, n), st: struc{sym: true, band: -1}}
			A := g.A
			switch c.Class {
			case "diag-zero", "block-zero":
				for i := 0; i < n; i++ {
					A.d[i*n+i] = float64(1 + sm.Intn(4))
				}
				if c.Class == "block-zero" && n >= 2 {
					// the singular block s*[[1,2],[2,4]] in rows/columns i < j
					p := sm.Perm(n)
					i, j := minInt(p[0], p[1]), maxInt(p[0], p[1])
					sc := math.Ldexp(1, sm.Intn(5)-2)
					A.d[i*n+i], A.d[i*n+j], A.d[j*n+i], A.d[j*n+j] = sc, 2*sc, 2*sc, 4*sc
				} else {
					for k := 0; k <= sm.Intn(2); k++ {
						i := sm.Intn(n)
						A.d[i*n+i] = 0
					}
				}
			case "semidef":
				lam := logSpaced(n, 1, 10, sm)
				lam[n-1] = 0
				g.A = genSym(n, lam, sm)
			}
		default:
			g = genSymClass(c.Class, n, minInt(c.LogK, 3), 0, sm)
		}
		A := g.A
		sk := pickSymKind(c.AKind, g.st)
		if n >= 2 && (sk != sSym || c.Dst != dEmpty || c.Class != "spd") {
			vk.NonTrivial("func", c.Fn, n, c.Class, sk, c.Dst, c.P)
		}
		// The smallest eigenvalue as EigenSym computes it for this very input.
		var es mat.EigenSym
		vmin := math.NaN()
		if es.Factorize(mkSym(sSym, A, g.st, sm), true) {
			vmin = es.Values(nil)[0]
		}
		switch c.Class {
		case "zero", "diag-zero", "block-zero":
			if vmin == 0 {
				vk.Class("func/powpsd/computed-lambda-min-exactly-zero")
			} else {
				vk.Class("func/powpsd/computed-lambda-min-not-exactly-zero")
			}
		}
		var as mat.Symmetric
		var dst *mat.SymDense
		state := c.Dst
		if state == dAliasT {
			state = dAlias // a symmetric matrix is its own transpose
		}
		switch state {
		case dAlias:
			d := mkSym(sSym, A, g.st, sm).(*mat.SymDense)
			// the lower triangle of a SymDense receiver is its own business
			as, dst = d, d
		case dSized, dView:
			as, dst = mkSym(sk, A, g.st, sm), garbageSym(n)
		default:
			as, dst = mkSym(sk, A, g.st, sm), &mat.SymDense{}
		}
		err := dst.PowPSD(as, c.P)
		if g.notpd {
			if err == nil {
				return failf("powpsd-notpd-accepted", "PowPSD returned nil error for class %s n=%d", c.Class, n)
			}
			return nil
		}
		// Decidable boundary: a matrix whose smallest eigenvalue is computed as
		// zero or negative by EigenSym is not positive definite for PowPSD, which
		// is built on the same EigenSym computation.
		if vmin <= 0 && err == nil {
			return failf("powpsd-nonpositive-eigenvalue-accepted", "PowPSD(a, %g) returned nil error although EigenSym computes the smallest eigenvalue of a as %v (class %s n=%d a=%s): documented to return an error if the matrix is not positive definite", c.P, vmin, c.Class, n, symKindNames[sk])
		}
		if err == nil {
			// never a silently non-finite result (lambda^p itself is finite here)
			if X := toM(dst); X.hasNaN() && math.Abs(c.P*math.Log(vmin)) < 600 {
				return failf("powpsd-nonfinite-result", "PowPSD(a, %g) returned nil error and a result with NaN/Inf (class %s n=%d lambda_min=%v)", c.P, c.Class, n, vmin)
			}
		}
		if c.Class != "spd" {
			return nil
		}
		if err != nil {
			return failf("powpsd-spurious-error", "PowPSD returned %v for an SPD matrix n=%d logk=%d", err, n, c.LogK)
		}
		lam, V := jacobiEig(A, true)
		ref := newM(n, n)
		var fmax float64
		for k := 0; k < n; k++ {
			fk := math.Pow(lam[k], c.P)
			if fk > fmax {
				fmax = fk
			}
			for i := 0; i < n; i++ {
				for j := 0; j < n; j++ {
					ref.d[i*n+j] += fk * V.at(i, k) * V.at(j, k)
				}
			}
		}
		kappa := lam[n-1] / lam[0]
		// ||f(A+E)-f(A)||_F <= max|f'| ||E||_F with f = x^p on [lmin, lmax]:
		// max|f'| ||A|| <= |p| kappa max f.
		tol := cOrth * fn * eps * (1 + math.Abs(c.P)) * kappa * fmax * math.Sqrt(fn)
		X := toM(dst)
		if d := frob(subM(X, ref)); !leq(d, tol) {
			return failf("powpsd", "n=%d p=%g kappa=%g: ||PowPSD-ref||_F=%g exceeds %g (dst=%s a=%s)", n, c.P, kappa, d, tol, funcDstName(c.Dst), symKindNames[sk])
		}
		return nil
	}
	return failf("bad-case", "fn %q", c.Fn)
}

func TestFuncs(t *testing.T) {
	vk.Run(t, "func", vk.Opts{Quick: 2700, Thorough: 75000}, drawFunc, checkFunc)
}
