package c06

import (
	"fmt"
	"math"
	"math/cmplx"
	"testing"

	"gonum.org/v1/gonum/mat"
	"pgregory.net/rapid"
	"verifharness/vk"
)

// Cross-consistency of Det / LogDet / Cond / Solve between the factorizations of
// one and the same matrix.

type crossCase struct {
	N     int
	Class string // band-spd, spd, general, sym-indef
	LogK  int
	Band  int
	Seed  uint64
}

func drawCross(t *rapid.T) crossCase {
	return crossCase{
		N:     vk.Dim(t, "n", 1, 40, 8, 16, 32),
		Class: rapid.SampledFrom([]string{"band-spd", "band-spd", "spd", "general", "sym-indef"}).Draw(t, "class"),
		LogK:  rapid.SampledFrom([]int{0, 1, 3, 5}).Draw(t, "logk"),
		Band:  rapid.IntRange(0, 5).Draw(t, "band"),
		Seed:  vk.SeedGen(t, "seed"),
	}
}

type named struct {
	name string
	v    float64
}

func checkCross(c crossCase) *vk.Failure {
	n := c.N
	fn := float64(n)
	sm := vk.NewSplitMix(c.Seed)
	vk.Class("cross/class=" + c.Class)
	vk.Sample("cross", c)
	if n >= 2 {
		vk.NonTrivial("cross", n, c.Class, c.LogK, c.Band, c.Seed%64)
	}
	var A *M
	spd := false
	band := -1
	switch c.Class {
	case "band-spd":
		band = minInt(c.Band, n-1)
		A = genBandSPD(n, band, sm)
		spd = true
	case "spd":
		A = genSym(n, logSpaced(n, math.Ldexp(1, sm.Intn(5)-2), math.Pow(10, float64(c.LogK)), sm), sm)
		spd = true
	case "general":
		A = genSigma(n, n, logSpaced(n, math.Ldexp(1, sm.Intn(5)-2), math.Pow(10, float64(c.LogK)), sm), sm)
	case "sym-indef":
		g := genSquare("sym-indef", n, c.LogK, 0, sm)
		A = g.A
	}
	sym := c.Class != "general"
	sv, _, _ := jacobiSVD(A)
	kappa2 := sv[0] / sv[n-1]
	if !(kappa2 < 1e9) {
		return nil
	}
	dA := denseOf(A)
	b := genRHS(n, 2, sm)
	dB := denseOf(b)

	var logs, conds []named
	var pcPiv []int
	var sols []struct {
		name string
		x    *M
	}
	addSol := func(name string, x *mat.Dense, err error) *vk.Failure {
		if err != nil {
			return failf("solve-error", "%s.SolveTo returned %v (kappa_2=%g)", name, err, kappa2)
		}
		sols = append(sols, struct {
			name string
			x    *M
		}{name, toM(x)})
		return nil
	}

	var lu mat.LU
	lu.Factorize(dA)
	ld, lsign := lu.LogDet()
	logs = append(logs, named{"LU", ld})
	conds = append(conds, named{"LU", lu.Cond()})
	{
		var x mat.Dense
		if f := addSol("LU", &x, lu.SolveTo(&x, false, dB)); f != nil {
			return f
		}
	}
	var qr mat.QR
	qr.Factorize(dA)
	{
		var x mat.Dense
		if f := addSol("QR", &x, qr.SolveTo(&x, false, dB)); f != nil {
			return f
		}
	}
	var svd mat.SVD
	if svd.Factorize(dA, mat.SVDFull) {
		var s float64
		for _, v := range svd.Values(nil) {
			s += math.Log(v)
		}
		logs = append(logs, named{"SVD", s})
		var x mat.Dense
		svd.SolveTo(&x, dB, n)
		sols = append(sols, struct {
			name string
			x    *M
		}{"SVD", toM(&x)})
		// SVD Cond is the 2-norm condition number
		if cd := svd.Cond(); !leq(math.Abs(cd-kappa2), cOrth*fn*eps*kappa2*kappa2+1e-300) {
			return failf("svd-cond", "SVD.Cond()=%g but sigma_max/sigma_min (Jacobi)=%g", cd, kappa2)
		}
	}
	var eg mat.Eigen
	if eg.Factorize(dA, mat.EigenNone) {
		prod := complex(1, 0)
		var s float64
		for _, v := range eg.Values(nil) {
			s += math.Log(cmplx.Abs(v))
			prod *= v / complex(cmplx.Abs(v), 0)
		}
		logs = append(logs, named{"Eigen", s})
		if real(prod)*lsign <= 0 {
			return failf("det-sign", "sign of LU determinant %v but the product of the eigenvalues has phase %v", lsign, prod)
		}
	}
	if sym {
		var es mat.EigenSym
		if es.Factorize(mat.NewSymDense(n, append([]float64(nil), A.d...)), false) {
			var s float64
			sg := 1.0
			for _, v := range es.Values(nil) {
				s += math.Log(math.Abs(v))
				if v < 0 {
					sg = -sg
				}
			}
			logs = append(logs, named{"EigenSym", s})
			if sg != lsign {
				return failf("det-sign", "sign of LU determinant %v but EigenSym values give %v", lsign, sg)
			}
		}
	}
	if spd {
		if lsign != 1 {
			return failf("det-sign", "LU.LogDet sign %v for an SPD matrix", lsign)
		}
		var ch mat.Cholesky
		if !ch.Factorize(mat.NewSymDense(n, append([]float64(nil), A.d...))) {
			return failf("chol-rejected", "Cholesky.Factorize returned false, kappa_2=%g", kappa2)
		}
		logs = append(logs, named{"Cholesky", ch.LogDet()})
		conds = append(conds, named{"Cholesky", ch.Cond()})
		var x mat.Dense
		if f := addSol("Cholesky", &x, ch.SolveTo(&x, dB)); f != nil {
			return f
		}
		var pc mat.PivotedCholesky
		if !pc.Factorize(mat.NewSymDense(n, append([]float64(nil), A.d...)), -1) {
			return failf("pivchol-rejected", "PivotedCholesky.Factorize returned false, kappa_2=%g", kappa2)
		}
		conds = append(conds, named{"PivotedCholesky", pc.Cond()})
		pcPiv = pc.ColumnPivots(nil)
		var x2 mat.Dense
		if f := addSol("PivotedCholesky", &x2, pc.SolveTo(&x2, dB)); f != nil {
			return f
		}
		if band >= 0 {
			var bc mat.BandCholesky
			if !bc.Factorize(mkSymBand(sbCompact, A, band, sm)) {
				return failf("bandchol-rejected", "BandCholesky.Factorize returned false, kappa_2=%g", kappa2)
			}
			logs = append(logs, named{"BandCholesky", bc.LogDet()})
			conds = append(conds, named{"BandCholesky", bc.Cond()})
			var x3 mat.Dense
			if f := addSol("BandCholesky", &x3, bc.SolveTo(&x3, dB)); f != nil {
				return f
			}
		}
	}
	// log|det| agree: d log det = tr(A^-1 dA), |dA| ~ C n eps ||A||
	tolLog := cOrth*fn*eps*kappa2*math.Sqrt(fn) + 1e-13
	for i := range logs {
		for j := i + 1; j < len(logs); j++ {
			if !leq(math.Abs(logs[i].v-logs[j].v), tolLog) {
				return failf("logdet-disagree", "n=%d class %s kappa_2=%g: log|det| from %s = %v but from %s = %v (tol %g)", n, c.Class, kappa2, logs[i].name, logs[i].v, logs[j].name, logs[j].v, tolLog)
			}
		}
	}
	// condition estimates: all estimate kappa_inf (= kappa_1 for symmetric input)
	// from below, kappa_inf <= n kappa_2; the lower side is the bound the
	// estimator always attains. Mutual agreement within estFactor is the usual
	// behaviour but not guaranteed: counted, not asserted.
	_, _, invA, okInv := luRef(A)
	for i := range conds {
		if !(conds[i].v <= fn*kappa2*(1+1e-6)) {
			return failf("cond-range", "n=%d class %s: %s.Cond()=%g exceeds n*kappa_2, kappa_2=%g", n, c.Class, conds[i].name, conds[i].v, kappa2)
		}
		if okInv {
			B := invA.t()
			if conds[i].name == "PivotedCholesky" {
				B = permSym(invA, pcPiv) // Pocon works on P'AP
			}
			if f := condLower("cond-range-"+conds[i].name, conds[i].v, normInf(A), B, kappa2/fn); f != nil {
				f.Msg = conds[i].name + ": " + f.Msg
				return f
			}
		}
		for j := i + 1; j < len(conds); j++ {
			lo, hi := math.Min(conds[i].v, conds[j].v), math.Max(conds[i].v, conds[j].v)
			if !(hi <= lo*estFactor*(1+1e-6)) {
				vk.Inconclusive("cond-estimates-differ-by-more-than-10")
			}
		}
	}
	// solutions agree: forward error of a backward stable solve is <= C n eps kappa ||x||;
	// the SVD solve and the others are compared with twice that.
	for i := range sols {
		for j := i + 1; j < len(sols); j++ {
			for k := 0; k < 2; k++ {
				xi, xj := sols[i].x.col(k), sols[j].x.col(k)
				var d float64
				for q := range xi {
					d += (xi[q] - xj[q]) * (xi[q] - xj[q])
				}
				tol := 2 * cOrth * fn * eps * kappa2 * math.Sqrt(fn) * math.Max(norm2(xi), norm2(xj))
				if !leq(math.Sqrt(d), tol+1e-300) {
					return failf("solution-disagree", "n=%d class %s kappa_2=%g rhs %d: ||x_%s - x_%s||=%g exceeds %g", n, c.Class, kappa2, k, sols[i].name, sols[j].name, math.Sqrt(d), tol)
				}
			}
		}
	}
	vk.Class(fmt.Sprintf("cross/logdets=%d conds=%d sols=%d", len(logs), len(conds), len(sols)))
	return nil
}

func TestCross(t *testing.T) {
	vk.Run(t, "cross", vk.Opts{Quick: 1800, Thorough: 45000}, drawCross, checkCross)
}
