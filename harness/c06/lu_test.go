package c06

import (
	"errors"
	"fmt"
	"math"
	"testing"

	"gonum.org/v1/gonum/mat"
	"pgregory.net/rapid"
	"verifharness/vk"
)

// estFactor is the usual quality of the Hager/Higham 1-norm estimator used by
// Gecon/Pocon/Trcon/Pbcon (LAPACK Users' Guide 4.1.1: "almost always within a
// factor of 3"). It is NOT a guarantee: for A^-1 with columns of alternating
// sign the estimate can be an order of magnitude too small (a 5×5 SPD witness
// with factor 12.6 was found by this harness and reproduced with an independent
// implementation of the algorithm). A Cond below kappa/estFactor is therefore
// only counted as inconclusive; the hard lower bound is altLower.
const estFactor = 10.0

// altLower returns a rigorous lower bound on the estimate of ||B||_1 produced by
// the Hager/Higham iteration (Dlacn2): its result is max(est, 2*||B*b||_1/(3n))
// with b_i = (-1)^i (1 + i/(n-1)), so it is at least the second term. For the
// infinity-norm condition number (CondNorm = MaxRowSum) B is the transpose of
// the inverse, for the 1-norm it is the inverse itself.
func altLower(B *M) float64 {
	n := B.r
	if n == 1 {
		return math.Abs(B.d[0])
	}
	var s float64
	for i := 0; i < n; i++ {
		var acc float64
		for j := 0; j < n; j++ {
			b := 1 + float64(j)/float64(n-1)
			if j%2 == 1 {
				b = -b
			}
			acc += B.d[i*n+j] * b
		}
		s += math.Abs(acc)
	}
	return 2 * s / (3 * float64(n))
}

// permSym returns B[p[i]][p[j]] (the inverse of P'AP from the inverse of A).
func permSym(B *M, p []int) *M {
	n := B.r
	R := newM(n, n)
	for i := 0; i < n; i++ {
		for j := 0; j < n; j++ {
			R.d[i*n+j] = B.d[p[i]*n+p[j]]
		}
	}
	return R
}

// condLower checks the lower side of a reported condition number: anorm is a
// lower bound of the norm the routine multiplies with, B as for altLower, kappa
// the exact condition number in the estimator's norm.
func condLower(what string, cond, anorm float64, B *M, kappa float64) *vk.Failure {
	if lo := anorm * altLower(B) * (1 - 1e-3); !(cond >= lo) {
		return failf(what, "Cond()=%g is below ||A||*2||A^-1 b||/(3n)=%g, which the condition estimator attains for every matrix (exact kappa %g)", cond, lo, kappa)
	}
	if !(cond >= kappa*(1-1e-3)/estFactor) {
		vk.Inconclusive("cond-estimate-below-kappa/10")
	}
	return nil
}

// condOf extracts a mat.Condition from err.
func condOf(err error) (float64, bool) {
	var c mat.Condition
	if errors.As(err, &c) {
		return float64(c), true
	}
	return 0, false
}

// errIffCond checks the documented link between the Condition error and Cond():
// a solve reports a Condition error exactly when the stored condition number
// exceeds ConditionTolerance (mat/errors.go: "If the condition number is above
// this value, the matrix is considered singular").
func errIffCond(what string, err error, cond float64) *vk.Failure {
	if err == nil && cond > mat.ConditionTolerance {
		return failf(what+"-missed-condition-error", "Cond()=%g exceeds ConditionTolerance but no error was returned", cond)
	}
	if err != nil && !(cond > mat.ConditionTolerance) {
		return failf(what+"-error-without-condition", "error %v although Cond()=%g does not exceed ConditionTolerance", err, cond)
	}
	return nil
}

// sqGen describes a generated square matrix.
type sqGen struct {
	A        *M
	st       struc
	singular bool // exactly singular by construction (LU must meet an exact zero pivot)
	ill      bool // kappa about 1/eps: nothing is asserted about accuracy
}

var luClasses = []string{"well", "well", "well", "sym-indef", "band", "illcond", "zero-col", "zero-row", "dup-row"}

func genSquare(class string, n, logk, band int, sm *vk.SplitMix) sqGen {
	g := sqGen{st: struc{band: -1}}
	kappa := math.Pow(10, float64(logk))
	scale := math.Ldexp(1, sm.Intn(7)-3)
	switch class {
	case "well", "zero-col", "zero-row", "dup-row":
		g.A = genSigma(n, n, logSpaced(n, scale, kappa, sm), sm)
	case "illcond":
		g.A = genSigma(n, n, logSpaced(n, scale, 1e16, sm), sm)
		g.ill = n > 1
	case "sym-indef":
		lam := logSpaced(n, scale, kappa, sm)
		for i := range lam {
			if sm.Intn(2) == 0 {
				lam[i] = -lam[i]
			}
		}
		g.A = genSym(n, lam, sm)
		g.st.sym = true
	case "band":
		if band > n-1 {
			band = n - 1
		}
		a := newM(n, n)
		for i := 0; i < n; i++ {
			var s float64
			for j := maxInt(0, i-band); j <= minInt(n-1, i+band); j++ {
				if j != i {
					a.d[i*n+j] = sm.Finite()
					s += math.Abs(a.d[i*n+j])
				}
			}
			a.d[i*n+i] = (1 + s + sm.Float()) * float64(1-2*sm.Intn(2))
		}
		g.A = a
		g.st.band = band
	default:
		panic("c06: class " + class)
	}
	switch class {
	case "zero-col":
		j := sm.Intn(n)
		for i := 0; i < n; i++ {
			g.A.d[i*n+j] = 0
		}
		g.singular = true
	case "zero-row":
		i := sm.Intn(n)
		for j := 0; j < n; j++ {
			g.A.d[i*n+j] = 0
		}
		g.singular = true
	case "dup-row":
		if n >= 2 {
			p := sm.Perm(n)
			copy(g.A.d[p[1]*n:(p[1]+1)*n], g.A.d[p[0]*n:(p[0]+1)*n])
			// Singular in exact arithmetic, but Dgetf2 scales by the reciprocal
			// of the pivot, so the multiplier of the twin row need not be exactly
			// 1 and no exact zero pivot is guaranteed: treated as kappa ~ 1/eps.
			g.ill = true
		}
	}
	return g
}

func genRHS(r, c int, sm *vk.SplitMix) *M {
	b := newM(r, c)
	sm.FillFinite(b.d)
	return b
}

type luCase struct {
	N     int
	Class string
	LogK  int // log10 of the prescribed 2-norm condition number (class well / sym-indef)
	Band  int
	opnd
	Seed uint64
}

func drawLU(t *rapid.T) luCase {
	c := luCase{
		N:     dimN(t, "n", 1),
		Class: rapid.SampledFrom(luClasses).Draw(t, "class"),
		LogK:  rapid.SampledFrom([]int{0, 1, 3, 6}).Draw(t, "logk"),
		Band:  rapid.IntRange(0, 4).Draw(t, "band"),
		opnd:  drawOpnd(t, 6),
		Seed:  vk.SeedGen(t, "seed"),
	}
	return c
}

// triToM copies a TriDense to an M (zeros in the other triangle come from At).
func triToM(t mat.Triangular) *M {
	n, _ := t.Triangle()
	m := newM(n, n)
	for i := 0; i < n; i++ {
		for j := 0; j < n; j++ {
			m.d[i*n+j] = t.At(i, j)
		}
	}
	return m
}

// garbageTri returns an n×n TriDense of the given kind pre-filled with garbage.
func garbageTri(n int, kind mat.TriKind) *mat.TriDense {
	d := make([]float64, n*n)
	for i := range d {
		d[i] = garbage
	}
	return mat.NewTriDense(n, kind, d)
}

func isPerm(p []int) bool {
	seen := make([]bool, len(p))
	for _, v := range p {
		if v < 0 || v >= len(p) || seen[v] {
			return false
		}
		seen[v] = true
	}
	return true
}

// luFactors extracts and validates L, U, piv of a factorization. sized selects
// pre-sized destinations.
func luFactors(lu *mat.LU, n int, sized bool) (L, U *M, piv []int, f *vk.Failure) {
	var lt, ut *mat.TriDense
	if sized {
		lt, ut = garbageTri(n, mat.Lower), garbageTri(n, mat.Upper)
	} else {
		lt, ut = &mat.TriDense{}, &mat.TriDense{}
	}
	ret := lu.LTo(lt)
	if ret != lt {
		return nil, nil, nil, failf("lto-return", "LTo did not return its destination")
	}
	lu.UTo(ut)
	if k, kind := lt.Triangle(); k != n || kind != mat.Lower {
		return nil, nil, nil, failf("lto-shape", "LTo gave %d×%d kind %v", k, k, kind)
	}
	if k, kind := ut.Triangle(); k != n || kind != mat.Upper {
		return nil, nil, nil, failf("uto-shape", "UTo gave %d×%d kind %v", k, k, kind)
	}
	L, U = triToM(lt), triToM(ut)
	for i := 0; i < n; i++ {
		if L.at(i, i) != 1 {
			return nil, nil, nil, failf("l-unit-diagonal", "L[%d,%d]=%v, want 1", i, i, L.at(i, i))
		}
		for j := 0; j < i; j++ {
			if !(math.Abs(L.at(i, j)) <= 1) {
				return nil, nil, nil, failf("l-multiplier-bound", "L[%d,%d]=%v exceeds 1 in magnitude (partial pivoting)", i, j, L.at(i, j))
			}
		}
	}
	if sized {
		piv = lu.RowPivots(make([]int, n))
	} else {
		piv = lu.RowPivots(nil)
	}
	if len(piv) != n || !isPerm(piv) {
		return nil, nil, nil, failf("pivots-not-permutation", "RowPivots=%v", piv)
	}
	old := lu.Pivot(nil)
	for i := range piv {
		if old[i] != piv[i] {
			return nil, nil, nil, failf("pivot-vs-rowpivots", "Pivot=%v RowPivots=%v", old, piv)
		}
	}
	return L, U, piv, nil
}

// luReconstruct checks |A - P*L*U| <= 2*gamma_n*|L||U| componentwise, where row
// i of A is row piv[i] of L*U (the meaning of RowPivots / Dense.PermuteRows).
// It returns S = |L||U|.
func luReconstruct(A, L, U *M, piv []int) (*M, *vk.Failure) {
	n := A.r
	P, S := mulDD(L, U)
	g := 2 * float64(n+4) * eps
	for i := 0; i < n; i++ {
		for j := 0; j < n; j++ {
			d := math.Abs(A.at(i, j) - P.at(piv[i], j))
			tol := g*S.at(piv[i], j) + 1e-300
			if !leq(d, tol) {
				return S, failf("reconstruct", "n=%d |A-P*L*U|[%d,%d]=%g exceeds 2*gamma_n*(|L||U|)=%g (A=%v LU=%v)", n, i, j, d, tol, A.at(i, j), P.at(piv[i], j))
			}
		}
	}
	return S, nil
}

// luResidual checks the componentwise backward error of a solve with op(A):
// |b - op(A) x| <= 2*gamma_3n * (|L||U| aligned with op(A)) * |x|.
func luResidual(what string, A, S *M, piv []int, trans bool, x, b *M) *vk.Failure {
	n := A.r
	if x.hasNaN() {
		return failf(what+"-nonfinite", "solution contains NaN/Inf although no error was returned")
	}
	opA := A
	if trans {
		opA = A.t()
	}
	r, _ := residDD(opA, x, b)
	g := 2 * float64(3*n+5) * eps
	for c := 0; c < x.c; c++ {
		for i := 0; i < n; i++ {
			var bound float64
			for j := 0; j < n; j++ {
				var s float64
				if trans {
					s = S.at(piv[j], i)
				} else {
					s = S.at(piv[i], j)
				}
				bound += s * math.Abs(x.at(j, c))
			}
			tol := g*bound + 1e-300
			if !leq(math.Abs(r.at(i, c)), tol) {
				return failf(what+"-backward-error", "n=%d trans=%v rhs %d row %d: |b-op(A)x|=%g exceeds 2*gamma_3n*(|L||U||x|)=%g", n, trans, c, i, math.Abs(r.at(i, c)), tol)
			}
		}
	}
	return nil
}

func checkLU(c luCase) *vk.Failure {
	n := c.N
	sm := vk.NewSplitMix(c.Seed)
	g := genSquare(c.Class, n, c.LogK, c.Band, sm)
	A := g.A
	ak := pickKind(c.AKind, g.st)
	vk.Class("lu/class=" + c.Class)
	vk.Class("lu/a=" + kindNames[ak])
	vk.Sample("lu", c)
	if n >= 2 && (c.opnd.nontrivial(ak) || g.singular) {
		vk.NonTrivial("lu", n, c.Class, ak, c.BKind, c.Dst, c.Trans, c.Vec, c.Nrhs)
	}

	am := mkMat(ak, A, g.st, sm)
	var lu mat.LU
	if sm.Intn(4) == 0 {
		// a receiver that already holds a factorization of another size
		lu.Factorize(mat.NewDense(2, 2, []float64{4, 1, 2, 3}))
	}
	lu.Factorize(am)
	if !sameM(toM(am), A) {
		return failf("factorize-modified-a", "Factorize changed its argument (%s)", kindNames[ak])
	}
	if r, cc := lu.Dims(); r != n || cc != n {
		return failf("dims", "Dims=%d,%d want %d", r, cc, n)
	}
	L, U, piv, f := luFactors(&lu, n, sm.Intn(2) == 0)
	if f != nil {
		return f
	}
	S, f := luReconstruct(A, L, U, piv)
	if f != nil {
		return f
	}
	// At agrees with the reconstruction.
	for k := 0; k < 4; k++ {
		i, j := sm.Intn(n), sm.Intn(n)
		tol := 4*float64(n+4)*eps*S.at(piv[i], j) + 1e-300
		if d := math.Abs(lu.At(i, j) - A.at(i, j)); !leq(d, tol) {
			return failf("at", "LU.At(%d,%d)=%v, A=%v, tol %g", i, j, lu.At(i, j), A.at(i, j), tol)
		}
	}

	refLog, refSign, inv, refOK := luRef(A)
	logdet, sign := lu.LogDet()
	det := lu.Det()
	cond := lu.Cond()
	if g.singular {
		vk.Class("lu/singular")
		if det != 0 {
			return failf("det-singular", "class %s: Det=%v, want 0", c.Class, det)
		}
		if !math.IsInf(logdet, -1) {
			return failf("logdet-singular", "class %s: LogDet=%v, want -Inf", c.Class, logdet)
		}
		if !math.IsInf(cond, 1) {
			return failf("cond-singular", "class %s: Cond=%v, want +Inf", c.Class, cond)
		}
	} else if !g.ill && refOK {
		invF := frob(inv)
		tolLog := 2*math.Sqrt(float64(n))*float64(n+4)*eps*frob(S)*invF + 1e-14
		var sumAbsLog float64
		for i := 0; i < n; i++ {
			sumAbsLog += math.Abs(math.Log(math.Abs(U.at(i, i))))
		}
		tolLog += 4 * float64(n) * eps * sumAbsLog
		if tolLog < 0.1 {
			if !leq(math.Abs(logdet-refLog), tolLog) {
				return failf("logdet", "n=%d LogDet=%v reference %v tol %g", n, logdet, refLog, tolLog)
			}
			if sign != refSign {
				return failf("logdet-sign", "n=%d sign=%v reference %v (piv=%v)", n, sign, refSign, piv)
			}
			if math.Abs(refLog) < 600 {
				want := refSign * math.Exp(refLog)
				if !leq(math.Abs(det-want), (2*tolLog+8*eps)*math.Abs(want)) {
					return failf("det", "n=%d Det=%v reference %v", n, det, want)
				}
			}
		}
		// Cond is the infinity-norm condition number (CondNorm = MaxRowSum).
		kinf := normInf(A) * normInf(inv)
		relRef := 1e3 * float64(n) * eps * kinf
		if relRef < 0.1 {
			if !(cond <= kinf*(1+relRef)) {
				return failf("cond-upper", "n=%d Cond=%g exceeds kappa_inf=%g", n, cond, kinf)
			}
			if f := condLower("cond-lower", cond, normInf(A), inv.t(), kinf); f != nil {
				return f
			}
		}
	}

	// Solve.
	var b *M
	if sm.Intn(2) == 0 {
		x0 := genRHS(n, c.Nrhs, sm)
		if c.Trans {
			b = mul(A.t(), x0)
		} else {
			b = mul(A, x0)
		}
	} else {
		b = genRHS(n, c.Nrhs, sm)
	}
	x, err, label, f := solveCall("solve", c.opnd, n, b, sm,
		func(dst *mat.Dense, bm mat.Matrix) error { return lu.SolveTo(dst, c.Trans, bm) },
		func(dst *mat.VecDense, bv mat.Vector) error { return lu.SolveVecTo(dst, c.Trans, bv) })
	vk.Class("lu/" + label)
	if f := errIffCond("solve", err, cond); f != nil {
		f.Msg += " (class " + c.Class + " " + label + ")"
		return f
	}
	if g.singular {
		cv, ok := condOf(err)
		if !ok || !math.IsInf(cv, 1) {
			return failf("solve-singular-no-error", "class %s n=%d: SolveTo returned err=%v for an exactly singular matrix, want Condition(+Inf) (%s)", c.Class, n, err, label)
		}
		return nil
	}
	if f != nil {
		return f
	}
	if err != nil {
		cv, ok := condOf(err)
		if !ok {
			return failf("solve-error-type", "error %v is not a mat.Condition", err)
		}
		if !g.ill {
			return failf("solve-spurious-error", "class %s n=%d logk=%d: SolveTo returned %v for a well-conditioned matrix (%s)", c.Class, n, c.LogK, err, label)
		}
		if !(cv > mat.ConditionTolerance) {
			return failf("solve-error-value", "Condition error %g does not exceed ConditionTolerance (Cond()=%g)", cv, cond)
		}
		vk.Class("lu/illcond-error")
		return nil
	}
	if g.ill {
		vk.Class("lu/illcond-solved")
		if x.hasNaN() {
			return nil // overflow in a nearly singular solve is not a silent wrong answer: no claim
		}
	}
	if f := luResidual("solve", A, S, piv, c.Trans, x, b); f != nil {
		f.Msg += " (" + label + ")"
		return f
	}
	return nil
}

func TestLU(t *testing.T) {
	vk.Run(t, "lu", vk.Opts{Quick: 4000, Thorough: 120000}, drawLU, checkLU)
}

var _ = fmt.Sprint
