package c06

import (
	"fmt"
	"math"
	"testing"

	"gonum.org/v1/gonum/mat"
	"pgregory.net/rapid"
	"verifharness/vk"
)

var svdKinds = []mat.SVDKind{
	mat.SVDNone, mat.SVDThinU, mat.SVDFullU, mat.SVDThinV, mat.SVDFullV,
	mat.SVDThin, mat.SVDFull, mat.SVDThinU | mat.SVDFullV, mat.SVDFullU | mat.SVDThinV,
	mat.SVDFull, mat.SVDThin, mat.SVDFull, // the solvable kinds more often
}

type svdCase struct {
	M, N  int
	Class string
	LogK  int
	Kind  int // index into svdKinds
	Reuse bool
	opnd
	Seed uint64
}

func drawSVD(t *rapid.T) svdCase {
	c := svdCase{
		M:     dimN(t, "m", 1),
		N:     dimN(t, "n", 1),
		Class: rapid.SampledFrom([]string{"well", "well", "well", "well", "illcond", "rankdef", "zero", "allzero"}).Draw(t, "class"),
		LogK:  rapid.SampledFrom([]int{0, 1, 3, 6}).Draw(t, "logk"),
		Kind:  rapid.IntRange(0, len(svdKinds)-1).Draw(t, "kind"),
		Reuse: rapid.IntRange(0, 3).Draw(t, "reuse") == 0,
		opnd:  drawOpnd(t, 5),
		Seed:  vk.SeedGen(t, "seed"),
	}
	if rapid.IntRange(0, 3).Draw(t, "square") == 0 {
		c.N = c.M
	}
	return c
}

// scaleFail multiplies the tolerance part of the LS / min-norm oracles: see
// checkSVD for why the SVD solve carries a factor kappa_2.
func lsOracleK(what string, T, x, b *M, factor float64) *vk.Failure {
	if x.hasNaN() {
		return failf(what+"-nonfinite", "solution contains NaN/Inf")
	}
	e := cOrth * float64(maxInt(T.r, T.c)) * eps * factor
	r, _ := residDD(T, x, b)
	g := mul(T.t(), r)
	tf := frob(T)
	for c := 0; c < x.c; c++ {
		tol := e * tf * (2*norm2(b.col(c)) + tf*norm2(x.col(c)))
		if got := norm2(g.col(c)); !leq(got, tol+1e-300) {
			return failf(what+"-normal-equations", "%d×%d rhs %d: ||T'(b-Tx)||=%g exceeds %g", T.r, T.c, c, got, tol)
		}
	}
	return nil
}

func mnOracleK(what string, W, x, b *M, kappa2, factor float64) *vk.Failure {
	if x.hasNaN() {
		return failf(what+"-nonfinite", "solution contains NaN/Inf")
	}
	e := cOrth * float64(maxInt(W.r, W.c)) * eps
	r, _ := residDD(W, x, b)
	wf := frob(W)
	for c := 0; c < x.c; c++ {
		tol := factor * e * (wf*norm2(x.col(c)) + norm2(b.col(c)))
		if got := norm2(r.col(c)); !leq(got, tol+1e-300) {
			return failf(what+"-residual", "%d×%d rhs %d: ||b-Wx||=%g exceeds %g", W.r, W.c, c, got, tol)
		}
	}
	if W.r == W.c {
		return nil
	}
	Q := orthBasis(W.t())
	d := subM(x, mul(Q, mul(Q.t(), x)))
	kf := kappa2 * math.Sqrt(float64(minInt(W.r, W.c)))
	for c := 0; c < x.c; c++ {
		tol := 2 * e * kf * norm2(x.col(c))
		if got := norm2(d.col(c)); !leq(got, tol+1e-300) {
			return failf(what+"-not-minimum-norm", "%d×%d rhs %d: component of x outside the row space %g exceeds %g", W.r, W.c, c, got, tol)
		}
	}
	return nil
}

func checkSVD(c svdCase) *vk.Failure {
	var lt late
	f := checkSVDInner(c, &lt)
	// Open finding: for numerically rank-deficient input with min(m,n) > 128 (the
	// blocked bidiagonalisation path of Dgesvd) the singular vectors lose
	// orthogonality. Failures on such inputs are collected under one key so that
	// all other inputs stay checked with the precise keys.
	if f != nil && (c.Class == "rankdef" || c.Class == "zero") && minInt(c.M, c.N) > 128 {
		f.Msg = f.Key + ": " + f.Msg
		f.Key = "rankdef-blocked-path"
	}
	if f == nil {
		f = lt.f
	}
	return f
}

// ---- documented behaviour after a failed factorization ------------------------

// A Factorize that returns false must leave the receiver in the "no
// factorization" state: Kind() == -1 and the accessors panic (documented on
// SVD.Factorize and SVD.Kind). The only inputs known to make Gesvd fail are
// non-finite; nothing is asserted when Factorize returns true.
type svdFailCase struct {
	M, N  int
	Pos   int
	Kind  int
	Reuse bool
}

func checkSVDFail(c svdFailCase) *vk.Failure {
	vk.Sample("svd-failed", c)
	a := mat.NewDense(c.M, c.N, nil)
	for i := 0; i < c.M; i++ {
		for j := 0; j < c.N; j++ {
			a.Set(i, j, float64(1+(i*c.N+j)%7))
		}
	}
	a.Set(c.Pos/c.N%c.M, c.Pos%c.N, math.NaN())
	var svd mat.SVD
	if c.Reuse {
		svd.Factorize(mat.NewDense(2, 2, []float64{1, 2, 3, 5}), mat.SVDFull)
	}
	var fok bool
	if res := vk.Call(func() { fok = svd.Factorize(a, svdKinds[c.Kind]) }); res.Outcome != vk.Returned {
		// e.g. "lapack: cfrom is NaN": a non-finite input is outside the domain of
		// the property, only the ok == false contract is of interest here
		vk.Class("svd-failed/factorize-panicked")
		return nil
	}
	if fok {
		vk.Class("svd-failed/factorize-returned-true")
		return nil
	}
	vk.Class("svd-failed/factorize-returned-false")
	vk.NonTrivial("svd-failed", c.M, c.N, c.Pos, c.Kind, c.Reuse)
	if k := svd.Kind(); k != -1 {
		return failf("kind-after-failure", "Factorize returned false but Kind()=%d, documented -1 when no decomposition has been computed", k)
	}
	if f := vk.MustPanic("values-after-failure", func() { svd.Values(nil) }); f != nil {
		return f
	}
	if f := vk.MustPanic("cond-after-failure", func() { svd.Cond() }); f != nil {
		return f
	}
	return vk.MustPanic("uto-after-failure", func() { var d mat.Dense; svd.UTo(&d) })
}

func TestSVDFailed(t *testing.T) {
	var cases []svdFailCase
	for _, mn := range [][2]int{{1, 1}, {3, 3}, {4, 2}, {2, 5}} {
		for pos := 0; pos < mn[0]*mn[1]; pos += 3 {
			for _, kind := range []int{0, 5, 6} {
				for _, reuse := range []bool{false, true} {
					cases = append(cases, svdFailCase{mn[0], mn[1], pos, kind, reuse})
				}
			}
		}
	}
	vk.Enumerate(t, "svd-failed", len(cases), func(i int) svdFailCase { return cases[i] }, checkSVDFail)
}

func checkSVDInner(c svdCase, lt *late) *vk.Failure {
	m, n := c.M, c.N
	k := minInt(m, n)
	mx := maxInt(m, n)
	sm := vk.NewSplitMix(c.Seed)
	g := genRect(c.Class, m, n, c.LogK, m < n, sm)
	A := g.A
	kind := svdKinds[c.Kind]
	ak := pickKind(c.AKind, struc{band: -1})
	vk.Class("svd/class=" + c.Class)
	vk.Class(fmt.Sprintf("svd/kind=%d", int(kind)))
	vk.Class("svd/a=" + kindNames[ak])
	vk.Sample("svd", c)
	if k >= 2 && (c.opnd.nontrivial(ak) || g.singular || c.Class == "rankdef") {
		vk.NonTrivial("svd", m, n, c.Class, int(kind), ak, c.BKind, c.Dst, c.Vec, c.Nrhs)
	}
	am := mkMat(ak, A, struc{band: -1}, sm)
	var svd mat.SVD
	if c.Reuse {
		svd.Factorize(mat.NewDense(3, 2, []float64{1, 2, 3, 4, 5, 7}), mat.SVDFull)
	} else if svd.Kind() != -1 {
		return failf("kind-before-factorize", "Kind()=%d on a zero SVD, documented -1", svd.Kind())
	}
	if !svd.Factorize(am, kind) {
		vk.Inconclusive("svd-factorize-returned-false")
		return nil
	}
	if !sameM(toM(am), A) {
		return failf("factorize-modified-a", "Factorize changed its argument (%s)", kindNames[ak])
	}
	if svd.Kind() != kind {
		return failf("kind", "Kind()=%d want %d", svd.Kind(), kind)
	}
	var s []float64
	if sm.Intn(2) == 0 {
		s = svd.Values(nil)
	} else {
		s = svd.Values(make([]float64, k))
	}
	if len(s) != k {
		return failf("values-len", "len(Values)=%d want %d", len(s), k)
	}
	smax := g.sigma[0]
	tolS := cOrth * float64(mx) * eps * smax
	for i := range s {
		if !(s[i] >= 0) || (i > 0 && !(s[i] <= s[i-1])) {
			return failf("values-order", "Values not non-negative descending at %d: %v", i, s)
		}
		if c.Class != "zero" && !leq(math.Abs(s[i]-g.sigma[i]), tolS+0) {
			return failf("values", "%d×%d sigma[%d]=%g prescribed %g tol %g", m, n, i, s[i], g.sigma[i], tolS)
		}
	}
	if cond := svd.Cond(); s[k-1] != 0 {
		if !sameBits(cond, s[0]/s[k-1]) {
			return failf("cond", "Cond()=%v but Values give %v", cond, s[0]/s[k-1])
		}
	} else if !math.IsInf(cond, 1) {
		// A zero smallest singular value means singular: the condition number is
		// +Inf as LU/Cholesky/QR report it. 0/0 (zero matrix) must not surface as
		// NaN, which passes every "cond > tolerance" test silently, nor x/-0 as
		// -Inf. Reported behind the rest of the case.
		lt.add(failf("cond-singular", "%d×%d class %s: SVD.Cond()=%v although the smallest singular value is %v (largest %v): want +Inf", m, n, c.Class, cond, s[k-1], s[0]))
	}
	// Rank(rcond) is documented as the count of singular values greater than rcond scaled by
	// the largest one; evaluated from Values at rcond = 0 (only exactly zero values are dropped),
	// at thresholds that coincide with a singular value, and at 1 (seeded change C06-13: `<=`
	// turned into `<`, which only shows when a value equals the threshold exactly).
	for _, rc := range []float64{0, 1e-10, 1, s[k-1] / s[0], s[k/2] / s[0]} {
		if math.IsNaN(rc) {
			continue // zero matrix: 0/0
		}
		want := 0
		for _, v := range s {
			if v > rc*s[0] {
				want++
			}
		}
		if r := svd.Rank(rc); r != want {
			return failf("rank-definition", "%d×%d class %s: Rank(%g)=%d but %d singular values exceed %g*s[0] (values %v)", m, n, c.Class, rc, r, want, rc, s)
		}
	}
	if c.Class == "well" || c.Class == "rankdef" {
		if r := svd.Rank(1e-10); r != g.rank {
			return failf("rank", "Rank(1e-10)=%d, constructed rank %d (values %v)", r, g.rank, s)
		}
	}
	hasU := kind&(mat.SVDThinU|mat.SVDFullU) != 0
	hasV := kind&(mat.SVDThinV|mat.SVDFullV) != 0
	var U, V *M
	var f *vk.Failure
	if hasU {
		uc := k
		if kind&mat.SVDFullU != 0 {
			uc = m
		}
		if U, f = extractDense("uto", sm.Intn(3), m, uc, sm, svd.UTo); f != nil {
			return f
		}
		if d := orthoDefect(U); !leq(d, cOrth*float64(mx)*eps) {
			return failf("u-not-orthonormal", "%d×%d kind %d: ||U'U-I||_F=%g", m, n, kind, d)
		}
	} else if f := vk.MustPanic("uto-without-u", func() { var d mat.Dense; svd.UTo(&d) }); f != nil {
		return f
	}
	if hasV {
		vc := k
		if kind&mat.SVDFullV != 0 {
			vc = n
		}
		if V, f = extractDense("vto", sm.Intn(3), n, vc, sm, svd.VTo); f != nil {
			return f
		}
		if d := orthoDefect(V); !leq(d, cOrth*float64(mx)*eps) {
			return failf("v-not-orthonormal", "%d×%d kind %d: ||V'V-I||_F=%g", m, n, kind, d)
		}
	} else if f := vk.MustPanic("vto-without-v", func() { var d mat.Dense; svd.VTo(&d) }); f != nil {
		return f
	}
	tolA := cOrth * float64(mx) * eps * frob(A)
	if hasU && hasV {
		// A = U[:, :k] diag(s) V[:, :k]'
		us := newM(m, k)
		for i := 0; i < m; i++ {
			for j := 0; j < k; j++ {
				us.d[i*k+j] = U.at(i, j) * s[j]
			}
		}
		vt := newM(k, n)
		for i := 0; i < n; i++ {
			for j := 0; j < k; j++ {
				vt.d[j*n+i] = V.at(i, j)
			}
		}
		if d := frob(subM(A, mul(us, vt))); !leq(d, tolA) {
			return failf("reconstruct", "%d×%d kind %d: ||A-U*S*V'||_F=%g tol %g", m, n, kind, d, tolA)
		}
	} else if hasU {
		// U'A has rows of norm s_i
		p := mul(U.t(), A)
		for i := 0; i < k; i++ {
			if d := math.Abs(norm2(p.d[i*n:(i+1)*n]) - s[i]); !leq(d, tolA) {
				return failf("reconstruct-u", "%d×%d: ||u_%d'A||=%g s=%g", m, n, i, norm2(p.d[i*n:(i+1)*n]), s[i])
			}
		}
	} else if hasV {
		p := mul(A, V)
		for j := 0; j < k; j++ {
			if d := math.Abs(norm2(p.col(j)) - s[j]); !leq(d, tolA) {
				return failf("reconstruct-v", "%d×%d: ||A v_%d||=%g s=%g", m, n, j, norm2(p.col(j)), s[j])
			}
		}
	}

	// SolveTo / SolveVecTo
	rank := g.rank
	if c.Class == "zero" || c.Class == "allzero" {
		rank = svd.Rank(1e-10)
		if rank < 1 {
			return nil
		}
	}
	if c.Class == "illcond" {
		rank = k
	}
	b := genRHS(m, c.Nrhs, sm)
	if sm.Intn(2) == 0 {
		b = mul(A, genRHS(n, c.Nrhs, sm))
	}
	if !hasU || !hasV {
		return vk.MustPanic("solve-without-vectors", func() { var d mat.Dense; svd.SolveTo(&d, denseOf(b), rank) })
	}
	var resid []float64
	x, err, label, f := solveCall("solve", c.opnd, n, b, sm,
		func(dst *mat.Dense, bm mat.Matrix) error { resid = svd.SolveTo(dst, bm, rank); return nil },
		func(dst *mat.VecDense, bv mat.Vector) error {
			resid = []float64{svd.SolveVecTo(dst, bv, rank)}
			return nil
		})
	_ = err
	vk.Class("svd/" + label)
	if f != nil {
		return f
	}
	if len(resid) != c.Nrhs {
		return failf("solve-residual-len", "len(residuals)=%d want %d", len(resid), c.Nrhs)
	}
	if c.Class == "illcond" {
		return nil // forward error is unbounded; nothing documented to assert
	}
	what := "solve"
	if rank == k && c.Class == "well" {
		// x = V S^-1 U' b is evaluated explicitly: forward-stable, so the residual
		// based oracles carry a factor kappa_2 (see comment in lsOracleK callers).
		if m >= n {
			if f := lsOracleK(what, A, x, b, g.kappa2); f != nil {
				f.Msg += " (" + label + ")"
				return f
			}
		}
		if m <= n {
			if f := mnOracleK(what, A, x, b, g.kappa2, g.kappa2); f != nil {
				f.Msg += " (" + label + ")"
				return f
			}
		}
		if m >= n {
			// least-squares solutions from QR and SVD agree (Wedin):
			// ||dx|| <= e*kappa*(||x|| + kappa*||r||/||A||_2), doubled for two methods.
			var qr mat.QR
			qr.Factorize(denseOf(A))
			var xq mat.Dense
			if err := qr.SolveTo(&xq, false, denseOf(b)); err == nil {
				XQ := toM(&xq)
				r, _ := residDD(A, x, b)
				e := cOrth * float64(mx) * eps
				for j := 0; j < c.Nrhs; j++ {
					tol := 4 * e * g.kappa2 * (norm2(x.col(j)) + g.kappa2*norm2(r.col(j))/smax)
					if d := norm2(subM(XQ, x).col(j)); !leq(d, tol+1e-300) {
						return failf("qr-svd-disagree", "%d×%d kappa=%g rhs %d: ||x_qr-x_svd||=%g tol %g", m, n, g.kappa2, j, d, tol)
					}
				}
			}
		}
	} else if mx <= 40 {
		// truncated solution against the harness's Jacobi SVD
		sj, UJ, VJ := jacobiSVD(A)
		if rank < k && !(sj[rank] <= 1e-10*sj[0]) {
			return nil
		}
		xr := newM(n, c.Nrhs)
		for j := 0; j < c.Nrhs; j++ {
			bj := b.col(j)
			for i := 0; i < rank; i++ {
				var dot float64
				for r := 0; r < m; r++ {
					dot += UJ.at(r, i) * bj[r]
				}
				dot /= sj[i]
				for r := 0; r < n; r++ {
					xr.d[r*c.Nrhs+j] += VJ.at(r, i) * dot
				}
			}
		}
		sr := sj[rank-1]
		for j := 0; j < c.Nrhs; j++ {
			tol := 20 * cOrth * float64(mx) * eps * frob(A) * norm2(b.col(j)) / (sr * sr)
			if d := norm2(subM(xr, x).col(j)); !leq(d, tol+1e-300) {
				return failf("solve-truncated", "%d×%d rank %d rhs %d: ||x-x_ref||=%g tol %g (%s)", m, n, rank, j, d, tol, label)
			}
		}
		vk.Class("svd/solve-truncated")
	}
	// residuals are documented valid with SVDFullU
	if kind&mat.SVDFullU != 0 && !g.ill && c.Class == "well" {
		r, _ := residDD(A, x, b)
		e := cOrth * float64(mx) * eps * g.kappa2
		for j := 0; j < c.Nrhs; j++ {
			nb := norm2(b.col(j))
			want := norm2(r.col(j))
			want *= want
			tol := 4 * e * (frob(A)*norm2(x.col(j)) + nb) * nb
			if !leq(math.Abs(resid[j]-want), tol+1e-300) {
				return failf("solve-residual-value", "%d×%d rhs %d: returned residual %g, ||b-Ax||^2=%g tol %g", m, n, j, resid[j], want, tol)
			}
		}
	}
	return nil
}

func TestSVD(t *testing.T) {
	vk.Run(t, "svd", vk.Opts{Quick: 3000, Thorough: 90000}, drawSVD, checkSVD)
}
