package c06

import (
	"fmt"
	"math"
	"testing"

	"gonum.org/v1/gonum/mat"
	"pgregory.net/rapid"
	"verifharness/vk"
)

var gsvdKinds = []mat.GSVDKind{
	mat.GSVDAll, mat.GSVDAll, mat.GSVDAll, mat.GSVDAll, mat.GSVDAll, mat.GSVDAll, mat.GSVDAll, mat.GSVDNone,
	mat.GSVDU, mat.GSVDV, mat.GSVDQ, mat.GSVDU | mat.GSVDV, mat.GSVDU | mat.GSVDQ, mat.GSVDV | mat.GSVDQ,
}

type gsvdCase struct {
	R, P, C int
	Class   string
	Kind    int
	Reuse   bool
	AKind   int
	BKind   int
	Dst     int
	Seed    uint64
}

func drawGSVD(t *rapid.T) gsvdCase {
	return gsvdCase{
		R:     vk.Dim(t, "r", 1, 30, 8, 16),
		P:     vk.Dim(t, "p", 1, 30, 8, 16),
		C:     vk.Dim(t, "c", 1, 30, 8, 16),
		Class: rapid.SampledFrom([]string{"dense", "dense", "dense", "finite", "zero-cols", "b-rank1", "a-zero"}).Draw(t, "class"),
		Kind:  rapid.IntRange(0, len(gsvdKinds)-1).Draw(t, "kind"),
		Reuse: rapid.IntRange(0, 3).Draw(t, "reuse") == 0,
		AKind: rapid.IntRange(0, 4).Draw(t, "akind"),
		BKind: rapid.IntRange(0, 4).Draw(t, "bkind"),
		Dst:   rapid.IntRange(0, 2).Draw(t, "dst"),
		Seed:  vk.SeedGen(t, "seed"),
	}
}

func checkGSVD(c gsvdCase) *vk.Failure {
	f := checkGSVDInner(c)
	if f == nil || !(c.Class != "dense" || c.R+c.P < c.C) {
		return f
	}
	// Column-rank-deficient [A;B]: see the comment on sfx below. Symptoms other
	// than the named ones are collected under one key.
	switch f.Key {
	case "reconstruct-a-rankdef", "reconstruct-b-rankdef", "zeror-structure-rankdef", "factorize-panic-rankdef", "factorize-partial-kind-panic":
	default:
		f.Msg = f.Key + ": " + f.Msg
		f.Key = "structure-rankdef"
	}
	return f
}

func checkGSVDInner(c gsvdCase) *vk.Failure {
	r, p, n := c.R, c.P, c.C
	sm := vk.NewSplitMix(c.Seed)
	A, B := newM(r, n), newM(p, n)
	if c.Class == "dense" {
		// generic entries: rank decisions do not depend on column pivoting
		for i := range A.d {
			A.d[i] = sm.Norm()
		}
		for i := range B.d {
			B.d[i] = sm.Norm()
		}
	} else {
		sm.FillFinite(A.d) // small integers and dyadic values, exact zeros occur
		sm.FillFinite(B.d)
	}
	switch c.Class {
	case "zero-cols":
		for k := 0; k < 1+n/4; k++ {
			j := sm.Intn(n)
			for i := 0; i < r; i++ {
				A.d[i*n+j] = 0
			}
			for i := 0; i < p; i++ {
				B.d[i*n+j] = 0
			}
		}
	case "b-rank1":
		u, v := make([]float64, p), make([]float64, n)
		for i := range u {
			u[i] = float64(sm.Intn(7) - 3)
		}
		for j := range v {
			v[j] = float64(sm.Intn(7) - 3)
		}
		for i := 0; i < p; i++ {
			for j := 0; j < n; j++ {
				B.d[i*n+j] = u[i] * v[j]
			}
		}
	case "a-zero":
		for i := range A.d {
			A.d[i] = 0
		}
	}
	kind := gsvdKinds[c.Kind]
	// [A;B] column-rank deficient (by class or by shape): failures there get their
	// own keys, because gonum's Dggsvp3 has open findings on such inputs and the
	// full-rank behaviour must stay checked behind them.
	sfx := ""
	if c.Class != "dense" || r+p < n {
		sfx = "-rankdef"
		vk.Class("gsvd/rank-deficient-stack")
	}
	vk.Class("gsvd/class=" + c.Class)
	vk.Class(fmt.Sprintf("gsvd/kind=%d", int(kind)))
	vk.Sample("gsvd", c)
	if minInt(r, minInt(p, n)) >= 2 && (c.AKind != kDense || c.BKind != kDense || c.Dst != dEmpty || c.Class != "dense") {
		vk.NonTrivial("gsvd", r, p, n, c.Class, int(kind), c.AKind, c.BKind, c.Dst)
	}
	am := mkMat(c.AKind%5, A, struc{band: -1}, sm)
	bm := mkMat(c.BKind%5, B, struc{band: -1}, sm)
	var gs mat.GSVD
	if c.Reuse {
		gs.Factorize(mat.NewDense(3, 2, []float64{1, 2, 3, 4, 5, 7}), mat.NewDense(2, 2, []float64{2, 1, 0, 3}), mat.GSVDAll)
	} else if gs.Kind() != -1 {
		return failf("kind-before-factorize", "Kind()=%d on a zero GSVD, documented -1", gs.Kind())
	}
	var ok bool
	res := vk.Call(func() { ok = gs.Factorize(am, bm, kind) })
	if res.Outcome != vk.Returned {
		partial := kind != mat.GSVDNone && kind != mat.GSVDAll
		if partial && res.Outcome == vk.PackagePanic {
			return failf("factorize-partial-kind-panic", "GSVD.Factorize(%d×%d, %d×%d, kind=%d) panicked: %s; the documentation allows any combination of GSVDU, GSVDV, GSVDQ", r, n, p, n, kind, res.Text)
		}
		return failf("factorize-panic"+sfx, "GSVD.Factorize(%d×%d, %d×%d, kind=%d): %v %s", r, n, p, n, kind, res.Outcome, res.Text)
	}
	if !ok {
		vk.Inconclusive("gsvd-factorize-returned-false")
		return nil
	}
	if !sameM(toM(am), A) || !sameM(toM(bm), B) {
		return failf("factorize-modified-input", "Factorize changed an argument")
	}
	if gs.Kind() != kind {
		return failf("kind", "Kind()=%d want %d", gs.Kind(), kind)
	}
	k, l := gs.Rank()
	if k < 0 || l < 0 || k+l > n || l > p {
		return failf("rank-range", "Rank()=%d,%d for A %d×%d, B %d×%d", k, l, r, n, p, n)
	}
	d := minInt(r, n)
	if d-k < 0 {
		return failf("rank-range", "k=%d exceeds min(r,c)=%d", k, d)
	}
	sa, sb, gv := gs.ValuesA(nil), gs.ValuesB(make([]float64, d-k)), gs.GeneralizedValues(nil)
	if len(sa) != d-k || len(sb) != d-k || len(gv) != d-k {
		return failf("values-len", "lengths %d %d %d want %d", len(sa), len(sb), len(gv), d-k)
	}
	for i := range gv {
		if !sameBits(gv[i], sa[i]/sb[i]) {
			return failf("generalized-values", "GeneralizedValues[%d]=%v but ValuesA/ValuesB=%v", i, gv[i], sa[i]/sb[i])
		}
	}
	mx := maxInt(r, maxInt(p, n))
	tolO := cOrth * float64(mx) * eps
	var U, V, Q *M
	var f *vk.Failure
	type part struct {
		name string
		bit  mat.GSVDKind
		n    int
		to   func(*mat.Dense)
		out  **M
	}
	for _, pt := range []part{{"u", mat.GSVDU, r, gs.UTo, &U}, {"v", mat.GSVDV, p, gs.VTo, &V}, {"q", mat.GSVDQ, n, gs.QTo, &Q}} {
		if kind&pt.bit == 0 {
			if f := vk.MustPanic(pt.name+"to-not-computed", func() { var dd mat.Dense; pt.to(&dd) }); f != nil {
				return f
			}
			continue
		}
		if *pt.out, f = extractDense(pt.name+"to", c.Dst, pt.n, pt.n, sm, pt.to); f != nil {
			return f
		}
		if dd := orthoDefect(*pt.out); !leq(dd, tolO) {
			return failf(pt.name+"-not-orthogonal", "A %d×%d B %d×%d: ||%s'%s-I||_F=%g", r, n, p, n, pt.name, pt.name, dd)
		}
	}
	if k+l == 0 {
		// [0 R] would be 0×c, which mat cannot represent (ErrZeroLength): no claim.
		vk.Class("gsvd/rank-zero")
		return nil
	}
	ZR, f := extractDense("zerorto", c.Dst, k+l, n, sm, gs.ZeroRTo)
	if f != nil {
		return f
	}
	S1, f := extractDense("sigmaato", c.Dst, r, k+l, sm, gs.SigmaATo)
	if f != nil {
		return f
	}
	S2, f := extractDense("sigmabto", c.Dst, p, k+l, sm, gs.SigmaBTo)
	if f != nil {
		return f
	}
	// [0 R]: leading c-k-l columns zero, R upper triangular
	for i := 0; i < k+l; i++ {
		for j := 0; j < n-k-l+i; j++ {
			if ZR.at(i, j) != 0 {
				return failf("zeror-structure"+sfx, "[0 R][%d,%d]=%v, expected zero (k=%d l=%d c=%d)", i, j, ZR.at(i, j), k, l, n)
			}
		}
	}
	// Sigma matrices are "diagonal" with the documented entries
	for i := 0; i < r; i++ {
		for j := 0; j < k+l; j++ {
			v := S1.at(i, j)
			if i != j && v != 0 {
				return failf("sigmaa-structure", "SigmaA[%d,%d]=%v off the diagonal", i, j, v)
			}
			if i == j && i < k && v != 1 {
				return failf("sigmaa-structure", "SigmaA[%d,%d]=%v want 1 (k=%d)", i, j, v, k)
			}
			if i == j && i >= k && i-k < len(sa) && v != sa[i-k] {
				return failf("sigmaa-values", "SigmaA[%d,%d]=%v but ValuesA[%d]=%v", i, j, v, i-k, sa[i-k])
			}
		}
	}
	for i := 0; i < p; i++ {
		for j := 0; j < k+l; j++ {
			v := S2.at(i, j)
			if j != i+k && v != 0 {
				return failf("sigmab-structure", "SigmaB[%d,%d]=%v off the shifted diagonal (k=%d)", i, j, v, k)
			}
			if j == i+k && i < len(sb) && i < minInt(l, r-k) && v != sb[i] {
				return failf("sigmab-values", "SigmaB[%d,%d]=%v but ValuesB[%d]=%v", i, j, v, i, sb[i])
			}
		}
	}
	if kind != mat.GSVDAll {
		return nil
	}
	tol := cOrth*float64(mx)*eps*(frob(A)+frob(B)) + 1e-300
	RA := mul(mul(U, S1), mul(ZR, Q.t()))
	if dd := frob(subM(A, RA)); !leq(dd, tol) {
		return failf("reconstruct-a"+sfx, "A %d×%d B %d×%d class %s k=%d l=%d: ||A-U*S1*[0 R]*Q'||_F=%g tol %g", r, n, p, n, c.Class, k, l, dd, tol)
	}
	RB := mul(mul(V, S2), mul(ZR, Q.t()))
	if dd := frob(subM(B, RB)); !leq(dd, tol) {
		return failf("reconstruct-b"+sfx, "A %d×%d B %d×%d class %s k=%d l=%d: ||B-V*S2*[0 R]*Q'||_F=%g tol %g", r, n, p, n, c.Class, k, l, dd, tol)
	}
	return nil
}

func TestGSVD(t *testing.T) {
	vk.Run(t, "gsvd", vk.Opts{Quick: 2000, Thorough: 45000}, drawGSVD, checkGSVD)
}

// ---- HOGSVD ------------------------------------------------------------------

type hogsvdCase struct {
	C     int
	Rows  []int // row counts of the matrices (each >= C unless Class says otherwise)
	Class string
	LogK  int
	Reuse bool
	AKind int
	Dst   int
	Seed  uint64
}

func drawHOGSVD(t *rapid.T) hogsvdCase {
	c := hogsvdCase{
		C:     vk.Dim(t, "c", 1, 30, 8, 16),
		Class: rapid.SampledFrom([]string{"well", "well", "well", "zero-col", "wide"}).Draw(t, "class"),
		LogK:  rapid.SampledFrom([]int{0, 1, 2}).Draw(t, "logk"),
		Reuse: rapid.IntRange(0, 3).Draw(t, "reuse") == 0,
		AKind: rapid.IntRange(0, 4).Draw(t, "akind"),
		Dst:   rapid.IntRange(0, 2).Draw(t, "dst"),
		Seed:  vk.SeedGen(t, "seed"),
	}
	k := rapid.IntRange(2, 4).Draw(t, "nmat")
	for i := 0; i < k; i++ {
		c.Rows = append(c.Rows, c.C+rapid.IntRange(0, 6).Draw(t, "extra"))
	}
	return c
}

func checkHOGSVD(c hogsvdCase) *vk.Failure {
	n := c.C
	sm := vk.NewSplitMix(c.Seed)
	vk.Class("hogsvd/class=" + c.Class)
	vk.Class(fmt.Sprintf("hogsvd/nmat=%d", len(c.Rows)))
	vk.Sample("hogsvd", c)
	if n >= 2 && (c.AKind != kDense || c.Dst != dEmpty || c.Class != "well") {
		vk.NonTrivial("hogsvd", n, fmt.Sprint(c.Rows), c.Class, c.AKind, c.Dst)
	}
	rows := append([]int(nil), c.Rows...)
	bad := sm.Intn(len(rows))
	if c.Class == "wide" {
		if n == 1 {
			return nil
		}
		rows[bad] = n - 1
	}
	Ms := make([]*M, len(rows))
	ops := make([]mat.Matrix, len(rows))
	for i, r := range rows {
		k := minInt(r, n)
		Ms[i] = genSigma(r, n, logSpaced(k, 1, math.Pow(10, float64(c.LogK)), sm), sm)
		if c.Class == "zero-col" && i == bad {
			j := sm.Intn(n)
			for q := 0; q < r; q++ {
				Ms[i].d[q*n+j] = 0
			}
		}
		ops[i] = mkMat(c.AKind%5, Ms[i], struc{band: -1}, sm)
	}
	var h mat.HOGSVD
	if c.Reuse {
		h.Factorize(mat.NewDense(3, 2, []float64{1, 2, 3, 4, 5, 7}), mat.NewDense(2, 2, []float64{2, 1, 0, 3}))
	}
	var ok bool
	if res := vk.Call(func() { ok = h.Factorize(ops...) }); res.Outcome == vk.RuntimeFault {
		return failf("factorize-runtime-fault", "HOGSVD.Factorize (c=%d rows=%v logk=%d) ended in a runtime fault: %s", n, rows, c.LogK, res.Text)
	} else if res.Outcome != vk.Returned {
		return failf("factorize-panic", "HOGSVD.Factorize (c=%d rows=%v): %s", n, rows, res.Text)
	}
	for i := range ops {
		if !sameM(toM(ops[i]), Ms[i]) {
			return failf("factorize-modified-input", "Factorize changed argument %d", i)
		}
	}
	if c.Class != "well" {
		if ok {
			return failf("invalid-accepted", "HOGSVD.Factorize returned true for class %s (rows %v, c=%d)", c.Class, rows, n)
		}
		if h.Err() == nil {
			return failf("err-nil-after-failure", "Factorize returned false but Err() is nil")
		}
		if h.Len() != 0 {
			return failf("len-after-failure", "Factorize returned false but Len()=%d, documented 0", h.Len())
		}
		if f := vk.MustPanic("vto-after-failure", func() { var d mat.Dense; h.VTo(&d) }); f != nil {
			return f
		}
		return nil
	}
	if !ok {
		// With (nearly) equal generalized values the eigenvectors of S are not
		// unique and V may come out ill-conditioned; Factorize then reports the
		// failure through ok/Err, which the property allows. Not decidable here.
		if h.Err() == nil || h.Len() != 0 {
			return failf("failure-not-reported", "Factorize returned false but Err()=%v Len()=%d", h.Err(), h.Len())
		}
		vk.Inconclusive("hogsvd-factorize-returned-false")
		return nil
	}
	if h.Len() != len(rows) {
		return failf("len", "Len()=%d want %d", h.Len(), len(rows))
	}
	V, f := extractDense("vto", c.Dst, n, n, sm, h.VTo)
	if f != nil {
		return f
	}
	if V.hasNaN() {
		return failf("v-nonfinite", "V contains NaN/Inf")
	}
	for i, r := range rows {
		U, f := extractDense("uto", c.Dst, r, n, sm, func(d *mat.Dense) { h.UTo(d, i) })
		if f != nil {
			return f
		}
		var s []float64
		if sm.Intn(2) == 0 {
			s = h.Values(nil, i)
		} else {
			s = h.Values(make([]float64, n), i)
		}
		if len(s) != n {
			return failf("values-len", "len(Values)=%d want %d", len(s), n)
		}
		B := newM(r, n)
		for q := 0; q < r; q++ {
			for j := 0; j < n; j++ {
				B.d[q*n+j] = U.at(q, j) * s[j]
			}
		}
		for j := 0; j < n; j++ {
			if !(s[j] > 0) {
				return failf("values-sign", "matrix %d value %d = %v is not positive", i, j, s[j])
			}
			if nr := norm2(U.col(j)); !leq(math.Abs(nr-1), 100*float64(r)*eps) {
				return failf("u-column-norm", "matrix %d: column %d of U has norm %v", i, j, nr)
			}
		}
		// M_i' = V B_i' is solved by LU: normwise backward error c*eps*||V||*||B||.
		tol := cOrth * float64(maxInt(r, n)) * eps * frob(V) * frob(B)
		if d := frob(subM(Ms[i], mul(B, V.t()))); !leq(d, tol+1e-300) {
			return failf("reconstruct", "matrix %d (%d×%d) of %d: ||M-U*S*V'||_F=%g tol %g", i, r, n, len(rows), d, tol)
		}
	}
	if f := vk.MustPanic("uto-bad-index", func() { var d mat.Dense; h.UTo(&d, len(rows)) }); f != nil {
		return f
	}
	return nil
}

func TestHOGSVD(t *testing.T) {
	vk.Run(t, "hogsvd", vk.Opts{Quick: 1200, Thorough: 30000}, drawHOGSVD, checkHOGSVD)
}
