package c12

import (
	"math"

	"gonum.org/v1/gonum/graph"
	"verifharness/vk"
)

// ---- kinds of container under test ------------------------------------------

const (
	kSD  = iota // simple.DirectedGraph
	kSU         // simple.UndirectedGraph
	kSWD        // simple.WeightedDirectedGraph
	kSWU        // simple.WeightedUndirectedGraph
	kDM         // simple.DirectedMatrix
	kUM         // simple.UndirectedMatrix
	kMD         // multi.DirectedGraph
	kMU         // multi.UndirectedGraph
	kMWD        // multi.WeightedDirectedGraph
	kMWU        // multi.WeightedUndirectedGraph
	nKinds
)

type kindInfo struct {
	name                             string
	directed, weighted, multi, dense bool
}

var kinds = [nKinds]kindInfo{
	kSD:  {"simple.DirectedGraph", true, false, false, false},
	kSU:  {"simple.UndirectedGraph", false, false, false, false},
	kSWD: {"simple.WeightedDirectedGraph", true, true, false, false},
	kSWU: {"simple.WeightedUndirectedGraph", false, true, false, false},
	kDM:  {"simple.DirectedMatrix", true, true, false, true},
	kUM:  {"simple.UndirectedMatrix", false, true, false, true},
	kMD:  {"multi.DirectedGraph", true, false, true, false},
	kMU:  {"multi.UndirectedGraph", false, false, true, false},
	kMWD: {"multi.WeightedDirectedGraph", true, true, true, false},
	kMWU: {"multi.WeightedUndirectedGraph", false, true, true, false},
}

// ---- operations -----------------------------------------------------------------

const (
	opAddNode    = iota // AddNode(pn{A, T})
	opNewNode           // NewNode() then AddNode of it (T odd: NewNode only, result dropped)
	opRemoveNode        // RemoveNode(A)
	opSetEdge           // SetEdge / SetWeightedEdge / SetLine / SetWeightedLine (A,B,L,W,T)
	opSetUnit           // dense only: SetEdge (unit weight) (A,B,T)
	opNewLine           // multi only: NewLine / NewWeightedLine(A,B,W) then SetLine of it (T odd: NewLine only)
	opRemoveEdge        // RemoveEdge(A,B) (simple, dense)
	opRemoveLine        // RemoveLine(A,B,L) (multi)
	opNodeWithID        // NodeWithID(A); T odd: AddNode of the result when new
	nOps
)

var opNames = [nOps]string{"AddNode", "NewNode", "RemoveNode", "SetEdge", "SetUnitEdge", "NewLine", "RemoveEdge", "RemoveLine", "NodeWithID"}

// Op is one operation of a history. A and B index the ID universe of the case,
// L indexes the line ID universe, W is the weight, T selects the payloads
// (node tags 2T and 2T+1, edge tag T) and the variant of the operation.
type Op struct {
	K    int
	A, B int
	L    int
	W    vk.F
	T    int
}

// Case is a complete history against one container.
type Case struct {
	Kind int
	// Universe: UK=0: IDs 0..NU-1; UK=1: the 64 ID universe bigU (negative IDs
	// included, the documentation of the map backed types does not restrict
	// IDs); dense kinds: 0..N-1 followed by denseOutside.
	UK, NU int
	NL     int // number of line IDs of lineU in use (multi)
	// constructor arguments
	N            int  // dense: number of nodes
	FromNodes    bool // dense: NewXMatrixFrom with payload nodes in the order given by Seed
	Seed         uint64
	Init         vk.F // dense
	Self, Absent vk.F // dense and weighted simple
	EWF          int  // weighted multi: 0 nil EdgeWeightFunc (sum), 1 max
	// adapters
	Merge int  // UndirectWeighted.Merge: 0 nil (mean), 1 max, 2 sum
	UAbs  vk.F // UndirectWeighted.Absent
	// CheckFrom is the index of the first step after which all queries are
	// compared with the model (0: every step).
	CheckFrom int
	Ops       []Op
}

var bigU = func() []int64 {
	u := []int64{0, 1, math.MaxInt64, 1<<62 - 1, 1 << 31, 2, -1, 3,
		math.MinInt64, math.MaxInt64 - 1, 1<<31 - 1, 1 << 32, 1<<63 - 3, -2, 1 << 62, 1<<31 + 1}
	for i := int64(4); len(u) < 64; i++ {
		u = append(u, i)
	}
	return u
}()

var denseOutside = []int64{-1, math.MaxInt64, 1 << 31, math.MinInt64, 1<<62 - 1}

var lineU = []int64{0, 1, 2, math.MaxInt64, -1, 1 << 31}

func (c *Case) universe() []int64 {
	ki := &kinds[c.Kind]
	if ki.dense {
		u := make([]int64, 0, c.N+2+len(denseOutside))
		for i := 0; i < c.N+2; i++ { // N and N+1 are the nearest outside IDs
			u = append(u, int64(i))
		}
		return append(u, denseOutside...)
	}
	if c.UK == 1 {
		return bigU
	}
	n := c.NU
	if n < 1 {
		n = 1
	}
	u := make([]int64, n)
	for i := range u {
		u[i] = int64(i)
	}
	return u
}

func (c *Case) lineIDs() []int64 {
	n := c.NL
	if n < 1 {
		n = 1
	}
	if n > len(lineU) {
		n = len(lineU)
	}
	return lineU[:n]
}

func pick(u []int64, i int) int64 {
	if i < 0 {
		i = -i
	}
	return u[i%len(u)]
}

// ---- payload carrying node, edge and line types ------------------------------

type pn struct {
	id  int64
	tag int
}

func (n pn) ID() int64 { return n.id }

type pe struct {
	f, t graph.Node
	tag  int
}

func (e pe) From() graph.Node         { return e.f }
func (e pe) To() graph.Node           { return e.t }
func (e pe) ReversedEdge() graph.Edge { return pe{f: e.t, t: e.f, tag: e.tag} }

type pwe struct {
	f, t graph.Node
	w    float64
	tag  int
}

func (e pwe) From() graph.Node         { return e.f }
func (e pwe) To() graph.Node           { return e.t }
func (e pwe) Weight() float64          { return e.w }
func (e pwe) ReversedEdge() graph.Edge { return pwe{f: e.t, t: e.f, w: e.w, tag: e.tag} }

type pl struct {
	f, t graph.Node
	id   int64
	tag  int
}

func (l pl) From() graph.Node         { return l.f }
func (l pl) To() graph.Node           { return l.t }
func (l pl) ID() int64                { return l.id }
func (l pl) ReversedLine() graph.Line { return pl{f: l.t, t: l.f, id: l.id, tag: l.tag} }

type pwl struct {
	f, t graph.Node
	id   int64
	w    float64
	tag  int
}

func (l pwl) From() graph.Node         { return l.f }
func (l pwl) To() graph.Node           { return l.t }
func (l pwl) ID() int64                { return l.id }
func (l pwl) Weight() float64          { return l.w }
func (l pwl) ReversedLine() graph.Line { return pwl{f: l.t, t: l.f, id: l.id, w: l.w, tag: l.tag} }

// item is the comparable identity of anything an iterator or a query returns.
type item struct {
	f, t, id   int64
	ft, tt, et int32
	w          uint64
	hasW       bool
}

const nilID = math.MinInt64 + 12345 // ID reported for a nil node

func wbits(w float64) uint64 {
	switch {
	case math.IsNaN(w):
		return 0x7ff8000000000001
	case w == 0:
		return 0 // -0 and +0 are the same weight (gonum compares weights with ==)
	}
	return math.Float64bits(w)
}

func nodeOf(n graph.Node) (int64, int32) {
	if n == nil {
		return nilID, -99
	}
	if p, ok := n.(pn); ok {
		return p.id, int32(p.tag)
	}
	return n.ID(), -1
}

func nodeItem(n graph.Node) item {
	id, tag := nodeOf(n)
	return item{f: id, ft: tag}
}

func payloadTag(x any) int32 {
	switch e := x.(type) {
	case pe:
		return int32(e.tag)
	case pwe:
		return int32(e.tag)
	case pl:
		return int32(e.tag)
	case pwl:
		return int32(e.tag)
	}
	return -1
}

// edgeItem: end points, their payloads, the edge payload and the weight when
// the edge is weighted. withW=false drops the weight (aggregated multi edges).
func edgeItem(e graph.Edge, withW bool) item {
	var it item
	it.f, it.ft = nodeOf(e.From())
	it.t, it.tt = nodeOf(e.To())
	it.et = payloadTag(e)
	if withW {
		if we, ok := e.(graph.WeightedEdge); ok {
			it.w, it.hasW = wbits(we.Weight()), true
		}
	}
	return it
}

func lineItem(l graph.Line) item {
	var it item
	it.f, it.ft = nodeOf(l.From())
	it.t, it.tt = nodeOf(l.To())
	it.id = l.ID()
	it.et = payloadTag(l)
	if wl, ok := l.(graph.WeightedLine); ok {
		it.w, it.hasW = wbits(wl.Weight()), true
	}
	return it
}

// canon orients an item so that f <= t (undirected collections do not promise
// an orientation).
func (it item) canon() item {
	if it.t < it.f {
		it.f, it.t = it.t, it.f
		it.ft, it.tt = it.tt, it.ft
	}
	return it
}

func cmpItem(a, b item) int {
	switch {
	case a.f != b.f:
		return cmp64(a.f, b.f)
	case a.t != b.t:
		return cmp64(a.t, b.t)
	case a.id != b.id:
		return cmp64(a.id, b.id)
	case a.ft != b.ft:
		return cmp64(int64(a.ft), int64(b.ft))
	case a.tt != b.tt:
		return cmp64(int64(a.tt), int64(b.tt))
	case a.et != b.et:
		return cmp64(int64(a.et), int64(b.et))
	case a.w != b.w:
		if a.w < b.w {
			return -1
		}
		return 1
	case a.hasW != b.hasW:
		if !a.hasW {
			return -1
		}
		return 1
	}
	return 0
}

func cmp64(a, b int64) int {
	if a < b {
		return -1
	}
	if a > b {
		return 1
	}
	return 0
}
