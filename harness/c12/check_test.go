package c12

import (
	"fmt"
	"sort"

	"gonum.org/v1/gonum/graph"
	"gonum.org/v1/gonum/graph/multi"
	"verifharness/vk"
)

type ctx struct {
	c      *Case
	s      *sut
	m      *model
	U, LU  []int64
	ids    []int64 // IDs mentioned so far (query set of the per-step comparison)
	inIDs  map[int64]bool
	cur    []int64                // IDs affected by the current step
	prev   []int64                // IDs affected by the previous step
	soft   map[string]*vk.Failure // first failure per known-defect key after which the history goes on
	step   int
	opDesc string
	used   [nOps]bool
	seq    uint64 // hash of the sequence of abstract states

	classes map[string]int
}

func (x *ctx) failf(key, format string, args ...any) *vk.Failure {
	return vk.Failf(key, "%s step %d (%s): %s", x.m.ki.name, x.step, x.opDesc, fmt.Sprintf(format, args...))
}

// softf records a failure that matches a precisely characterised defect which
// leaves container and model in step, so that the history can go on behind it.
func (x *ctx) softf(key, format string, args ...any) {
	if x.soft[key] == nil {
		x.soft[key] = x.failf(key, format, args...)
	}
}

// softOrder: the rarest defect first, so that the ubiquitous ones do not hide it.
var softOrder = []string{
	"matrix-removeedge-self-overwrites-diagonal",
	"undirectweighted-weight-self-is-merged",
	"undirectweighted-weight-without-edge-not-zero",
	"implicit-nodes-item-after-end",
	"matrix-setedge-outside-modifies-node",
	"matrix-setedge-outside-runtime-fault",
	"removeline-never-joined-runtime-fault",
	"ordered-iter-slice-repeats-current-item",
	"ordered-iter-len-counts-current-item",
	"map-iter-item-after-end",
}

func (x *ctx) softResult() *vk.Failure {
	for _, k := range softOrder {
		if f := x.soft[k]; f != nil {
			return f
		}
	}
	for _, f := range x.soft {
		return f
	}
	return nil
}

func (x *ctx) touch(ids ...int64) {
	for _, id := range ids {
		if !x.inIDs[id] {
			x.inIDs[id] = true
			x.ids = append(x.ids, id)
		}
		x.cur = append(x.cur, id)
	}
}

func (x *ctx) flushClasses() {
	keys := make([]string, 0, len(x.classes))
	for k := range x.classes {
		keys = append(keys, k)
	}
	sort.Strings(keys)
	for _, k := range keys {
		vk.Extra(k, int64(x.classes[k]))
	}
}

// call runs f and requires a normal return (want=false) or a package panic
// (want=true) as the documentation of the operation says for the current state.
func (x *ctx) call(key string, wantPanic bool, f func()) *vk.Failure {
	r := vk.Call(f)
	switch {
	case wantPanic && r.Outcome == vk.PackagePanic, !wantPanic && r.Outcome == vk.Returned:
		return nil
	case wantPanic && r.Outcome == vk.Returned:
		return x.failf(key, "documented panic did not happen: the call returned")
	case wantPanic:
		return x.failf(key, "documented panic is a runtime fault instead of a package panic: %s", r.Text)
	}
	return x.failf(key, "valid call ended in %v: %s", r.Outcome, r.Text)
}

// apply performs one operation on the container and on the model.
func (x *ctx) apply(op Op) *vk.Failure {
	s, m, ki := x.s, x.m, x.m.ki
	if op.K < 0 || op.K >= nOps {
		return nil
	}
	a, b := pick(x.U, op.A), pick(x.U, op.B)
	lid := pick(x.LU, op.L)
	w := float64(op.W)
	ft, tt, et := int32(2*op.T), int32(2*op.T+1), int32(op.T)
	if a == b {
		tt = ft // a self loop has one node value
	}
	from, to := pn{a, int(ft)}, pn{b, int(tt)}
	x.opDesc = opNames[op.K]
	switch op.K {
	case opAddNode:
		if s.na == nil {
			return nil
		}
		x.opDesc = fmt.Sprintf("AddNode(%d tag %d)", a, op.T)
		x.touch(a)
		x.used[op.K] = true
		if m.has(a) {
			// "It panics if the added node ID matches an existing node ID."
			return x.call("addnode-collision", true, func() { s.na.AddNode(pn{a, op.T}) })
		}
		if f := x.call("addnode", false, func() { s.na.AddNode(pn{a, op.T}) }); f != nil {
			return f
		}
		m.addNode(a, int32(op.T))

	case opNewNode:
		if s.na == nil {
			return nil
		}
		x.used[op.K] = true
		var n graph.Node
		if f := x.call("newnode", false, func() { n = s.na.NewNode() }); f != nil {
			return f
		}
		if n == nil {
			return x.failf("newnode-nil", "NewNode returned nil")
		}
		id := n.ID()
		x.opDesc = fmt.Sprintf("NewNode()=%d", id)
		x.touch(id)
		if m.has(id) {
			return x.failf("newnode-id-live", "NewNode returned ID %d which is the ID of a node in the graph", id)
		}
		if op.T&1 == 1 {
			return nil // not added: the graph must be unchanged
		}
		if f := x.call("newnode-addnode", false, func() { s.na.AddNode(n) }); f != nil {
			return f
		}
		_, tag := nodeOf(n)
		m.addNode(id, tag)

	case opRemoveNode:
		if s.nr == nil {
			return nil
		}
		x.opDesc = fmt.Sprintf("RemoveNode(%d)", a)
		x.touch(a)
		x.used[op.K] = true
		if f := x.call("removenode", false, func() { s.nr.RemoveNode(a) }); f != nil {
			return f
		}
		// the neighbours lose an edge: they are affected as well
		x.cur = append(append(x.cur, m.from(a)...), m.to(a)...)
		m.removeNode(a)

	case opSetEdge, opSetUnit:
		x.touch(a, b)
		switch {
		case ki.dense:
			return x.applyDenseSet(op, a, b, w, from, to)
		case op.K == opSetUnit:
			return nil
		case ki.multi:
			x.used[op.K] = true
			x.opDesc = fmt.Sprintf("SetLine(%d->%d id %d w %v tag %d)", a, b, lid, w, op.T)
			var f *vk.Failure
			if ki.weighted {
				f = x.call("setline", false, func() { s.wla.SetWeightedLine(pwl{from, to, lid, w, op.T}) })
			} else {
				f = x.call("setline", false, func() { s.la.SetLine(pl{from, to, lid, op.T}) })
			}
			if f != nil {
				return f
			}
			m.setLine(rec{f: a, t: b, id: lid, ft: ft, tt: tt, et: et, w: w})
		default:
			x.used[op.K] = true
			x.opDesc = fmt.Sprintf("SetEdge(%d->%d w %v tag %d)", a, b, w, op.T)
			// "It will panic if the IDs of the e.From and e.To are equal."
			var f *vk.Failure
			var e graph.Edge
			if ki.weighted {
				e = pwe{from, to, w, op.T}
			} else {
				e = pe{from, to, op.T}
			}
			if op.T == 3 {
				// the library's own edge type from NewEdge / NewWeightedEdge
				et = -1
				x.opDesc += " via NewEdge"
				if f := x.call("newedge", false, func() {
					if ki.weighted {
						e = s.raw.(graph.WeightedEdgeAdder).NewWeightedEdge(from, to, w)
					} else {
						e = s.raw.(graph.EdgeAdder).NewEdge(from, to)
					}
				}); f != nil {
					return f
				}
				want := item{f: a, t: b, ft: ft, tt: tt, et: -1}
				if ki.weighted {
					want.w, want.hasW = wbits(w), true
				}
				if e == nil || edgeItem(e, true) != want {
					return x.failf("newedge-value", "NewEdge(%d,%d) returned %v", a, b, e)
				}
			}
			if ki.weighted {
				f = x.call("setedge", a == b, func() { s.wea.SetWeightedEdge(e.(graph.WeightedEdge)) })
			} else {
				f = x.call("setedge", a == b, func() { s.ea.SetEdge(e) })
			}
			if f != nil || a == b {
				return f
			}
			m.setLine(rec{f: a, t: b, ft: ft, tt: tt, et: et, w: w})
		}

	case opNewLine:
		if !ki.multi {
			return nil
		}
		x.touch(a, b)
		x.used[op.K] = true
		var l graph.Line
		var f *vk.Failure
		if ki.weighted {
			f = x.call("newline", false, func() { l = s.wla.NewWeightedLine(from, to, w) })
		} else {
			f = x.call("newline", false, func() { l = s.la.NewLine(from, to) })
		}
		if f != nil {
			return f
		}
		m.ever[m.key(a, b)] = true
		if l == nil {
			return x.failf("newline-nil", "NewLine returned nil")
		}
		it := lineItem(l)
		x.opDesc = fmt.Sprintf("NewLine(%d->%d)=%d", a, b, it.id)
		want := item{f: a, t: b, id: it.id, ft: ft, tt: tt, et: -1}
		if ki.weighted {
			want.w, want.hasW = wbits(w), true
		}
		if it != want {
			return x.failf("newline-ends", "NewLine(%d,%d) returned %s", a, b, fmtItems([]item{it}))
		}
		if m.liveLine(a, b, it.id) {
			return x.failf("newline-id-live", "NewLine(%d,%d) returned line ID %d which is the ID of a line joining these nodes", a, b, it.id)
		}
		for p, ls := range m.adj {
			if _, ok := ls[it.id]; ok && p != m.key(a, b) {
				x.classes["newline-id-live-on-another-pair"]++
				break
			}
		}
		if op.T&1 == 1 {
			return nil
		}
		if ki.weighted {
			f = x.call("newline-setline", false, func() { s.wla.SetWeightedLine(l.(graph.WeightedLine)) })
		} else {
			f = x.call("newline-setline", false, func() { s.la.SetLine(l) })
		}
		if f != nil {
			return f
		}
		m.setLine(rec{f: a, t: b, id: it.id, ft: ft, tt: tt, et: -1, w: w})

	case opRemoveEdge:
		if s.er == nil {
			return nil
		}
		x.opDesc = fmt.Sprintf("RemoveEdge(%d,%d)", a, b)
		x.touch(a, b)
		x.used[op.K] = true
		// "If the edge does not exist it is a no-op."
		if f := x.call("removeedge", false, func() { s.er.RemoveEdge(a, b) }); f != nil {
			return f
		}
		if ki.dense {
			m.denseRemove(a, b)
			if a == b && m.has(a) && s.matrix != nil {
				// a self edge cannot exist: documented as a no-op
				if got := s.matrix().At(int(a), int(a)); !same(got, m.diag[a]) && same(got, m.absent) {
					x.softf("matrix-removeedge-self-overwrites-diagonal",
						"RemoveEdge(%d,%d) is documented as a no-op (the edge does not exist) but overwrites the diagonal entry (self weight %v) with absent %v: Matrix().At(%d,%d)=%v while Weight(%d,%d)=%v", a, a, m.diag[a], m.absent, a, a, got, a, a, m.self)
					m.diag[a] = got // follow the container so that the history can go on
				}
			}
		} else {
			m.removeLine(a, b, 0)
		}

	case opRemoveLine:
		if s.lr == nil {
			return nil
		}
		x.opDesc = fmt.Sprintf("RemoveLine(%d,%d,%d)", a, b, lid)
		x.touch(a, b)
		x.used[op.K] = true
		// "If the line does not exist it is a no-op."
		r := vk.Call(func() { s.lr.RemoveLine(a, b, lid) })
		switch {
		case r.Outcome == vk.RuntimeFault && m.has(a) && m.has(b) && !m.ever[m.key(a, b)]:
			// Known defect: the per-pair line ID set does not exist yet. The
			// graph itself is not modified, so the history continues.
			x.softf("removeline-never-joined-runtime-fault",
				"RemoveLine(%d,%d,%d) with both nodes present and no line ever set between them is documented as a no-op but ends in a runtime fault: %s", a, b, lid, r.Text)
			return nil
		case r.Outcome != vk.Returned:
			return x.failf("removeline", "valid call ended in %v: %s", r.Outcome, r.Text)
		}
		m.removeLine(a, b, lid)

	case opNodeWithID:
		if s.nw == nil {
			return nil
		}
		x.opDesc = fmt.Sprintf("NodeWithID(%d)", a)
		x.touch(a)
		x.used[op.K] = true
		var n graph.Node
		var isNew bool
		if f := x.call("nodewithid", false, func() { n, isNew = s.nw.NodeWithID(a) }); f != nil {
			return f
		}
		if n == nil {
			return x.failf("nodewithid-nil", "NodeWithID(%d) returned nil although any int64 ID can be created", a)
		}
		id, tag := nodeOf(n)
		if id != a || isNew == m.has(a) || (m.has(a) && tag != m.tag(a)) {
			return x.failf("nodewithid", "NodeWithID(%d) = (ID %d tag %d, new=%v); model: present=%v tag %d", a, id, tag, isNew, m.has(a), m.tag(a))
		}
		if isNew && op.T&1 == 1 {
			if f := x.call("nodewithid-addnode", false, func() { s.na.AddNode(n) }); f != nil {
				return f
			}
			m.addNode(a, tag)
		}
	}
	return nil
}

// applyDenseSet: SetEdge / SetWeightedEdge on a dense matrix graph.
// "If the ends of the edge are not in g or the edge is a self loop, SetEdge
// panics. SetEdge will store the nodes of e in the graph if it was initialized
// with NewDirectedMatrixFrom."
func (x *ctx) applyDenseSet(op Op, a, b int64, w float64, from, to pn) *vk.Failure {
	s, m := x.s, x.m
	x.used[op.K] = true
	var do func()
	if op.K == opSetUnit {
		w = 1
		x.opDesc = fmt.Sprintf("SetEdge(%d->%d tag %d)", a, b, op.T)
		do = func() { s.ea.SetEdge(pe{from, to, op.T}) }
	} else {
		x.opDesc = fmt.Sprintf("SetWeightedEdge(%d->%d w %v tag %d)", a, b, w, op.T)
		do = func() { s.wea.SetWeightedEdge(pwe{from, to, w, op.T}) }
	}
	if a != b && m.has(a) && m.has(b) {
		if f := x.call("matrix-setedge", false, do); f != nil {
			return f
		}
		m.denseSet(a, b, w, int32(from.tag), int32(to.tag))
		return nil
	}
	r := vk.Call(do)
	switch r.Outcome {
	case vk.Returned:
		return x.failf("matrix-setedge-invalid-returned", "self loop or end outside the matrix: documented panic did not happen")
	case vk.PackagePanic:
		return nil
	}
	// Runtime fault (index out of range on the node slice of the ...From
	// variants). Known defect; when the from end is valid its node value has
	// already been replaced, i.e. the failed call modified the graph.
	if a != b && m.has(a) && m.tags != nil {
		if _, tag := nodeOf(s.g.Node(a)); tag != m.tags[a] {
			x.softf("matrix-setedge-outside-modifies-node",
				"SetEdge with the to end %d outside the matrix panics (%s) after having replaced the node value of the from end %d (tag %d -> %d): a failed call must leave the graph unchanged", b, r.Text, a, m.tags[a], tag)
			m.tags[a] = tag // follow the container so that the history can go on
			return nil
		}
	}
	x.softf("matrix-setedge-outside-runtime-fault",
		"SetEdge with an end outside the matrix: documented panic is a runtime fault instead of a package panic: %s", r.Text)
	return nil
}

// ---- comparison of all queries with the model ---------------------------------

func (x *ctx) wantNodes(ids []int64) []item {
	out := make([]item, len(ids))
	for i, id := range ids {
		out[i] = item{f: id, ft: x.m.tag(id)}
	}
	return out
}

// wantLines: the lines joining u to v as Lines(u, v) documents them.
func (x *ctx) wantLines(u, v int64, canon bool) []item {
	return x.wantLinesOf(x.m.lines(u, v), u, canon)
}

func (x *ctx) wantLinesOf(ls []rec, u int64, canon bool) []item {
	if len(ls) == 0 {
		return nil
	}
	out := make([]item, len(ls))
	for i, r := range ls {
		if !x.m.ki.directed {
			r = orient(r, u)
		}
		out[i] = r.item(x.m.ki.weighted)
		if canon {
			out[i] = out[i].canon()
		}
	}
	return out
}

// wantEdge: what Edge(u, v) returns (ok=false: nil).
func (x *ctx) wantEdge(u, v int64) (item, bool) {
	return x.wantEdgeOf(x.m.lines(u, v), u, v)
}

func (x *ctx) wantEdgeOf(ls []rec, u, v int64) (item, bool) {
	m := x.m
	if len(ls) == 0 {
		return item{}, false
	}
	if m.ki.multi {
		return item{f: u, t: v, ft: m.tag(u), tt: m.tag(v), et: -1}, true
	}
	r := ls[0]
	if !m.ki.directed {
		r = orient(r, u)
	}
	return r.item(m.ki.weighted), true
}

// checkMultiEdge checks an aggregated edge of a multigraph: the documented
// concrete type, its lines and its weight.
func (x *ctx) checkMultiEdge(what string, e graph.Edge, u, v int64, canon bool) *vk.Failure {
	m := x.m
	switch e := e.(type) {
	case multi.Edge:
		if m.ki.weighted {
			return x.failf("aggregated-edge-type", "%s is a multi.Edge in a weighted multigraph", what)
		}
		return x.checkIter(linesView(what+".Lines", e.Lines, canon).with(u, v), x.wantLines(u, v, canon))
	case multi.WeightedEdge:
		if !m.ki.weighted {
			return x.failf("aggregated-edge-type", "%s is a multi.WeightedEdge in an unweighted multigraph", what)
		}
		if e.WeightedLines == nil {
			return x.failf("iter-nil", "%s has nil WeightedLines", what)
		}
		e.WeightedLines.Reset()
		if got, want := e.Weight(), m.aggregate(m.lines(u, v)); !same(got, want) {
			return x.failf("aggregated-edge-weight", "%s.Weight()=%v, model %v", what, got, want)
		}
		return x.checkIter(wlinesView(what+".WeightedLines", e.WeightedLines, canon).with(u, v), x.wantLines(u, v, canon))
	}
	return x.failf("aggregated-edge-type", "%s has type %T; documented: multi.Edge / multi.WeightedEdge", what, e)
}

// compare checks every query against the model. ids is the query ID set; when
// recent is non-nil the per-node and per-pair queries are restricted to nodes in
// recent and to pairs with at least one end in recent (long random histories;
// the unrestricted comparison runs periodically and at the end).
func (x *ctx) compare(ids []int64, recent map[int64]bool) *vk.Failure {
	s, m, ki := x.s, x.m, x.m.ki
	und := !ki.directed

	// Nodes, Node
	if f := x.checkIter(nodesView("Nodes()", s.g.Nodes()), m.nodeItems()); f != nil {
		return f
	}
	for _, id := range ids {
		n := s.g.Node(id)
		if (n != nil) != m.has(id) {
			return x.failf("node", "Node(%d) = %v, model present=%v", id, n, m.has(id))
		}
		if n != nil {
			if got, want := nodeItem(n), (item{f: id, ft: m.tag(id)}); got != want {
				return x.failf("node-value", "Node(%d) has ID %d tag %d, the node last stored has tag %d", id, got.f, got.ft, want.ft)
			}
		}
	}

	// Edges, WeightedEdges
	pairs := m.pairs()
	wantAll := func() []item {
		out := make([]item, len(pairs))
		for i, p := range pairs {
			it, _ := x.wantEdge(p.u, p.v)
			if und {
				it = it.canon()
			}
			out[i] = it
		}
		return out
	}
	if s.edges != nil {
		es := s.edges()
		v := edgesView("Edges()", es, und, !ki.multi)
		if ki.multi && es != nil {
			v.each = func(int) *vk.Failure {
				e := es.Edge()
				it := edgeItem(e, false)
				return x.checkMultiEdge("element of Edges()", e, it.f, it.t, und)
			}
		}
		if f := x.checkIter(v, wantAll()); f != nil {
			return f
		}
	}
	if s.wedges != nil {
		es := s.wedges()
		v := wedgesView("WeightedEdges()", es, und, !ki.multi)
		if ki.multi && es != nil {
			v.each = func(int) *vk.Failure {
				e := es.WeightedEdge()
				it := edgeItem(e, false)
				return x.checkMultiEdge("element of WeightedEdges()", e, it.f, it.t, und)
			}
		}
		if f := x.checkIter(v, wantAll()); f != nil {
			return f
		}
	}

	// graph.NodesOf / EdgesOf / WeightedEdgesOf on fresh iterators
	{
		got := graph.NodesOf(s.g.Nodes())
		gi := make([]item, len(got))
		for i, n := range got {
			gi[i] = nodeItem(n)
		}
		if want := m.nodeItems(); !sameItems(gi, want) {
			return x.failf("nodesof", "graph.NodesOf(Nodes()) = %s, model %s", fmtItems(gi), fmtItems(want))
		}
		if s.edges != nil {
			es := graph.EdgesOf(s.edges())
			gi = gi[:0]
			for _, e := range es {
				it := edgeItem(e, !ki.multi)
				if und {
					it = it.canon()
				}
				gi = append(gi, it)
			}
			if want := wantAll(); !sameItems(gi, want) {
				return x.failf("edgesof", "graph.EdgesOf(Edges()) = %s, model %s", fmtItems(gi), fmtItems(want))
			}
		}
		if s.wedges != nil {
			es := graph.WeightedEdgesOf(s.wedges())
			gi = gi[:0]
			for _, e := range es {
				it := edgeItem(e, !ki.multi)
				if und {
					it = it.canon()
				}
				gi = append(gi, it)
			}
			if want := wantAll(); !sameItems(gi, want) {
				return x.failf("weightededgesof", "graph.WeightedEdgesOf(WeightedEdges()) = %s, model %s", fmtItems(gi), fmtItems(want))
			}
		}
	}

	// From, To
	for _, u := range ids {
		if recent != nil && !recent[u] {
			continue
		}
		fr, isNode := m.from(u), m.has(u)
		if it := s.g.From(u); isNode || len(fr) != 0 || it != graph.Empty {
			if f := x.checkIter(nodesView("From", it).with(u), x.wantNodes(fr)); f != nil {
				return f
			}
		}
		if s.dir != nil {
			to := m.to(u)
			if it := s.dir.To(u); isNode || len(to) != 0 || it != graph.Empty {
				if f := x.checkIter(nodesView("To", it).with(u), x.wantNodes(to)); f != nil {
					return f
				}
			}
		}
	}

	// pair queries over all ordered pairs
	for _, u := range ids {
		ru := recent == nil || recent[u]
		for _, v := range ids {
			if !ru && !recent[v] {
				continue
			}
			uv, vu := m.hasFromTo(u, v), m.hasFromTo(v, u)
			if got := s.g.HasEdgeBetween(u, v); got != (uv || vu) {
				return x.failf("hasedgebetween", "HasEdgeBetween(%d,%d)=%v, model %v", u, v, got, uv || vu)
			}
			if s.dir != nil {
				if got := s.dir.HasEdgeFromTo(u, v); got != uv {
					return x.failf("hasedgefromto", "HasEdgeFromTo(%d,%d)=%v, model %v", u, v, got, uv)
				}
			}
			ls := m.lines(u, v)
			want, ok := x.wantEdgeOf(ls, u, v)
			chk := func(what string, e graph.Edge) *vk.Failure {
				if (e != nil) != ok {
					return x.failf("edge", "%s(%d,%d) = %v, model has edge: %v", what, u, v, e, ok)
				}
				if e == nil {
					return nil
				}
				if got := edgeItem(e, !ki.multi); got != want {
					return x.failf("edge-value", "%s(%d,%d) = %s, model %s", what, u, v, fmtItems([]item{got}), fmtItems([]item{want}))
				}
				if ki.multi {
					return x.checkMultiEdge(what, e, u, v, false)
				}
				return nil
			}
			if f := chk("Edge", s.g.Edge(u, v)); f != nil {
				return f
			}
			if s.und != nil {
				if f := chk("EdgeBetween", s.und.EdgeBetween(u, v)); f != nil {
					return f
				}
			}
			if s.wg != nil {
				// a nil WeightedEdge must convert to a nil Edge
				var e graph.Edge
				if we := s.wg.WeightedEdge(u, v); we != nil {
					e = we
				}
				if f := chk("WeightedEdge", e); f != nil {
					return f
				}
				if s.wu != nil {
					e = nil
					if we := s.wu.WeightedEdgeBetween(u, v); we != nil {
						e = we
					}
					if f := chk("WeightedEdgeBetween", e); f != nil {
						return f
					}
				}
				gw, gok := s.wg.Weight(u, v)
				mw, mok, known := m.weightOf(ls, u, v)
				if gok != mok {
					return x.failf("weight-ok", "Weight(%d,%d) = (%v,%v), model (%v,%v)", u, v, gw, gok, mw, mok)
				}
				if known && (wbits(gw) != wbits(mw) && !(ki.multi && same(gw, mw))) {
					return x.failf("weight", "Weight(%d,%d) = (%v,%v), model (%v,%v)", u, v, gw, gok, mw, mok)
				}
			}
			// graph.Empty is the documented answer when there is nothing; its
			// (constant) behaviour is covered by Nodes() of an empty graph and by From of isolated nodes.
			if s.mg != nil && len(ls) != 0 {
				got := graph.LinesOf(s.mg.Lines(u, v))
				gi := make([]item, len(got))
				for i, l := range got {
					gi[i] = lineItem(l)
				}
				if want := x.wantLinesOf(ls, u, false); !sameItems(gi, want) {
					return x.failf("linesof", "graph.LinesOf(Lines(%d,%d)) = %s, model %s", u, v, fmtItems(gi), fmtItems(want))
				}
				if s.wmg != nil {
					wgot := graph.WeightedLinesOf(s.wmg.WeightedLines(u, v))
					gi = gi[:0]
					for _, l := range wgot {
						gi = append(gi, lineItem(l))
					}
					if want := x.wantLinesOf(ls, u, false); !sameItems(gi, want) {
						return x.failf("weightedlinesof", "graph.WeightedLinesOf(WeightedLines(%d,%d)) = %s, model %s", u, v, fmtItems(gi), fmtItems(want))
					}
				}
			}
			if s.mg != nil {
				if it := s.mg.Lines(u, v); len(ls) != 0 || it != graph.Empty {
					if f := x.checkIter(linesView("Lines", it, false).with(u, v), x.wantLinesOf(ls, u, false)); f != nil {
						return f
					}
				}
				if s.umg != nil {
					if it := s.umg.LinesBetween(u, v); len(ls) != 0 || it != graph.Empty {
						if f := x.checkIter(linesView("LinesBetween", it, false).with(u, v), x.wantLinesOf(ls, u, false)); f != nil {
							return f
						}
					}
				}
			}
			if s.wmg != nil {
				if it := s.wmg.WeightedLines(u, v); len(ls) != 0 || it != graph.Empty {
					if f := x.checkIter(wlinesView("WeightedLines", it, false).with(u, v), x.wantLinesOf(ls, u, false)); f != nil {
						return f
					}
				}
				if s.wumg != nil {
					if it := s.wumg.WeightedLinesBetween(u, v); len(ls) != 0 || it != graph.Empty {
						if f := x.checkIter(wlinesView("WeightedLinesBetween", it, false).with(u, v), x.wantLinesOf(ls, u, false)); f != nil {
							return f
						}
					}
				}
			}
		}
	}

	// dense: the matrix view off the diagonal
	if s.matrix != nil {
		mt := s.matrix()
		r, c := mt.Dims()
		if r != m.n || c != m.n {
			return x.failf("matrix-dims", "Matrix() is %dx%d, want %dx%d", r, c, m.n, m.n)
		}
		for i := 0; i < m.n; i++ {
			for j := 0; j < m.n; j++ {
				if i != j && wbits(mt.At(i, j)) != wbits(m.tabAt(int64(i), int64(j))) {
					return x.failf("matrix", "Matrix().At(%d,%d)=%v, model %v", i, j, mt.At(i, j), m.tabAt(int64(i), int64(j)))
				}
				if i == j && wbits(mt.At(i, i)) != wbits(m.diag[i]) {
					return x.failf("matrix-diagonal", "Matrix().At(%d,%d)=%v, the self weight is %v", i, i, mt.At(i, i), m.diag[i])
				}
			}
		}
	}
	return nil
}
