package c12

import (
	"math"
	"slices"
)

// The model: plain Go maps (and a weight table for the dense kinds). Simple
// graphs are modelled as multigraphs restricted to line ID 0.

type pair struct{ u, v int64 }

type rec struct {
	f, t       int64 // orientation as last set
	id         int64
	ft, tt, et int32
	w          float64
}

type model struct {
	kind int
	ki   *kindInfo
	// map backed kinds
	nodes map[int64]int32
	adj   map[pair]map[int64]rec
	// ever[p]: SetLine or NewLine was ever called for the pair (used only to
	// give the known RemoveLine defect a precise key)
	ever map[pair]bool
	// dense kinds
	n    int
	tab  []float64
	tags []int32   // nil: implicit simple.Node values
	diag []float64 // diagonal of Matrix(): the self weight
	// weight conventions
	self, absent float64
	ewf          int

	h uint64 // order independent hash of the abstract state (node set, edge/line set)

	// non-triviality bookkeeping
	removed        map[int64]bool
	readd, replace bool
}

func newModel(c *Case) *model {
	m := &model{kind: c.Kind, ki: &kinds[c.Kind], self: float64(c.Self), absent: float64(c.Absent), ewf: c.EWF,
		removed: map[int64]bool{}}
	if m.ki.dense {
		n := c.N
		m.n = n
		m.tab = make([]float64, n*n)
		for i := range m.tab {
			m.tab[i] = float64(c.Init)
		}
		m.diag = make([]float64, n)
		for i := range m.diag {
			m.diag[i] = float64(c.Self)
		}
		if c.FromNodes {
			m.tags = make([]int32, n)
			for i := range m.tags {
				m.tags[i] = int32(100 + i)
			}
		}
		for i := 0; i < n; i++ {
			for j := 0; j < n; j++ {
				if i != j && (m.ki.directed || i < j) && m.hasFromTo(int64(i), int64(j)) {
					m.h ^= mix(2, int64(i), int64(j), 0)
				}
			}
		}
		return m
	}
	m.nodes = map[int64]int32{}
	m.adj = map[pair]map[int64]rec{}
	m.ever = map[pair]bool{}
	return m
}

func mix(kind uint64, a, b, c int64) uint64 {
	x := kind*0x9e3779b97f4a7c15 ^ uint64(a)
	x = (x ^ x>>30) * 0xbf58476d1ce4e5b9
	x ^= uint64(b) + 0x94d049bb133111eb
	x = (x ^ x>>27) * 0x94d049bb133111eb
	x ^= uint64(c) + 0x2545f4914f6cdd1d
	x = (x ^ x>>31) * 0xd6e8feb86659fd93
	return x ^ x>>32
}

func same(a, b float64) bool { return a == b || (math.IsNaN(a) && math.IsNaN(b)) }

func (m *model) key(u, v int64) pair {
	if !m.ki.directed && v < u {
		return pair{v, u}
	}
	return pair{u, v}
}

func (m *model) has(id int64) bool {
	if m.ki.dense {
		return 0 <= id && id < int64(m.n)
	}
	_, ok := m.nodes[id]
	return ok
}

func (m *model) tag(id int64) int32 {
	if m.ki.dense {
		if m.tags == nil {
			return -1
		}
		return m.tags[id]
	}
	return m.nodes[id]
}

func (m *model) nodeIDs() []int64 {
	if m.ki.dense {
		ids := make([]int64, m.n)
		for i := range ids {
			ids[i] = int64(i)
		}
		return ids
	}
	ids := make([]int64, 0, len(m.nodes))
	for id := range m.nodes {
		ids = append(ids, id)
	}
	slices.Sort(ids)
	return ids
}

func (m *model) nodeItems() []item {
	ids := m.nodeIDs()
	out := make([]item, len(ids))
	for i, id := range ids {
		out[i] = item{f: id, ft: m.tag(id)}
	}
	return out
}

func (m *model) tabAt(u, v int64) float64 {
	if !m.ki.directed && v < u {
		u, v = v, u
	}
	return m.tab[int(u)*m.n+int(v)]
}

func (m *model) tabSet(u, v int64, w float64) {
	if !m.ki.directed && v < u {
		u, v = v, u
	}
	m.tab[int(u)*m.n+int(v)] = w
}

// hasFromTo reports whether v is reachable from u by one edge (for undirected
// kinds: whether u and v are joined).
func (m *model) hasFromTo(u, v int64) bool {
	if m.ki.dense {
		return m.has(u) && m.has(v) && u != v && !same(m.tabAt(u, v), m.absent)
	}
	return len(m.adj[m.key(u, v)]) > 0
}

// lines returns the lines (edges) joining u to v with the orientation they were
// set with, ordered by line ID.
func (m *model) lines(u, v int64) []rec {
	if m.ki.dense {
		if !m.hasFromTo(u, v) {
			return nil
		}
		return []rec{{f: u, t: v, ft: m.tag(u), tt: m.tag(v), et: -1, w: m.tabAt(u, v)}}
	}
	ls := m.adj[m.key(u, v)]
	if len(ls) == 0 {
		return nil
	}
	out := make([]rec, 0, len(ls))
	for _, r := range ls {
		out = append(out, r)
	}
	slices.SortFunc(out, func(a, b rec) int { return cmp64(a.id, b.id) })
	return out
}

// from returns the IDs reachable from u; to the IDs that reach u.
func (m *model) from(u int64) []int64 {
	var out []int64
	if m.ki.dense {
		for v := int64(0); v < int64(m.n); v++ {
			if m.hasFromTo(u, v) {
				out = append(out, v)
			}
		}
		return out
	}
	for p, ls := range m.adj {
		if len(ls) == 0 {
			continue
		}
		switch {
		case p.u == u:
			out = append(out, p.v)
		case !m.ki.directed && p.v == u:
			out = append(out, p.u)
		}
	}
	slices.Sort(out)
	return out
}

func (m *model) to(u int64) []int64 {
	if !m.ki.directed {
		return m.from(u)
	}
	var out []int64
	if m.ki.dense {
		for v := int64(0); v < int64(m.n); v++ {
			if m.hasFromTo(v, u) {
				out = append(out, v)
			}
		}
		return out
	}
	for p, ls := range m.adj {
		if len(ls) > 0 && p.v == u {
			out = append(out, p.u)
		}
	}
	slices.Sort(out)
	return out
}

// pairs returns the joined pairs (ordered for directed kinds, u<=v otherwise),
// sorted.
func (m *model) pairs() []pair {
	var out []pair
	if m.ki.dense {
		for u := int64(0); u < int64(m.n); u++ {
			for v := int64(0); v < int64(m.n); v++ {
				if (m.ki.directed || u < v) && m.hasFromTo(u, v) {
					out = append(out, pair{u, v})
				}
			}
		}
		return out
	}
	for p, ls := range m.adj {
		if len(ls) > 0 {
			out = append(out, p)
		}
	}
	slices.SortFunc(out, func(a, b pair) int {
		if a.u != b.u {
			return cmp64(a.u, b.u)
		}
		return cmp64(a.v, b.v)
	})
	return out
}

// orient returns r as seen from u (undirected queries reverse the stored edge
// when its from node is not u).
func orient(r rec, u int64) rec {
	if r.f != u {
		r.f, r.t = r.t, r.f
		r.ft, r.tt = r.tt, r.ft
	}
	return r
}

func (r rec) item(weighted bool) item {
	it := item{f: r.f, t: r.t, id: r.id, ft: r.ft, tt: r.tt, et: r.et}
	if weighted {
		it.w, it.hasW = wbits(r.w), true
	}
	return it
}

// aggregate is the weight of a multi edge: EdgeWeightFunc applied to its lines.
func (m *model) aggregate(ls []rec) float64 {
	if m.ewf == 1 {
		return maxOf(len(ls), func(i int) float64 { return ls[i].w })
	}
	var w float64
	for _, r := range ls {
		w += r.w
	}
	return w
}

func maxOf(n int, at func(i int) float64) float64 {
	w := math.Inf(-1)
	for i := 0; i < n; i++ {
		if x := at(i); x > w {
			w = x
		}
	}
	return w
}

// weight is the documented answer of Weight(u, v); known is false when the
// documentation leaves the value open.
func (m *model) weight(u, v int64) (w float64, ok, known bool) {
	return m.weightOf(m.lines(u, v), u, v)
}

func (m *model) weightOf(ls []rec, u, v int64) (w float64, ok, known bool) {
	if m.ki.multi {
		if len(ls) == 0 {
			return 0, false, m.ewf == 0
		}
		return m.aggregate(ls), true, true
	}
	if u == v {
		return m.self, true, true
	}
	if len(ls) > 0 {
		return ls[0].w, true, true
	}
	return m.absent, false, true
}

// ---- mutations ------------------------------------------------------------------

func (m *model) noteAdd(ids ...int64) {
	for _, id := range ids {
		if m.removed[id] {
			m.readd = true
		}
	}
}

func (m *model) addNode(id int64, tag int32) {
	m.nodes[id] = tag
	m.h ^= mix(1, id, 0, 0)
	m.noteAdd(id)
}

func (m *model) removeNode(id int64) {
	if !m.has(id) {
		return
	}
	delete(m.nodes, id)
	m.h ^= mix(1, id, 0, 0)
	m.removed[id] = true
	for p, ls := range m.adj {
		if p.u == id || p.v == id {
			for lid := range ls {
				m.h ^= mix(2, p.u, p.v, lid)
			}
			delete(m.adj, p)
		}
	}
}

// setLine is SetEdge/SetLine on the map backed kinds.
func (m *model) setLine(r rec) {
	for _, e := range [2]struct {
		id  int64
		tag int32
	}{{r.f, r.ft}, {r.t, r.tt}} {
		if !m.has(e.id) {
			m.addNode(e.id, e.tag)
		} else {
			m.nodes[e.id] = e.tag
		}
	}
	k := m.key(r.f, r.t)
	m.ever[k] = true
	ls := m.adj[k]
	if ls == nil {
		ls = map[int64]rec{}
		m.adj[k] = ls
	}
	if _, ok := ls[r.id]; ok {
		m.replace = true
	} else {
		m.h ^= mix(2, k.u, k.v, r.id)
		m.noteAdd(r.f, r.t)
	}
	ls[r.id] = r
}

func (m *model) removeLine(u, v, id int64) {
	if !m.has(u) || !m.has(v) {
		return
	}
	k := m.key(u, v)
	ls := m.adj[k]
	if _, ok := ls[id]; !ok {
		return
	}
	delete(ls, id)
	if len(ls) == 0 {
		delete(m.adj, k)
	}
	m.h ^= mix(2, k.u, k.v, id)
	m.removed[u], m.removed[v] = true, true
}

// denseSet is SetEdge/SetWeightedEdge on a dense kind with valid arguments.
func (m *model) denseSet(u, v int64, w float64, ft, tt int32) {
	was := m.hasFromTo(u, v)
	m.tabSet(u, v, w)
	if m.tags != nil {
		m.tags[u], m.tags[v] = ft, tt
	}
	now := m.hasFromTo(u, v)
	k := m.key(u, v)
	switch {
	case was && now:
		m.replace = true
	case was != now:
		m.h ^= mix(2, k.u, k.v, 0)
		if now {
			m.noteAdd(u, v)
		} else {
			m.removed[u], m.removed[v] = true, true
		}
	}
}

func (m *model) denseRemove(u, v int64) {
	if !m.has(u) || !m.has(v) {
		return
	}
	if u == v {
		return // only the unobservable diagonal entry is touched
	}
	if m.hasFromTo(u, v) {
		k := m.key(u, v)
		m.h ^= mix(2, k.u, k.v, 0)
		m.removed[u], m.removed[v] = true, true
	}
	m.tabSet(u, v, m.absent)
}

// liveLine reports whether a line with the ID joins u to v.
func (m *model) liveLine(u, v, id int64) bool {
	_, ok := m.adj[m.key(u, v)][id]
	return ok
}
