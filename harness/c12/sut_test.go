package c12

import (
	"math"

	"gonum.org/v1/gonum/graph"
	"gonum.org/v1/gonum/graph/multi"
	"gonum.org/v1/gonum/graph/simple"
	"gonum.org/v1/gonum/mat"
	"verifharness/vk"
)

// sut is the container under test seen through the graph interfaces it implements.
type sut struct {
	raw any
	g   graph.Graph
	dir graph.Directed   // nil for undirected kinds
	und graph.Undirected // nil for directed kinds
	wg  graph.Weighted   // nil for unweighted kinds
	wu  interface {
		WeightedEdgeBetween(xid, yid int64) graph.WeightedEdge
	}
	edges  func() graph.Edges
	wedges func() graph.WeightedEdges
	mg     graph.Multigraph
	wmg    graph.WeightedMultigraph
	umg    interface {
		LinesBetween(xid, yid int64) graph.Lines
	}
	wumg interface {
		WeightedLinesBetween(xid, yid int64) graph.WeightedLines
	}
	matrix func() mat.Matrix

	na  graph.NodeAdder
	nr  graph.NodeRemover
	nw  graph.NodeWithIDer
	ea  interface{ SetEdge(e graph.Edge) }
	wea interface{ SetWeightedEdge(e graph.WeightedEdge) }
	er  graph.EdgeRemover
	la  graph.LineAdder
	wla graph.WeightedLineAdder
	lr  graph.LineRemover
}

func maxLines(ls graph.WeightedLines) float64 {
	w := math.Inf(-1)
	if ls == nil {
		return w
	}
	for ls.Next() {
		if x := ls.WeightedLine().Weight(); x > w {
			w = x
		}
	}
	ls.Reset()
	return w
}

func newSUT(c *Case) *sut {
	var raw any
	self, absent := float64(c.Self), float64(c.Absent)
	switch c.Kind {
	case kSD:
		raw = simple.NewDirectedGraph()
	case kSU:
		raw = simple.NewUndirectedGraph()
	case kSWD:
		raw = simple.NewWeightedDirectedGraph(self, absent)
	case kSWU:
		raw = simple.NewWeightedUndirectedGraph(self, absent)
	case kDM, kUM:
		var nodes []graph.Node
		if c.FromNodes {
			// "The IDs of the nodes must be contiguous from 0 to len(nodes)-1,
			// but may be in any order."
			perm := vk.NewSplitMix(c.Seed).Perm(c.N)
			nodes = make([]graph.Node, c.N)
			for i, p := range perm {
				nodes[i] = pn{id: int64(p), tag: 100 + p}
			}
		}
		switch {
		case c.Kind == kDM && c.FromNodes:
			raw = simple.NewDirectedMatrixFrom(nodes, float64(c.Init), self, absent)
		case c.Kind == kDM:
			raw = simple.NewDirectedMatrix(c.N, float64(c.Init), self, absent)
		case c.FromNodes:
			raw = simple.NewUndirectedMatrixFrom(nodes, float64(c.Init), self, absent)
		default:
			raw = simple.NewUndirectedMatrix(c.N, float64(c.Init), self, absent)
		}
	case kMD:
		raw = multi.NewDirectedGraph()
	case kMU:
		raw = multi.NewUndirectedGraph()
	case kMWD:
		g := multi.NewWeightedDirectedGraph()
		if c.EWF == 1 {
			g.EdgeWeightFunc = maxLines
		}
		raw = g
	case kMWU:
		g := multi.NewWeightedUndirectedGraph()
		if c.EWF == 1 {
			g.EdgeWeightFunc = maxLines
		}
		raw = g
	}
	return wrapSUT(raw)
}

func wrapSUT(raw any) *sut {
	s := &sut{raw: raw}
	s.g = raw.(graph.Graph)
	s.dir, _ = raw.(graph.Directed)
	s.und, _ = raw.(graph.Undirected)
	s.wg, _ = raw.(graph.Weighted)
	s.wu, _ = raw.(interface {
		WeightedEdgeBetween(xid, yid int64) graph.WeightedEdge
	})
	if e, ok := raw.(interface{ Edges() graph.Edges }); ok {
		s.edges = e.Edges
	}
	if e, ok := raw.(interface{ WeightedEdges() graph.WeightedEdges }); ok {
		s.wedges = e.WeightedEdges
	}
	s.mg, _ = raw.(graph.Multigraph)
	if _, isMulti := raw.(graph.LineRemover); !isMulti {
		s.mg = nil // simple graphs have no Lines method anyway
	}
	s.wmg, _ = raw.(graph.WeightedMultigraph)
	s.umg, _ = raw.(interface {
		LinesBetween(xid, yid int64) graph.Lines
	})
	s.wumg, _ = raw.(interface {
		WeightedLinesBetween(xid, yid int64) graph.WeightedLines
	})
	if mm, ok := raw.(interface{ Matrix() mat.Matrix }); ok {
		s.matrix = mm.Matrix
	}
	s.na, _ = raw.(graph.NodeAdder)
	s.nr, _ = raw.(graph.NodeRemover)
	s.nw, _ = raw.(graph.NodeWithIDer)
	s.ea, _ = raw.(interface{ SetEdge(e graph.Edge) })
	s.wea, _ = raw.(interface{ SetWeightedEdge(e graph.WeightedEdge) })
	s.er, _ = raw.(graph.EdgeRemover)
	s.la, _ = raw.(graph.LineAdder)
	s.wla, _ = raw.(graph.WeightedLineAdder)
	s.lr, _ = raw.(graph.LineRemover)
	return s
}
