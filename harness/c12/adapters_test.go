package c12

import (
	"fmt"
	"math"
	"slices"

	"gonum.org/v1/gonum/graph"
	"gonum.org/v1/gonum/graph/simple"
	"verifharness/vk"
)

func mergeFunc(kind int) func(x, y float64) float64 {
	switch kind {
	case 1:
		return func(x, y float64) float64 {
			if math.IsNaN(x) || math.IsNaN(y) {
				return math.NaN()
			}
			return math.Max(x, y)
		}
	case 2:
		return func(x, y float64) float64 { return x + y }
	}
	return func(x, y float64) float64 { return (x + y) / 2 }
}

// checkUndirected compares an Undirect / UndirectWeighted view of a directed
// container with the symmetrised model.
func (x *ctx) checkUndirected(name string, ug graph.Undirected, ids []int64) *vk.Failure {
	m := x.m
	if f := x.checkIter(nodesView(name+".Nodes()", ug.Nodes()), m.nodeItems()); f != nil {
		return f
	}
	for _, u := range ids {
		n := ug.Node(u)
		if (n != nil) != m.has(u) || (n != nil && nodeItem(n) != item{f: u, ft: m.tag(u)}) {
			return x.failf("undirect-node", "%s.Node(%d) = %v, model present=%v", name, u, n, m.has(u))
		}
		nb := append(m.from(u), m.to(u)...)
		slices.Sort(nb)
		nb = slices.Compact(nb)
		if f := x.checkIter(nodesView(name+".From", ug.From(u)).with(u), x.wantNodes(nb)); f != nil {
			return f
		}
		for _, v := range ids {
			uv, vu := m.hasFromTo(u, v), m.hasFromTo(v, u)
			if got := ug.HasEdgeBetween(u, v); got != (uv || vu) {
				return x.failf("undirect-hasedgebetween", "%s.HasEdgeBetween(%d,%d)=%v, model %v", name, u, v, got, uv || vu)
			}
			for k, e := range []graph.Edge{ug.Edge(u, v), ug.EdgeBetween(u, v)} {
				if (e != nil) != (uv || vu) {
					return x.failf("undirect-edge", "%s edge query %d (%d,%d) = %v, model joined=%v", name, k, u, v, e, uv || vu)
				}
				if e == nil {
					continue
				}
				var pr graph.EdgePair
				switch e := e.(type) {
				case graph.EdgePair:
					pr = e
				case graph.WeightedEdgePair:
					pr = e.EdgePair
				default:
					return x.failf("undirect-edge-type", "%s edge query returned %T; documented: an EdgePair", name, e)
				}
				for d, half := range pr {
					a, b := u, v
					if d == 1 {
						a, b = v, u
					}
					want, ok := x.wantEdge(a, b)
					if (half != nil) != ok {
						return x.failf("undirect-edgepair", "%s (%d,%d): pair element %d = %v, model has %d->%d: %v", name, u, v, d, half, a, b, ok)
					}
					if half != nil {
						if got := edgeItem(half, !m.ki.multi); got != want {
							return x.failf("undirect-edgepair-value", "%s (%d,%d): pair element %d = %s, model %s", name, u, v, d, fmtItems([]item{got}), fmtItems([]item{want}))
						}
					}
				}
			}
		}
	}
	return nil
}

func (x *ctx) checkAdapters(ids []int64) *vk.Failure {
	s, m, c := x.s, x.m, x.c
	x.opDesc = "adapters after the history"
	if s.dir != nil {
		if f := x.checkUndirected("Undirect", graph.Undirect{G: s.dir}, ids); f != nil {
			return f
		}
	}
	if wd, ok := s.raw.(graph.WeightedDirected); ok {
		mf := mergeFunc(c.Merge)
		uabs := float64(c.UAbs)
		var orderBad string
		var curU, curV int64
		tracking := false
		uw := graph.UndirectWeighted{G: wd, Absent: uabs}
		if c.Merge != 0 {
			uw.Merge = func(a, b float64, ae, be graph.Edge) float64 {
				// "The edges corresponding to the two weights are also passed,
				// in the same order." The order of the two is not defined.
				uv, vu := m.hasFromTo(curU, curV), m.hasFromTo(curV, curU)
				if tracking && !((ae != nil) == uv && (be != nil) == vu) && !((ae != nil) == vu && (be != nil) == uv) {
					orderBad = fmt.Sprintf("Merge for (%d,%d) got edges %v, %v; model has %d->%d: %v, %d->%d: %v", curU, curV, ae, be, curU, curV, uv, curV, curU, vu)
				}
				return mf(a, b)
			}
		}
		if f := x.checkUndirected("UndirectWeighted", uw, ids); f != nil {
			return f
		}
		tracking = true
		for _, u := range ids {
			for _, v := range ids {
				curU, curV = u, v
				fw, fok, fknown := m.weight(u, v)
				rw, rok, rknown := m.weight(v, u)
				if !fok {
					fw, fknown = uabs, true
				}
				if !rok {
					rw, rknown = uabs, true
				}
				want := mf(fw, rw)
				joined := m.hasFromTo(u, v) || m.hasFromTo(v, u)
				we := uw.WeightedEdgeBetween(u, v)
				if (we != nil) != joined {
					return x.failf("undirectweighted-edge", "WeightedEdgeBetween(%d,%d) = %v, model joined=%v", u, v, we, joined)
				}
				if we != nil && fknown && rknown && !same(we.Weight(), want) {
					return x.failf("undirectweighted-edge-weight", "WeightedEdgeBetween(%d,%d).Weight()=%v, merge of (%v,%v) is %v", u, v, we.Weight(), fw, rw, want)
				}
				// Weight: "If x and y are the same node the internal node weight
				// is returned. If there is no joining edge between the two nodes
				// the weight value returned is zero. Weight returns true if an
				// edge exists between x and y or if x and y have the same ID".
				gw, gok := uw.Weight(u, v)
				dw, dok, dknown := want, fok || rok, fknown && rknown
				switch {
				case u == v:
					dw, dok, dknown = m.weight(u, u) // what G.Weight(x, x) answers
				case !dok:
					dw, dknown = 0, true
				}
				if gok != dok {
					return x.failf("undirectweighted-weight-ok", "Weight(%d,%d) = (%v,%v), model ok=%v", u, v, gw, gok, dok)
				}
				if dknown && !same(gw, dw) {
					switch merged := fknown && rknown && same(gw, want); {
					case merged && u == v && dok:
						x.softf("undirectweighted-weight-self-is-merged",
							"UndirectWeighted.Weight(%d,%d) = %v: Merge applied to (%v,%v); documented: the internal node weight %v", u, v, gw, fw, rw, dw)
					case merged && !dok:
						x.softf("undirectweighted-weight-without-edge-not-zero",
							"UndirectWeighted.Weight(%d,%d) = (%v,false) without a joining edge: Merge applied to Absent (%v,%v); documented: zero", u, v, gw, fw, rw)
					default:
						return x.failf("undirectweighted-weight", "Weight(%d,%d) = (%v,%v), documented value %v (directed weights %v, %v)", u, v, gw, gok, dw, fw, rw)
					}
				}
			}
		}
		if orderBad != "" {
			return x.failf("undirectweighted-merge-edges", "%s", orderBad)
		}
	}
	return x.checkCopies(ids)
}

// checkCopies: graph.Copy / graph.CopyWeighted into fresh containers answer as
// the model transform (same node IDs; same edges, both directions when an
// undirected source goes to a directed destination, symmetrised the other way).
func (x *ctx) checkCopies(ids []int64) *vk.Failure {
	s, m := x.s, x.m
	if m.ki.multi {
		for _, p := range m.pairs() {
			if p.u == p.v {
				x.classes["copy-skipped-multigraph-with-self-loop"]++
				return nil // simple destinations reject self loops
			}
		}
	}
	type dest struct {
		name string
		b    graph.Builder
		wb   graph.WeightedBuilder
	}
	dests := []dest{
		{name: "Copy->simple.DirectedGraph", b: simple.NewDirectedGraph()},
		{name: "Copy->simple.UndirectedGraph", b: simple.NewUndirectedGraph()},
	}
	src, weighted := s.raw.(graph.Weighted)
	if weighted {
		dests = append(dests,
			dest{name: "CopyWeighted->simple.WeightedDirectedGraph", wb: simple.NewWeightedDirectedGraph(-7, math.Inf(1))},
			dest{name: "CopyWeighted->simple.WeightedUndirectedGraph", wb: simple.NewWeightedUndirectedGraph(-7, math.Inf(1))})
	}
	nodeIDs := m.nodeIDs()
	for _, d := range dests {
		x.opDesc = d.name
		var dg graph.Graph
		var run func()
		if d.b != nil {
			dg = d.b.(graph.Graph)
			run = func() { graph.Copy(d.b, s.g) }
		} else {
			dg = d.wb.(graph.Graph)
			run = func() { graph.CopyWeighted(d.wb, src) }
		}
		if f := x.call("copy", false, run); f != nil {
			return f
		}
		want := make([]item, len(nodeIDs))
		for i, id := range nodeIDs {
			want[i] = item{f: id}
		}
		ns := dg.Nodes()
		v := nodesView(d.name+" Nodes()", ns)
		if ns != nil {
			v.cur = func() item { id, _ := nodeOf(ns.Node()); return item{f: id} }
			v.slice = nil
		}
		if f := x.checkIter(v, want); f != nil {
			return f
		}
		ddir, _ := dg.(graph.Directed)
		dw, _ := dg.(graph.Weighted)
		for _, u := range ids {
			for _, v := range ids {
				uv, vu := m.hasFromTo(u, v), m.hasFromTo(v, u)
				if got := dg.HasEdgeBetween(u, v); got != (uv || vu) {
					return x.failf("copy-hasedgebetween", "%s: HasEdgeBetween(%d,%d)=%v, source model %v", d.name, u, v, got, uv || vu)
				}
				wantUV := uv || vu
				if ddir != nil {
					// only an undirected source contributes both directions
					wantUV = uv
					if got := ddir.HasEdgeFromTo(u, v); got != wantUV {
						return x.failf("copy-hasedgefromto", "%s: HasEdgeFromTo(%d,%d)=%v, source model %v", d.name, u, v, got, wantUV)
					}
				}
				if dw != nil && wantUV && u != v {
					gw, gok := dw.Weight(u, v)
					fw, fok, _ := m.weight(u, v)
					rw, rok, _ := m.weight(v, u)
					// directed source into an undirected destination with
					// different weights in the two directions: documented as
					// undefined, either weight is accepted.
					if !gok || !((fok && uv && same(gw, fw)) || (ddir == nil && rok && vu && same(gw, rw))) {
						return x.failf("copy-weight", "%s: Weight(%d,%d)=(%v,%v), source model %d->%d (%v,%v), %d->%d (%v,%v)", d.name, u, v, gw, gok, u, v, fw, fok, v, u, rw, rok)
					}
				}
			}
		}
		// "Copy will panic if a node ID in the source graph matches a node ID
		// in the destination."
		if len(nodeIDs) > 0 {
			if f := x.call("copy-collision", true, run); f != nil {
				return f
			}
		}
	}
	return nil
}
