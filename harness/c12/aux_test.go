package c12

import (
	"math"
	"testing"

	"gonum.org/v1/gonum/graph"
	"gonum.org/v1/gonum/graph/iterator"
	"gonum.org/v1/gonum/graph/set/uid"
	"pgregory.net/rapid"
	"verifharness/vk"
)

// ---- graph/set/uid.Set against a set model -----------------------------------

type uidOp struct {
	K  int // 0 Use, 1 Release, 2 NewID, 3 NewID then Use
	ID int // index into uidU
}

type uidCase struct{ Ops []uidOp }

var uidU = []int64{0, 1, 2, 3, 4, 5, math.MaxInt64, math.MaxInt64 - 1, 1 << 31, -1, math.MinInt64, 6, 7}

func checkUID(c uidCase) *vk.Failure {
	vk.Sample("uid-set", c)
	s := uid.NewSet()
	used := map[int64]bool{}
	usedMax, newIDs, reuse := false, 0, false
	released := map[int64]bool{}
	for i, op := range c.Ops {
		id := pick(uidU, op.ID)
		switch op.K {
		case 0:
			s.Use(id)
			used[id] = true
			usedMax = usedMax || id == math.MaxInt64
		case 1:
			s.Release(id)
			delete(used, id)
			released[id] = true
		default:
			var got int64
			if f := vk.MustReturn("newid", func() { got = s.NewID() }); f != nil {
				return f
			}
			newIDs++
			if used[got] {
				return vk.Failf("newid-in-use", "step %d: NewID()=%d which is in use (used=%v)", i, got, used)
			}
			if released[got] {
				reuse = true
			}
			if op.K == 3 {
				s.Use(got)
				used[got] = true
				usedMax = usedMax || got == math.MaxInt64
			}
		}
	}
	if usedMax {
		vk.Class("uid: MaxInt64 used (scan path)")
	}
	if reuse {
		vk.Class("uid: released ID handed out again")
	}
	if newIDs > 0 && len(c.Ops) >= 3 {
		vk.NonTrivial("uid", c.Ops)
	}
	return nil
}

func TestUIDSet(t *testing.T) {
	vk.Run(t, "uid-set", vk.Opts{Quick: 6000, Thorough: 200000, NoCrumb: true}, func(t *rapid.T) uidCase {
		return uidCase{Ops: rapid.SliceOfN(rapid.Custom(func(t *rapid.T) uidOp {
			return uidOp{K: rapid.IntRange(0, 3).Draw(t, "k"), ID: rapid.IntRange(0, len(uidU)-1).Draw(t, "id")}
		}), 0, 200).Draw(t, "ops")}
	}, checkUID)
}

// ---- iterator constructors directly ----------------------------------------------

// iterCase: a map is built by inserting Grow keys and deleting all but the
// first Keep of them (so that the runtime map has seen growth and deletions),
// then every iterator constructor of graph/iterator is run over it.
type iterCase struct {
	Grow, Keep int
	Seed       uint64
	Beg, End   int // ImplicitNodes range
}

func checkIterators(c iterCase) *vk.Failure {
	vk.Sample("iterators", c)
	if c.Keep > c.Grow {
		c.Keep = c.Grow
	}
	x := &ctx{m: &model{ki: &kindInfo{name: "graph/iterator"}}, soft: map[string]*vk.Failure{}, classes: map[string]int{}}
	defer x.flushClasses()
	x.opDesc = "constructor"
	r := vk.NewSplitMix(c.Seed)
	ids := make([]int64, 0, c.Grow)
	seen := map[int64]bool{}
	for len(ids) < c.Grow {
		id := int64(r.Uint64() >> uint(r.Intn(60)))
		if r.Intn(4) == 0 {
			id = -id
		}
		if !seen[id] {
			seen[id] = true
			ids = append(ids, id)
		}
	}
	nodes := map[int64]graph.Node{}
	edges := map[int64]graph.Edge{}
	wedges := map[int64]graph.WeightedEdge{}
	lines := map[int64]graph.Line{}
	wlines := map[int64]graph.WeightedLine{}
	byLines := map[int64]map[int64]graph.Line{}
	byWLines := map[int64]map[int64]graph.WeightedLine{}
	root := pn{id: 1 << 40, tag: 9}
	for i, id := range ids {
		n := pn{id: id, tag: i % 5}
		nodes[id] = n
		edges[id] = pe{root, n, i}
		wedges[id] = pwe{root, n, float64(i), i}
		lines[id] = pl{root, n, id, i}
		wlines[id] = pwl{root, n, id, float64(i), i}
		byLines[id] = map[int64]graph.Line{0: pl{root, n, 0, i}}
		byWLines[id] = map[int64]graph.WeightedLine{0: pwl{root, n, 0, 1, i}}
	}
	for _, id := range ids[c.Keep:] {
		delete(nodes, id)
		delete(edges, id)
		delete(wedges, id)
		delete(lines, id)
		delete(wlines, id)
		delete(byLines, id)
		delete(byWLines, id)
	}
	ids = ids[:c.Keep]
	wantNodes := func() []item {
		out := make([]item, len(ids))
		for i, id := range ids {
			out[i] = nodeItem(nodes[id])
		}
		return out
	}
	nodeIters := []struct {
		name string
		it   graph.Nodes
	}{
		{"NewNodes", iterator.NewNodes(nodes)},
		{"NewNodesByEdge", iterator.NewNodesByEdge(nodes, edges)},
		{"NewNodesByWeightedEdge", iterator.NewNodesByWeightedEdge(nodes, wedges)},
		{"NewNodesByLines", iterator.NewNodesByLines(nodes, byLines)},
		{"NewNodesByWeightedLines", iterator.NewNodesByWeightedLines(nodes, byWLines)},
		{"NewLazyOrderedNodes", iterator.NewLazyOrderedNodes(nodes)},
		{"NewLazyOrderedNodesByEdge", iterator.NewLazyOrderedNodesByEdge(nodes, edges)},
		{"NewLazyOrderedNodesByWeightedEdge", iterator.NewLazyOrderedNodesByWeightedEdge(nodes, wedges)},
		{"NewLazyOrderedNodesByLines", iterator.NewLazyOrderedNodesByLines(nodes, byLines)},
		{"NewLazyOrderedNodesByWeightedLines", iterator.NewLazyOrderedNodesByWeightedLines(nodes, byWLines)},
	}
	for _, ni := range nodeIters {
		if f := x.checkIter(nodesView(ni.name, ni.it), wantNodes()); f != nil {
			return f
		}
	}
	var wantL, wantWL []item
	for _, id := range ids {
		wantL = append(wantL, lineItem(lines[id]))
		wantWL = append(wantWL, lineItem(wlines[id]))
	}
	if f := x.checkIter(linesView("NewLines", iterator.NewLines(lines), false), append([]item(nil), wantL...)); f != nil {
		return f
	}
	if f := x.checkIter(wlinesView("NewWeightedLines", iterator.NewWeightedLines(wlines), false), append([]item(nil), wantWL...)); f != nil {
		return f
	}

	// slice backed iterators keep the order they were given
	var ns []graph.Node
	var es []graph.Edge
	var wes []graph.WeightedEdge
	var ls []graph.Line
	var wls []graph.WeightedLine
	var wantE, wantWE []item
	for _, id := range ids {
		ns = append(ns, nodes[id])
		es = append(es, edges[id])
		wes = append(wes, wedges[id])
		ls = append(ls, lines[id])
		wls = append(wls, wlines[id])
		wantE = append(wantE, edgeItem(edges[id], true))
		wantWE = append(wantWE, edgeItem(wedges[id], true))
	}
	ordered := func(v iterView, want []item) *vk.Failure {
		i := 0
		v.each = func(int) *vk.Failure {
			if got := v.cur(); got != want[i] {
				return x.failf("ordered-iter-order", "%v: item %d is %s, the slice passed in has %s there", &v, i, fmtItems([]item{got}), fmtItems([]item{want[i]}))
			}
			i++
			return nil
		}
		return x.checkIter(v, append([]item(nil), want...))
	}
	if f := ordered(nodesView("NewOrderedNodes", iterator.NewOrderedNodes(ns)), wantNodes()); f != nil {
		return f
	}
	if f := ordered(edgesView("NewOrderedEdges", iterator.NewOrderedEdges(es), false, true), wantE); f != nil {
		return f
	}
	if f := ordered(wedgesView("NewOrderedWeightedEdges", iterator.NewOrderedWeightedEdges(wes), false, true), wantWE); f != nil {
		return f
	}
	if f := ordered(linesView("NewOrderedLines", iterator.NewOrderedLines(ls), false), wantL); f != nil {
		return f
	}
	if f := ordered(wlinesView("NewOrderedWeightedLines", iterator.NewOrderedWeightedLines(wls), false), wantWL); f != nil {
		return f
	}

	// implicit nodes over [Beg, End)
	if c.Beg <= c.End {
		var want []item
		for i := c.Beg; i < c.End; i++ {
			want = append(want, item{f: int64(i), ft: 3})
		}
		it := iterator.NewImplicitNodes(c.Beg, c.End, func(id int) graph.Node { return pn{int64(id), 3} })
		if f := ordered(nodesView("NewImplicitNodes", it), want); f != nil {
			return f
		}
	} else if f := vk.MustPanic("implicit-nodes-invalid-range", func() { iterator.NewImplicitNodes(c.Beg, c.End, nil) }); f != nil {
		return f
	}
	switch {
	case c.Keep == 0:
		vk.Class("iterators: empty")
	case c.Keep <= 8:
		vk.Class("iterators: 1..8 items")
	case c.Keep <= 64:
		vk.Class("iterators: 9..64 items")
	default:
		vk.Class("iterators: >64 items")
	}
	if c.Grow > c.Keep {
		vk.Class("iterators: map with deletions")
	}
	if c.Keep > 1 {
		vk.NonTrivial("iter", c.Grow, c.Keep, c.Seed, c.Beg, c.End)
	}
	return x.softResult()
}

func TestIterators(t *testing.T) {
	vk.Run(t, "iterators", vk.Opts{Quick: 3000, Thorough: 60000}, func(t *rapid.T) iterCase {
		grow := vk.Dim(t, "grow", 0, 300, 8, 16, 64, 128)
		keep := grow
		if rapid.Bool().Draw(t, "delete") {
			keep = rapid.IntRange(0, grow).Draw(t, "keep")
		}
		beg := rapid.IntRange(-3, 20).Draw(t, "beg")
		return iterCase{Grow: grow, Keep: keep, Seed: rapid.Uint64().Draw(t, "seed"),
			Beg: beg, End: beg + rapid.IntRange(-1, 12).Draw(t, "len")}
	}, checkIterators)
}
