package c12

import (
	"fmt"
	"slices"

	"verifharness/vk"
)

func newCtx(c *Case) *ctx {
	x := &ctx{c: c, U: c.universe(), LU: c.lineIDs(), inIDs: map[int64]bool{}, soft: map[string]*vk.Failure{}, classes: map[string]int{}}
	x.s = newSUT(c)
	x.m = newModel(c)
	return x
}

// normalise makes a hand edited or shrunk case well formed.
func normalise(c *Case) {
	if c.Kind < 0 || c.Kind >= nKinds {
		c.Kind = ((c.Kind % nKinds) + nKinds) % nKinds
	}
	if kinds[c.Kind].dense {
		if c.N < 1 {
			c.N = 1 // "Matrix graphs must have at least one node."
		}
		if c.N > 24 {
			c.N = 24
		}
	}
}

// queryIDs is the ID set over which all ordered pairs are queried: the whole
// universe when it is small (or full is set), the IDs mentioned so far, and
// every live node.
func (x *ctx) queryIDs(full bool) []int64 {
	ids := slices.Clone(x.ids)
	if full || len(x.U) <= 16 {
		ids = append(ids, x.U...)
	}
	ids = append(ids, x.m.nodeIDs()...)
	slices.Sort(ids)
	return slices.Compact(ids)
}

func checker(sub, part string) func(Case) *vk.Failure {
	return func(c Case) *vk.Failure {
		normalise(&c)
		x := newCtx(&c)
		defer x.flushClasses()
		vk.Sample(sub+"-"+part, c)
		x.step, x.opDesc = -1, "constructor"
		if c.CheckFrom <= 0 {
			if f := x.compare(x.queryIDs(false), nil); f != nil {
				return f
			}
		}
		for i, op := range c.Ops {
			x.step = i
			x.prev, x.cur = x.cur, x.prev[:0]
			if f := x.apply(op); f != nil {
				return f
			}
			x.seq = x.seq*1099511628211 ^ x.m.h
			if i >= c.CheckFrom {
				x.opDesc += "; queries afterwards"
				last := i == len(c.Ops)-1
				ids := x.queryIDs(last)
				// all pairs while the query set is small, periodically and at
				// the end; otherwise the rows and columns of the IDs affected
				// by this step and the previous one
				var recent map[int64]bool
				if !last && len(ids) > 12 && i%16 != 15 {
					recent = make(map[int64]bool, len(x.cur)+len(x.prev))
					for _, id := range x.cur {
						recent[id] = true
					}
					for _, id := range x.prev {
						recent[id] = true
					}
				}
				if f := x.compare(ids, recent); f != nil {
					return f
				}
			}
			if i%32 == 31 {
				vk.Progress()
			}
		}
		x.step = len(c.Ops)
		if f := x.checkAdapters(x.queryIDs(false)); f != nil {
			return f
		}

		// evidence
		ki := x.m.ki
		vk.Class(part + " kind=" + ki.name)
		nk := 0
		for k, u := range x.used {
			if u {
				nk++
				vk.Class("op=" + opNames[k])
			}
		}
		switch n := len(c.Ops); {
		case n <= 8:
			vk.Class("steps<=8")
		case n <= 64:
			vk.Class("steps<=64")
		case n <= 256:
			vk.Class("steps<=256")
		default:
			vk.Class("steps>256")
		}
		if x.m.readd {
			vk.Class("nontrivial=removal-then-readdition")
		}
		if x.m.replace {
			vk.Class("nontrivial=edge-replacement")
		}
		if x.m.readd || x.m.replace || nk >= 3 {
			vk.NonTrivial(sub, c.Kind, x.seq, fmt.Sprint(c.N, c.FromNodes))
		}
		return x.softResult()
	}
}
