package c12

import (
	"fmt"
	"slices"

	"gonum.org/v1/gonum/graph"
	"gonum.org/v1/gonum/graph/iterator"
	"verifharness/vk"
)

// iterView adapts the five iterator interfaces to one shape.
type iterView struct {
	name  string // method name; args are appended lazily
	args  [2]int64
	nargs int
	it    graph.Iterator
	cur   func() item
	slice func() []item           // nil when the iterator has no XxxSlice method
	each  func(i int) *vk.Failure // optional hook on every element of the first pass
}

func (v *iterView) String() string {
	switch v.nargs {
	case 1:
		return fmt.Sprintf("%s(%d)", v.name, v.args[0])
	case 2:
		return fmt.Sprintf("%s(%d,%d)", v.name, v.args[0], v.args[1])
	}
	return v.name
}

func (v iterView) with(args ...int64) iterView {
	v.nargs = copy(v.args[:], args)
	return v
}

func sortItems(s []item) { slices.SortFunc(s, cmpItem) }

func sameItems(a, b []item) bool {
	if len(a) != len(b) {
		return false
	}
	sortItems(a)
	sortItems(b)
	for i := range a {
		if a[i] != b[i] {
			return false
		}
	}
	return true
}

func fmtItems(s []item) string {
	out := "["
	for i, it := range s {
		if i > 0 {
			out += " "
		}
		if i == 12 {
			out += "..."
			break
		}
		out += fmt.Sprintf("{%d->%d id=%d tags=%d,%d,%d", it.f, it.t, it.id, it.ft, it.tt, it.et)
		if it.hasW {
			out += fmt.Sprintf(" w=%#x", it.w)
		}
		out += "}"
	}
	return out + "]"
}

// checkIter verifies the iterator contract against the expected multiset:
// exact multiset, remaining Len before and after every Next, end of iteration
// is stable, Reset restarts, XxxSlice returns exactly the remaining items.
// want may be reordered.
func (x *ctx) checkIter(v iterView, want []item) *vk.Failure {
	if len(want) == 0 && v.it != nil {
		return x.checkEmptyIter(&v)
	}
	return x.checkIterFull(&v, want)
}

// checkEmptyIter is checkIter for an empty model answer, without allocation.
func (x *ctx) checkEmptyIter(v *iterView) *vk.Failure {
	for round := 0; round < 2; round++ {
		if l := v.it.Len(); l > 0 {
			return x.failf("iter-len", "%v: Len()=%d, model has no items", v, l)
		} else if l < 0 {
			x.classes["len-unknown:"+v.name]++
		}
		if v.it.Next() {
			return x.failf("iter-too-many", "%v yields %s, model has no items", v, fmtItems([]item{v.cur()}))
		}
		if f := x.checkAfterEnd(v, item{}, false); f != nil {
			return f
		}
		if v.slice != nil {
			if rest := v.slice(); len(rest) != 0 {
				return x.failf("iter-slice", "%v: slice method returns %s, model has no items", v, fmtItems(rest))
			}
		}
		v.it.Reset()
	}
	return nil
}

func (x *ctx) checkIterFull(v *iterView, want []item) *vk.Failure {
	if v.it == nil {
		return x.failf("iter-nil", "%v returned a nil iterator", v)
	}
	n := len(want)
	got := make([]item, 0, n)
	if l := v.it.Len(); l < 0 {
		x.classes["len-unknown:"+v.name]++
	} else if l != n {
		return x.failf("iter-len", "%v: Len()=%d before iteration, model has %d items %s", v, l, n, fmtItems(want))
	}
	for v.it.Next() {
		if len(got) >= n {
			return x.failf("iter-too-many", "%v yields more than the %d items of the model: %s then %s", v, n, fmtItems(got), fmtItems([]item{v.cur()}))
		}
		got = append(got, v.cur())
		if v.each != nil {
			if f := v.each(len(got) - 1); f != nil {
				return f
			}
		}
		if l := v.it.Len(); l >= 0 && l != n-len(got) {
			if l == n-len(got)+1 && isOrderedEdgesOrLines(v.it) {
				// Known defect of the four slice backed edge/line iterators:
				// the item just returned is still counted.
				x.softf("ordered-iter-len-counts-current-item",
					"%v (%T): Len()=%d after Next returned %d of %d items; the documentation says Len is the number of items remaining", v, v.it, l, len(got), n)
				continue
			}
			return x.failf("iter-len", "%v: Len()=%d after %d of %d items", v, l, len(got), n)
		}
	}
	var last item
	if len(got) > 0 {
		last = got[len(got)-1]
	}
	if f := x.checkAfterEnd(v, last, len(got) > 0); f != nil {
		return f
	}
	if !sameItems(got, want) {
		return x.failf("iter-items", "%v yields %s, model has %s", v, fmtItems(got), fmtItems(want))
	}
	if v.it.Next() {
		return x.failf("iter-next-after-end", "%v: Next() is true again after it returned false", v)
	}
	if l := v.it.Len(); l > 0 {
		return x.failf("iter-len", "%v: Len()=%d after the end", v, l)
	}
	// Reset, consume half, take the rest with the slice method.
	v.it.Reset()
	if l := v.it.Len(); l >= 0 && l != n {
		return x.failf("iter-reset-len", "%v: Len()=%d after Reset, want %d", v, l, n)
	}
	got = got[:0]
	for i := 0; i < n/2; i++ {
		if !v.it.Next() {
			return x.failf("iter-reset", "%v: after Reset only %d of %d items", v, i, n)
		}
		got = append(got, v.cur())
	}
	if v.slice != nil {
		rest := v.slice()
		if k := len(got); k >= 1 && len(rest) == n-k+1 && rest[0] == got[k-1] && isOrderedEdgesOrLines(v.it) {
			// Known defect of the same four iterators: the slice method
			// returns the current item again.
			x.softf("ordered-iter-slice-repeats-current-item",
				"%v (%T): after %d calls of Next the slice method returns %d items starting with the item Next returned last; documented: the items remaining to be iterated", v, v.it, k, len(rest))
			rest = rest[1:]
		}
		all := append(got, rest...)
		if !sameItems(all, want) {
			return x.failf("iter-slice", "%v: %d items by Next then slice %s; together they are not the model's %s", v, n/2, fmtItems(rest), fmtItems(want))
		}
		if l := v.it.Len(); l > 0 {
			return x.failf("iter-slice-len", "%v: Len()=%d after the slice method", v, l)
		}
		if v.it.Next() {
			return x.failf("iter-slice-next", "%v: Next() true after the slice method consumed the iterator", v)
		}
		v.it.Reset()
		got = got[:0]
	}
	for v.it.Next() {
		if len(got) >= n {
			return x.failf("iter-reset-too-many", "%v yields more than %d items after Reset", v, n)
		}
		got = append(got, v.cur())
	}
	if !sameItems(got, want) {
		return x.failf("iter-reset-items", "%v yields %s after Reset, model has %s", v, fmtItems(got), fmtItems(want))
	}
	return nil
}

// checkAfterEnd: graph.Iterator documents that Next "returns whether the next
// call to the item method will return a non-nil item", so after Next returned
// false the item method must return nil.
func (x *ctx) checkAfterEnd(v *iterView, last item, hasLast bool) *vk.Failure {
	it := v.cur()
	if it.f == nilID {
		return nil
	}
	switch v.it.(type) {
	case *iterator.ImplicitNodes:
		// Known defect: the guard in ImplicitNodes.Node is dead code and the
		// node with ID end, which is outside the range, is manufactured.
		if !hasLast || it.f == last.f+1 {
			x.softf("implicit-nodes-item-after-end",
				"%v (%T): after Next returned false Node() returns a new node with ID %d, one past the range; documented: nil", v, v.it, it.f)
			return nil
		}
	case *iterator.Nodes, *iterator.NodesByEdge, *iterator.Lines, *iterator.WeightedLines:
		// Known defect of the map backed iterators: the last item stays current.
		if hasLast && it == last {
			x.softf("map-iter-item-after-end",
				"%v (%T): after Next returned false the item method still returns the last item %s; documented: nil", v, v.it, fmtItems([]item{it}))
			return nil
		}
	}
	return x.failf("iter-item-after-end", "%v (%T): after Next returned false the item method returns %s; documented: nil", v, v.it, fmtItems([]item{it}))
}

func isOrderedEdgesOrLines(it graph.Iterator) bool {
	switch it.(type) {
	case *iterator.OrderedEdges, *iterator.OrderedWeightedEdges, *iterator.OrderedLines, *iterator.OrderedWeightedLines:
		return true
	}
	return false
}

func nodesView(name string, ns graph.Nodes) iterView {
	v := iterView{name: name}
	if ns == nil {
		return v
	}
	v.it = ns
	v.cur = func() item { return nodeItem(ns.Node()) }
	if sl, ok := ns.(graph.NodeSlicer); ok {
		v.slice = func() []item {
			s := sl.NodeSlice()
			out := make([]item, len(s))
			for i, n := range s {
				out[i] = nodeItem(n)
			}
			return out
		}
	}
	return v
}

func edgesView(name string, es graph.Edges, canon, withW bool) iterView {
	v := iterView{name: name}
	if es == nil {
		return v
	}
	conv := func(e graph.Edge) item {
		if e == nil {
			return item{f: nilID, t: nilID}
		}
		it := edgeItem(e, withW)
		if canon {
			it = it.canon()
		}
		return it
	}
	v.it = es
	v.cur = func() item { return conv(es.Edge()) }
	if sl, ok := es.(graph.EdgeSlicer); ok {
		v.slice = func() []item {
			s := sl.EdgeSlice()
			out := make([]item, len(s))
			for i, e := range s {
				out[i] = conv(e)
			}
			return out
		}
	}
	return v
}

func wedgesView(name string, es graph.WeightedEdges, canon, withW bool) iterView {
	v := iterView{name: name}
	if es == nil {
		return v
	}
	conv := func(e graph.WeightedEdge) item {
		if e == nil {
			return item{f: nilID, t: nilID}
		}
		it := edgeItem(e, withW)
		if canon {
			it = it.canon()
		}
		return it
	}
	v.it = es
	v.cur = func() item { return conv(es.WeightedEdge()) }
	if sl, ok := es.(graph.WeightedEdgeSlicer); ok {
		v.slice = func() []item {
			s := sl.WeightedEdgeSlice()
			out := make([]item, len(s))
			for i, e := range s {
				out[i] = conv(e)
			}
			return out
		}
	}
	return v
}

func linesView(name string, ls graph.Lines, canon bool) iterView {
	v := iterView{name: name}
	if ls == nil {
		return v
	}
	conv := func(l graph.Line) item {
		if l == nil {
			return item{f: nilID, t: nilID}
		}
		it := lineItem(l)
		if canon {
			it = it.canon()
		}
		return it
	}
	v.it = ls
	v.cur = func() item { return conv(ls.Line()) }
	if sl, ok := ls.(graph.LineSlicer); ok {
		v.slice = func() []item {
			s := sl.LineSlice()
			out := make([]item, len(s))
			for i, l := range s {
				out[i] = conv(l)
			}
			return out
		}
	}
	return v
}

func wlinesView(name string, ls graph.WeightedLines, canon bool) iterView {
	v := iterView{name: name}
	if ls == nil {
		return v
	}
	conv := func(l graph.WeightedLine) item {
		if l == nil {
			return item{f: nilID, t: nilID}
		}
		it := lineItem(l)
		if canon {
			it = it.canon()
		}
		return it
	}
	v.it = ls
	v.cur = func() item { return conv(ls.WeightedLine()) }
	if sl, ok := ls.(graph.WeightedLineSlicer); ok {
		v.slice = func() []item {
			s := sl.WeightedLineSlice()
			out := make([]item, len(s))
			for i, l := range s {
				out[i] = conv(l)
			}
			return out
		}
	}
	return v
}
