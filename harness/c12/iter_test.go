package c12

import (
	"fmt"
	"slices"

	"gonum.org/v1/gonum/graph"
	"gonum.org/v1/gonum/graph/iterator"
	"verifharness/vk"
)

// iterView adapts the five iterator interfaces to one shape.
type iterView struct {
	name  string
	it    graph.Iterator
	cur   func() item
	slice func() []item         // nil when the iterator has no XxxSlice method
	each  func(i int) *vk.Failure // optional hook on every element of the first pass
}

func sortItems(s []item) { slices.SortFunc(s, cmpItem) }

func sameItems(a, b []item) bool {
	if len(a) != len(b) {
		return false
	}
	sortItems(a)
	sortItems(b)
	for i := range a {
		if a[i] != b[i] {
			return false
		}
	}
	return true
}

func fmtItems(s []item) string {
	out := "["
	for i, it := range s {
		if i > 0 {
			out += " "
		}
		if i == 12 {
			out += "..."
			break
		}
		out += fmt.Sprintf("{%d->%d id=%d tags=%d,%d,%d", it.f, it.t, it.id, it.ft, it.tt, it.et)
		if it.hasW {
			out += fmt.Sprintf(" w=%#x", it.w)
		}
		out += "}"
	}
	return out + "]"
}

// checkIter verifies the iterator contract against the expected multiset:
// exact multiset, remaining Len before and after every Next, end of iteration
// is stable, Reset restarts, XxxSlice returns exactly the remaining items.
// want may be reordered.
func (x *ctx) checkIter(v iterView, want []item) *vk.Failure {
	if v.it == nil {
		return x.failf("iter-nil", "%s returned a nil iterator", v.name)
	}
	n := len(want)
	got := make([]item, 0, n)
	if l := v.it.Len(); l < 0 {
		x.classes["len-unknown:"+v.name]++
	} else if l != n {
		return x.failf("iter-len", "%s: Len()=%d before iteration, model has %d items %s", v.name, l, n, fmtItems(want))
	}
	for v.it.Next() {
		if len(got) >= n {
			return x.failf("iter-too-many", "%s yields more than the %d items of the model: %s then %s", v.name, n, fmtItems(got), fmtItems([]item{v.cur()}))
		}
		got = append(got, v.cur())
		if v.each != nil {
			if f := v.each(len(got) - 1); f != nil {
				return f
			}
		}
		if l := v.it.Len(); l >= 0 && l != n-len(got) {
			if l == n-len(got)+1 && isOrderedEdgesOrLines(v.it) {
				// Known defect of the four slice backed edge/line iterators:
				// the item just returned is still counted.
				x.softFail(x.failf("ordered-iter-len-counts-current-item",
					"%s (%T): Len()=%d after Next returned %d of %d items; the documentation says Len is the number of items remaining", v.name, v.it, l, len(got), n))
				continue
			}
			return x.failf("iter-len", "%s: Len()=%d after %d of %d items", v.name, l, len(got), n)
		}
	}
	if !sameItems(got, want) {
		return x.failf("iter-items", "%s yields %s, model has %s", v.name, fmtItems(got), fmtItems(want))
	}
	if v.it.Next() {
		return x.failf("iter-next-after-end", "%s: Next() is true again after it returned false", v.name)
	}
	if l := v.it.Len(); l > 0 {
		return x.failf("iter-len", "%s: Len()=%d after the end", v.name, l)
	}
	// Reset, consume half, take the rest with the slice method.
	v.it.Reset()
	if l := v.it.Len(); l >= 0 && l != n {
		return x.failf("iter-reset-len", "%s: Len()=%d after Reset, want %d", v.name, l, n)
	}
	got = got[:0]
	for i := 0; i < n/2; i++ {
		if !v.it.Next() {
			return x.failf("iter-reset", "%s: after Reset only %d of %d items", v.name, i, n)
		}
		got = append(got, v.cur())
	}
	if v.slice != nil {
		rest := v.slice()
		if k := len(got); k >= 1 && len(rest) == n-k+1 && rest[0] == got[k-1] && isOrderedEdgesOrLines(v.it) {
			// Known defect of the same four iterators: the slice method
			// returns the current item again.
			x.softFail(x.failf("ordered-iter-slice-repeats-current-item",
				"%s (%T): after %d calls of Next the slice method returns %d items starting with the item Next returned last; documented: the items remaining to be iterated", v.name, v.it, k, len(rest)))
			rest = rest[1:]
		}
		all := append(got, rest...)
		if !sameItems(all, want) {
			return x.failf("iter-slice", "%s: %d items by Next then slice %s; together they are not the model's %s", v.name, n/2, fmtItems(rest), fmtItems(want))
		}
		if l := v.it.Len(); l > 0 {
			return x.failf("iter-slice-len", "%s: Len()=%d after the slice method", v.name, l)
		}
		if v.it.Next() {
			return x.failf("iter-slice-next", "%s: Next() true after the slice method consumed the iterator", v.name)
		}
		v.it.Reset()
		got = got[:0]
	}
	for v.it.Next() {
		if len(got) >= n {
			return x.failf("iter-reset-too-many", "%s yields more than %d items after Reset", v.name, n)
		}
		got = append(got, v.cur())
	}
	if !sameItems(got, want) {
		return x.failf("iter-reset-items", "%s yields %s after Reset, model has %s", v.name, fmtItems(got), fmtItems(want))
	}
	return nil
}

func isOrderedEdgesOrLines(it graph.Iterator) bool {
	switch it.(type) {
	case *iterator.OrderedEdges, *iterator.OrderedWeightedEdges, *iterator.OrderedLines, *iterator.OrderedWeightedLines:
		return true
	}
	return false
}

func nodesView(name string, ns graph.Nodes) iterView {
	v := iterView{name: name}
	if ns == nil {
		return v
	}
	v.it = ns
	v.cur = func() item { return nodeItem(ns.Node()) }
	if sl, ok := ns.(graph.NodeSlicer); ok {
		v.slice = func() []item {
			s := sl.NodeSlice()
			out := make([]item, len(s))
			for i, n := range s {
				out[i] = nodeItem(n)
			}
			return out
		}
	}
	return v
}

func edgesView(name string, es graph.Edges, canon, withW bool) iterView {
	v := iterView{name: name}
	if es == nil {
		return v
	}
	conv := func(e graph.Edge) item {
		if e == nil {
			return item{f: nilID, t: nilID}
		}
		it := edgeItem(e, withW)
		if canon {
			it = it.canon()
		}
		return it
	}
	v.it = es
	v.cur = func() item { return conv(es.Edge()) }
	if sl, ok := es.(graph.EdgeSlicer); ok {
		v.slice = func() []item {
			s := sl.EdgeSlice()
			out := make([]item, len(s))
			for i, e := range s {
				out[i] = conv(e)
			}
			return out
		}
	}
	return v
}

func wedgesView(name string, es graph.WeightedEdges, canon, withW bool) iterView {
	v := iterView{name: name}
	if es == nil {
		return v
	}
	conv := func(e graph.WeightedEdge) item {
		if e == nil {
			return item{f: nilID, t: nilID}
		}
		it := edgeItem(e, withW)
		if canon {
			it = it.canon()
		}
		return it
	}
	v.it = es
	v.cur = func() item { return conv(es.WeightedEdge()) }
	if sl, ok := es.(graph.WeightedEdgeSlicer); ok {
		v.slice = func() []item {
			s := sl.WeightedEdgeSlice()
			out := make([]item, len(s))
			for i, e := range s {
				out[i] = conv(e)
			}
			return out
		}
	}
	return v
}

func linesView(name string, ls graph.Lines, canon bool) iterView {
	v := iterView{name: name}
	if ls == nil {
		return v
	}
	conv := func(l graph.Line) item {
		if l == nil {
			return item{f: nilID, t: nilID}
		}
		it := lineItem(l)
		if canon {
			it = it.canon()
		}
		return it
	}
	v.it = ls
	v.cur = func() item { return conv(ls.Line()) }
	if sl, ok := ls.(graph.LineSlicer); ok {
		v.slice = func() []item {
			s := sl.LineSlice()
			out := make([]item, len(s))
			for i, l := range s {
				out[i] = conv(l)
			}
			return out
		}
	}
	return v
}

func wlinesView(name string, ls graph.WeightedLines, canon bool) iterView {
	v := iterView{name: name}
	if ls == nil {
		return v
	}
	conv := func(l graph.WeightedLine) item {
		if l == nil {
			return item{f: nilID, t: nilID}
		}
		it := lineItem(l)
		if canon {
			it = it.canon()
		}
		return it
	}
	v.it = ls
	v.cur = func() item { return conv(ls.WeightedLine()) }
	if sl, ok := ls.(graph.WeightedLineSlicer); ok {
		v.slice = func() []item {
			s := sl.WeightedLineSlice()
			out := make([]item, len(s))
			for i, l := range s {
				out[i] = conv(l)
			}
			return out
		}
	}
	return v
}
