// Package c12 checks property C12: graph containers stay consistent with a set
// model under any mutation history.
package c12

import (
	"testing"

	"verifharness/vk"
)

func TestMain(m *testing.M) { vk.Main(m, "C12") }
