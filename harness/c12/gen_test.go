package c12

import (
	"fmt"
	"math"
	"os"
	"sort"
	"strings"
	"testing"

	"pgregory.net/rapid"
	"verifharness/vk"
)

// ---- random histories ---------------------------------------------------------

var weightPool = []float64{0, 1, -1, 2.5, 0.125, -3.75, 8, math.Inf(1), math.Inf(-1), math.NaN(), math.Copysign(0, -1)}

func drawWeight(t *rapid.T, label string, extra ...float64) vk.F {
	k := rapid.IntRange(0, len(weightPool)+len(extra)+3).Draw(t, label)
	switch {
	case k < len(weightPool):
		return vk.F(weightPool[k])
	case k < len(weightPool)+len(extra):
		return vk.F(extra[k-len(weightPool)])
	}
	return vk.F(float64(rapid.IntRange(-64, 64).Draw(t, label+"_dy")) / 8)
}

// opTable lists the operation kinds of a family with their frequencies.
func opTable(ki *kindInfo) []int {
	var w map[int]int
	switch {
	case ki.dense:
		w = map[int]int{opSetEdge: 7, opSetUnit: 4, opRemoveEdge: 7}
	case ki.multi:
		w = map[int]int{opAddNode: 5, opNewNode: 3, opRemoveNode: 5, opSetEdge: 14, opNewLine: 6, opRemoveLine: 11, opNodeWithID: 3}
	default:
		w = map[int]int{opAddNode: 6, opNewNode: 4, opRemoveNode: 5, opSetEdge: 17, opRemoveEdge: 10, opNodeWithID: 4}
	}
	var out []int
	for k := 0; k < nOps; k++ {
		for i := 0; i < w[k]; i++ {
			out = append(out, k)
		}
	}
	return out
}

// drawID draws an index into the universe, independent of the state of the
// graph: a few hot IDs (which include the extreme ones) come up often enough
// for replacements, removals of existing things and ID reuse to happen.
func drawID(t *rapid.T, c *Case, label string) int {
	switch {
	case kinds[c.Kind].dense:
		if c.N+2 <= 0 || rapid.IntRange(0, 5).Draw(t, label+"_out") == 0 {
			return c.N + rapid.IntRange(0, 1+len(denseOutside)).Draw(t, label)
		}
		return rapid.IntRange(0, c.N-1).Draw(t, label)
	case c.UK == 0:
		return rapid.IntRange(0, c.NU-1).Draw(t, label)
	}
	switch k := rapid.IntRange(0, 7).Draw(t, label+"_hot"); {
	case k < 4:
		return rapid.IntRange(0, 3).Draw(t, label)
	case k < 6:
		return rapid.IntRange(0, 7).Draw(t, label)
	}
	return rapid.IntRange(0, len(bigU)-1).Draw(t, label)
}

func drawCase(t *rapid.T, kindSet []int, maxMin, maxLen int) Case {
	c := Case{Kind: rapid.SampledFrom(kindSet).Draw(t, "kind")}
	ki := &kinds[c.Kind]
	if ki.dense {
		c.N = rapid.IntRange(1, 9).Draw(t, "n")
		c.FromNodes = rapid.Bool().Draw(t, "fromnodes")
		c.Seed = rapid.Uint64().Draw(t, "seed")
		c.Absent = drawWeight(t, "absent")
		c.Self = drawWeight(t, "self")
		c.Init = drawWeight(t, "init", float64(c.Absent), float64(c.Absent))
	} else {
		// 64 IDs mostly, sometimes a tiny universe where everything collides
		if rapid.IntRange(0, 4).Draw(t, "tinyuniverse") == 0 {
			c.UK, c.NU = 0, rapid.IntRange(1, 5).Draw(t, "nu")
		} else {
			c.UK = 1
		}
		if ki.multi {
			c.NL = rapid.IntRange(1, len(lineU)).Draw(t, "nl")
			if ki.weighted {
				c.EWF = rapid.IntRange(0, 1).Draw(t, "ewf")
			}
		} else if ki.weighted {
			c.Absent = drawWeight(t, "absent")
			c.Self = drawWeight(t, "self")
		}
	}
	if ki.directed && ki.weighted {
		c.Merge = rapid.IntRange(0, 2).Draw(t, "merge")
		c.UAbs = drawWeight(t, "uabs")
	}
	table := opTable(ki)
	min := rapid.IntRange(0, maxMin).Draw(t, "minlen")
	opGen := rapid.Custom(func(t *rapid.T) Op {
		op := Op{K: rapid.SampledFrom(table).Draw(t, "op")}
		op.A = drawID(t, &c, "a")
		switch op.K {
		case opSetEdge, opSetUnit, opNewLine, opRemoveEdge, opRemoveLine:
			op.B = drawID(t, &c, "b")
		}
		switch op.K {
		case opSetEdge, opRemoveLine:
			if ki.multi {
				op.L = rapid.IntRange(0, c.NL-1).Draw(t, "l")
			}
		}
		switch op.K {
		case opSetEdge, opNewLine:
			if ki.weighted {
				if ki.multi {
					op.W = drawWeight(t, "w")
				} else {
					op.W = drawWeight(t, "w", float64(c.Absent), float64(c.Self))
				}
			}
		}
		switch op.K {
		case opAddNode, opNewNode, opSetEdge, opSetUnit, opNewLine, opNodeWithID:
			op.T = rapid.IntRange(0, 3).Draw(t, "t")
		}
		return op
	})
	c.Ops = rapid.SliceOfN(opGen, min, maxLen).Draw(t, "ops")
	return c
}

// lengths: rapid draws min + a geometric number (mean about min) of operations.
func histLens(t *rapid.T) (maxMin, maxLen int) {
	if vk.Quick() {
		return 60, 240 // mean about 60
	}
	switch k := rapid.IntRange(0, 19).Draw(t, "lenclass"); {
	case k == 0:
		return 500, 1000
	case k < 4:
		return 200, 600
	}
	return 70, 300
}

func TestSimple(t *testing.T) {
	set := []int{kSD, kSU, kSWD, kSWU}
	runExhaustive(t, "simple", simpleSpaces())
	vk.Run(t, "simple", vk.Opts{Quick: 8000, Thorough: 50000}, func(t *rapid.T) Case {
		mm, ml := histLens(t)
		return drawCase(t, set, mm, ml)
	}, checker("simple", "random"))
}

func TestDense(t *testing.T) {
	set := []int{kDM, kUM}
	runExhaustive(t, "dense", denseSpaces())
	vk.Run(t, "dense", vk.Opts{Quick: 4000, Thorough: 30000}, func(t *rapid.T) Case {
		mm, ml := histLens(t)
		return drawCase(t, set, mm, ml)
	}, checker("dense", "random"))
}

func TestMulti(t *testing.T) {
	set := []int{kMD, kMU, kMWD, kMWU}
	runExhaustive(t, "multi", multiSpaces())
	vk.Run(t, "multi", vk.Opts{Quick: 7000, Thorough: 40000}, func(t *rapid.T) Case {
		mm, ml := histLens(t)
		return drawCase(t, set, mm, ml)
	}, checker("multi", "random"))
}

// ---- exhaustive part: every operation out of every abstract state -------------

type space struct {
	proto Case
	hist  [][]Op // shortest history of every reachable abstract state
	final []Op   // every operation tried out of every state
}

func (m *model) stateKey() string {
	var sb strings.Builder
	for _, id := range m.nodeIDs() {
		fmt.Fprintf(&sb, "%d,", id)
	}
	sb.WriteByte('|')
	for _, p := range m.pairs() {
		ls := m.lines(p.u, p.v)
		for _, r := range ls {
			fmt.Fprintf(&sb, "%d>%d#%d,", p.u, p.v, r.id)
		}
	}
	return sb.String()
}

// modelApply is the model side of ctx.apply for the deterministic operations
// (used only to enumerate the abstract state space).
func modelApply(m *model, U, LU []int64, op Op) {
	a, b, lid := pick(U, op.A), pick(U, op.B), pick(LU, op.L)
	switch op.K {
	case opAddNode:
		if !m.ki.dense && !m.has(a) {
			m.addNode(a, 0)
		}
	case opRemoveNode:
		if !m.ki.dense {
			m.removeNode(a)
		}
	case opSetEdge:
		switch {
		case m.ki.dense:
			if a != b && m.has(a) && m.has(b) {
				m.denseSet(a, b, float64(op.W), 0, 0)
			}
		case m.ki.multi:
			m.setLine(rec{f: a, t: b, id: lid})
		case a != b:
			m.setLine(rec{f: a, t: b})
		}
	case opRemoveEdge:
		if m.ki.dense {
			m.denseRemove(a, b)
		} else if !m.ki.multi {
			m.removeLine(a, b, 0)
		}
	case opRemoveLine:
		if m.ki.multi {
			m.removeLine(a, b, lid)
		}
	}
}

func buildSpace(proto Case, nID int, moves, final []Op) *space {
	sp := &space{proto: proto, final: final}
	U, LU := proto.universe(), proto.lineIDs()
	_ = nID
	replay := func(h []Op) *model {
		m := newModel(&proto)
		for _, op := range h {
			modelApply(m, U, LU, op)
		}
		return m
	}
	seen := map[string]bool{replay(nil).stateKey(): true}
	sp.hist = append(sp.hist, nil)
	for i := 0; i < len(sp.hist); i++ {
		h := sp.hist[i]
		for _, op := range moves {
			m := replay(h)
			modelApply(m, U, LU, op)
			k := m.stateKey()
			if !seen[k] {
				seen[k] = true
				nh := append(append(make([]Op, 0, len(h)+1), h...), op)
				sp.hist = append(sp.hist, nh)
			}
		}
	}
	return sp
}

func (sp *space) size() int { return len(sp.hist) * len(sp.final) }

func (sp *space) gen(i int) Case {
	h, op := sp.hist[i/len(sp.final)], sp.final[i%len(sp.final)]
	c := sp.proto
	c.Ops = append(append(make([]Op, 0, len(h)+1), h...), op)
	c.CheckFrom = len(h)
	return c
}

func runExhaustive(t *testing.T, sub string, spaces []*space) {
	if os.Getenv("C12_PART") == "random" { // development switch: skip the exhaustive part
		return
	}
	total := 0
	var offs []int
	for _, sp := range spaces {
		offs = append(offs, total)
		total += sp.size()
		if sh, _ := vk.Shard(); sh == 0 {
			vk.Extra(fmt.Sprintf("exhaustive %s: abstract states of %s (IDs=%d lineIDs=%d n=%d fromNodes=%v absent=%v)", sub, kinds[sp.proto.Kind].name, sp.proto.NU, sp.proto.NL-1, sp.proto.N, sp.proto.FromNodes, float64(sp.proto.Absent)), int64(len(sp.hist)))
			vk.Extra(fmt.Sprintf("exhaustive %s: operations tried out of every state of %s (IDs=%d lineIDs=%d n=%d)", sub, kinds[sp.proto.Kind].name, sp.proto.NU, sp.proto.NL-1, sp.proto.N), int64(len(sp.final)))
		}
	}
	vk.Enumerate(t, sub, total, func(i int) Case {
		k := sort.Search(len(offs), func(j int) bool { return offs[j] > i }) - 1
		return spaces[k].gen(i - offs[k])
	}, checker(sub, "exhaustive"))
}

func simpleSpaces() []*space {
	nu := vk.Pick(3, 4)
	var out []*space
	for _, kind := range []int{kSD, kSU, kSWD, kSWU} {
		proto := Case{Kind: kind, NU: nu, Self: vk.F(-2), Absent: vk.F(math.Inf(1)), Merge: kind % 3, UAbs: 1}
		var moves, final []Op
		for a := 0; a < nu; a++ {
			moves = append(moves, Op{K: opAddNode, A: a}, Op{K: opRemoveNode, A: a})
			final = append(final, Op{K: opAddNode, A: a, T: 1}, Op{K: opRemoveNode, A: a},
				Op{K: opNodeWithID, A: a}, Op{K: opNodeWithID, A: a, T: 1})
			for b := 0; b < nu; b++ {
				moves = append(moves, Op{K: opSetEdge, A: a, B: b, W: 1}, Op{K: opRemoveEdge, A: a, B: b})
				final = append(final, Op{K: opSetEdge, A: a, B: b, W: 2.5, T: 1}, Op{K: opRemoveEdge, A: a, B: b})
			}
		}
		final = append(final, Op{K: opNewNode}, Op{K: opNewNode, T: 1})
		out = append(out, buildSpace(proto, nu, moves, final))
	}
	return out
}

func multiSpaces() []*space {
	type dims struct{ nu, nl int }
	ds := []dims{{2, 2}}
	if !vk.Quick() {
		ds = []dims{{3, 1}, {2, 3}}
	}
	var out []*space
	for _, kind := range []int{kMD, kMU, kMWD, kMWU} {
		for _, d := range ds {
			// one more line ID than the state space uses: the absent line ID
			proto := Case{Kind: kind, NU: d.nu, NL: d.nl + 1, EWF: kind % 2, Merge: 1, UAbs: 0}
			var moves, final []Op
			for a := 0; a < d.nu; a++ {
				moves = append(moves, Op{K: opAddNode, A: a}, Op{K: opRemoveNode, A: a})
				final = append(final, Op{K: opAddNode, A: a, T: 1}, Op{K: opRemoveNode, A: a},
					Op{K: opNodeWithID, A: a}, Op{K: opNodeWithID, A: a, T: 1})
				for b := 0; b < d.nu; b++ {
					for l := 0; l < d.nl; l++ {
						moves = append(moves, Op{K: opSetEdge, A: a, B: b, L: l, W: 1}, Op{K: opRemoveLine, A: a, B: b, L: l})
						final = append(final, Op{K: opSetEdge, A: a, B: b, L: l, W: 2.5, T: 1})
					}
					for l := 0; l <= d.nl; l++ {
						final = append(final, Op{K: opRemoveLine, A: a, B: b, L: l})
					}
					final = append(final, Op{K: opNewLine, A: a, B: b, W: 0.5}, Op{K: opNewLine, A: a, B: b, W: 0.5, T: 1})
				}
			}
			final = append(final, Op{K: opNewNode}, Op{K: opNewNode, T: 1})
			out = append(out, buildSpace(proto, d.nu, moves, final))
		}
	}
	return out
}

func denseSpaces() []*space {
	var out []*space
	for _, kind := range []int{kDM, kUM} {
		for _, from := range []bool{false, true} {
			for _, absent := range []float64{0, math.NaN()} {
				// quick: n=3, all variants; thorough additionally n=4 for
				// (implicit nodes, absent 0) and (...From nodes, absent NaN)
				out = append(out, denseSpace(kind, 3, from, absent))
				if !vk.Quick() && from == math.IsNaN(absent) {
					out = append(out, denseSpace(kind, 4, from, absent))
				}
			}
		}
	}
	return out
}

func denseSpace(kind, n int, from bool, absent float64) *space {
	proto := Case{Kind: kind, N: n, FromNodes: from, Seed: 12345, Init: vk.F(absent), Self: vk.F(3), Absent: vk.F(absent), Merge: 2, UAbs: vk.F(absent)}
	var moves, final []Op
	// universe indices: 0..n-1 inside, n, n+1 just outside, n+2 is -1
	for a := 0; a <= n+2; a++ {
		for b := 0; b <= n+2; b++ {
			if a < n && b < n {
				moves = append(moves, Op{K: opSetEdge, A: a, B: b, W: 1}, Op{K: opRemoveEdge, A: a, B: b})
			}
			final = append(final, Op{K: opSetUnit, A: a, B: b, T: 1}, Op{K: opSetEdge, A: a, B: b, W: 2.5, T: 1},
				Op{K: opSetEdge, A: a, B: b, W: vk.F(absent), T: 2}, Op{K: opRemoveEdge, A: a, B: b})
		}
	}
	return buildSpace(proto, n, moves, final)
}
