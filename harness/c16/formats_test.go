package c16

import (
	"encoding/json"
	"encoding/xml"
	"fmt"
	"reflect"
	"strings"
	"testing"
	"time"
	"unicode/utf8"

	"gonum.org/v1/gonum/graph/formats/cytoscapejs"
	"gonum.org/v1/gonum/graph/formats/gexf12"
	"gonum.org/v1/gonum/graph/formats/sigmajs"
	"pgregory.net/rapid"
	"verifharness/vk"
)

// ---- JSON documents: cytoscapejs (two layouts) and sigmajs ----------------------------

// jElem is the harness's own description of a node or edge, converted into the
// gonum types by the check (so that a replay file does not depend on the
// MarshalJSON methods under test).
type jElem struct {
	Group                                 string
	ID, Source, Target, Parent            string
	Attrs                                 map[string]any
	Pos, RPos                             *[2]vk.F
	Selected, Selectable, Locked, Grabble bool
	Classes                               string
	Scratch                               any
}

type jsonCase struct {
	Kind   int // 0 cytoscapejs.GraphElem, 1 cytoscapejs.GraphNodeEdge, 2 sigmajs.Graph
	Elems  []jElem
	Layout any
	Style  []any
}

var reservedKeys = map[string]bool{"id": true, "source": true, "target": true, "parent": true}

func pos(p *[2]vk.F) *cytoscapejs.Position {
	if p == nil {
		return nil
	}
	return &cytoscapejs.Position{X: float64(p[0]), Y: float64(p[1])}
}

func cloneAny(v any) any {
	switch x := v.(type) {
	case map[string]any:
		m := make(map[string]any, len(x))
		for k, e := range x {
			m[k] = cloneAny(e)
		}
		return m
	case []any:
		s := make([]any, len(x))
		for i, e := range x {
			s[i] = cloneAny(e)
		}
		return s
	}
	return v
}

func cloneAttrs(m map[string]any) map[string]any {
	if m == nil {
		return nil
	}
	return cloneAny(m).(map[string]any)
}

func cloneSlice(s []any) []any {
	if s == nil {
		return nil
	}
	return cloneAny(s).([]any)
}

// build returns a fresh value of the document type.
func (c jsonCase) build() any {
	switch c.Kind {
	case 0:
		g := &cytoscapejs.GraphElem{Layout: cloneAny(c.Layout), Style: cloneSlice(c.Style)}
		for _, e := range c.Elems {
			g.Elements = append(g.Elements, cytoscapejs.Element{
				Group:    e.Group,
				Data:     cytoscapejs.ElemData{ID: e.ID, Source: e.Source, Target: e.Target, Parent: e.Parent, Attributes: cloneAttrs(e.Attrs)},
				Position: pos(e.Pos), RenderedPosition: pos(e.RPos),
				Selected: e.Selected, Selectable: e.Selectable, Locked: e.Locked, Grabbable: e.Grabble,
				Classes: e.Classes, Scratch: cloneAny(e.Scratch),
			})
		}
		return g
	case 1:
		g := &cytoscapejs.GraphNodeEdge{Layout: cloneAny(c.Layout), Style: cloneSlice(c.Style)}
		for _, e := range c.Elems {
			if e.Source == "" && e.Target == "" {
				g.Elements.Nodes = append(g.Elements.Nodes, cytoscapejs.Node{
					Data:     cytoscapejs.NodeData{ID: e.ID, Parent: e.Parent, Attributes: cloneAttrs(e.Attrs)},
					Position: pos(e.Pos), RenderedPosition: pos(e.RPos),
					Selected: e.Selected, Selectable: e.Selectable, Locked: e.Locked, Grabbable: e.Grabble,
					Classes: e.Classes, Scratch: cloneAny(e.Scratch),
				})
			} else {
				g.Elements.Edges = append(g.Elements.Edges, cytoscapejs.Edge{
					Data:     cytoscapejs.EdgeData{ID: e.ID, Source: e.Source, Target: e.Target, Attributes: cloneAttrs(e.Attrs)},
					Selected: e.Selected, Selectable: e.Selectable, Classes: e.Classes, Scratch: cloneAny(e.Scratch),
				})
			}
		}
		return g
	default:
		g := &sigmajs.Graph{}
		for _, e := range c.Elems {
			if e.Source == "" && e.Target == "" {
				g.Nodes = append(g.Nodes, sigmajs.Node{ID: e.ID, Attributes: cloneAttrs(e.Attrs)})
			} else {
				g.Edges = append(g.Edges, sigmajs.Edge{ID: e.ID, Source: e.Source, Target: e.Target, Attributes: cloneAttrs(e.Attrs)})
			}
		}
		return g
	}
}

func newDoc(kind int) any {
	switch kind {
	case 0:
		return &cytoscapejs.GraphElem{}
	case 1:
		return &cytoscapejs.GraphNodeEdge{}
	default:
		return &sigmajs.Graph{}
	}
}

var docNames = []string{"cytoscapejs.GraphElem", "cytoscapejs.GraphNodeEdge", "sigmajs.Graph"}

func checkJSONDoc(c jsonCase) *vk.Failure {
	vk.Sample("json-rt", c)
	name := docNames[c.Kind]
	collide, extras := false, false
	for _, e := range c.Elems {
		for k := range e.Attrs {
			extras = true
			if reservedKeys[k] {
				collide = true
			}
		}
	}
	vk.Class(fmt.Sprintf("rt %s extra-attributes=%v reserved-key-collision=%v", name, extras, collide))
	if extras {
		vk.NonTrivial("json", fmt.Sprintf("%+v", c))
	}
	v := c.build()
	var b []byte
	var err error
	if r := vk.Call(func() { b, err = json.Marshal(v) }); r.Outcome != vk.Returned {
		return vk.Failf("marshal-panics", "json.Marshal(%s): %v %s", name, r.Outcome, r.Text)
	}
	if err != nil {
		return vk.Failf("marshal-error", "json.Marshal(%s): %v", name, err)
	}
	back := newDoc(c.Kind)
	if r := vk.Call(func() { err = json.Unmarshal(b, back) }); r.Outcome != vk.Returned {
		return vk.Failf("unmarshal-panics", "json.Unmarshal into %s of %s: %v %s", name, b, r.Outcome, r.Text)
	}
	if collide {
		// Nothing is documented about which value wins for an attribute named like
		// one of the reserved keys (the JSON object has one member of that name),
		// so the decoded document is not judged; but encoding must not change the
		// value being encoded.
		if pristine := c.build(); !reflect.DeepEqual(v, pristine) {
			return vk.Failf("marshal-mutates-reserved-attribute", "json.Marshal changed the %s value it encoded (an Attributes entry named like a reserved key is gone or replaced): now %+v, was %+v", name, v, pristine)
		}
		return nil
	}
	if err != nil {
		return vk.Failf("unmarshal-error", "json.Unmarshal into %s of its own Marshal output %s: %v", name, b, err)
	}
	if pristine := c.build(); !reflect.DeepEqual(v, pristine) {
		return vk.Failf("marshal-mutates", "json.Marshal changed the %s value: now %+v, was %+v", name, v, pristine)
	}
	if !reflect.DeepEqual(v, back) {
		return vk.Failf("roundtrip-differs", "%s: Unmarshal(Marshal(v)) = %+v\nv = %+v\nJSON: %s", name, back, v, b)
	}
	if g, ok := back.(*cytoscapejs.GraphElem); ok {
		// documented: "Type returns the element type of the receiver. It returns an
		// error if the Element Group is invalid or does not match the Element Data,
		// or if the Element Data is an incomplete edge."
		for i, e := range g.Elements {
			et, err := e.Type()
			node := e.Data.Source == "" && e.Data.Target == ""
			edge := e.Data.Source != "" && e.Data.Target != ""
			wantErr := (!node && !edge) || !(e.Group == "" || (e.Group == "node" && node) || (e.Group == "edge" && edge))
			switch {
			case wantErr != (err != nil):
				return vk.Failf("element-type-error", "element %d (group %q, source %q, target %q): Type() = (%v, %v)", i, e.Group, e.Data.Source, e.Data.Target, et, err)
			case err == nil && node && et != cytoscapejs.NodeElement:
				return vk.Failf("element-type-node", "element %d is a node (group %q) but Type() = %v", i, e.Group, et)
			case err == nil && edge && et != cytoscapejs.EdgeElement:
				return vk.Failf("element-type-edge", "element %d has source %q, target %q and group %q, but Type() = %v (NodeElement=%v, EdgeElement=%v)", i, e.Data.Source, e.Data.Target, e.Group, et, cytoscapejs.NodeElement, cytoscapejs.EdgeElement)
			}
		}
	}
	return nil
}

var jsonStrings = []string{"", "a", "n1", "é", "日本", "😀", "a b", "\"", "\\", "<script>", "&amp;", " ", "\x00", "\n", "\t", "0", "null", "true", "{}", "id", "source", "-1", "1e3"}
var jsonKeys = []string{"label", "weight", "x", "color", "", "é", "a.b", "ID", "Id", "Source", "data", "\"", "k\n"}

func drawJSONValue(t *rapid.T, label string, depth int) any {
	hi := 6
	if depth <= 0 {
		hi = 4
	}
	switch rapid.IntRange(0, hi).Draw(t, label+"_kind") {
	case 0:
		return nil
	case 1:
		return rapid.Bool().Draw(t, label+"_bool")
	case 2:
		return rapid.SampledFrom([]float64{0, 1, -1, 0.5, 1e21, 1e-7, 123456789.125, 9007199254740993, -2.5e-300, 1.7976931348623157e308}).Draw(t, label+"_num")
	case 3, 4:
		return rapid.SampledFrom(jsonStrings).Draw(t, label+"_str")
	case 5:
		n := rapid.IntRange(0, 3).Draw(t, label+"_len")
		s := make([]any, n)
		for i := range s {
			s[i] = drawJSONValue(t, label+"_e", depth-1)
		}
		return s
	default:
		return map[string]any(drawJSONMap(t, label+"_m", depth-1, false, 0))
	}
}

func drawJSONMap(t *rapid.T, label string, depth int, allowReserved bool, minLen int) map[string]any {
	n := rapid.IntRange(minLen, 3).Draw(t, label+"_n")
	m := map[string]any{}
	for i := 0; i < n; i++ {
		k := rapid.SampledFrom(jsonKeys).Draw(t, label+"_key")
		if allowReserved && rapid.IntRange(0, 7).Draw(t, label+"_reserved") == 0 {
			k = rapid.SampledFrom([]string{"id", "source", "target", "parent"}).Draw(t, label+"_rkey")
		}
		m[k] = drawJSONValue(t, label+"_val", depth)
	}
	return m
}

func drawJSONDoc(t *rapid.T) jsonCase {
	c := jsonCase{Kind: rapid.IntRange(0, 2).Draw(t, "kind")}
	n := rapid.IntRange(0, 5).Draw(t, "nelem")
	collisions := rapid.IntRange(0, 9).Draw(t, "collisions") == 0
	for i := 0; i < n; i++ {
		e := jElem{ID: rapid.SampledFrom(jsonStrings).Draw(t, "id")}
		switch rapid.IntRange(0, 3).Draw(t, "shape") {
		case 0, 1: // node
			e.Parent = rapid.SampledFrom([]string{"", "", "p", "é"}).Draw(t, "parent")
		case 2: // edge
			e.Source = rapid.SampledFrom(jsonStrings[1:]).Draw(t, "source")
			e.Target = rapid.SampledFrom(jsonStrings[1:]).Draw(t, "target")
		default: // incomplete edge (GraphElem only) or edge with empty end
			e.Source = rapid.SampledFrom(jsonStrings[1:]).Draw(t, "source")
			if c.Kind != 0 {
				e.Target = "t"
			}
		}
		if rapid.Bool().Draw(t, "extras") {
			e.Attrs = drawJSONMap(t, "attrs", 2, collisions, 1)
		}
		if c.Kind == 0 {
			e.Group = rapid.SampledFrom([]string{"", "", "node", "edge", "nodes", "Node"}).Draw(t, "group")
		}
		if c.Kind != 2 {
			if rapid.IntRange(0, 2).Draw(t, "haspos") == 0 {
				e.Pos = &[2]vk.F{vk.F(rapid.SampledFrom([]float64{0, 1.5, -3, 1e9}).Draw(t, "px")), vk.F(rapid.SampledFrom([]float64{0, 2.25, -1e-9}).Draw(t, "py"))}
			}
			if rapid.IntRange(0, 3).Draw(t, "hasrpos") == 0 {
				e.RPos = &[2]vk.F{0, vk.F(rapid.SampledFrom([]float64{0, 7}).Draw(t, "ry"))}
			}
			e.Selected, e.Selectable = rapid.Bool().Draw(t, "selected"), rapid.Bool().Draw(t, "selectable")
			e.Locked, e.Grabble = rapid.Bool().Draw(t, "locked"), rapid.Bool().Draw(t, "grabbable")
			e.Classes = rapid.SampledFrom([]string{"", "a b", "é"}).Draw(t, "classes")
			if rapid.IntRange(0, 2).Draw(t, "hasscratch") == 0 {
				e.Scratch = drawJSONValue(t, "scratch", 1)
			}
			if e.Source != "" || e.Target != "" {
				if c.Kind == 1 { // cytoscapejs.Edge has no position, lock or grab fields
					e.Pos, e.RPos, e.Locked, e.Grabble = nil, nil, false, false
				}
			}
		}
		c.Elems = append(c.Elems, e)
	}
	if c.Kind != 2 {
		if rapid.Bool().Draw(t, "haslayout") {
			c.Layout = drawJSONValue(t, "layout", 2)
		}
		if rapid.Bool().Draw(t, "hasstyle") {
			k := rapid.IntRange(1, 3).Draw(t, "nstyle")
			for i := 0; i < k; i++ {
				c.Style = append(c.Style, drawJSONValue(t, "style", 2))
			}
		}
	}
	return c
}

func TestJSONFormatsRoundTrip(t *testing.T) {
	vk.Run(t, "json-rt", vk.Opts{Quick: 20000, Thorough: 400000, NoCrumb: true}, drawJSONDoc, checkJSONDoc)
}

// ---- GEXF 1.2 ---------------------------------------------------------------------------------

type gexfCase struct {
	Seed          uint64
	NNodes        int
	NEdges        int
	Depth         int // nesting of hierarchical nodes
	Meta          bool
	Year, Mon, Dy int // LastModified (Year 0: zero time)
	Viz           bool
	Dynamics      bool
	Hostile       bool // strings from the hostile list
}

var gexfPlain = []string{"", "a", "n0", "label", "2009-03-20", "true", "1.5"}
var gexfHostile = []string{"", "a b", " lead", "trail ", "é", "日本", "😀", "<tag>", "&amp;", "\"q\"", "'", "]]>", "a\nb", "\tt", "<!--", "&#x41;", " ", " "}

func (c gexfCase) build() *gexf12.Content {
	rng := vk.NewSplitMix(c.Seed)
	str := func() string {
		if c.Hostile && rng.Intn(2) == 0 {
			return gexfHostile[rng.Intn(len(gexfHostile))]
		}
		return gexfPlain[rng.Intn(len(gexfPlain))]
	}
	dyn := func() (string, string, string, string) {
		if !c.Dynamics || rng.Intn(2) == 0 {
			return "", "", "", ""
		}
		return str(), str(), str(), str()
	}
	spells := func() *gexf12.Spells {
		if !c.Dynamics || rng.Intn(3) != 0 {
			return nil
		}
		s := &gexf12.Spells{}
		for i := 1 + rng.Intn(2); i > 0; i-- {
			var sp gexf12.Spell
			sp.Start, sp.StartOpen, sp.End, sp.EndOpen = str(), str(), str(), str()
			s.Spells = append(s.Spells, sp)
		}
		return s
	}
	attvalues := func() *gexf12.AttValues {
		switch rng.Intn(3) {
		case 0:
			return nil
		case 1:
			return &gexf12.AttValues{}
		}
		av := &gexf12.AttValues{}
		for i := 1 + rng.Intn(2); i > 0; i-- {
			v := gexf12.AttValue{For: str(), Value: str()}
			v.Start, v.StartOpen, v.End, v.EndOpen = dyn()
			av.AttValues = append(av.AttValues, v)
		}
		return av
	}
	color := func() *gexf12.Color {
		if !c.Viz || rng.Intn(2) == 0 {
			return nil
		}
		col := &gexf12.Color{R: byte(rng.Uint64()), G: byte(rng.Uint64()), B: byte(rng.Uint64()), Spells: spells()}
		if rng.Intn(2) == 0 {
			col.A = float64(rng.Intn(5)) / 4
		}
		col.Start, col.StartOpen, col.End, col.EndOpen = dyn()
		return col
	}
	flt := func() float64 {
		return []float64{0, 1, -1.5, 1e-9, 123456.789, 1e300}[rng.Intn(6)]
	}
	var node func(depth int) gexf12.Node
	node = func(depth int) gexf12.Node {
		n := gexf12.Node{ID: str(), Label: str(), AttValues: attvalues(), Spells: spells(), ParentID: str(), Color: color()}
		n.Start, n.StartOpen, n.End, n.EndOpen = dyn()
		if c.Viz && rng.Intn(2) == 0 {
			n.Position = &gexf12.Position{X: flt(), Y: flt(), Z: flt(), Spells: spells()}
			n.Position.Start, n.Position.StartOpen, n.Position.End, n.Position.EndOpen = dyn()
		}
		if c.Viz && rng.Intn(2) == 0 {
			n.Size = &gexf12.Size{Value: flt(), Spells: spells()}
		}
		if c.Viz && rng.Intn(2) == 0 {
			n.Shape = &gexf12.NodeShape{Shape: str(), URI: str(), Spells: spells()}
		}
		if rng.Intn(3) == 0 {
			n.Parents = &gexf12.Parents{}
			for i := rng.Intn(3); i > 0; i-- {
				n.Parents.Parents = append(n.Parents.Parents, gexf12.Parent{For: str()})
			}
		}
		if depth > 0 && rng.Intn(2) == 0 {
			n.Nodes = &gexf12.Nodes{Count: rng.Intn(3)}
			for i := rng.Intn(3); i > 0; i-- {
				n.Nodes.Nodes = append(n.Nodes.Nodes, node(depth-1))
			}
			if rng.Intn(2) == 0 {
				n.Edges = &gexf12.Edges{}
			}
		}
		return n
	}
	edge := func() gexf12.Edge {
		e := gexf12.Edge{ID: str(), AttValues: attvalues(), Spells: spells(), Color: color(), Type: str(), Label: str(), Source: str(), Target: str()}
		if rng.Intn(2) == 0 {
			e.Weight = flt()
		}
		e.Start, e.StartOpen, e.End, e.EndOpen = dyn()
		if c.Viz && rng.Intn(2) == 0 {
			e.Thickness = &gexf12.Thickness{Value: flt(), Spells: spells()}
		}
		if c.Viz && rng.Intn(2) == 0 {
			e.Shape = &gexf12.Edgeshape{Shape: str(), Spells: spells()}
		}
		return e
	}
	doc := &gexf12.Content{XMLName: xml.Name{Space: "http://www.gexf.net/1.2draft", Local: "gexf"}, Version: str(), Variant: str()}
	if c.Meta {
		doc.Meta = &gexf12.Meta{Creator: str(), Keywords: str(), Description: str()}
		if c.Year > 0 {
			doc.Meta.LastModified = time.Date(c.Year, time.Month(c.Mon), c.Dy, 0, 0, 0, 0, time.UTC)
		}
	}
	g := &doc.Graph
	g.TimeFormat, g.DefaultEdgeType, g.IDType, g.Mode = str(), str(), str(), str()
	g.Start, g.StartOpen, g.End, g.EndOpen = dyn()
	for i := rng.Intn(3); i > 0; i-- {
		as := gexf12.Attributes{Class: str(), Mode: str()}
		as.Start, as.StartOpen, as.End, as.EndOpen = dyn()
		for j := rng.Intn(3); j > 0; j-- {
			as.Attributes = append(as.Attributes, gexf12.Attribute{ID: str(), Title: str(), Type: str(), Default: str(), Options: str()})
		}
		g.Attributes = append(g.Attributes, as)
	}
	g.Nodes.Count = rng.Intn(4)
	for i := 0; i < c.NNodes; i++ {
		g.Nodes.Nodes = append(g.Nodes.Nodes, node(c.Depth))
	}
	g.Edges.Count = rng.Intn(4)
	for i := 0; i < c.NEdges; i++ {
		g.Edges.Edges = append(g.Edges.Edges, edge())
	}
	return doc
}

func checkGEXF(c gexfCase) *vk.Failure {
	vk.Sample("gexf-rt", c)
	vk.Class(fmt.Sprintf("rt gexf12 hostile-strings=%v viz=%v dynamics=%v nested=%v", c.Hostile, c.Viz, c.Dynamics, c.Depth > 0))
	if c.Hostile || c.Viz || c.Dynamics {
		vk.NonTrivial("gexf", fmt.Sprintf("%+v", c))
	}
	v := c.build()
	var b []byte
	var err error
	if r := vk.Call(func() { b, err = xml.Marshal(v) }); r.Outcome != vk.Returned {
		return vk.Failf("marshal-panics", "xml.Marshal(gexf12.Content): %v %s", r.Outcome, r.Text)
	}
	if err != nil {
		return vk.Failf("marshal-error", "xml.Marshal(gexf12.Content): %v", err)
	}
	var back gexf12.Content
	if r := vk.Call(func() { err = xml.Unmarshal(b, &back) }); r.Outcome != vk.Returned {
		return vk.Failf("unmarshal-panics", "xml.Unmarshal of %s: %v %s", b, r.Outcome, r.Text)
	}
	if err != nil {
		return vk.Failf("unmarshal-error", "xml.Unmarshal of Marshal output: %v\n%s", err, b)
	}
	// time.Time is compared by Equal, everything else by DeepEqual
	if (v.Meta == nil) != (back.Meta == nil) {
		return vk.Failf("roundtrip-differs", "Meta present before=%v after=%v\n%s", v.Meta != nil, back.Meta != nil, b)
	}
	if v.Meta != nil {
		if !v.Meta.LastModified.Equal(back.Meta.LastModified) {
			return vk.Failf("roundtrip-date", "LastModified %v decoded as %v\n%s", v.Meta.LastModified, back.Meta.LastModified, b)
		}
		back.Meta.LastModified = v.Meta.LastModified
	}
	if !reflect.DeepEqual(v, &back) {
		b2, _ := xml.Marshal(&back)
		return vk.Failf("roundtrip-differs", "gexf12: Unmarshal(Marshal(v)) differs from v\nfirst  %s\nsecond %s", b, b2)
	}
	return nil
}

func drawGEXF(t *rapid.T) gexfCase {
	c := gexfCase{
		Seed:     rapid.Uint64().Draw(t, "seed"),
		NNodes:   rapid.IntRange(0, 4).Draw(t, "nnodes"),
		NEdges:   rapid.IntRange(0, 4).Draw(t, "nedges"),
		Depth:    rapid.IntRange(0, 2).Draw(t, "depth"),
		Meta:     rapid.Bool().Draw(t, "meta"),
		Viz:      rapid.Bool().Draw(t, "viz"),
		Dynamics: rapid.Bool().Draw(t, "dynamics"),
		Hostile:  rapid.Bool().Draw(t, "hostile"),
	}
	if c.Meta && rapid.Bool().Draw(t, "dated") {
		c.Year = rapid.SampledFrom([]int{1, 999, 1970, 2009, 2024, 9999}).Draw(t, "year")
		c.Mon = rapid.IntRange(1, 12).Draw(t, "month")
		c.Dy = rapid.IntRange(1, 28).Draw(t, "day")
	}
	return c
}

func TestGEXFRoundTrip(t *testing.T) {
	vk.Run(t, "gexf-rt", vk.Opts{Quick: 8000, Thorough: 160000, NoCrumb: true}, drawGEXF, checkGEXF)
}

// ---- totality of the document decoders ------------------------------------------------------------

type fmtBytesCase struct {
	Kind int // 0..2 JSON documents, 3 gexf12
	Data []byte
}

func checkFormatBytes(c fmtBytesCase) *vk.Failure {
	vk.Sample("fmt-total", c)
	if c.Kind == 3 {
		var v gexf12.Content
		var err error
		if r := vk.Call(func() { err = xml.Unmarshal(c.Data, &v) }); r.Outcome != vk.Returned {
			return vk.Failf("gexf-unmarshal-panics", "xml.Unmarshal(%q) into gexf12.Content: %v %s", quoteShort(c.Data), r.Outcome, r.Text)
		}
		if err != nil {
			vk.Class("total gexf12 rejected")
			return nil
		}
		vk.Class("total gexf12 accepted")
		vk.NonTrivial("fmt-total", c.Kind, string(c.Data))
		if r := vk.Call(func() { _, err = xml.Marshal(&v) }); r.Outcome != vk.Returned {
			return vk.Failf("gexf-remarshal-panics", "xml.Marshal of the Content decoded from %q: %v %s", quoteShort(c.Data), r.Outcome, r.Text)
		}
		if err != nil {
			return vk.Failf("gexf-remarshal-error", "xml.Marshal of the Content decoded from %q: %v", quoteShort(c.Data), err)
		}
		return nil
	}
	name := docNames[c.Kind]
	v1 := newDoc(c.Kind)
	var err error
	if r := vk.Call(func() { err = json.Unmarshal(c.Data, v1) }); r.Outcome != vk.Returned {
		return vk.Failf("json-unmarshal-panics", "json.Unmarshal(%q) into %s: %v %s", quoteShort(c.Data), name, r.Outcome, r.Text)
	}
	if err != nil {
		vk.Class("total " + name + " rejected")
		return nil
	}
	vk.Class("total " + name + " accepted")
	vk.NonTrivial("fmt-total", c.Kind, string(c.Data))
	var b []byte
	if r := vk.Call(func() {
		b, err = json.Marshal(v1)
		if g, ok := v1.(*cytoscapejs.GraphElem); ok {
			for _, e := range g.Elements {
				_, _ = e.Type()
			}
		}
	}); r.Outcome != vk.Returned {
		return vk.Failf("json-remarshal-panics", "json.Marshal of the %s decoded from %q: %v %s", name, quoteShort(c.Data), r.Outcome, r.Text)
	}
	if err != nil {
		return vk.Failf("json-remarshal-error", "json.Marshal of the %s decoded from %q: %v", name, quoteShort(c.Data), err)
	}
	v2 := newDoc(c.Kind)
	if err := json.Unmarshal(b, v2); err != nil {
		return vk.Failf("json-second-unmarshal-error", "%s decoded from %q marshals to %s which is rejected: %v", name, quoteShort(c.Data), b, err)
	}
	// fixed point, compared on the encoding (nil and empty slices are the same document)
	b2, err := json.Marshal(v2)
	if err != nil || string(b2) != string(b) {
		return vk.Failf("json-not-a-fixed-point", "%s decoded from %q marshals to %s; after another Unmarshal/Marshal: %s (err=%v)", name, quoteShort(c.Data), b, b2, err)
	}
	return nil
}

var jsonSnippets = []string{
	`{"elements":[{"group":"nodes","data":{"id":"a","w":1}},{"data":{"id":"e","source":"a","target":"b"},"position":{"x":1,"y":2}}],"layout":{"name":"grid"},"style":[{}]}`,
	`{"elements":{"nodes":[{"data":{"id":1,"parent":null}}],"edges":[{"data":{"id":"e","source":1,"target":[2],"k":{"a":[1,2]}}}]}}`,
	`{"nodes":[{"id":"n0","label":"x","size":3}],"edges":[{"id":"e0","source":"n0","target":"n1","w":null}]}`,
	`{"elements":[{"data":null}]}`,
	`{"nodes":[{}],"edges":[{"id":1}]}`,
}
var gexfSnippets = []string{
	`<gexf xmlns="http://www.gexf.net/1.2draft" version="1.2"><meta lastmodifieddate="2009-03-20"><creator>c</creator></meta><graph mode="static"><nodes><node id="0" label="a"/></nodes><edges><edge id="0" source="0" target="1" weight="2.5"/></edges></graph></gexf>`,
	`<gexf xmlns="http://www.gexf.net/1.2draft" xmlns:viz="http://www.gexf.net/1.2draft/viz"><meta lastmodifieddate="2009-03-20+02:00"/><graph><nodes count="x"><node id="0"><viz:color r="300" g="1" b="1" a="0.5"/><viz:position x="1" y="NaN" z="1e999"/><nodes><node id="1"/></nodes></node></nodes><edges/></graph></gexf>`,
}

func drawFormatBytes(t *rapid.T) fmtBytesCase {
	c := fmtBytesCase{Kind: rapid.IntRange(0, 3).Draw(t, "kind")}
	valid := func(label string) []byte {
		if rapid.IntRange(0, 2).Draw(t, label+"_snip") == 0 {
			if c.Kind == 3 {
				return []byte(rapid.SampledFrom(gexfSnippets).Draw(t, label+"_gexf"))
			}
			return []byte(rapid.SampledFrom(jsonSnippets).Draw(t, label+"_json"))
		}
		if c.Kind == 3 {
			b, _ := xml.Marshal(drawGEXF(t).build())
			return b
		}
		d := drawJSONDoc(t)
		d.Kind = c.Kind
		b, _ := json.Marshal(d.build())
		return b
	}
	switch rapid.IntRange(0, 4).Draw(t, "how") {
	case 0:
		c.Data = valid("v")
	case 1, 2, 3:
		c.Data = mutate(t, valid("v"), valid("o"), 4096)
	default:
		c.Data = rapid.SliceOfN(rapid.Byte(), 0, 48).Draw(t, "bytes")
	}
	return c
}

func TestFormatsTotality(t *testing.T) {
	vk.Run(t, "fmt-total", vk.Opts{Quick: 30000, Thorough: 600000, NoCrumb: true}, drawFormatBytes, checkFormatBytes)
}

var _ = strings.Contains
var _ = utf8.ValidString
