package c16

import (
	"bytes"
	"encoding/gob"
	"fmt"
	"hash"
	"hash/fnv"
	"math"
	"strings"
	"testing"

	"gonum.org/v1/gonum/mathext/prng"
	"gonum.org/v1/gonum/stat/card"
	"pgregory.net/rapid"
	"verifharness/vk"
)

// ---- PRNG state -----------------------------------------------------------------

type source interface {
	Uint64() uint64
	Seed(uint64)
	MarshalBinary() ([]byte, error)
	UnmarshalBinary([]byte) error
}

var prngNames = []string{"MT19937", "MT19937_64", "SplitMix64", "Xoshiro256plus", "Xoshiro256plusplus", "Xoshiro256starstar"}
var prngSizes = []int{625 * 4, 313 * 8, 8, 32, 32, 32}

func newSource(kind int, seed uint64) source {
	switch kind {
	case 0:
		s := prng.NewMT19937()
		s.Seed(seed)
		return s
	case 1:
		s := prng.NewMT19937_64()
		s.Seed(seed)
		return s
	case 2:
		return prng.NewSplitMix64(seed)
	case 3:
		return prng.NewXoshiro256plus(seed)
	case 4:
		return prng.NewXoshiro256plusplus(seed)
	default:
		return prng.NewXoshiro256starstar(seed)
	}
}

type prngCase struct {
	Kind     int
	Seed     uint64
	Keys     []uint64 // MT: SeedFromKeys when non-empty
	Unseeded bool     // MT: marshal the state of a generator that was never seeded
	Skip     int      // draws before the snapshot
	Skip32   int      // MT19937: additional Uint32 draws (odd counts split a Uint64)
	Other    uint64   // seed of the receiving generator
}

func checkPRNG(c prngCase) *vk.Failure {
	vk.Sample("prng-rt", c)
	name := prngNames[c.Kind]
	vk.Class("rt prng " + name)
	vk.NonTrivial("prng", c.Kind, c.Seed, fmt.Sprint(c.Keys), c.Unseeded, c.Skip, c.Skip32)
	var a source
	switch {
	case c.Unseeded && c.Kind == 0:
		a = prng.NewMT19937()
	case c.Unseeded && c.Kind == 1:
		a = prng.NewMT19937_64()
	default:
		a = newSource(c.Kind, c.Seed)
	}
	if len(c.Keys) > 0 && !c.Unseeded {
		switch s := a.(type) {
		case *prng.MT19937:
			k := make([]uint32, len(c.Keys))
			for i, v := range c.Keys {
				k[i] = uint32(v)
			}
			s.SeedFromKeys(k)
		case *prng.MT19937_64:
			s.SeedFromKeys(c.Keys)
		}
	}
	for i := 0; i < c.Skip; i++ {
		a.Uint64()
	}
	if m, ok := a.(*prng.MT19937); ok {
		for i := 0; i < c.Skip32; i++ {
			m.Uint32()
		}
	}
	state, err := a.MarshalBinary()
	if err != nil {
		return vk.Failf("marshal-error", "%s MarshalBinary: %v", name, err)
	}
	if len(state) != prngSizes[c.Kind] {
		return vk.Failf("marshal-size", "%s MarshalBinary gives %d bytes", name, len(state))
	}
	b := newSource(c.Kind, c.Other)
	b.Uint64()
	if err := b.UnmarshalBinary(state); err != nil {
		return vk.Failf("unmarshal-error", "%s UnmarshalBinary of its own MarshalBinary output: %v", name, err)
	}
	state2, _ := b.MarshalBinary()
	if !bytes.Equal(state, state2) {
		return vk.Failf("remarshal", "%s: Marshal(Unmarshal(state)) differs from state at byte %d", name, firstDiff(state, state2))
	}
	for i := 0; i < 1000; i++ {
		var x, y uint64
		if m, ok := a.(*prng.MT19937); ok && i%3 == 0 {
			x, y = uint64(m.Uint32()), uint64(b.(*prng.MT19937).Uint32())
		} else {
			x, y = a.Uint64(), b.Uint64()
		}
		if x != y {
			return vk.Failf("stream-diverges", "%s seed=%d skip=%d+%d: draw %d after the snapshot is %#x in the original and %#x in the restored generator", name, c.Seed, c.Skip, c.Skip32, i, x, y)
		}
	}
	// a too short state is an error and must not panic
	for _, l := range []int{0, len(state) - 1} {
		var err error
		if r := vk.Call(func() { err = newSource(c.Kind, 1).UnmarshalBinary(state[:l]) }); r.Outcome != vk.Returned || err == nil {
			return vk.Failf("short-state", "%s UnmarshalBinary of %d of %d bytes: outcome %v err=%v", name, l, len(state), r.Outcome, err)
		}
	}
	return nil
}

func drawPRNG(t *rapid.T) prngCase {
	c := prngCase{Kind: rapid.IntRange(0, 5).Draw(t, "kind"), Seed: rapid.Uint64().Draw(t, "seed"), Other: rapid.Uint64().Draw(t, "other")}
	switch c.Kind {
	case 0:
		c.Skip = vk.Dim(t, "skip", 0, 1500, 312, 624)
		c.Skip32 = rapid.IntRange(0, 3).Draw(t, "skip32")
	case 1:
		c.Skip = vk.Dim(t, "skip", 0, 1500, 312, 624)
	default:
		c.Skip = rapid.IntRange(0, 50).Draw(t, "skip")
	}
	if c.Kind <= 1 {
		switch rapid.IntRange(0, 5).Draw(t, "seeding") {
		case 0:
			c.Unseeded = true
		case 1:
			c.Keys = rapid.SliceOfN(rapid.Uint64(), 1, 6).Draw(t, "keys")
		}
	}
	return c
}

func TestPRNGRoundTrip(t *testing.T) {
	vk.Run(t, "prng-rt", vk.Opts{Quick: 8000, Thorough: 160000, NoCrumb: true}, drawPRNG, checkPRNG)
}

type prngBytesCase struct {
	Kind int
	Data []byte
}

// checkPRNGTotalBytes is the byte-level sub-check prng-total: the first byte
// selects the generator, the rest is handed to UnmarshalBinary.
func checkPRNGTotalBytes(c vk.BytesCase) *vk.Failure {
	vk.Sample("prng-total", c)
	if len(c.Data) == 0 || len(c.Data) > maxBytesCase {
		return nil
	}
	return checkPRNGBytes(prngBytesCase{Kind: int(c.Data[0]) % len(prngNames), Data: c.Data[1:]})
}

func checkPRNGBytes(c prngBytesCase) *vk.Failure {
	name := prngNames[c.Kind]
	size := prngSizes[c.Kind]
	src := newSource(c.Kind, 12345)
	var err error
	if r := vk.Call(func() { err = src.UnmarshalBinary(c.Data) }); r.Outcome != vk.Returned {
		return vk.Failf("unmarshal-panics", "%s UnmarshalBinary(%d bytes): %v %s", name, len(c.Data), r.Outcome, r.Text)
	}
	if len(c.Data) < size {
		vk.Class("total prng " + name + " rejected short")
		if err == nil {
			return vk.Failf("short-accepted", "%s UnmarshalBinary accepted %d bytes, the state has %d", name, len(c.Data), size)
		}
		// the receiver must still work
		if r := vk.Call(func() { src.Uint64() }); r.Outcome != vk.Returned {
			return vk.Failf("after-error-panics", "%s Uint64 after a failed UnmarshalBinary: %v %s", name, r.Outcome, r.Text)
		}
		return nil
	}
	vk.Class("total prng " + name + " accepted")
	vk.NonTrivial("prng-total", c.Kind, string(c.Data))
	if err != nil {
		return vk.Failf("full-state-rejected", "%s UnmarshalBinary(%d bytes): %v", name, len(c.Data), err)
	}
	// the state is what the data says ...
	state, _ := src.MarshalBinary()
	if !bytes.Equal(state, c.Data[:size]) {
		return vk.Failf("state-not-restored", "%s: MarshalBinary after UnmarshalBinary differs from the input at byte %d", name, firstDiff(state, c.Data[:size]))
	}
	// ... and the generator produces numbers, identically to a second copy
	twin := newSource(c.Kind, 999)
	_ = twin.UnmarshalBinary(c.Data[:size])
	var f *vk.Failure
	if r := vk.Call(func() {
		for i := 0; i < 1000; i++ {
			if x, y := src.Uint64(), twin.Uint64(); x != y {
				f = vk.Failf("decoded-not-deterministic", "%s: two generators restored from the same state differ at draw %d", name, i)
				return
			}
		}
	}); r.Outcome != vk.Returned {
		return vk.Failf("decoded-panics", "%s Uint64 after UnmarshalBinary of an arbitrary state: %v %s", name, r.Outcome, r.Text)
	}
	return f
}

func drawPRNGBytes(t *rapid.T) vk.BytesCase {
	c := drawPRNGBytes1(t)
	return vk.BytesCase{Data: append([]byte{byte(c.Kind + 6*rapid.IntRange(0, 40).Draw(t, "selhi"))}, c.Data...)}
}

func drawPRNGBytes1(t *rapid.T) prngBytesCase {
	c := prngBytesCase{Kind: rapid.IntRange(0, 5).Draw(t, "kind")}
	size := prngSizes[c.Kind]
	valid := func(label string) []byte {
		s := newSource(c.Kind, rapid.Uint64().Draw(t, label+"_seed"))
		for i := rapid.IntRange(0, 700).Draw(t, label+"_skip"); i > 0; i-- {
			s.Uint64()
		}
		b, _ := s.MarshalBinary()
		return b
	}
	switch rapid.IntRange(0, 5).Draw(t, "kind2") {
	case 0, 1:
		c.Data = mutate(t, valid("v"), valid("o"), size+64)
	case 2: // index field of the Mersenne twisters set to hostile values
		c.Data = valid("v")
		if c.Kind <= 1 {
			idx := rapid.SampledFrom([]uint64{0, 1, 311, 312, 313, 314, 623, 624, 625, 626, 1 << 31, 1<<32 - 1, 1 << 32, 1<<63 - 1, 1 << 63, math.MaxUint64}).Draw(t, "mti")
			if c.Kind == 0 {
				c.Data[624*4], c.Data[624*4+1], c.Data[624*4+2], c.Data[624*4+3] = byte(idx>>24), byte(idx>>16), byte(idx>>8), byte(idx)
			} else {
				for k := 0; k < 8; k++ {
					c.Data[312*8+k] = byte(idx >> uint(56-8*k))
				}
			}
		}
	case 3: // all zero / all ones state
		c.Data = bytes.Repeat([]byte{byte(rapid.SampledFrom([]int{0, 255}).Draw(t, "fill"))}, size+rapid.IntRange(-1, 1).Draw(t, "delta"))
	default:
		rng := vk.NewSplitMix(rapid.Uint64().Draw(t, "seed"))
		l := rapid.IntRange(0, size+8).Draw(t, "len")
		if rapid.Bool().Draw(t, "exact") {
			l = size
		}
		c.Data = make([]byte, l)
		for i := range c.Data {
			c.Data[i] = byte(rng.Uint64())
		}
	}
	return c
}

func TestPRNGTotality(t *testing.T) {
	vk.Run(t, "prng-total", vk.Opts{Quick: 20000, Thorough: 400000, NoCrumb: true}, drawPRNGBytes, checkPRNGTotalBytes)
}

// ---- HyperLogLog ------------------------------------------------------------------

func init() {
	card.RegisterHash(fnv.New32)
	card.RegisterHash(fnv.New32a)
	card.RegisterHash(fnv.New64)
	card.RegisterHash(fnv.New64a)
}

func hash32(kind int) hash.Hash32 {
	if kind == 0 {
		return fnv.New32()
	}
	return fnv.New32a()
}

func hash64(kind int) hash.Hash64 {
	if kind == 0 {
		return fnv.New64()
	}
	return fnv.New64a()
}

// sketch is the common surface of HyperLogLog32 and HyperLogLog64.
type sketch interface {
	Write([]byte) (int, error)
	Count() float64
	Reset()
	MarshalBinary() ([]byte, error)
	UnmarshalBinary([]byte) error
}

// newSketch returns a sketch; hashKind < 0 gives the zero value (no hash set).
func newSketch(bits, prec, hashKind int) sketch {
	if bits == 32 {
		if hashKind < 0 {
			return &card.HyperLogLog32{}
		}
		s, err := card.NewHyperLogLog32(prec, hash32(hashKind))
		if err != nil {
			panic(err)
		}
		return s
	}
	if hashKind < 0 {
		return &card.HyperLogLog64{}
	}
	s, err := card.NewHyperLogLog64(prec, hash64(hashKind))
	if err != nil {
		panic(err)
	}
	return s
}

func union(dst, a, b sketch) error {
	if d, ok := dst.(*card.HyperLogLog32); ok {
		return d.Union(a.(*card.HyperLogLog32), b.(*card.HyperLogLog32))
	}
	return dst.(*card.HyperLogLog64).Union(a.(*card.HyperLogLog64), b.(*card.HyperLogLog64))
}

func setHash(s sketch, kind int) error {
	if d, ok := s.(*card.HyperLogLog32); ok {
		return d.SetHash(hash32(kind))
	}
	return s.(*card.HyperLogLog64).SetHash(hash64(kind))
}

func feed(s sketch, seed uint64, n int) {
	rng := vk.NewSplitMix(seed)
	var b [8]byte
	for i := 0; i < n; i++ {
		v := rng.Uint64()
		for k := range b {
			b[k] = byte(v >> uint(8*k))
		}
		s.Write(b[:1+int(v%8)])
	}
}

func sameCount(a, b float64) bool {
	return math.Float64bits(a) == math.Float64bits(b)
}

type hllCase struct {
	Bits     int // 32 or 64
	Prec     int
	Hash     int
	N1, N2   int
	Seed     uint64
	RecvPrec int // precision of the receiver before UnmarshalBinary
	RecvZero bool
}

func checkHLL(c hllCase) *vk.Failure {
	vk.Sample("hll-rt", c)
	name := fmt.Sprintf("HyperLogLog%d", c.Bits)
	vk.Class("rt hll " + name)
	vk.NonTrivial("hll", c.Bits, c.Prec, c.Hash, c.N1, c.N2, c.Seed, c.RecvPrec, c.RecvZero)
	a := newSketch(c.Bits, c.Prec, c.Hash)
	feed(a, c.Seed, c.N1)
	enc, err := a.MarshalBinary()
	if err != nil {
		return vk.Failf("marshal-error", "%s p=%d MarshalBinary: %v", name, c.Prec, err)
	}
	var b sketch
	if c.RecvZero {
		b = newSketch(c.Bits, 0, -1)
	} else {
		b = newSketch(c.Bits, c.RecvPrec, c.Hash)
		feed(b, c.Seed+9, 5) // stale registers must be overwritten
	}
	if err := b.UnmarshalBinary(enc); err != nil {
		return vk.Failf("unmarshal-error", "%s p=%d: UnmarshalBinary(MarshalBinary) into a receiver (zero=%v, p=%d, same hash): %v", name, c.Prec, c.RecvZero, c.RecvPrec, err)
	}
	if x, y := a.Count(), b.Count(); !sameCount(x, y) {
		return vk.Failf("count-differs", "%s p=%d n=%d: Count %v before, %v after the round trip (receiver zero=%v p=%d)", name, c.Prec, c.N1, x, y, c.RecvZero, c.RecvPrec)
	}
	enc2, err := b.MarshalBinary()
	if err != nil || !bytes.Equal(enc, enc2) {
		return vk.Failf("remarshal", "%s p=%d: MarshalBinary of the decoded sketch differs (err=%v)", name, c.Prec, err)
	}
	feed(a, c.Seed+1, c.N2)
	if r := vk.Call(func() { feed(b, c.Seed+1, c.N2) }); r.Outcome != vk.Returned {
		return vk.Failf("write-after-decode-panics", "%s p=%d: Write on the decoded sketch: %v %s", name, c.Prec, r.Outcome, r.Text)
	}
	if x, y := a.Count(), b.Count(); !sameCount(x, y) {
		return vk.Failf("count-differs-after-writes", "%s p=%d: after %d more writes Count is %v in the original and %v in the decoded sketch", name, c.Prec, c.N2, x, y)
	}
	// the other word size must be refused
	other := newSketch(96-c.Bits, c.Prec, c.Hash)
	if err := other.UnmarshalBinary(enc); err == nil {
		return vk.Failf("wrong-size-accepted", "HyperLogLog%d.UnmarshalBinary accepted the encoding of a %s", 96-c.Bits, name)
	}
	// "The receiver must have a non-nil hash function value that is the same type as the one that was stored"
	diff := newSketch(c.Bits, c.Prec, 1-c.Hash)
	if err := diff.UnmarshalBinary(enc); err == nil {
		return vk.Failf("wrong-hash-accepted", "%s.UnmarshalBinary into a receiver with a different hash function returned nil", name)
	}
	return nil
}

func drawHLL(t *rapid.T) hllCase {
	return hllCase{
		Bits:     rapid.SampledFrom([]int{32, 64}).Draw(t, "bits"),
		Prec:     rapid.IntRange(4, 12).Draw(t, "prec"),
		Hash:     rapid.IntRange(0, 1).Draw(t, "hash"),
		N1:       rapid.SampledFrom([]int{0, 1, 10, 100, 3000}).Draw(t, "n1"),
		N2:       rapid.SampledFrom([]int{0, 1, 50, 500}).Draw(t, "n2"),
		Seed:     rapid.Uint64().Draw(t, "seed"),
		RecvPrec: rapid.IntRange(4, 12).Draw(t, "recvprec"),
		RecvZero: rapid.Bool().Draw(t, "recvzero"),
	}
}

// compatibility rules of Union and SetHash
type hllCompatCase struct {
	Bits           int
	PA, PB         int
	HA, HB         int
	Recv           int // 0: zero value, 1: a, 2: b, 3: fresh sketch with hash HR and precision PR
	HR, PR         int
	NA, NB         int
	SeedA, SeedB   uint64
	SetHashOnFresh bool
}

func checkHLLCompat(c hllCompatCase) *vk.Failure {
	vk.Sample("hll-compat", c)
	name := fmt.Sprintf("HyperLogLog%d", c.Bits)
	a := newSketch(c.Bits, c.PA, c.HA)
	b := newSketch(c.Bits, c.PB, c.HB)
	feed(a, c.SeedA, c.NA)
	feed(b, c.SeedB, c.NB)
	var dst sketch
	switch c.Recv {
	case 0:
		dst = newSketch(c.Bits, 0, -1)
	case 1:
		dst = a
	case 2:
		dst = b
	default:
		dst = newSketch(c.Bits, c.PR, c.HR)
		feed(dst, 3, 7)
	}
	recvHashOK := c.Recv != 3 || c.HR == c.HA
	wantErr := c.PA != c.PB || c.HA != c.HB || !recvHashOK
	vk.Class(fmt.Sprintf("compat hll %s precision-match=%v hash-match=%v receiver-hash-match=%v", name, c.PA == c.PB, c.HA == c.HB, recvHashOK))
	vk.NonTrivial("hll-compat", c.Bits, c.PA, c.PB, c.HA, c.HB, c.Recv, c.HR, c.PR, c.NA, c.NB, c.SeedA, c.SeedB)
	var err error
	if r := vk.Call(func() { err = union(dst, a, b) }); r.Outcome != vk.Returned {
		return vk.Failf("union-panics", "%s Union(p=%d/h%d, p=%d/h%d) receiver kind %d: %v %s", name, c.PA, c.HA, c.PB, c.HB, c.Recv, r.Outcome, r.Text)
	}
	switch {
	case c.PA != c.PB && err == nil:
		return vk.Failf("union-precision-mismatch-accepted", "%s Union of sketches with precisions %d and %d returned nil", name, c.PA, c.PB)
	case !wantErr && err != nil:
		return vk.Failf("union-compatible-rejected", "%s Union of compatible sketches (p=%d, hash %d, receiver kind %d): %v", name, c.PA, c.HA, c.Recv, err)
	case c.PA == c.PB && c.HA == c.HB && !recvHashOK && err == nil:
		return vk.Failf("union-receiver-hash-mismatch-accepted", "%s Union into a receiver with a different hash function returned nil", name)
	case c.PA == c.PB && c.HA != c.HB && err == nil:
		return vk.Failf("union-hash-mismatch-accepted", "%s Union of a sketch hashing with %T and one hashing with %T (same precision %d) returned nil; documented: Union will return an error if the precisions or hash functions of a and b do not match", name, hashOf(c.Bits, c.HA), hashOf(c.Bits, c.HB), c.PA)
	}
	if !wantErr {
		// the union holds exactly what one sketch that saw both streams holds
		ref := newSketch(c.Bits, c.PA, c.HA)
		feed(ref, c.SeedA, c.NA)
		feed(ref, c.SeedB, c.NB)
		if x, y := dst.Count(), ref.Count(); !sameCount(x, y) {
			return vk.Failf("union-count", "%s p=%d: Count of the union %v, of a sketch fed both streams %v (receiver kind %d)", name, c.PA, x, y, c.Recv)
		}
		if c.Recv == 0 {
			// "If the receiver does not have a set hash function, it can be set
			// after a call to Union with the SetHash method."
			if err := setHash(dst, c.HA); err != nil {
				return vk.Failf("sethash-unset-receiver-rejected", "%s: SetHash on a receiver without hash function (zero value after Union) returned %q; documented: SetHash sets the hash function of the receiver if it is nil", name, err)
			}
			if r := vk.Call(func() { feed(dst, 5, 3) }); r.Outcome != vk.Returned {
				return vk.Failf("write-after-sethash-panics", "%s: Write after Union+SetHash: %v %s", name, r.Outcome, r.Text)
			}
		}
	}
	// "SetHash will return an error if it is called on a receiver with a non-nil hash function."
	fresh := newSketch(c.Bits, c.PA, c.HA)
	if err := setHash(fresh, c.HB); err == nil {
		return vk.Failf("sethash-set-receiver-accepted", "%s: SetHash on a sketch created with a hash function returned nil; documented: an error is returned for a receiver with a non-nil hash function", name)
	}
	return nil
}

func hashOf(bits, kind int) any {
	if bits == 32 {
		return hash32(kind)
	}
	return hash64(kind)
}

func drawHLLCompat(t *rapid.T) hllCompatCase {
	c := hllCompatCase{
		Bits: rapid.SampledFrom([]int{32, 64}).Draw(t, "bits"),
		PA:   rapid.IntRange(4, 9).Draw(t, "pa"),
		HA:   rapid.IntRange(0, 1).Draw(t, "ha"),
		HB:   rapid.IntRange(0, 1).Draw(t, "hb"),
		Recv: rapid.IntRange(0, 3).Draw(t, "recv"),
		HR:   rapid.IntRange(0, 1).Draw(t, "hr"),
		PR:   rapid.IntRange(4, 9).Draw(t, "pr"),
		NA:   rapid.SampledFrom([]int{0, 3, 200}).Draw(t, "na"),
		NB:   rapid.SampledFrom([]int{0, 3, 200}).Draw(t, "nb"),
	}
	c.PB = c.PA
	if rapid.IntRange(0, 3).Draw(t, "pdiff") == 0 {
		c.PB = rapid.IntRange(4, 9).Draw(t, "pb")
	}
	c.SeedA, c.SeedB = rapid.Uint64().Draw(t, "seeda"), rapid.Uint64().Draw(t, "seedb")
	return c
}

func TestHLLRoundTrip(t *testing.T) {
	vk.Run(t, "hll-rt", vk.Opts{Quick: 6000, Thorough: 120000, NoCrumb: true}, drawHLL, checkHLL)
	vk.Run(t, "hll-compat", vk.Opts{Quick: 6000, Thorough: 120000, NoCrumb: true}, drawHLLCompat, checkHLLCompat)
}

// ---- HyperLogLog decoder totality ---------------------------------------------------

type hllBytesCase struct {
	Bits     int
	RecvHash int // -1: zero-value receiver
	Data     []byte
}

// hllStream builds the gob stream the codec uses: word size, hash type name,
// precision, registers.
func hllStream(size uint8, name string, p uint8, reg []uint8) []byte {
	var buf bytes.Buffer
	enc := gob.NewEncoder(&buf)
	_ = enc.Encode(size)
	_ = enc.Encode(name)
	_ = enc.Encode(p)
	_ = enc.Encode(reg)
	return buf.Bytes()
}

// refHLLParse decodes the four values if the stream has that shape.
func refHLLParse(data []byte) (size uint8, name string, p uint8, reg []uint8, ok bool) {
	dec := gob.NewDecoder(bytes.NewReader(data))
	if dec.Decode(&size) != nil || dec.Decode(&name) != nil || dec.Decode(&p) != nil || dec.Decode(&reg) != nil {
		return 0, "", 0, nil, false
	}
	return size, name, p, reg, true
}

var hllHashNames = []string{"*hash/fnv.sum32", "*hash/fnv.sum32a", "*hash/fnv.sum64", "*hash/fnv.sum64a"}

// checkHLLTotalBytes is the byte-level sub-check hll-total: the first byte
// selects the word size (bit 0) and the receiver (bits 1..: zero value, fnv,
// fnv-a), the rest is handed to UnmarshalBinary.
func checkHLLTotalBytes(c vk.BytesCase) *vk.Failure {
	vk.Sample("hll-total", c)
	if len(c.Data) == 0 || len(c.Data) > maxBytesCase {
		return nil
	}
	sel := int(c.Data[0])
	return checkHLLBytes(hllBytesCase{Bits: 32 + 32*(sel&1), RecvHash: (sel>>1)%3 - 1, Data: c.Data[1:]})
}

func hllSelector(bits, recvHash int) byte { return byte(bits/32 - 1 | (recvHash+1)<<1) }

func checkHLLBytes(c hllBytesCase) *vk.Failure {
	name := fmt.Sprintf("HyperLogLog%d", c.Bits)
	s := newSketch(c.Bits, 4, c.RecvHash)
	var err error
	if r := vk.Call(func() { err = s.UnmarshalBinary(c.Data) }); r.Outcome != vk.Returned {
		return vk.Failf("unmarshal-panics", "%s.UnmarshalBinary(%s): %v %s", name, hexShort(c.Data), r.Outcome, r.Text)
	}
	size, hname, p, reg, shaped := refHLLParse(c.Data)
	if err != nil {
		if shaped {
			vk.Class("total hll " + name + " rejected after gob decode")
			vk.NonTrivial("hll-total", c.Bits, c.RecvHash, string(c.Data))
		} else {
			vk.Class("total hll " + name + " rejected by gob")
		}
		return nil
	}
	vk.Class("total hll " + name + " accepted")
	vk.NonTrivial("hll-total", c.Bits, c.RecvHash, string(c.Data))
	what := fmt.Sprintf("%s.UnmarshalBinary accepted a stream with word size %d, hash %q, precision %d and %d registers", name, size, hname, p, len(reg))
	if !shaped {
		return vk.Failf("accepted-unshaped", "%s.UnmarshalBinary returned nil for %s which does not decode as (uint8, string, uint8, []uint8)", name, hexShort(c.Data))
	}
	if int(size) != c.Bits {
		return vk.Failf("accepted-wrong-size", "%s", what)
	}
	if consistent := p < 31 && len(reg) == 1<<p; !consistent {
		r := vk.Call(func() { feed(s, 11, 64) })
		return vk.Failf("accepted-inconsistent", "%s: 2^precision != number of registers, the sketch is internally inconsistent; 64 Writes on it end in: %v %s", what, r.Outcome, r.Text)
	}
	// the decoded sketch must be usable: Count answers, Write is accepted, the
	// state can be marshalled again
	var f *vk.Failure
	r := vk.Call(func() {
		_ = s.Count()
		feed(s, 11, 64)
		_ = s.Count()
		enc, err := s.MarshalBinary()
		if err != nil {
			f = vk.Failf("decoded-remarshal-error", "%s; MarshalBinary of the result: %v", what, err)
			return
		}
		t := newSketch(c.Bits, 4, c.RecvHash)
		if err := t.UnmarshalBinary(enc); err != nil {
			f = vk.Failf("decoded-remarshal-rejected", "%s; its own MarshalBinary output is rejected: %v", what, err)
			return
		}
		s.Reset()
		if n := s.Count(); n != 0 {
			f = vk.Failf("decoded-reset-count", "%s; Count after Reset is %v", what, n)
		}
	})
	if r.Outcome != vk.Returned {
		return vk.Failf("decoded-unusable", "%s; Count/Write on the result: %v %s", what, r.Outcome, r.Text)
	}
	return f
}

func drawHLLBytes(t *rapid.T) vk.BytesCase {
	c := drawHLLBytes1(t)
	return vk.BytesCase{Data: append([]byte{hllSelector(c.Bits, c.RecvHash) + 6*byte(rapid.IntRange(0, 40).Draw(t, "selhi"))}, c.Data...)}
}

func drawHLLBytes1(t *rapid.T) hllBytesCase {
	c := hllBytesCase{Bits: rapid.SampledFrom([]int{32, 64}).Draw(t, "bits"), RecvHash: rapid.IntRange(-1, 1).Draw(t, "recvhash")}
	valid := func(label string) []byte {
		h := c.RecvHash
		if h < 0 || rapid.IntRange(0, 4).Draw(t, label+"_otherhash") == 0 {
			h = rapid.IntRange(0, 1).Draw(t, label+"_hash")
		}
		s := newSketch(c.Bits, rapid.IntRange(4, 8).Draw(t, label+"_p"), h)
		feed(s, rapid.Uint64().Draw(t, label+"_seed"), rapid.SampledFrom([]int{0, 5, 300}).Draw(t, label+"_n"))
		b, _ := s.MarshalBinary()
		return b
	}
	switch rapid.IntRange(0, 6).Draw(t, "kind") {
	case 0:
		c.Data = valid("v")
	case 1, 2:
		c.Data = mutate(t, valid("v"), valid("o"), 2048)
	case 3, 4, 5: // well-formed gob stream with inconsistent fields
		size := uint8(c.Bits)
		if rapid.IntRange(0, 5).Draw(t, "sizemut") == 0 {
			size = rapid.SampledFrom([]uint8{0, 32, 64, 255}).Draw(t, "size")
		}
		hn := hllHashNames[(c.Bits/32-1)*2+max(c.RecvHash, 0)]
		if rapid.IntRange(0, 4).Draw(t, "namemut") == 0 {
			hn = rapid.SampledFrom(append([]string{"", "nope", "*hash/fnv.sum128"}, hllHashNames...)).Draw(t, "name")
		}
		p := rapid.SampledFrom([]uint8{0, 1, 3, 4, 5, 8, 16, 31, 32, 33, 63, 64, 65, 128, 255}).Draw(t, "p")
		var n int
		switch rapid.IntRange(0, 3).Draw(t, "reglen") {
		case 0:
			n = rapid.IntRange(0, 40).Draw(t, "nreg")
		case 1:
			if p <= 10 {
				n = 1 << p
			}
		case 2:
			if p <= 10 {
				n = 1<<p + rapid.SampledFrom([]int{-1, 1}).Draw(t, "off")
			}
		default:
			n = 16
		}
		rng := vk.NewSplitMix(rapid.Uint64().Draw(t, "seed"))
		reg := make([]uint8, n)
		hot := rapid.Bool().Draw(t, "bigregs")
		for i := range reg {
			if hot {
				reg[i] = uint8(rng.Uint64())
			} else {
				reg[i] = uint8(rng.Intn(8))
			}
		}
		c.Data = hllStream(size, hn, p, reg)
	default:
		c.Data = rapid.SliceOfN(rapid.Byte(), 0, 64).Draw(t, "bytes")
	}
	return c
}

func TestHLLTotality(t *testing.T) {
	vk.Run(t, "hll-total", vk.Opts{Quick: 30000, Thorough: 600000, NoCrumb: true}, drawHLLBytes, checkHLLTotalBytes)
}

var _ = strings.Contains
