package c16

import (
	"encoding/json"
	"fmt"
	"os"
	"path/filepath"
	"testing"

	"verifharness/vk"
)

// Native coverage-guided fuzz targets for the byte-level decoders. Each target
// is the byte-level sub-check of the same name (same check function, same
// failure keys, so open entries of known_findings.jsonl are skipped and the
// fuzzer searches behind them). Seeds: /verif/corpus/C16/<sub>/*.
//
//	cd /verif/harness && go test -run '^$' -fuzz '^FuzzGraph6$' -fuzztime 60s ./c16

func FuzzGraph6(f *testing.F)      { vk.Fuzz(f, "g6-total", nil, checkG6TotalBytes) }
func FuzzDigraph6(f *testing.F)    { vk.Fuzz(f, "d6-total", nil, checkD6TotalBytes) }
func FuzzDOT(f *testing.F)         { vk.Fuzz(f, "dot-total", nil, checkDOTBytes) }
func FuzzNQuads(f *testing.F)      { vk.Fuzz(f, "nq-total", nil, checkNQBytes) }
func FuzzMatDense(f *testing.F)    { vk.Fuzz(f, "matdense-total", nil, checkMatDenseBytes) }
func FuzzMatVecDense(f *testing.F) { vk.Fuzz(f, "matvec-total", nil, checkMatVecBytes) }
func FuzzPRNG(f *testing.F)        { vk.Fuzz(f, "prng-total", nil, checkPRNGTotalBytes) }
func FuzzHLL(f *testing.F)         { vk.Fuzz(f, "hll-total", nil, checkHLLTotalBytes) }

// TestWriteCorpus regenerates the binary seed files under /verif/corpus/C16
// (run with C16_WRITE_CORPUS=1; the text seeds are maintained by hand).
func TestWriteCorpus(t *testing.T) {
	if os.Getenv("C16_WRITE_CORPUS") == "" {
		t.Skip("set C16_WRITE_CORPUS=1 to rewrite the seed corpus")
	}
	write := func(target, name string, b []byte) {
		dir := filepath.Join(verifRoot(), "corpus", "C16", target)
		if err := os.MkdirAll(dir, 0o755); err != nil {
			t.Fatal(err)
		}
		if err := os.WriteFile(filepath.Join(dir, name), b, 0o644); err != nil {
			t.Fatal(err)
		}
	}
	for _, vec := range []bool{false, true} {
		target, cc := "matdense-total", 3
		if vec {
			target, cc = "matvec-total", 1
		}
		write(target, "valid-2x", refMatEncode(2, cc, func(i, j int) float64 { return float64(i*3+j) + 0.25 }))
		write(target, "valid-1x1-nan", refMatEncode(1, 1, func(i, j int) float64 { return matValue(vk.NewSplitMix(3), 1) }))
		write(target, "header-only-3x", goodHeader(3, int64(cc)).bytes())
		write(target, "header-negative", goodHeader(-1, int64(cc)).bytes())
	}
	for k, name := range prngNames {
		s := newSource(k, 42)
		for i := 0; i < 700; i++ {
			s.Uint64()
		}
		b, _ := s.MarshalBinary()
		write("prng-total", name, append([]byte{byte(k)}, b...))
	}
	for sel := 0; sel < 4; sel++ {
		bits := 32 + 32*(sel&1)
		s := newSketch(bits, 5+sel, sel>>1)
		feed(s, 7, 100)
		b, _ := s.MarshalBinary()
		write("hll-total", fmt.Sprintf("hll%d-fnv%d", bits, sel>>1), append([]byte{hllSelector(bits, sel>>1)}, b...))
	}
	adj := [][]bool{{false, true, false, true}, {true, false, true, false}, {false, true, false, true}, {true, false, true, false}}
	write("g6-total", "c4", refEncode(adj, false, 0))
	write("g6-total", "c4-4byte-header", refEncode(adj, false, 1))
	write("g6-total", "k1", refEncode([][]bool{{false}}, false, 0))
	write("d6-total", "c4", refEncode(adj, true, 0))
	write("d6-total", "c4-8byte-header", refEncode(adj, true, 2))
	big := make([][]bool, 63)
	for i := range big {
		big[i] = make([]bool, 63)
	}
	for i := range big {
		big[i][(i+1)%63], big[(i+1)%63][i] = true, true
	}
	write("g6-total", "cycle63", refEncode(big, false, 0))
	write("g6-total", "empty-string", nil)
	write("g6-total", "short-header", []byte("~"))
	write("d6-total", "order-2pow32", []byte("&~~C?????"))
	write("matdense-total", "wrapped-dims", append(goodHeader(1<<61+1, 8).bytes(), make([]byte, 64)...))
	write("hll-total", "inconsistent-registers", append([]byte{hllSelector(64, 0)}, hllStream(64, hllHashNames[2], 8, make([]uint8, 16))...))
	for i, s := range dotSnippets {
		write("dot-total", fmt.Sprintf("snippet%02d.dot", i), []byte(s))
	}
	nq := []string{
		"<http://example.org/s> <http://example.org/p> <http://example.org/o> <http://example.org/g> .\n",
		"_:b0 <urn:p> \"lit\\n\\t\\\"\\\\ \\u00e9 \\U0001F600\"@en-US . # trailing comment\n",
		"# comment\n\n<a:s> <a:p> \"1\"^^<http://www.w3.org/2001/XMLSchema#integer> _:g .\r\n_:a <a:p> _:a.b-c .\n",
	}
	for i, s := range nq {
		write("nq-total", fmt.Sprintf("seed%02d.nq", i), []byte(s))
	}
}

// TestWriteWitnesses rewrites the witness cases of the recorded findings under
// /verif/replays/C16 (run with C16_WRITE_WITNESSES=1).
func TestWriteWitnesses(t *testing.T) {
	if os.Getenv("C16_WRITE_WITNESSES") == "" {
		t.Skip("set C16_WRITE_WITNESSES=1 to rewrite the witness cases")
	}
	write := func(name, sub string, c any) {
		raw, err := json.Marshal(c)
		if err != nil {
			t.Fatal(err)
		}
		b, _ := json.MarshalIndent(map[string]any{"property": "C16", "sub": sub, "case": json.RawMessage(raw)}, "", " ")
		dir := filepath.Join(verifRoot(), "replays", "C16")
		if err := os.MkdirAll(dir, 0o755); err != nil {
			t.Fatal(err)
		}
		if err := os.WriteFile(filepath.Join(dir, name+".json"), append(b, '\n'), 0o644); err != nil {
			t.Fatal(err)
		}
	}
	write("graph6-gostring-empty", "g6-total", vk.BytesCase{Data: []byte{}})
	write("graph6-gostring-tilde", "g6-total", vk.BytesCase{Data: []byte("~")})
	write("graph6-from-absent-nil", "g6-total", vk.BytesCase{Data: []byte("A_")})
	write("digraph6-from-absent-nil", "d6-total", vk.BytesCase{Data: []byte("&AG")})
	write("digraph6-isvalid-order-2pow32", "d6-total", vk.BytesCase{Data: []byte("&~~C?????")})
	write("mat-dense-wrapped-dims", "matdense-total", vk.BytesCase{Data: append(goodHeader(1<<61+1, 8).bytes(), make([]byte, 64)...)})
	write("mat-dense-makeslice", "matdense-total", vk.BytesCase{Data: goodHeader(1<<31, 1<<31).bytes()})
	write("mat-vecdense-makeslice", "matvec-total", vk.BytesCase{Data: append(goodHeader(1<<61+1, 1).bytes(), make([]byte, 8)...)})
	write("mat-dense-negative-rows-error", "matdense-total", vk.BytesCase{Data: goodHeader(-1, 1).bytes()})
	write("mat-vecdense-negative-rows-error", "matvec-total", vk.BytesCase{Data: goodHeader(-1, 1).bytes()})
	write("hll64-union-different-hash", "hll-compat", hllCompatCase{Bits: 64, PA: 4, PB: 4, HA: 0, HB: 1, Recv: 0, NA: 3, NB: 3, SeedA: 1, SeedB: 2})
	write("hll32-union-different-hash", "hll-compat", hllCompatCase{Bits: 32, PA: 4, PB: 4, HA: 0, HB: 1, Recv: 2, NA: 3, NB: 3, SeedA: 1, SeedB: 2})
	write("hll64-sethash-on-unset-receiver", "hll-compat", hllCompatCase{Bits: 64, PA: 4, PB: 4, Recv: 0, NA: 3, NB: 3, SeedA: 1, SeedB: 2})
	write("hll64-sethash-on-set-receiver", "hll-compat", hllCompatCase{Bits: 64, PA: 4, PB: 4, Recv: 1, NA: 3, NB: 3, SeedA: 1, SeedB: 2})
	write("hll64-unmarshal-16-registers-precision-8", "hll-total", vk.BytesCase{Data: append([]byte{hllSelector(64, 0)}, hllStream(64, hllHashNames[2], 8, make([]uint8, 16))...)})
	write("hll32-unmarshal-16-registers-precision-8", "hll-total", vk.BytesCase{Data: append([]byte{hllSelector(32, -1)}, hllStream(32, hllHashNames[0], 8, make([]uint8, 16))...)})
	write("nquads-parts-uchar-out-of-range", "nq-total", nqBytesCase{Data: []byte(`<a:s> <a:p> "\U80000000" .`)})
	write("nquads-blank-label-split-spurious-label", "nq-total", vk.BytesCase{Data: []byte("<a:s> <a:p> _:h_:_ .")})
	blank := nqStmt{S: nqTerm{Kind: 1, Body: "a:s"}, P: nqTerm{Kind: 1, Body: "a:p"}, O: nqTerm{Kind: 3, Body: "a_:b"}, Sep: []string{"", " ", " ", " ", " ", ""}}
	write("nquads-blank-label-split", "nq-rt", blank)
	write("nquads-blank-label-split-stream", "nq-stream", nqStreamCase{Stmts: []nqStmt{blank}, Noise: []int{0}, Lead: []string{""}, Final: true})
	write("nquads-new-iri-term-nbsp-host", "nq-term", nqValueCase{Kind: 1, Text: "http://\u00a0"})
	write("nquads-new-literal-term-nbsp-host", "nq-term", nqValueCase{Kind: 2, Text: "aa", Qual: "http://\u00a0"})
	ufffd := dotCase{Directed: true, Indent: " ", Nodes: []dotNode{{ID: 1, DOTID: []byte("\ufffd")}, {ID: 2, DOTID: []byte("b")}}}
	ufffd.Top.Nodes = []int{0, 1}
	ufffd.Top.Edges = []dotEdge{{F: 0, T: 1}}
	write("dot-id-with-ufffd", "dot-rt", ufffd)
	write("dot-unmarshal-self-loop-in-chain", "dot-total", dotBytesCase{Data: []byte("digraph G { a -> c -> c; }")})
	reuse := dotCase{Directed: true, Indent: " ", Nodes: []dotNode{{ID: 1, DOTID: []byte("c")}, {ID: 2, DOTID: []byte("d")}, {ID: 20, DOTID: []byte("a")}, {ID: 21, DOTID: []byte("b")}},
		SubNodes: []dotSubNode{{ID: 10, Name: []byte("s"), Members: []int{2, 3}}}}
	reuse.Top.Nodes = []int{0, 1}
	reuse.Top.Edges = []dotEdge{{F: -1, T: 0}, {F: -1, T: 1}}
	write("dot-subgraph-vertex-reused", "dot-rt", reuse)
	write("cytoscapejs-element-type-edge", "json-rt", jsonCase{Kind: 0, Elems: []jElem{{Group: "edge", ID: "e", Source: "a", Target: "b"}}})
}
