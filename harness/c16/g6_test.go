package c16

import (
	"fmt"
	"math"
	"sort"
	"strconv"
	"strings"
	"testing"

	"gonum.org/v1/gonum/graph"
	"gonum.org/v1/gonum/graph/encoding/digraph6"
	"gonum.org/v1/gonum/graph/encoding/graph6"
	"gonum.org/v1/gonum/graph/iterator"
	"gonum.org/v1/gonum/graph/simple"
	"pgregory.net/rapid"
	"verifharness/vk"
)

// ---- reference codec (written from formats.txt, independent of gonum) --------

// refSize encodes N(n).
func refSize(n int64, form int) []byte {
	// form 0: shortest; 1: force 4-byte; 2: force 8-byte
	switch {
	case form == 0 && n <= 62:
		return []byte{byte(n) + 63}
	case form <= 1 && n <= 258047:
		return []byte{126, byte(n>>12&63) + 63, byte(n>>6&63) + 63, byte(n&63) + 63}
	default:
		return []byte{126, 126, byte(n>>30&63) + 63, byte(n>>24&63) + 63, byte(n>>18&63) + 63, byte(n>>12&63) + 63, byte(n>>6&63) + 63, byte(n&63) + 63}
	}
}

func packBits(bits []bool) []byte {
	out := make([]byte, 0, (len(bits)+5)/6)
	for i := 0; i < len(bits); i += 6 {
		var c byte
		for k := 0; k < 6; k++ {
			if i+k < len(bits) && bits[i+k] {
				c |= 1 << uint(5-k)
			}
		}
		out = append(out, c+63)
	}
	return out
}

// refBits lists the adjacency bits in the order of the format: graph6 the
// upper triangle column by column, digraph6 the full matrix row by row.
func refBits(adj [][]bool, directed bool) []bool {
	n := len(adj)
	var bits []bool
	if directed {
		for i := 0; i < n; i++ {
			for j := 0; j < n; j++ {
				bits = append(bits, adj[i][j])
			}
		}
		return bits
	}
	for j := 1; j < n; j++ {
		for i := 0; i < j; i++ {
			bits = append(bits, adj[i][j])
		}
	}
	return bits
}

func refEncode(adj [][]bool, directed bool, form int) []byte {
	var out []byte
	if directed {
		out = append(out, '&')
	}
	out = append(out, refSize(int64(len(adj)), form)...)
	return append(out, packBits(refBits(adj, directed))...)
}

// refParse decides validity from the format definition with overflow-free
// arithmetic and returns the order and the body.
func refParse(data []byte, directed bool) (n int64, body []byte, why string) {
	rest := data
	if directed {
		if len(rest) < 1 || rest[0] != '&' {
			return 0, nil, "no-ampersand"
		}
		rest = rest[1:]
	}
	if len(rest) < 1 {
		return 0, nil, "empty"
	}
	for _, b := range rest {
		if b < 63 || b > 126 {
			return 0, nil, "bad-char"
		}
	}
	switch {
	case rest[0] != 126:
		n, body = int64(rest[0]-63), rest[1:]
	case len(rest) < 4:
		return 0, nil, "short-header"
	case rest[1] != 126:
		n, body = int64(rest[1]-63)<<12|int64(rest[2]-63)<<6|int64(rest[3]-63), rest[4:]
	case len(rest) < 8:
		return 0, nil, "short-header"
	default:
		for _, b := range rest[2:8] {
			n = n<<6 | int64(b-63)
		}
		body = rest[8:]
	}
	if n > 1<<20 {
		// more than 2^39/6 body bytes would be needed
		return n, body, "bad-length"
	}
	nbits := n * (n - 1) / 2
	if directed {
		nbits = n * n
	}
	if int64(len(body)) != (nbits+5)/6 {
		return n, body, "bad-length"
	}
	return n, body, ""
}

func refBit(body []byte, k int64) bool {
	return (body[k/6]-63)&(1<<uint(5-k%6)) != 0
}

// refAdj decodes the adjacency matrix of a valid string (loops are ignored,
// as gonum documents simple graphs only).
func refAdj(n int64, body []byte, directed bool) [][]bool {
	adj := make([][]bool, n)
	for i := range adj {
		adj[i] = make([]bool, n)
	}
	if directed {
		for i := int64(0); i < n; i++ {
			for j := int64(0); j < n; j++ {
				if i != j {
					adj[i][j] = refBit(body, i*n+j)
				}
			}
		}
		return adj
	}
	var k int64
	for j := int64(1); j < n; j++ {
		for i := int64(0); i < j; i++ {
			adj[i][j] = refBit(body, k)
			adj[j][i] = adj[i][j]
			k++
		}
	}
	return adj
}

// ---- uniform access to the two Graph types -----------------------------------

type g6Graph interface {
	graph.Graph
	GoString() string
}

func asG6(s []byte, directed bool) g6Graph {
	if directed {
		return digraph6.Graph(s)
	}
	return graph6.Graph(s)
}

func g6IsValid(s []byte, directed bool) bool {
	if directed {
		return digraph6.IsValid(digraph6.Graph(s))
	}
	return graph6.IsValid(graph6.Graph(s))
}

func g6Encode(g graph.Graph, directed bool) []byte {
	if directed {
		return []byte(digraph6.Encode(g))
	}
	return []byte(graph6.Encode(g))
}

// drain walks an iterator checking the Len/Next/Reset contract of
// graph.Iterator and returns the IDs in iteration order.
func drain(what string, it graph.Nodes, bound int) ([]int64, *vk.Failure) {
	if it == nil {
		return nil, vk.Failf("iterator-nil", "%s returned a nil graph.Nodes although graph.Graph documents that Nodes/From/To must not return nil", what)
	}
	pass := func() ([]int64, *vk.Failure) {
		var ids []int64
		l0 := it.Len()
		for it.Next() {
			nd := it.Node()
			if nd == nil {
				return nil, vk.Failf("iterator-nil-node", "%s: Node() is nil after Next() returned true", what)
			}
			ids = append(ids, nd.ID())
			if len(ids) > bound {
				return nil, vk.Failf("iterator-unbounded", "%s: more than %d items", what, bound)
			}
			if l := it.Len(); l0 >= 0 && l != l0-len(ids) {
				return nil, vk.Failf("iterator-len", "%s: Len()=%d after %d of %d items", what, l, len(ids), l0)
			}
		}
		if l0 >= 0 && l0 != len(ids) {
			return nil, vk.Failf("iterator-len", "%s: Len()=%d before iteration but %d items delivered", what, l0, len(ids))
		}
		if it.Next() {
			return nil, vk.Failf("iterator-next-after-end", "%s: Next() true after exhaustion", what)
		}
		if l := it.Len(); l > 0 {
			return nil, vk.Failf("iterator-len", "%s: Len()=%d after exhaustion", what, l)
		}
		return ids, nil
	}
	a, f := pass()
	if f != nil {
		return nil, f
	}
	it.Reset()
	b, f := pass()
	if f != nil {
		return nil, f
	}
	if fmt.Sprint(a) != fmt.Sprint(b) {
		return nil, vk.Failf("iterator-reset", "%s: first pass %v, after Reset %v", what, a, b)
	}
	return a, nil
}

func sortedCopy(x []int64) []int64 {
	y := append([]int64(nil), x...)
	sort.Slice(y, func(i, j int) bool { return y[i] < y[j] })
	return y
}

// checkDecoded compares every accessor of the decoded Graph with adj.
func checkDecoded(s []byte, directed bool, adj [][]bool, full bool) *vk.Failure {
	n := len(adj)
	g := asG6(s, directed)
	ids, f := drain("Nodes()", g.Nodes(), n+1)
	if f != nil {
		return f
	}
	if len(ids) != n {
		return vk.Failf("decode-order", "Nodes() has %d nodes, header says %d (%q)", len(ids), n, quoteShort(s))
	}
	for i, id := range sortedCopy(ids) {
		if id != int64(i) {
			return vk.Failf("decode-node-ids", "Nodes() IDs %v are not 0..%d", ids, n-1)
		}
	}
	for _, id := range []int64{-1, int64(n), math.MinInt64, math.MaxInt64} {
		if g.Node(id) != nil {
			return vk.Failf("decode-node-absent", "Node(%d) non-nil for order %d", id, n)
		}
	}
	step := 1
	if !full && n > 80 {
		step = n / 40
	}
	for i := 0; i < n; i += step {
		if nd := g.Node(int64(i)); nd == nil || nd.ID() != int64(i) {
			return vk.Failf("decode-node", "Node(%d)=%v in order %d", i, nd, n)
		}
		var want []int64
		for j := 0; j < n; j++ {
			if adj[i][j] {
				want = append(want, int64(j))
			}
		}
		got, f := drain(fmt.Sprintf("From(%d)", i), g.From(int64(i)), n+1)
		if f != nil {
			return f
		}
		if fmt.Sprint(sortedCopy(got)) != fmt.Sprint(want) {
			return vk.Failf("decode-from", "From(%d)=%v want %v (n=%d, %q)", i, got, want, n, quoteShort(s))
		}
		if directed {
			var wantTo []int64
			for j := 0; j < n; j++ {
				if adj[j][i] {
					wantTo = append(wantTo, int64(j))
				}
			}
			got, f := drain(fmt.Sprintf("To(%d)", i), digraph6.Graph(s).To(int64(i)), n+1)
			if f != nil {
				return f
			}
			if fmt.Sprint(sortedCopy(got)) != fmt.Sprint(wantTo) {
				return vk.Failf("decode-to", "To(%d)=%v want %v (n=%d, %q)", i, got, wantTo, n, quoteShort(s))
			}
		}
		// pair accessors: all pairs for small orders, a rotating sample of columns otherwise
		jstep := 1
		if n > 32 {
			jstep = n / 16
		}
		for j := (i * 7) % jstep; j < n; j += jstep {
			between := adj[i][j] || adj[j][i]
			if got := g.HasEdgeBetween(int64(i), int64(j)); got != between {
				return vk.Failf("decode-has-edge-between", "HasEdgeBetween(%d,%d)=%v want %v (n=%d, %q)", i, j, got, between, n, quoteShort(s))
			}
			e := g.Edge(int64(i), int64(j))
			if (e != nil) != adj[i][j] {
				return vk.Failf("decode-edge", "Edge(%d,%d)=%v want present=%v (n=%d, %q)", i, j, e, adj[i][j], n, quoteShort(s))
			}
			if e != nil && (e.From().ID() != int64(i) || e.To().ID() != int64(j)) {
				return vk.Failf("decode-edge-ends", "Edge(%d,%d) has ends %d,%d", i, j, e.From().ID(), e.To().ID())
			}
			if directed {
				if got := digraph6.Graph(s).HasEdgeFromTo(int64(i), int64(j)); got != adj[i][j] {
					return vk.Failf("decode-has-edge-from-to", "HasEdgeFromTo(%d,%d)=%v want %v (n=%d, %q)", i, j, got, adj[i][j], n, quoteShort(s))
				}
			} else {
				eb := graph6.Graph(s).EdgeBetween(int64(i), int64(j))
				if (eb != nil) != adj[i][j] {
					return vk.Failf("decode-edge-between", "EdgeBetween(%d,%d)=%v want present=%v", i, j, eb, adj[i][j])
				}
			}
		}
		// edges to absent nodes
		if g.HasEdgeBetween(int64(i), int64(n)) || g.HasEdgeBetween(-1, int64(i)) || g.Edge(int64(i), int64(n)) != nil {
			return vk.Failf("decode-edge-absent-node", "edge reported between %d and an absent node (n=%d)", i, n)
		}
	}
	return nil
}

// checkGoString checks the n:bits rendering of a valid string.
func checkGoString(s []byte, directed bool, n int64, bits []bool) *vk.Failure {
	var str string
	if r := vk.Call(func() { str = asG6(s, directed).GoString() }); r.Outcome != vk.Returned {
		return vk.Failf("gostring-valid-panics", "GoString of valid %q: %v %s", quoteShort(s), r.Outcome, r.Text)
	}
	pre := strconv.FormatInt(n, 10) + ":"
	if !strings.HasPrefix(str, pre) {
		return vk.Failf("gostring", "GoString()=%q does not start with %q", str, pre)
	}
	if len(bits) == 0 {
		return nil
	}
	got := str[len(pre):]
	var want strings.Builder
	for _, b := range bits {
		if b {
			want.WriteByte('1')
		} else {
			want.WriteByte('0')
		}
	}
	if got != want.String() {
		return vk.Failf("gostring", "GoString()=%q want %s%s", str, pre, want.String())
	}
	return nil
}

// ---- round trip ----------------------------------------------------------------

type g6Case struct {
	Directed bool
	N        int
	IDMode   int // 0: 0..n-1, 1: affine, 2: arbitrary int64 incl. the extremes
	IDBase   int64
	IDStep   int64
	Seed     uint64
	Density  int    // percent
	UseMask  bool   // exhaustive enumeration: adjacency from Mask
	Mask     uint64 // bit k = k-th pair in format order (loops skipped)
	// Loops lists ranks of nodes that carry a self loop. graph6 cannot
	// represent loops and the decoders ignore the diagonal, so the loops must
	// not change the decoded topology. A case with loops is encoded from a
	// harness graph type (simple graphs reject self loops).
	Loops []int `json:",omitempty"`
}

// loopGraph is a graph.Graph over an adjacency matrix that may have a non-zero
// diagonal. The undirected flavour has a symmetric matrix.
type loopGraph struct {
	ids []int64
	idx map[int64]int
	adj [][]bool
}

func newLoopGraph(ids []int64, adj [][]bool, loops []int) *loopGraph {
	g := &loopGraph{ids: ids, idx: map[int64]int{}, adj: make([][]bool, len(adj))}
	for i, id := range ids {
		g.idx[id] = i
		g.adj[i] = append([]bool(nil), adj[i]...)
	}
	for _, l := range loops {
		if l >= 0 && l < len(ids) {
			g.adj[l][l] = true
		}
	}
	return g
}

func (g *loopGraph) Node(id int64) graph.Node {
	if _, ok := g.idx[id]; !ok {
		return nil
	}
	return simple.Node(id)
}

func (g *loopGraph) Nodes() graph.Nodes {
	// delivered in decreasing ID order: the encoder has to sort
	ns := make([]graph.Node, 0, len(g.ids))
	for i := len(g.ids) - 1; i >= 0; i-- {
		ns = append(ns, simple.Node(g.ids[i]))
	}
	return iterator.NewOrderedNodes(ns)
}

func (g *loopGraph) From(id int64) graph.Nodes {
	i, ok := g.idx[id]
	if !ok {
		return graph.Empty
	}
	var ns []graph.Node
	for j := len(g.ids) - 1; j >= 0; j-- {
		if g.adj[i][j] {
			ns = append(ns, simple.Node(g.ids[j]))
		}
	}
	if len(ns) == 0 {
		return graph.Empty
	}
	return iterator.NewOrderedNodes(ns)
}

func (g *loopGraph) HasEdgeBetween(xid, yid int64) bool {
	i, ok1 := g.idx[xid]
	j, ok2 := g.idx[yid]
	return ok1 && ok2 && (g.adj[i][j] || g.adj[j][i])
}

func (g *loopGraph) Edge(uid, vid int64) graph.Edge {
	i, ok1 := g.idx[uid]
	j, ok2 := g.idx[vid]
	if !ok1 || !ok2 || !g.adj[i][j] {
		return nil
	}
	return simple.Edge{F: simple.Node(uid), T: simple.Node(vid)}
}

func (c g6Case) adjacency() [][]bool {
	n := c.N
	adj := make([][]bool, n)
	for i := range adj {
		adj[i] = make([]bool, n)
	}
	rng := vk.NewSplitMix(c.Seed)
	k := 0
	pick := func() bool {
		if c.UseMask {
			b := c.Mask>>uint(k)&1 == 1
			k++
			return b
		}
		return rng.Intn(100) < c.Density
	}
	if c.Directed {
		for i := 0; i < n; i++ {
			for j := 0; j < n; j++ {
				if i != j {
					adj[i][j] = pick()
				}
			}
		}
		return adj
	}
	for j := 1; j < n; j++ {
		for i := 0; i < j; i++ {
			adj[i][j] = pick()
			adj[j][i] = adj[i][j]
		}
	}
	return adj
}

// ids returns n distinct IDs in increasing order (rank i has ids[i]).
func (c g6Case) ids() []int64 {
	ids := make([]int64, c.N)
	switch c.IDMode {
	case 0:
		for i := range ids {
			ids[i] = int64(i)
		}
	case 1:
		for i := range ids {
			ids[i] = c.IDBase + int64(i)*c.IDStep
		}
	default:
		rng := vk.NewSplitMix(c.Seed ^ 0x9e3779b97f4a7c15)
		seen := map[int64]bool{}
		for i := range ids {
			var v int64
			switch {
			case i == 0:
				v = math.MinInt64
			case i == 1:
				v = math.MaxInt64
			case i == 2:
				v = -1
			case i == 3:
				v = 0
			default:
				v = int64(rng.Uint64())
			}
			for seen[v] {
				v = int64(rng.Uint64())
			}
			seen[v] = true
			ids[i] = v
		}
		sort.Slice(ids, func(i, j int) bool { return ids[i] < ids[j] })
	}
	return ids
}

func checkG6RoundTrip(c g6Case) *vk.Failure {
	n := c.N
	adj := c.adjacency()
	ids := c.ids()
	vk.Sample("g6-rt", c)
	codec := "graph6"
	if c.Directed {
		codec = "digraph6"
	}
	hdr := "hdr1"
	if n >= 63 {
		hdr = "hdr4"
	}
	vk.Class("rt " + codec + " " + hdr)
	if n >= 61 && n <= 64 || c.IDMode != 0 {
		vk.NonTrivial("g6", c.Directed, n, c.IDMode, c.IDBase, c.IDStep, c.Seed, c.Density, c.Mask)
	}
	if c.UseMask {
		vk.NonTrivial("g6-small", c.Directed, n, c.Mask)
	}

	// build the source graph, nodes and edges inserted in a scrambled order
	rng := vk.NewSplitMix(c.Seed + 1)
	var src graph.Graph
	var add func(graph.Node)
	var set func(u, v int64)
	if c.Directed {
		g := simple.NewDirectedGraph()
		src, add = g, g.AddNode
		set = func(u, v int64) { g.SetEdge(simple.Edge{F: simple.Node(u), T: simple.Node(v)}) }
	} else {
		g := simple.NewUndirectedGraph()
		src, add = g, g.AddNode
		set = func(u, v int64) { g.SetEdge(simple.Edge{F: simple.Node(u), T: simple.Node(v)}) }
	}
	for _, i := range rng.Perm(n) {
		add(simple.Node(ids[i]))
	}
	type pair struct{ i, j int }
	var es []pair
	for i := 0; i < n; i++ {
		for j := 0; j < n; j++ {
			if adj[i][j] && (c.Directed || i < j) {
				es = append(es, pair{i, j})
			}
		}
	}
	for _, k := range rng.Perm(len(es)) {
		e := es[k]
		if !c.Directed && rng.Intn(2) == 0 {
			e.i, e.j = e.j, e.i
		}
		set(ids[e.i], ids[e.j])
	}

	var loops []int
	for _, l := range c.Loops {
		if l >= 0 && l < n {
			loops = append(loops, l)
		}
	}
	if len(loops) > 0 {
		vk.Class("rt " + codec + " source graph with self loops")
		vk.NonTrivial("g6-loops", c.Directed, n, c.Seed, c.Density, c.Mask, fmt.Sprint(loops))
		return checkG6Loops(c, adj, ids, loops)
	}

	var s []byte
	if r := vk.Call(func() { s = g6Encode(src, c.Directed) }); r.Outcome != vk.Returned {
		return vk.Failf("encode-panics", "Encode on a simple graph of order %d: %v %s", n, r.Outcome, r.Text)
	}
	want := refEncode(adj, c.Directed, 0)
	for i, b := range s {
		if (b < 63 || b > 126) && !(c.Directed && i == 0 && b == '&') {
			return vk.Failf("encode-alphabet", "byte %d of Encode output is %d, outside 63..126 (%q)", i, b, quoteShort(s))
		}
	}
	if !g6IsValid(s, c.Directed) {
		return vk.Failf("encode-not-valid", "IsValid(Encode(g)) is false for order %d: %q", n, quoteShort(s))
	}
	if string(s) != string(want) {
		return vk.Failf("encode-differs-from-format", "order %d: Encode=%q, format definition gives %q (first difference at byte %d)", n, quoteShort(s), quoteShort(want), firstDiff(s, want))
	}
	if f := checkDecoded(s, c.Directed, adj, true); f != nil {
		return f
	}
	// Encode(Graph(s)) == s
	var s2 []byte
	if r := vk.Call(func() { s2 = g6Encode(asG6(s, c.Directed), c.Directed) }); r.Outcome != vk.Returned {
		return vk.Failf("reencode-panics", "Encode(Graph(%q)): %v %s", quoteShort(s), r.Outcome, r.Text)
	}
	if string(s2) != string(s) {
		return vk.Failf("reencode", "Encode(Graph(s))=%q, s=%q", quoteShort(s2), quoteShort(s))
	}
	return checkGoString(s, c.Directed, int64(n), refBits(adj, c.Directed))
}

// checkG6Loops encodes a graph that has self loops. graph6 holds the upper
// triangle of the adjacency matrix only and both decoders ignore the diagonal,
// so the encoding must decode to the topology of the graph without its loops:
// for graph6 the string is the one of the loop-free graph, for digraph6 the
// diagonal bits may be set (the format has them) or not.
func checkG6Loops(c g6Case, adj [][]bool, ids []int64, loops []int) *vk.Failure {
	n := len(adj)
	withLoops := newLoopGraph(ids, adj, loops)
	var s, s0 []byte
	if r := vk.Call(func() { s = g6Encode(withLoops, c.Directed) }); r.Outcome != vk.Returned {
		return vk.Failf("encode-panics", "Encode on a graph of order %d with self loops at ranks %v: %v %s", n, loops, r.Outcome, r.Text)
	}
	if r := vk.Call(func() { s0 = g6Encode(newLoopGraph(ids, adj, nil), c.Directed) }); r.Outcome != vk.Returned {
		return vk.Failf("encode-panics", "Encode on a loop-free graph of order %d: %v %s", n, r.Outcome, r.Text)
	}
	want := refEncode(adj, c.Directed, 0)
	if string(s0) != string(want) {
		return vk.Failf("encode-differs-from-format", "order %d (harness graph type, no loops): Encode=%q, format definition gives %q", n, quoteShort(s0), quoteShort(want))
	}
	if !g6IsValid(s, c.Directed) {
		return vk.Failf("encode-not-valid", "IsValid(Encode(g)) is false for order %d with self loops at ranks %v: %q", n, loops, quoteShort(s))
	}
	alt := want
	if c.Directed {
		diag := make([][]bool, n)
		for i := range diag {
			diag[i] = append([]bool(nil), adj[i]...)
		}
		for _, l := range loops {
			diag[l][l] = true
		}
		alt = refEncode(diag, true, 0)
	}
	if string(s) != string(want) && string(s) != string(alt) {
		// the same graph without its loops is encoded correctly (checked above), so
		// the loops are what changed the adjacency bits
		var extra []string
		if gn, gb, why := refParse(s, c.Directed); why == "" && gn == int64(n) {
			got := refAdj(gn, gb, c.Directed)
			for i := 0; i < n; i++ {
				for j := 0; j < n; j++ {
					if got[i][j] != adj[i][j] && (c.Directed || i < j) && len(extra) < 6 {
						extra = append(extra, fmt.Sprintf("%d-%d decoded=%v graph=%v", i, j, got[i][j], adj[i][j]))
					}
				}
			}
		}
		return vk.Failf("encode-self-loop-changes-adjacency", "order %d, self loops at ranks %v: Encode=%q, but the graph without the loops encodes as %q; graph6 cannot hold loops, so they must be ignored (or rejected), not change other adjacency bits; differing pairs (by rank): %v", n, loops, quoteShort(s), quoteShort(want), extra)
	}
	return checkDecoded(s, c.Directed, adj, true)
}

// checkFromAbsent: graph.Graph documents "From must not return nil"; other
// gonum graphs return graph.Empty for a node that is not in the graph.
func checkFromAbsent(s []byte, directed bool, n int64) *vk.Failure {
	g := asG6(s, directed)
	for _, id := range []int64{n, -1} {
		var it graph.Nodes
		if r := vk.Call(func() { it = g.From(id) }); r.Outcome != vk.Returned {
			return vk.Failf("from-absent-panics", "Graph(%q).From(%d) (order %d): %v %s", quoteShort(s), id, n, r.Outcome, r.Text)
		}
		if it == nil {
			return vk.Failf("from-absent-nil", "Graph(%q).From(%d) is a nil graph.Nodes for a node not in the graph (order %d); graph.Graph documents that From must not return nil", quoteShort(s), id, n)
		}
		if it.Next() {
			return vk.Failf("from-absent-nonempty", "Graph(%q).From(%d) is not empty for an absent node", quoteShort(s), id)
		}
	}
	return nil
}

func drawG6(t *rapid.T) g6Case {
	c := g6Case{Directed: rapid.Bool().Draw(t, "directed")}
	switch rapid.IntRange(0, 9).Draw(t, "ncls") {
	case 0, 1, 2:
		c.N = rapid.SampledFrom([]int{61, 62, 63, 64}).Draw(t, "n_hdr")
	case 3, 4:
		c.N = rapid.IntRange(0, 8).Draw(t, "n_small")
	default:
		c.N = rapid.IntRange(0, 70).Draw(t, "n")
	}
	c.IDMode = rapid.IntRange(0, 2).Draw(t, "idmode")
	if c.IDMode == 1 {
		c.IDBase = rapid.Int64Range(-1_000_000_000_000, 1_000_000_000_000).Draw(t, "idbase")
		c.IDStep = rapid.Int64Range(1, 1_000_000).Draw(t, "idstep")
	}
	c.Seed = rapid.Uint64().Draw(t, "seed")
	c.Density = rapid.SampledFrom([]int{0, 1, 5, 20, 50, 80, 99, 100}).Draw(t, "density")
	if c.N > 0 && rapid.IntRange(0, 5).Draw(t, "loops") == 0 {
		c.Loops = rapid.SliceOfNDistinct(rapid.IntRange(0, c.N-1), 1, min(c.N, 4), rapid.ID[int]).Draw(t, "loop_ranks")
		sort.Ints(c.Loops)
	}
	return c
}

func TestG6RoundTrip(t *testing.T) {
	// all graphs on <= 5 nodes (digraphs: <= 4 in the quick tier, <= 5 thorough),
	// generated from the index so that the list is never materialized
	type block struct {
		directed bool
		n        int
		count    int
	}
	var blocks []block
	total := 0
	for n := 0; n <= 5; n++ {
		blocks = append(blocks, block{false, n, 1 << uint(n*(n-1)/2)})
	}
	for n := 0; n <= vk.Pick(4, 5); n++ {
		blocks = append(blocks, block{true, n, 1 << uint(n*(n-1))})
	}
	for _, b := range blocks {
		total += b.count
	}
	vk.Enumerate(t, "g6-rt", total, func(i int) g6Case {
		for _, b := range blocks {
			if i < b.count {
				m := uint64(i)
				return g6Case{Directed: b.directed, N: b.n, UseMask: true, Mask: m, IDMode: int(m % 3), IDBase: -7, IDStep: 3, Seed: m}
			}
			i -= b.count
		}
		panic("unreachable")
	}, checkG6RoundTrip)
	// every graph on <= 4 nodes (digraph on <= 3 nodes) with every non-empty set
	// of self loops
	var lblocks []block
	ltotal := 0
	for n := 1; n <= 4; n++ {
		lblocks = append(lblocks, block{false, n, (1 << uint(n*(n-1)/2)) * (1<<uint(n) - 1)})
	}
	for n := 1; n <= 3; n++ {
		lblocks = append(lblocks, block{true, n, (1 << uint(n*(n-1))) * (1<<uint(n) - 1)})
	}
	for _, b := range lblocks {
		ltotal += b.count
	}
	vk.Enumerate(t, "g6-rt", ltotal, func(i int) g6Case {
		for _, b := range lblocks {
			if i < b.count {
				sets := 1<<uint(b.n) - 1
				m, ls := uint64(i/sets), i%sets+1
				c := g6Case{Directed: b.directed, N: b.n, UseMask: true, Mask: m, IDMode: int(m % 3), IDBase: -7, IDStep: 3, Seed: m}
				for k := 0; k < b.n; k++ {
					if ls>>uint(k)&1 == 1 {
						c.Loops = append(c.Loops, k)
					}
				}
				return c
			}
			i -= b.count
		}
		panic("unreachable")
	}, checkG6RoundTrip)
	vk.Run(t, "g6-rt", vk.Opts{Quick: 4000, Thorough: 60000, NoCrumb: true}, drawG6, checkG6RoundTrip)
}

// ---- totality ------------------------------------------------------------------

// g6BytesCase is the internal form of the two byte-level sub-checks g6-total
// (graph6) and d6-total (digraph6); their case type is vk.BytesCase.
type g6BytesCase struct {
	Directed bool
	Data     []byte
}

func checkG6TotalBytes(c vk.BytesCase) *vk.Failure {
	vk.Sample("g6-total", c)
	return checkG6Bytes(g6BytesCase{Directed: false, Data: c.Data})
}

func checkD6TotalBytes(c vk.BytesCase) *vk.Failure {
	vk.Sample("d6-total", c)
	return checkG6Bytes(g6BytesCase{Directed: true, Data: c.Data})
}

func checkG6Bytes(c g6BytesCase) *vk.Failure {
	s := c.Data
	codec := "graph6"
	if c.Directed {
		codec = "digraph6"
	}
	if len(s) > maxBytesCase {
		vk.Class("total " + codec + " skipped: input longer than 4096 bytes")
		return nil
	}
	n, body, why := refParse(s, c.Directed)
	var valid bool
	if r := vk.Call(func() { valid = g6IsValid(s, c.Directed) }); r.Outcome != vk.Returned {
		return vk.Failf("isvalid-panics", "%s IsValid(%q): %v %s", codec, quoteShort(s), r.Outcome, r.Text)
	}
	if why == "" {
		vk.Class("total " + codec + " accepted")
	} else {
		vk.Class("total " + codec + " rejected " + why)
	}
	if why == "bad-length" || why == "" {
		vk.NonTrivial(codec+"-total", string(s))
	}
	if valid != (why == "") {
		key := "isvalid-mismatch"
		if n >= 1<<31 {
			key = "isvalid-mismatch-order-wraps" // the size computation overflows 64 bits
		}
		return vk.Failf(key, "%s IsValid(%q)=%v but by the format definition the string is %s (order %d, %d body bytes)",
			codec, quoteShort(s), valid, map[bool]string{true: "valid", false: "invalid: " + why}[why == ""], n, len(body))
	}
	g := asG6(s, c.Directed)
	if why != "" {
		// "An invalid Graph behaves as the null graph."
		var f *vk.Failure
		r := vk.Call(func() {
			if ids, ff := drain("Nodes() of invalid string", g.Nodes(), 1); ff != nil {
				f = ff
				return
			} else if len(ids) != 0 {
				f = vk.Failf("invalid-not-null", "%s Graph(%q) is invalid but Nodes() has %d nodes", codec, quoteShort(s), len(ids))
				return
			}
			for _, id := range []int64{0, 1, -1, 62} {
				if g.Node(id) != nil || g.HasEdgeBetween(id, id+1) || g.Edge(id, id+1) != nil || g.HasEdgeBetween(0, id) {
					f = vk.Failf("invalid-not-null", "%s Graph(%q) is invalid but has node/edge at %d", codec, quoteShort(s), id)
					return
				}
				it := g.From(id)
				if it == nil {
					f = vk.Failf("from-nil", "%s Graph(%q).From(%d) is nil; graph.Graph: From must not return nil", codec, quoteShort(s), id)
					return
				}
				if it.Next() || it.Len() > 0 {
					f = vk.Failf("invalid-not-null", "%s Graph(%q) is invalid but From(%d) is not empty", codec, quoteShort(s), id)
					return
				}
				if c.Directed {
					d := digraph6.Graph(s)
					if it := d.To(id); it == nil || it.Next() || d.HasEdgeFromTo(id, id+1) {
						f = vk.Failf("invalid-not-null", "%s Graph(%q) is invalid but To/HasEdgeFromTo(%d) not empty", codec, quoteShort(s), id)
						return
					}
				} else if graph6.Graph(s).EdgeBetween(id, id+1) != nil {
					f = vk.Failf("invalid-not-null", "%s Graph(%q) is invalid but EdgeBetween(%d,%d) != nil", codec, quoteShort(s), id, id+1)
					return
				}
			}
		})
		if r.Outcome != vk.Returned {
			return vk.Failf("invalid-method-panics", "%s Graph(%q) is invalid (%s) but a Graph method ended in %v: %s", codec, quoteShort(s), why, r.Outcome, r.Text)
		}
		if f != nil {
			return f
		}
		var enc []byte
		if r := vk.Call(func() { enc = g6Encode(g, c.Directed) }); r.Outcome != vk.Returned {
			return vk.Failf("invalid-encode-panics", "Encode(%s Graph(%q)): %v %s", codec, quoteShort(s), r.Outcome, r.Text)
		}
		if null := refEncode(nil, c.Directed, 0); string(enc) != string(null) {
			return vk.Failf("invalid-not-null", "Encode(%s Graph(%q))=%q, the null graph is %q", codec, quoteShort(s), enc, null)
		}
		// last: the known weak spot
		if r := vk.Call(func() { _ = g.GoString() }); r.Outcome != vk.Returned {
			key := "invalid-gostring-panics"
			if rest := s[min(len(s), map[bool]int{false: 0, true: 1}[c.Directed]):]; len(rest) == 0 || (rest[0] == 126 && (len(rest) < 4 || (rest[1] == 126 && len(rest) < 8))) {
				key = "invalid-gostring-panics-short-header"
			}
			return vk.Failf(key, "%s Graph(%q) is invalid (%s) and documented to behave as the null graph, but GoString ended in %v: %s", codec, quoteShort(s), why, r.Outcome, r.Text)
		}
		return nil
	}
	// valid: decoded value consistent with the format definition
	adj := refAdj(n, body, c.Directed)
	var f *vk.Failure
	if r := vk.Call(func() { f = checkDecoded(s, c.Directed, adj, false) }); r.Outcome != vk.Returned {
		return vk.Failf("valid-method-panics", "%s Graph(%q) is valid (order %d) but a Graph method ended in %v: %s", codec, quoteShort(s), n, r.Outcome, r.Text)
	}
	if f != nil {
		return f
	}
	// re-encoding gives the canonical form of the same topology
	var enc []byte
	if r := vk.Call(func() { enc = g6Encode(g, c.Directed) }); r.Outcome != vk.Returned {
		return vk.Failf("valid-encode-panics", "Encode(%s Graph(%q)): %v %s", codec, quoteShort(s), r.Outcome, r.Text)
	}
	if want := refEncode(adj, c.Directed, 0); string(enc) != string(want) {
		return vk.Failf("valid-reencode", "Encode(%s Graph(%q))=%q want canonical %q", codec, quoteShort(s), quoteShort(enc), quoteShort(want))
	}
	if n <= 40 {
		// bits as stored (loops and all) for the rendering
		nb := n * (n - 1) / 2
		if c.Directed {
			nb = n * n
		}
		bits := make([]bool, nb)
		for k := range bits {
			bits[k] = refBit(body, int64(k))
		}
		if f := checkGoString(s, c.Directed, n, bits); f != nil {
			return f
		}
	} else if r := vk.Call(func() { _ = g.GoString() }); r.Outcome != vk.Returned {
		return vk.Failf("gostring-valid-panics", "GoString of valid %q: %v %s", quoteShort(s), r.Outcome, r.Text)
	}
	return checkFromAbsent(s, c.Directed, n)
}

// sizes that stress the header arithmetic: boundaries of the three header
// forms, and orders whose square wraps in 64-bit arithmetic.
var g6HotOrders = []int64{0, 1, 2, 62, 63, 64, 4095, 4096, 258047, 258048, 1<<31 - 1, 1 << 31, 1<<32 - 1, 1 << 32, 1<<32 + 1, 3 << 32, 1 << 33, 1 << 34, 1 << 35, 15 << 32, 1<<36 - 1, 3037000500, 4294967297, 6074001000}

func drawG6Bytes(directed bool) func(t *rapid.T) vk.BytesCase {
	return func(t *rapid.T) vk.BytesCase { return vk.BytesCase{Data: drawG6Bytes1(t, directed).Data} }
}

func drawG6Bytes1(t *rapid.T, directed bool) g6BytesCase {
	c := g6BytesCase{Directed: directed}
	valid := func(label string) []byte {
		n := rapid.IntRange(0, 12).Draw(t, label+"_n")
		if rapid.IntRange(0, 19).Draw(t, label+"_big") == 0 {
			n = rapid.IntRange(60, 68).Draw(t, label+"_nbig")
		}
		form := 0
		if rapid.IntRange(0, 3).Draw(t, label+"_nonmin") == 0 {
			form = rapid.IntRange(1, 2).Draw(t, label+"_form")
		}
		seed := rapid.Uint64().Draw(t, label+"_seed")
		rng := vk.NewSplitMix(seed)
		adj := make([][]bool, n)
		for i := range adj {
			adj[i] = make([]bool, n)
		}
		for i := 0; i < n; i++ {
			for j := 0; j < n; j++ {
				if c.Directed {
					adj[i][j] = rng.Intn(3) == 0 // loops included: legal digraph6
				} else if i < j {
					adj[i][j] = rng.Intn(3) == 0
					adj[j][i] = adj[i][j]
				}
			}
		}
		return refEncode(adj, c.Directed, form)
	}
	switch rapid.IntRange(0, 9).Draw(t, "kind") {
	case 0, 1: // valid, possibly non-minimal header, possibly garbage in the padding bits
		c.Data = valid("v")
		if len(c.Data) > 0 && rapid.Bool().Draw(t, "pad") {
			last := c.Data[len(c.Data)-1] - 63
			last |= byte(rapid.IntRange(0, 3).Draw(t, "padbits"))
			c.Data[len(c.Data)-1] = last + 63
		}
	case 2, 3, 4: // mutated valid encoding
		c.Data = mutate(t, valid("v"), valid("o"), 1024)
	case 5, 6: // structured header corruption: claimed order vs. body length
		n := rapid.SampledFrom(g6HotOrders).Draw(t, "order")
		if rapid.Bool().Draw(t, "order_rand") {
			n = rapid.Int64Range(0, 1<<36-1).Draw(t, "order_any")
		}
		form := rapid.IntRange(0, 2).Draw(t, "form")
		var d []byte
		if c.Directed {
			d = append(d, '&')
		}
		d = append(d, refSize(n, form)...)
		// body length: what the (possibly wrapped) 64-bit arithmetic asks for, or small
		nb := uint64(n) * uint64(n-1) / 2
		if c.Directed {
			nb = uint64(n) * uint64(n)
		}
		want := (nb + 5) / 6
		l := rapid.IntRange(0, 8).Draw(t, "bodylen")
		if want <= 400 && rapid.Bool().Draw(t, "body_wrapped") {
			l = int(want)
		}
		for i := 0; i < l; i++ {
			d = append(d, byte(rapid.IntRange(63, 126).Draw(t, "b")))
		}
		c.Data = d
	case 7: // arbitrary bytes of the alphabet
		c.Data = rapid.SliceOfN(rapid.Map(rapid.IntRange(63, 126), func(v int) byte { return byte(v) }), 0, 24).Draw(t, "alpha")
		if c.Directed && rapid.Bool().Draw(t, "amp") {
			c.Data = append([]byte{'&'}, c.Data...)
		}
	default: // arbitrary bytes
		c.Data = rapid.SliceOfN(rapid.Byte(), 0, 24).Draw(t, "bytes")
		if c.Directed && rapid.Bool().Draw(t, "amp") {
			c.Data = append([]byte{'&'}, c.Data...)
		}
	}
	return c
}

func TestG6Totality(t *testing.T) {
	// every string of length <= 3 over a reduced alphabet, both codecs
	alpha := []byte{0, '&', 62, 63, 64, 'A', 'B', 125, 126, 127, 255}
	cases := []vk.BytesCase{{}}
	for _, a := range alpha {
		cases = append(cases, vk.BytesCase{Data: []byte{a}})
		for _, b := range alpha {
			cases = append(cases, vk.BytesCase{Data: []byte{a, b}})
			for _, c := range alpha {
				cases = append(cases, vk.BytesCase{Data: []byte{a, b, c}})
			}
		}
	}
	vk.Enumerate(t, "g6-total", len(cases), func(i int) vk.BytesCase { return cases[i] }, checkG6TotalBytes)
	vk.Run(t, "g6-total", vk.Opts{Quick: 15000, Thorough: 200000, NoCrumb: true}, drawG6Bytes(false), checkG6TotalBytes)
	vk.Enumerate(t, "d6-total", len(cases), func(i int) vk.BytesCase { return cases[i] }, checkD6TotalBytes)
	vk.Run(t, "d6-total", vk.Opts{Quick: 15000, Thorough: 200000, NoCrumb: true}, drawG6Bytes(true), checkD6TotalBytes)
}
