package c16

import (
	"bytes"
	"encoding/binary"
	"errors"
	"fmt"
	"io"
	"math"
	"math/big"
	"strings"
	"testing"
	"testing/iotest"

	"gonum.org/v1/gonum/mat"
	"pgregory.net/rapid"
	"verifharness/vk"
)

// ---- reference encoding (from the layout documented at MarshalBinary) ---------

type matHeader struct {
	Version          uint32
	Form, Pack, Uplo byte
	Unit             byte
	Rows, Cols       int64
	KU, KL           int64
}

func (h matHeader) bytes() []byte {
	b := make([]byte, 40)
	binary.LittleEndian.PutUint32(b[0:], h.Version)
	b[4], b[5], b[6], b[7] = h.Form, h.Pack, h.Uplo, h.Unit
	binary.LittleEndian.PutUint64(b[8:], uint64(h.Rows))
	binary.LittleEndian.PutUint64(b[16:], uint64(h.Cols))
	binary.LittleEndian.PutUint64(b[24:], uint64(h.KU))
	binary.LittleEndian.PutUint64(b[32:], uint64(h.KL))
	return b
}

func goodHeader(r, c int64) matHeader {
	return matHeader{Version: 1, Form: 'G', Pack: 'F', Uplo: 'A', Rows: r, Cols: c}
}

func parseMatHeader(b []byte) matHeader {
	return matHeader{
		Version: binary.LittleEndian.Uint32(b[0:]),
		Form:    b[4], Pack: b[5], Uplo: b[6], Unit: b[7],
		Rows: int64(binary.LittleEndian.Uint64(b[8:])),
		Cols: int64(binary.LittleEndian.Uint64(b[16:])),
		KU:   int64(binary.LittleEndian.Uint64(b[24:])),
		KL:   int64(binary.LittleEndian.Uint64(b[32:])),
	}
}

func refMatEncode(r, c int, at func(i, j int) float64) []byte {
	b := goodHeader(int64(r), int64(c)).bytes()
	var e [8]byte
	for i := 0; i < r; i++ {
		for j := 0; j < c; j++ {
			binary.LittleEndian.PutUint64(e[:], math.Float64bits(at(i, j)))
			b = append(b, e[:]...)
		}
	}
	return b
}

// special values: NaN payloads (quiet and signalling), signed zeros,
// infinities, subnormals, extremes.
var matSpecials = []uint64{
	0x0000000000000000, 0x8000000000000000, 0x7ff0000000000000, 0xfff0000000000000,
	0x7ff8000000000000, 0x7ff8000000000001, 0xfff8dead0000beef, 0x7ff0000000000001, 0xfff7ffffffffffff,
	0x0000000000000001, 0x800fffffffffffff, 0x0010000000000000, 0x7fefffffffffffff, 0x3ff0000000000000,
}

func matValue(rng *vk.SplitMix, mode int) float64 {
	switch mode {
	case 0: // finite moderate
		return rng.Finite()
	case 1: // arbitrary bit patterns
		return math.Float64frombits(rng.Uint64())
	default: // specials mixed with finite
		if rng.Intn(2) == 0 {
			return math.Float64frombits(matSpecials[rng.Intn(len(matSpecials))])
		}
		return rng.Finite()
	}
}

// ---- round trip -----------------------------------------------------------------

type matCase struct {
	Vec                    bool
	R, C                   int
	RowOff, ColOff         int // window position in the backing matrix
	PadR, PadC             int // extra rows/cols of the backing matrix after the window
	Mode                   int
	Seed                   uint64
	FailAt                 int // writer/reader failing after this many bytes (taken modulo the encoding length)
	ReaderKind, WriterKind int
}

// build returns the value under test as a view into a larger backing matrix
// together with an element accessor.
func (c matCase) build() (d *mat.Dense, v *mat.VecDense, at func(i, j int) float64) {
	br, bc := c.RowOff+c.R+c.PadR, c.ColOff+c.C+c.PadC
	rng := vk.NewSplitMix(c.Seed)
	data := make([]float64, br*bc)
	for i := range data {
		data[i] = matValue(rng, c.Mode)
	}
	back := mat.NewDense(br, bc, data)
	at = func(i, j int) float64 { return data[(c.RowOff+i)*bc+c.ColOff+j] }
	if c.Vec {
		// column ColOff of the backing matrix, rows RowOff..RowOff+R: increment bc
		col := back.ColView(c.ColOff).(*mat.VecDense)
		v = col.SliceVec(c.RowOff, c.RowOff+c.R).(*mat.VecDense)
		return nil, v, at
	}
	d = back.Slice(c.RowOff, c.RowOff+c.R, c.ColOff, c.ColOff+c.C).(*mat.Dense)
	return d, nil, at
}

var errSentinel = errors.New("c16: injected failure")

// limitWriter accepts k bytes, then fails.
type limitWriter struct {
	buf  bytes.Buffer
	left int
	kind int // 0: short count + error, 1: full writes until the limit then (0, err)
}

func (w *limitWriter) Write(p []byte) (int, error) {
	if len(p) <= w.left {
		w.left -= len(p)
		return w.buf.Write(p)
	}
	n := w.left
	if w.kind == 1 {
		// refuse the whole write once it would cross the limit
		n = 0
	}
	w.buf.Write(p[:n])
	w.left = 0
	return n, errSentinel
}

// limitReader delivers k bytes, then fails with errSentinel (together with
// the last data or on the next call).
type limitReader struct {
	data []byte
	kind int // 0: (n, nil) then (0, err); 1: (n, err) with the last bytes; 2: at most 3 bytes per call
}

func (r *limitReader) Read(p []byte) (int, error) {
	if len(r.data) == 0 {
		return 0, errSentinel
	}
	n := min(len(p), len(r.data))
	if r.kind == 2 {
		n = min(n, 3)
	}
	copy(p, r.data[:n])
	r.data = r.data[n:]
	if r.kind == 1 && len(r.data) == 0 {
		return n, errSentinel
	}
	return n, nil
}

type matMarshaler interface {
	MarshalBinary() ([]byte, error)
	MarshalBinaryTo(io.Writer) (int, error)
}

func checkMatRoundTrip(c matCase) *vk.Failure {
	vk.Sample("mat-rt", c)
	d, v, at := c.build()
	r, cc := c.R, c.C
	var src matMarshaler = d
	kind := "Dense"
	if c.Vec {
		src, kind, cc = v, "VecDense", 1
	}
	strided := c.ColOff+c.PadC > 0 || c.Vec
	vk.Class(fmt.Sprintf("rt mat %s strided=%v mode=%d", kind, strided, c.Mode))
	if strided || c.Mode != 0 {
		vk.NonTrivial("mat", c.Vec, r, cc, c.RowOff, c.ColOff, c.PadR, c.PadC, c.Mode, c.Seed)
	}
	want := refMatEncode(r, cc, at)

	b, err := src.MarshalBinary()
	if err != nil {
		return vk.Failf("marshal-error", "%s %dx%d MarshalBinary: %v", kind, r, cc, err)
	}
	if len(b) != 40+8*r*cc {
		return vk.Failf("marshal-length", "%s %dx%d MarshalBinary gives %d bytes, documented layout has %d", kind, r, cc, len(b), 40+8*r*cc)
	}
	if !bytes.Equal(b, want) {
		k := firstDiff(b, want)
		return vk.Failf("marshal-layout", "%s %dx%d (window at %d,%d of a %dx%d backing matrix): MarshalBinary differs from the documented layout at byte %d (element %d): got %x want %x",
			kind, r, cc, c.RowOff, c.ColOff, c.RowOff+c.R+c.PadR, c.ColOff+c.C+c.PadC, k, (k-40)/8, b[k:min(k+8, len(b))], want[k:min(k+8, len(want))])
	}
	var buf bytes.Buffer
	n, err := src.MarshalBinaryTo(&buf)
	if err != nil || n != len(want) {
		return vk.Failf("marshalto-count", "%s %dx%d MarshalBinaryTo returned (%d, %v), want (%d, nil)", kind, r, cc, n, err, len(want))
	}
	if !bytes.Equal(buf.Bytes(), want) {
		return vk.Failf("marshalto-differs", "%s %dx%d MarshalBinaryTo output differs from MarshalBinary at byte %d", kind, r, cc, firstDiff(buf.Bytes(), want))
	}

	// decoding: slice API and stream API with awkward readers
	same := func(what string, get func(i, j int) float64, gr, gc int) *vk.Failure {
		if gr != r || gc != cc {
			return vk.Failf("unmarshal-dims", "%s %s: decoded dims %dx%d want %dx%d", kind, what, gr, gc, r, cc)
		}
		for i := 0; i < r; i++ {
			for j := 0; j < cc; j++ {
				if g, w := get(i, j), at(i, j); math.Float64bits(g) != math.Float64bits(w) {
					return vk.Failf("unmarshal-element", "%s %s: element (%d,%d) decoded as %016x, encoded %016x", kind, what, i, j, math.Float64bits(g), math.Float64bits(w))
				}
			}
		}
		return nil
	}
	trailer := []byte{1, 2, 3, 4, 5, 6, 7, 8, 9}
	readers := []struct {
		name string
		mk   func() io.Reader
	}{
		{"bytes.Reader", func() io.Reader { return bytes.NewReader(append(append([]byte(nil), want...), trailer...)) }},
		{"OneByteReader", func() io.Reader { return iotest.OneByteReader(bytes.NewReader(want)) }},
		{"DataErrReader", func() io.Reader { return iotest.DataErrReader(bytes.NewReader(want)) }},
		{"HalfReader", func() io.Reader { return iotest.HalfReader(bytes.NewReader(want)) }},
		{"DataErrReader(OneByteReader)", func() io.Reader { return iotest.DataErrReader(iotest.OneByteReader(bytes.NewReader(want))) }},
	}
	if c.Vec {
		var got mat.VecDense
		if err := got.UnmarshalBinary(want); err != nil {
			return vk.Failf("unmarshal-error", "VecDense UnmarshalBinary of a valid encoding (n=%d): %v", r, err)
		}
		if f := same("UnmarshalBinary", func(i, j int) float64 { return got.AtVec(i) }, got.Len(), 1); f != nil {
			return f
		}
		for _, rd := range readers {
			var got mat.VecDense
			src := rd.mk()
			n, err := got.UnmarshalBinaryFrom(src)
			if err != nil || n != len(want) {
				return vk.Failf("unmarshalfrom-count", "VecDense UnmarshalBinaryFrom(%s) returned (%d, %v), want (%d, nil)", rd.name, n, err, len(want))
			}
			if f := same("UnmarshalBinaryFrom("+rd.name+")", func(i, j int) float64 { return got.AtVec(i) }, got.Len(), 1); f != nil {
				return f
			}
			if rd.name == "bytes.Reader" {
				rest, _ := io.ReadAll(src)
				if !bytes.Equal(rest, trailer) {
					return vk.Failf("unmarshalfrom-overread", "VecDense UnmarshalBinaryFrom consumed bytes after the encoding: %d of %d trailer bytes left", len(rest), len(trailer))
				}
			}
		}
	} else {
		var got mat.Dense
		if err := got.UnmarshalBinary(want); err != nil {
			return vk.Failf("unmarshal-error", "Dense UnmarshalBinary of a valid encoding (%dx%d): %v", r, cc, err)
		}
		gr, gc := got.Dims()
		if f := same("UnmarshalBinary", got.At, gr, gc); f != nil {
			return f
		}
		for _, rd := range readers {
			var got mat.Dense
			src := rd.mk()
			n, err := got.UnmarshalBinaryFrom(src)
			if err != nil || n != len(want) {
				return vk.Failf("unmarshalfrom-count", "Dense UnmarshalBinaryFrom(%s) returned (%d, %v), want (%d, nil)", rd.name, n, err, len(want))
			}
			gr, gc := got.Dims()
			if f := same("UnmarshalBinaryFrom("+rd.name+")", got.At, gr, gc); f != nil {
				return f
			}
			if rd.name == "bytes.Reader" {
				rest, _ := io.ReadAll(src)
				if !bytes.Equal(rest, trailer) {
					return vk.Failf("unmarshalfrom-overread", "Dense UnmarshalBinaryFrom consumed bytes after the encoding: %d of %d trailer bytes left", len(rest), len(trailer))
				}
			}
		}
	}

	// failing writer: error and count are reported
	k := c.FailAt % len(want)
	w := &limitWriter{left: k, kind: c.WriterKind}
	n, err = src.MarshalBinaryTo(w)
	if !errors.Is(err, errSentinel) {
		return vk.Failf("marshalto-error-lost", "%s %dx%d MarshalBinaryTo to a writer failing after %d bytes returned err=%v", kind, r, cc, k, err)
	}
	if n != w.buf.Len() || !bytes.Equal(w.buf.Bytes(), want[:n]) {
		return vk.Failf("marshalto-error-count", "%s %dx%d MarshalBinaryTo to a writer failing after %d bytes (kind %d) returned n=%d but the writer accepted %d bytes", kind, r, cc, k, c.WriterKind, n, w.buf.Len())
	}
	// failing / truncated readers
	for _, trunc := range []bool{false, true} {
		var rd io.Reader = &limitReader{data: want[:k], kind: c.ReaderKind}
		if trunc {
			rd = bytes.NewReader(want[:k])
			if c.ReaderKind == 1 {
				rd = iotest.DataErrReader(rd)
			} else if c.ReaderKind == 2 {
				rd = iotest.OneByteReader(rd)
			}
		}
		var n int
		var err error
		var empty bool
		var left string
		if c.Vec {
			var got mat.VecDense
			n, err = got.UnmarshalBinaryFrom(rd)
			empty, left = got.IsEmpty(), fmt.Sprintf("a vector of length %d", got.Len())
		} else {
			var got mat.Dense
			n, err = got.UnmarshalBinaryFrom(rd)
			gr, gc := got.Dims()
			empty, left = got.IsEmpty(), fmt.Sprintf("a %dx%d matrix", gr, gc)
		}
		what := fmt.Sprintf("%s %dx%d UnmarshalBinaryFrom, input cut after %d of %d bytes (reader kind %d, eof=%v)", kind, r, cc, k, len(want), c.ReaderKind, trunc)
		if err == nil {
			return vk.Failf("unmarshalfrom-truncated-accepted", "%s returned a nil error", what)
		}
		if !trunc && !errors.Is(err, errSentinel) {
			return vk.Failf("unmarshalfrom-error-lost", "%s returned err=%v instead of the reader's error", what, err)
		}
		if trunc && !errors.Is(err, io.ErrUnexpectedEOF) && !errors.Is(err, io.EOF) {
			return vk.Failf("unmarshalfrom-eof-error", "%s returned err=%v, want an EOF error", what, err)
		}
		if n != k {
			return vk.Failf("unmarshalfrom-error-count", "%s returned n=%d", what, n)
		}
		if !empty {
			return vk.Failf("unmarshalfrom-error-leaves-nonempty-receiver", "%s returned err=%v and left the receiver as %s holding the elements read so far followed by unspecified values; a failed decode must not deliver a value (UnmarshalBinary leaves the receiver empty), and the receiver now makes a retry panic", what, err, left)
		}
	}
	return nil
}

func drawMat(t *rapid.T) matCase {
	c := matCase{Vec: rapid.Bool().Draw(t, "vec")}
	c.R = vk.Dim(t, "r", 1, 12)
	c.C = 1
	if !c.Vec {
		c.C = vk.Dim(t, "c", 1, 12)
	}
	c.RowOff, c.ColOff = vk.Pad(t, "rowoff"), vk.Pad(t, "coloff")
	c.PadR, c.PadC = vk.Pad(t, "padr"), vk.Pad(t, "padc")
	c.Mode = rapid.IntRange(0, 2).Draw(t, "mode")
	c.Seed = rapid.Uint64().Draw(t, "seed")
	c.FailAt = rapid.IntRange(0, 40+8*c.R*c.C-1).Draw(t, "failat")
	if rapid.Bool().Draw(t, "fail_hdr") {
		c.FailAt = rapid.IntRange(0, 47).Draw(t, "failat_hdr")
	}
	c.ReaderKind = rapid.IntRange(0, 2).Draw(t, "rkind")
	c.WriterKind = rapid.IntRange(0, 1).Draw(t, "wkind")
	return c
}

func TestMatRoundTrip(t *testing.T) {
	vk.Run(t, "mat-rt", vk.Opts{Quick: 20000, Thorough: 400000, NoCrumb: true}, drawMat, checkMatRoundTrip)
}

// ---- totality ------------------------------------------------------------------

type matBytesCase struct {
	Vec    bool
	Stream int // 0: UnmarshalBinary, 1: UnmarshalBinaryFrom(bytes.Reader), 2: OneByteReader, 3: DataErrReader
	Data   []byte
}

const matStreamCap = 1 << 24 // elements; larger true sizes are outside the stream API's documented domain

// refMatDecode decides from the documented layout whether data is the
// encoding of a Dense / VecDense. reason is "" for an acceptable input.
func refMatDecode(data []byte, vec, stream bool) (h matHeader, reason string) {
	if len(data) < 40 {
		return h, "short-header"
	}
	h = parseMatHeader(data)
	switch {
	case h.Version != 1:
		return h, "version"
	case h.Form != 'G' || h.Pack != 'F' || h.Uplo != 'A' || h.Unit != 0 || h.KU != 0 || h.KL != 0:
		return h, "type"
	case h.Rows < 0 || h.Cols < 0:
		return h, "negative"
	case vec && h.Cols != 1:
		return h, "vec-cols"
	case h.Rows == 0 || h.Cols == 0:
		return h, "zero"
	}
	size := new(big.Int).Mul(big.NewInt(h.Rows), big.NewInt(h.Cols))
	need := new(big.Int).Add(big.NewInt(40), new(big.Int).Mul(size, big.NewInt(8)))
	if !need.IsInt64() {
		return h, "too-big"
	}
	switch {
	case stream && need.Int64() > int64(len(data)):
		return h, "short-data"
	case !stream && need.Int64() != int64(len(data)):
		return h, "length"
	}
	return h, ""
}

// checkMatDenseBytes / checkMatVecBytes are the byte-level sub-checks
// matdense-total and matvec-total: the input goes through UnmarshalBinary and
// through UnmarshalBinaryFrom with three kinds of reader.
func checkMatDenseBytes(c vk.BytesCase) *vk.Failure {
	vk.Sample("matdense-total", c)
	return checkMatAllAPIs("matdense-total", false, c.Data)
}

func checkMatVecBytes(c vk.BytesCase) *vk.Failure {
	vk.Sample("matvec-total", c)
	return checkMatAllAPIs("matvec-total", true, c.Data)
}

func checkMatAllAPIs(sub string, vec bool, data []byte) *vk.Failure {
	if len(data) > maxBytesCase {
		vk.Class("total mat skipped: input longer than 4096 bytes")
		return nil
	}
	var first *vk.Failure
	for api := 0; api < 4; api++ {
		f := checkMatBytes(matBytesCase{Vec: vec, Stream: api, Data: data})
		if f == nil {
			continue
		}
		if !openKnown[sub+"/"+f.Key] {
			return f // a failure that is not a recorded finding takes precedence
		}
		if first == nil {
			first = f
		}
	}
	return first
}

func checkMatBytes(c matBytesCase) *vk.Failure {
	kind := "Dense"
	if c.Vec {
		kind = "VecDense"
	}
	api := []string{"UnmarshalBinary", "UnmarshalBinaryFrom(bytes.Reader)", "UnmarshalBinaryFrom(OneByteReader)", "UnmarshalBinaryFrom(DataErrReader)"}[c.Stream]
	stream := c.Stream != 0
	h, reason := refMatDecode(c.Data, c.Vec, stream)
	if stream && len(c.Data) >= 40 && h.Version == 1 && h.Rows >= 0 && h.Cols >= 0 {
		// "UnmarshalBinary does not limit the size of the unmarshaled matrix, and
		// so it should not be used on untrusted data": a header that makes the
		// stream decoder allocate more than 2^24 elements is outside the domain.
		// Sizes whose 64-bit product wraps to something small are kept.
		alloc := h.Rows * h.Cols // wraps like the decoder's arithmetic
		if c.Vec {
			alloc = h.Rows
		}
		if alloc > matStreamCap {
			vk.Class("total mat " + kind + " stream excluded: allocation > 2^24 elements")
			return nil
		}
	}
	label := reason
	if label == "" {
		label = "accepted"
	}
	vk.Class("total mat " + kind + " " + []string{"bytes", "stream"}[min(c.Stream, 1)] + " " + label)
	if reason != "short-header" && reason != "version" {
		vk.NonTrivial("mat-total", c.Vec, string(c.Data))
	}

	var d mat.Dense
	var v mat.VecDense
	var err error
	var n int
	res := vk.Call(func() {
		var rd io.Reader
		switch c.Stream {
		case 1:
			rd = bytes.NewReader(c.Data)
		case 2:
			rd = iotest.OneByteReader(bytes.NewReader(c.Data))
		case 3:
			rd = iotest.DataErrReader(bytes.NewReader(c.Data))
		}
		switch {
		case c.Vec && !stream:
			err = v.UnmarshalBinary(c.Data)
		case c.Vec:
			n, err = v.UnmarshalBinaryFrom(rd)
		case !stream:
			err = d.UnmarshalBinary(c.Data)
		default:
			n, err = d.UnmarshalBinaryFrom(rd)
		}
	})
	what := fmt.Sprintf("%s.%s, header %+v, %d bytes", kind, api, h, len(c.Data))
	if len(c.Data) < 40 {
		what = fmt.Sprintf("%s.%s, %d bytes %s", kind, api, len(c.Data), hexShort(c.Data))
	}
	if res.Outcome != vk.Returned {
		key := "panics"
		if strings.Contains(res.Text, "makeslice") && reason == "too-big" {
			key = "panics-makeslice" // non-negative dimensions whose size computation wraps
		}
		return vk.Failf(key, "%s: %v: %s", what, res.Outcome, res.Text)
	}
	if err == nil && reason == "negative" {
		return vk.Failf("accepts-negative-dims", "%s: accepted with a nil error", what)
	}
	if err == nil {
		// internal consistency of whatever was accepted
		var r, cc int
		var data []float64
		var at func(i, j int) float64
		if c.Vec {
			r, cc = v.Dims()
			raw := v.RawVector()
			data = raw.Data
			at = func(i, j int) float64 { return v.AtVec(i) }
			if raw.N != r || raw.Inc < 1 || (r > 0 && (r-1)*raw.Inc+1 > len(data)) {
				return vk.Failf("accepted-inconsistent", "%s: accepted, RawVector N=%d Inc=%d len(Data)=%d", what, raw.N, raw.Inc, len(data))
			}
		} else {
			r, cc = d.Dims()
			raw := d.RawMatrix()
			data = raw.Data
			at = d.At
			ok := raw.Rows == r && raw.Cols == cc && raw.Stride >= cc
			if ok && r > 0 && cc > 0 {
				need := new(big.Int).Mul(big.NewInt(int64(r-1)), big.NewInt(int64(raw.Stride)))
				need.Add(need, big.NewInt(int64(cc)))
				ok = need.IsInt64() && need.Int64() <= int64(len(data))
			}
			if !ok {
				key := "accepted-inconsistent"
				if reason == "too-big" {
					key = "accepts-wrapped-dims" // non-negative dimensions whose product wraps in int64
				}
				return vk.Failf(key, "%s: accepted with a nil error, but the result has Dims %dx%d over %d elements (RawMatrix Rows=%d Cols=%d Stride=%d)", what, r, cc, len(data), raw.Rows, raw.Cols, raw.Stride)
			}
		}
		if r <= 0 || cc <= 0 {
			return vk.Failf("accepted-empty", "%s: accepted, dims %dx%d", what, r, cc)
		}
		for _, ij := range [][2]int{{0, 0}, {0, cc - 1}, {r - 1, 0}, {r - 1, cc - 1}} {
			if res := vk.Call(func() { at(ij[0], ij[1]) }); res.Outcome != vk.Returned {
				return vk.Failf("accepted-at-panics", "%s: accepted, but At(%d,%d) of the %dx%d result: %v %s", what, ij[0], ij[1], r, cc, res.Outcome, res.Text)
			}
		}
		if reason != "" {
			return vk.Failf("accepts-invalid", "%s: accepted although the input is not a valid encoding (%s)", what, reason)
		}
		if int64(r) != h.Rows || int64(cc) != h.Cols {
			return vk.Failf("accepted-dims", "%s: decoded dims %dx%d", what, r, cc)
		}
		for i := 0; i < r; i++ {
			for j := 0; j < cc; j++ {
				w := binary.LittleEndian.Uint64(c.Data[40+8*(i*cc+j):])
				if g := math.Float64bits(at(i, j)); g != w {
					return vk.Failf("accepted-element", "%s: element (%d,%d) decoded as %016x, encoded %016x", what, i, j, g, w)
				}
			}
		}
		if stream && n != 40+8*r*cc {
			return vk.Failf("accepted-count", "%s: returned n=%d want %d", what, n, 40+8*r*cc)
		}
		return nil
	}
	if reason == "" {
		return vk.Failf("rejects-valid", "%s: valid encoding rejected: %v", what, err)
	}
	// a failed decode delivers no value: the receiver is still empty (and can be
	// used for another attempt, which panics on a non-empty receiver)
	if c.Vec && !v.IsEmpty() || !c.Vec && !d.IsEmpty() {
		r, cc := d.Dims()
		if c.Vec {
			r, cc = v.Dims()
		}
		key := "error-leaves-nonempty-receiver"
		if stream && reason == "short-data" {
			key = "stream-error-leaves-nonempty-receiver" // element data cut short after a complete header
		}
		return vk.Failf(key, "%s: err=%v, but the receiver is now %dx%d and not empty: it holds the elements read so far followed by unspecified values, and a second Unmarshal into it panics", what, err, r, cc)
	}
	if stream {
		// the count never exceeds the input and covers the header when it was complete
		if n < 0 || n > len(c.Data) || (len(c.Data) >= 40 && n < 40) || (len(c.Data) < 40 && n != len(c.Data)) {
			return vk.Failf("error-count", "%s: err=%v with n=%d", what, err, n)
		}
	}
	// documented: "ErrShape is returned if the number of rows or columns is negative"
	if reason == "negative" && !errors.Is(err, mat.ErrShape) {
		return vk.Failf("negative-dims-not-errshape", "%s: err=%q; documented: ErrShape is returned if the number of rows or columns is negative", what, err)
	}
	return nil
}

var matHotDims = []int64{-1, 0, 1, 2, 3, 8, 1 << 31, 1 << 32, 1<<61 + 1, 1<<63 - 1, -1 << 63, 1 << 62, 1 << 61, 1<<32 + 1, 1<<60 + 1, 1<<24 + 1, 1 << 24, 3037000500}

func drawMatBytes(vec bool) func(t *rapid.T) vk.BytesCase {
	return func(t *rapid.T) vk.BytesCase { return vk.BytesCase{Data: drawMatBytes1(t, vec).Data} }
}

func drawMatBytes1(t *rapid.T, vec bool) matBytesCase {
	c := matBytesCase{Vec: vec}
	validEnc := func(label string) []byte {
		r := rapid.IntRange(1, 4).Draw(t, label+"_r")
		cc := 1
		if !c.Vec {
			cc = rapid.IntRange(1, 4).Draw(t, label+"_c")
		}
		rng := vk.NewSplitMix(rapid.Uint64().Draw(t, label+"_seed"))
		return refMatEncode(r, cc, func(i, j int) float64 { return matValue(rng, 2) })
	}
	payload := func(n int) []byte {
		rng := vk.NewSplitMix(uint64(n) + 77)
		b := make([]byte, n)
		for i := range b {
			b[i] = byte(rng.Uint64())
		}
		return b
	}
	switch rapid.IntRange(0, 9).Draw(t, "kind") {
	case 0: // valid
		c.Data = validEnc("v")
	case 1, 2: // valid, mutated (truncation at every length, flips, splices)
		c.Data = mutate(t, validEnc("v"), validEnc("o"), 4096)
	case 3, 4, 5, 6: // structured header corruption
		h := goodHeader(1, 1)
		dim := func(label string) int64 {
			if rapid.IntRange(0, 4).Draw(t, label+"_rand") == 0 {
				return rapid.Int64().Draw(t, label+"_any")
			}
			return rapid.SampledFrom(matHotDims).Draw(t, label)
		}
		h.Rows = dim("rows")
		h.Cols = dim("cols")
		if c.Vec && rapid.IntRange(0, 2).Draw(t, "veccols1") != 0 {
			h.Cols = 1
		}
		switch rapid.IntRange(0, 11).Draw(t, "fieldmut") {
		case 0:
			h.Version = rapid.SampledFrom([]uint32{0, 2, 1 << 24, 0xffffffff}).Draw(t, "version")
		case 1:
			h.Form = rapid.SampledFrom([]byte{'S', 'T', 'g', 0}).Draw(t, "form")
		case 2:
			h.Pack = rapid.SampledFrom([]byte{'B', 'P', 'f', 0}).Draw(t, "pack")
		case 3:
			h.Uplo = rapid.SampledFrom([]byte{'U', 'L', 'a', 0}).Draw(t, "uplo")
		case 4:
			h.Unit = rapid.SampledFrom([]byte{1, 2, 255}).Draw(t, "unit")
		case 5:
			h.KU = rapid.SampledFrom(matHotDims).Draw(t, "ku")
		case 6:
			h.KL = rapid.SampledFrom(matHotDims).Draw(t, "kl")
		}
		// payload: the byte count the decoder's wrapping 64-bit arithmetic asks
		// for, when that is small
		elems := uint64(h.Rows) * uint64(h.Cols)
		if c.Vec {
			elems = uint64(h.Rows)
		}
		pb := int64(elems * 8)
		pl := rapid.IntRange(0, 64).Draw(t, "payload")
		if pb >= 0 && pb <= 4096 && rapid.IntRange(0, 3).Draw(t, "payload_match") != 0 {
			pl = int(pb)
		}
		c.Data = append(h.bytes(), payload(pl)...)
	case 7: // pairs whose product wraps to a small positive number: r odd, c = 2^k
		k := rapid.IntRange(1, 62).Draw(t, "k")
		small := rapid.Int64Range(1, 8).Draw(t, "small")
		rows := int64(1)<<uint(64-k) + small // rows * 2^k = 2^64 + small*2^k
		cols := int64(1) << uint(k)
		if rows < 0 {
			rows = int64(1)<<62 + small
			cols = 4
		}
		if k >= 2 && rapid.IntRange(0, 3).Draw(t, "negative") == 0 {
			rows = small - int64(1)<<uint(64-k) // negative, and rows * 2^k wraps to small * 2^k
		}
		if rapid.Bool().Draw(t, "swap") {
			rows, cols = cols, rows
		}
		h := goodHeader(rows, cols)
		w := rows * cols
		pl := 0
		if w > 0 && w <= 1024 {
			pl = int(w) * 8
		}
		c.Data = append(h.bytes(), payload(pl)...)
	default: // arbitrary bytes
		c.Data = rapid.SliceOfN(rapid.Byte(), 0, 96).Draw(t, "bytes")
	}
	return c
}

func TestMatTotality(t *testing.T) {
	// truncation of a valid encoding at every length, and one byte too many
	for _, vec := range []bool{false, true} {
		cc, sub, check := 3, "matdense-total", checkMatDenseBytes
		if vec {
			cc, sub, check = 1, "matvec-total", checkMatVecBytes
		}
		enc := refMatEncode(2, cc, func(i, j int) float64 { return float64(i*3+j) + 0.5 })
		var cases []vk.BytesCase
		for l := 0; l <= len(enc); l++ {
			cases = append(cases, vk.BytesCase{Data: enc[:l]})
		}
		cases = append(cases, vk.BytesCase{Data: append(append([]byte(nil), enc...), 0)})
		vk.Enumerate(t, sub, len(cases), func(i int) vk.BytesCase { return cases[i] }, check)
		vk.Run(t, sub, vk.Opts{Quick: 16000, Thorough: 320000, NoCrumb: true}, drawMatBytes(vec), check)
	}
}
