package c16

import (
	"bytes"
	"errors"
	"fmt"
	"io"
	"net/url"
	"regexp"
	"strings"
	"testing"
	"unicode/utf8"

	"gonum.org/v1/gonum/graph/formats/rdf"
	"pgregory.net/rapid"
	"verifharness/vk"
)

// ---- generated terms -------------------------------------------------------------

// nqTerm is a term in N-Quads surface syntax, kept in parts so that the
// reference interpretation does not need a parser.
type nqTerm struct {
	Kind int    // 1 IRI, 2 literal, 3 blank (values of rdf.Kind)
	Body string // IRI: text between <>; literal: text between the quotes (escaped form); blank: label
	Lang string // literal: language tag without '@'
	DT   string // literal: datatype IRI text between <> (escaped form)
}

func (t nqTerm) raw() string {
	switch t.Kind {
	case 1:
		return "<" + t.Body + ">"
	case 3:
		return "_:" + t.Body
	}
	s := `"` + t.Body + `"`
	if t.Lang != "" {
		return s + "@" + t.Lang
	}
	if t.DT != "" {
		return s + "^^<" + t.DT + ">"
	}
	return s
}

func hexVal(c byte) rune {
	switch {
	case c >= '0' && c <= '9':
		return rune(c - '0')
	case c >= 'a' && c <= 'f':
		return rune(c-'a') + 10
	default:
		return rune(c-'A') + 10
	}
}

// refUnescape interprets ECHAR and UCHAR escapes (N-Quads grammar).
func refUnescape(s string) string {
	var b strings.Builder
	for i := 0; i < len(s); {
		if s[i] != '\\' {
			r, w := utf8.DecodeRuneInString(s[i:])
			b.WriteRune(r)
			i += w
			continue
		}
		c := s[i+1]
		i += 2
		switch c {
		case 't':
			b.WriteByte('\t')
		case 'b':
			b.WriteByte('\b')
		case 'n':
			b.WriteByte('\n')
		case 'r':
			b.WriteByte('\r')
		case 'f':
			b.WriteByte('\f')
		case '"', '\'', '\\':
			b.WriteByte(c)
		case 'u', 'U':
			n := 4
			if c == 'U' {
				n = 8
			}
			var v rune
			for k := 0; k < n; k++ {
				v = v<<4 | hexVal(s[i+k])
			}
			i += n
			b.WriteRune(v)
		}
	}
	return b.String()
}

// parts is the documented result of Term.Parts for the term.
func (t nqTerm) parts() (text, qual string) {
	switch t.Kind {
	case 1:
		return refUnescape(t.Body), ""
	case 3:
		return t.Body, ""
	}
	text = refUnescape(t.Body)
	if t.Lang != "" {
		return text, "@" + t.Lang
	}
	return text, refUnescape(t.DT)
}

// iris lists the IRI texts of the term on which the parser calls url.Parse.
func (t nqTerm) iris() []string {
	switch {
	case t.Kind == 1:
		return []string{t.Body}
	case t.Kind == 2 && t.DT != "":
		return []string{t.DT}
	}
	return nil
}

// urlOK is the precondition gonum's parser takes from net/url (trusted): the
// raw IRI text must parse as an absolute URL.
func urlOK(iri string) bool {
	u, err := url.Parse(iri)
	return err == nil && u.IsAbs()
}

// runes worth escaping: printable and non-printable, BMP and astral.
var nqRunes = []rune{'a', 'z', 'A', '0', '9', 'é', 'λ', 'Ж', '日', '😀', 0x00a0, 0x00ad, 0x0085, 0x200b, 0x200c, 0x2028, 0xfeff, 0xe000, 0xfffd, 0xfffe, 0xffff, 0x1d173, 0xe0001, 0xf0000, 0x10ffff, 0x10000, 0xd7ff, 0x0300, 0xb7, 0x203f}

func drawUchar(t *rapid.T, pool []rune) string {
	r := rapid.SampledFrom(pool).Draw(t, "uchar_rune")
	lower := rapid.Bool().Draw(t, "uchar_lower")
	var s string
	if r < 0x10000 && rapid.Bool().Draw(t, "uchar_short") {
		s = fmt.Sprintf(`\u%04X`, r)
	} else {
		s = fmt.Sprintf(`\U%08X`, r)
	}
	if lower {
		s = s[:2] + strings.ToLower(s[2:])
	}
	return s
}

var iriSchemes = []string{"http", "https", "urn", "mailto", "ex", "a", "x-y.z+1", "file"}
var iriASCII = []string{"a", "b", "z", "0", "9", "/", ".", "-", "_", "~", "?", "#", "=", "&", ";", "+", ",", "!", "$", "'", "(", ")", "*", "@", ":", "%41", "%2f", "//", "[", "]"}

// unescaped forms produced by UCHAR inside IRIs: ordinary characters and
// characters that may only appear escaped.
var iriEscRunes = append([]rune{' ', '<', '>', '"', '{', '}', '|', '^', '`', '\\', 0x01, 'a', '/'}, nqRunes...)

func drawIRIBody(t *rapid.T) string {
	var b strings.Builder
	b.WriteString(rapid.SampledFrom(iriSchemes).Draw(t, "scheme"))
	b.WriteByte(':')
	if rapid.Bool().Draw(t, "authority") {
		b.WriteString("//" + rapid.SampledFrom([]string{"a", "example.org", "h-1.x", "é.example", "127.0.0.1", "h:80"}).Draw(t, "host") + "/")
	}
	n := rapid.IntRange(0, 8).Draw(t, "iri_n")
	for i := 0; i < n; i++ {
		switch rapid.IntRange(0, 5).Draw(t, "iri_piece") {
		case 0, 1, 2:
			b.WriteString(rapid.SampledFrom(iriASCII).Draw(t, "iri_ascii"))
		case 3:
			b.WriteRune(rapid.SampledFrom(nqRunes).Draw(t, "iri_rune"))
		default:
			b.WriteString(drawUchar(t, iriEscRunes))
		}
	}
	return b.String()
}

var litPlain = []string{"a", "b", " ", "\t", "'", "<", ">", "@", "^", ".", "#", "_:", "\x00", "\x01", "\x0b", "\x0c", "\x7f", "{", "&", "%"}
var litEchar = []string{`\t`, `\b`, `\n`, `\r`, `\f`, `\"`, `\'`, `\\`}
var litEscRunes = append([]rune{'"', '\\', '\n', '\r', 0, 'x'}, nqRunes...)

func drawLiteralBody(t *rapid.T) string {
	var b strings.Builder
	n := rapid.IntRange(0, 8).Draw(t, "lit_n")
	for i := 0; i < n; i++ {
		switch rapid.IntRange(0, 5).Draw(t, "lit_piece") {
		case 0, 1:
			b.WriteString(rapid.SampledFrom(litPlain).Draw(t, "lit_plain"))
		case 2:
			b.WriteRune(rapid.SampledFrom(nqRunes).Draw(t, "lit_rune"))
		case 3, 4:
			b.WriteString(rapid.SampledFrom(litEchar).Draw(t, "lit_echar"))
		default:
			b.WriteString(drawUchar(t, litEscRunes))
		}
	}
	return b.String()
}

var langTags = []string{"en", "EN", "en-US", "de-CH-1996", "x-a-1", "zh-Hans-CN", "a", "sr-Latn-RS-x-9"}

// label characters by class of the grammar
var labelFirst = []string{"a", "Z", "_", ":", "0", "9", "é", "λ", "日", "‌", "\U00010000", "\U000effff", "、", "ﷰ"}
var labelMid = append([]string{"-", ".", "..", "·", "̀", "‿", "5"}, labelFirst...)
var labelLast = append([]string{"-", "·", "̀", "⁀", "7"}, labelFirst...)

func drawLabel(t *rapid.T) string {
	s := rapid.SampledFrom(labelFirst).Draw(t, "lab_first")
	n := rapid.IntRange(0, 5).Draw(t, "lab_n")
	if n == 0 {
		return s
	}
	for i := 0; i < n-1; i++ {
		s += rapid.SampledFrom(labelMid).Draw(t, "lab_mid")
	}
	return s + rapid.SampledFrom(labelLast).Draw(t, "lab_last")
}

func drawTerm(t *rapid.T, allow ...int) nqTerm {
	switch rapid.SampledFrom(allow).Draw(t, "term_kind") {
	case 1:
		return nqTerm{Kind: 1, Body: drawIRIBody(t)}
	case 3:
		return nqTerm{Kind: 3, Body: drawLabel(t)}
	}
	lit := nqTerm{Kind: 2, Body: drawLiteralBody(t)}
	switch rapid.IntRange(0, 2).Draw(t, "lit_qual") {
	case 1:
		lit.Lang = rapid.SampledFrom(langTags).Draw(t, "lang")
	case 2:
		lit.DT = drawIRIBody(t)
	}
	return lit
}

// ---- statements: parse/print, Parts, constructors -----------------------------------

type nqStmt struct {
	S, P, O nqTerm
	L       *nqTerm
	Sep     []string // whitespace before S, P, O, L, '.', and after '.'
	Comment string   // trailing comment (without '#'), "" for none
}

func (s nqStmt) terms() []nqTerm {
	ts := []nqTerm{s.S, s.P, s.O}
	if s.L != nil {
		ts = append(ts, *s.L)
	}
	return ts
}

func (s nqStmt) statement() *rdf.Statement {
	st := &rdf.Statement{Subject: rdf.Term{Value: s.S.raw()}, Predicate: rdf.Term{Value: s.P.raw()}, Object: rdf.Term{Value: s.O.raw()}}
	if s.L != nil {
		st.Label = rdf.Term{Value: s.L.raw()}
	}
	return st
}

// line renders the statement with its drawn whitespace; a blank node label is
// always followed by white space because '.' may be part of a label.
func (s nqStmt) line() string {
	var b strings.Builder
	ts := s.terms()
	for i, t := range ts {
		sep := s.Sep[i]
		if i > 0 && ts[i-1].Kind == 3 && sep == "" {
			sep = " "
		}
		b.WriteString(sep)
		b.WriteString(t.raw())
	}
	sep := s.Sep[4]
	if ts[len(ts)-1].Kind == 3 && sep == "" {
		sep = " "
	}
	b.WriteString(sep + "." + s.Sep[5])
	if s.Comment != "" {
		b.WriteString("#" + s.Comment)
	}
	return b.String()
}

func (s nqStmt) inDomain() bool {
	for _, t := range s.terms() {
		for _, iri := range t.iris() {
			if !urlOK(iri) {
				return false
			}
		}
	}
	return true
}

func sameStatement(got *rdf.Statement, want *rdf.Statement) string {
	switch {
	case got.Subject.Value != want.Subject.Value:
		return fmt.Sprintf("subject %q want %q", got.Subject.Value, want.Subject.Value)
	case got.Predicate.Value != want.Predicate.Value:
		return fmt.Sprintf("predicate %q want %q", got.Predicate.Value, want.Predicate.Value)
	case got.Object.Value != want.Object.Value:
		return fmt.Sprintf("object %q want %q", got.Object.Value, want.Object.Value)
	case got.Label.Value != want.Label.Value:
		return fmt.Sprintf("label %q want %q", got.Label.Value, want.Label.Value)
	}
	return ""
}

// iriSafe reports whether text can be handed to NewIRITerm as a valid IRI:
// only characters an IRIREF may contain unescaped.
func iriSafe(text string) bool {
	for _, r := range text {
		if r <= 0x20 || strings.ContainsRune("<>\"{}|^`\\", r) || r == 0x7f || r == utf8.RuneError {
			return false
		}
	}
	return urlOK(text)
}

// iriForbidden reports whether text holds a character that an IRIREF cannot
// contain literally (N-Quads grammar: [^#x00-#x20<>"{}|^`\]): a constructor that
// accepts such text has to write the character as a UCHAR escape.
func iriForbidden(text string) bool {
	for _, r := range text {
		if r <= 0x20 || strings.ContainsRune("<>\"{}|^`\\", r) {
			return true
		}
	}
	return false
}

// splitKey marks the one ambiguity of gonum's grammar that is resolved against
// the longest-match rule: an object blank node whose label contains "_:".
func splitKey(c nqStmt) string {
	if c.O.Kind == 3 && strings.Contains(c.O.Body, "_:") && c.L == nil {
		return "-blank-label-split"
	}
	return ""
}

func checkNQStmt(c nqStmt) *vk.Failure {
	vk.Sample("nq-rt", c)
	if !c.inDomain() {
		vk.Class("rt nquads excluded: net/url rejects an IRI")
		return nil
	}
	esc := false
	for _, t := range c.terms() {
		if strings.Contains(t.Body, `\`) || strings.Contains(t.DT, `\`) {
			esc = true
		}
	}
	vk.Class(fmt.Sprintf("rt nquads stmt escapes=%v label=%v", esc, c.L != nil))
	if esc {
		vk.NonTrivial("nq", c.line())
	}
	want := c.statement()
	text := want.String()
	got, err := rdf.ParseNQuad(text)
	if err != nil {
		return vk.Failf("print-parse-rejected", "ParseNQuad(Statement.String()) = %v for %q", err, text)
	}
	if d := sameStatement(got, want); d != "" {
		return vk.Failf("print-parse-differs"+splitKey(c), "ParseNQuad(%q): %s", text, d)
	}
	if got.Subject.UID|got.Predicate.UID|got.Object.UID|got.Label.UID != 0 {
		return vk.Failf("parse-uid-nonzero", "ParseNQuad(%q) returned a non-zero UID", text)
	}
	if got.String() != text {
		return vk.Failf("parse-print-differs", "ParseNQuad(%q).String() = %q", text, got.String())
	}
	// arbitrary legal white space and a trailing comment
	line := c.line()
	got, err = rdf.ParseNQuad(line)
	if err != nil {
		return vk.Failf("line-rejected", "ParseNQuad(%q) = %v; canonical form %q is accepted", line, err, text)
	}
	if d := sameStatement(got, want); d != "" {
		return vk.Failf("line-differs"+splitKey(c), "ParseNQuad(%q): %s", line, d)
	}
	// Parts
	for i, t := range c.terms() {
		term := rdf.Term{Value: t.raw()}
		wt, wq := t.parts()
		var gt, gq string
		var gk rdf.Kind
		var err error
		if r := vk.Call(func() { gt, gq, gk, err = term.Parts() }); r.Outcome != vk.Returned {
			return vk.Failf("parts-panics", "Term{%q}.Parts(): %v %s", term.Value, r.Outcome, r.Text)
		}
		if err != nil || gt != wt || gq != wq || int(gk) != t.Kind {
			return vk.Failf("parts", "term %d %q: Parts() = (%q, %q, %v, %v) want (%q, %q, kind %d, nil)", i, term.Value, gt, gq, gk, err, wt, wq, t.Kind)
		}
		// constructors invert Parts
		// The IRI text of a parsed term may hold characters that were written as
		// UCHAR escapes because an IRI cannot contain them ("must be valid"): the
		// constructor may reject such text, but a term it returns must be one.
		var back rdf.Term
		iri := ""
		switch t.Kind {
		case 1:
			iri = wt
			back, err = rdf.NewIRITerm(wt)
		case 3:
			back, err = rdf.NewBlankTerm(wt)
			if err == nil && back.Value != term.Value {
				return vk.Failf("new-blank-term", "NewBlankTerm(%q).Value = %q want %q", wt, back.Value, term.Value)
			}
		default:
			if wq != "" && !strings.HasPrefix(wq, "@") {
				iri = wq
			}
			back, err = rdf.NewLiteralTerm(wt, wq)
		}
		if iri != "" && !utf8.ValidString(iri) {
			continue
		}
		if err != nil {
			if iri != "" && !iriSafe(iri) {
				continue
			}
			return vk.Failf("new-term-rejected", "New*Term(%q, %q) for the parts of the valid term %q: %v", wt, wq, term.Value, err)
		}
		bt, bq, bk, err := back.Parts()
		if err != nil || bt != wt || bq != wq || bk != gk {
			key := "new-term-parts"
			if iri != "" && iriForbidden(iri) {
				key = "new-term-forbidden-char-not-escaped"
			}
			return vk.Failf(key, "New*Term(%q, %q) = %q whose Parts() = (%q, %q, %v, %v)", wt, wq, back.Value, bt, bq, bk, err)
		}
	}
	return nil
}

var nqSeps = []string{"", " ", "\t", "  ", " \t "}

func drawStmt(t *rapid.T) nqStmt {
	s := nqStmt{S: drawTerm(t, 1, 3), P: drawTerm(t, 1), O: drawTerm(t, 1, 2, 2, 3)}
	if rapid.Bool().Draw(t, "has_label") {
		l := drawTerm(t, 1, 3)
		s.L = &l
	}
	s.Sep = make([]string, 6)
	if rapid.Bool().Draw(t, "odd_space") {
		for i := range s.Sep {
			s.Sep[i] = rapid.SampledFrom(nqSeps).Draw(t, "sep")
		}
	} else {
		s.Sep = []string{"", " ", " ", " ", " ", ""}
	}
	if rapid.IntRange(0, 3).Draw(t, "comment") == 0 {
		s.Comment = rapid.SampledFrom([]string{" c", "", "<a:b> <c:d> \"x\" .", " \\uZZZZ \" é"}).Draw(t, "comment_text")
		if s.Comment == "" {
			s.Comment = " "
		}
	}
	return s
}

func TestNQuadsRoundTrip(t *testing.T) {
	vk.Run(t, "nq-rt", vk.Opts{Quick: 30000, Thorough: 600000, NoCrumb: true}, drawStmt, checkNQStmt)
}

// ---- constructors on semantic values --------------------------------------------------

type nqValueCase struct {
	Kind int // 1 IRI, 2 literal, 3 blank label, 4 literal with language tag under test
	Text string
	Qual string
}

// reference validity of labels and language tags (N-Quads grammar)
func inRanges(r rune, rs [][2]rune) bool {
	for _, p := range rs {
		if r >= p[0] && r <= p[1] {
			return true
		}
	}
	return false
}

var pnCharsBase = [][2]rune{{'A', 'Z'}, {'a', 'z'}, {0xc0, 0xd6}, {0xd8, 0xf6}, {0xf8, 0x2ff}, {0x370, 0x37d}, {0x37f, 0x1fff}, {0x200c, 0x200d}, {0x2070, 0x218f}, {0x2c00, 0x2fef}, {0x3001, 0xd7ff}, {0xf900, 0xfdcf}, {0xfdf0, 0xfffd}, {0x10000, 0xeffff}}

func isPNCharsU(r rune) bool { return inRanges(r, pnCharsBase) || r == '_' || r == ':' }
func isPNChars(r rune) bool {
	return isPNCharsU(r) || r == '-' || (r >= '0' && r <= '9') || r == 0xb7 || inRanges(r, [][2]rune{{0x300, 0x36f}, {0x203f, 0x2040}})
}

func refLabelOK(s string) bool {
	rs := []rune(s)
	if len(rs) == 0 || !(isPNCharsU(rs[0]) || (rs[0] >= '0' && rs[0] <= '9')) {
		return false
	}
	for i, r := range rs[1:] {
		last := i == len(rs)-2
		if !(isPNChars(r) || (r == '.' && !last)) {
			return false
		}
	}
	return true
}

func refLangOK(s string) bool { // s includes '@'
	if len(s) < 2 || s[0] != '@' {
		return false
	}
	for i, part := range strings.Split(s[1:], "-") {
		if part == "" {
			return false
		}
		for _, c := range []byte(part) {
			alpha := (c >= 'a' && c <= 'z') || (c >= 'A' && c <= 'Z')
			if !(alpha || (i > 0 && c >= '0' && c <= '9')) {
				return false
			}
		}
	}
	return true
}

func checkNQValue(c nqValueCase) *vk.Failure {
	vk.Sample("nq-term", c)
	wrap := func(v string) string { return "<a:s> <a:p> " + v + " ." }
	switch c.Kind {
	case 3:
		ok := refLabelOK(c.Text)
		vk.Class(fmt.Sprintf("term blank valid=%v", ok))
		vk.NonTrivial("nq-term", c.Kind, c.Text)
		var term rdf.Term
		var err error
		if r := vk.Call(func() { term, err = rdf.NewBlankTerm(c.Text) }); r.Outcome != vk.Returned {
			return vk.Failf("new-blank-panics", "NewBlankTerm(%q): %v %s", c.Text, r.Outcome, r.Text)
		}
		if (err == nil) != ok {
			return vk.Failf("new-blank-validity", "NewBlankTerm(%q) err=%v but by the BLANK_NODE_LABEL grammar the label is valid=%v", c.Text, err, ok)
		}
		if !ok {
			return nil
		}
		text, qual, kind, err := term.Parts()
		if err != nil || text != c.Text || qual != "" || kind != rdf.Blank {
			return vk.Failf("new-blank-parts", "NewBlankTerm(%q).Parts() = (%q, %q, %v, %v)", c.Text, text, qual, kind, err)
		}
		st, err := rdf.ParseNQuad("_:" + c.Text + " <a:p> _:" + c.Text + " _:" + c.Text + " .")
		if err != nil || st.Subject.Value != term.Value || st.Object.Value != term.Value || st.Label.Value != term.Value {
			return vk.Failf("new-blank-parse", "a statement using the valid label %q: err=%v statement=%v", c.Text, err, st)
		}
		return nil
	case 1:
		var term rdf.Term
		var err error
		if r := vk.Call(func() { term, err = rdf.NewIRITerm(c.Text) }); r.Outcome != vk.Returned {
			return vk.Failf("new-iri-panics", "NewIRITerm(%q): %v %s", c.Text, r.Outcome, r.Text)
		}
		safe := iriSafe(c.Text)
		vk.Class(fmt.Sprintf("term iri valid=%v accepted=%v", safe, err == nil))
		if !utf8.ValidString(c.Text) {
			return nil
		}
		if err != nil {
			if !safe {
				return nil // "the provided IRI ... must be valid": rejected
			}
			return vk.Failf("new-iri-rejected", "NewIRITerm(%q): %v", c.Text, err)
		}
		// accepted, valid or not: the result must be a term (Parts gives the text
		// back, a statement using it parses), with the characters an IRIREF cannot
		// hold written as UCHAR escapes
		vk.NonTrivial("nq-term", c.Kind, c.Text)
		forbidden := iriForbidden(c.Text)
		text, qual, kind, err := term.Parts()
		if err != nil || text != c.Text || qual != "" || kind != rdf.IRI {
			key := "new-iri-parts"
			if forbidden {
				key = "new-iri-forbidden-char-not-escaped"
			}
			return vk.Failf(key, "NewIRITerm(%q) = %q, Parts() = (%q, %q, %v, %v)", c.Text, term.Value, text, qual, kind, err)
		}
		st, err := rdf.ParseNQuad(term.Value + " " + term.Value + " " + term.Value + " " + term.Value + " .")
		if err != nil || st.Subject.Value != term.Value || st.Predicate.Value != term.Value || st.Label.Value != term.Value {
			key := "new-iri-parse"
			if err != nil && strings.Contains(term.Value, `\`) && !urlOK(term.Value[1:len(term.Value)-1]) {
				key = "new-iri-parse-escape-rejected-by-url-parse"
			}
			return vk.Failf(key, "a statement using NewIRITerm(%q) = %q: err=%v", c.Text, term.Value, err)
		}
		return nil
	}
	// literals
	qualOK, dtInvalid := true, false
	switch {
	case c.Qual == "":
	case strings.HasPrefix(c.Qual, "@"):
		qualOK = refLangOK(c.Qual)
	default:
		qualOK = iriSafe(c.Qual)
		dtInvalid = !qualOK
	}
	vk.Class(fmt.Sprintf("term literal qual-valid=%v", qualOK))
	vk.NonTrivial("nq-term", c.Kind, c.Text, c.Qual)
	var term rdf.Term
	var err error
	if r := vk.Call(func() { term, err = rdf.NewLiteralTerm(c.Text, c.Qual) }); r.Outcome != vk.Returned {
		return vk.Failf("new-literal-panics", "NewLiteralTerm(%q, %q): %v %s", c.Text, c.Qual, r.Outcome, r.Text)
	}
	if dtInvalid {
		// a datatype that is not a valid IRI may be rejected; when it is accepted
		// the result must be a term all the same
		if err != nil || !utf8.ValidString(c.Qual) {
			return nil
		}
		vk.Class("term literal with an invalid datatype IRI accepted")
	} else if (err == nil) != qualOK {
		return vk.Failf("new-literal-validity", "NewLiteralTerm(%q, %q) err=%v but the qualifier is valid=%v", c.Text, c.Qual, err, qualOK)
	}
	if !qualOK && !dtInvalid {
		return nil
	}
	text, qual, kind, err := term.Parts()
	if err != nil || text != c.Text || qual != c.Qual || kind != rdf.Literal {
		key := "new-literal-parts"
		if dtInvalid && iriForbidden(c.Qual) {
			key = "new-literal-forbidden-char-not-escaped"
		}
		return vk.Failf(key, "NewLiteralTerm(%q, %q) = %q, Parts() = (%q, %q, %v, %v)", c.Text, c.Qual, term.Value, text, qual, kind, err)
	}
	st, err := rdf.ParseNQuad(wrap(term.Value))
	if err != nil || st.Object.Value != term.Value {
		key := "new-literal-parse"
		if i := strings.LastIndex(term.Value, "^^<"); err != nil && i >= 0 && strings.Contains(term.Value[i:], `\`) && !urlOK(term.Value[i+3:len(term.Value)-1]) {
			key = "new-literal-parse-escape-rejected-by-url-parse"
		}
		return vk.Failf(key, "ParseNQuad(%q): err=%v", wrap(term.Value), err)
	}
	return nil
}

var hostileText = []string{"a", "b", " ", "\t", "\n", "\r", "\"", "\\", "'", "\\u0041", "\\n", "\\", "\"\"", "<", ">", "@en", "^^", "\x00", "\x08", "\x0b", "\x0c", "\x1f", "\x7f", "#", "."}

func drawHostileText(t *rapid.T, label string) string {
	var b strings.Builder
	n := rapid.IntRange(0, 8).Draw(t, label+"_n")
	for i := 0; i < n; i++ {
		if rapid.IntRange(0, 2).Draw(t, label+"_cls") == 0 {
			b.WriteRune(rapid.SampledFrom(nqRunes).Draw(t, label+"_rune"))
		} else {
			b.WriteString(rapid.SampledFrom(hostileText).Draw(t, label+"_str"))
		}
	}
	return b.String()
}

func drawNQValue(t *rapid.T) nqValueCase {
	switch rapid.IntRange(0, 5).Draw(t, "vkind") {
	case 0: // blank labels: valid by construction, or pieces in any order
		if rapid.Bool().Draw(t, "lab_valid") {
			return nqValueCase{Kind: 3, Text: drawLabel(t)}
		}
		return nqValueCase{Kind: 3, Text: strings.Join(rapid.SliceOfN(rapid.SampledFrom(append([]string{"", " ", "!", "×", ";", "⁁", "\U000f0000"}, labelMid...)), 0, 5).Draw(t, "lab_any"), "")}
	case 1: // IRIs: plain characters and ones that must be escaped on output
		var b strings.Builder
		b.WriteString(rapid.SampledFrom(iriSchemes).Draw(t, "scheme") + ":")
		n := rapid.IntRange(0, 8).Draw(t, "iri_n")
		for i := 0; i < n; i++ {
			if rapid.Bool().Draw(t, "iri_cls") {
				b.WriteString(rapid.SampledFrom(iriASCII).Draw(t, "iri_ascii"))
			} else {
				b.WriteRune(rapid.SampledFrom(nqRunes).Draw(t, "iri_rune"))
			}
		}
		if rapid.IntRange(0, 7).Draw(t, "iri_bad") == 0 {
			b.WriteString(rapid.SampledFrom([]string{" ", "<", ">", "\"", "\\", "{", "}", "|", "^", "`", "\x01", "%zz", "\\u0041"}).Draw(t, "iri_badch"))
			if rapid.Bool().Draw(t, "iri_bad_tail") {
				b.WriteString(rapid.SampledFrom(iriASCII).Draw(t, "iri_tail"))
			}
		}
		return nqValueCase{Kind: 1, Text: b.String()}
	case 2: // language tags, valid and invalid
		tag := rapid.SampledFrom(append([]string{"", "-", "en-", "-en", "e n", "1en", "en--US", "en_US", "é", "en-é", "en-US-"}, langTags...)).Draw(t, "tag")
		return nqValueCase{Kind: 4, Text: drawHostileText(t, "txt"), Qual: "@" + tag}
	case 3: // datatype IRI
		return nqValueCase{Kind: 2, Text: drawHostileText(t, "txt"), Qual: drawNQValue1IRI(t)}
	default:
		return nqValueCase{Kind: 2, Text: drawHostileText(t, "txt")}
	}
}

func drawNQValue1IRI(t *rapid.T) string {
	s := rapid.SampledFrom(iriSchemes).Draw(t, "dt_scheme") + ":"
	n := rapid.IntRange(0, 5).Draw(t, "dt_n")
	for i := 0; i < n; i++ {
		if rapid.IntRange(0, 3).Draw(t, "dt_cls") == 0 {
			s += string(rapid.SampledFrom(nqRunes).Draw(t, "dt_rune"))
		} else {
			s += rapid.SampledFrom(iriASCII).Draw(t, "dt_ascii")
		}
	}
	if rapid.IntRange(0, 7).Draw(t, "dt_bad") == 0 {
		s += rapid.SampledFrom([]string{" ", "<", ">", "\"", "\\", "{", "}", "|", "^", "`", "\x01"}).Draw(t, "dt_badch") + rapid.SampledFrom([]string{"", "b", "/c"}).Draw(t, "dt_tail")
	}
	return s
}

func TestNQuadsTerms(t *testing.T) {
	vk.Run(t, "nq-term", vk.Opts{Quick: 30000, Thorough: 600000, NoCrumb: true}, drawNQValue, checkNQValue)
}

// ---- Decoder over a stream ----------------------------------------------------------------

type nqStreamCase struct {
	Stmts []nqStmt
	Noise []int // per statement: 0 nothing, 1 blank line before, 2 comment line before, 3 white-space line before
	CRLF  bool
	Final bool // newline after the last line
	Lead  []string
}

func (c nqStreamCase) text() string {
	var b strings.Builder
	nl := "\n"
	if c.CRLF {
		nl = "\r\n"
	}
	for i, s := range c.Stmts {
		switch c.Noise[i] {
		case 1:
			b.WriteString(nl)
		case 2:
			b.WriteString("# " + s.line() + nl)
		case 3:
			b.WriteString(" \t " + nl)
		}
		b.WriteString(c.Lead[i] + s.line())
		if i < len(c.Stmts)-1 || c.Final {
			b.WriteString(nl)
		}
	}
	return b.String()
}

func checkNQStream(c nqStreamCase) *vk.Failure {
	vk.Sample("nq-stream", c)
	for _, s := range c.Stmts {
		if !s.inDomain() {
			vk.Class("rt nquads stream excluded: net/url rejects an IRI")
			return nil
		}
	}
	vk.Class(fmt.Sprintf("rt nquads stream crlf=%v", c.CRLF))
	text := c.text()
	vk.NonTrivial("nq-stream", text)
	dec := rdf.NewDecoder(strings.NewReader(text))
	uid := map[string]int64{}
	back := map[int64]string{}
	note := func(t rdf.Term) *vk.Failure {
		if t.UID < 1 {
			return vk.Failf("stream-uid-base", "term %q has UID %d; documented: UIDs are based from 1", t.Value, t.UID)
		}
		if id, ok := uid[t.Value]; ok && id != t.UID {
			return vk.Failf("stream-uid-unstable", "term %q has UIDs %d and %d", t.Value, id, t.UID)
		}
		if v, ok := back[t.UID]; ok && v != t.Value {
			return vk.Failf("stream-uid-shared", "UID %d is used for %q and %q", t.UID, v, t.Value)
		}
		uid[t.Value], back[t.UID] = t.UID, t.Value
		return nil
	}
	// The stream is decoded twice with one Decoder: to EOF, then again after Reset on a fresh
	// reader ("retaining the existing Term ID mapping": the second pass must deliver the same
	// statements with the same UIDs, which `note` asserts through the shared maps). Seeded change
	// C16-16: a Reset that reuses state which Unmarshal drops at EOF.
	for pass := 0; pass < 2; pass++ {
		if pass == 1 {
			if r := vk.Call(func() { dec.Reset(strings.NewReader(text)) }); r.Outcome != vk.Returned {
				return vk.Failf("stream-reset-panics", "Decoder.Reset after EOF on %q: %v %s", text, r.Outcome, r.Text)
			}
		}
		for i, s := range c.Stmts {
			var got *rdf.Statement
			var err error
			if r := vk.Call(func() { got, err = dec.Unmarshal() }); r.Outcome != vk.Returned {
				if pass == 1 {
					return vk.Failf("stream-after-reset-panics", "Decoder.Unmarshal after EOF and Reset on %q: %v %s", text, r.Outcome, r.Text)
				}
				return vk.Failf("stream-panics", "Decoder.Unmarshal on %q: %v %s", text, r.Outcome, r.Text)
			}
			if err != nil {
				return vk.Failf("stream-rejected", "statement %d of %q: %v", i, text, err)
			}
			if d := sameStatement(got, s.statement()); d != "" {
				return vk.Failf("stream-differs"+splitKey(s), "statement %d of %q: %s", i, text, d)
			}
			ts := []rdf.Term{got.Subject, got.Predicate, got.Object}
			if s.L != nil {
				ts = append(ts, got.Label)
			}
			for _, t := range ts {
				if f := note(t); f != nil {
					return f
				}
			}
		}
		for k := 0; k < 2; k++ {
			got, err := dec.Unmarshal()
			if got != nil || !errors.Is(err, io.EOF) {
				return vk.Failf("stream-no-eof", "after the last statement Unmarshal returned (%v, %v) for %q", got, err, text)
			}
		}
	}
	terms := dec.Terms()
	if len(terms) != len(uid) {
		return vk.Failf("stream-terms", "Decoder.Terms() has %d entries, %d distinct terms were delivered", len(terms), len(uid))
	}
	for v, id := range uid {
		if terms[v] != id {
			return vk.Failf("stream-terms", "Decoder.Terms()[%q] = %d, delivered UID %d", v, terms[v], id)
		}
	}
	return nil
}

func drawNQStream(t *rapid.T) nqStreamCase {
	n := rapid.IntRange(0, 5).Draw(t, "nstmt")
	c := nqStreamCase{CRLF: rapid.Bool().Draw(t, "crlf"), Final: rapid.Bool().Draw(t, "final")}
	var pool []nqTerm
	for i := 0; i < n; i++ {
		s := drawStmt(t)
		// reuse earlier terms so that UIDs are shared
		if len(pool) > 0 && rapid.Bool().Draw(t, "reuse") {
			p := rapid.SampledFrom(pool).Draw(t, "reuse_term")
			if p.Kind != 2 {
				s.S = p
			}
			s.O = p
		}
		pool = append(pool, s.terms()...)
		c.Stmts = append(c.Stmts, s)
		c.Noise = append(c.Noise, rapid.IntRange(0, 3).Draw(t, "noise"))
		c.Lead = append(c.Lead, rapid.SampledFrom([]string{"", " ", "\t"}).Draw(t, "lead"))
	}
	return c
}

func TestNQuadsStream(t *testing.T) {
	vk.Run(t, "nq-stream", vk.Opts{Quick: 10000, Thorough: 200000, NoCrumb: true}, drawNQStream, checkNQStream)
}

// ---- totality ---------------------------------------------------------------------------------

type nqBytesCase = vk.BytesCase

// a blank node label that contains "_:" (legal) triggers the known
// object/graph-label split of gonum's grammar
var blankSplit = regexp.MustCompile(`_:[^ \t<>"]*_:`)

func checkStatementConsistent(st *rdf.Statement, src string) (f *vk.Failure) {
	if blankSplit.MatchString(src) {
		defer func() {
			if f != nil && !strings.HasPrefix(f.Key, "parts-panics") {
				f.Key += "-blank-label-split"
			}
		}()
	}
	text := st.String()
	again, err := rdf.ParseNQuad(text)
	if err != nil {
		return vk.Failf("reparse-rejected", "ParseNQuad(%q) succeeded and printed as %q, which is rejected: %v", src, text, err)
	}
	if d := sameStatement(again, st); d != "" {
		return vk.Failf("reparse-differs", "ParseNQuad(%q) printed as %q re-parses differently: %s", src, text, d)
	}
	type pos struct {
		name  string
		t     rdf.Term
		kinds []rdf.Kind
	}
	ps := []pos{{"subject", st.Subject, []rdf.Kind{rdf.IRI, rdf.Blank}}, {"predicate", st.Predicate, []rdf.Kind{rdf.IRI}}, {"object", st.Object, []rdf.Kind{rdf.IRI, rdf.Blank, rdf.Literal}}}
	if st.Label.Value != "" {
		ps = append(ps, pos{"label", st.Label, []rdf.Kind{rdf.IRI, rdf.Blank}})
	}
	var deferred *vk.Failure
	for _, p := range ps {
		var kind rdf.Kind
		var err error
		if r := vk.Call(func() { _, _, kind, err = p.t.Parts() }); r.Outcome != vk.Returned {
			// keep looking at the other terms; report at the end
			key := "parts-panics"
			if strings.Contains(r.Text, "value out of range") {
				key = "parts-panics-uchar-range"
			}
			deferred = vk.Failf(key, "ParseNQuad(%q) accepts the statement, but Parts() of its %s %q ends in %v: %s", src, p.name, p.t.Value, r.Outcome, r.Text)
			continue
		}
		if err != nil {
			return vk.Failf("parts-rejects-parsed-term", "ParseNQuad(%q) accepts the statement, but Parts() of its %s %q: %v", src, p.name, p.t.Value, err)
		}
		ok := false
		for _, k := range p.kinds {
			ok = ok || k == kind
		}
		if !ok {
			return vk.Failf("term-kind", "ParseNQuad(%q): %s %q has kind %v", src, p.name, p.t.Value, kind)
		}
	}
	return deferred
}

func checkNQBytes(c nqBytesCase) *vk.Failure {
	vk.Sample("nq-total", c)
	if len(c.Data) > maxBytesCase {
		return nil
	}
	src := string(c.Data)
	var st *rdf.Statement
	var err error
	if r := vk.Call(func() { st, err = rdf.ParseNQuad(src) }); r.Outcome != vk.Returned {
		return vk.Failf("parse-panics", "ParseNQuad(%q): %v %s", src, r.Outcome, r.Text)
	}
	var deferred *vk.Failure
	switch {
	case err == nil && st == nil:
		return vk.Failf("parse-nil-nil", "ParseNQuad(%q) returned (nil, nil)", src)
	case err == nil:
		vk.Class("total nquads line accepted")
		vk.NonTrivial("nq-total", src)
		if f := checkStatementConsistent(st, src); f != nil {
			if !strings.HasPrefix(f.Key, "parts-panics") {
				return f
			}
			deferred = f
		}
	case errors.Is(err, rdf.ErrIncomplete):
		vk.Class("total nquads line rejected incomplete")
	default:
		vk.Class("total nquads line rejected invalid")
		if bytes.IndexByte(c.Data, ' ') > 0 {
			vk.NonTrivial("nq-total", src)
		}
	}
	// the same bytes as a stream
	lines := bytes.Count(c.Data, []byte("\n")) + 1
	dec := rdf.NewDecoder(bytes.NewReader(c.Data))
	for i := 0; ; i++ {
		if i > lines+1 {
			return vk.Failf("stream-unbounded", "Decoder.Unmarshal delivered more than %d results for %d lines of %q", i, lines, src)
		}
		var s *rdf.Statement
		var err error
		if r := vk.Call(func() { s, err = dec.Unmarshal() }); r.Outcome != vk.Returned {
			return vk.Failf("stream-panics", "Decoder.Unmarshal on %q: %v %s", src, r.Outcome, r.Text)
		}
		if err != nil {
			break
		}
		if s == nil {
			return vk.Failf("stream-nil-nil", "Decoder.Unmarshal on %q returned (nil, nil)", src)
		}
		vk.Class("total nquads stream statement accepted")
		if f := checkStatementConsistent(s, src); f != nil {
			if !strings.HasPrefix(f.Key, "parts-panics") {
				return f
			}
			deferred = f
		}
	}
	return deferred
}

var nqSoup = []string{"<", ">", "\"", "\\", "_:", "@", "^^", ".", " ", "\t", "#", "\n", "\r\n", "a", ":", "b", "-", "\\u", "\\U", "0041", "FFFFFFFF", "80000000", "0011FFFF", "D800", "é", "\xff", "\x00", "http://a/", "<a:b>", "\"x\"", "@en", "_:b1", " ."}

func drawNQBytes(t *rapid.T) nqBytesCase {
	valid := func(label string) []byte {
		s := drawStmt(t)
		return []byte(s.line())
	}
	switch rapid.IntRange(0, 7).Draw(t, "kind") {
	case 0:
		return nqBytesCase{Data: valid("v")}
	case 1, 2, 3:
		return nqBytesCase{Data: mutate(t, valid("v"), valid("o"), 1024)}
	case 4: // UCHAR escapes with hostile code points inside otherwise valid statements
		esc := rapid.SampledFrom([]string{`\UFFFFFFFF`, `\U80000000`, `\U7FFFFFFF`, `\U00110000`, `\U0010FFFF`, `\uD800`, `\uDFFF`, `\u0000`, `\U0000000A`, `\u000D`, `"`, `\`, `>`, `\U0000003e`, `\u00`, `\U0010FFF`, `\uGGGG`, `\x41`}).Draw(t, "esc")
		where := rapid.IntRange(0, 3).Draw(t, "where")
		s := []string{"<a:s" + esc + ">", "<a:p>", `"x` + esc + `y"`, "_:g"}
		switch where {
		case 0:
			s[2] = "<a:o>"
		case 1:
			s[0], s[1] = "<a:s>", "<a:p"+esc+">"
		case 2:
			s[0] = "<a:s>"
		default:
			s[0], s[2], s[3] = "_:s", `"x"^^<a:dt`+esc+`>`, "<a:g"+esc+">"
		}
		return nqBytesCase{Data: []byte(strings.Join(s, " ") + " .")}
	case 5, 6:
		return nqBytesCase{Data: []byte(strings.Join(rapid.SliceOfN(rapid.SampledFrom(nqSoup), 0, 14).Draw(t, "soup"), ""))}
	default:
		return nqBytesCase{Data: rapid.SliceOfN(rapid.Byte(), 0, 48).Draw(t, "bytes")}
	}
}

func TestNQuadsTotality(t *testing.T) {
	vk.Run(t, "nq-total", vk.Opts{Quick: 60000, Thorough: 1200000, NoCrumb: true}, drawNQBytes, checkNQBytes)
}
