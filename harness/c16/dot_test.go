package c16

import (
	"bytes"
	"fmt"
	"regexp"
	"sort"
	"strconv"
	"strings"
	"testing"
	"unicode/utf8"

	"gonum.org/v1/gonum/graph"
	"gonum.org/v1/gonum/graph/encoding"
	"gonum.org/v1/gonum/graph/encoding/dot"
	fdot "gonum.org/v1/gonum/graph/formats/dot"
	"gonum.org/v1/gonum/graph/multi"
	"gonum.org/v1/gonum/graph/simple"
	"pgregory.net/rapid"
	"verifharness/vk"
)

// ---- recording graph types (source of Marshal and destination of Unmarshal) -------

type attrList []encoding.Attribute

func (a *attrList) Attributes() []encoding.Attribute { return *a }
func (a *attrList) SetAttribute(at encoding.Attribute) error {
	*a = append(*a, at)
	return nil
}

type recNode struct {
	id    int64
	dotID string
	attrList
}

func (n *recNode) ID() int64         { return n.id }
func (n *recNode) DOTID() string     { return n.dotID }
func (n *recNode) SetDOTID(s string) { n.dotID = s }

type ports struct{ fp, fc, tp, tc string }

func (p *ports) FromPort() (string, string) { return p.fp, p.fc }
func (p *ports) ToPort() (string, string)   { return p.tp, p.tc }
func (p *ports) SetFromPort(port, compass string) error {
	p.fp, p.fc = port, compass
	return nil
}
func (p *ports) SetToPort(port, compass string) error {
	p.tp, p.tc = port, compass
	return nil
}
func (p ports) swapped() ports { return ports{p.tp, p.tc, p.fp, p.fc} }

type recEdge struct {
	f, t graph.Node
	ports
	attrList
}

func (e *recEdge) From() graph.Node { return e.f }
func (e *recEdge) To() graph.Node   { return e.t }
func (e *recEdge) ReversedEdge() graph.Edge {
	return &recEdge{f: e.t, t: e.f, ports: e.ports.swapped(), attrList: e.attrList}
}

type recLine struct {
	f, t graph.Node
	uid  int64
	ports
	attrList
}

func (l *recLine) From() graph.Node { return l.f }
func (l *recLine) To() graph.Node   { return l.t }
func (l *recLine) ID() int64        { return l.uid }
func (l *recLine) ReversedLine() graph.Line {
	return &recLine{f: l.t, t: l.f, uid: l.uid, ports: l.ports.swapped(), attrList: l.attrList}
}

type meta struct {
	id                     string
	gAttrs, nAttrs, eAttrs attrList
}

func (m *meta) DOTID() string     { return m.id }
func (m *meta) SetDOTID(s string) { m.id = s }
func (m *meta) DOTAttributers() (g, n, e encoding.Attributer) {
	return &m.gAttrs, &m.nAttrs, &m.eAttrs
}
func (m *meta) DOTAttributeSetters() (g, n, e encoding.AttributeSetter) {
	return &m.gAttrs, &m.nAttrs, &m.eAttrs
}
func (m *meta) getMeta() *meta { return m }

type recDirected struct {
	*simple.DirectedGraph
	meta
	subs []dot.Graph
}
type recUndirected struct {
	*simple.UndirectedGraph
	meta
	subs []dot.Graph
}
type recMultiDirected struct {
	*multi.DirectedGraph
	meta
	subs []dot.Multigraph
}
type recMultiUndirected struct {
	*multi.UndirectedGraph
	meta
	subs []dot.Multigraph
}

func (g *recDirected) Structure() []dot.Graph             { return g.subs }
func (g *recUndirected) Structure() []dot.Graph           { return g.subs }
func (g *recMultiDirected) Structure() []dot.Multigraph   { return g.subs }
func (g *recMultiUndirected) Structure() []dot.Multigraph { return g.subs }
func (g *recDirected) NewNode() graph.Node                { return &recNode{id: g.DirectedGraph.NewNode().ID()} }
func (g *recUndirected) NewNode() graph.Node              { return &recNode{id: g.UndirectedGraph.NewNode().ID()} }
func (g *recMultiDirected) NewNode() graph.Node           { return &recNode{id: g.DirectedGraph.NewNode().ID()} }
func (g *recMultiUndirected) NewNode() graph.Node {
	return &recNode{id: g.UndirectedGraph.NewNode().ID()}
}
func (g *recDirected) NewEdge(f, t graph.Node) graph.Edge   { return &recEdge{f: f, t: t} }
func (g *recUndirected) NewEdge(f, t graph.Node) graph.Edge { return &recEdge{f: f, t: t} }
func (g *recMultiDirected) NewLine(f, t graph.Node) graph.Line {
	return &recLine{f: f, t: t, uid: g.DirectedGraph.NewLine(f, t).ID()}
}
func (g *recMultiUndirected) NewLine(f, t graph.Node) graph.Line {
	return &recLine{f: f, t: t, uid: g.UndirectedGraph.NewLine(f, t).ID()}
}

// subNode / multiSubNode are nodes that stand for a subgraph used as an edge
// end point (dot.Subgrapher / dot.MultiSubgrapher).
type subNode struct {
	id int64
	g  recGraph
}

func (n subNode) ID() int64             { return n.id }
func (n subNode) Subgraph() graph.Graph { return n.g }

type multiSubNode struct {
	id int64
	g  recGraph
}

func (n multiSubNode) ID() int64                  { return n.id }
func (n multiSubNode) Subgraph() graph.Multigraph { return n.g.(graph.Multigraph) }

// recGraph is what the harness needs from the four types.
type recGraph interface {
	graph.Graph
	getMeta() *meta
}

func newRec(directed, multigraph bool) recGraph {
	switch {
	case multigraph && directed:
		return &recMultiDirected{DirectedGraph: multi.NewDirectedGraph()}
	case multigraph:
		return &recMultiUndirected{UndirectedGraph: multi.NewUndirectedGraph()}
	case directed:
		return &recDirected{DirectedGraph: simple.NewDirectedGraph()}
	default:
		return &recUndirected{UndirectedGraph: simple.NewUndirectedGraph()}
	}
}

func marshalRec(g recGraph, name, prefix, indent string) ([]byte, error) {
	if mg, ok := g.(graph.Multigraph); ok {
		return dot.MarshalMulti(mg, name, prefix, indent)
	}
	return dot.Marshal(g, name, prefix, indent)
}

func unmarshalRec(data []byte, directed, multigraph bool) (recGraph, error) {
	g := newRec(directed, multigraph)
	if mb, ok := g.(encoding.MultiBuilder); ok {
		return g, dot.UnmarshalMulti(data, mb)
	}
	return g, dot.Unmarshal(data, g.(encoding.Builder))
}

// ---- summaries: what a decoded graph holds, in a canonical printable form ----------

func attrsString(as []encoding.Attribute) string {
	var b strings.Builder
	for _, a := range as {
		fmt.Fprintf(&b, "[%q=%q]", a.Key, a.Value)
	}
	return b.String()
}

type dotSummary struct {
	ID      string
	G, N, E string
	Nodes   []string // "dotid attrs", sorted
	Edges   []string // sorted
}

func (s dotSummary) String() string {
	return fmt.Sprintf("graph %q\n graph-attrs %s\n node-attrs %s\n edge-attrs %s\n nodes:\n  %s\n edges:\n  %s", s.ID, s.G, s.N, s.E, strings.Join(s.Nodes, "\n  "), strings.Join(s.Edges, "\n  "))
}

func edgeString(directed bool, fid, tid string, p ports, attrs []encoding.Attribute) string {
	a := fmt.Sprintf("%q:%q:%q", fid, p.fp, p.fc)
	b := fmt.Sprintf("%q:%q:%q", tid, p.tp, p.tc)
	if !directed && b < a {
		a, b = b, a
	}
	op := " -- "
	if directed {
		op = " -> "
	}
	return a + op + b + " " + attrsString(attrs)
}

func nodeDOTID(n graph.Node) string {
	if d, ok := n.(dot.Node); ok {
		return d.DOTID()
	}
	return strconv.FormatInt(n.ID(), 10)
}

func summarize(g recGraph, directed bool) dotSummary {
	m := g.getMeta()
	s := dotSummary{ID: m.id, G: attrsString(m.gAttrs), N: attrsString(m.nAttrs), E: attrsString(m.eAttrs)}
	nodes := graph.NodesOf(g.Nodes())
	sort.Slice(nodes, func(i, j int) bool { return nodes[i].ID() < nodes[j].ID() })
	for _, n := range nodes {
		var as []encoding.Attribute
		if a, ok := n.(encoding.Attributer); ok {
			as = a.Attributes()
		}
		s.Nodes = append(s.Nodes, fmt.Sprintf("%q %s", nodeDOTID(n), attrsString(as)))
	}
	sort.Strings(s.Nodes)
	for _, u := range nodes {
		for _, v := range nodes {
			if !directed && v.ID() < u.ID() {
				continue
			}
			if mg, ok := g.(graph.Multigraph); ok {
				for _, l := range graph.LinesOf(mg.Lines(u.ID(), v.ID())) {
					rl, ok := l.(*recLine)
					if !ok {
						continue
					}
					s.Edges = append(s.Edges, edgeString(directed, nodeDOTID(rl.f), nodeDOTID(rl.t), rl.ports, rl.attrList))
				}
				continue
			}
			if u.ID() == v.ID() {
				continue
			}
			if e, ok := g.Edge(u.ID(), v.ID()).(*recEdge); ok && e != nil {
				s.Edges = append(s.Edges, edgeString(directed, nodeDOTID(e.f), nodeDOTID(e.t), e.ports, e.attrList))
			}
		}
	}
	sort.Strings(s.Edges)
	return s
}

// ---- the documented quoting rules as a model ------------------------------------------

var (
	mIdent   = regexp.MustCompile(`^[a-zA-Z\x{80}-\x{ff}_][0-9a-zA-Z\x{80}-\x{ff}_]*$`)
	mNumeral = regexp.MustCompile(`^-?(\.[0-9]+|[0-9]+(\.[0-9]*)?)$`)
)

// lexRunesOK: the characters of s can appear inside a quoted or HTML string
// token of formats/dot's grammar (dot.bnf): valid UTF-8 without NUL and without
// U+FFFD.
func lexRunesOK(s string) bool {
	return utf8.ValidString(s) && !strings.ContainsRune(s, 0) && !strings.ContainsRune(s, utf8.RuneError)
}

func htmlShaped(s string) bool { return len(s) >= 2 && s[0] == '<' && s[len(s)-1] == '>' }

func quotedShaped(s string) bool {
	if len(s) >= 2 && s[0] == '"' && s[len(s)-1] == '"' {
		_, err := strconv.Unquote(s)
		return err == nil
	}
	return false
}

// htmlBalanced: the angle brackets inside the outer pair are balanced with at
// most one level of nested tags (dot.bnf: _html_lit : '<' { _html_chars |
// _html_tag } '>' ; _html_tag : '<' _html_chars '>').
func htmlBalanced(s string) bool {
	depth := 0
	for _, r := range s[1 : len(s)-1] {
		switch r {
		case '<':
			if depth == 1 {
				return false
			}
			depth = 1
		case '>':
			if depth == 0 {
				return false
			}
			depth = 0
		}
	}
	return depth == 0
}

// htmlOK / quotedOK: s is an HTML string / a double-quoted string of the DOT
// language as defined by formats/dot, i.e. an ID that Marshal may emit verbatim
// ("If s is already quoted ... the original string is returned").
func htmlOK(s string) bool   { return htmlShaped(s) && lexRunesOK(s) && htmlBalanced(s) }
func quotedOK(s string) bool { return quotedShaped(s) && lexRunesOK(s) }

// Strings that only look like an ID are not IDs, so "Attributes and IDs are
// quoted if needed during marshalling" applies to them and they must come back
// unchanged. Two kinds, each a recorded finding of its own on the unchanged tree
// (isID/isHTMLID accept them, Marshal emits them verbatim, Unmarshal rejects the
// output):
//   - htmlMalformed: <...> shape with unbalanced or too deeply nested brackets;
//   - verbatimBadRune: "..." or <...> shape holding a raw NUL, U+FFFD or an
//     invalid UTF-8 byte.
func htmlMalformed(s string) bool { return htmlShaped(s) && lexRunesOK(s) && !htmlBalanced(s) }
func verbatimBadRune(s string) bool {
	return (htmlShaped(s) || quotedShaped(s)) && !lexRunesOK(s)
}

// ambiguousQuotedHTML: a well-formed quoted string whose content has the <...>
// shape without being an HTML string, e.g. the five characters "<<>". unquoteID
// documents that quoted HTML-like strings are not unquoted (so that "<b>" does
// not turn into the HTML string <b> in the next generation); for content that is
// no HTML string either decoding, with or without the quotes, is the same DOT ID.
// Such strings are not generated and cases holding one are not judged.
func ambiguousQuotedHTML(s string) bool {
	if !quotedOK(s) {
		return false
	}
	u, _ := strconv.Unquote(s)
	return htmlShaped(u) && !htmlOK(u)
}

// dotExpect is the string Unmarshal delivers for an ID, key or value s given to
// Marshal, by the documentation of Marshal ("quoted if needed"), quoteID ("If
// s is already quoted ... the original string is returned") and unquoteID
// (quoted HTML-like strings are not unquoted).
func dotExpect(s string) string {
	if quotedOK(s) {
		// already a quoted DOT ID: emitted as is, unquoted on input
		if len(s) >= 4 && strings.HasPrefix(s, `"<`) && strings.HasSuffix(s, `>"`) {
			return s
		}
		u, _ := strconv.Unquote(s)
		return u
	}
	return s
}

// alreadyID reports whether s belongs to the "emitted verbatim" class.
func alreadyID(s string) bool { return quotedOK(s) || htmlOK(s) }

// needsQuoting: s is neither an identifier nor a numeral (or is a keyword).
func needsQuoting(s string) bool {
	for _, k := range []string{"node", "edge", "graph", "digraph", "subgraph", "strict"} {
		if strings.EqualFold(s, k) {
			return true
		}
	}
	return !mIdent.MatchString(s) && !mNumeral.MatchString(s)
}

// ---- cases ----------------------------------------------------------------------------------

type dotAttr struct{ K, V []byte }

type dotNode struct {
	ID    int64
	Plain bool // no DOTID method: rendered by its number
	DOTID []byte
	Attrs []dotAttr
}

type dotEdge struct {
	F, T         int // indices into dotCase.Nodes
	Attrs        []dotAttr
	FPort, TPort []byte
	FComp, TComp string
}

type dotSub struct {
	Name                   []byte
	Nodes                  []int
	Edges                  []dotEdge
	GAttrs, NAttrs, EAttrs []dotAttr
	Subs                   []dotSub
}

// dotSubNode is a node of the top-level graph that stands for the node-only
// subgraph over Members (indices into Nodes; members belong to no other graph
// and have no edges of their own). Edges of the top-level graph refer to
// sub-node k by the end point -(k+1).
type dotSubNode struct {
	ID      int64
	Name    []byte
	Members []int
}

type dotCase struct {
	SubNodes        []dotSubNode
	Directed, Multi bool
	NameParam       []byte // name argument of Marshal ("" = use the graph's DOTID)
	Prefix, Indent  string
	Nodes           []dotNode
	Top             dotSub
}

func toAttrs(as []dotAttr) attrList {
	var out attrList
	for _, a := range as {
		out = append(out, encoding.Attribute{Key: string(a.K), Value: string(a.V)})
	}
	return out
}

func expAttrs(as []dotAttr) []encoding.Attribute {
	var out []encoding.Attribute
	for _, a := range as {
		out = append(out, encoding.Attribute{Key: dotExpect(string(a.K)), Value: dotExpect(string(a.V))})
	}
	return out
}

func (c dotCase) nodeExpectID(i int) string {
	n := c.Nodes[i]
	if n.Plain {
		return strconv.FormatInt(n.ID, 10)
	}
	return dotExpect(string(n.DOTID))
}

// build constructs the source graph of sub and accumulates, in the order in
// which Marshal prints, what Unmarshal is expected to deliver.
type adder interface{ AddNode(graph.Node) }

type dotBuilder struct {
	depth     int
	maxPrints int // largest number of times one sub-node's subgraph is printed
	c         dotCase
	objs      []graph.Node // one object per case node, shared by all (sub)graphs
	exp       dotSummary
	altEdges  []string // exp.Edges with every compass-named port read as a compass
	expNode   map[int][]encoding.Attribute
	gA        []encoding.Attribute
	nA        []encoding.Attribute
	eA        []encoding.Attribute
}

func (b *dotBuilder) build(sub dotSub) recGraph {
	c := b.c
	g := newRec(c.Directed, c.Multi)
	m := g.getMeta()
	m.id = string(sub.Name)
	m.gAttrs, m.nAttrs, m.eAttrs = toAttrs(sub.GAttrs), toAttrs(sub.NAttrs), toAttrs(sub.EAttrs)
	b.gA = append(b.gA, expAttrs(sub.GAttrs)...)
	b.nA = append(b.nA, expAttrs(sub.NAttrs)...)
	b.eA = append(b.eA, expAttrs(sub.EAttrs)...)
	for _, s := range sub.Subs {
		b.depth++
		child := b.build(s)
		b.depth--
		switch gg := g.(type) {
		case *recDirected:
			gg.subs = append(gg.subs, child.(dot.Graph))
		case *recUndirected:
			gg.subs = append(gg.subs, child.(dot.Graph))
		case *recMultiDirected:
			gg.subs = append(gg.subs, child.(dot.Multigraph))
		case *recMultiUndirected:
			gg.subs = append(gg.subs, child.(dot.Multigraph))
		}
	}
	// nodes, in index order reversed to make sure the encoder sorts
	for k := len(sub.Nodes) - 1; k >= 0; k-- {
		g.(adder).AddNode(b.objs[sub.Nodes[k]])
	}
	byID := append([]int(nil), sub.Nodes...)
	sort.Slice(byID, func(i, j int) bool { return c.Nodes[byID[i]].ID < c.Nodes[byID[j]].ID })
	for _, i := range byID {
		if !c.Nodes[i].Plain {
			b.expNode[i] = append(b.expNode[i], expAttrs(c.Nodes[i].Attrs)...)
		} else if _, ok := b.expNode[i]; !ok {
			b.expNode[i] = nil
		}
	}
	// sub-nodes (top level only): how often each one is printed decides how
	// often the statements of its members are seen by the decoder
	var subObjs []graph.Node
	if b.depth == 0 {
		for k, sn := range c.SubNodes {
			sg := newRec(c.Directed, c.Multi)
			sg.getMeta().id = string(sn.Name)
			for _, mIdx := range sn.Members {
				sg.(adder).AddNode(b.objs[mIdx])
			}
			var obj graph.Node = subNode{id: sn.ID, g: sg}
			if c.Multi {
				obj = multiSubNode{id: sn.ID, g: sg}
			}
			subObjs = append(subObjs, obj)
			g.(adder).AddNode(obj)
			prints, outgoing := 0, 0
			for _, e := range sub.Edges {
				for _, end := range []int{e.F, e.T} {
					if end == -(k + 1) {
						prints++
					}
				}
				if e.F == -(k+1) || (!c.Directed && e.T == -(k+1)) {
					outgoing++
				}
			}
			if outgoing == 0 {
				prints++ // printed among the node definitions
			}
			b.maxPrints = max(b.maxPrints, prints)
			for _, mIdx := range sn.Members {
				for r := 0; r < prints; r++ {
					if !c.Nodes[mIdx].Plain {
						b.expNode[mIdx] = append(b.expNode[mIdx], expAttrs(c.Nodes[mIdx].Attrs)...)
					} else if _, ok := b.expNode[mIdx]; !ok {
						b.expNode[mIdx] = nil
					}
				}
			}
		}
	}
	ends := func(i int) (graph.Node, []int) {
		if i < 0 {
			return subObjs[-i-1], c.SubNodes[-i-1].Members
		}
		return b.objs[i], []int{i}
	}
	for _, e := range sub.Edges {
		p := ports{string(e.FPort), e.FComp, string(e.TPort), e.TComp}
		f, fs := ends(e.F)
		t, ts := ends(e.T)
		switch gg := g.(type) {
		case *recDirected:
			gg.SetEdge(&recEdge{f: f, t: t, ports: p, attrList: toAttrs(e.Attrs)})
		case *recUndirected:
			gg.SetEdge(&recEdge{f: f, t: t, ports: p, attrList: toAttrs(e.Attrs)})
		case *recMultiDirected:
			gg.SetLine(&recLine{f: f, t: t, uid: gg.DirectedGraph.NewLine(f, t).ID(), ports: p, attrList: toAttrs(e.Attrs)})
		case *recMultiUndirected:
			gg.SetLine(&recLine{f: f, t: t, uid: gg.UndirectedGraph.NewLine(f, t).ID(), ports: p, attrList: toAttrs(e.Attrs)})
		}
		ep := ports{dotExpect(p.fp), p.fc, dotExpect(p.tp), p.tc}
		alt := ep
		if p.fc == "" && isCompass(p.fp) {
			alt.fp, alt.fc = "", p.fp
		}
		if p.tc == "" && isCompass(p.tp) {
			alt.tp, alt.tc = "", p.tp
		}
		for _, fi := range fs {
			for _, ti := range ts {
				b.exp.Edges = append(b.exp.Edges, edgeString(c.Directed, c.nodeExpectID(fi), c.nodeExpectID(ti), ep, expAttrs(e.Attrs)))
				b.altEdges = append(b.altEdges, edgeString(c.Directed, c.nodeExpectID(fi), c.nodeExpectID(ti), alt, expAttrs(e.Attrs)))
			}
		}
	}
	return g
}

// expCompassConfused is the expected summary with every port that is named
// like a compass point and has no compass read as that compass point.
func (b *dotBuilder) expCompassConfused() dotSummary {
	alt := b.exp
	alt.Edges = append([]string(nil), b.altEdges...)
	sort.Strings(alt.Edges)
	return alt
}

type portRef struct{ port, comp string }

// edgePorts lists the (port, compass) pairs of all edge ends of the case.
func (c dotCase) edgePorts() []portRef {
	var out []portRef
	var walk func(s dotSub)
	walk = func(s dotSub) {
		for _, e := range s.Edges {
			out = append(out, portRef{string(e.FPort), e.FComp}, portRef{string(e.TPort), e.TComp})
		}
		for _, ss := range s.Subs {
			walk(ss)
		}
	}
	walk(c.Top)
	return out
}

func (c dotCase) hasSubs() bool { return len(c.Top.Subs) > 0 || len(c.SubNodes) > 0 }

// strings lists every string of the case that passes through quoteID.
func (c dotCase) strings() []string {
	var out []string
	out = append(out, string(c.NameParam))
	for _, n := range c.Nodes {
		if !n.Plain {
			out = append(out, string(n.DOTID))
			for _, a := range n.Attrs {
				out = append(out, string(a.K), string(a.V))
			}
		}
	}
	for _, sn := range c.SubNodes {
		out = append(out, string(sn.Name))
	}
	var walk func(s dotSub)
	top := true
	walk = func(s dotSub) {
		if !top || len(c.NameParam) == 0 {
			out = append(out, string(s.Name)) // the name argument of Marshal overrides the top-level DOTID
		}
		top = false
		for _, as := range [][]dotAttr{s.GAttrs, s.NAttrs, s.EAttrs} {
			for _, a := range as {
				out = append(out, string(a.K), string(a.V))
			}
		}
		for _, e := range s.Edges {
			out = append(out, string(e.FPort), string(e.TPort))
			for _, a := range e.Attrs {
				out = append(out, string(a.K), string(a.V))
			}
		}
		for _, ss := range s.Subs {
			walk(ss)
		}
	}
	walk(c.Top)
	return out
}

func checkDOT(c dotCase) *vk.Failure {
	vk.Sample("dot-rt", c)
	b := &dotBuilder{c: c, expNode: map[int][]encoding.Attribute{}}
	for _, n := range c.Nodes {
		if n.Plain {
			b.objs = append(b.objs, simple.Node(n.ID))
		} else {
			b.objs = append(b.objs, &recNode{id: n.ID, dotID: string(n.DOTID), attrList: toAttrs(n.Attrs)})
		}
	}
	src := b.build(c.Top)
	// expected summary
	name := string(c.NameParam)
	if name == "" {
		name = string(c.Top.Name)
	}
	b.exp.ID = dotExpect(name)
	b.exp.G, b.exp.N, b.exp.E = attrsString(b.gA), attrsString(b.nA), attrsString(b.eA)
	for i, as := range b.expNode {
		b.exp.Nodes = append(b.exp.Nodes, fmt.Sprintf("%q %s", c.nodeExpectID(i), attrsString(as)))
	}
	sort.Strings(b.exp.Nodes)
	sort.Strings(b.exp.Edges)

	quoting, verbatim, ufffd, malformed, badRune := false, false, false, false, false
	for _, s := range c.strings() {
		if alreadyID(s) {
			verbatim = true
		} else if needsQuoting(s) && s != "" {
			quoting = true
		}
		if strings.Contains(s, "\uFFFD") { // the encoded rune U+FFFD, not an invalid byte
			ufffd = true
		}
		malformed = malformed || htmlMalformed(s)
		badRune = badRune || verbatimBadRune(s)
	}
	for _, s := range c.strings() {
		if ambiguousQuotedHTML(s) {
			vk.Class("rt dot not judged: a quoted string holds <...> content that is no HTML string (decoding with or without the quotes is acceptable)")
			return nil
		}
	}
	portLikeCompass := false
	for _, p := range c.edgePorts() {
		if p.comp == "" && isCompass(p.port) {
			portLikeCompass = true
		}
	}
	kind := map[bool]string{false: "simple", true: "multi"}[c.Multi] + map[bool]string{false: " undirected", true: " directed"}[c.Directed]
	vk.Class(fmt.Sprintf("rt dot %s quoting=%v verbatim-ids=%v subgraphs=%v subgraph-vertices=%v", kind, quoting, verbatim, len(c.Top.Subs) > 0, len(c.SubNodes) > 0))
	if malformed || badRune {
		vk.Class(fmt.Sprintf("rt dot has a string of ID shape that is not an ID: html-malformed=%v raw-nul-fffd-or-invalid-utf8=%v", malformed, badRune))
	}
	if portLikeCompass {
		vk.Class("rt dot has a port named like a compass point without a compass")
	}
	if quoting || verbatim || c.hasSubs() {
		vk.NonTrivial("dot", fmt.Sprintf("%+v", c))
	}

	var b1 []byte
	var err error
	if r := vk.Call(func() { b1, err = marshalRec(src, string(c.NameParam), c.Prefix, c.Indent) }); r.Outcome != vk.Returned {
		return vk.Failf("marshal-panics", "Marshal: %v %s", r.Outcome, r.Text)
	}
	if err != nil {
		return vk.Failf("marshal-error", "Marshal: %v", err)
	}
	var g2 recGraph
	if r := vk.Call(func() { g2, err = unmarshalRec(b1, c.Directed, c.Multi) }); r.Outcome != vk.Returned {
		return vk.Failf("unmarshal-panics", "Unmarshal(Marshal(g)): %v %s\n%s", r.Outcome, r.Text, b1)
	}
	// Keying only: did Marshal write a string that merely looks like an ID
	// without quoting it? (The oracle is the round trip itself.)
	unquoted := func(pred func(string) bool) bool {
		for _, s := range c.strings() {
			if pred(s) && bytes.Contains(b1, []byte(s)) && !bytes.Contains(b1, []byte(strings.ReplaceAll(strconv.Quote(s), "\uFFFD", `\ufffd`))) {
				return true
			}
		}
		return false
	}
	malformed = malformed && unquoted(htmlMalformed)
	badRune = badRune && unquoted(verbatimBadRune)
	if err != nil {
		key := "unmarshal-rejects-marshal-output"
		switch {
		case malformed:
			// Recorded finding: a string of <...> shape that is not an HTML string
			// (unbalanced or too deeply nested brackets) is emitted verbatim.
			key += "-html-malformed"
		case badRune:
			// Recorded finding: a string of "..." or <...> shape holding a raw NUL,
			// U+FFFD or invalid UTF-8 is emitted verbatim.
			key += "-verbatim-bad-rune"
		case strings.Contains(err.Error(), "unknown/invalid token \"<") && strings.Contains(err.Error(), "<>\""):
			// Recorded finding, identified by the token the lexer chokes on: an HTML
			// string with an empty nested tag (<<>>, <a<>b>), which formats/dot's
			// grammar (dot.bnf: _html_tag : '<' { _html_char } '>') allows but the
			// generated lexer rejects.
			key += "-html-empty-tag"
		case ufffd:
			key += "-ufffd"
		}
		return vk.Failf(key, "Unmarshal(Marshal(g)): %v\n%s", err, b1)
	}
	got := summarize(g2, c.Directed)
	if got.String() != b.exp.String() {
		key := "roundtrip-differs"
		if portLikeCompass && got.String() == b.expCompassConfused().String() {
			// Recorded finding: exactly the ports named like a compass point and
			// written without a compass came back as compass values
			key = "roundtrip-differs-port-named-like-compass"
		} else if malformed {
			// Recorded finding (same defect as unmarshal-rejects-marshal-output-html-malformed):
			// the unquoted string swallows the text up to a later '>' and the
			// output parses as a different graph
			key = "roundtrip-differs-html-malformed"
		} else if b.maxPrints >= 2 {
			// a subgraph used as an edge end point is printed once per use; the
			// decoder is known to see its nodes only the first time
			key = "roundtrip-differs-subgraph-vertex-reused"
		}
		return vk.Failf(key, "Unmarshal(Marshal(g)) holds\n%s\nexpected\n%s\nDOT:\n%s", got, b.exp, b1)
	}
	if verbatim {
		// decoded strings differ from the originals (unquoted form), and the
		// unquoted form may itself have the shape of an ID: the documented
		// limit of the verbatim rule, nothing is promised for the next generation
		return nil
	}
	// second generation: a fixed point (every decoded string is the original string)
	b2, err := marshalRec(g2, "", c.Prefix, c.Indent)
	if err != nil {
		return vk.Failf("remarshal-error", "Marshal of the decoded graph: %v", err)
	}
	g3, err := unmarshalRec(b2, c.Directed, c.Multi)
	if err != nil {
		return vk.Failf("second-unmarshal-rejected", "Unmarshal(Marshal(Unmarshal(Marshal(g)))): %v\n%s", err, b2)
	}
	b3, err := marshalRec(g3, "", c.Prefix, c.Indent)
	if err != nil {
		return vk.Failf("remarshal-error", "third Marshal: %v", err)
	}
	{
		if s3 := summarize(g3, c.Directed); s3.String() != got.String() {
			return vk.Failf("second-generation-differs", "second decode holds\n%s\nfirst decode\n%s", s3, got)
		}
		if !bytes.Equal(b2, b3) {
			return vk.Failf("not-a-fixed-point", "Marshal∘Unmarshal is not a fixed point from the second generation on; first difference at byte %d\n--- second\n%s\n--- third\n%s", firstDiff(b2, b3), b2, b3)
		}
		if !c.hasSubs() && !bytes.Equal(b1, b2) {
			return vk.Failf("flat-not-a-fixed-point", "graph without subgraphs: Marshal(Unmarshal(Marshal(g))) differs from Marshal(g) at byte %d\n--- first\n%s\n--- second\n%s", firstDiff(b1, b2), b1, b2)
		}
	}
	return nil
}

// ---- generators -----------------------------------------------------------------------------------

var dotKeywords = []string{"node", "Node", "NODE", "nOdE", "edge", "Edge", "EDGE", "graph", "Graph", "GRAPH", "gRAPH", "digraph", "Digraph", "DiGraph", "diGraph", "DIGRAPH", "subgraph", "Subgraph", "SubGraph", "subGraph", "SUBGRAPH", "strict", "Strict", "STRICT", "sTRICT"}
var dotNumerals = []string{"0", "1", "-1", ".5", "-.5", "1.", "1.5", "-1.5", "007", "-0", "12345678901234567890"}
var dotNearNumerals = []string{"1a", "-", ".", "-.", "1.2.3", "--1", "1e5", "+1", "- 1", "1 ", " 1", "0x1f", "1-", "-a", "a-b", "a.b", "1_"}
var dotPieces = []string{" ", "\"", "\\", "\n", "\t", "\r", "<", ">", "-", ".", ":", ";", ",", "=", "[", "]", "{", "}", "/", "*", "#", "+", "&", "'", "%", "a", "b", "N", "0", "1", "_", "\x00", "\x7f", "\x80", "\xff", "\xc3", "\xa9", "é", "λ", "日", "😀", "\u00a0", "\u0085", "\u2028", "\ufeff", "\ufffd", "--", "->", "//", "/*", "*/", "\\\"", "\\n", "\\l", "\\\n", "node", "\\\\"}
var dotCommentLike = []string{"//x", "/*x*/", "#x", "a--b", "a->b", "a -- b", "a;b", "a,b", "a=b", "[a]", "{a}", "a:b", "a:n"}
var dotHTML = []string{"<b>", "<>", "<a b>", "<<b>x</b>>", "<a<b>c<d>>", "<é>", "<\">", "<a\nb>", "< >", "<-->", "<&amp;>"}

// strings with the shape of a quoted or HTML ID that are not IDs of the DOT
// language (unbalanced or too deeply nested angle brackets; raw NUL, U+FFFD or
// invalid UTF-8 inside the delimiters)
var dotNotQuiteIDs = []string{"<<>", "<a>b>", "<>>", "< <b>", "<<<a>>>", "<<a<b>>>", "<a<b>", "<>a>", "<a\x00b>", "<\ufffd>", "<\xff>", "\"a\x00b\"", "\"\ufffd\"", "\"a\xffb\"", "<<\x00>"}
var dotCompass = []string{"", "", "n", "ne", "e", "se", "s", "sw", "w", "nw", "c", "_"}

func drawRawHostile(t *rapid.T, label string) string {
	switch rapid.IntRange(0, 9).Draw(t, label+"_cls") {
	case 0, 1:
		return rapid.StringMatching(`[a-zA-Z_][a-zA-Z0-9_]{0,5}`).Draw(t, label+"_ident")
	case 2:
		return rapid.SampledFrom(dotNumerals).Draw(t, label+"_num")
	case 3:
		return rapid.SampledFrom(dotNearNumerals).Draw(t, label+"_nearnum")
	case 4:
		k := rapid.SampledFrom(dotKeywords).Draw(t, label+"_kw")
		if rapid.IntRange(0, 4).Draw(t, label+"_kwsuffix") == 0 {
			k += rapid.SampledFrom([]string{"1", "s", "_", " "}).Draw(t, label+"_kwsuf")
		}
		return k
	case 5:
		return rapid.SampledFrom(dotCommentLike).Draw(t, label+"_cmt")
	default:
		return strings.Join(rapid.SliceOfN(rapid.SampledFrom(dotPieces), 1, 6).Draw(t, label+"_mix"), "")
	}
}

// drawDOTString draws a string for an ID, key, value, port or name.
func drawDOTString(t *rapid.T, label string, allowEmpty bool) []byte {
	b := drawDOTString1(t, label, allowEmpty)
	if ambiguousQuotedHTML(string(b)) {
		return append(b, 'x') // no longer a quoted string
	}
	return b
}

// dotVerbatim gates the "already an ID" classes for the case being drawn (set
// by a draw at the start of drawDOT, so it is a function of the draw sequence).
var dotVerbatim = true

func drawDOTString1(t *rapid.T, label string, allowEmpty bool) []byte {
	lo := 0
	if !dotVerbatim {
		lo = 3
	}
	switch max(lo, rapid.IntRange(0, 12).Draw(t, label+"_kind")) {
	case 12: // the shape of an ID without being one: must be quoted like any other string
		if !dotVerbatim {
			return []byte(drawRawHostile(t, label))
		}
		if rapid.IntRange(0, 2).Draw(t, label+"_notid_word") == 0 {
			return []byte(rapid.SampledFrom(dotNotQuiteIDs).Draw(t, label+"_notid"))
		}
		if rapid.Bool().Draw(t, label+"_notid_html") {
			return []byte("<" + strings.Join(rapid.SliceOfN(rapid.SampledFrom([]string{"<", ">", "<", ">", "a", " ", "b>", "<i", "\x00", "\ufffd", "\xff", "\""}), 0, 5).Draw(t, label+"_notid_h"), "") + ">")
		}
		return []byte(`"` + strings.Join(rapid.SliceOfN(rapid.SampledFrom([]string{"a", " ", "\x00", "\ufffd", "\xff", "<", ">", "é"}), 1, 4).Draw(t, label+"_notid_q"), "") + `"`)
	case 0, 3:
		if allowEmpty {
			return nil
		}
		return []byte("e")
	case 1: // already a quoted ID
		inner := drawRawHostile(t, label+"_q")
		if !utf8.ValidString(inner) || strings.ContainsRune(inner, 0) || strings.ContainsRune(inner, utf8.RuneError) {
			inner = "q x"
		}
		if rapid.Bool().Draw(t, label+"_qstyle") {
			return []byte(strconv.Quote(inner))
		}
		// DOT style: only the quote is escaped
		if strings.ContainsAny(inner, "\\\n\r") {
			inner = "d\"q"
		}
		return []byte(`"` + strings.ReplaceAll(inner, `"`, `\"`) + `"`)
	case 2: // HTML string
		s := rapid.SampledFrom(dotHTML).Draw(t, label+"_html")
		if rapid.IntRange(0, 3).Draw(t, label+"_htmlq") == 0 {
			return []byte(`"` + strings.NewReplacer(`"`, `\"`, "\n", `\n`).Replace(s) + `"`) // "<...>": kept quoted by unquoteID
		}
		return []byte(s)
	default:
		return []byte(drawRawHostile(t, label))
	}
}

func drawDOTAttrs(t *rapid.T, label string, max int) []dotAttr {
	n := rapid.IntRange(0, max).Draw(t, label+"_n")
	if rapid.Bool().Draw(t, label+"_none") {
		n = 0
	}
	var out []dotAttr
	for i := 0; i < n; i++ {
		out = append(out, dotAttr{K: drawDOTString(t, label+"_k", true), V: drawDOTString(t, label+"_v", true)})
	}
	return out
}

func isCompass(s string) bool {
	switch s {
	case "n", "ne", "e", "se", "s", "sw", "w", "nw", "c", "_":
		return true
	}
	return false
}

func drawPort(t *rapid.T, label string) ([]byte, string) {
	if rapid.IntRange(0, 2).Draw(t, label+"_has") != 0 {
		return nil, ""
	}
	var port []byte
	if rapid.Bool().Draw(t, label+"_named") {
		port = drawDOTString(t, label, false)
	}
	if port != nil && rapid.IntRange(0, 5).Draw(t, label+"_likecompass") == 0 {
		// a port *named* like a compass point: ":n" alone is a compass point in
		// DOT source, so the encoder has to write the name as a quoted ID, which
		// the decoder keeps apart from the compass points
		port = []byte(rapid.SampledFrom(dotCompass[2:]).Draw(t, label+"_compassname"))
	}
	comp := rapid.SampledFrom(dotCompass).Draw(t, label+"_compass")
	return port, comp
}

func drawDOT(t *rapid.T) dotCase {
	c := dotCase{Directed: rapid.Bool().Draw(t, "directed"), Multi: rapid.Bool().Draw(t, "multi")}
	dotVerbatim = rapid.IntRange(0, 2).Draw(t, "verbatim_ids") == 0
	c.Prefix = rapid.SampledFrom([]string{"", "", " ", "\t", "  "}).Draw(t, "prefix")
	c.Indent = rapid.SampledFrom([]string{"", " ", "\t", "  "}).Draw(t, "indent")
	if rapid.Bool().Draw(t, "nameparam") {
		c.NameParam = drawDOTString(t, "name", true)
	}
	n := rapid.IntRange(0, 6).Draw(t, "nnodes")
	seen := map[string]bool{}
	idBase := rapid.SampledFrom([]int64{0, 1, -3, 1000, -1 << 62}).Draw(t, "idbase")
	idStep := rapid.SampledFrom([]int64{1, 1, 7}).Draw(t, "idstep")
	for i := 0; i < n; i++ {
		nd := dotNode{ID: idBase + int64(i)*idStep}
		if rapid.IntRange(0, 4).Draw(t, "plain") == 0 {
			nd.Plain = true
		} else {
			nd.DOTID = drawDOTString(t, "id", true)
			nd.Attrs = drawDOTAttrs(t, "nattr", 3)
		}
		c.Nodes = append(c.Nodes, nd)
		// distinct nodes must stay distinct after decoding
		for k := 0; seen[c.nodeExpectID(i)]; k++ {
			c.Nodes[i].Plain, c.Nodes[i].DOTID = false, []byte(fmt.Sprintf("u%d_%d", i, k))
		}
		seen[c.nodeExpectID(i)] = true
	}
	// each unordered pair of nodes belongs to at most one (sub)graph
	type pair struct{ a, b int }
	var pairs []pair
	for a := 0; a < n; a++ {
		for b2 := a; b2 < n; b2++ {
			if a != b2 || c.Multi {
				pairs = append(pairs, pair{a, b2})
			}
		}
	}
	nsub := 0
	if rapid.IntRange(0, 2).Draw(t, "structured") == 0 {
		nsub = rapid.IntRange(1, 3).Draw(t, "nsub")
	}
	owners := make([]*dotSub, 1+nsub) // 0 = top
	subs := make([]dotSub, 1+nsub)
	for i := range subs {
		owners[i] = &subs[i]
		subs[i].Name = drawDOTString(t, "gname", true)
		if rapid.Bool().Draw(t, "gattrs") {
			subs[i].GAttrs = drawDOTAttrs(t, "ga", 2)
			subs[i].NAttrs = drawDOTAttrs(t, "na", 2)
			subs[i].EAttrs = drawDOTAttrs(t, "ea", 2)
		}
	}
	member := make([]map[int]bool, 1+nsub)
	for i := range member {
		member[i] = map[int]bool{}
	}
	for _, p := range pairs {
		if rapid.IntRange(0, 2).Draw(t, "edge") != 0 {
			continue
		}
		o := rapid.IntRange(0, nsub).Draw(t, "owner")
		k := 1
		if c.Multi {
			k = rapid.IntRange(1, 3).Draw(t, "parallel")
		} else if c.Directed && rapid.IntRange(0, 3).Draw(t, "both") == 0 {
			k = 2
		}
		for j := 0; j < k; j++ {
			e := dotEdge{F: p.a, T: p.b, Attrs: drawDOTAttrs(t, "eattr", 3)}
			if !c.Multi && c.Directed && k == 2 {
				if j == 1 {
					e.F, e.T = p.b, p.a
				}
			} else if rapid.Bool().Draw(t, "flip") {
				e.F, e.T = p.b, p.a
			}
			e.FPort, e.FComp = drawPort(t, "fport")
			e.TPort, e.TComp = drawPort(t, "tport")
			owners[o].Edges = append(owners[o].Edges, e)
			member[o][e.F], member[o][e.T] = true, true
		}
	}
	// remaining node membership: every node is somewhere
	for i := 0; i < n; i++ {
		any := false
		for o := range member {
			if member[o][i] {
				any = true
			} else if rapid.IntRange(0, 3).Draw(t, "member") == 0 {
				member[o][i], any = true, true
			}
		}
		if !any {
			member[0][i] = true
		}
	}
	for o := range subs {
		for i := 0; i < n; i++ {
			if member[o][i] {
				subs[o].Nodes = append(subs[o].Nodes, i)
			}
		}
	}
	c.Top = subs[0]
	// sub-nodes: their members are fresh nodes that belong to nothing else
	if rapid.IntRange(0, 3).Draw(t, "subnodes") == 0 {
		nsn := rapid.IntRange(1, 2).Draw(t, "nsubnodes")
		for k := 0; k < nsn; k++ {
			sn := dotSubNode{ID: idBase + int64(n+10+k)*idStep, Name: drawDOTString(t, "snname", true)}
			for j := rapid.IntRange(0, 2).Draw(t, "snmembers"); j > 0; j-- {
				nd := dotNode{ID: idBase + int64(len(c.Nodes)+20)*idStep, DOTID: drawDOTString(t, "id", true), Attrs: drawDOTAttrs(t, "nattr", 2)}
				c.Nodes = append(c.Nodes, nd)
				i := len(c.Nodes) - 1
				for q := 0; seen[c.nodeExpectID(i)]; q++ {
					c.Nodes[i].DOTID = []byte(fmt.Sprintf("m%d_%d", i, q))
				}
				seen[c.nodeExpectID(i)] = true
				sn.Members = append(sn.Members, i)
			}
			c.SubNodes = append(c.SubNodes, sn)
		}
		// edges between sub-nodes and ordinary top-level nodes or other sub-nodes
		var cand []int
		for _, i := range c.Top.Nodes {
			cand = append(cand, i)
		}
		for k := range c.SubNodes {
			cand = append(cand, -(k + 1))
		}
		for k := range c.SubNodes {
			for _, other := range cand {
				if other == -(k+1) || (other < 0 && -other-1 < k) || rapid.IntRange(0, 2).Draw(t, "snedge") != 0 {
					continue
				}
				e := dotEdge{F: -(k + 1), T: other, Attrs: drawDOTAttrs(t, "eattr", 2)}
				if rapid.Bool().Draw(t, "snflip") {
					e.F, e.T = e.T, e.F
				}
				// ports only at ordinary nodes
				if e.F >= 0 {
					e.FPort, e.FComp = drawPort(t, "fport")
				}
				if e.T >= 0 {
					e.TPort, e.TComp = drawPort(t, "tport")
				}
				c.Top.Edges = append(c.Top.Edges, e)
			}
		}
	}
	// nest: sub 3 (if any) goes inside sub 1
	for o := 1; o <= nsub; o++ {
		if o == 3 && rapid.Bool().Draw(t, "nest") {
			c.Top.Subs[0].Subs = append(c.Top.Subs[0].Subs, subs[o])
			continue
		}
		c.Top.Subs = append(c.Top.Subs, subs[o])
	}
	return c
}

func TestDOTRoundTrip(t *testing.T) {
	vk.Run(t, "dot-rt", vk.Opts{Quick: 24000, Thorough: 300000, NoCrumb: true}, drawDOT, checkDOT)
}

// single strings in every position, exhaustively over the fixed word lists:
// catches quoting mistakes that need one particular spelling
func TestDOTWords(t *testing.T) {
	var words []string
	for _, l := range [][]string{dotKeywords, dotNumerals, dotNearNumerals, dotCommentLike, dotHTML, dotPieces, dotCompass[2:]} {
		words = append(words, l...)
	}
	for _, w := range append([]string(nil), words...) {
		if utf8.ValidString(w) && !strings.ContainsRune(w, 0) && !strings.ContainsAny(w, "\\\n\r") {
			if q := `"` + strings.ReplaceAll(w, `"`, `\"`) + `"`; !ambiguousQuotedHTML(q) {
				words = append(words, q)
			}
		}
	}
	words = append(words, dotNotQuiteIDs...)
	var cases []dotCase
	for _, w := range words {
		for pos := 0; pos < 6; pos++ {
			c := dotCase{Directed: pos%2 == 0, Multi: pos >= 3, Indent: " "}
			n0 := dotNode{ID: 1, DOTID: []byte("a")}
			n1 := dotNode{ID: 2, DOTID: []byte("b")}
			e := dotEdge{F: 0, T: 1}
			switch pos {
			case 0:
				n0.DOTID = []byte(w)
			case 1:
				n0.Attrs = []dotAttr{{K: []byte(w), V: []byte("v")}, {K: []byte("k"), V: []byte(w)}}
			case 2:
				e.FPort, e.TPort, e.TComp = []byte(w), []byte(w), "sw"
			case 3:
				c.Top.Name = []byte(w)
				c.Top.GAttrs = []dotAttr{{K: []byte(w), V: []byte(w)}}
			case 4:
				c.NameParam = []byte(w)
				e.Attrs = []dotAttr{{K: []byte(w), V: []byte(w)}}
			case 5:
				c.Top.NAttrs = []dotAttr{{K: []byte("k"), V: []byte(w)}}
				c.Top.EAttrs = []dotAttr{{K: []byte(w), V: []byte("v")}}
				n1.DOTID = []byte(w)
			}
			if pos == 2 && w == "" {
				continue
			}
			c.Nodes = []dotNode{n0, n1}
			if c.nodeExpectID(0) == c.nodeExpectID(1) {
				c.Nodes[0].DOTID = []byte("zz")
			}
			c.Top.Nodes = []int{0, 1}
			c.Top.Edges = []dotEdge{e}
			cases = append(cases, c)
		}
	}
	vk.Enumerate(t, "dot-rt", len(cases), func(i int) dotCase { return cases[i] }, checkDOT)
}

// ---- totality -------------------------------------------------------------------------------------------

type dotBytesCase = vk.BytesCase

var dotSnippets = []string{
	"digraph G { a -> b -> c; }",
	"strict graph { a -- b [k=v, x=\"y z\"]; }",
	"graph { subgraph s { a b } -- c:p:n [w=1] }",
	"digraph { {a b} -> {c d} -> e }",
	"digraph { node [shape=box]; edge [color=red]; graph [x=1]; a [l=<b>x</b>]; }",
	"graph \"q\\\"q\" { \"a\\\nb\" -- <h<i>j</i>> }",
	"digraph { a:\"p\":se -> b:n; x=y; subgraph cluster_0 { label=z; c } }",
	"/* c */ digraph { // d\n# e\n a -> a }",
	"graph { -1 -- .5 -- 2. }",
	"digraph a { } graph b { }",
	"Digraph { Node [a=b] Edge [c=d] Graph [e=f] SubGraph { } }",
}
var dotSoup = []string{"digraph", "graph", "strict", "subgraph", "node", "edge", "{", "}", "[", "]", "->", "--", "=", ";", ",", ":", " ", "\n", "a", "b", "\"", "\\", "<", ">", "1", "-", ".", "\"x\"", "<b>", "//", "/*", "*/", "#", "\x00", "\xff", "é", "n", "_", "+"}

func checkDOTBytes(c dotBytesCase) *vk.Failure {
	vk.Sample("dot-total", c)
	if len(c.Data) > maxBytesCase {
		return nil
	}
	var perr error
	var f *vk.Failure
	r := vk.Call(func() {
		file, err := fdot.ParseBytes(c.Data)
		perr = err
		if err != nil {
			return
		}
		if len(file.Graphs) == 0 {
			f = vk.Failf("parse-no-graph", "ParseBytes(%q) returned a file without graphs and a nil error", quoteShort(c.Data))
			return
		}
		// the AST must be printable; nothing is documented about re-parsing the
		// print-out (it is not a fixed point: NewID strips backslash-newline
		// even after an escaped backslash), so only totality is asserted
		_, _ = fdot.ParseString(file.String())
	})
	if r.Outcome != vk.Returned {
		return vk.Failf("parse-panics", "formats/dot ParseBytes(%q): %v %s", quoteShort(c.Data), r.Outcome, r.Text)
	}
	if f != nil {
		return f
	}
	if perr != nil {
		vk.Class("total dot rejected by parser")
	} else {
		vk.NonTrivial("dot-total", string(c.Data))
	}
	for _, directed := range []bool{false, true} {
		for _, mg := range []bool{false, true} {
			var g recGraph
			var err error
			api := map[bool]string{false: "Unmarshal", true: "UnmarshalMulti"}[mg]
			if r := vk.Call(func() { g, err = unmarshalRec(c.Data, directed, mg) }); r.Outcome != vk.Returned {
				key := "unmarshal-panics"
				if r.Outcome == vk.PackagePanic && strings.Contains(r.Text, "adding self edge") {
					key = "unmarshal-panics-self-edge" // the builder's panic escapes instead of becoming an error
				}
				return vk.Failf(key, "dot.%s(%q) into a %s graph: %v %s", api, quoteShort(c.Data), map[bool]string{false: "undirected", true: "directed"}[directed], r.Outcome, r.Text)
			}
			if (perr != nil) && err == nil {
				return vk.Failf("unmarshal-accepts-unparsable", "dot.%s(%q) returned nil although ParseBytes fails: %v", api, quoteShort(c.Data), perr)
			}
			if err != nil {
				if perr == nil {
					vk.Class("total dot " + api + " rejected after parsing")
				}
				continue
			}
			vk.Class("total dot " + api + " accepted")
			// the decoded graph is usable: it can be summarized and marshalled
			if r := vk.Call(func() {
				_ = summarize(g, directed)
				out, err := marshalRec(g, "", "", " ")
				if err != nil {
					f = vk.Failf("decoded-marshal-error", "dot.%s(%q) accepted, Marshal of the result: %v", api, quoteShort(c.Data), err)
					return
				}
				_, _ = unmarshalRec(out, directed, mg)
			}); r.Outcome != vk.Returned {
				return vk.Failf("decoded-unusable", "dot.%s(%q) accepted, but using the result: %v %s", api, quoteShort(c.Data), r.Outcome, r.Text)
			}
			if f != nil {
				return f
			}
		}
	}
	return nil
}

func drawDOTBytes(t *rapid.T) dotBytesCase {
	valid := func(label string) []byte {
		if rapid.Bool().Draw(t, label+"_snip") {
			return []byte(rapid.SampledFrom(dotSnippets).Draw(t, label+"_snippet"))
		}
		c := drawDOT(t)
		b := &dotBuilder{c: c, expNode: map[int][]encoding.Attribute{}}
		for _, n := range c.Nodes {
			if n.Plain {
				b.objs = append(b.objs, simple.Node(n.ID))
			} else {
				b.objs = append(b.objs, &recNode{id: n.ID, dotID: string(n.DOTID), attrList: toAttrs(n.Attrs)})
			}
		}
		out, err := marshalRec(b.build(c.Top), string(c.NameParam), c.Prefix, c.Indent)
		if err != nil {
			return []byte("graph {}")
		}
		return out
	}
	switch rapid.IntRange(0, 7).Draw(t, "kind") {
	case 0:
		return dotBytesCase{Data: valid("v")}
	case 1, 2, 3:
		return dotBytesCase{Data: mutate(t, valid("v"), valid("o"), 2048)}
	case 4, 5:
		return dotBytesCase{Data: []byte(strings.Join(rapid.SliceOfN(rapid.SampledFrom(dotSoup), 0, 24).Draw(t, "soup"), ""))}
	case 6: // deep nesting
		d := rapid.IntRange(1, 200).Draw(t, "depth")
		return dotBytesCase{Data: []byte("graph {" + strings.Repeat("{", d) + "a" + strings.Repeat("}", d) + " -- b }")}
	default:
		return dotBytesCase{Data: rapid.SliceOfN(rapid.Byte(), 0, 48).Draw(t, "bytes")}
	}
}

func TestDOTTotality(t *testing.T) {
	vk.Run(t, "dot-total", vk.Opts{Quick: 24000, Thorough: 300000, NoCrumb: true}, drawDOTBytes, checkDOTBytes)
}
