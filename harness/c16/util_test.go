package c16

import (
	"bytes"
	"encoding/json"
	"fmt"
	"os"
	"path/filepath"
	"strings"

	"pgregory.net/rapid"
)

// ---- byte-level mutation of valid encodings --------------------------------

// interesting byte values used by "set byte" mutations.
var hotBytes = []byte{0, 1, 0x7f, 0x80, 0xff, 62, 63, 64, 126, 127, '&', '~', '?', '"', '\\', '<', '>', '\n', ' ', '.', '{', '}', '[', ']', ':', ';', '-', '_', '#', '@', '^', 'G', 'F', 'A'}

// mutate applies up to three drawn edits (truncate, bit flip, byte set, insert,
// delete, duplicate a range, splice a range of other) to data. The result is
// capped at maxLen bytes.
func mutate(t *rapid.T, data, other []byte, maxLen int) []byte {
	out := append([]byte(nil), data...)
	nops := rapid.IntRange(1, 3).Draw(t, "mut_n")
	for k := 0; k < nops; k++ {
		op := rapid.IntRange(0, 7).Draw(t, "mut_op")
		switch op {
		case 0: // truncate at any length
			if len(out) > 0 {
				out = out[:rapid.IntRange(0, len(out)-1).Draw(t, "mut_cut")]
			}
		case 1: // bit flip
			if len(out) > 0 {
				p := rapid.IntRange(0, len(out)-1).Draw(t, "mut_pos")
				out[p] ^= 1 << uint(rapid.IntRange(0, 7).Draw(t, "mut_bit"))
			}
		case 2: // set byte to an interesting value
			if len(out) > 0 {
				p := rapid.IntRange(0, len(out)-1).Draw(t, "mut_pos")
				out[p] = rapid.SampledFrom(hotBytes).Draw(t, "mut_hot")
			}
		case 3: // set byte to anything
			if len(out) > 0 {
				p := rapid.IntRange(0, len(out)-1).Draw(t, "mut_pos")
				out[p] = rapid.Byte().Draw(t, "mut_byte")
			}
		case 4: // insert 1..4 bytes
			p := rapid.IntRange(0, len(out)).Draw(t, "mut_pos")
			ins := rapid.SliceOfN(rapid.OneOf(rapid.SampledFrom(hotBytes), rapid.Byte()), 1, 4).Draw(t, "mut_ins")
			out = append(out[:p:p], append(ins, out[p:]...)...)
		case 5: // delete a range
			if len(out) > 0 {
				p := rapid.IntRange(0, len(out)-1).Draw(t, "mut_pos")
				l := rapid.IntRange(1, min(len(out)-p, 16)).Draw(t, "mut_len")
				out = append(out[:p:p], out[p+l:]...)
			}
		case 6: // duplicate a range of itself at another place
			if len(out) > 0 {
				p := rapid.IntRange(0, len(out)-1).Draw(t, "mut_src")
				l := rapid.IntRange(1, min(len(out)-p, 32)).Draw(t, "mut_len")
				q := rapid.IntRange(0, len(out)).Draw(t, "mut_dst")
				seg := append([]byte(nil), out[p:p+l]...)
				out = append(out[:q:q], append(seg, out[q:]...)...)
			}
		case 7: // splice a range of another valid encoding over/into this one
			if len(other) > 0 {
				p := rapid.IntRange(0, len(other)-1).Draw(t, "mut_src")
				l := rapid.IntRange(1, min(len(other)-p, 32)).Draw(t, "mut_len")
				q := rapid.IntRange(0, len(out)).Draw(t, "mut_dst")
				seg := other[p : p+l]
				if rapid.Bool().Draw(t, "mut_over") && q+l <= len(out) {
					copy(out[q:], seg)
				} else {
					out = append(out[:q:q], append(append([]byte(nil), seg...), out[q:]...)...)
				}
			}
		}
		if len(out) > maxLen {
			out = out[:maxLen]
		}
	}
	return out
}

// ---- open known findings (to let a new failure take precedence over a recorded one) ----

func verifRoot() string {
	if v := os.Getenv("VERIF_ROOT"); v != "" {
		return v
	}
	return "/verif"
}

var openKnown = func() map[string]bool {
	m := map[string]bool{}
	p := os.Getenv("VK_KNOWN")
	if p == "" {
		p = filepath.Join(verifRoot(), "known_findings.jsonl")
	}
	b, err := os.ReadFile(p)
	if err != nil {
		return m
	}
	for _, line := range strings.Split(string(b), "\n") {
		line = strings.TrimSpace(line)
		if line == "" || strings.HasPrefix(line, "#") {
			continue
		}
		var k struct{ Property, Key, Status string }
		if json.Unmarshal([]byte(line), &k) == nil && k.Property == "C16" && k.Status == "open" {
			m[k.Key] = true
		}
	}
	return m
}()

// maxBytesCase bounds the inputs the byte-level checks look at (the native
// fuzzer may grow inputs to a megabyte; the decoders under test are linear or
// quadratic in the input).
const maxBytesCase = 4096

// ---- small helpers -----------------------------------------------------------

func hexShort(b []byte) string {
	if len(b) > 96 {
		return fmt.Sprintf("%x...(%d bytes)", b[:96], len(b))
	}
	return fmt.Sprintf("%x", b)
}

// quoteShort truncates b for use with %q in messages.
func quoteShort(b []byte) []byte {
	if len(b) > 400 {
		return append(b[:400:400], fmt.Sprintf("...(%d bytes)", len(b))...)
	}
	return b
}

func firstDiff(a, b []byte) int {
	n := min(len(a), len(b))
	for i := 0; i < n; i++ {
		if a[i] != b[i] {
			return i
		}
	}
	if len(a) != len(b) {
		return n
	}
	return -1
}

var _ = bytes.Equal
