// Package c16 checks property C16: codecs round-trip losslessly, decoders are
// total, RDF canonicalization is label-invariant (the last part lives in
// rdf_c14n_*_test.go).
package c16

import (
	"os"
	"testing"

	"verifharness/vk"
)

func TestMain(m *testing.M) {
	// direct `go test` / `go test -fuzz` runs (without the driver) also honour
	// the recorded findings, so that they search behind them
	if os.Getenv("VK_KNOWN") == "" {
		os.Setenv("VK_KNOWN", "/verif/known_findings.jsonl")
	}
	vk.Main(m, "C16")
}
