// Package c16 checks property C16: codecs round-trip losslessly, decoders are
// total, RDF canonicalization is label-invariant (the last part lives in
// rdf_c14n_*_test.go).
package c16

import (
	"testing"

	"verifharness/vk"
)

func TestMain(m *testing.M) { vk.Main(m, "C16") }
