package c16

// DOT text semantics: "decoders produce the graph the text describes".
//
// The round-trip checks only ever decode what Marshal prints, and Marshal never
// prints a subgraph inside a subgraph that is an edge end point. Here DOT source
// is generated from a small grammar (node statements, edge chains whose end
// points are nodes or anonymous/named subgraphs, nested to depth 3, plain
// subgraph statements) and the decoded graph is compared with the graph given
// by the DOT language definition: "an edge statement allows a subgraph on both
// the left and right sides of the edge operator; an edge is created from every
// node on the left to every node on the right", where the nodes of a subgraph
// are all nodes mentioned anywhere inside it.

import (
	"fmt"
	"sort"
	"strings"
	"testing"

	"gonum.org/v1/gonum/graph"
	"gonum.org/v1/gonum/graph/encoding/dot"
	"gonum.org/v1/gonum/graph/multi"
	"gonum.org/v1/gonum/graph/simple"
	"pgregory.net/rapid"

	"verifharness/vk"
)

// dsVertex is an edge end point or the operand of a node/subgraph statement.
type dsVertex struct {
	Node  int // >= 0: node n<Node>; -1: subgraph
	Named bool
	Stmts []dsStmt `json:",omitempty"`
}

// dsStmt: Kind 0 node statement (Chain[0] is a node), 1 edge statement
// (len(Chain) >= 2), 2 subgraph statement (Chain[0] is a subgraph).
type dsStmt struct {
	Kind  int
	Chain []dsVertex
}

type dotSubCase struct {
	Directed bool
	Stmts    []dsStmt
}

const dsNodes = 16

type dsPair struct{ f, t int }

// dsEval is the reference semantics: it returns the nodes mentioned by stmts in
// first-mention order and appends the edges they create to *edges.
func dsEval(stmts []dsStmt, edges *[]dsPair, depth *int, d int) []int {
	if d > *depth {
		*depth = d
	}
	var out []int
	seen := map[int]bool{}
	add := func(ns []int) {
		for _, n := range ns {
			if !seen[n] {
				seen[n] = true
				out = append(out, n)
			}
		}
	}
	vertex := func(v dsVertex) []int {
		if v.Node >= 0 {
			return []int{v.Node}
		}
		return dsEval(v.Stmts, edges, depth, d+1)
	}
	for _, s := range stmts {
		switch s.Kind {
		case 0, 2:
			add(vertex(s.Chain[0]))
		case 1:
			sets := make([][]int, len(s.Chain))
			for i, v := range s.Chain {
				sets[i] = vertex(v)
				add(sets[i])
			}
			for i := 0; i+1 < len(sets); i++ {
				for _, f := range sets[i] {
					for _, t := range sets[i+1] {
						*edges = append(*edges, dsPair{f, t})
					}
				}
			}
		}
	}
	return out
}

func dsPrint(b *strings.Builder, stmts []dsStmt, directed bool, indent string, name *int) {
	op := " -- "
	if directed {
		op = " -> "
	}
	var vertex func(v dsVertex)
	vertex = func(v dsVertex) {
		if v.Node >= 0 {
			fmt.Fprintf(b, "n%d", v.Node)
			return
		}
		if v.Named {
			*name++
			fmt.Fprintf(b, "subgraph s%d ", *name)
		}
		b.WriteString("{\n")
		dsPrint(b, v.Stmts, directed, indent+"\t", name)
		b.WriteString(indent + "}")
	}
	for _, s := range stmts {
		b.WriteString(indent)
		for i, v := range s.Chain {
			if i > 0 {
				b.WriteString(op)
			}
			vertex(v)
		}
		b.WriteString(";\n")
	}
}

func dsSource(c dotSubCase) string {
	var b strings.Builder
	if c.Directed {
		b.WriteString("digraph {\n")
	} else {
		b.WriteString("graph {\n")
	}
	name := 0
	dsPrint(&b, c.Stmts, c.Directed, "\t", &name)
	b.WriteString("}\n")
	return b.String()
}

func dsValid(stmts []dsStmt, d int) bool {
	if d > 6 {
		return false
	}
	for _, s := range stmts {
		if len(s.Chain) == 0 || (s.Kind == 1) != (len(s.Chain) >= 2) || s.Kind < 0 || s.Kind > 2 {
			return false
		}
		for _, v := range s.Chain {
			if v.Node >= dsNodes || v.Node < -1 {
				return false
			}
			if s.Kind == 0 && v.Node < 0 || s.Kind == 2 && v.Node >= 0 {
				return false
			}
			if v.Node < 0 && !dsValid(v.Stmts, d+1) {
				return false
			}
		}
	}
	return true
}

func dsKey(directed bool, f, t string) string {
	if !directed && t < f {
		f, t = t, f
	}
	return f + ">" + t
}

func checkDOTSub(c dotSubCase) *vk.Failure {
	if !dsValid(c.Stmts, 0) {
		return nil
	}
	var edges []dsPair
	depth := 0
	nodes := dsEval(c.Stmts, &edges, &depth, 0)
	src := dsSource(c)
	vk.Sample("dot-text", src)
	selfLoop := false
	wantMulti := map[string]int{}
	wantSet := map[string]bool{}
	for _, e := range edges {
		if e.f == e.t {
			selfLoop = true
		}
		k := dsKey(c.Directed, fmt.Sprintf("n%d", e.f), fmt.Sprintf("n%d", e.t))
		wantMulti[k]++
		wantSet[k] = true
	}
	wantNodes := make([]string, len(nodes))
	for i, n := range nodes {
		wantNodes[i] = fmt.Sprintf("n%d", n)
	}
	sort.Strings(wantNodes)
	vk.Class(fmt.Sprintf("dot-text nesting-depth=%d self-loop=%v", min(depth, 3), selfLoop))
	if depth >= 2 && len(edges) > 0 {
		vk.NonTrivial("dot-text", src)
	}
	nodeIDs := func(g graph.Graph) []string {
		var out []string
		it := g.Nodes()
		for it.Next() {
			out = append(out, it.Node().(*recNode).dotID)
		}
		sort.Strings(out)
		return out
	}
	render := func(m map[string]int) string {
		var ks []string
		for k, n := range m {
			ks = append(ks, fmt.Sprintf("%s x%d", k, n))
		}
		sort.Strings(ks)
		return strings.Join(ks, ", ")
	}

	// simple decoder
	if !selfLoop {
		var g interface {
			graph.Graph
			Edges() graph.Edges
		}
		var err error
		if c.Directed {
			d := &recDirected{DirectedGraph: simple.NewDirectedGraph()}
			err = dot.Unmarshal([]byte(src), d)
			g = d
		} else {
			d := &recUndirected{UndirectedGraph: simple.NewUndirectedGraph()}
			err = dot.Unmarshal([]byte(src), d)
			g = d
		}
		if err != nil {
			return vk.Failf("unmarshal-error", "dot.Unmarshal rejects generated DOT source: %v\n%s", err, src)
		}
		got := map[string]int{}
		it := g.Edges()
		for it.Next() {
			e := it.Edge()
			got[dsKey(c.Directed, e.From().(*recNode).dotID, e.To().(*recNode).dotID)] = 1
		}
		want := map[string]int{}
		for k := range wantSet {
			want[k] = 1
		}
		if render(got) != render(want) {
			return vk.Failf("unmarshal-edge-set", "dot.Unmarshal: decoded edge set differs from the edges the text describes\ngot:  %s\nwant: %s\n%s", render(got), render(want), src)
		}
		if gn := nodeIDs(g); strings.Join(gn, " ") != strings.Join(wantNodes, " ") {
			return vk.Failf("unmarshal-node-set", "dot.Unmarshal: decoded nodes %v, text mentions %v\n%s", gn, wantNodes, src)
		}
	}

	// multigraph decoder: one line per (statement, pair)
	{
		var g interface {
			graph.Graph
			Edges() graph.Edges
		}
		var err error
		if c.Directed {
			d := &recMultiDirected{DirectedGraph: multi.NewDirectedGraph()}
			err = dot.UnmarshalMulti([]byte(src), d)
			g = d
		} else {
			d := &recMultiUndirected{UndirectedGraph: multi.NewUndirectedGraph()}
			err = dot.UnmarshalMulti([]byte(src), d)
			g = d
		}
		if err != nil {
			return vk.Failf("unmarshalmulti-error", "dot.UnmarshalMulti rejects generated DOT source: %v\n%s", err, src)
		}
		got := map[string]int{}
		it := g.Edges()
		for it.Next() {
			me := it.Edge().(multi.Edge)
			for me.Next() {
				l := me.Line()
				got[dsKey(c.Directed, l.From().(*recNode).dotID, l.To().(*recNode).dotID)]++
			}
		}
		if render(got) != render(wantMulti) {
			return vk.Failf("unmarshalmulti-line-multiset", "dot.UnmarshalMulti: decoded lines differ from the edges the text describes\ngot:  %s\nwant: %s\n%s", render(got), render(wantMulti), src)
		}
		if gn := nodeIDs(g); strings.Join(gn, " ") != strings.Join(wantNodes, " ") {
			return vk.Failf("unmarshalmulti-node-set", "dot.UnmarshalMulti: decoded nodes %v, text mentions %v\n%s", gn, wantNodes, src)
		}
	}
	return nil
}

func drawDSStmts(t *rapid.T, pool, depth int, lo, hi int) []dsStmt {
	n := rapid.IntRange(lo, hi).Draw(t, "nstmt")
	out := make([]dsStmt, 0, n)
	node := func() dsVertex { return dsVertex{Node: rapid.IntRange(0, pool-1).Draw(t, "node")} }
	sub := func() dsVertex {
		return dsVertex{Node: -1, Named: rapid.IntRange(0, 3).Draw(t, "named") == 0, Stmts: drawDSStmts(t, pool, depth+1, 0, 2)}
	}
	for i := 0; i < n; i++ {
		k := rapid.IntRange(0, 9).Draw(t, "kind")
		switch {
		case k < 2:
			out = append(out, dsStmt{Kind: 0, Chain: []dsVertex{node()}})
		case k < 8 || depth >= 3:
			l := rapid.SampledFrom([]int{2, 2, 2, 3}).Draw(t, "chain")
			var ch []dsVertex
			for j := 0; j < l; j++ {
				if depth < 3 && rapid.IntRange(0, 9).Draw(t, "endpoint") < 5-depth {
					ch = append(ch, sub())
				} else {
					ch = append(ch, node())
				}
			}
			out = append(out, dsStmt{Kind: 1, Chain: ch})
		default:
			out = append(out, dsStmt{Kind: 2, Chain: []dsVertex{sub()}})
		}
	}
	return out
}

func drawDOTSub(t *rapid.T) dotSubCase {
	pool := rapid.SampledFrom([]int{4, 6, 10, 16}).Draw(t, "pool")
	return dotSubCase{Directed: rapid.Bool().Draw(t, "directed"), Stmts: drawDSStmts(t, pool, 0, 1, 3)}
}

func TestDOTTextSemantics(t *testing.T) {
	vk.Run(t, "dot-text", vk.Opts{Quick: 12000, Thorough: 200000}, drawDOTSub, checkDOTSub)
}
