package c18

import (
	"fmt"
	"math"
	"sync/atomic"
	"testing"

	"gonum.org/v1/gonum/diff/fd"
	"gonum.org/v1/gonum/mat"
	"pgregory.net/rapid"
	"verifharness/vk"
)

// The oracle for the named formulas is a table written down from their
// mathematical definition, independent of the stencils stored in package fd:
// derivative order m, exactness degree E (largest polynomial degree that is
// differentiated exactly) and the next stencil moment M = sum_i a_i l_i^(E+1).
// For a polynomial q of degree E+1 with leading coefficient c the formula
// returns exactly q^(m)(x) + c h^(E+1-m) M.
type formulaInfo struct {
	name string
	f    func() fd.Formula
	m, e int
	mom  float64
}

var named = []formulaInfo{
	{"Forward", func() fd.Formula { return fd.Forward }, 1, 1, 1},
	{"Backward", func() fd.Formula { return fd.Backward }, 1, 1, -1},
	{"Central", func() fd.Formula { return fd.Central }, 1, 2, 1},
	{"Forward2nd", func() fd.Formula { return fd.Forward2nd }, 2, 2, 6},
	{"Backward2nd", func() fd.Formula { return fd.Backward2nd }, 2, 2, -6},
	{"Central2nd", func() fd.Formula { return fd.Central2nd }, 2, 3, 2},
}

// ---- Derivative ---------------------------------------------------------------

type stencilPt struct {
	Loc   int
	Coeff int // in units of 1/4
}

type derivCase struct {
	Formula  int         // index into named, or -1 for the custom Stencil
	Stencil  []stencilPt // custom stencil
	Order    int         // derivative order declared for the custom stencil
	C        []int       // polynomial coefficients
	X        int         // x in units of 1/4
	StepExp  int         // step = 2^StepExp
	StepIn   int         // 0: Settings.Step, 1: Formula.Step, 2: both (Settings wins)
	Known    bool        // OriginKnown with the true value
	Conc     bool
	WrongVal bool // OriginValue deliberately wrong while OriginKnown is false: must be ignored
}

func checkDeriv(c derivCase) *vk.Failure {
	x := float64(c.X) / 4
	h := math.Ldexp(1, c.StepExp)
	coef := intsToF(c.C)
	deg := len(coef) - 1
	var formula fd.Formula
	var info *formulaInfo
	if c.Formula >= 0 {
		info = &named[c.Formula]
		formula = info.f()
		// copy the stencil so that the case cannot disturb the package variable
		formula.Stencil = append([]fd.Point(nil), formula.Stencil...)
	} else {
		for _, p := range c.Stencil {
			formula.Stencil = append(formula.Stencil, fd.Point{Loc: float64(p.Loc), Coeff: float64(p.Coeff) / 4})
		}
		formula.Derivative = c.Order
		formula.Step = 1
	}
	set := &fd.Settings{Formula: formula, Concurrent: c.Conc}
	switch c.StepIn {
	case 0:
		set.Step = h
	case 1:
		set.Formula.Step = h
	default:
		set.Formula.Step = 4 * h
		set.Step = h
	}
	zeros := 0
	for _, p := range formula.Stencil {
		if p.Loc == 0 {
			zeros++
		}
	}
	fx := poly(coef, x)
	if c.Known {
		set.OriginKnown, set.OriginValue = true, fx
	} else if c.WrongVal {
		set.OriginValue = fx + 1000
	}
	var calls atomic.Int64
	f := func(t float64) float64 { calls.Add(1); return poly(coef, t) }
	got := fd.Derivative(f, x, set)

	name := "custom"
	if info != nil {
		name = info.name
	}
	vk.Class("derivative:" + name)
	vk.Sample("fd-derivative", c)
	var want float64
	if info != nil {
		// exact derivative of order m at x
		d := coef
		for k := 0; k < info.m; k++ {
			d = polyDeriv(d)
		}
		want = poly(d, x)
		switch {
		case deg == info.e:
			vk.Class("derivative:degree-at-exactness-boundary")
			vk.NonTrivial("deriv", name, fmt.Sprint(c.C), c.X, c.StepExp)
		case deg == info.e+1:
			vk.Class("derivative:degree-one-above(order-check)")
			vk.NonTrivial("deriv+1", name, fmt.Sprint(c.C), c.X, c.StepExp)
			want += coef[deg] * math.Ldexp(1, c.StepExp*(info.e+1-info.m)) * info.mom
		}
	} else {
		// the documented formula, evaluated exactly on dyadic data
		vk.NonTrivial("deriv-custom", fmt.Sprint(c.Stencil), c.Order, fmt.Sprint(c.C), c.X, c.StepExp)
		s := 0.0
		for _, p := range c.Stencil {
			s += float64(p.Coeff) / 4 * poly(coef, x+h*float64(p.Loc))
		}
		want = s / math.Ldexp(1, c.StepExp*c.Order)
	}
	if vk.Ulps(got, want) > 4 {
		return vk.Failf("derivative-"+name, "formula %s degree %d coefficients %v x=%v step=%v known=%v concurrent=%v: got %v want %v", name, deg, c.C, x, h, c.Known, c.Conc, got, want)
	}
	wantCalls := int64(len(formula.Stencil))
	if c.Known {
		wantCalls -= int64(zeros)
	}
	if calls.Load() != wantCalls {
		return vk.Failf("derivative-eval-count", "formula %s known=%v concurrent=%v: %d evaluations, want %d", name, c.Known, c.Conc, calls.Load(), wantCalls)
	}
	return nil
}

func TestFDDerivative(t *testing.T) {
	vk.Run(t, "fd-derivative", vk.Opts{Quick: 8000, Thorough: 800000, NoCrumb: true}, func(t *rapid.T) derivCase {
		c := derivCase{
			X:       rapid.IntRange(-64, 64).Draw(t, "x"),
			StepExp: rapid.IntRange(-4, 2).Draw(t, "stepexp"),
			StepIn:  rapid.IntRange(0, 2).Draw(t, "stepin"),
			Known:   rapid.Bool().Draw(t, "known"),
			Conc:    rapid.Bool().Draw(t, "conc"),
		}
		if !c.Known {
			c.WrongVal = rapid.Bool().Draw(t, "wrongval")
		}
		if rapid.IntRange(0, 3).Draw(t, "custom") == 0 {
			c.Formula = -1
			np := rapid.IntRange(1, 5).Draw(t, "npts")
			for i := 0; i < np; i++ {
				c.Stencil = append(c.Stencil, stencilPt{
					Loc:   rapid.IntRange(-4, 4).Draw(t, "loc"), // repeated locations are allowed
					Coeff: rapid.IntRange(-12, 12).Draw(t, "coeff"),
				})
			}
			c.Order = rapid.IntRange(1, 3).Draw(t, "order")
			c.C = drawCoeffs(t, "c", rapid.IntRange(0, 4).Draw(t, "deg"), 4)
			return c
		}
		c.Formula = rapid.IntRange(0, len(named)-1).Draw(t, "formula")
		info := named[c.Formula]
		deg := info.e
		switch rapid.IntRange(0, 3).Draw(t, "degcls") {
		case 0:
			deg = rapid.IntRange(0, info.e).Draw(t, "deg")
		case 1:
			deg = info.e + 1
		}
		c.C = drawCoeffs(t, "c", deg, 4)
		return c
	}, checkDeriv)
}

// ---- Gradient, Jacobian, Hessian, Laplacian, CrossLaplacian -----------------

// first-derivative formulas with their second stencil moment M2 = sum a_i l_i^2
// (the coefficient of the leading truncation term on quadratics); the last two
// are the one-sided three-point second-order formulas.
type firstOrder struct {
	name string
	f    func() fd.Formula
	m2   float64
}

var firstOrders = []firstOrder{
	{"Forward", func() fd.Formula { return fd.Forward }, 1},
	{"Backward", func() fd.Formula { return fd.Backward }, -1},
	{"Central", func() fd.Formula { return fd.Central }, 0},
	{"OneSided3F", func() fd.Formula {
		return fd.Formula{Stencil: []fd.Point{{Loc: 0, Coeff: -1.5}, {Loc: 1, Coeff: 2}, {Loc: 2, Coeff: -0.5}}, Derivative: 1, Step: 1}
	}, 0},
	{"OneSided3B", func() fd.Formula {
		return fd.Formula{Stencil: []fd.Point{{Loc: -2, Coeff: 0.5}, {Loc: 0, Coeff: 1.5}, {Loc: -1, Coeff: -2}}, Derivative: 1, Step: 1}
	}, 0},
}

// second-derivative formulas with M3 = sum a_i l_i^3.
var secondOrders = []firstOrder{
	{"Forward2nd", func() fd.Formula { return fd.Forward2nd }, 6},
	{"Backward2nd", func() fd.Formula { return fd.Backward2nd }, -6},
	{"Central2nd", func() fd.Formula { return fd.Central2nd }, 0},
}

type multiCase struct {
	N       int
	M       int   // outputs of the vector function for Jacobian
	Formula int   // index into firstOrders (and, mod 3, secondOrders)
	X, Y    []int // coordinates in units of 1/4
	StepExp int
	StepIn  int // 0: Settings.Step, 1: Formula.Step
	Seed    uint64
	Known   bool
	Conc    bool
	Fn      int // 0 gradient, 1 jacobian, 2 hessian, 3 laplacian, 4 crosslaplacian
}

// quadCubic is f(x) = sum a_i x_i + sum_{i<=j} b_ij x_i x_j + sum d_i x_i^3
// with small integer coefficients.
type quadCubic struct {
	a, d []float64
	b    [][]float64 // upper triangle
}

func newQuadCubic(r *vk.SplitMix, n int, cubic bool) quadCubic {
	q := quadCubic{a: make([]float64, n), d: make([]float64, n), b: make([][]float64, n)}
	for i := 0; i < n; i++ {
		q.a[i] = float64(r.Intn(9) - 4)
		if cubic {
			q.d[i] = float64(r.Intn(7) - 3)
		}
		q.b[i] = make([]float64, n)
		for j := i; j < n; j++ {
			q.b[i][j] = float64(r.Intn(9) - 4)
		}
	}
	return q
}

func (q quadCubic) eval(x []float64) float64 {
	s := 0.0
	for i := range x {
		s += q.a[i]*x[i] + q.d[i]*x[i]*x[i]*x[i]
		for j := i; j < len(x); j++ {
			s += q.b[i][j] * x[i] * x[j]
		}
	}
	return s
}

// grad returns the exact gradient.
func (q quadCubic) grad(x []float64) []float64 {
	g := make([]float64, len(x))
	for i := range x {
		g[i] = q.a[i] + 3*q.d[i]*x[i]*x[i] + 2*q.b[i][i]*x[i]
		for j := range x {
			if j < i {
				g[i] += q.b[j][i] * x[j]
			} else if j > i {
				g[i] += q.b[i][j] * x[j]
			}
		}
	}
	return g
}

// hess returns the exact Hessian entry.
func (q quadCubic) hess(x []float64, i, j int) float64 {
	if i == j {
		return 2*q.b[i][i] + 6*q.d[i]*x[i]
	}
	if i > j {
		i, j = j, i
	}
	return q.b[i][j]
}

// makeSettings builds the Settings of a case. Hessian and CrossLaplacian use
// the square root of the formula's default step ("derivatives of derivatives"),
// so sqrtStep stores h^2 there; Settings.Step is used as given by all.
func makeSettings(fo firstOrder, c multiCase, origin float64, sqrtStep bool) (*fd.Settings, fd.Formula, float64) {
	h := math.Ldexp(1, c.StepExp)
	formula := fo.f()
	formula.Stencil = append([]fd.Point(nil), formula.Stencil...)
	set := &fd.Settings{Formula: formula, Concurrent: c.Conc}
	if c.StepIn == 0 {
		set.Step = h
	} else if sqrtStep {
		set.Formula.Step = h * h
	} else {
		set.Formula.Step = h
	}
	if c.Known {
		set.OriginKnown, set.OriginValue = true, origin
	}
	return set, formula, h
}

func stencilZeros(f fd.Formula) (zeros int) {
	for _, p := range f.Stencil {
		if p.Loc == 0 {
			zeros++
		}
	}
	return zeros
}

func fcoords(v []int) []float64 {
	out := make([]float64, len(v))
	for i, k := range v {
		out[i] = float64(k) / 4
	}
	return out
}

func checkMulti(c multiCase) *vk.Failure {
	n := c.N
	x := fcoords(c.X)
	r := vk.NewSplitMix(c.Seed)
	fn := []string{"gradient", "jacobian", "hessian", "laplacian", "crosslaplacian"}[c.Fn]
	mode := "serial"
	if c.Conc {
		mode = "concurrent"
	}
	vk.Class("fd:" + fn + "," + mode)
	if c.Known {
		vk.Class("fd:" + fn + ",origin-known")
	}
	if n >= 2 {
		vk.NonTrivial("fd-multi", fn, c.N, c.M, c.Formula, fmt.Sprint(c.X), fmt.Sprint(c.Y), c.StepExp, c.Seed, c.Known, c.Conc)
	}
	vk.Sample("fd-multi", c)
	desc := func(fo firstOrder, h float64) string {
		return fmt.Sprintf("%s n=%d formula=%s step=%v known=%v %s x=%v seed=%d", fn, n, fo.name, h, c.Known, mode, x, c.Seed)
	}
	var calls atomic.Int64
	xin := append([]float64(nil), x...)

	switch c.Fn {
	case 0: // Gradient on a quadratic: exact gradient + b_ii h M2
		fo := firstOrders[c.Formula]
		q := newQuadCubic(r, n, false)
		set, formula, h := makeSettings(fo, c, q.eval(x), false)
		f := func(t []float64) float64 { calls.Add(1); return q.eval(t) }
		dst := make([]float64, n)
		for i := range dst {
			dst[i] = math.NaN()
		}
		var got []float64
		if c.StepExp%2 == 0 {
			got = fd.Gradient(dst, f, xin, set)
			if &got[0] != &dst[0] {
				return vk.Failf("gradient-dst-not-reused", "%s: result is not stored in dst", desc(fo, h))
			}
		} else {
			got = fd.Gradient(nil, f, xin, set)
		}
		g := q.grad(x)
		for i := range g {
			want := g[i] + q.b[i][i]*h*fo.m2
			if vk.Ulps(got[i], want) > 4 {
				return vk.Failf("gradient-"+mode, "%s: component %d got %v want %v", desc(fo, h), i, got[i], want)
			}
		}
		z := stencilZeros(formula)
		want := int64(n * (len(formula.Stencil) - z))
		if z > 0 && !c.Known {
			want++
		}
		if calls.Load() != want {
			return vk.Failf("gradient-eval-count-"+mode, "%s: %d evaluations, want %d", desc(fo, h), calls.Load(), want)
		}

	case 1: // Jacobian of m quadratics, and of the analytic gradient (= Hessian)
		fo := firstOrders[c.Formula]
		m := c.M
		qs := make([]quadCubic, m)
		for k := range qs {
			qs[k] = newQuadCubic(r, n, false)
		}
		h := math.Ldexp(1, c.StepExp)
		formula := fo.f()
		formula.Stencil = append([]fd.Point(nil), formula.Stencil...)
		set := &fd.JacobianSettings{Formula: formula, Concurrent: c.Conc}
		if c.StepIn == 0 {
			set.Step = h
		} else {
			set.Formula.Step = h
		}
		if c.Known {
			set.OriginValue = make([]float64, m)
			for k := range qs {
				set.OriginValue[k] = qs[k].eval(x)
			}
		}
		F := func(y, t []float64) {
			calls.Add(1)
			for k := range qs {
				y[k] = qs[k].eval(t)
			}
		}
		dst := mat.NewDense(m, n, nil)
		for i := 0; i < m; i++ {
			for j := 0; j < n; j++ {
				dst.Set(i, j, math.NaN())
			}
		}
		fd.Jacobian(dst, F, xin, set)
		for k := range qs {
			g := qs[k].grad(x)
			for j := 0; j < n; j++ {
				want := g[j] + qs[k].b[j][j]*h*fo.m2
				if vk.Ulps(dst.At(k, j), want) > 4 {
					return vk.Failf("jacobian-"+mode, "%s m=%d: J[%d,%d] got %v want %v", desc(fo, h), m, k, j, dst.At(k, j), want)
				}
			}
		}
		z := stencilZeros(formula)
		want := int64(n * (len(formula.Stencil) - z))
		if z > 0 && !c.Known {
			want++
		}
		if calls.Load() != want {
			return vk.Failf("jacobian-eval-count-"+mode, "%s m=%d: %d evaluations, want %d", desc(fo, h), m, calls.Load(), want)
		}
		// Jacobian of the exact gradient of a quadratic is its Hessian, for
		// every formula (the gradient is linear)
		q := qs[0]
		G := func(y, t []float64) { copy(y, q.grad(t)) }
		set.OriginValue = nil
		J := mat.NewDense(n, n, nil)
		fd.Jacobian(J, G, xin, set)
		for i := 0; i < n; i++ {
			for j := 0; j < n; j++ {
				if vk.Ulps(J.At(i, j), q.hess(x, i, j)) > 4 {
					return vk.Failf("jacobian-of-gradient-not-hessian", "%s: J[%d,%d]=%v Hessian %v", desc(fo, h), i, j, J.At(i, j), q.hess(x, i, j))
				}
			}
		}

	case 2: // Hessian on quadratic + separable cubic: exact Hessian + 6 d_i h M2 on the diagonal
		fo := firstOrders[c.Formula]
		q := newQuadCubic(r, n, true)
		set, formula, h := makeSettings(fo, c, q.eval(x), true)
		f := func(t []float64) float64 { calls.Add(1); return q.eval(t) }
		var dst *mat.SymDense
		if c.StepExp%2 == 0 {
			dst = mat.NewSymDense(n, nil)
			for i := 0; i < n; i++ {
				for j := i; j < n; j++ {
					dst.SetSym(i, j, math.NaN())
				}
			}
		} else {
			dst = &mat.SymDense{} // empty: resized by Hessian
		}
		fd.Hessian(dst, f, xin, set)
		if dst.SymmetricDim() != n {
			return vk.Failf("hessian-dst-size", "%s: dst has dimension %d", desc(fo, h), dst.SymmetricDim())
		}
		trace := 0.0
		for i := 0; i < n; i++ {
			for j := i; j < n; j++ {
				want := q.hess(x, i, j)
				if i == j {
					want += 6 * q.d[i] * h * fo.m2
					trace += dst.At(i, i)
				}
				if vk.Ulps(dst.At(i, j), want) > 4 {
					return vk.Failf("hessian-"+mode, "%s: H[%d,%d] got %v want %v", desc(fo, h), i, j, dst.At(i, j), want)
				}
			}
		}
		z := stencilZeros(formula)
		s := len(formula.Stencil)
		want := int64(n * (n + 1) / 2 * (s*s - z*z))
		if z > 0 && !c.Known {
			want++
		}
		if calls.Load() != want {
			return vk.Failf("hessian-eval-count-"+mode, "%s: %d evaluations, want %d", desc(fo, h), calls.Load(), want)
		}
		// trace(Hessian) == Laplacian with the composed second-derivative
		// formula: Forward∘Forward = Forward2nd, Backward∘Backward =
		// Backward2nd at the same step, Central∘Central = Central2nd at twice
		// the step.
		if c.Formula <= 2 {
			so := secondOrders[c.Formula]
			lstep := h
			if c.Formula == 2 {
				lstep = 2 * h
			}
			lap := fd.Laplacian(func(t []float64) float64 { return q.eval(t) }, xin, &fd.Settings{Formula: so.f(), Step: lstep})
			if vk.Ulps(lap, trace) > 4*int64(n) {
				return vk.Failf("hessian-trace-not-laplacian", "%s: trace(Hessian)=%v Laplacian(%s, step %v)=%v", desc(fo, h), trace, so.name, lstep, lap)
			}
		}

	case 3: // Laplacian on quadratic + separable cubic: sum(2 b_ii + 6 d_i x_i) + sum d_i h M3
		so := secondOrders[c.Formula%3]
		q := newQuadCubic(r, n, true)
		set, formula, h := makeSettings(so, c, q.eval(x), false)
		f := func(t []float64) float64 { calls.Add(1); return q.eval(t) }
		got := fd.Laplacian(f, xin, set)
		want := 0.0
		for i := 0; i < n; i++ {
			want += q.hess(x, i, i) + q.d[i]*h*so.m2
		}
		if vk.Ulps(got, want) > 4*int64(n) {
			return vk.Failf("laplacian-"+mode, "%s: got %v want %v", desc(so, h), got, want)
		}
		z := stencilZeros(formula)
		wantCalls := int64(n * (len(formula.Stencil) - z))
		if z > 0 && !c.Known {
			wantCalls++
		}
		if calls.Load() != wantCalls {
			key := "laplacian-eval-count-" + mode
			if c.Known {
				key = "laplacian-originknown-eval-count-" + mode
			}
			return vk.Failf(key, "%s: %d evaluations of f, want %d (n*(points off the origin)%s)", desc(so, h), calls.Load(), wantCalls, map[bool]string{true: "; OriginKnown is set, f must not be evaluated at x", false: " + 1 at the origin"}[c.Known])
		}

	default: // CrossLaplacian
		fo := firstOrders[c.Formula]
		y := fcoords(c.Y)
		p := make([]float64, n)
		s := make([]float64, n)
		qa := make([]float64, n)
		ra := make([]float64, n)
		tt := make([][]float64, n)
		for i := 0; i < n; i++ {
			p[i] = float64(r.Intn(9) - 4)
			s[i] = float64(r.Intn(7) - 3)
			qa[i] = float64(r.Intn(9) - 4)
			ra[i] = float64(r.Intn(9) - 4)
			tt[i] = make([]float64, n)
			for j := range tt[i] {
				if j != i {
					tt[i][j] = float64(r.Intn(5) - 2)
				}
			}
		}
		eval := func(u, v []float64) float64 {
			acc := 0.0
			for i := range u {
				acc += p[i]*u[i]*v[i] + qa[i]*u[i] + ra[i]*v[i] + s[i]*u[i]*u[i]*v[i]
				for j := range v {
					acc += tt[i][j] * u[i] * v[j]
				}
			}
			return acc
		}
		set, formula, h := makeSettings(fo, c, eval(x, y), true)
		f := func(u, v []float64) float64 { calls.Add(1); return eval(u, v) }
		yin := append([]float64(nil), y...)
		got := fd.CrossLaplacian(f, xin, yin, set)
		want := 0.0
		for i := 0; i < n; i++ {
			want += p[i] + 2*s[i]*x[i] + s[i]*h*fo.m2
		}
		if vk.Ulps(got, want) > 4*int64(n) {
			return vk.Failf("crosslaplacian-"+mode, "%s y=%v: got %v want %v", desc(fo, h), y, got, want)
		}
		z := stencilZeros(formula)
		sl := len(formula.Stencil)
		wantCalls := int64(n * (sl*sl - z*z))
		if z > 0 && !c.Known {
			wantCalls++
		}
		if calls.Load() != wantCalls {
			key := "crosslaplacian-eval-count-" + mode
			if c.Known {
				key = "crosslaplacian-originknown-eval-count-" + mode
			}
			return vk.Failf(key, "%s: %d evaluations of f, want %d", desc(fo, h), calls.Load(), wantCalls)
		}
		if !sameSlice(yin, y) {
			return vk.Failf("input-modified", "%s: y modified", desc(fo, h))
		}
	}
	if !sameSlice(xin, x) {
		return vk.Failf("input-modified", "%s: x modified", fn)
	}
	return nil
}

func TestFDMulti(t *testing.T) {
	vk.Run(t, "fd-multi", vk.Opts{Quick: 10000, Thorough: 1000000, NoCrumb: true}, func(t *rapid.T) multiCase {
		n := vk.Dim(t, "n", 1, 8, 2)
		c := multiCase{
			N:       n,
			M:       rapid.IntRange(1, 6).Draw(t, "m"),
			Formula: rapid.IntRange(0, len(firstOrders)-1).Draw(t, "formula"),
			StepExp: rapid.IntRange(-3, 1).Draw(t, "stepexp"),
			StepIn:  rapid.IntRange(0, 1).Draw(t, "stepin"),
			Seed:    rapid.Uint64().Draw(t, "seed"),
			Known:   rapid.Bool().Draw(t, "known"),
			Conc:    rapid.Bool().Draw(t, "conc"),
			Fn:      rapid.IntRange(0, 4).Draw(t, "fn"),
		}
		c.X = rapid.SliceOfN(rapid.IntRange(-32, 32), n, n).Draw(t, "x")
		if c.Fn == 4 {
			c.Y = rapid.SliceOfN(rapid.IntRange(-32, 32), n, n).Draw(t, "y")
		}
		return c
	}, checkMulti)
}

// ---- documented panics and the default settings -----------------------------

type fdPanicCase struct {
	N    int
	Kind int
}

func checkFDPanics(c fdPanicCase) *vk.Failure {
	n := c.N
	x := make([]float64, n)
	f := func(t []float64) float64 { return t[0] }
	f2 := func(u, v []float64) float64 { return u[0] * v[0] }
	vk.Class(fmt.Sprintf("fd-panics:kind=%d", c.Kind))
	vk.Sample("fd-panics", c)
	second := &fd.Settings{Formula: fd.Central2nd}
	first := &fd.Settings{Formula: fd.Central}
	switch c.Kind {
	case 0: // bad formulas
		for i, bad := range []fd.Formula{
			{Stencil: fd.Forward.Stencil, Derivative: 0, Step: 1},
			{Stencil: nil, Derivative: 1, Step: 1},
			{Stencil: fd.Forward.Stencil, Derivative: 1, Step: 0},
			{Stencil: fd.Forward.Stencil, Derivative: 1, Step: -1},
		} {
			s := &fd.Settings{Formula: bad}
			if fl := vk.MustPanic(fmt.Sprintf("derivative-bad-formula-%d", i), func() { fd.Derivative(math.Sin, 1, s) }); fl != nil {
				return fl
			}
			if fl := vk.MustPanic(fmt.Sprintf("gradient-bad-formula-%d", i), func() { fd.Gradient(nil, f, x, s) }); fl != nil {
				return fl
			}
		}
	case 1: // derivative order of the formula
		if fl := vk.MustPanic("gradient-order-2", func() { fd.Gradient(nil, f, x, second) }); fl != nil {
			return fl
		}
		if fl := vk.MustPanic("jacobian-order-2", func() {
			fd.Jacobian(mat.NewDense(1, n, nil), func(y, t []float64) { y[0] = t[0] }, x, &fd.JacobianSettings{Formula: fd.Central2nd})
		}); fl != nil {
			return fl
		}
		if fl := vk.MustPanic("hessian-order-2", func() { fd.Hessian(mat.NewSymDense(n, nil), f, x, second) }); fl != nil {
			return fl
		}
		if fl := vk.MustPanic("laplacian-order-1", func() { fd.Laplacian(f, x, first) }); fl != nil {
			return fl
		}
		if fl := vk.MustPanic("crosslaplacian-order-2", func() { fd.CrossLaplacian(f2, x, x, second) }); fl != nil {
			return fl
		}
	case 2: // sizes
		if fl := vk.MustPanic("gradient-dst-length", func() { fd.Gradient(make([]float64, n+1), f, x, nil) }); fl != nil {
			return fl
		}
		if fl := vk.MustPanic("jacobian-dst-columns", func() {
			fd.Jacobian(mat.NewDense(2, n+1, nil), func(y, t []float64) {}, x, nil)
		}); fl != nil {
			return fl
		}
		if fl := vk.MustPanic("jacobian-origin-length", func() {
			fd.Jacobian(mat.NewDense(2, n, nil), func(y, t []float64) {}, x, &fd.JacobianSettings{OriginValue: make([]float64, 3)})
		}); fl != nil {
			return fl
		}
		if fl := vk.MustPanic("hessian-dst-size", func() { fd.Hessian(mat.NewSymDense(n+1, nil), f, x, nil) }); fl != nil {
			return fl
		}
		if fl := vk.MustPanic("crosslaplacian-length-mismatch", func() { fd.CrossLaplacian(f2, x, make([]float64, n+1), nil) }); fl != nil {
			return fl
		}
		if fl := vk.MustPanic("laplacian-empty", func() { fd.Laplacian(f, nil, nil) }); fl != nil {
			return fl
		}
		if fl := vk.MustPanic("crosslaplacian-empty", func() { fd.CrossLaplacian(f2, nil, nil, nil) }); fl != nil {
			return fl
		}
		if fl := vk.MustPanic("jacobian-empty-x", func() { fd.Jacobian(mat.NewDense(1, 1, nil), func(y, t []float64) {}, nil, nil) }); fl != nil {
			return fl
		}
	case 3: // negative Settings.Step where the argument check exists
		neg := &fd.Settings{Step: -1}
		if fl := vk.MustPanic("hessian-negative-step", func() { fd.Hessian(mat.NewSymDense(n, nil), f, x, neg) }); fl != nil {
			return fl
		}
		if fl := vk.MustPanic("laplacian-negative-step", func() { fd.Laplacian(f, x, neg) }); fl != nil {
			return fl
		}
		if fl := vk.MustPanic("crosslaplacian-negative-step", func() { fd.CrossLaplacian(f2, x, x, neg) }); fl != nil {
			return fl
		}
	default: // nil settings: Forward with the default step on a linear function
		slope := float64(n)
		lin := func(t float64) float64 { return slope*t + 1 }
		got := fd.Derivative(lin, float64(c.Kind), nil)
		if math.Abs(got-slope) > 1e-6*slope*(1+float64(c.Kind)) {
			return vk.Failf("derivative-default-settings", "Derivative(nil settings) of %v*t+1 at %d = %v", slope, c.Kind, got)
		}
		g := fd.Gradient(nil, func(t []float64) float64 {
			s := 0.0
			for i, v := range t {
				s += float64(i+1) * v
			}
			return s
		}, x, nil)
		for i := range g {
			if math.Abs(g[i]-float64(i+1)) > 1e-6*float64(i+1) {
				return vk.Failf("gradient-default-settings", "Gradient(nil settings) component %d = %v want %d", i, g[i], i+1)
			}
		}
		// Laplacian default (Central2nd, step 1e-4) on sum x_i^2 at 0: 2n
		lap := fd.Laplacian(func(t []float64) float64 {
			s := 0.0
			for _, v := range t {
				s += v * v
			}
			return s
		}, x, nil)
		if math.Abs(lap-2*float64(n)) > 1e-6*float64(n) {
			return vk.Failf("laplacian-default-settings", "Laplacian(nil settings) of sum x^2 = %v want %d", lap, 2*n)
		}
	}
	return nil
}

func TestFDPanics(t *testing.T) {
	vk.Run(t, "fd-panics", vk.Opts{Quick: 400, Thorough: 4000, NoCrumb: true}, func(t *rapid.T) fdPanicCase {
		return fdPanicCase{N: rapid.IntRange(1, 8).Draw(t, "n"), Kind: rapid.IntRange(0, 6).Draw(t, "kind")}
	}, checkFDPanics)
}
