// Package c18 checks property C18: quadrature, differentiation and
// interpolation are exact on their design classes; dual, hyperdual, quaternion
// and dual-quaternion arithmetic obey their algebraic laws.
package c18

import (
	"testing"

	"verifharness/vk"
)

func TestMain(m *testing.M) { vk.Main(m, "C18") }
