package c18

import (
	"fmt"
	"math"
	"testing"

	"gonum.org/v1/gonum/diff/fd"
	"gonum.org/v1/gonum/mat"
	"pgregory.net/rapid"
	"verifharness/vk"
)

// mutCase: the callback overwrites its argument after computing its value.
// Every routine hands the callback copies of x ("protects against the function
// modifying the input data"), so the result must equal the result with a pure
// callback bit for bit, serially and concurrently, and the caller's x must be
// unchanged.
type mutCase struct{ M multiCase }

func checkMutating(c mutCase) *vk.Failure {
	mc := c.M
	n := mc.N
	x := fcoords(mc.X)
	r := vk.NewSplitMix(mc.Seed)
	fn := []string{"gradient", "jacobian", "hessian", "laplacian", "crosslaplacian"}[mc.Fn]
	mode := "serial"
	if mc.Conc {
		mode = "concurrent"
	}
	vk.Class("fd-mutating-f:" + fn + "," + mode)
	vk.NonTrivial("fd-mut", mc.Fn, n, mc.M, mc.Formula, fmt.Sprint(mc.X), fmt.Sprint(mc.Y), mc.StepExp, mc.Seed, mc.Known, mc.Conc)
	vk.Sample("fd-mutating-f", c)
	scribble := func(v []float64) {
		for i := range v {
			v[i] = 1e6 + float64(i)
		}
	}
	fo := firstOrders[mc.Formula]
	if mc.Fn == 3 {
		fo = secondOrders[mc.Formula%3]
	}
	xin := append([]float64(nil), x...)
	key := fn + "-" + mode
	desc := fmt.Sprintf("%s n=%d formula=%s known=%v %s x=%v seed=%d", fn, n, fo.name, mc.Known, mode, x, mc.Seed)
	fail := func(pure, got any) *vk.Failure {
		return vk.Failf("callback-modifies-argument/"+key, "%s: with a callback that overwrites its argument the result is %v, with a pure callback %v (caller's x afterwards %v)", desc, got, pure, xin)
	}
	switch mc.Fn {
	case 0:
		q := newQuadCubic(r, n, false)
		set, _, _ := makeSettings(fo, mc, q.eval(x), false)
		pure := fd.Gradient(nil, q.eval, x, set)
		got := fd.Gradient(nil, func(t []float64) float64 { v := q.eval(t); scribble(t); return v }, xin, set)
		if !sameSlice(pure, got) || !sameSlice(xin, x) {
			return fail(pure, got)
		}
	case 1:
		q := newQuadCubic(r, n, false)
		h := math.Ldexp(1, mc.StepExp)
		set := &fd.JacobianSettings{Formula: fo.f(), Step: h, Concurrent: mc.Conc}
		if mc.Known {
			set.OriginValue = []float64{q.eval(x)}
		}
		pure, got := mat.NewDense(1, n, nil), mat.NewDense(1, n, nil)
		fd.Jacobian(pure, func(y, t []float64) { y[0] = q.eval(t) }, x, set)
		fd.Jacobian(got, func(y, t []float64) { y[0] = q.eval(t); scribble(t) }, xin, set)
		if !mat.Equal(pure, got) || !sameSlice(xin, x) {
			return fail(mat.Formatted(pure), mat.Formatted(got))
		}
	case 2:
		q := newQuadCubic(r, n, true)
		set, _, _ := makeSettings(fo, mc, q.eval(x), true)
		pure, got := mat.NewSymDense(n, nil), mat.NewSymDense(n, nil)
		fd.Hessian(pure, q.eval, x, set)
		fd.Hessian(got, func(t []float64) float64 { v := q.eval(t); scribble(t); return v }, xin, set)
		if !mat.Equal(pure, got) || !sameSlice(xin, x) {
			return fail(mat.Formatted(pure), mat.Formatted(got))
		}
	case 3:
		q := newQuadCubic(r, n, true)
		set, _, _ := makeSettings(fo, mc, q.eval(x), false)
		pure := fd.Laplacian(q.eval, x, set)
		got := fd.Laplacian(func(t []float64) float64 { v := q.eval(t); scribble(t); return v }, xin, set)
		if !vk.SameBits(pure, got) || !sameSlice(xin, x) {
			return fail(pure, got)
		}
	default:
		y := fcoords(mc.Y)
		yin := append([]float64(nil), y...)
		ev := func(u, v []float64) float64 {
			s := 0.0
			for i := range u {
				s += float64(i+1)*u[i]*v[i] + u[i]*u[i]*v[i] + 3*u[i] - 2*v[i]
			}
			return s
		}
		set, _, _ := makeSettings(fo, mc, ev(x, y), true)
		pure := fd.CrossLaplacian(ev, x, y, set)
		got := fd.CrossLaplacian(func(u, v []float64) float64 { s := ev(u, v); scribble(u); scribble(v); return s }, xin, yin, set)
		if !vk.SameBits(pure, got) || !sameSlice(xin, x) || !sameSlice(yin, y) {
			return fail(pure, got)
		}
	}
	return nil
}

func TestFDMutatingCallback(t *testing.T) {
	vk.Run(t, "fd-mutating-f", vk.Opts{Quick: 2500, Thorough: 100000, NoCrumb: true}, func(t *rapid.T) mutCase {
		n := vk.Dim(t, "n", 1, 5, 2)
		mc := multiCase{
			N:       n,
			M:       1,
			Formula: rapid.IntRange(0, len(firstOrders)-1).Draw(t, "formula"),
			StepExp: rapid.IntRange(-3, 1).Draw(t, "stepexp"),
			Seed:    rapid.Uint64().Draw(t, "seed"),
			Known:   rapid.Bool().Draw(t, "known"),
			Conc:    rapid.Bool().Draw(t, "conc"),
			Fn:      rapid.IntRange(0, 4).Draw(t, "fn"),
		}
		mc.X = rapid.SliceOfN(rapid.IntRange(-32, 32), n, n).Draw(t, "x")
		mc.Y = rapid.SliceOfN(rapid.IntRange(-32, 32), n, n).Draw(t, "y")
		return mutCase{M: mc}
	}, checkMutating)
}
