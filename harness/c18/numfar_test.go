package c18

import (
	"math"
	"testing"

	"gonum.org/v1/gonum/num/dual"
	"gonum.org/v1/gonum/num/hyperdual"
	"pgregory.net/rapid"
	"verifharness/vk"
)

// ---- saturating elementary functions far from the origin -----------------------------
//
// (added after seeded change C18-16: a "gradual underflow" branch of dual.Tanh that is only
// taken once 1-tanh² has cancelled completely, i.e. for |x| > 19, and is wrong for negative x.)
// The general elementary-function check keeps the real part within a few units of the origin so
// that closed-form derivatives can be compared with a relative tolerance. For the functions
// whose derivative decays monotonically (tanh, atan, asinh) the derivative is known stably for
// every finite argument, so the dual and hyperdual liftings are checked out to |x| = 700 with an
// absolute tolerance of a few ulps of 1 (1-tanh² is computed by cancellation) plus a relative one.

const eps = 2.220446049250313e-16

type farCase struct {
	Fn  int
	X   vk.F
	Eps vk.F
}

var farFns = []struct {
	name string
	f    func(float64) float64
	d1   func(float64) float64
	du   func(dual.Number) dual.Number
	hy   func(hyperdual.Number) hyperdual.Number
}{
	{"Tanh", math.Tanh, func(x float64) float64 {
		e := math.Exp(-2 * math.Abs(x))
		return 4 * e / ((1 + e) * (1 + e))
	}, dual.Tanh, hyperdual.Tanh},
	{"Atan", math.Atan, func(x float64) float64 { return 1 / (1 + x*x) }, dual.Atan, hyperdual.Atan},
	{"Asinh", math.Asinh, func(x float64) float64 { return 1 / math.Hypot(1, x) }, dual.Asinh, hyperdual.Asinh},
}

func checkFar(c farCase) *vk.Failure {
	fn := farFns[c.Fn]
	x, e := float64(c.X), float64(c.Eps)
	if math.Abs(x) > 19 {
		vk.NonTrivial("elem-far", c.Fn, x, e)
	}
	vk.Sample("elem-far", c)
	want := fn.d1(x) * e
	tol := 8*eps*math.Abs(e) + 1e-13*math.Abs(want)
	d := fn.du(dual.Number{Real: x, Emag: e})
	if !(math.Abs(d.Real-fn.f(x)) <= 4*eps*math.Abs(fn.f(x))) {
		return vk.Failf("elem-far/"+fn.name+"/dual-real", "x=%v got %v want %v", x, d.Real, fn.f(x))
	}
	if !(math.Abs(d.Emag-want) <= tol) {
		return vk.Failf("elem-far/"+fn.name+"/dual-derivative", "x=%v eps=%v: dual part %v, f'(x)*eps = %v (tol %g)", x, e, d.Emag, want, tol)
	}
	h := fn.hy(hyperdual.Number{Real: x, E1mag: e, E2mag: 1})
	if !(math.Abs(h.E1mag-want) <= tol) || !(math.Abs(h.E2mag-fn.d1(x)) <= 8*eps+1e-13*fn.d1(x)) {
		return vk.Failf("elem-far/"+fn.name+"/hyperdual-derivative", "x=%v eps=%v: e1 %v e2 %v, f'(x) = %v", x, e, h.E1mag, h.E2mag, fn.d1(x))
	}
	return nil
}

func TestElemFar(t *testing.T) {
	vk.Run(t, "elem-far", vk.Opts{Quick: 6000, Thorough: 120000, NoCrumb: true}, func(t *rapid.T) farCase {
		x := rapid.Float64Range(3, 700).Draw(t, "x")
		if rapid.Bool().Draw(t, "near") {
			x = rapid.Float64Range(15, 25).Draw(t, "xn")
		}
		if rapid.Bool().Draw(t, "neg") {
			x = -x
		}
		return farCase{
			Fn:  rapid.IntRange(0, len(farFns)-1).Draw(t, "fn"),
			X:   vk.F(x),
			Eps: vk.F(rapid.SampledFrom([]float64{1, -1, 0.5, 3}).Draw(t, "eps")),
		}
	}, checkFar)
}
