package c18

import (
	"fmt"
	"math"
	"testing"

	"gonum.org/v1/gonum/integrate/quad"
	"pgregory.net/rapid"
	"verifharness/vk"
)

// ---- Gauss-Legendre ---------------------------------------------------------

// legCase: n-point Gauss-Legendre rule on [A,B]; the monomials
// ((x-mid)/half)^d, d in Degs, must integrate exactly.
type legCase struct {
	N    int
	A, B vk.F
	Degs []int
	Conc int // concurrency argument of quad.Fixed
}

// legendreP returns P_n(t) and P_n'(t) by the three-term recurrence (stable for
// |t| < 1); at a root of P_n the derivative formula has no cancellation.
func legendreP(n int, t float64) (p, dp float64) {
	if n == 0 {
		return 1, 0
	}
	p0, p1 := 1.0, t
	for k := 1; k < n; k++ {
		p0, p1 = p1, ((2*float64(k)+1)*t*p1-float64(k)*p0)/float64(k+1)
	}
	return p1, float64(n) * (p0 - t*p1) / (1 - t*t)
}

func legKey(n int, base string) string {
	if n <= 100 {
		return fmt.Sprintf("%s/n=%d", base, n)
	}
	return base + "/asymptotic"
}

func checkLegendre(c legCase) *vk.Failure {
	n, a, b := c.N, float64(c.A), float64(c.B)
	width := b - a // exact by construction of the generators
	half := width / 2
	M := math.Max(math.Abs(a), math.Abs(b))
	off := M / half // >= 1; size of the interval offset relative to its width
	branch := "tabulated"
	if n > 100 {
		branch = "asymptotic"
	}
	vk.Class("legendre:" + branch)
	if off > 4 {
		vk.Class("legendre:offset-interval")
	}
	if n > 100 || off > 4 {
		vk.NonTrivial("legendre", n, a, b)
	}
	vk.Sample("quad-legendre", c)

	x := make([]float64, n)
	w := make([]float64, n)
	if f := vk.MustReturn(legKey(n, "fixedlocations-panics"), func() { quad.Legendre{}.FixedLocations(x, w, a, b) }); f != nil {
		return f
	}
	// positivity, location, strict monotonicity (the order itself is not
	// documented: the implementation returns nodes from max down to min).
	for i := range x {
		if !(w[i] > 0) {
			return vk.Failf(legKey(n, "weight-not-positive"), "n=%d [%v,%v]: weight[%d]=%v", n, a, b, i, w[i])
		}
		if !(x[i] > a && x[i] < b) {
			return vk.Failf(legKey(n, "node-outside-interval"), "n=%d [%v,%v]: x[%d]=%v", n, a, b, i, x[i])
		}
	}
	if n >= 2 {
		dir := x[1] > x[0]
		for i := 1; i < n; i++ {
			if x[i] == x[i-1] || (x[i] > x[i-1]) != dir {
				return vk.Failf(legKey(n, "nodes-not-strictly-monotone"), "n=%d [%v,%v]: x[%d]=%v x[%d]=%v", n, a, b, i-1, x[i-1], i, x[i])
			}
		}
	}
	// sum of weights = b-a
	var sw vk.DD
	for _, v := range w {
		sw.Add(v)
	}
	if d := math.Abs(sw.Float()-width) / width; d > 1e-13 {
		return vk.Failf(legKey(n, "weight-sum"), "n=%d [%v,%v]: sum w=%v want %v (rel %.3g)", n, a, b, sw.Float(), width, d)
	}
	// symmetry about the midpoint. Node rounding: the unit-interval node has
	// error <= 4 eps, the map to [a,b] adds <= 3 eps M.
	for k := 0; k < n; k++ {
		var s vk.DD
		s.Add(x[k])
		s.Add(x[n-1-k])
		s.Add(-a)
		s.Add(-b)
		tol := vk.Eps * (16*half + 8*M)
		calib("leg-sym-x", math.Abs(s.Float())/tol)
		if math.Abs(s.Float()) > tol {
			return vk.Failf(legKey(n, "nodes-not-symmetric"), "n=%d [%v,%v]: x[%d]+x[%d]-(a+b)=%v tol %v", n, a, b, k, n-1-k, s.Float(), tol)
		}
		if vk.Ulps(w[k], w[n-1-k]) > 4 {
			return vk.Failf(legKey(n, "weights-not-symmetric"), "n=%d [%v,%v]: w[%d]=%v w[%d]=%v", n, a, b, k, w[k], n-1-k, w[n-1-k])
		}
	}
	// FixedLocationSingle is the same computation
	for k := 0; k < n; k++ {
		xs, ws := quad.Legendre{}.FixedLocationSingle(n, k, a, b)
		if !vk.SameBits(xs, x[k]) || !vk.SameBits(ws, w[k]) {
			return vk.Failf(legKey(n, "single-differs-from-bulk"), "n=%d k=%d [%v,%v]: single (%v,%v) bulk (%v,%v)", n, k, a, b, xs, ws, x[k], w[k])
		}
	}
	// normalised nodes t in (-1,1), from a double-double numerator
	t := make([]float64, n)
	for i := range x {
		var num vk.DD
		num.Add(x[i])
		num.Add(x[i])
		num.Add(-a)
		num.Add(-b)
		t[i] = num.Float() / width
	}
	// every node is a root of P_n and every weight the Christoffel number
	// 2/((1-t^2) P_n'(t)^2). Tolerances (calibrated on the unchanged tree,
	// observed maxima in brackets): Newton correction |P_n/P_n'| <= 36 eps
	// [5.5 eps] plus the interval-map rounding 4 eps M/half; weights relative
	// (64 + 16|t|/(1-t^2) (1+M/half)) 2eps [ratio 0.35], the second term being
	// the sensitivity of the formula to the node rounding.
	for i := range t {
		p, dp := legendreP(n, t[i])
		step := math.Abs(p / dp)
		tolN := vk.Eps * (36 + 4*off)
		calib("leg-node", step/tolN)
		if !(step <= tolN) {
			return vk.Failf(legKey(n, "node-not-root-of-Pn"), "n=%d [%v,%v] i=%d: t=%v Newton correction %v tol %v", n, a, b, i, t[i], step, tolN)
		}
		wr := 2 / ((1 - t[i]*t[i]) * dp * dp)
		wn := w[i] / half
		tolW := 2 * vk.Eps * (64 + 16*math.Abs(t[i])/(1-t[i]*t[i])*(1+off))
		calib("leg-weight", math.Abs(wn-wr)/wr/tolW)
		if !(math.Abs(wn-wr) <= tolW*wr) {
			return vk.Failf(legKey(n, "weight-not-christoffel"), "n=%d [%v,%v] i=%d: t=%v w/half=%v want %v rel %.3g tol %.3g", n, a, b, i, t[i], wn, wr, math.Abs(wn-wr)/wr, tolW)
		}
	}
	// exactness on monomials of the normalised variable
	for _, d := range c.Degs {
		if d > 2*n-1 {
			continue
		}
		if d == 2*n-1 || d == 2*n-2 {
			vk.Class("legendre:degree-at-exactness-boundary")
			vk.NonTrivial("legendre-deg", n, d, a, b)
		}
		var s vk.DD
		for i := range t {
			s.AddProd(w[i], math.Pow(t[i], float64(d)))
		}
		want := 0.0
		if d%2 == 0 {
			want = width / float64(d+1)
		}
		// 500 eps (b-a) for the rule itself plus the effect of the node
		// rounding d*|dt| with |dt| <= 4 eps (1+M/half).
		tol := vk.Eps * width * (500 + 8*float64(d)*(1+off))
		calib("leg-moment", math.Abs(s.Float()-want)/tol)
		if !(math.Abs(s.Float()-want) <= tol) {
			return vk.Failf(legKey(n, "monomial-not-exact"), "n=%d [%v,%v] degree %d: got %v want %v (err %.3g tol %.3g)", n, a, b, d, s.Float(), want, s.Float()-want, tol)
		}
	}
	// quad.Fixed with the Legendre rule (single-location path) and with the
	// default rule (nil on a finite interval) on the last sampled monomial.
	if len(c.Degs) > 0 {
		d := c.Degs[len(c.Degs)-1]
		if d > 2*n-1 {
			d = 2*n - 1
		}
		mid := a + half
		f := func(x float64) float64 { return math.Pow((x-mid)/half, float64(d)) }
		want := 0.0
		if d%2 == 0 {
			want = width / float64(d+1)
		}
		tol := vk.Eps * width * (500 + float64(n) + 16*float64(d)*(1+off))
		for _, rule := range []quad.FixedLocationer{quad.Legendre{}, nil} {
			got := quad.Fixed(f, a, b, n, rule, c.Conc)
			calib("leg-fixed", math.Abs(got-want)/tol)
			if !(math.Abs(got-want) <= tol) {
				return vk.Failf(legKey(n, "fixed-monomial-not-exact"), "quad.Fixed n=%d [%v,%v] degree %d rule=%T concurrent=%d: got %v want %v tol %.3g", n, a, b, d, rule, c.Conc, got, want, tol)
			}
		}
	}
	return nil
}

func allDegs(n, cap int) []int {
	m := 2*n - 1
	if m > cap {
		m = cap
	}
	d := make([]int, 0, m+1)
	for k := 0; k <= m; k++ {
		d = append(d, k)
	}
	return d
}

// drawInterval draws [a,b] with exactly representable a, b and b-a: unit,
// positive, negative, straddling, tiny/huge scale, and offsets up to 2^20
// widths away from the origin.
func drawInterval(t *rapid.T) (a, b float64) {
	switch rapid.IntRange(0, 9).Draw(t, "ivl_cls") {
	case 0:
		return -1, 1
	case 1:
		return 0, 1
	}
	e := 0
	switch rapid.IntRange(0, 3).Draw(t, "scale_cls") {
	case 0:
		e = rapid.IntRange(-400, 400).Draw(t, "scale_exp")
	case 1:
		e = rapid.IntRange(-12, 12).Draw(t, "scale_exp_small")
	}
	s := 0
	if rapid.Bool().Draw(t, "offset") {
		s = rapid.IntRange(1, 20).Draw(t, "offset_bits")
	}
	k := rapid.IntRange(-128, 128).Draw(t, "a_num")
	j := rapid.IntRange(1, 64).Draw(t, "width_num")
	a = math.Ldexp(float64(k), e-4)
	b = math.Ldexp(float64(k)*math.Ldexp(1, s)+float64(j), e-4-s)
	return a, b
}

func TestLegendre(t *testing.T) {
	// every n in 1..300 on [-1,1], all degrees up to min(2n-1, 60)
	maxN := 300
	vk.Enumerate(t, "quad-legendre", maxN, func(i int) legCase {
		n := i + 1
		return legCase{N: n, A: -1, B: 1, Degs: allDegs(n, 60), Conc: (n % 3) * 2}
	}, checkLegendre)
	vk.Run(t, "quad-legendre", vk.Opts{Quick: 3000, Thorough: 200000, NoCrumb: true}, func(t *rapid.T) legCase {
		n := vk.Dim(t, "n", 1, 300, 30, 100, 101, 200)
		a, b := drawInterval(t)
		var degs []int
		if n <= 30 {
			degs = allDegs(n, 60)
		} else {
			degs = rapid.SliceOfN(rapid.IntRange(0, 60), 4, 12).Draw(t, "degs")
			degs = append(degs, 60)
		}
		return legCase{N: n, A: vk.F(a), B: vk.F(b), Degs: degs, Conc: rapid.SampledFrom([]int{0, 0, 1, 3, 400}).Draw(t, "conc")}
	}, checkLegendre)
}

// ---- Gauss-Hermite ----------------------------------------------------------

type hermCase struct {
	N    int
	Degs []int
	Conc int
}

// hermiteOrtho returns h_0..h_n at x, orthonormal under the weight e^{-x^2}.
func hermiteOrtho(n int, x float64) []float64 {
	h := make([]float64, n+1)
	h[0] = math.Pow(math.Pi, -0.25)
	if n >= 1 {
		h[1] = math.Sqrt2 * x * h[0]
	}
	for k := 1; k < n; k++ {
		h[k+1] = x*math.Sqrt(2/float64(k+1))*h[k] - math.Sqrt(float64(k)/float64(k+1))*h[k-1]
	}
	return h
}

// gammaHalf returns Gamma((d+1)/2) for even d: (d-1)!!/2^(d/2) sqrt(pi).
func gammaHalf(d int) float64 {
	g := math.SqrtPi
	for k := d - 1; k >= 1; k -= 2 {
		g *= float64(k) / 2
	}
	return g
}

func checkHermite(c hermCase) *vk.Failure {
	n := c.N
	branch := "tabulated"
	if n > 200 {
		branch = "asymptotic"
	}
	vk.Class("hermite:" + branch)
	if n > 100 {
		vk.NonTrivial("hermite", n)
	}
	vk.Sample("quad-hermite", c)
	key := func(base string) string {
		if n <= 200 {
			return fmt.Sprintf("%s/n=%d", base, n)
		}
		return base + "/asymptotic"
	}
	x := make([]float64, n)
	w := make([]float64, n)
	if f := vk.MustReturn(key("fixedlocations-panics"), func() { quad.Hermite{}.FixedLocations(x, w, math.Inf(-1), math.Inf(1)) }); f != nil {
		return f
	}
	for i := range x {
		if !(w[i] > 0) {
			return vk.Failf(key("weight-not-positive"), "n=%d: weight[%d]=%v", n, i, w[i])
		}
		if i > 0 && !(x[i] > x[i-1]) {
			return vk.Failf(key("nodes-not-increasing"), "n=%d: x[%d]=%v x[%d]=%v", n, i-1, x[i-1], i, x[i])
		}
		// symmetry: to 4 ulp for the tabulated rules; the asymptotic branch
		// computes nodes to about 2e-14 (1+|x|) only (its middle node of an odd
		// rule is 3e-15 rather than 0), so the node tolerance is absolute there.
		symX := vk.Ulps(x[i], -x[n-1-i]) <= 4
		if n > 200 {
			symX = math.Abs(x[i]+x[n-1-i]) <= 2e-13*(1+math.Abs(x[i]))
		}
		if !symX || vk.Ulps(w[i], w[n-1-i]) > 4 {
			return vk.Failf(key("not-symmetric"), "n=%d i=%d: (x,w)=(%v,%v) mirror (%v,%v)", n, i, x[i], w[i], x[n-1-i], w[n-1-i])
		}
	}
	var sw vk.DD
	for _, v := range w {
		sw.Add(v)
	}
	if d := math.Abs(sw.Float()-math.SqrtPi) / math.SqrtPi; d > 1e-13 {
		return vk.Failf(key("weight-sum"), "n=%d: sum w=%v want sqrt(pi) (rel %.3g)", n, sw.Float(), d)
	}
	// Every node is a root of H_n and every weight is the Christoffel number
	// 1/sum_{k<n} h_k(x)^2. Tolerances calibrated on the unchanged tree
	// (observed maxima in brackets). Tabulated n <= 200: Newton correction
	// <= 36 eps (1+|x|) [2.3 eps]; weights relative (100 + 16 x^2) 2eps
	// [3e-13 at |x| = 19], the x^2 term being the sensitivity 4|x| of the
	// Christoffel number to a node error of one ulp. Asymptotic branch
	// n > 200 (and the n = 200 table row, which was produced by the same
	// asymptotic method): Newton correction <= 2e-13 (1+|x|) [2.1e-14],
	// weights relative 1e-10 [1.03e-11].
	wref := make([]float64, n)
	var knownBad []int // indices with the signature of the known table inaccuracy
	for i := range x {
		h := hermiteOrtho(n, x[i])
		step := math.Abs(h[n] / (math.Sqrt(2*float64(n)) * h[n-1]))
		tolN := 36 * vk.Eps * (1 + math.Abs(x[i]))
		if n >= 200 {
			tolN = 2e-13 * (1 + math.Abs(x[i]))
		}
		calib("herm-node-"+branch, step/tolN)
		if !(step <= tolN) {
			return vk.Failf(key("node-not-root-of-Hn"), "n=%d i=%d: x=%v Newton correction %v tol %v", n, i, x[i], step, tolN)
		}
		var s vk.DD
		for k := 0; k < n; k++ {
			s.AddProd(h[k], h[k])
		}
		wref[i] = 1 / s.Float()
		tolW := 2 * vk.Eps * (100 + 16*x[i]*x[i])
		if n >= 200 {
			tolW = 1e-10
		}
		rel := math.Abs(w[i]-wref[i]) / wref[i]
		if !(rel <= tolW) {
			knownBad = append(knownBad, i)
			continue
		}
		calib("herm-weight-"+branch, rel/tolW)
	}
	// moments of even degree (odd ones vanish by symmetry)
	moment := func(wt []float64, d int) (float64, float64) {
		var s, sa vk.DD
		for i := range x {
			p := math.Pow(x[i], float64(d))
			s.AddProd(wt[i], p)
			sa.AddProd(wt[i], math.Abs(p))
		}
		return s.Float(), sa.Float()
	}
	var momentFail *vk.Failure
	for _, d := range c.Degs {
		if d > 2*n-1 || d > 40 {
			continue
		}
		if d >= 2*n-2 {
			vk.Class("hermite:degree-at-exactness-boundary")
			vk.NonTrivial("hermite-deg", n, d)
		}
		got, scale := moment(w, d)
		want := 0.0
		if d%2 == 0 {
			want = gammaHalf(d)
		}
		// relative tolerance (64 + 8d) 2eps: all terms are positive for even d,
		// so the condition is d (node rounding) + 1 (weight rounding); observed
		// maximum 5.4e-15 at d = 20 [ratio 0.11].
		tol := 2 * vk.Eps * (64 + 8*float64(d)) * scale
		if n >= 200 {
			// asymptotic branch: weights are accurate to about 1e-11 and
			// nodes to 2e-14 (1+|x|) only; observed maximum 1.4e-12 [ratio 0.14].
			tol = (1e-11 + 2e-13*float64(d)) * scale
		}
		calib("herm-moment-"+branch, math.Abs(got-want)/tol)
		if !(math.Abs(got-want) <= tol) && momentFail == nil {
			// attribute to the weight table when the moment is exact with the
			// flagged weights replaced by their Christoffel values
			if len(knownBad) > 0 {
				w2 := append([]float64(nil), w...)
				for _, i := range knownBad {
					w2[i] = wref[i]
				}
				if g2, _ := moment(w2, d); math.Abs(g2-want) <= tol {
					continue
				}
			}
			momentFail = vk.Failf(key("moment-not-exact"), "n=%d degree %d: sum w x^d=%v want %v (rel err %.3g, tol %.3g)", n, d, got, want, (got-want)/scale, tol/scale)
		}
	}
	if momentFail != nil {
		return momentFail
	}
	// quad.Fixed with the Hermite rule
	if len(c.Degs) > 0 {
		d := c.Degs[len(c.Degs)-1]
		if d > 2*n-1 {
			d = 2*n - 1
		}
		if d > 40 {
			d = 40
		}
		want, scale := moment(w, d)
		got := quad.Fixed(func(x float64) float64 { return math.Pow(x, float64(d)) }, math.Inf(-1), math.Inf(1), n, quad.Hermite{}, c.Conc)
		if !(math.Abs(got-want) <= 4*float64(n+8)*vk.Eps*scale) {
			return vk.Failf(key("fixed-differs-from-rule"), "quad.Fixed Hermite n=%d degree %d concurrent=%d: got %v, sum over FixedLocations %v", n, d, c.Conc, got, want)
		}
	}
	if len(knownBad) > 0 {
		i := knownBad[0]
		rel := math.Abs(w[i]-wref[i]) / wref[i]
		// signature of the inaccurate table entries found on the unchanged
		// tree: an outermost (or for n = 200 second) weight wrong from the 9th
		// or 10th significant digit.
		end := i <= 1 || i >= n-2
		if n <= 200 && end && rel < 2e-8 {
			return vk.Failf("weight-table-entry-inaccurate", "Hermite n=%d: weight[%d]=%.17g at x=%.17g but the Christoffel number 1/sum_{k<n} h_k(x)^2 is %.17g (relative difference %.3g; all other weights of this rule agree to %.1g)", n, i, w[i], x[i], wref[i], rel, 2*vk.Eps*(100+16*x[i]*x[i]))
		}
		return vk.Failf(key("weight-not-christoffel"), "n=%d i=%d: x=%v w=%.17g want %.17g (rel %.3g)", n, i, x[i], w[i], wref[i], rel)
	}
	return nil
}

func TestHermite(t *testing.T) {
	maxN := 300
	vk.Enumerate(t, "quad-hermite", maxN, func(i int) hermCase {
		n := i + 1
		return hermCase{N: n, Degs: allDegs(n, 40), Conc: (n % 3) * 2}
	}, checkHermite)
}

// ---- panics and the default rule on (semi-)infinite ranges ------------------

type quadMiscCase struct {
	N    int
	A    vk.F
	Kind int // 0: [A,inf) e^{-(x-A)}; 1: (-inf,A] e^{x-A}; 2: R e^{-(x-A)^2}... with A only for kinds 0,1
}

func checkQuadMisc(c quadMiscCase) *vk.Failure {
	a := float64(c.A)
	vk.Class(fmt.Sprintf("default-rule:kind=%d", c.Kind))
	vk.Sample("quad-misc", c)
	var f func(float64) float64
	var lo, hi, want float64
	switch c.Kind {
	case 0:
		f = func(x float64) float64 { return math.Exp(-(x - a)) }
		lo, hi, want = a, math.Inf(1), 1
	case 1:
		f = func(x float64) float64 { return math.Exp(x - a) }
		lo, hi, want = math.Inf(-1), a, 1
	default:
		f = func(x float64) float64 { return math.Exp(-x * x) }
		lo, hi, want = math.Inf(-1), math.Inf(1), math.SqrtPi
	}
	// Convergence sanity only (not an exactness statement): the error at
	// n = 200 is below 1e-8 and not larger than at n = 25.
	e25 := math.Abs(quad.Fixed(f, lo, hi, 25, nil, 0) - want)
	e200 := math.Abs(quad.Fixed(f, lo, hi, 200, nil, 0) - want)
	calib("default-rule-e200", e200/1e-8)
	if !(e200 <= 1e-8) || !(e200 <= e25+1e-12) {
		return vk.Failf("default-rule-no-convergence", "kind=%d a=%v: |error| n=25: %.3g, n=200: %.3g", c.Kind, a, e25, e200)
	}
	// documented panics
	n := c.N
	x := make([]float64, n)
	w := make([]float64, n)
	if f := vk.MustPanic("legendre-length-mismatch", func() { quad.Legendre{}.FixedLocations(x, make([]float64, n+1), 0, 1) }); f != nil {
		return f
	}
	if f := vk.MustPanic("legendre-min>=max", func() { quad.Legendre{}.FixedLocations(x, w, a, a) }); f != nil {
		return f
	}
	if f := vk.MustPanic("legendre-infinite-bound", func() { quad.Legendre{}.FixedLocations(x, w, a, math.Inf(1)) }); f != nil {
		return f
	}
	if f := vk.MustPanic("legendre-single-min>=max", func() { quad.Legendre{}.FixedLocationSingle(n, 0, a+1, a) }); f != nil {
		return f
	}
	if f := vk.MustPanic("hermite-length-mismatch", func() { quad.Hermite{}.FixedLocations(x, make([]float64, n+1), math.Inf(-1), math.Inf(1)) }); f != nil {
		return f
	}
	if f := vk.MustPanic("hermite-finite-bound", func() { quad.Hermite{}.FixedLocations(x, w, a, math.Inf(1)) }); f != nil {
		return f
	}
	if f := vk.MustPanic("fixed-n<=0", func() { quad.Fixed(f, 0, 1, 0, nil, 0) }); f != nil {
		return f
	}
	if f := vk.MustPanic("fixed-min>max", func() { quad.Fixed(f, a+1, a, n, nil, 0) }); f != nil {
		return f
	}
	if got := quad.Fixed(f, a, a, n, nil, 0); got != 0 {
		return vk.Failf("fixed-min==max", "quad.Fixed over [a,a] = %v, want 0", got)
	}
	return nil
}

func TestQuadMisc(t *testing.T) {
	vk.Run(t, "quad-misc", vk.Opts{Quick: 300, Thorough: 3000, NoCrumb: true}, func(t *rapid.T) quadMiscCase {
		return quadMiscCase{
			N:    rapid.IntRange(1, 40).Draw(t, "n"),
			A:    vk.F(float64(rapid.IntRange(-64, 64).Draw(t, "a")) / 8),
			Kind: rapid.IntRange(0, 2).Draw(t, "kind"),
		}
	}, checkQuadMisc)
}
