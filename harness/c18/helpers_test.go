package c18

import (
	"math"
	"os"
	"sync"

	"pgregory.net/rapid"
	"verifharness/vk"
)

// calib collects the largest observed error/tolerance ratios when C18_CALIB is
// set (development aid: it does not influence any verdict).
var (
	calibOn = os.Getenv("C18_CALIB") != ""
	calibMu sync.Mutex
	calibMx = map[string]float64{}
)

func calib(name string, ratio float64) {
	if !calibOn || math.IsNaN(ratio) {
		return
	}
	calibMu.Lock()
	if ratio > calibMx[name] {
		calibMx[name] = ratio
	}
	calibMu.Unlock()
}

// poly evaluates sum c[k] x^k by Horner's rule in float64. For the dyadic
// data drawn by the generators below the result is exact (see exactPoly).
func poly(c []float64, x float64) float64 {
	s := 0.0
	for k := len(c) - 1; k >= 0; k-- {
		s = s*x + c[k]
	}
	return s
}

// polyDD evaluates the polynomial with double-double powers and accumulator
// (relative error about 2^-100 times the magnitude scale polyAbs).
func polyDD(c []float64, x float64) float64 {
	var s vk.DD
	for k := range c {
		p := ddPow(x, k)
		s.AddProd(c[k], p.Hi)
		s.AddProd(c[k], p.Lo)
	}
	return s.Float()
}

// polyAbs evaluates sum |c[k]| |x|^k: the magnitude scale of a polynomial
// evaluation, used in rounding bounds.
func polyAbs(c []float64, x float64) float64 {
	s := 0.0
	x = math.Abs(x)
	for k := len(c) - 1; k >= 0; k-- {
		s = s*x + math.Abs(c[k])
	}
	return s
}

// polyDeriv returns the coefficients of the derivative.
func polyDeriv(c []float64) []float64 {
	if len(c) <= 1 {
		return []float64{0}
	}
	d := make([]float64, len(c)-1)
	for k := 1; k < len(c); k++ {
		d[k-1] = float64(k) * c[k]
	}
	return d
}

// polyInt returns the definite integral over [a,b] using double-double
// accumulation of the antiderivative terms c[k]/(k+1) (b^{k+1}-a^{k+1}).
func polyInt(c []float64, a, b float64) float64 {
	var s vk.DD
	for k := range c {
		// b^{k+1} - a^{k+1} in DD
		pb, pa := ddPow(b, k+1), ddPow(a, k+1)
		d := vk.DD{}
		d.Add(pb.Hi)
		d.Add(pb.Lo)
		d.Add(-pa.Hi)
		d.Add(-pa.Lo)
		f := c[k] / float64(k+1) // callers keep c[k]/(k+1) well scaled; error eps
		s.AddProd(f, d.Hi)
		s.AddProd(f, d.Lo)
	}
	return s.Float()
}

func ddPow(x float64, n int) vk.DD {
	r := vk.DD{Hi: 1}
	for i := 0; i < n; i++ {
		hi := r.Hi * x
		lo := math.FMA(r.Hi, x, -hi) + r.Lo*x
		s := hi + lo
		r = vk.DD{Hi: s, Lo: lo - (s - hi)}
	}
	return r
}

// small-integer coefficient vector of the given degree with non-zero leading term.
func drawCoeffs(t *rapid.T, label string, deg, maxAbs int) []int {
	c := make([]int, deg+1)
	for k := range c {
		c[k] = rapid.IntRange(-maxAbs, maxAbs).Draw(t, label)
	}
	if c[deg] == 0 {
		c[deg] = 1 + rapid.IntRange(0, maxAbs-1).Draw(t, label+"_lead")
		if rapid.Bool().Draw(t, label+"_neg") {
			c[deg] = -c[deg]
		}
	}
	return c
}

func intsToF(c []int) []float64 {
	out := make([]float64, len(c))
	for i, v := range c {
		out[i] = float64(v)
	}
	return out
}

func maxAbs(x []float64) float64 {
	m := 0.0
	for _, v := range x {
		if a := math.Abs(v); a > m {
			m = a
		}
	}
	return m
}

func ulp(x float64) float64 {
	x = math.Abs(x)
	if x == 0 {
		return math.SmallestNonzeroFloat64
	}
	return math.Nextafter(x, math.Inf(1)) - x
}

func sameSlice(a, b []float64) bool {
	if len(a) != len(b) {
		return false
	}
	for i := range a {
		if !vk.SameBits(a[i], b[i]) {
			return false
		}
	}
	return true
}
