package c18

import (
	"fmt"
	"math"
	"testing"

	"gonum.org/v1/gonum/diff/fd"
	"gonum.org/v1/gonum/mat"
	"pgregory.net/rapid"
	"verifharness/vk"
)

// viewCase: the destination of Gradient / Jacobian / Hessian is a window of a
// larger, sentinel-filled parent (slice with spare capacity, Dense.Slice view
// with stride > columns, SymDense.SliceSym view). The result must equal the
// result in a fresh destination bit for bit (the data are exact) and nothing
// outside the window may change. Serial and concurrent paths.
type viewCase struct {
	M              multiCase // Fn 0 gradient, 1 jacobian, 2 hessian
	R0, C0, PR, PC int       // window offset and extra rows/columns of the parent
}

const sentinel = -7.25e301

func checkView(c viewCase) *vk.Failure {
	mc := c.M
	n := mc.N
	x := fcoords(mc.X)
	r := vk.NewSplitMix(mc.Seed)
	fn := []string{"gradient", "jacobian", "hessian"}[mc.Fn]
	mode := "serial"
	if mc.Conc {
		mode = "concurrent"
	}
	vk.Class("fd-view:" + fn + "," + mode)
	vk.NonTrivial("fd-view", mc.Fn, n, mc.M, mc.Formula, fmt.Sprint(mc.X), mc.StepExp, mc.Seed, mc.Known, mc.Conc, c.R0, c.C0, c.PR, c.PC)
	vk.Sample("fd-view", c)
	fo := firstOrders[mc.Formula]
	desc := fmt.Sprintf("%s n=%d formula=%s known=%v %s window offset (%d,%d) parent extra (%d,%d) seed=%d", fn, n, fo.name, mc.Known, mode, c.R0, c.C0, c.PR, c.PC, mc.Seed)
	switch mc.Fn {
	case 0:
		q := newQuadCubic(r, n, false)
		set, _, _ := makeSettings(fo, mc, q.eval(x), false)
		f := func(t []float64) float64 { return q.eval(t) }
		fresh := fd.Gradient(nil, f, x, set)
		buf := make([]float64, c.C0+n+c.PC)
		for i := range buf {
			buf[i] = sentinel
		}
		dst := buf[c.C0 : c.C0+n]
		got := fd.Gradient(dst, f, x, set)
		if len(got) != n || (n > 0 && &got[0] != &dst[0]) {
			return vk.Failf("gradient-dst-not-reused", "%s", desc)
		}
		if !sameSlice(got, fresh) {
			return vk.Failf("gradient-view-differs", "%s: in window %v, fresh %v", desc, got, fresh)
		}
		for i, v := range buf {
			if (i < c.C0 || i >= c.C0+n) && !vk.SameBits(v, sentinel) {
				return vk.Failf("gradient-writes-outside-dst", "%s: element %d of the backing array changed to %v", desc, i, v)
			}
		}
	case 1:
		m := mc.M
		qs := make([]quadCubic, m)
		for k := range qs {
			qs[k] = newQuadCubic(r, n, false)
		}
		h := math.Ldexp(1, mc.StepExp)
		formula := fo.f()
		formula.Stencil = append([]fd.Point(nil), formula.Stencil...)
		set := &fd.JacobianSettings{Formula: formula, Concurrent: mc.Conc, Step: h}
		if mc.Known {
			set.OriginValue = make([]float64, m)
			for k := range qs {
				set.OriginValue[k] = qs[k].eval(x)
			}
		}
		F := func(y, t []float64) {
			for k := range qs {
				y[k] = qs[k].eval(t)
			}
		}
		fresh := mat.NewDense(m, n, nil)
		fd.Jacobian(fresh, F, x, set)
		R, C := c.R0+m+c.PR, c.C0+n+c.PC
		parent := mat.NewDense(R, C, nil)
		for i := 0; i < R; i++ {
			for j := 0; j < C; j++ {
				parent.Set(i, j, sentinel)
			}
		}
		dst := parent.Slice(c.R0, c.R0+m, c.C0, c.C0+n).(*mat.Dense)
		// stale, non-sentinel content inside the window
		for i := 0; i < m; i++ {
			for j := 0; j < n; j++ {
				dst.Set(i, j, float64(1000+i*n+j))
			}
		}
		fd.Jacobian(dst, F, x, set)
		for i := 0; i < R; i++ {
			for j := 0; j < C; j++ {
				in := i >= c.R0 && i < c.R0+m && j >= c.C0 && j < c.C0+n
				v := parent.At(i, j)
				if in && !vk.SameBits(v, fresh.At(i-c.R0, j-c.C0)) {
					return vk.Failf("jacobian-view-differs-"+mode, "%s m=%d: J[%d,%d] in a strided view is %v, in a fresh matrix %v", desc, m, i-c.R0, j-c.C0, v, fresh.At(i-c.R0, j-c.C0))
				}
				if !in && !vk.SameBits(v, sentinel) {
					return vk.Failf("jacobian-writes-outside-dst-"+mode, "%s m=%d: parent element (%d,%d) outside the view changed to %v", desc, m, i, j, v)
				}
			}
		}
	default:
		q := newQuadCubic(r, n, true)
		set, _, _ := makeSettings(fo, mc, q.eval(x), true)
		f := func(t []float64) float64 { return q.eval(t) }
		fresh := mat.NewSymDense(n, nil)
		fd.Hessian(fresh, f, x, set)
		N := c.R0 + n + c.PR
		parent := mat.NewSymDense(N, nil)
		raw := parent.RawSymmetric()
		for i := range raw.Data {
			raw.Data[i] = sentinel
		}
		dst := parent.SliceSym(c.R0, c.R0+n).(*mat.SymDense)
		fd.Hessian(dst, f, x, set)
		for i := 0; i < N; i++ {
			for j := 0; j < N; j++ {
				v := raw.Data[i*raw.Stride+j]
				in := i >= c.R0 && i < c.R0+n && j >= i && j < c.R0+n // stored (upper) part of the window
				if in && !vk.SameBits(v, fresh.At(i-c.R0, j-c.R0)) {
					return vk.Failf("hessian-view-differs-"+mode, "%s: H[%d,%d] in a SliceSym view is %v, in a fresh matrix %v", desc, i-c.R0, j-c.R0, v, fresh.At(i-c.R0, j-c.R0))
				}
				if !in && !vk.SameBits(v, sentinel) {
					return vk.Failf("hessian-writes-outside-dst-"+mode, "%s: parent storage (%d,%d) outside the view changed to %v", desc, i, j, v)
				}
			}
		}
	}
	return nil
}

func TestFDViews(t *testing.T) {
	vk.Run(t, "fd-view", vk.Opts{Quick: 3000, Thorough: 200000, NoCrumb: true}, func(t *rapid.T) viewCase {
		n := vk.Dim(t, "n", 1, 6, 2)
		mc := multiCase{
			N:       n,
			M:       rapid.IntRange(1, 5).Draw(t, "m"),
			Formula: rapid.IntRange(0, len(firstOrders)-1).Draw(t, "formula"),
			StepExp: rapid.IntRange(-3, 1).Draw(t, "stepexp"),
			Seed:    rapid.Uint64().Draw(t, "seed"),
			Known:   rapid.Bool().Draw(t, "known"),
			Conc:    rapid.Bool().Draw(t, "conc"),
			Fn:      rapid.IntRange(0, 2).Draw(t, "fn"),
		}
		mc.X = rapid.SliceOfN(rapid.IntRange(-32, 32), n, n).Draw(t, "x")
		return viewCase{
			M:  mc,
			R0: rapid.IntRange(0, 2).Draw(t, "r0"),
			C0: rapid.IntRange(0, 2).Draw(t, "c0"),
			PR: rapid.IntRange(0, 2).Draw(t, "pr"),
			PC: rapid.IntRange(0, 3).Draw(t, "pc"),
		}
	}, checkView)
}
