package c18

import (
	"fmt"
	"math"
	"testing"

	"gonum.org/v1/gonum/interp"
	"pgregory.net/rapid"
	"verifharness/vk"
)

// histCase: fit data set A, keep copies of the fitted predictor, refit the
// same variable with data set B, scribble over the caller's slices.
//   - the refitted variable equals a fresh fit of B bit for bit (no state
//     survives a refit);
//   - for the types whose Predict has a value receiver (PiecewiseLinear,
//     PiecewiseConstant) a copy taken before the refit (plain struct copy and
//     interp.Predictor interface value) still answers for A exactly as before:
//     such predictors are routinely stored by value.
//
// The cubic family has pointer-receiver methods: an interface value holds the
// pointer, so only the refit history is asserted there.
type histCase struct {
	Type           int
	KnotsA, KnotsB int
	DataA, DataB   int
	NA, NB         int
	SeedA, SeedB   uint64
}

type fitter interface {
	Predict(float64) float64
}

func newOfType(typ int) any {
	switch typ {
	case tConst:
		return &interp.PiecewiseConstant{}
	case tLinear:
		return &interp.PiecewiseLinear{}
	case tHermite:
		return &interp.PiecewiseCubic{}
	case tAkima:
		return &interp.AkimaSpline{}
	case tFB:
		return &interp.FritschButland{}
	case tNatural:
		return &interp.NaturalCubic{}
	case tClamped:
		return &interp.ClampedCubic{}
	}
	return &interp.NotAKnotCubic{}
}

func fitOn(p any, xs, ys, dydx []float64) error {
	if pc, ok := p.(*interp.PiecewiseCubic); ok {
		pc.FitWithDerivatives(xs, ys, dydx)
		return nil
	}
	return p.(interp.Fitter).Fit(xs, ys)
}

// probes returns the query points for a knot set: knots, interior points and
// both extrapolation sides.
func probes(xs []float64) []float64 {
	n := len(xs)
	q := []float64{xs[0] - 1, math.Inf(-1), xs[n-1] + 1, math.Inf(1)}
	for i, x := range xs {
		q = append(q, x)
		if i+1 < n {
			d := xs[i+1] - x
			q = append(q, x+d/4, x+d/2, math.Nextafter(xs[i+1], math.Inf(-1)))
		}
	}
	return q
}

func record(p any, q []float64) []float64 {
	out := make([]float64, 0, 2*len(q))
	pr := p.(interp.Predictor)
	for _, x := range q {
		out = append(out, pr.Predict(x))
	}
	if dp, ok := p.(interp.DerivativePredictor); ok {
		for _, x := range q {
			out = append(out, dp.PredictDerivative(x))
		}
	}
	return out
}

func checkHist(c histCase) *vk.Failure {
	name := typeName[c.Type]
	vk.Class("interp-history:" + name)
	rel := "NB<=NA"
	if c.NB > c.NA {
		rel = "NB>NA"
	}
	vk.Class("interp-history:" + rel)
	vk.NonTrivial("interp-hist", c.Type, c.KnotsA, c.KnotsB, c.DataA, c.DataB, c.NA, c.NB, c.SeedA, c.SeedB)
	vk.Sample("interp-history", c)
	desc := fmt.Sprintf("%s A(knots=%s data=%s n=%d seed=%d) then B(knots=%s data=%s n=%d seed=%d)", name, knotName[c.KnotsA], dataName[c.DataA], c.NA, c.SeedA, knotName[c.KnotsB], dataName[c.DataB], c.NB, c.SeedB)
	mk := func(k, d, n int, seed uint64) (xs, ys, dy []float64) {
		r := vk.NewSplitMix(seed)
		xs = makeKnots(k, n, r)
		ys = makeData(d, xs, nil, r)
		dy = make([]float64, n)
		for i := range dy {
			dy[i] = r.Finite()
		}
		return
	}
	xa, ya, da := mk(c.KnotsA, c.DataA, c.NA, c.SeedA)
	xb, yb, db := mk(c.KnotsB, c.DataB, c.NB, c.SeedB)
	qa, qb := probes(xa), probes(xb)
	clone := func(v []float64) []float64 { return append([]float64(nil), v...) }

	orig := newOfType(c.Type)
	xin, yin, din := clone(xa), clone(ya), clone(da)
	if err := fitOn(orig, xin, yin, din); err != nil {
		vk.Inconclusive("history-fit-error:" + name)
		return nil
	}
	recA := record(orig, qa)
	// copies taken before the refit
	var byValue, byIface any
	switch o := orig.(type) {
	case *interp.PiecewiseLinear:
		cp := *o
		byValue = cp
		var pr interp.Predictor = *o
		byIface = pr
	case *interp.PiecewiseConstant:
		cp := *o
		byValue = cp
		var pr interp.Predictor = *o
		byIface = pr
	}
	// the caller's slices of the first fit are overwritten
	for i := range xin {
		xin[i], yin[i], din[i] = math.NaN(), -1e300, 1e300
	}
	if got := record(orig, qa); !sameSlice(got, recA) {
		return vk.Failf("fit-keeps-callers-slices", "%s: predictions changed after the caller overwrote the slices passed to Fit", desc)
	}
	// refit the same variable
	xin2, yin2, din2 := clone(xb), clone(yb), clone(db)
	errB := fitOn(orig, xin2, yin2, din2)
	for i := range xin2 {
		xin2[i], yin2[i], din2[i] = math.NaN(), 1e300, -1e300
	}
	for what, cp := range map[string]any{"struct copy": byValue, "interp.Predictor value": byIface} {
		if cp == nil {
			continue
		}
		if got := record(cp, qa); !sameSlice(got, recA) {
			for i := range got {
				if !vk.SameBits(got[i], recA[i]) {
					return vk.Failf("stored-copy-changed-by-refit/"+name, "%s: a %s taken after the first Fit predicted %v at x=%v before the original was refitted and %v afterwards (xs of A %v, ys of A %v)", desc, what, recA[i], qa[i%len(qa)], got[i], xa, ya)
				}
			}
		}
	}
	if errB != nil {
		vk.Inconclusive("history-fit-error:" + name)
		return nil
	}
	fresh := newOfType(c.Type)
	if err := fitOn(fresh, clone(xb), clone(yb), clone(db)); err != nil {
		return vk.Failf("refit-differs-from-fresh-fit/"+name, "%s: fresh fit of B fails (%v) but the refit succeeded", desc, err)
	}
	got, want := record(orig, qb), record(fresh, qb)
	for i := range got {
		if !vk.SameBits(got[i], want[i]) {
			return vk.Failf("refit-differs-from-fresh-fit/"+name, "%s: at x=%v the refitted variable gives %v, a fresh fit of B %v", desc, qb[i%len(qb)], got[i], want[i])
		}
	}
	// Constant and Function are value predictors without state
	k := interp.Constant(ya[0])
	fnc := interp.Function(func(x float64) float64 { return 2*x + ya[0] })
	for _, x := range qa[:4] {
		if !vk.SameBits(k.Predict(x), ya[0]) {
			return vk.Failf("constant-predict", "Constant(%v).Predict(%v)=%v", ya[0], x, k.Predict(x))
		}
		if !vk.SameBits(fnc.Predict(x), 2*x+ya[0]) {
			return vk.Failf("function-predict", "Function.Predict(%v)=%v want %v", x, fnc.Predict(x), 2*x+ya[0])
		}
	}
	return nil
}

func TestInterpHistory(t *testing.T) {
	vk.Run(t, "interp-history", vk.Opts{Quick: 4000, Thorough: 300000, NoCrumb: true}, func(t *rapid.T) histCase {
		c := histCase{
			Type:   rapid.IntRange(0, nTypes-1).Draw(t, "type"),
			KnotsA: rapid.IntRange(0, nKnotClasses-1).Draw(t, "knotsA"),
			KnotsB: rapid.IntRange(0, nKnotClasses-1).Draw(t, "knotsB"),
			DataA:  rapid.IntRange(0, dPlateaus).Draw(t, "dataA"),
			DataB:  rapid.IntRange(0, dPlateaus).Draw(t, "dataB"),
			SeedA:  rapid.Uint64().Draw(t, "seedA"),
			SeedB:  rapid.Uint64().Draw(t, "seedB"),
		}
		lo := 2
		if c.Type == tNotAKnot {
			lo = 4
		}
		c.NA = vk.Dim(t, "na", lo, 40, 4, 5)
		if rapid.IntRange(0, 3).Draw(t, "longer") == 0 {
			c.NB = rapid.IntRange(lo, 48).Draw(t, "nb")
		} else {
			c.NB = rapid.IntRange(lo, c.NA).Draw(t, "nb_le")
		}
		return c
	}, checkHist)
}
