package c18

import (
	"fmt"
	"math"
	"testing"

	"gonum.org/v1/gonum/integrate"
	"pgregory.net/rapid"
	"verifharness/vk"
)

// ---- Trapezoidal and Simpsons on sorted grids --------------------------------

// gridCase: abscissae X[0] + cumulative sums of Steps/2^Shift (exact dyadic
// rationals), polynomial with small integer coefficients C (degree <= 3): all
// samples f[i] are exact in float64.
type gridCase struct {
	X0    int   // first abscissa, in units of 2^-Shift
	Steps []int // positive step numerators
	Shift int
	C     []int
}

func (c gridCase) grid() []float64 {
	x := make([]float64, len(c.Steps)+1)
	acc := c.X0
	x[0] = math.Ldexp(float64(acc), -c.Shift)
	for i, s := range c.Steps {
		acc += s
		x[i+1] = math.Ldexp(float64(acc), -c.Shift)
	}
	return x
}

func uniformSteps(s []int) bool {
	for _, v := range s {
		if v != s[0] {
			return false
		}
	}
	return true
}

// exactPolyIntegral returns the integral of the integer-coefficient polynomial
// (degree <= 3) over [a,b], correctly rounded up to one division: 12*I is a sum
// of integer multiples of differences of powers, accumulated in double-double.
func exactPolyIntegral(c []int, a, b float64) float64 {
	mult := []float64{12, 6, 4, 3}
	var s vk.DD
	for k, ck := range c {
		pb, pa := ddPow(b, k+1), ddPow(a, k+1)
		f := float64(ck) * mult[k]
		s.AddProd(f, pb.Hi)
		s.AddProd(f, pb.Lo)
		s.AddProd(-f, pa.Hi)
		s.AddProd(-f, pa.Lo)
	}
	return s.Float() / 12
}

func checkGrid(c gridCase) *vk.Failure {
	x := c.grid()
	n := len(x)
	coef := intsToF(c.C)
	deg := len(c.C) - 1
	for deg > 0 && c.C[deg] == 0 {
		deg--
	}
	f := make([]float64, n)
	for i := range x {
		f[i] = poly(coef, x[i])
	}
	uniform := uniformSteps(c.Steps)
	parity := "odd-count"
	if n%2 == 0 {
		parity = "even-count"
	}
	want := exactPolyIntegral(c.C, x[0], x[n-1])
	vk.Sample("integrate-grid", c)

	if deg <= 1 {
		vk.Class("trapezoidal:degree<=1")
		if deg == 1 || !uniform {
			vk.NonTrivial("trap", c.X0, fmt.Sprint(c.Steps), c.Shift, fmt.Sprint(c.C))
		}
		got := integrate.Trapezoidal(x, f)
		S := 0.0
		for i := 0; i+1 < n; i++ {
			S += 0.5 * (x[i+1] - x[i]) * (math.Abs(f[i]) + math.Abs(f[i+1]))
		}
		tol := vk.SumBound(n, vk.Eps, S)
		calib("trapezoidal", math.Abs(got-want)/tol)
		if !(math.Abs(got-want) <= tol) {
			return vk.Failf("trapezoidal-not-exact", "degree %d on %d points: got %v want %v (err %.3g tol %.3g)", deg, n, got, want, got-want, tol)
		}
	}
	if n >= 3 && (deg <= 2 || (deg == 3 && uniform && n%2 == 1)) {
		vk.Class(fmt.Sprintf("simpsons:degree=%d,%s,uniform=%v", deg, parity, uniform))
		if deg >= 2 || !uniform {
			vk.NonTrivial("simpson", c.X0, fmt.Sprint(c.Steps), c.Shift, fmt.Sprint(c.C))
		}
		got := integrate.Simpsons(x, f)
		// magnitude scale: per panel the absolute values of the three Lagrange
		// weights (numerator terms taken with positive sign) times |f|
		S := 0.0
		panel := func(i0 int) {
			h0, h1 := x[i0+1]-x[i0], x[i0+2]-x[i0+1]
			hph := h0 + h1
			A0 := (2*h0*h0*h0 + h1*h1*h1 + 3*h1*h0*h0) / (6 * h0 * hph)
			A1 := (h0*h0*h0 + h1*h1*h1 + 3*h0*h1*hph) / (6 * h0 * h1)
			A2 := (h0*h0*h0 + 2*h1*h1*h1 + 3*h0*h1*h1) / (6 * h1 * hph)
			S += A0*math.Abs(f[i0]) + A1*math.Abs(f[i0+1]) + A2*math.Abs(f[i0+2])
		}
		for i := 1; i < n-1; i += 2 {
			panel(i - 1)
		}
		if n%2 == 0 {
			panel(n - 3)
		}
		tol := 16*vk.Eps*S + vk.SumBound(3*n/2, vk.Eps, S)
		calib("simpsons", math.Abs(got-want)/tol)
		if !(math.Abs(got-want) <= tol) {
			return vk.Failf("simpsons-not-exact", "degree %d on %d points (uniform=%v): got %v want %v (err %.3g tol %.3g)", deg, n, uniform, got, want, got-want, tol)
		}
	}
	return nil
}

func drawGrid(t *rapid.T, maxDeg int) gridCase {
	np := vk.Dim(t, "points", 2, 41, 3, 4, 5)
	shift := rapid.IntRange(0, 4).Draw(t, "shift")
	steps := make([]int, np-1)
	if rapid.IntRange(0, 3).Draw(t, "uniform") == 0 {
		h := rapid.IntRange(1, 8).Draw(t, "h")
		for i := range steps {
			steps[i] = h
		}
	} else {
		for i := range steps {
			steps[i] = rapid.IntRange(1, 8).Draw(t, "step")
		}
	}
	deg := rapid.IntRange(0, maxDeg).Draw(t, "deg")
	return gridCase{
		X0:    rapid.IntRange(-64, 64).Draw(t, "x0"),
		Steps: steps,
		Shift: shift,
		C:     drawCoeffs(t, "c", deg, 8),
	}
}

func TestIntegrateGrid(t *testing.T) {
	vk.Run(t, "integrate-grid", vk.Opts{Quick: 12000, Thorough: 1000000, NoCrumb: true}, func(t *rapid.T) gridCase {
		return drawGrid(t, 3)
	}, checkGrid)
}

// ---- Romberg ------------------------------------------------------------------

type rombergCase struct {
	K    int // 2^K+1 samples
	A    int // left end in units of 1/4
	LExp int // interval length 2^LExp
	C    []int
}

func checkRomberg(c rombergCase) *vk.Failure {
	k := c.K
	n := 1<<uint(k) + 1
	a := float64(c.A) / 4
	L := math.Ldexp(1, c.LExp)
	dx := math.Ldexp(L, -k)
	coef := intsToF(c.C)
	deg := len(coef) - 1
	vk.Class(fmt.Sprintf("romberg:k=%d", k))
	if deg == 2*k+1 {
		vk.Class("romberg:degree-at-exactness-boundary")
		vk.NonTrivial("romberg", k, c.A, c.LExp, fmt.Sprint(c.C))
	}
	vk.Sample("integrate-romberg", c)
	f := make([]float64, n)
	fmax := 0.0
	for i := range f {
		xi := a + float64(i)*dx // exact: dyadic with few bits
		f[i] = polyDD(coef, xi)
		fmax = math.Max(fmax, polyAbs(coef, xi))
	}
	got := integrate.Romberg(f, dx)
	want := polyInt(coef, a, a+L)
	// Samples carry one rounding each (eps*fmax); the trapezoid sums and the
	// k Richardson steps (amplification (4^j+1)/(4^j-1), product < 2) add a
	// few eps*fmax*L per level. Observed maximum ratio 0.03.
	tol := 16 * float64(k+2) * vk.Eps * fmax * L
	calib("romberg", math.Abs(got-want)/tol)
	if !(math.Abs(got-want) <= tol) {
		return vk.Failf("romberg-not-exact", "2^%d+1 samples, degree %d on [%v,%v]: got %v want %v (err %.3g tol %.3g)", k, deg, a, a+L, got, want, got-want, tol)
	}
	return nil
}

func TestRomberg(t *testing.T) {
	vk.Run(t, "integrate-romberg", vk.Opts{Quick: 4000, Thorough: 300000, NoCrumb: true}, func(t *rapid.T) rombergCase {
		k := rapid.IntRange(1, 7).Draw(t, "k")
		deg := 2*k + 1
		if rapid.IntRange(0, 2).Draw(t, "lower") == 0 {
			deg = rapid.IntRange(0, 2*k+1).Draw(t, "deg")
		}
		return rombergCase{
			K:    k,
			A:    rapid.IntRange(-8, 8).Draw(t, "a"),
			LExp: rapid.IntRange(-2, 1).Draw(t, "lexp"),
			C:    drawCoeffs(t, "c", deg, 8),
		}
	}, checkRomberg)
}

// ---- documented argument checks -------------------------------------------------

type gridPanicCase struct {
	G    gridCase
	Swap int // index of the pair made non-increasing
	Kind int // 0 unsorted, 1 repeated, 2 short, 3 length mismatch, 4 romberg arguments
}

func checkGridPanics(c gridPanicCase) *vk.Failure {
	x := c.G.grid()
	n := len(x)
	f := make([]float64, n)
	vk.Class(fmt.Sprintf("integrate-panics:kind=%d", c.Kind))
	vk.Sample("integrate-panics", c)
	i := c.Swap % (n - 1)
	switch c.Kind {
	case 0:
		x[i], x[i+1] = x[i+1], x[i]
		if fl := vk.MustPanic("trapezoidal-unsorted", func() { integrate.Trapezoidal(x, f) }); fl != nil {
			return fl
		}
		if n >= 3 {
			if fl := vk.MustPanic("simpsons-unsorted", func() { integrate.Simpsons(x, f) }); fl != nil {
				return fl
			}
		}
	case 1:
		x[i+1] = x[i]
		if n >= 3 {
			if fl := vk.MustPanic("simpsons-repeated-abscissa", func() { integrate.Simpsons(x, f) }); fl != nil {
				fl.Msg += fmt.Sprintf(" (x=%v)", x)
				return fl
			}
		}
	case 2:
		if fl := vk.MustPanic("trapezoidal-short", func() { integrate.Trapezoidal(x[:1], f[:1]) }); fl != nil {
			return fl
		}
		if fl := vk.MustPanic("trapezoidal-empty", func() { integrate.Trapezoidal(nil, nil) }); fl != nil {
			return fl
		}
		if fl := vk.MustPanic("simpsons-short", func() { integrate.Simpsons(x[:2], f[:2]) }); fl != nil {
			return fl
		}
		if fl := vk.MustPanic("romberg-short", func() { integrate.Romberg(f[:2], 1) }); fl != nil {
			return fl
		}
	case 3:
		if fl := vk.MustPanic("trapezoidal-length-mismatch", func() { integrate.Trapezoidal(x, f[:n-1]) }); fl != nil {
			return fl
		}
		if fl := vk.MustPanic("simpsons-length-mismatch", func() { integrate.Simpsons(x, append(f, 0)) }); fl != nil {
			return fl
		}
	default:
		m := n + 2 // >= 4
		g := make([]float64, m)
		pow2 := (m-1)&(m-2) == 0
		if !pow2 {
			if fl := vk.MustPanic("romberg-length-not-2^k+1", func() { integrate.Romberg(g, 1) }); fl != nil {
				fl.Msg += fmt.Sprintf(" (len %d)", m)
				return fl
			}
		} else if fl := vk.MustReturn("romberg-valid-length", func() { integrate.Romberg(g, 1) }); fl != nil {
			return fl
		}
		if fl := vk.MustPanic("romberg-dx<=0", func() { integrate.Romberg(make([]float64, 5), -float64(c.Swap)) }); fl != nil {
			return fl
		}
	}
	return nil
}

func TestIntegratePanics(t *testing.T) {
	vk.Run(t, "integrate-panics", vk.Opts{Quick: 1500, Thorough: 20000, NoCrumb: true}, func(t *rapid.T) gridPanicCase {
		return gridPanicCase{G: drawGrid(t, 0), Swap: rapid.IntRange(0, 100).Draw(t, "swap"), Kind: rapid.IntRange(0, 4).Draw(t, "kind")}
	}, checkGridPanics)
}
