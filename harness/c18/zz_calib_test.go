package c18

import (
	"fmt"
	"sort"
	"testing"
)

// TestZZCalibReport prints the largest observed error/tolerance ratios when
// C18_CALIB is set (development aid; asserts nothing).
func TestZZCalibReport(t *testing.T) {
	if !calibOn {
		return
	}
	calibMu.Lock()
	defer calibMu.Unlock()
	names := make([]string, 0, len(calibMx))
	for k := range calibMx {
		names = append(names, k)
	}
	sort.Strings(names)
	for _, k := range names {
		fmt.Printf("CALIB %-40s %.4g\n", k, calibMx[k])
	}
}
