package c18

import (
	"fmt"
	"math"
	"sort"
	"testing"

	"gonum.org/v1/gonum/interp"
	"pgregory.net/rapid"
	"verifharness/vk"
)

// interpolant types
const (
	tConst = iota
	tLinear
	tHermite // PiecewiseCubic.FitWithDerivatives
	tAkima
	tFB
	tNatural
	tClamped
	tNotAKnot
	nTypes
)

var typeName = []string{"PiecewiseConstant", "PiecewiseLinear", "PiecewiseCubic", "AkimaSpline", "FritschButland", "NaturalCubic", "ClampedCubic", "NotAKnotCubic"}

// knot classes
const (
	kUniform = iota
	kDyadic
	kGeometric
	kNearDup
	kRandom
	nKnotClasses
)

var knotName = []string{"uniform", "dyadic-irregular", "geometric", "near-duplicates", "random"}

// data classes
const (
	dIncreasing = iota
	dDecreasing
	dNonMonotone
	dPlateaus
	dPolynomial
	nDataClasses
)

var dataName = []string{"increasing", "decreasing", "non-monotone", "plateaus", "polynomial"}

type interpCase struct {
	Type  int
	Knots int // knot class
	Data  int // data class
	N     int
	Seed  uint64
	C     []int // polynomial coefficients for the polynomial data class
}

type predictor interface {
	Predict(float64) float64
}
type dpredictor interface {
	predictor
	PredictDerivative(float64) float64
}

func makeKnots(class, n int, r *vk.SplitMix) []float64 {
	xs := make([]float64, n)
	switch class {
	case kUniform:
		h := math.Ldexp(1, r.Intn(7)-4)
		x0 := float64(r.Intn(33) - 16)
		for i := range xs {
			xs[i] = x0 + float64(i)*h
		}
	case kDyadic:
		acc := float64(r.Intn(33)-16) / 4
		for i := range xs {
			xs[i] = acc
			acc += float64(1+r.Intn(32)) / 16
		}
	case kGeometric:
		// steps grow (or shrink) geometrically: clustering at one end
		rho := []float64{2, 1.5, 1.25, 0.8, 0.75}[r.Intn(5)]
		if n > 45 && rho < 1 {
			rho = 1 / rho
		}
		h := math.Ldexp(1, -r.Intn(6))
		if rho > 1 && n > 30 {
			h = math.Ldexp(1, -20)
		}
		acc := float64(r.Intn(9) - 4)
		if rho == 2 {
			acc = 0 // x_i = h (2^i - 1): clustering at the origin over many binades
		}
		for i := range xs {
			xs[i] = acc
			acc += h
			h *= rho
		}
	case kNearDup:
		acc := float64(r.Intn(33)-16) / 4
		for i := range xs {
			xs[i] = acc
			if r.Intn(3) == 0 {
				acc += 1000 * ulp(math.Max(math.Abs(acc), 0.25)) // a near-duplicate: about 10^3 ulp apart
			} else {
				acc += float64(1+r.Intn(32)) / 16
			}
		}
	default:
		for i := range xs {
			xs[i] = 20*r.Float() - 10
		}
		sort.Float64s(xs)
	}
	// enforce strict monotonicity (random class may repeat; geometric may stall)
	for i := 1; i < n; i++ {
		if !(xs[i] > xs[i-1]) {
			xs[i] = math.Nextafter(xs[i-1], math.Inf(1))
		}
	}
	return xs
}

func makeData(class int, xs []float64, coef []float64, r *vk.SplitMix) []float64 {
	n := len(xs)
	ys := make([]float64, n)
	switch class {
	case dIncreasing, dDecreasing:
		acc := r.Finite()
		for i := range ys {
			ys[i] = acc
			switch r.Intn(4) {
			case 0: // plateau inside monotone data
			case 1:
				acc += float64(1+r.Intn(16)) / 8
			default:
				acc += 3 * r.Float() * r.Float()
			}
		}
		if class == dDecreasing {
			for i := range ys {
				ys[i] = -ys[i]
			}
		}
	case dNonMonotone:
		for i := range ys {
			ys[i] = r.Finite()
		}
	case dPlateaus:
		level := float64(r.Intn(9) - 4)
		for i := range ys {
			if r.Intn(3) == 0 {
				level = float64(r.Intn(17)-8) / 2
			}
			ys[i] = level
		}
	default:
		for i := range ys {
			ys[i] = polyDD(coef, xs[i])
		}
	}
	return ys
}

// cubicSeg holds the coefficients of one cubic piece reconstructed from the
// exported API: a0 = Predict(x_i), a1 = PredictDerivative(x_i) and a2, a3 from
// value and derivative at the midpoint; e2, e3 bound the reconstruction error
// caused by the rounding of the library's Horner evaluations.
type cubicSeg struct {
	ok             bool // false when the interval holds too few floats to probe its interior
	dx             float64
	a0, a1, a2, a3 float64
	e2, e3         float64
}

func (s cubicSeg) val(t float64) float64  { return ((s.a3*t+s.a2)*t+s.a1)*t + s.a0 }
func (s cubicSeg) der(t float64) float64  { return (3*s.a3*t+2*s.a2)*t + s.a1 }
func (s cubicSeg) der2(t float64) float64 { return 6*s.a3*t + 2*s.a2 }

// scale returns the magnitude sum |a0|+|a1|t+|a2|t^2+|a3|t^3.
func (s cubicSeg) scale(t float64) float64 {
	return math.Abs(s.a0) + (math.Abs(s.a1)+(math.Abs(s.a2)+math.Abs(s.a3)*t)*t)*t
}

func reconstruct(p dpredictor, x0, x1 float64) cubicSeg {
	var s cubicSeg
	s.dx = x1 - x0
	xm := x0 + s.dx/2
	if !(s.dx >= 64*ulp(math.Max(math.Abs(x0), math.Abs(x1)))) || !(xm > x0 && xm < x1) {
		// (random knots may be adjacent floats): nothing to probe inside
		s.a0, s.a1 = p.Predict(x0), p.PredictDerivative(x0)
		return s
	}
	s.ok = true
	t := xm - x0 // the same float subtraction the library performs
	s.a0 = p.Predict(x0)
	s.a1 = p.PredictDerivative(x0)
	P, D := p.Predict(xm), p.PredictDerivative(xm)
	s.a2 = (3*(P-s.a0) - t*(D+2*s.a1)) / (t * t)
	s.a3 = (D - s.a1 - 2*s.a2*t) / (3 * t * t)
	V := s.scale(t) + math.Abs(P)
	W := math.Abs(s.a1) + math.Abs(D) + 2*math.Abs(s.a2)*t + 3*math.Abs(s.a3)*t*t
	eP, eD := 8*vk.Eps*V, 8*vk.Eps*W
	s.e2 = (3*eP + t*eD) / (t * t)
	s.e3 = (eD + 2*s.e2*t) / (3 * t * t)
	return s
}

// interpolation tolerances, in units of eps times the natural scale of the
// quantity; each was calibrated on the unchanged tree with all knot and data
// classes (the observed maximum ratio is quoted where the constant is used).
const (
	tolC0     = 16  // value continuity at the right end of a piece
	tolC1Herm = 16  // derivative continuity, Hermite-built cubics
	tolC1Spl  = 512 // derivative continuity of splines: depends on the banded solve
)

func checkInterp(c interpCase) *vk.Failure {
	r := vk.NewSplitMix(c.Seed)
	n := c.N
	xs := makeKnots(c.Knots, n, r)
	coef := intsToF(c.C)
	ys := makeData(c.Data, xs, coef, r)
	name := typeName[c.Type]
	vk.Class("interp:" + name)
	vk.Class("interp-knots:" + knotName[c.Knots])
	vk.Class("interp-data:" + dataName[c.Data])
	if n >= 4 && c.Knots != kUniform {
		vk.NonTrivial("interp", c.Type, c.Knots, c.Data, c.N, c.Seed, fmt.Sprint(c.C))
	}
	vk.Sample("interp", c)
	desc := fmt.Sprintf("%s knots=%s data=%s n=%d seed=%d", name, knotName[c.Knots], dataName[c.Data], n, c.Seed)

	// derivative data for FitWithDerivatives: exact for polynomial data, else drawn
	var dydx []float64
	if c.Type == tHermite {
		dydx = make([]float64, n)
		dc := polyDeriv(coef)
		for i := range dydx {
			if c.Data == dPolynomial {
				dydx[i] = polyDD(dc, xs[i])
			} else {
				dydx[i] = r.Finite()
			}
		}
	}
	xin := append([]float64(nil), xs...)
	yin := append([]float64(nil), ys...)
	var p predictor
	var err error
	fit := vk.Call(func() {
		switch c.Type {
		case tConst:
			q := &interp.PiecewiseConstant{}
			err = q.Fit(xin, yin)
			p = q
		case tLinear:
			q := &interp.PiecewiseLinear{}
			err = q.Fit(xin, yin)
			p = q
		case tHermite:
			q := &interp.PiecewiseCubic{}
			q.FitWithDerivatives(xin, yin, dydx)
			p = q
		case tAkima:
			q := &interp.AkimaSpline{}
			err = q.Fit(xin, yin)
			p = q
		case tFB:
			q := &interp.FritschButland{}
			err = q.Fit(xin, yin)
			p = q
		case tNatural:
			q := &interp.NaturalCubic{}
			err = q.Fit(xin, yin)
			p = q
		case tClamped:
			q := &interp.ClampedCubic{}
			err = q.Fit(xin, yin)
			p = q
		default:
			q := &interp.NotAKnotCubic{}
			err = q.Fit(xin, yin)
			p = q
		}
	})
	if fit.Outcome != vk.Returned {
		return vk.Failf("fit-panics-on-valid-input", "%s: %v %s", desc, fit.Outcome, fit.Text)
	}
	if !sameSlice(xin, xs) || !sameSlice(yin, ys) {
		return vk.Failf("fit-modifies-input", "%s", desc)
	}
	if err != nil {
		// "Returns an error if fitting fails": allowed; NotAKnotCubic with
		// exactly 3 knots always ends here (its system has an empty last row).
		if c.Type == tNotAKnot && n == 3 {
			// Three points are documented as valid ("panics if len(xs) < 3");
			// the not-a-knot spline with one interior node is the parabola.
			return vk.Failf("fit-error/NotAKnotCubic,n=3", "NotAKnotCubic.Fit(xs=%v, ys=%v) with three points, documented as valid, returns the error %q", xs, ys, err)
		}
		vk.Inconclusive(fmt.Sprintf("fit-error:%s,n=%d", name, minInt(n, 4)))
		if c.Knots == kNearDup || c.Knots == kGeometric || c.Knots == kRandom {
			return nil
		}
		return vk.Failf("fit-error-on-well-spaced-knots", "%s: %v", desc, err)
	}
	// the fitted predictor owns copies: later changes of the caller's slices
	// must not change predictions
	for i := range xin {
		xin[i], yin[i] = math.NaN(), math.NaN()
	}

	// (B) data reproduced at the knots
	for i := range xs {
		if got := p.Predict(xs[i]); vk.Ulps(got, ys[i]) > 2 {
			return vk.Failf("knot-not-reproduced", "%s: Predict(xs[%d]=%v)=%v, ys=%v", desc, i, xs[i], got, ys[i])
		}
	}
	// (C) extrapolation: constant continuation with the end values
	span := xs[n-1] - xs[0]
	for _, q := range []float64{math.Nextafter(xs[0], math.Inf(-1)), xs[0] - span, xs[0] - 1e6*span - 1, -math.MaxFloat64, math.Inf(-1)} {
		if got := p.Predict(q); !vk.SameBits(got, ys[0]) {
			return vk.Failf("extrapolation-left", "%s: Predict(%v)=%v, want ys[0]=%v", desc, q, got, ys[0])
		}
	}
	for _, q := range []float64{math.Nextafter(xs[n-1], math.Inf(1)), xs[n-1] + span, xs[n-1] + 1e6*span + 1, math.MaxFloat64, math.Inf(1)} {
		if got := p.Predict(q); !vk.SameBits(got, ys[n-1]) {
			return vk.Failf("extrapolation-right", "%s: Predict(%v)=%v, want ys[n-1]=%v", desc, q, got, ys[n-1])
		}
	}

	switch c.Type {
	case tConst:
		// left-continuous: the value on (xs[i], xs[i+1]] is ys[i+1]
		for i := 0; i+1 < n; i++ {
			for _, q := range []float64{math.Nextafter(xs[i], math.Inf(1)), xs[i] + (xs[i+1]-xs[i])/2, math.Nextafter(xs[i+1], math.Inf(-1))} {
				if q <= xs[i] || q > xs[i+1] {
					continue
				}
				if got := p.Predict(q); !vk.SameBits(got, ys[i+1]) {
					return vk.Failf("piecewise-constant-value", "%s: Predict(%v)=%v with xs[%d]=%v < x <= xs[%d]=%v, want ys[%d]=%v", desc, q, got, i, xs[i], i+1, xs[i+1], i+1, ys[i+1])
				}
			}
		}
		return nil
	case tLinear:
		for i := 0; i+1 < n; i++ {
			dx := xs[i+1] - xs[i]
			for k := 1; k <= 4; k++ {
				q := xs[i] + dx*float64(k)/4
				if k == 4 {
					q = math.Nextafter(xs[i+1], math.Inf(-1))
				}
				if !(q > xs[i] && q < xs[i+1]) {
					continue
				}
				// exact chord value in double-double
				var num vk.DD
				num.AddProd(ys[i+1], q-xs[i])
				num.AddProd(ys[i], xs[i+1]-q)
				want := num.Float() / dx
				tol := 16 * vk.Eps * (math.Abs(ys[i]) + math.Abs(ys[i+1])) // [ratio 0.18]
				got := p.Predict(q)
				calib("linear", math.Abs(got-want)/tol)
				if !(math.Abs(got-want) <= tol) {
					return vk.Failf("piecewise-linear-value", "%s: Predict(%v)=%v on [%v,%v] with data (%v,%v): chord %v", desc, q, got, xs[i], xs[i+1], ys[i], ys[i+1], want)
				}
			}
		}
		if c.Data == dPolynomial && len(coef) <= 2 {
			vk.Class("interp-reproduction:" + name)
		}
		return nil
	}

	// ---- cubic types ---------------------------------------------------------
	dp := p.(dpredictor)
	d := make([]float64, n)
	for i := range xs {
		d[i] = dp.PredictDerivative(xs[i])
	}
	if c.Type == tHermite {
		for i := range d {
			if !vk.SameBits(d[i], dydx[i]) {
				return vk.Failf("hermite-derivative-not-reproduced", "%s: PredictDerivative(xs[%d])=%v, given %v", desc, i, d[i], dydx[i])
			}
		}
	}
	segs := make([]cubicSeg, n-1)
	for i := range segs {
		segs[i] = reconstruct(dp, xs[i], xs[i+1])
	}
	spline := c.Type == tNatural || c.Type == tClamped || c.Type == tNotAKnot
	// NotAKnotCubic solves a banded system by LU with partial pivoting: its
	// rounding errors are relative to the largest second derivative of the
	// whole spline, not to the local one (the tridiagonal, diagonally
	// dominant systems of the other two splines are solved to componentwise
	// accuracy). wg1, wg2: global first- and second-derivative scales.
	wg1, wg2 := 0.0, 0.0
	if c.Type == tNotAKnot {
		for _, s := range segs {
			if s.ok {
				wg1 = math.Max(wg1, s.scale(s.dx)/s.dx)
				wg2 = math.Max(wg2, s.scale(s.dx)/(s.dx*s.dx))
			}
		}
	}
	for i, s := range segs {
		if !s.ok {
			vk.Class("interp:interval-too-small-to-probe")
			continue
		}
		V := s.scale(s.dx) + math.Abs(ys[i+1])
		eV := s.e2*s.dx*s.dx + s.e3*s.dx*s.dx*s.dx
		// the piece is one cubic: a second interior point agrees with the
		// reconstruction, in value and derivative
		xq := xs[i] + s.dx/4
		if xq > xs[i] && xq < xs[i+1] {
			tq := xq - xs[i]
			tol := tolC0*vk.Eps*V + eV
			if got, want := dp.Predict(xq), s.val(tq); !(math.Abs(got-want) <= tol) {
				return vk.Failf("piece-not-a-cubic", "%s: piece %d: Predict(%v)=%v but the cubic through value/derivative at the left knot and midpoint gives %v (tol %.3g)", desc, i, xq, got, want, tol)
			}
			tolD := (tolC0*vk.Eps*V + eV) / s.dx * 4
			if got, want := dp.PredictDerivative(xq), s.der(tq); !(math.Abs(got-want) <= tolD) {
				return vk.Failf("derivative-inconsistent-with-value", "%s: piece %d: PredictDerivative(%v)=%v, cubic gives %v (tol %.3g)", desc, i, xq, got, want, tolD)
			}
		}
		// C0 at the right knot [observed ratio 0.06]
		tol := tolC0*vk.Eps*V + eV
		calib("interp-C0-"+name, math.Abs(s.val(s.dx)-ys[i+1])/tol)
		if !(math.Abs(s.val(s.dx)-ys[i+1]) <= tol) {
			return vk.Failf("value-discontinuous", "%s: piece %d reaches %v at xs[%d]=%v, data %v (tol %.3g)", desc, i, s.val(s.dx), i+1, xs[i+1], ys[i+1], tol)
		}
		// C1 at the right knot. Hermite-built cubics: by construction up to
		// rounding [ratio 0.08]. Splines: up to the backward error of the
		// banded solve, larger for clustered knots [ratio 0.06].
		k1 := float64(tolC1Herm)
		if spline {
			k1 = tolC1Spl
		}
		W := V/s.dx + math.Abs(d[i+1]) + wg1
		if i+1 < len(segs) && segs[i+1].ok {
			W += segs[i+1].scale(segs[i+1].dx) / segs[i+1].dx
		}
		tol1 := k1*vk.Eps*W + (2*s.e2*s.dx + 3*s.e3*s.dx*s.dx)
		calib("interp-C1-"+name+"-"+knotName[c.Knots], math.Abs(s.der(s.dx)-d[i+1])/tol1)
		if !(math.Abs(s.der(s.dx)-d[i+1]) <= tol1) {
			if c.Type == tNotAKnot && math.Abs(s.der(s.dx)-d[i+1]) <= 64*nakKappa(xs)*vk.Eps*W {
				// signature of the ill-scaled boundary rows (see nakKappa)
				return vk.Failf("derivative-discontinuous/NotAKnotCubic-tiny-end-interval", "%s: xs=%v: piece %d has slope %.12g at xs[%d]=%v but PredictDerivative there is %.12g (difference %.3g; tolerance for a row-wise stable solve %.3g)", desc, xs, i, s.der(s.dx), i+1, xs[i+1], d[i+1], s.der(s.dx)-d[i+1], tol1)
			}
			return vk.Failf("derivative-discontinuous", "%s: piece %d has slope %v at xs[%d]=%v, PredictDerivative there %v (tol %.3g)", desc, i, s.der(s.dx), i+1, xs[i+1], d[i+1], tol1)
		}
	}
	wellSpaced := c.Knots == kUniform || c.Knots == kDyadic
	if spline {
		// C2 across interior knots (by construction in fitWithSecondDerivatives,
		// up to rounding) [ratio 0.1]
		for i := 0; i+1 < len(segs); i++ {
			s, nx := segs[i], segs[i+1]
			if !s.ok || !nx.ok {
				continue
			}
			W2 := s.scale(s.dx)/(s.dx*s.dx) + nx.scale(nx.dx)/(nx.dx*nx.dx)
			tol := 64*vk.Eps*W2 + 2*s.e2 + 6*s.e3*s.dx + 2*nx.e2
			calib("interp-C2-"+name, math.Abs(s.der2(s.dx)-nx.der2(0))/tol)
			if !(math.Abs(s.der2(s.dx)-nx.der2(0)) <= tol) {
				return vk.Failf("second-derivative-discontinuous", "%s: y'' jumps from %v to %v at xs[%d]=%v (tol %.3g)", desc, s.der2(s.dx), nx.der2(0), i+1, xs[i+1], tol)
			}
		}
		first, last := segs[0], segs[len(segs)-1]
		endsOK := first.ok && last.ok && (n < 4 || (segs[1].ok && segs[len(segs)-2].ok))
		switch {
		case !endsOK:
		case c.Type == tNatural:
			// The end second derivatives come out of the solve of the global
			// tridiagonal system, so their rounding error scales with the largest
			// second-derivative scale of any segment, not with that of the end
			// segment (a nearly straight first segment next to a strongly curved
			// one: y''(left) = 2.4e-17 against a local tolerance of 9e-18).
			gW2 := 0.0
			for _, sg := range segs {
				if sg.ok {
					gW2 = math.Max(gW2, sg.scale(sg.dx)/(sg.dx*sg.dx))
				}
			}
			tolL := 64*vk.Eps*gW2 + 2*first.e2
			tolR := 64*vk.Eps*gW2 + 2*last.e2 + 6*last.e3*last.dx
			calib("interp-natural-bc", math.Max(math.Abs(first.der2(0))/tolL, math.Abs(last.der2(last.dx))/tolR))
			if !(math.Abs(first.der2(0)) <= tolL) || !(math.Abs(last.der2(last.dx)) <= tolR) {
				return vk.Failf("natural-boundary-condition", "%s: y''(left end)=%v (tol %.3g), y''(right end)=%v (tol %.3g)", desc, first.der2(0), tolL, last.der2(last.dx), tolR)
			}
		case c.Type == tClamped:
			// y' = 0 at both ends: the end slopes come out of the solve
			// [ratio 0.01]
			tolL := tolC1Spl * vk.Eps * first.scale(first.dx) / first.dx
			tolR := tolC1Spl * vk.Eps * last.scale(last.dx) / last.dx
			calib("interp-clamped-bc-"+knotName[c.Knots], math.Max(math.Abs(d[0])/tolL, math.Abs(d[n-1])/tolR))
			if !(math.Abs(d[0]) <= tolL) || !(math.Abs(d[n-1]) <= tolR) {
				return vk.Failf("clamped-boundary-condition", "%s: y'(left end)=%v (tol %.3g), y'(right end)=%v (tol %.3g)", desc, d[0], tolL, d[n-1], tolR)
			}
		case c.Type == tNotAKnot:
			if n >= 4 {
				a, b := segs[0], segs[1]
				W3 := a.scale(a.dx)/(a.dx*a.dx*a.dx) + b.scale(b.dx)/(b.dx*b.dx*b.dx) + wg2/math.Min(a.dx, b.dx)
				tolL := 6 * (tolC1Spl*vk.Eps*W3 + a.e3 + b.e3)
				y, z := segs[len(segs)-2], last
				W3 = y.scale(y.dx)/(y.dx*y.dx*y.dx) + z.scale(z.dx)/(z.dx*z.dx*z.dx) + wg2/math.Min(y.dx, z.dx)
				tolR := 6 * (tolC1Spl*vk.Eps*W3 + y.e3 + z.e3)
				calib("interp-notaknot-bc-"+knotName[c.Knots], math.Max(6*math.Abs(a.a3-b.a3)/tolL, 6*math.Abs(y.a3-z.a3)/tolR))
				if !(6*math.Abs(a.a3-b.a3) <= tolL) || !(6*math.Abs(y.a3-z.a3) <= tolR) {
					return vk.Failf("not-a-knot-condition", "%s: y''' is %v | %v around xs[1] (tol %.3g) and %v | %v around xs[n-2] (tol %.3g)", desc, 6*a.a3, 6*b.a3, tolL, 6*y.a3, 6*z.a3, tolR)
				}
			}
		}
	}

	// reference slopes of the local methods, from the cited papers
	if c.Type == tFB && n >= 3 {
		for i := 1; i+1 < n; i++ {
			h1, h2 := xs[i]-xs[i-1], xs[i+1]-xs[i]
			s1, s2 := (ys[i]-ys[i-1])/h1, (ys[i+1]-ys[i])/h2
			want := 0.0
			if s1*s2 > 0 {
				// Fritsch-Butland (Brodlie) harmonic mean:
				// 1/d = alpha/s1 + (1-alpha)/s2, alpha = (h1+2 h2)/(3 (h1+h2))
				alpha := (h1 + 2*h2) / (3 * (h1 + h2))
				want = 1 / (alpha/s1 + (1-alpha)/s2)
			}
			// A product s1*s2 that underflows or is within rounding of zero may
			// legitimately fall on either side of the sign test.
			if s1*s2 != 0 && math.Abs(s1*s2) < 1e-290 {
				continue
			}
			// the library forms 2 x[i+1]-x[i-1]-x[i] etc. from the raw knots,
			// which costs eps |x| / h relative accuracy on top of the roundings
			relTol := vk.Eps * (32 + 8*math.Max(math.Abs(xs[i-1]), math.Abs(xs[i+1]))/math.Min(h1, h2))
			calib("interp-fb-slope", math.Abs(d[i]-want)/(relTol*math.Abs(want)))
			if !(math.Abs(d[i]-want) <= relTol*math.Abs(want)) {
				return vk.Failf("fritsch-butland-slope", "%s: slope at xs[%d] is %v, harmonic-mean formula gives %v (secants %v, %v; h %v, %v)", desc, i, d[i], want, s1, s2, h1, h2)
			}
		}
	}
	if c.Type == tAkima && n >= 3 {
		m := make([]float64, n+3) // secant slopes with two extrapolated on each side
		for i := 0; i+1 < n; i++ {
			m[i+2] = (ys[i+1] - ys[i]) / (xs[i+1] - xs[i])
		}
		m[1] = 2*m[2] - m[3]
		m[0] = 2*m[1] - m[2]
		m[n+1] = 2*m[n] - m[n-1]
		m[n+2] = 2*m[n+1] - m[n]
		for i := 0; i < n; i++ {
			a, b := m[i+1], m[i+2] // secants left and right of knot i
			w1, w2 := math.Abs(m[i+3]-m[i+2]), math.Abs(m[i+1]-m[i])
			want := (a + b) / 2
			if w1+w2 > 0 {
				want = (w1*a + w2*b) / (w1 + w2)
			}
			// rounding of the weights (differences of rounded secants, which for
			// the end knots are themselves extrapolated) moves the weighted
			// mean inside [a,b]
			big := 0.0
			for k := i; k <= i+3; k++ {
				big = math.Max(big, math.Abs(m[k]))
			}
			ew := 16 * vk.Eps * big
			tol := 16 * vk.Eps * math.Max(math.Abs(a), math.Abs(b))
			if w1+w2 > 0 {
				tol += math.Abs(a-b) * 2 * ew / (w1 + w2)
			}
			if w1+w2 <= 8*ew {
				continue // weights are rounding noise: either branch is acceptable
			}
			if !(math.Abs(d[i]-want) <= tol) {
				return vk.Failf("akima-slope", "%s: slope at xs[%d] is %v, Akima's formula gives %v (tol %.3g)", desc, i, d[i], want, tol)
			}
		}
	}

	// monotone variant: no new extrema on any interval
	if c.Type == tFB {
		for i, s := range segs {
			if !s.ok {
				continue
			}
			lo, hi := math.Min(ys[i], ys[i+1]), math.Max(ys[i], ys[i+1])
			V := s.scale(s.dx) + math.Abs(ys[i+1])
			tol := 16 * vk.Eps * V
			pts := make([]float64, 0, 36)
			for k := 1; k <= 32; k++ {
				pts = append(pts, xs[i]+s.dx*float64(k)/33)
			}
			// critical points of the reconstructed cubic
			if A, B, C := 3*s.a3, 2*s.a2, s.a1; A != 0 {
				if disc := B*B - 4*A*C; disc >= 0 {
					sq := math.Sqrt(disc)
					pts = append(pts, xs[i]+(-B+sq)/(2*A), xs[i]+(-B-sq)/(2*A))
				}
			} else if B != 0 {
				pts = append(pts, xs[i]-C/B)
			}
			sort.Float64s(pts)
			prev := ys[i]
			sign := ys[i+1] - ys[i]
			for _, q := range pts {
				if !(q > xs[i] && q < xs[i+1]) {
					continue
				}
				v := dp.Predict(q)
				if v < lo-tol || v > hi+tol {
					return vk.Failf("monotone-overshoot", "%s: Predict(%v)=%v leaves the data range [%v,%v] of interval [%v,%v] (tol %.3g)", desc, q, v, lo, hi, xs[i], xs[i+1], tol)
				}
				if (sign >= 0 && v < prev-tol) || (sign <= 0 && v > prev+tol) {
					return vk.Failf("monotone-violated", "%s: interval [%v,%v] data (%v,%v): value %v at %v after %v", desc, xs[i], xs[i+1], ys[i], ys[i+1], v, q, prev)
				}
				prev = v
			}
		}
		vk.Class("interp-monotone:checked")
	}

	// polynomial reproduction on exactly representable data
	if c.Data == dPolynomial {
		deg := len(coef) - 1
		ok := false
		switch c.Type {
		case tHermite:
			ok = deg <= 3
		case tNotAKnot:
			ok = (deg <= 3 && n >= 4) || (deg <= 2 && n == 3)
		case tNatural, tAkima, tFB:
			ok = deg <= 1
		case tClamped:
			ok = deg == 0
		}
		if ok && wellSpaced {
			vk.Class(fmt.Sprintf("interp-reproduction:%s,degree=%d", name, deg))
			dc := polyDeriv(coef)
			for i := 0; i+1 < n; i++ {
				for k := 1; k <= 3; k++ {
					q := xs[i] + (xs[i+1]-xs[i])*float64(k)/4
					S := polyAbs(coef, math.Max(math.Abs(xs[i]), math.Abs(xs[i+1])))
					// Hermite-built: rounding only [ratio 0.05]; splines: the
					// solve on knots with spacing ratio <= 32 [ratio 0.02]
					tol := 256 * vk.Eps * S
					if spline {
						tol = 512 * vk.Eps * S
					}
					got, want := dp.Predict(q), polyDD(coef, q)
					calib("interp-repro-"+name, math.Abs(got-want)/tol)
					if !(math.Abs(got-want) <= tol) {
						return vk.Failf("polynomial-not-reproduced", "%s: degree %d %v: Predict(%v)=%v want %v (tol %.3g)", desc, deg, c.C, q, got, want, tol)
					}
					SD := polyAbs(dc, math.Max(math.Abs(xs[i]), math.Abs(xs[i+1]))) + S/(xs[i+1]-xs[i])
					gd, wd := dp.PredictDerivative(q), polyDD(dc, q)
					if !(math.Abs(gd-wd) <= 4*tol/S*SD) {
						return vk.Failf("polynomial-derivative-not-reproduced", "%s: degree %d %v: PredictDerivative(%v)=%v want %v", desc, deg, c.C, q, gd, wd)
					}
				}
			}
		}
	}
	return nil
}

// nakKappa is the ratio between the largest entry of the not-a-knot boundary
// rows (1/dx of the two intervals at either end) and the size of the entries
// of the continuity rows (dx/3): NotAKnotCubic.Fit solves the unscaled system
// by banded LU with partial pivoting, whose error grows with this ratio.
func nakKappa(xs []float64) float64 {
	n := len(xs)
	big, dmax := 0.0, 0.0
	for i := 0; i+1 < n; i++ {
		dx := xs[i+1] - xs[i]
		dmax = math.Max(dmax, dx)
		if i < 2 || i >= n-3 {
			big = math.Max(big, 1/dx)
		}
	}
	return 1 + big/(dmax/3)
}

func minInt(a, b int) int {
	if a < b {
		return a
	}
	return b
}

func drawInterpCase(t *rapid.T) interpCase {
	c := interpCase{
		Type:  rapid.IntRange(0, nTypes-1).Draw(t, "type"),
		Knots: rapid.IntRange(0, nKnotClasses-1).Draw(t, "knots"),
		Data:  rapid.IntRange(0, nDataClasses-1).Draw(t, "data"),
		Seed:  rapid.Uint64().Draw(t, "seed"),
	}
	lo := 2
	if c.Type == tNotAKnot {
		lo = 3
	}
	c.N = vk.Dim(t, "n", lo, 100, 4, 5)
	if c.Data == dPolynomial {
		// keep the data exactly representable: dyadic knots only
		if c.Knots != kUniform && c.Knots != kDyadic {
			c.Knots = rapid.IntRange(kUniform, kDyadic).Draw(t, "polyknots")
		}
		maxDeg := 3
		switch c.Type {
		case tConst, tClamped:
			maxDeg = 0
		case tLinear, tNatural, tAkima, tFB:
			maxDeg = 1
		}
		c.C = drawCoeffs(t, "c", rapid.IntRange(0, maxDeg).Draw(t, "deg"), 6)
	}
	return c
}

func TestInterp(t *testing.T) {
	vk.Run(t, "interp", vk.Opts{Quick: 14000, Thorough: 1500000, NoCrumb: true}, drawInterpCase, checkInterp)
}

// ---- documented panics ---------------------------------------------------------

type interpPanicCase struct {
	Type int
	Kind int // 0 non-increasing, 1 length mismatch, 2 too few, 3 rejected refit
	N    int
	At   int
	Seed uint64
}

func fitType(typ int, xs, ys []float64) error {
	switch typ {
	case tConst:
		return (&interp.PiecewiseConstant{}).Fit(xs, ys)
	case tLinear:
		return (&interp.PiecewiseLinear{}).Fit(xs, ys)
	case tHermite:
		d := make([]float64, len(xs))
		(&interp.PiecewiseCubic{}).FitWithDerivatives(xs, ys, d)
		return nil
	case tAkima:
		return (&interp.AkimaSpline{}).Fit(xs, ys)
	case tFB:
		return (&interp.FritschButland{}).Fit(xs, ys)
	case tNatural:
		return (&interp.NaturalCubic{}).Fit(xs, ys)
	case tClamped:
		return (&interp.ClampedCubic{}).Fit(xs, ys)
	}
	return (&interp.NotAKnotCubic{}).Fit(xs, ys)
}

func checkInterpPanics(c interpPanicCase) *vk.Failure {
	r := vk.NewSplitMix(c.Seed)
	name := typeName[c.Type]
	vk.Class(fmt.Sprintf("interp-panics:%s,kind=%d", name, c.Kind))
	vk.Sample("interp-panics", c)
	minN := 2
	if c.Type == tNotAKnot {
		minN = 3
	}
	switch c.Kind {
	case 0: // xs not strictly increasing: one pair equal or swapped
		n := c.N
		if n < minN {
			n = minN
		}
		xs := makeKnots(kDyadic, n, r)
		ys := makeData(dNonMonotone, xs, nil, r)
		i := c.At % (n - 1)
		how := "equal"
		if c.At%2 == 0 {
			xs[i+1] = xs[i]
		} else {
			xs[i], xs[i+1] = xs[i+1], xs[i]
			how = "swapped"
		}
		var err error
		res := vk.Call(func() { err = fitType(c.Type, xs, ys) })
		switch res.Outcome {
		case vk.PackagePanic:
			return nil
		case vk.RuntimeFault:
			return vk.Failf("non-increasing-xs-runtime-fault/"+name, "%s.Fit with xs[%d],xs[%d] %s (n=%d): %s", name, i, i+1, how, n, res.Text)
		}
		return vk.Failf(fmt.Sprintf("non-increasing-xs-accepted/%s,n=%d", name, minInt(n, 3)), "%s.Fit with xs=%v (xs[%d],xs[%d] %s) is documented to panic but returned err=%v", name, xs, i, i+1, how, err)
	case 1: // length mismatch
		n := c.N
		if n < minN {
			n = minN
		}
		xs := makeKnots(kDyadic, n, r)
		ys := make([]float64, n+1-2*(c.At%2))
		if f := vk.MustPanic("length-mismatch/"+name, func() { fitType(c.Type, xs, ys) }); f != nil {
			f.Msg += fmt.Sprintf(" (%s len(xs)=%d len(ys)=%d)", name, n, len(ys))
			return f
		}
		if c.Type == tHermite {
			if f := vk.MustPanic("length-mismatch-derivatives", func() {
				(&interp.PiecewiseCubic{}).FitWithDerivatives(xs, make([]float64, n), make([]float64, n+1))
			}); f != nil {
				return f
			}
		}
	case 3: // a rejected Fit leaves a previously fitted receiver usable and unchanged
		na := c.N + 3
		xa := makeKnots(kDyadic, na, r)
		ya := makeData(dNonMonotone, xa, nil, r)
		p := newOfType(c.Type)
		if err := fitOn(p, xa, ya, make([]float64, na)); err != nil {
			return nil
		}
		q := probes(xa)
		before := record(p, q)
		nb := c.N
		if c.At%3 == 0 {
			nb = minN // two (three) points: the shortest input that reaches the spacing check
		}
		if nb < minN {
			nb = minN
		}
		xb := makeKnots(kDyadic, nb, r)
		yb := makeData(dNonMonotone, xb, nil, r)
		i := c.At % (nb - 1)
		xb[i+1] = xb[i]
		res := vk.Call(func() { fitOn(p, xb, yb, make([]float64, nb)) })
		if res.Outcome == vk.Returned {
			return nil // reported by kind 0
		}
		var after []float64
		res = vk.Call(func() { after = record(p, q) })
		if res.Outcome != vk.Returned {
			return vk.Failf("rejected-fit-corrupts-receiver/"+name, "%s: fitted with %d points, then Fit with xs=%v panicked as documented (xs[%d]=xs[%d]); afterwards Predict on the receiver ends in %v: %s", name, na, xb, i, i+1, res.Outcome, res.Text)
		}
		if !sameSlice(before, after) {
			return vk.Failf("rejected-fit-changes-receiver/"+name, "%s: fitted with %d points, then Fit with xs=%v panicked as documented; predictions of the receiver changed", name, na, xb)
		}
	default: // too few points
		for n := 0; n < minN; n++ {
			xs := makeKnots(kDyadic, n, r)
			ys := make([]float64, n)
			res := vk.Call(func() { fitType(c.Type, xs, ys) })
			switch res.Outcome {
			case vk.Returned:
				return vk.Failf(fmt.Sprintf("too-few-points-accepted/%s,n=%d", name, n), "%s.Fit with %d points returned", name, n)
			case vk.RuntimeFault:
				return vk.Failf(fmt.Sprintf("too-few-points-runtime-fault/%s,n=%d", name, n), "%s.Fit with %d points: documented to panic (too few points) but fails with %s", name, n, res.Text)
			}
		}
	}
	return nil
}

func TestInterpPanics(t *testing.T) {
	vk.Run(t, "interp-panics", vk.Opts{Quick: 2000, Thorough: 30000, NoCrumb: true}, func(t *rapid.T) interpPanicCase {
		return interpPanicCase{
			Type: rapid.IntRange(0, nTypes-1).Draw(t, "type"),
			Kind: rapid.IntRange(0, 3).Draw(t, "kind"),
			N:    vk.Dim(t, "n", 2, 12, 3),
			At:   rapid.IntRange(0, 50).Draw(t, "at"),
			Seed: rapid.Uint64().Draw(t, "seed"),
		}
	}, checkInterpPanics)
}
