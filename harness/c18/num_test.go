package c18

import (
	"fmt"
	"math"
	"math/cmplx"
	"testing"

	"gonum.org/v1/gonum/num/dual"
	"gonum.org/v1/gonum/num/dualcmplx"
	"gonum.org/v1/gonum/num/dualquat"
	"gonum.org/v1/gonum/num/hyperdual"
	"gonum.org/v1/gonum/num/quat"
	"pgregory.net/rapid"
	"verifharness/vk"
)

// ---- elementary functions of dual and hyperdual numbers -----------------------

// elemFn: a real function with closed-form first and second derivatives, its
// dual and hyperdual liftings, and the domain of the real part (in units of
// 1/8) away from singularities.
type elemFn struct {
	name       string
	f, d1, d2  func(a float64) float64
	du         func(dual.Number) dual.Number
	hy         func(hyperdual.Number) hyperdual.Number
	lo, hi     int  // real part in [lo/8, hi/8]
	zeroSpecal bool // the implementation has a special case at real part 0
}

func sq(x float64) float64 { return x * x }

var elemFns = []elemFn{
	{"Exp", math.Exp, math.Exp, math.Exp, dual.Exp, hyperdual.Exp, -32, 32, false},
	{"Log", math.Log, func(a float64) float64 { return 1 / a }, func(a float64) float64 { return -1 / (a * a) }, dual.Log, hyperdual.Log, 1, 128, false},
	{"Sqrt", math.Sqrt, func(a float64) float64 { return 0.5 / math.Sqrt(a) }, func(a float64) float64 { return -0.25 / (a * math.Sqrt(a)) }, dual.Sqrt, hyperdual.Sqrt, 1, 128, false},
	{"Inv", func(a float64) float64 { return 1 / a }, func(a float64) float64 { return -1 / (a * a) }, func(a float64) float64 { return 2 / (a * a * a) }, dual.Inv, hyperdual.Inv, 1, 64, false},
	{"Sin", math.Sin, math.Cos, func(a float64) float64 { return -math.Sin(a) }, dual.Sin, hyperdual.Sin, -32, 32, true},
	{"Cos", math.Cos, func(a float64) float64 { return -math.Sin(a) }, func(a float64) float64 { return -math.Cos(a) }, dual.Cos, hyperdual.Cos, -32, 32, false},
	{"Tan", math.Tan, func(a float64) float64 { return 1 / sq(math.Cos(a)) }, func(a float64) float64 { return 2 * math.Tan(a) / sq(math.Cos(a)) }, dual.Tan, hyperdual.Tan, -11, 11, true},
	{"Asin", math.Asin, func(a float64) float64 { return 1 / math.Sqrt(1-a*a) }, func(a float64) float64 { return a / ((1 - a*a) * math.Sqrt(1-a*a)) }, dual.Asin, hyperdual.Asin, -7, 7, true},
	{"Acos", math.Acos, func(a float64) float64 { return -1 / math.Sqrt(1-a*a) }, func(a float64) float64 { return -a / ((1 - a*a) * math.Sqrt(1-a*a)) }, dual.Acos, hyperdual.Acos, -7, 7, false},
	{"Atan", math.Atan, func(a float64) float64 { return 1 / (1 + a*a) }, func(a float64) float64 { return -2 * a / sq(1+a*a) }, dual.Atan, hyperdual.Atan, -64, 64, true},
	{"Sinh", math.Sinh, math.Cosh, math.Sinh, dual.Sinh, hyperdual.Sinh, -32, 32, true},
	{"Cosh", math.Cosh, math.Sinh, math.Cosh, dual.Cosh, hyperdual.Cosh, -32, 32, false},
	{"Tanh", math.Tanh, func(a float64) float64 { return 1 - sq(math.Tanh(a)) }, func(a float64) float64 { return -2 * math.Tanh(a) * (1 - sq(math.Tanh(a))) }, dual.Tanh, hyperdual.Tanh, -24, 24, true},
	{"Asinh", math.Asinh, func(a float64) float64 { return 1 / math.Sqrt(1+a*a) }, func(a float64) float64 { return -a / ((1 + a*a) * math.Sqrt(1+a*a)) }, dual.Asinh, hyperdual.Asinh, -64, 64, true},
	{"Acosh", math.Acosh, func(a float64) float64 { return 1 / math.Sqrt(a*a-1) }, func(a float64) float64 { return -a / ((a*a - 1) * math.Sqrt(a*a-1)) }, dual.Acosh, hyperdual.Acosh, 9, 64, false},
	{"Atanh", math.Atanh, func(a float64) float64 { return 1 / (1 - a*a) }, func(a float64) float64 { return 2 * a / sq(1-a*a) }, dual.Atanh, hyperdual.Atanh, -7, 7, true},
}

type elemCase struct {
	Fn         int
	A          int // real part in units of 1/8
	B1, B2, B3 int // infinitesimal parts in units of 1/4
	P          int // exponent for the PowReal/Pow check, in units of 1/2
}

func relClose(got, want, scale, k float64) bool {
	return math.Abs(got-want) <= k*vk.Eps*scale
}

func checkElem(c elemCase) *vk.Failure {
	fn := elemFns[c.Fn]
	a := float64(c.A) / 8
	b1, b2, b12 := float64(c.B1)/4, float64(c.B2)/4, float64(c.B3)/4
	vk.Class("dual-elementary:" + fn.name)
	if c.A == 0 {
		vk.Class("dual-elementary:real-part-zero")
	}
	vk.NonTrivial("elem", c.Fn, c.A, c.B1, c.B2, c.B3, c.P)
	vk.Sample("num-elementary", c)
	f0, f1, f2 := fn.f(a), fn.d1(a), fn.d2(a)

	// dual: (f(a), f'(a) b)
	gd := fn.du(dual.Number{Real: a, Emag: b1})
	if !relClose(gd.Real, f0, math.Abs(f0), 8) {
		return vk.Failf("dual-value/"+fn.name, "dual.%s(%v+%vϵ).Real=%v want %v", fn.name, a, b1, gd.Real, f0)
	}
	if !relClose(gd.Emag, f1*b1, math.Abs(f1*b1), 32) {
		return vk.Failf("dual-derivative/"+fn.name, "dual.%s(%v+%vϵ).Emag=%v want f'(a)b=%v", fn.name, a, b1, gd.Emag, f1*b1)
	}
	// hyperdual: (f, f' b1, f' b2, f' b12 + f'' b1 b2)
	gh := fn.hy(hyperdual.Number{Real: a, E1mag: b1, E2mag: b2, E1E2mag: b12})
	if !relClose(gh.Real, f0, math.Abs(f0), 8) {
		return vk.Failf("hyperdual-value/"+fn.name, "hyperdual.%s real part %v want %v (a=%v)", fn.name, gh.Real, f0, a)
	}
	if !relClose(gh.E1mag, f1*b1, math.Abs(f1*b1), 32) || !relClose(gh.E2mag, f1*b2, math.Abs(f1*b2), 32) {
		key := "hyperdual-first-derivative/"
		if c.A == 0 && fn.zeroSpecal {
			key = "hyperdual-first-derivative-at-zero/"
		}
		return vk.Failf(key+fn.name, "hyperdual.%s(%v+%vϵ₁+%vϵ₂+%vϵ₁ϵ₂)=%v want ϵ parts %v, %v", fn.name, a, b1, b2, b12, gh, f1*b1, f1*b2)
	}
	want12 := f1*b12 + f2*b1*b2
	scale12 := math.Abs(f1*b12) + math.Abs(f2*b1*b2)
	if !relClose(gh.E1E2mag, want12, scale12, 64) {
		if c.A == 0 && fn.zeroSpecal && gh.E1E2mag == 0 {
			return vk.Failf("hyperdual-e1e2-dropped-at-zero", "hyperdual.%s(0+%vϵ₁+%vϵ₂+%vϵ₁ϵ₂)=%v: the ϵ₁ϵ₂ part must be f'(0)·%v + f''(0)·%v·%v = %v, the special case for a zero real part returns ±0", fn.name, b1, b2, b12, gh, b12, b1, b2, want12)
		}
		return vk.Failf("hyperdual-second-derivative/"+fn.name, "hyperdual.%s(%v+%vϵ₁+%vϵ₂+%vϵ₁ϵ₂).E1E2mag=%v want f'(a)b12+f''(a)b1b2=%v", fn.name, a, b1, b2, b12, gh.E1E2mag, want12)
	}

	// PowReal and Pow on a positive base: x^p with (p a^(p-1), p(p-1) a^(p-2))
	if a > 0 {
		p := float64(c.P) / 2
		pw := math.Pow(a, p)
		d1 := p * math.Pow(a, p-1)
		d2 := p * (p - 1) * math.Pow(a, p-2)
		gp := dual.PowReal(dual.Number{Real: a, Emag: b1}, p)
		if !relClose(gp.Real, pw, pw, 8) || !relClose(gp.Emag, d1*b1, math.Abs(d1*b1), 32) {
			return vk.Failf("dual-powreal", "dual.PowReal(%v+%vϵ, %v)=%v want (%v, %v)", a, b1, p, gp, pw, d1*b1)
		}
		hp := hyperdual.PowReal(hyperdual.Number{Real: a, E1mag: b1, E2mag: b2, E1E2mag: b12}, p)
		w12 := d1*b12 + d2*b1*b2
		if !relClose(hp.Real, pw, pw, 8) || !relClose(hp.E1mag, d1*b1, math.Abs(d1*b1), 32) || !relClose(hp.E2mag, d1*b2, math.Abs(d1*b2), 32) ||
			!relClose(hp.E1E2mag, w12, math.Abs(d1*b12)+math.Abs(d2*b1*b2), 64) {
			return vk.Failf("hyperdual-powreal", "hyperdual.PowReal(%v+%vϵ₁+%vϵ₂+%vϵ₁ϵ₂, %v)=%v want (%v, %v, %v, %v)", a, b1, b2, b12, p, hp, pw, d1*b1, d1*b2, w12)
		}
		// Pow with a dual exponent y = p + b2 ϵ: d(x^y) = x^y (y' ln a + p x'/a).
		// It is computed as Exp(Mul(y, Log x)): the condition of the value is
		// |p ln a|.
		gq := dual.Pow(dual.Number{Real: a, Emag: b1}, dual.Number{Real: p, Emag: b2})
		cond := 1 + math.Abs(p*math.Log(a))
		wd := pw * (b2*math.Log(a) + p*b1/a)
		sd := pw * (math.Abs(b2*math.Log(a)) + math.Abs(p*b1/a))
		if !relClose(gq.Real, pw, pw*cond, 16) || !relClose(gq.Emag, wd, sd*cond+math.Abs(wd), 32) {
			return vk.Failf("dual-pow", "dual.Pow(%v+%vϵ, %v+%vϵ)=%v want (%v, %v)", a, b1, p, b2, gq, pw, wd)
		}
		// integer exponents agree with repeated multiplication
		if c.P%2 == 0 && c.P >= 0 && c.P <= 8 {
			n := c.P / 2
			x := dual.Number{Real: a, Emag: b1}
			m := dual.Number{Real: 1}
			for i := 0; i < n; i++ {
				m = dual.Mul(m, x)
			}
			gi := dual.PowReal(x, float64(n))
			if !relClose(gi.Real, m.Real, math.Abs(m.Real), 16) || !relClose(gi.Emag, m.Emag, math.Abs(m.Emag), 32) {
				return vk.Failf("dual-powreal-integer", "dual.PowReal(%v, %d)=%v, repeated Mul %v", x, n, gi, m)
			}
		}
	}
	return nil
}

func TestNumElementary(t *testing.T) {
	vk.Run(t, "num-elementary", vk.Opts{Quick: 6000, Thorough: 800000, NoCrumb: true}, func(t *rapid.T) elemCase {
		fn := rapid.IntRange(0, len(elemFns)-1).Draw(t, "fn")
		return elemCase{
			Fn: fn,
			A:  rapid.IntRange(elemFns[fn].lo, elemFns[fn].hi).Draw(t, "a"),
			B1: rapid.IntRange(-16, 16).Draw(t, "b1"),
			B2: rapid.IntRange(-16, 16).Draw(t, "b2"),
			B3: rapid.IntRange(-16, 16).Draw(t, "b12"),
			P:  rapid.IntRange(-8, 8).Draw(t, "p"),
		}
	}, checkElem)
}

// ---- PowReal on a tiny non-zero base ------------------------------------------

type smallBaseCase struct {
	E      int // base = ±2^E
	Neg    bool
	P      int // exponent (integer, so that negative bases are allowed)
	B1, B2 int // infinitesimal parts in units of 1/4
}

func checkSmallBase(c smallBaseCase) *vk.Failure {
	a := math.Ldexp(1, c.E)
	if c.Neg {
		a = -a
	}
	p := float64(c.P)
	b1, b2 := float64(c.B1)/4, float64(c.B2)/4
	vk.Class("powreal-small-base")
	vk.NonTrivial("smallbase", c.E, c.Neg, c.P, c.B1, c.B2)
	vk.Sample("num-powreal-small", c)
	// powers of two: a^p, a^(p-1), a^(p-2) are exact
	pw, d1, d2 := math.Pow(a, p), p*math.Pow(a, p-1), p*(p-1)*math.Pow(a, p-2)
	g := dual.PowReal(dual.Number{Real: a, Emag: b1}, p)
	if !relClose(g.Real, pw, math.Abs(pw), 4) || !relClose(g.Emag, d1*b1, math.Abs(d1*b1), 8) {
		return vk.Failf("dual-powreal-small-base", "dual.PowReal(%v+%vϵ, %v)=%v want (%v, %v): the derivative p a^(p-1) must be taken at the real part itself", a, b1, p, g, pw, d1*b1)
	}
	h := hyperdual.PowReal(hyperdual.Number{Real: a, E1mag: b1, E2mag: b2}, p)
	if !relClose(h.Real, pw, math.Abs(pw), 4) || !relClose(h.E1mag, d1*b1, math.Abs(d1*b1), 8) || !relClose(h.E2mag, d1*b2, math.Abs(d1*b2), 8) || !relClose(h.E1E2mag, d2*b1*b2, math.Abs(d2*b1*b2), 8) {
		return vk.Failf("hyperdual-powreal-small-base", "hyperdual.PowReal(%v+%vϵ₁+%vϵ₂, %v)=%v want (%v, %v, %v, %v)", a, b1, b2, p, h, pw, d1*b1, d1*b2, d2*b1*b2)
	}
	return nil
}

func TestNumPowRealSmall(t *testing.T) {
	vk.Run(t, "num-powreal-small", vk.Opts{Quick: 1000, Thorough: 50000, NoCrumb: true}, func(t *rapid.T) smallBaseCase {
		return smallBaseCase{
			E:   rapid.IntRange(-100, -20).Draw(t, "e"),
			Neg: rapid.Bool().Draw(t, "neg"),
			P:   rapid.IntRange(-3, 4).Draw(t, "p"),
			B1:  rapid.IntRange(-16, 16).Draw(t, "b1"),
			B2:  rapid.IntRange(-16, 16).Draw(t, "b2"),
		}
	}, checkSmallBase)
}

// ---- documented special values -------------------------------------------------

type specialCase struct{ I int }

type special struct {
	name string
	got  func() []float64
	want []float64 // NaN matches NaN; signed zeros and infinities exactly
}

var (
	inf  = math.Inf(1)
	ninf = math.Inf(-1)
	nan  = math.NaN()
	nz   = math.Copysign(0, -1)
)

func dn(d dual.Number) []float64 { return []float64{d.Real, d.Emag} }

var specials = []special{
	{"dual.Inv(+0)", func() []float64 { return dn(dual.Inv(dual.Number{Real: 0, Emag: 1})) }, []float64{inf, ninf}},
	{"dual.Inv(-0)", func() []float64 { return dn(dual.Inv(dual.Number{Real: nz, Emag: 1})) }, []float64{ninf, ninf}},
	{"dual.Inv(+Inf)", func() []float64 { return dn(dual.Inv(dual.Number{Real: inf, Emag: 1})) }, []float64{0, nz}},
	{"dual.Inv(-Inf)", func() []float64 { return dn(dual.Inv(dual.Number{Real: ninf, Emag: 1})) }, []float64{nz, nz}},
	{"dual.Sqrt(+0)", func() []float64 { return dn(dual.Sqrt(dual.Number{Real: 0, Emag: 1})) }, []float64{0, inf}},
	{"dual.Sqrt(-0)", func() []float64 { return dn(dual.Sqrt(dual.Number{Real: nz, Emag: 1})) }, []float64{nz, inf}},
	{"dual.Sqrt(-1)", func() []float64 { return dn(dual.Sqrt(dual.Number{Real: -1, Emag: 1})) }, []float64{nan, nan}},
	{"dual.Sqrt(+Inf)", func() []float64 { return dn(dual.Sqrt(dual.Number{Real: inf, Emag: 0})) }, []float64{inf}},
	{"dual.Sqrt(NaN)", func() []float64 { return dn(dual.Sqrt(dual.Number{Real: nan, Emag: 1})) }, []float64{nan}},
	{"dual.Exp(+Inf)", func() []float64 { return dn(dual.Exp(dual.Number{Real: inf, Emag: 1})) }, []float64{inf, inf}},
	{"dual.Exp(NaN)", func() []float64 { return dn(dual.Exp(dual.Number{Real: nan, Emag: 1})) }, []float64{nan, nan}},
	{"dual.Log(+0)", func() []float64 { return dn(dual.Log(dual.Number{Real: 0, Emag: 1})) }, []float64{ninf, inf}},
	{"dual.Log(-0)", func() []float64 { return dn(dual.Log(dual.Number{Real: nz, Emag: 1})) }, []float64{ninf, ninf}},
	{"dual.Log(+Inf)", func() []float64 { return dn(dual.Log(dual.Number{Real: inf, Emag: 1})) }, []float64{inf, 0}},
	{"dual.Log(-1)", func() []float64 { return dn(dual.Log(dual.Number{Real: -1, Emag: 1})) }, []float64{nan, nan}},
	{"dual.Log(NaN)", func() []float64 { return dn(dual.Log(dual.Number{Real: nan, Emag: 1})) }, []float64{nan, nan}},
	{"dual.Sin(+0)", func() []float64 { return dn(dual.Sin(dual.Number{Real: 0, Emag: 3})) }, []float64{0, 3}},
	{"dual.Sin(-0)", func() []float64 { return dn(dual.Sin(dual.Number{Real: nz, Emag: 3})) }, []float64{nz, 3}},
	{"dual.Sin(+Inf)", func() []float64 { return dn(dual.Sin(dual.Number{Real: inf, Emag: 1})) }, []float64{nan, nan}},
	{"dual.Cos(-Inf)", func() []float64 { return dn(dual.Cos(dual.Number{Real: ninf, Emag: 1})) }, []float64{nan, nan}},
	{"dual.Tan(-0)", func() []float64 { return dn(dual.Tan(dual.Number{Real: nz, Emag: 3})) }, []float64{nz, 3}},
	{"dual.Tan(+Inf)", func() []float64 { return dn(dual.Tan(dual.Number{Real: inf, Emag: 1})) }, []float64{nan, nan}},
	{"dual.Asin(-0)", func() []float64 { return dn(dual.Asin(dual.Number{Real: nz, Emag: 3})) }, []float64{nz, 3}},
	{"dual.Asin(2)", func() []float64 { return dn(dual.Asin(dual.Number{Real: 2, Emag: 1})) }, []float64{nan, nan}},
	{"dual.Asin(-2)", func() []float64 { return dn(dual.Asin(dual.Number{Real: -2, Emag: 1})) }, []float64{nan, nan}},
	{"dual.Acos(-1)", func() []float64 { return dn(dual.Acos(dual.Number{Real: -1, Emag: 1})) }, []float64{math.Pi, ninf}},
	{"dual.Acos(1)", func() []float64 { return dn(dual.Acos(dual.Number{Real: 1, Emag: 1})) }, []float64{0, ninf}},
	{"dual.Acos(2)", func() []float64 { return dn(dual.Acos(dual.Number{Real: 2, Emag: 1})) }, []float64{nan, nan}},
	{"dual.Atan(-0)", func() []float64 { return dn(dual.Atan(dual.Number{Real: nz, Emag: 3})) }, []float64{nz, 3}},
	{"dual.Atan(+Inf)", func() []float64 { return dn(dual.Atan(dual.Number{Real: inf, Emag: 1})) }, []float64{math.Pi / 2, 0}},
	{"dual.Atan(-Inf)", func() []float64 { return dn(dual.Atan(dual.Number{Real: ninf, Emag: 1})) }, []float64{-math.Pi / 2, 0}},
	{"dual.Sinh(-0)", func() []float64 { return dn(dual.Sinh(dual.Number{Real: nz, Emag: 3})) }, []float64{nz, 3}},
	{"dual.Sinh(+Inf)", func() []float64 { return dn(dual.Sinh(dual.Number{Real: inf, Emag: 1})) }, []float64{inf}},
	{"dual.Sinh(-Inf)", func() []float64 { return dn(dual.Sinh(dual.Number{Real: ninf, Emag: 1})) }, []float64{ninf}},
	{"dual.Cosh(0)", func() []float64 { return dn(dual.Cosh(dual.Number{Real: 0, Emag: 1})) }, []float64{1}},
	{"dual.Cosh(-Inf)", func() []float64 { return dn(dual.Cosh(dual.Number{Real: ninf, Emag: 1})) }, []float64{inf}},
	{"dual.Tanh(+Inf)", func() []float64 { return dn(dual.Tanh(dual.Number{Real: inf, Emag: 1})) }, []float64{1, 0}},
	{"dual.Tanh(-Inf)", func() []float64 { return dn(dual.Tanh(dual.Number{Real: ninf, Emag: 1})) }, []float64{-1, 0}},
	{"dual.Tanh(-0)", func() []float64 { return dn(dual.Tanh(dual.Number{Real: nz, Emag: 3})) }, []float64{nz, 3}},
	{"dual.Asinh(+Inf)", func() []float64 { return dn(dual.Asinh(dual.Number{Real: inf, Emag: 1})) }, []float64{inf}},
	{"dual.Acosh(1)", func() []float64 { return dn(dual.Acosh(dual.Number{Real: 1, Emag: 1})) }, []float64{0, inf}},
	{"dual.Acosh(0.5)", func() []float64 { return dn(dual.Acosh(dual.Number{Real: 0.5, Emag: 1})) }, []float64{nan, nan}},
	{"dual.Acosh(+Inf)", func() []float64 { return dn(dual.Acosh(dual.Number{Real: inf, Emag: 1})) }, []float64{inf}},
	{"dual.Atanh(1)", func() []float64 { return dn(dual.Atanh(dual.Number{Real: 1, Emag: 1})) }, []float64{inf}},
	{"dual.Atanh(-1)", func() []float64 { return dn(dual.Atanh(dual.Number{Real: -1, Emag: 1})) }, []float64{ninf}},
	// "Atanh(x) = NaN if x < -1 or x > 1": only the real part is NaN (the ϵ part is 1/(1-x^2)), unlike Asin/Acos/Acosh
	{"dual.Atanh(2)", func() []float64 { return dn(dual.Atanh(dual.Number{Real: 2, Emag: 1})) }, []float64{nan}},
	{"dual.PowReal(x,0)", func() []float64 { return dn(dual.PowReal(dual.Number{Real: 3, Emag: 5}, 0)) }, []float64{1, 0}},
	{"dual.PowReal(x,1)", func() []float64 { return dn(dual.PowReal(dual.Number{Real: 3, Emag: 5}, 1)) }, []float64{3, 5}},
	{"dual.PowReal(1+xϵ,y)", func() []float64 { return dn(dual.PowReal(dual.Number{Real: 1, Emag: 5}, 2.5)) }, []float64{1, 12.5}},
	{"dual.PowReal(NaN,y)", func() []float64 { return dn(dual.PowReal(dual.Number{Real: nan, Emag: 5}, 2.5)) }, []float64{nan, nan}},
	{"dual.PowReal(x,NaN)", func() []float64 { return dn(dual.PowReal(dual.Number{Real: 2, Emag: 5}, nan)) }, []float64{nan, nan}},
	{"dual.PowReal(-2,0.5)", func() []float64 { return dn(dual.PowReal(dual.Number{Real: -2, Emag: 5}, 0.5)) }, []float64{nan, nan}},
	{"dual.PowReal(+Inf,2)", func() []float64 { return dn(dual.PowReal(dual.Number{Real: inf, Emag: 1}, 2)) }, []float64{inf}},
	{"dual.PowReal(+Inf,-2)", func() []float64 { return dn(dual.PowReal(dual.Number{Real: inf, Emag: 1}, -2)) }, []float64{0}},
	{"dual.Abs(-2+3ϵ)", func() []float64 { return dn(dual.Abs(dual.Number{Real: -2, Emag: 3})) }, []float64{2, -3}},
	{"dual.Abs(2+3ϵ)", func() []float64 { return dn(dual.Abs(dual.Number{Real: 2, Emag: 3})) }, []float64{2, 3}},
	{"quat.Pow(0,0)", func() []float64 {
		q := quat.Pow(quat.Number{}, quat.Number{})
		return []float64{q.Real, q.Imag, q.Jmag, q.Kmag}
	}, []float64{1, 0, 0, 0}},
	{"quat.Pow(0,-1)", func() []float64 {
		q := quat.Pow(quat.Number{}, quat.Number{Real: -1})
		return []float64{q.Real, q.Imag, q.Jmag, q.Kmag}
	}, []float64{inf, 0, 0, 0}},
	{"quat.PowReal(0,0)", func() []float64 {
		q := quat.PowReal(quat.Number{}, 0)
		return []float64{q.Real, q.Imag, q.Jmag, q.Kmag}
	}, []float64{1, 0, 0, 0}},
	{"quat.Sqrt(0)", func() []float64 { q := quat.Sqrt(quat.Number{}); return []float64{q.Real, q.Imag, q.Jmag, q.Kmag} }, []float64{0, 0, 0, 0}},
	{"quat.Inv(Inf)", func() []float64 { q := quat.Inv(quat.Inf()); return []float64{q.Real, q.Imag, q.Jmag, q.Kmag} }, []float64{0, 0, 0, 0}},
	{"quat.Abs(Inf)", func() []float64 { return []float64{quat.Abs(quat.Number{Real: 1, Imag: ninf})} }, []float64{inf}},
	{"quat.Abs(NaN)", func() []float64 { return []float64{quat.Abs(quat.Number{Real: nan, Imag: 1})} }, []float64{nan}},
}

func checkSpecial(c specialCase) *vk.Failure {
	s := specials[c.I]
	vk.Class("special-values")
	vk.Sample("num-special", c)
	got := s.got()
	for i := range s.want {
		if !vk.SameBits(got[i], s.want[i]) {
			return vk.Failf("special-value/"+s.name, "%s = %v, documented %v", s.name, got, s.want)
		}
	}
	return nil
}

func TestNumSpecial(t *testing.T) {
	vk.Enumerate(t, "num-special", len(specials), func(i int) specialCase { return specialCase{i} }, checkSpecial)
}

// ---- algebraic laws -------------------------------------------------------------

type algCase struct {
	Kind int // 0 dual, 1 hyperdual, 2 quat, 3 dualquat, 4 dualcmplx
	Seed uint64
}

func smallInt(r *vk.SplitMix) float64 { return float64(r.Intn(17) - 8) }
func smallDy(r *vk.SplitMix) float64  { return float64(r.Intn(33)-16) / 4 }

func rquat(r *vk.SplitMix) quat.Number {
	return quat.Number{Real: smallInt(r), Imag: smallInt(r), Jmag: smallInt(r), Kmag: smallInt(r)}
}

func qabs1(q quat.Number) float64 {
	return math.Abs(q.Real) + math.Abs(q.Imag) + math.Abs(q.Jmag) + math.Abs(q.Kmag)
}

func qclose(a, b quat.Number, tol float64) bool {
	return qabs1(quat.Sub(a, b)) <= tol
}

// rotate returns r v conj(r) for a pure vector v by the explicit formula
// (w^2-|u|^2) v + 2 (u.v) u + 2 w (u x v): exact on small integers.
func rotate(r quat.Number, v [3]float64) [3]float64 {
	w := r.Real
	u := [3]float64{r.Imag, r.Jmag, r.Kmag}
	uu := u[0]*u[0] + u[1]*u[1] + u[2]*u[2]
	uv := u[0]*v[0] + u[1]*v[1] + u[2]*v[2]
	cx := [3]float64{u[1]*v[2] - u[2]*v[1], u[2]*v[0] - u[0]*v[2], u[0]*v[1] - u[1]*v[0]}
	var out [3]float64
	for i := range out {
		out[i] = (w*w-uu)*v[i] + 2*uv*u[i] + 2*w*cx[i]
	}
	return out
}

func checkAlg(c algCase) *vk.Failure {
	r := vk.NewSplitMix(c.Seed)
	vk.NonTrivial("alg", c.Kind, c.Seed)
	vk.Sample("num-algebra", c)
	switch c.Kind {
	case 0:
		vk.Class("algebra:dual")
		rd := func() dual.Number { return dual.Number{Real: smallDy(r), Emag: smallDy(r)} }
		x, y, z := rd(), rd(), rd()
		if dual.Mul(dual.Mul(x, y), z) != dual.Mul(x, dual.Mul(y, z)) {
			return vk.Failf("dual-associativity", "x=%v y=%v z=%v", x, y, z)
		}
		if dual.Mul(x, y) != dual.Mul(y, x) {
			return vk.Failf("dual-commutativity", "x=%v y=%v", x, y)
		}
		if dual.Mul(x, dual.Add(y, z)) != dual.Add(dual.Mul(x, y), dual.Mul(x, z)) {
			return vk.Failf("dual-distributivity", "x=%v y=%v z=%v", x, y, z)
		}
		if dual.Sub(dual.Add(x, y), y) != x || dual.Scale(2, x) != dual.Add(x, x) {
			return vk.Failf("dual-add-sub-scale", "x=%v y=%v", x, y)
		}
		if x.Real != 0 {
			p := dual.Mul(x, dual.Inv(x))
			if math.Abs(p.Real-1) > 4*vk.Eps || math.Abs(p.Emag) > 8*vk.Eps*math.Abs(x.Emag/x.Real) {
				return vk.Failf("dual-inverse", "Mul(x, Inv(x))=%v for x=%v", p, x)
			}
		}
	case 1:
		vk.Class("algebra:hyperdual")
		rh := func() hyperdual.Number {
			return hyperdual.Number{Real: smallDy(r), E1mag: smallDy(r), E2mag: smallDy(r), E1E2mag: smallDy(r)}
		}
		x, y, z := rh(), rh(), rh()
		if hyperdual.Mul(hyperdual.Mul(x, y), z) != hyperdual.Mul(x, hyperdual.Mul(y, z)) {
			return vk.Failf("hyperdual-associativity", "x=%v y=%v z=%v", x, y, z)
		}
		if hyperdual.Mul(x, y) != hyperdual.Mul(y, x) {
			return vk.Failf("hyperdual-commutativity", "x=%v y=%v", x, y)
		}
		if hyperdual.Mul(x, hyperdual.Add(y, z)) != hyperdual.Add(hyperdual.Mul(x, y), hyperdual.Mul(x, z)) {
			return vk.Failf("hyperdual-distributivity", "x=%v y=%v z=%v", x, y, z)
		}
		if hyperdual.Sub(hyperdual.Add(x, y), y) != x || hyperdual.Scale(2, x) != hyperdual.Add(x, x) {
			return vk.Failf("hyperdual-add-sub-scale", "x=%v y=%v", x, y)
		}
		if x.Real != 0 {
			p := hyperdual.Mul(x, hyperdual.Inv(x))
			a := math.Abs(x.Real)
			s1 := (math.Abs(x.E1mag) + math.Abs(x.E2mag)) / a
			s2 := math.Abs(x.E1E2mag)/a + 2*math.Abs(x.E1mag*x.E2mag)/(a*a)
			if math.Abs(p.Real-1) > 4*vk.Eps || math.Abs(p.E1mag) > 8*vk.Eps*s1 || math.Abs(p.E2mag) > 8*vk.Eps*s1 || math.Abs(p.E1E2mag) > 16*vk.Eps*s2 {
				return vk.Failf("hyperdual-inverse", "Mul(x, Inv(x))=%v for x=%v", p, x)
			}
		}
	case 2:
		vk.Class("algebra:quat")
		x, y, z := rquat(r), rquat(r), rquat(r)
		if quat.Mul(quat.Mul(x, y), z) != quat.Mul(x, quat.Mul(y, z)) {
			return vk.Failf("quat-associativity", "x=%v y=%v z=%v", x, y, z)
		}
		if quat.Mul(x, quat.Add(y, z)) != quat.Add(quat.Mul(x, y), quat.Mul(x, z)) || quat.Mul(quat.Add(y, z), x) != quat.Add(quat.Mul(y, x), quat.Mul(z, x)) {
			return vk.Failf("quat-distributivity", "x=%v y=%v z=%v", x, y, z)
		}
		if quat.Conj(quat.Mul(x, y)) != quat.Mul(quat.Conj(y), quat.Conj(x)) || quat.Conj(quat.Conj(x)) != x {
			return vk.Failf("quat-conj-anti-involution", "x=%v y=%v", x, y)
		}
		n2 := x.Real*x.Real + x.Imag*x.Imag + x.Jmag*x.Jmag + x.Kmag*x.Kmag
		if quat.Mul(x, quat.Conj(x)) != (quat.Number{Real: n2}) {
			return vk.Failf("quat-norm", "x conj(x)=%v want %v", quat.Mul(x, quat.Conj(x)), n2)
		}
		if ax, ay, axy := quat.Abs(x), quat.Abs(y), quat.Abs(quat.Mul(x, y)); math.Abs(axy-ax*ay) > 8*vk.Eps*ax*ay || math.Abs(ax-math.Sqrt(n2)) > 4*vk.Eps*ax {
			return vk.Failf("quat-abs-multiplicative", "|x|=%v |y|=%v |xy|=%v (x=%v y=%v)", ax, ay, axy, x, y)
		}
		if n2 != 0 {
			one := quat.Number{Real: 1}
			if p := quat.Mul(x, quat.Inv(x)); !qclose(p, one, 16*vk.Eps) {
				return vk.Failf("quat-inverse", "Mul(x, Inv(x))=%v for x=%v", p, x)
			}
			if p := quat.Mul(quat.Inv(x), x); !qclose(p, one, 16*vk.Eps) {
				return vk.Failf("quat-inverse", "Mul(Inv(x), x)=%v for x=%v", p, x)
			}
		}
		// inverse relations of Exp/Log/Pow/Sqrt on q = x/4 (moderate size),
		// away from the negative real axis and zero
		q := quat.Scale(0.25, x)
		vec := math.Abs(q.Imag) + math.Abs(q.Jmag) + math.Abs(q.Kmag)
		aq := quat.Abs(q)
		if vec > 0 {
			tol := 64 * vk.Eps * aq
			if g := quat.Exp(quat.Log(q)); !qclose(g, q, tol) {
				return vk.Failf("quat-exp-log", "Exp(Log(q))=%v for q=%v", g, q)
			}
			sr := quat.Sqrt(q)
			if g := quat.Mul(sr, sr); !qclose(g, q, tol) {
				return vk.Failf("quat-sqrt", "Sqrt(q)^2=%v for q=%v", g, q)
			}
			qq := quat.Mul(q, q)
			tol2 := 128 * vk.Eps * aq * aq * (1 + math.Abs(math.Log(aq)))
			if g := quat.PowReal(q, 2); !qclose(g, qq, tol2) {
				return vk.Failf("quat-powreal-2", "PowReal(q,2)=%v, q*q=%v (q=%v)", g, qq, q)
			}
			if g := quat.Pow(q, quat.Number{Real: 2}); !qclose(g, qq, tol2) {
				return vk.Failf("quat-pow-2", "Pow(q,2)=%v, q*q=%v (q=%v)", g, qq, q)
			}
			if g, w := quat.PowReal(q, -1), quat.Inv(q); !qclose(g, w, 128*vk.Eps/aq*(1+math.Abs(math.Log(aq)))) {
				return vk.Failf("quat-powreal-minus-1", "PowReal(q,-1)=%v, Inv(q)=%v (q=%v)", g, w, q)
			}
			// Log(Exp(q)) = q on the principal branch |vector part| < pi
			vn := quat.Abs(quat.Number{Imag: q.Imag, Jmag: q.Jmag, Kmag: q.Kmag})
			if vn < 3 {
				if g := quat.Log(quat.Exp(q)); !qclose(g, q, 64*vk.Eps*(1+aq)/(math.Pi-vn)) {
					return vk.Failf("quat-log-exp", "Log(Exp(q))=%v for q=%v", g, q)
				}
			}
			// sin^2+cos^2 = 1 and cosh^2-sinh^2 = 1
			s, co := quat.Sin(q), quat.Cos(q)
			sc := sq(quat.Abs(s)) + sq(quat.Abs(co))
			if g := quat.Add(quat.Mul(s, s), quat.Mul(co, co)); !qclose(g, quat.Number{Real: 1}, 64*vk.Eps*sc) {
				return vk.Failf("quat-sin2-cos2", "Sin(q)^2+Cos(q)^2=%v for q=%v", g, q)
			}
			sh, ch := quat.Sinh(q), quat.Cosh(q)
			sc = sq(quat.Abs(sh)) + sq(quat.Abs(ch))
			if g := quat.Sub(quat.Mul(ch, ch), quat.Mul(sh, sh)); !qclose(g, quat.Number{Real: 1}, 64*vk.Eps*sc) {
				return vk.Failf("quat-cosh2-sinh2", "Cosh(q)^2-Sinh(q)^2=%v for q=%v", g, q)
			}
			if co != (quat.Number{}) {
				tn := quat.Tan(q)
				if g := quat.Mul(tn, co); !qclose(g, s, 64*vk.Eps*(quat.Abs(tn)*quat.Abs(co)+quat.Abs(s))) {
					return vk.Failf("quat-tan", "Tan(q)Cos(q)=%v, Sin(q)=%v (q=%v)", g, s, q)
				}
			}
		}
	case 3:
		vk.Class("algebra:dualquat")
		rdq := func() dualquat.Number { return dualquat.Number{Real: rquat(r), Dual: rquat(r)} }
		x, y, z := rdq(), rdq(), rdq()
		if dualquat.Mul(dualquat.Mul(x, y), z) != dualquat.Mul(x, dualquat.Mul(y, z)) {
			return vk.Failf("dualquat-associativity", "x=%v y=%v z=%v", x, y, z)
		}
		if dualquat.Mul(x, dualquat.Add(y, z)) != dualquat.Add(dualquat.Mul(x, y), dualquat.Mul(x, z)) || dualquat.Mul(dualquat.Add(y, z), x) != dualquat.Add(dualquat.Mul(y, x), dualquat.Mul(z, x)) {
			return vk.Failf("dualquat-distributivity", "x=%v y=%v z=%v", x, y, z)
		}
		if dualquat.Conj(dualquat.Mul(x, y)) != dualquat.Mul(dualquat.Conj(y), dualquat.Conj(x)) || dualquat.Conj(dualquat.Conj(x)) != x {
			return vk.Failf("dualquat-conj-anti-involution", "x=%v y=%v", x, y)
		}
		if dualquat.ConjQuat(dualquat.Mul(x, y)) != dualquat.Mul(dualquat.ConjQuat(y), dualquat.ConjQuat(x)) {
			return vk.Failf("dualquat-conjquat-anti-involution", "x=%v y=%v", x, y)
		}
		if dualquat.ConjDual(dualquat.Mul(x, y)) != dualquat.Mul(dualquat.ConjDual(x), dualquat.ConjDual(y)) {
			return vk.Failf("dualquat-conjdual-automorphism", "x=%v y=%v", x, y)
		}
		if dualquat.Sub(dualquat.Add(x, y), y) != x || dualquat.Scale(2, x) != dualquat.Add(x, x) {
			return vk.Failf("dualquat-add-sub-scale", "x=%v y=%v", x, y)
		}
		if ab := dualquat.Abs(x); ab.Real != quat.Abs(x.Real) || ab.Emag != quat.Abs(x.Dual) {
			return vk.Failf("dualquat-abs", "Abs(%v)=%v", x, ab)
		}
		if x.Real != (quat.Number{}) {
			p := dualquat.Mul(x, dualquat.Inv(x))
			ar := quat.Abs(x.Real)
			if !qclose(p.Real, quat.Number{Real: 1}, 16*vk.Eps) || qabs1(p.Dual) > 64*vk.Eps*quat.Abs(x.Dual)/ar {
				return vk.Failf("dualquat-inverse", "Mul(x, Inv(x))=%v for x=%v", p, x)
			}
		}
		// rigid motions: q = d*r with integer rotation quaternion r (not
		// normalised: |r|^2 = N) and displacement t (dual part t/2) maps the
		// point v to N (t + R v) = N t + r v conj(r), exactly.
		apply := func(q dualquat.Number, v [3]float64) dualquat.Number {
			p := dualquat.Number{Real: quat.Number{Real: 1}, Dual: quat.Number{Imag: v[0], Jmag: v[1], Kmag: v[2]}}
			return dualquat.Mul(dualquat.Mul(q, p), dualquat.Conj(q))
		}
		mk := func() (dualquat.Number, quat.Number, [3]float64) {
			rot := rquat(r)
			if rot == (quat.Number{}) {
				rot.Real = 1
			}
			t := [3]float64{2 * smallInt(r), 2 * smallInt(r), 2 * smallInt(r)}
			d := dualquat.Number{Real: quat.Number{Real: 1}, Dual: quat.Number{Imag: t[0] / 2, Jmag: t[1] / 2, Kmag: t[2] / 2}}
			return dualquat.Mul(d, dualquat.Number{Real: rot}), rot, t
		}
		q1, r1, t1 := mk()
		q2, r2, t2 := mk()
		v := [3]float64{smallInt(r), smallInt(r), smallInt(r)}
		n1 := r1.Real*r1.Real + r1.Imag*r1.Imag + r1.Jmag*r1.Jmag + r1.Kmag*r1.Kmag
		n2 := r2.Real*r2.Real + r2.Imag*r2.Imag + r2.Jmag*r2.Jmag + r2.Kmag*r2.Kmag
		rv := rotate(r1, v)
		w1 := [3]float64{n1*t1[0] + rv[0], n1*t1[1] + rv[1], n1*t1[2] + rv[2]}
		g1 := apply(q1, v)
		if g1.Real != (quat.Number{Real: n1}) || g1.Dual != (quat.Number{Imag: w1[0], Jmag: w1[1], Kmag: w1[2]}) {
			return vk.Failf("dualquat-rigid-motion", "q=%v applied to %v: %v, want real %v dual vector %v", q1, v, g1, n1, w1)
		}
		// composition: first q1 then q2
		rw := rotate(r2, w1)
		w2 := [3]float64{n1*n2*t2[0] + rw[0], n1*n2*t2[1] + rw[1], n1*n2*t2[2] + rw[2]}
		g2 := apply(dualquat.Mul(q2, q1), v)
		if g2.Real != (quat.Number{Real: n1 * n2}) || g2.Dual != (quat.Number{Imag: w2[0], Jmag: w2[1], Kmag: w2[2]}) {
			return vk.Failf("dualquat-rigid-motion-composition", "q2*q1 applied to %v: %v, want real %v dual vector %v (q1=%v q2=%v)", v, g2, n1*n2, w2, q1, q2)
		}
		// Exp/Log/Sqrt/PowReal where real and dual parts commute (both in
		// the plane spanned by 1 and one imaginary unit)
		axis := r.Intn(3)
		plane := func(a, b float64) quat.Number {
			q := quat.Number{Real: a}
			switch axis {
			case 0:
				q.Imag = b
			case 1:
				q.Jmag = b
			default:
				q.Kmag = b
			}
			return q
		}
		cq := dualquat.Number{Real: plane(smallDy(r), smallDy(r)), Dual: plane(smallDy(r), smallDy(r))}
		if cq.Real.Imag != 0 || cq.Real.Jmag != 0 || cq.Real.Kmag != 0 {
			ar, ad := quat.Abs(cq.Real), quat.Abs(cq.Dual)
			cl := func(g, w dualquat.Number, k float64) bool {
				return qclose(g.Real, w.Real, k*vk.Eps*ar) && qclose(g.Dual, w.Dual, k*vk.Eps*(ad+ar)*(1+ad/ar))
			}
			if g := dualquat.Exp(dualquat.Log(cq)); !cl(g, cq, 128) {
				return vk.Failf("dualquat-exp-log", "Exp(Log(x))=%v for x=%v", g, cq)
			}
			sr := dualquat.Sqrt(cq)
			if g := dualquat.Mul(sr, sr); !cl(g, cq, 256) {
				return vk.Failf("dualquat-sqrt", "Sqrt(x)^2=%v for x=%v", g, cq)
			}
		}
		// The same laws when real and dual parts do not commute: one law per
		// case (selected by the seed), each under its own key.
		nq := dualquat.Number{Real: quat.Scale(0.25, rquat(r)), Dual: quat.Scale(0.25, rquat(r))}
		vn := quat.Abs(quat.Number{Imag: nq.Real.Imag, Jmag: nq.Real.Jmag, Kmag: nq.Real.Kmag})
		if vn > 0 {
			ar, ad := quat.Abs(nq.Real), quat.Abs(nq.Dual)
			// condition: |log|, the divided differences over r - conj(r) = 2v
			kd := vk.Eps * (ad + ar) * (1 + ad/ar) * (1 + math.Abs(math.Log(ar))) * (1 + ar/vn) * (1 + 1/ar)
			ncl := func(g, w dualquat.Number, k float64) bool {
				return qclose(g.Real, w.Real, k*vk.Eps*(ar+1/ar)*(1+math.Abs(math.Log(ar)))) && qclose(g.Dual, w.Dual, k*kd)
			}
			switch c.Seed % 4 {
			case 0:
				vk.Class("algebra:dualquat-noncommuting,powreal-2")
				if g, w := dualquat.PowReal(nq, 2), dualquat.Mul(nq, nq); !ncl(g, w, 512) {
					return vk.Failf("dualquat-noncommuting/powreal-2", "PowReal(x,2)=%v but Mul(x,x)=%v for x=%v", g, w, nq)
				}
			case 1:
				vk.Class("algebra:dualquat-noncommuting,exp-log")
				if g := dualquat.Exp(dualquat.Log(nq)); !ncl(g, nq, 512) {
					return vk.Failf("dualquat-noncommuting/exp-log", "Exp(Log(x))=%v for x=%v", g, nq)
				}
			case 2:
				vk.Class("algebra:dualquat-noncommuting,sqrt")
				sr := dualquat.Sqrt(nq)
				if g := dualquat.Mul(sr, sr); !ncl(g, nq, 512) {
					return vk.Failf("dualquat-noncommuting/sqrt", "Sqrt(x)^2=%v for x=%v", g, nq)
				}
			default:
				vk.Class("algebra:dualquat-noncommuting,powreal-minus-1")
				if g, w := dualquat.PowReal(nq, -1), dualquat.Inv(nq); !ncl(g, w, 512) {
					return vk.Failf("dualquat-noncommuting/powreal-minus-1", "PowReal(x,-1)=%v but Inv(x)=%v for x=%v", g, w, nq)
				}
			}
		}
	default:
		vk.Class("algebra:dualcmplx")
		rc := func() complex128 { return complex(smallInt(r), smallInt(r)) }
		rdc := func() dualcmplx.Number { return dualcmplx.Number{Real: rc(), Dual: rc()} }
		x, y, z := rdc(), rdc(), rdc()
		if dualcmplx.Mul(dualcmplx.Mul(x, y), z) != dualcmplx.Mul(x, dualcmplx.Mul(y, z)) {
			return vk.Failf("dualcmplx-associativity", "x=%v y=%v z=%v", x, y, z)
		}
		if dualcmplx.Mul(x, dualcmplx.Add(y, z)) != dualcmplx.Add(dualcmplx.Mul(x, y), dualcmplx.Mul(x, z)) || dualcmplx.Mul(dualcmplx.Add(y, z), x) != dualcmplx.Add(dualcmplx.Mul(y, x), dualcmplx.Mul(z, x)) {
			return vk.Failf("dualcmplx-distributivity", "x=%v y=%v z=%v", x, y, z)
		}
		if dualcmplx.Conj(dualcmplx.Mul(x, y)) != dualcmplx.Mul(dualcmplx.Conj(y), dualcmplx.Conj(x)) || dualcmplx.Conj(dualcmplx.Conj(x)) != x {
			return vk.Failf("dualcmplx-conj-anti-involution", "x=%v y=%v", x, y)
		}
		if dualcmplx.Sub(dualcmplx.Add(x, y), y) != x || dualcmplx.Scale(2, x) != dualcmplx.Add(x, x) {
			return vk.Failf("dualcmplx-add-sub-scale", "x=%v y=%v", x, y)
		}
		if dualcmplx.Abs(x) != cmplx.Abs(x.Real) {
			return vk.Failf("dualcmplx-abs", "Abs(%v)=%v", x, dualcmplx.Abs(x))
		}
		// ϵ z = conj(z) ϵ: the anti-commutation rule that defines the algebra
		eps := dualcmplx.Number{Dual: 1}
		zz := dualcmplx.Number{Real: x.Real}
		if dualcmplx.Mul(eps, zz) != (dualcmplx.Number{Dual: cmplx.Conj(x.Real)}) || dualcmplx.Mul(zz, eps) != (dualcmplx.Number{Dual: x.Real}) || dualcmplx.Mul(eps, eps) != (dualcmplx.Number{}) {
			return vk.Failf("dualcmplx-epsilon-rule", "ϵ·z=%v z·ϵ=%v ϵ·ϵ=%v for z=%v", dualcmplx.Mul(eps, zz), dualcmplx.Mul(zz, eps), dualcmplx.Mul(eps, eps), x.Real)
		}
		ccl := func(g, w dualcmplx.Number, tr, td float64) bool {
			return cmplx.Abs(g.Real-w.Real) <= tr && cmplx.Abs(g.Dual-w.Dual) <= td
		}
		if x.Real != 0 {
			ar, ad := cmplx.Abs(x.Real), cmplx.Abs(x.Dual)
			one := dualcmplx.Number{Real: 1}
			if p := dualcmplx.Mul(x, dualcmplx.Inv(x)); !ccl(p, one, 8*vk.Eps, 16*vk.Eps*ad/ar) {
				return vk.Failf("dualcmplx-inverse", "Mul(x, Inv(x))=%v for x=%v", p, x)
			}
			if p := dualcmplx.Mul(dualcmplx.Inv(x), x); !ccl(p, one, 8*vk.Eps, 16*vk.Eps*ad/ar) {
				return vk.Failf("dualcmplx-inverse", "Mul(Inv(x), x)=%v for x=%v", p, x)
			}
			// q p conj(q) for q = r + sϵ and the point p = 1 + vϵ:
			// real |r|^2, dual r^2 v + 2 r s (exact on Gaussian integers)
			v := rc()
			pt := dualcmplx.Number{Real: 1, Dual: v}
			g := dualcmplx.Mul(dualcmplx.Mul(x, pt), dualcmplx.Conj(x))
			want := dualcmplx.Number{Real: x.Real * cmplx.Conj(x.Real), Dual: x.Real*x.Real*v + 2*x.Real*x.Dual}
			if g != want {
				return vk.Failf("dualcmplx-rigid-motion", "q p conj(q)=%v want %v (q=%v v=%v)", g, want, x, v)
			}
			// inverse relations away from the negative real axis
			xs := dualcmplx.Scale(0.25, x)
			as, ds := ar/4, ad/4
			cnd := 1 + math.Abs(math.Log(as))
			if imag(xs.Real) != 0 || real(xs.Real) > 0 {
				kd := (ds + as) * (1 + ds/as) * cnd
				if imag(xs.Real) != 0 {
					kd *= 1 + as/math.Abs(imag(xs.Real)) // divided differences over z - conj(z)
				}
				if g := dualcmplx.Exp(dualcmplx.Log(xs)); !ccl(g, xs, 64*vk.Eps*as, 256*vk.Eps*kd) {
					return vk.Failf("dualcmplx-exp-log", "Exp(Log(x))=%v for x=%v", g, xs)
				}
				sr := dualcmplx.Sqrt(xs)
				if g := dualcmplx.Mul(sr, sr); !ccl(g, xs, 64*vk.Eps*as*cnd, 512*vk.Eps*kd) {
					return vk.Failf("dualcmplx-sqrt", "Sqrt(x)^2=%v for x=%v", g, xs)
				}
				xx := dualcmplx.Mul(xs, xs)
				if g := dualcmplx.PowReal(xs, 2); !ccl(g, xx, 128*vk.Eps*as*as*cnd, 512*vk.Eps*kd*(as+1)) {
					return vk.Failf("dualcmplx-powreal-2", "PowReal(x,2)=%v, x*x=%v (x=%v)", g, xx, xs)
				}
			}
		}
	}
	return nil
}

func TestNumAlgebra(t *testing.T) {
	vk.Run(t, "num-algebra", vk.Opts{Quick: 8000, Thorough: 1000000, NoCrumb: true}, func(t *rapid.T) algCase {
		return algCase{Kind: rapid.IntRange(0, 4).Draw(t, "kind"), Seed: rapid.Uint64().Draw(t, "seed")}
	}, checkAlg)
}

var _ = fmt.Sprint
