package c04

import (
	"fmt"
	"hash/fnv"
	"math"
	"strings"
	"testing"

	"gonum.org/v1/gonum/mat"
	"pgregory.net/rapid"
	"verifharness/vk"
)

// opCase is one case of the main sub-checks: an operation, a representation
// for every operand position, a receiver state, the dimension variables and
// the seed from which values, paddings and index sets are expanded.
type opCase struct {
	Op    string
	Kinds []string // one per operand position that is not fixed by the operation
	State int      // receiver state (see recv_test.go)
	Dims  []int    // dimension variables (made consistent with the kinds by resolve)
	Seed  uint64
	Mode  int // 0: small integers (everything exact), 1: dyadic and Gaussian values
	A     int // index of the scalar alpha
	P     int // small integer parameter (power, norm, trans flag, ...)
	// Share != 0: two operand positions are built from ONE matrix object
	// (see the sh* constants): the same interface value twice, the object and
	// its T(), two equal Transpose wrappers, the object and a slice covering
	// all of it. The result must still depend on the values only.
	Share int `json:",omitempty"`
}

// share patterns
const (
	shrNone      = iota
	shrSame      // both positions hold the same interface value
	shrTRight    // second = first.T() (a TransposeVec for Vector positions)
	shrTLeft     // first = second.T()
	shrWrapBoth  // both positions hold mat.Transpose{X} of the same X
	shrWholeView // second = Slice/SliceVec/SliceSym/SliceTri of the first covering all of it
	nShare
)

var shareNames = [...]string{"none", "same", "b=a.T()", "a=b.T()", "Transpose{x},Transpose{x}", "a,a.Slice(all)"}

// sharePair returns the first two operand positions (not fixed by the
// operation) that take the same kind of argument.
func sharePair(op *opDef) (int, int, bool) {
	for i, p := range op.params {
		if p.fixed != nil {
			continue
		}
		for j := i + 1; j < len(op.params); j++ {
			if q := op.params[j]; q.fixed == nil && q.role == p.role {
				return i, j, true
			}
		}
	}
	return 0, 0, false
}

// shareT reports whether the derived operand is the transpose of the source.
func shareT(share int) bool { return share == shrTRight || share == shrTLeft }

func eligible(k *kind, p param) bool {
	switch p.role {
	case pVector:
		return k.vec && (!p.colOnly || k.shape == shCol)
	case pSym:
		return k.sym
	case pTri:
		return k.tri
	}
	return true
}

var eligibleCache = map[string][]string{}

func eligibleKinds(p param) []string {
	key := fmt.Sprint(p.role, p.colOnly)
	if v, ok := eligibleCache[key]; ok {
		return v
	}
	var out []string
	for _, k := range kinds {
		if eligible(k, p) && !k.special {
			out = append(out, k.name)
		}
	}
	eligibleCache[key] = out
	return out
}

// resolve makes the dimension variables consistent with the shape
// requirements of the kinds (square, n×1, 1×n, tall, wide).
func resolve(op *opDef, ks []*kind, dims []int, share, src, dst int) ([]int, bool) {
	n := op.nvars
	one := n
	parent := make([]int, n+1)
	for i := range parent {
		parent[i] = i
	}
	var find func(int) int
	find = func(i int) int {
		for parent[i] != i {
			i = parent[i]
		}
		return i
	}
	union := func(a, b int) {
		ra, rb := find(a), find(b)
		if ra == rb {
			return
		}
		// keep the ONE node, else the smaller index, as representative
		if ra == find(one) || (rb != find(one) && ra < rb) {
			parent[rb] = ra
		} else {
			parent[ra] = rb
		}
	}
	for i, p := range op.params {
		if p.role != pMatrix || (share != shrNone && i == dst) {
			continue
		}
		switch ks[i].shape {
		case shSquare:
			union(p.rv, p.cv)
		case shCol:
			union(p.cv, one)
		case shRow:
			union(p.rv, one)
		}
	}
	if share != shrNone {
		// the derived operand has the shape of the source (or of its transpose)
		ps, pd := op.params[src], op.params[dst]
		switch {
		case ps.role == pVector:
			union(ps.rv, pd.rv)
		case shareT(share):
			union(pd.rv, ps.cv)
			union(pd.cv, ps.rv)
		default:
			union(pd.rv, ps.rv)
			union(pd.cv, ps.cv)
		}
	}
	val := make([]int, n+1)
	for i := 0; i < n; i++ {
		v := 1
		if i < len(dims) && dims[i] >= 1 {
			v = dims[i]
		}
		val[i] = v
	}
	val[one] = 1
	get := func(v int) int { return val[find(v)] }
	tallOK := func() bool {
		for i, p := range op.params {
			if p.role != pMatrix || (share != shrNone && i == dst) {
				continue
			}
			switch ks[i].shape {
			case shTall:
				if get(p.rv) < get(p.cv) {
					return false
				}
			case shWide:
				if get(p.rv) > get(p.cv) {
					return false
				}
			}
		}
		return true
	}
	for i, p := range op.params {
		if p.role != pMatrix || (share != shrNone && i == dst) {
			continue
		}
		sh := ks[i].shape
		if (sh == shTall && get(p.rv) < get(p.cv)) || (sh == shWide && get(p.rv) > get(p.cv)) {
			a, b := find(p.rv), find(p.cv)
			if a != find(one) && b != find(one) {
				val[a], val[b] = val[b], val[a]
			}
		}
	}
	if !tallOK() {
		return nil, false
	}
	d := make([]int, n)
	for i := range d {
		d[i] = get(i)
	}
	return d, true
}

func shapeClass(d []int) string {
	var sb strings.Builder
	for _, v := range d {
		switch {
		case v == 1:
			sb.WriteByte('1')
		case v <= 8:
			sb.WriteByte('s')
		case v <= 64:
			sb.WriteByte('m')
		default:
			sb.WriteByte('L')
		}
	}
	return sb.String()
}

// basicFor wraps the logical value in the user type that exposes nothing but
// the interface the parameter asks for.
func basicFor(p param, k *kind, l *logical) mat.Matrix {
	switch p.role {
	case pVector:
		return &basicVec{newBasic(l)}
	case pSym:
		return &basicSym{newBasic(l)}
	case pTri:
		return &basicTri{basic: newBasic(l), upper: k.triUpper}
	}
	m := newBasic(l)
	return &m
}

// slug turns a panic message into a stable key fragment (letters only).
func slug(s string) string {
	var sb strings.Builder
	dash := false
	for _, r := range strings.ToLower(s) {
		if r >= 'a' && r <= 'z' {
			sb.WriteRune(r)
			dash = false
		} else if !dash && sb.Len() > 0 {
			sb.WriteByte('-')
			dash = true
		}
		if sb.Len() >= 48 {
			break
		}
	}
	return strings.TrimRight(sb.String(), "-")
}

func panicKey(op *opDef, base, text string) string {
	if op.enumOnly {
		return base
	}
	return base + "/" + slug(text)
}

// checkValues is the part of oracle 1 that does not depend on the kind: Dims
// and At of an operand reproduce the logical value.
func checkValues(k *kind, m mat.Matrix, l *logical) *vk.Failure {
	r, c := m.Dims()
	if r != l.r || c != l.c {
		return vk.Failf("at/derived-dims", "operand derived from kind %s: Dims()=(%d,%d) want (%d,%d)", k.name, r, c, l.r, l.c)
	}
	tol := 0.0
	if k.approx {
		tol = approxTol(l)
	}
	for i := 0; i < r; i++ {
		for j := 0; j < c; j++ {
			if got, want := m.At(i, j), l.at(i, j); !vk.Close(got, want, tol) {
				return vk.Failf("at/derived-value", "operand derived from kind %s (%dx%d): At(%d,%d)=%v want %v", k.name, r, c, i, j, got, want)
			}
		}
	}
	return nil
}

func recvName(t recvType) string {
	return [...]string{"func", "Dense", "VecDense", "SymDense", "TriDense"}[t]
}

// statesFor lists the receiver states that apply to an operation.
func statesFor(op *opDef) []int {
	var st []int
	switch {
	case op.recv == rNone:
		return []int{stZero}
	case op.sizedOnly:
		st = []int{stSized, stView}
	case op.strict || op.anyShape:
		st = []int{stZero, stReset, stSized, stView, stWrong}
	default:
		st = []int{stZero, stReset, stSized, stView}
	}
	if op.recv == rVec {
		st = append(st, stRowView)
	}
	return st
}

func checkOpSub(sub string) func(c opCase) *vk.Failure {
	return func(c opCase) *vk.Failure {
		f := checkOp(sub, c)
		if f != nil && !strings.HasSuffix(sub, "/"+c.Op) {
			// the random subs mix operations: name the operation in the key
			f.Key = c.Op + "/" + f.Key
		}
		return f
	}
}

func checkOp(sub string, c opCase) *vk.Failure {
	op := opByID[c.Op]
	if op == nil {
		return vk.Failf("bad-case", "unknown operation %q", c.Op)
	}
	x := &ctx{c: &c, op: op, p: ((c.P % op.nP) + op.nP) % op.nP, alpha: alphas[((c.A%len(alphas))+len(alphas))%len(alphas)]}
	// kinds, including those fixed by the operation
	x.ks = make([]*kind, len(op.params))
	ki := 0
	for i, p := range op.params {
		name := ""
		if p.fixed != nil {
			name = p.fixed(x.p)
		} else {
			if ki >= len(c.Kinds) {
				return vk.Failf("bad-case", "too few kinds")
			}
			name = c.Kinds[ki]
			ki++
		}
		k := kindByID[name]
		if k == nil || !eligible(k, p) {
			return vk.Failf("bad-case", "kind %q not applicable to operand %d of %s", name, i, op.name)
		}
		x.ks[i] = k
	}
	// operands built from one object
	share, src, dst := c.Share, -1, -1
	if share < 0 || share >= nShare {
		return vk.Failf("bad-case", "share pattern %d", share)
	}
	if share != shrNone {
		si, sj, okp := sharePair(op)
		if !okp {
			share = shrNone
		} else {
			src, dst = si, sj
			if share == shrTLeft {
				src, dst = sj, si
			}
			ps, pd := op.params[src], op.params[dst]
			switch {
			case ps.role == pSym || ps.role == pTri:
				// T() of these is not a Symmetric/Triangular of the same orientation
				if share != shrWholeView {
					share = shrSame
				}
			case ps.role == pVector:
				if share == shrWrapBoth || (shareT(share) && pd.colOnly) {
					share = shrSame
				}
			case share == shrWrapBoth:
				// the kind must be able to hold the transposed value
				k := x.ks[src]
				if (k.shape != shAny && k.shape != shSquare) || opposite(k.class) != k.class {
					share = shrSame
				}
			}
			x.ks[dst] = x.ks[src]
		}
	}
	d, ok := resolve(op, x.ks, c.Dims, share, src, dst)
	if !ok {
		vk.Class("infeasible-shape")
		return nil
	}
	x.d = d
	x.rng = vk.NewSplitMix(c.Seed)
	b := &builder{rng: vk.NewSplitMix(c.Seed*0x9e3779b97f4a7c15 + 0x1234)}
	if op.setup != nil {
		op.setup(x)
	}

	// ---- logical operands
	x.lg = make([]*logical, len(op.params))
	var base []float64
	for i, p := range op.params {
		if share != shrNone && i == dst {
			continue // derived from the source operand after rendering
		}
		k := x.ks[i]
		r, cdim := 0, 0
		if p.role == pVector {
			r, cdim = d[p.rv], 1
			if k.shape == shRow {
				r, cdim = 1, d[p.rv]
			}
		} else {
			r, cdim = d[p.rv], d[p.cv]
		}
		fl := max(p.fl, k.flavor)
		if share != shrNone && i == src {
			fl = max(fl, op.params[dst].fl)
			p.nz = p.nz || op.params[dst].nz
		}
		var l *logical
		if op.shared {
			if base == nil {
				for _, kk := range x.ks {
					fl = max(fl, kk.flavor)
				}
				g := genLogical(cGeneral, r, cdim, fl, c.Mode, false, x.rng)
				anyUnit := false
				for _, kk := range x.ks {
					anyUnit = anyUnit || kk.unit
				}
				if anyUnit && fl >= fWell {
					// A unit-diagonal operand replaces the dominant diagonal of the
					// shared base by ones. Scale the off-diagonal part (by a power of
					// two) so that the base stays strictly diagonally dominant, and an
					// fSPD base positive definite, with a unit diagonal as well.
					s := 1.0
					for s < float64(4*max(r, cdim)) {
						s *= 2
					}
					for a := 0; a < r; a++ {
						for bb := 0; bb < cdim; bb++ {
							if a != bb {
								g.v[a*cdim+bb] /= s
							}
						}
					}
				}
				if x.rng.Intn(3) == 0 {
					// diagonal base: every structure class can represent it
					for a := 0; a < r; a++ {
						for bb := 0; bb < cdim; bb++ {
							if a != bb {
								g.v[a*cdim+bb] = 0
							}
						}
					}
				}
				base = g.v
			}
			kl, ku := bandwidths(k.class, r, cdim, x.rng)
			l = project(base, r, cdim, k.class, kl, ku)
			base = l.v
		} else {
			l = genLogical(k.class, r, cdim, fl, c.Mode, p.nz, x.rng)
		}
		if k.unit {
			for q := 0; q < min(r, cdim); q++ {
				l.v[q*cdim+q] = 1
			}
		}
		if op.prep != nil && !(k.unit && op.name == "Exp") {
			// (Exp's rescaling would destroy the unit diagonal)
			op.prep(x, i, l)
		}
		x.lg[i] = l
	}

	// ---- render, oracle 1
	x.args = make([]mat.Matrix, len(op.params))
	var wrapped mat.Matrix // the X of shrWrapBoth
	for i := range op.params {
		if share != shrNone && i == dst {
			continue
		}
		k := x.ks[i]
		var m mat.Matrix
		if share == shrWrapBoth && i == src {
			if res := vk.Call(func() { wrapped = k.build(b, x.lg[i].transposed()) }); res.Outcome != vk.Returned {
				return vk.Failf("render-panic", "building kind %s panicked: %s", k.name, res.Text)
			}
			m = mat.Transpose{Matrix: wrapped}
			if f := checkValues(k, m, x.lg[i]); f != nil {
				return f
			}
			if k.approx {
				adopt(m, x.lg[i])
			}
			x.args[i] = m
			continue
		}
		if res := vk.Call(func() { m = k.build(b, x.lg[i]) }); res.Outcome != vk.Returned {
			return vk.Failf("render-panic", "building kind %s (%dx%d) panicked: %s", k.name, x.lg[i].r, x.lg[i].c, res.Text)
		}
		if f := checkAt(k, m, x.lg[i]); f != nil {
			return f
		}
		if k.approx {
			adopt(m, x.lg[i])
		}
		x.args[i] = m
	}
	if share != shrNone {
		// the derived operand: same object, another wrapper
		a := x.args[src]
		l := x.lg[src]
		var m mat.Matrix = a
		switch share {
		case shrTRight, shrTLeft:
			l = l.transposed()
			if op.params[src].role == pVector {
				m = mat.TransposeVec{Vector: a.(mat.Vector)}
			} else {
				m = a.T()
			}
		case shrWrapBoth:
			m = mat.Transpose{Matrix: wrapped}
		case shrWholeView:
			switch t := a.(type) {
			case *mat.Dense:
				m = t.Slice(0, l.r, 0, l.c)
			case *mat.VecDense:
				m = t.SliceVec(0, l.r)
			case *mat.SymDense:
				m = t.SliceSym(0, l.r)
			case *mat.TriDense:
				m = t.SliceTri(0, l.r)
			}
		}
		if f := checkValues(x.ks[src], m, l); f != nil {
			return f
		}
		if x.ks[src].approx && l != x.lg[src] {
			// factorization kinds: the value is what At returns (EigenSym.T()
			// is the receiver itself and its At is symmetric only to rounding)
			adopt(m, l)
		}
		x.lg[dst], x.args[dst] = l, m
		vk.Class("share=" + shareNames[share])
	}

	// ---- evidence
	rr, rc := 0, 0
	if op.res != nil {
		rr, rc = op.res(x)
	}
	upper := false
	if op.upper != nil {
		upper = op.upper(x)
	}
	state := c.State
	names := make([]string, len(x.ks))
	fams := make([]string, len(x.ks))
	nonCompact := false
	big := 0
	for i, k := range x.ks {
		names[i], fams[i] = k.name, k.fam
		if !k.compact {
			nonCompact = true
		}
		big = max(big, x.lg[i].r, x.lg[i].c)
		vk.Class("kind=" + k.name)
	}
	if op.recv != rNone {
		big = max(rr, rc)
	}
	vk.Class("op=" + op.name)
	if len(fams) <= 2 {
		vk.Class("op:families=" + op.name + ":" + strings.Join(fams, ","))
	}
	vk.Class("recv=" + recvName(op.recv) + "/" + stateNames[state])
	vk.Class("mode=" + fmt.Sprint(c.Mode))
	if (nonCompact || share != shrNone || (len(x.ks) == 0 && state != stZero)) && big >= 2 {
		vk.NonTrivial(op.name, strings.Join(names, "|"), state, x.p, shapeClass(d), share)
	}
	vk.Sample(sub, c)

	// ---- receiver and first run
	var init []float64
	if op.preload != nil {
		init = op.preload(x)
	}
	if op.recv != rNone {
		r0 := rr
		if op.anyShape && state == stRowView {
			// a shorter unit-increment view: cloning must not grow it into the
			// elements of the parent that follow it
			r0 = max(1, rr-2)
		}
		x.recv = newReceiver(op.recv, state, r0, rc, upper, b, init)
	}
	expectPanic := (op.panics != nil && op.panics(x)) || (state == stWrong && !op.anyShape)
	if expectPanic {
		if f := vk.MustPanic("shape-panic", func() { op.run(x) }); f != nil {
			f.Msg = fmt.Sprintf("%s(%s) recv=%s dims=%v: %s", op.name, strings.Join(names, ", "), stateNames[state], d, f.Msg)
			return f
		}
		if x.recv != nil && x.recv.parent != nil {
			if f := x.recv.verifyUnchanged(); f != nil {
				return f
			}
		}
		return b.verify()
	}
	var ref result
	refOK := false
	if !op.noRef {
		ref, refOK = op.ref(x)
		if !refOK {
			vk.Inconclusive("reference-singular")
		}
	}
	what := func(run string) string {
		sh := ""
		if share != shrNone {
			sh = fmt.Sprintf(" operands %d,%d share one object (%s)", src, dst, shareNames[share])
		}
		return fmt.Sprintf("%s(%s)%s %s recv=%s dims=%v alpha=%v p=%d mode=%d", op.name, strings.Join(names, ", "), sh, run, stateNames[state], d, x.alpha, x.p, c.Mode)
	}
	if res := vk.Call(func() { op.run(x) }); res.Outcome != vk.Returned {
		return vk.Failf(panicKey(op, "panic", res.Text), "%s ended in %v: %s", what("rendered operands"), res.Outcome, res.Text)
	}
	if x.err != nil {
		return vk.Failf("error", "%s returned error %v on a well-conditioned operand", what("rendered operands"), x.err)
	}
	gr, gc, got := x.or, x.oc, x.out
	if op.recv != rNone {
		gr, gc, got = readMatrix(x.recv.matrix())
	}
	if refOK {
		// oracle 2 (and 4: adopted shape, garbage never shows)
		if f := compare("value", gr, gc, got, ref, 1, what("rendered operands")); f != nil {
			return f
		}
	}
	if op.sanity != nil {
		if f := op.sanity(x, got); f != nil {
			return f
		}
	}
	if f := b.verify(); f != nil {
		return f
	}
	if x.recv != nil {
		if f := x.recv.verifyOutside(); f != nil {
			return f
		}
	}

	// ---- oracle 3: all-basic operands, zero-value (or plain sized) receiver
	x2 := *x
	x2.args = make([]mat.Matrix, len(op.params))
	for i, p := range op.params {
		if p.fixed != nil {
			// the method receiver of MulVecTo/SolveTo keeps its concrete type
			x2.args[i] = x.args[i]
			continue
		}
		x2.args[i] = basicFor(p, x.ks[i], x.lg[i])
	}
	x2.out, x2.err, x2.ints = nil, nil, nil
	if op.recv != rNone {
		st2, init2 := op.basicState, []float64(nil)
		if op.sizedOnly {
			st2, init2 = stSized, x.recv.init
		}
		x2.recv = newReceiver(op.recv, st2, rr, rc, upper, b, init2)
	}
	if res := vk.Call(func() { op.run(&x2) }); res.Outcome != vk.Returned {
		return vk.Failf(panicKey(op, "panic-basic", res.Text), "%s ended in %v: %s", what("basic operands"), res.Outcome, res.Text)
	}
	if x2.err != nil {
		return vk.Failf("error-basic", "%s returned error %v", what("basic operands"), x2.err)
	}
	gr2, gc2, got2 := x2.or, x2.oc, x2.out
	if op.recv != rNone {
		gr2, gc2, got2 = readMatrix(x2.recv.matrix())
	}
	if gr2 != gr || gc2 != gc || len(got2) != len(got) {
		return vk.Failf("repr-dims", "%s: result %dx%d, with basic operands %dx%d", what("rendered vs basic"), gr, gc, gr2, gc2)
	}
	for i := range got {
		tol := 0.0
		switch {
		case refOK:
			tol = 2 * ref.tol[i]
		case op.relTol3 > 0:
			tol = op.relTol3 * math.Max(math.Abs(got[i]), math.Abs(got2[i]))
		}
		if !vk.Close(got[i], got2[i], tol) {
			return vk.Failf("repr", "%s: element (%d,%d) = %v but %v with basic operands (bound %g)", what("rendered vs basic"), i/max(gc, 1), i%max(gc, 1), got[i], got2[i], tol)
		}
	}
	return nil
}

// ---- exhaustive part -------------------------------------------------------------

func hash64(parts ...any) uint64 {
	h := fnv.New64a()
	for _, p := range parts {
		fmt.Fprintf(h, "%v|", p)
	}
	return h.Sum64()
}

// enumOp describes the enumeration of one operation: every ordered tuple of
// kinds for its (leading) operand positions × receiver state × P × repetition.
type enumOp struct {
	op     *opDef
	lists  [][]string // eligible kinds per enumerated position
	rot    [][]string // eligible kinds of the rotating positions
	states []int
	nP     int
	reps   int
	total  int
}

func newEnumOp(op *opDef, reps int) *enumOp {
	e := &enumOp{op: op, states: statesFor(op), nP: 1, reps: reps}
	if op.enumP {
		e.nP = op.nP
	}
	var free []param
	for _, p := range op.params {
		if p.fixed == nil {
			free = append(free, p)
		}
	}
	ar := len(free)
	if op.enumArity > 0 && op.enumArity < ar {
		ar = op.enumArity
	}
	e.total = len(e.states) * e.nP * reps
	for i, p := range free {
		if i < ar {
			e.lists = append(e.lists, eligibleKinds(p))
			e.total *= len(eligibleKinds(p))
		} else {
			e.rot = append(e.rot, eligibleKinds(p))
		}
	}
	return e
}

func (e *enumOp) gen(i int) opCase {
	idx := i
	rep := idx % e.reps
	idx /= e.reps
	st := e.states[idx%len(e.states)]
	idx /= len(e.states)
	p := idx % e.nP
	idx /= e.nP
	c := opCase{Op: e.op.name, State: st}
	for _, l := range e.lists {
		c.Kinds = append(c.Kinds, l[idx%len(l)])
		idx /= len(l)
	}
	rng := vk.NewSplitMix(hash64(vk.Seed(), e.op.name, i))
	for _, l := range e.rot {
		c.Kinds = append(c.Kinds, l[rng.Intn(len(l))])
	}
	if e.op.enumP {
		c.P = p
	} else {
		c.P = rng.Intn(e.op.nP)
	}
	c.Dims = make([]int, e.op.nvars)
	for k := range c.Dims {
		if rng.Intn(10) == 0 {
			c.Dims[k] = 1
		} else {
			c.Dims[k] = 2 + rng.Intn(7)
		}
	}
	c.Seed = rng.Uint64()
	c.Mode = (rep + int(rng.Uint64()%2)) % 2
	c.A = rng.Intn(len(alphas))
	return c
}

func TestOpsExhaustive(t *testing.T) {
	base := vk.Pick(1, 3)
	for _, op := range ops {
		// operations with few kind tuples get more shapes per tuple
		e := newEnumOp(op, 1)
		boost := min(max(1, (2000+e.total-1)/e.total), 8)
		e = newEnumOp(op, base*boost)
		sub := "enum/" + op.name
		t.Run(op.name, func(t *testing.T) {
			vk.Enumerate(t, sub, e.total, e.gen, checkOpSub(sub))
		})
	}
}

// TestOpsShared: for every operation with two operand positions of the same
// kind of argument, both are built from ONE object of every kind in every share
// pattern (same value twice, x and x.T(), two equal Transpose wrappers, x and a
// slice covering all of it); reference and all-basic run use independent values.
func TestOpsShared(t *testing.T) {
	reps := vk.Pick(2, 6)
	for _, op := range ops {
		si, _, ok := sharePair(op)
		if !ok {
			continue
		}
		op := op
		srcKinds := eligibleKinds(op.params[si])
		var states []int
		for _, st := range statesFor(op) {
			if st == stZero || st == stView {
				states = append(states, st)
			}
		}
		n := len(srcKinds) * (nShare - 1) * len(states) * reps
		sub := "shared/" + op.name
		gen := func(i int) opCase {
			idx := i / reps
			st := states[idx%len(states)]
			idx /= len(states)
			share := 1 + idx%(nShare-1)
			kname := srcKinds[idx/(nShare-1)]
			rng := vk.NewSplitMix(hash64(vk.Seed(), "shared", op.name, i))
			c := opCase{Op: op.name, State: st, Share: share, Seed: rng.Uint64(), Mode: i % 2, A: rng.Intn(len(alphas)), P: rng.Intn(op.nP)}
			for _, p := range op.params {
				if p.fixed != nil {
					continue
				}
				if p.role == op.params[si].role {
					c.Kinds = append(c.Kinds, kname)
				} else {
					el := eligibleKinds(p)
					c.Kinds = append(c.Kinds, el[rng.Intn(len(el))])
				}
			}
			c.Dims = make([]int, op.nvars)
			for k := range c.Dims {
				c.Dims[k] = 2 + rng.Intn(6)
			}
			return c
		}
		t.Run(op.name, func(t *testing.T) {
			vk.Enumerate(t, sub, n, gen, checkOpSub(sub))
		})
	}
}

// ---- random part -------------------------------------------------------------------

func drawCase(t *rapid.T, op *opDef, maxDim int) opCase {
	c := opCase{Op: op.name}
	for _, p := range op.params {
		if p.fixed != nil {
			continue
		}
		c.Kinds = append(c.Kinds, rapid.SampledFrom(eligibleKinds(p)).Draw(t, "kind"))
	}
	c.State = rapid.SampledFrom(statesFor(op)).Draw(t, "state")
	for _, name := range c.Kinds {
		if kindByID[name].fam == "fact" && maxDim > 24 {
			// At of a factorization costs O(n^2) per element (documented as
			// slow): a generic-path product over it would take minutes at n=200
			maxDim = 24
		}
	}
	c.Dims = make([]int, op.nvars)
	for i := range c.Dims {
		if maxDim <= 8 {
			c.Dims[i] = rapid.IntRange(1, maxDim).Draw(t, "dim")
		} else {
			c.Dims[i] = vk.Dim(t, "dim", 1, maxDim, 4, 8, 16, 32, 64, 128)
		}
	}
	c.Seed = vk.SeedGen(t, "seed")
	c.Mode = rapid.IntRange(0, 1).Draw(t, "mode")
	c.A = rapid.IntRange(0, len(alphas)-1).Draw(t, "alpha")
	c.P = rapid.IntRange(0, op.nP-1).Draw(t, "p")
	if _, _, ok := sharePair(op); ok {
		c.Share = rapid.SampledFrom([]int{0, 0, 0, 0, 0, 0, 1, 2, 3, 4, 5}).Draw(t, "share")
	}
	return c
}

func TestOpsRandom(t *testing.T) {
	var names []string
	for _, op := range ops {
		if !op.enumOnly {
			names = append(names, op.name)
		}
	}
	vk.Run(t, "rand/small", vk.Opts{Quick: 60000, Thorough: 600000, NoCrumb: true}, func(t *rapid.T) opCase {
		op := opByID[rapid.SampledFrom(names).Draw(t, "op")]
		return drawCase(t, op, 8)
	}, checkOpSub("rand/small"))
}

func TestOpsRandomBig(t *testing.T) {
	var names []string
	for _, op := range ops {
		if op.big {
			names = append(names, op.name)
		}
	}
	vk.Run(t, "rand/big", vk.Opts{Quick: 3000, Thorough: 60000}, func(t *rapid.T) opCase {
		op := opByID[rapid.SampledFrom(names).Draw(t, "op")]
		return drawCase(t, op, 200)
	}, checkOpSub("rand/big"))
}
