package c04

import (
	"fmt"
	"math"

	"gonum.org/v1/gonum/mat"
	"verifharness/vk"
)

// ---- operation table ---------------------------------------------------------

type role int

const (
	pMatrix role = iota // parameter of type mat.Matrix: every kind applies
	pVector             // mat.Vector
	pSym                // mat.Symmetric
	pTri                // mat.Triangular
)

// param describes one operand position. rv/cv index the operation's dimension
// variables (for a vector parameter rv is its length).
type param struct {
	role    role
	rv, cv  int
	fl      flavor
	nz      bool               // draw non-zero values (divisor)
	colOnly bool               // a Vector that must be n×1
	fixed   func(p int) string // concrete kind fixed by the operation (method receivers such as *BandDense)
}

type ctx struct {
	c     *opCase
	op    *opDef
	d     []int
	ks    []*kind
	lg    []*logical
	args  []mat.Matrix
	alpha float64
	p     int
	idx   []int
	rng   *vk.SplitMix
	recv  *receiver
	// outputs of function-style operations
	out    []float64
	or, oc int
	err    error
	ints   []int
}

func (x *ctx) V(i int) mat.Vector     { return x.args[i].(mat.Vector) }
func (x *ctx) S(i int) mat.Symmetric  { return x.args[i].(mat.Symmetric) }
func (x *ctx) T(i int) mat.Triangular { return x.args[i].(mat.Triangular) }
func (x *ctx) setScalar(v float64)    { x.out, x.or, x.oc = []float64{v}, 1, 1 }

type opDef struct {
	name   string
	recv   recvType
	nvars  int
	params []param
	// res gives the shape of the result (receiver) from the dimension variables.
	res func(x *ctx) (int, int)
	// upper gives the orientation of a TriDense result.
	upper func(x *ctx) bool
	// strict: a sized receiver of the wrong shape must panic.
	strict bool
	// anyShape: the receiver's previous shape is irrelevant (CloneFrom).
	anyShape bool
	// sizedOnly: the operation needs a sized receiver (Copy and in-place operations).
	sizedOnly bool
	// preload: initial receiver contents for in-place operations.
	preload func(x *ctx) []float64
	// shared: all operands are projections of one base value matrix.
	shared bool
	// big: eligible for the random large-shape part.
	big bool
	// enumArity: number of leading enumerated parameters whose kinds are
	// enumerated exhaustively (0 = all); the others rotate.
	enumArity int
	nP        int  // number of values of the integer parameter P
	enumP     bool // P is enumerated exhaustively (otherwise it rotates)
	// prep may rescale a logical operand before it is rendered.
	prep func(x *ctx, i int, l *logical)
	// setup draws index sets / permutations.
	setup func(x *ctx)
	// panics reports that the documented outcome of this case is a panic.
	panics func(x *ctx) bool
	run    func(x *ctx)
	// ref is the element-wise definition; ok=false: no reference (singular).
	ref func(x *ctx) (result, bool)
	// noRef: there is no independent reference, only representation independence
	// (oracle 3) is asserted, with relative tolerance relTol3.
	noRef   bool
	relTol3 float64
	// enumOnly: not drawn by the random sub-checks and coarse panic keys (unused
	// since the TriDense.Copy defects were repaired; kept for future findings).
	enumOnly bool
	// basicState is the receiver state of the all-basic run of oracle 3 (default
	// stZero; stSized for operations that need a sized receiver).
	basicState int
	// sanity is an extra check of the result of run 1.
	sanity func(x *ctx, got []float64) *vk.Failure
}

var (
	ops    []*opDef
	opByID = map[string]*opDef{}
)

func addOp(o *opDef) {
	if o.nP == 0 {
		o.nP = 1
	}
	if _, dup := opByID[o.name]; dup {
		panic("duplicate op " + o.name)
	}
	ops = append(ops, o)
	opByID[o.name] = o
}

var alphas = []float64{2, 0, 1, -1, 0.5, -1.5, 0.375}

func mp(rv, cv int) param                    { return param{role: pMatrix, rv: rv, cv: cv} }
func vp(n int) param                         { return param{role: pVector, rv: n, cv: -1} }
func vpc(n int) param                        { return param{role: pVector, rv: n, cv: -1, colOnly: true} }
func sp(n int) param                         { return param{role: pSym, rv: n, cv: n} }
func tp(n int) param                         { return param{role: pTri, rv: n, cv: n} }
func (p param) well() param                  { p.fl = fWell; return p }
func (p param) spd() param                   { p.fl = fSPD; return p }
func (p param) nonzero() param               { p.nz = true; return p }
func fixedKind(name string) func(int) string { return func(int) string { return name } }

func resVars(r, c int) func(x *ctx) (int, int) {
	return func(x *ctx) (int, int) {
		rr, cc := 1, 1
		if r >= 0 {
			rr = x.d[r]
		}
		if c >= 0 {
			cc = x.d[c]
		}
		return rr, cc
	}
}

func okRef(r result) (result, bool) { return r, true }

func constTol(r *result, t float64) {
	for i := range r.tol {
		r.tol[i] = t
	}
}

// symmetrize mirrors the upper triangle of an n×n result.
func symmetrize(r *result) {
	n := r.r
	for i := 0; i < n; i++ {
		for j := 0; j < i; j++ {
			r.want[i*n+j] = r.want[j*n+i]
			r.tol[i*n+j] = r.tol[j*n+i]
		}
	}
}

// triMask zeroes the part of an n×n result outside the given triangle.
func triMask(r *result, upper bool) {
	n := r.r
	for i := 0; i < n; i++ {
		for j := 0; j < n; j++ {
			if (upper && j < i) || (!upper && j > i) {
				r.want[i*n+j], r.tol[i*n+j] = 0, 0
			}
		}
	}
}

func vecAsCol(l *logical) *logical { return &logical{r: len(l.v), c: 1, v: l.v} }
func vecAsRow(l *logical) *logical { return &logical{r: 1, c: len(l.v), v: l.v} }

func init() {
	// ================= Dense =================
	elem := func(name string, f func(x, y float64) float64, call func(m *mat.Dense, a, b mat.Matrix)) {
		o := &opDef{name: name, recv: rDense, nvars: 2, params: []param{mp(0, 1), mp(0, 1)}, res: resVars(0, 1), strict: true,
			run: func(x *ctx) { call(x.recv.d, x.args[0], x.args[1]) },
			ref: func(x *ctx) (result, bool) { return okRef(refElem(x.lg[0], x.lg[1], f)) }}
		if name == "DivElem" {
			o.params[1] = o.params[1].nonzero()
		}
		addOp(o)
	}
	elem("Add", func(x, y float64) float64 { return x + y }, (*mat.Dense).Add)
	elem("Sub", func(x, y float64) float64 { return x - y }, (*mat.Dense).Sub)
	elem("MulElem", func(x, y float64) float64 { return x * y }, (*mat.Dense).MulElem)
	elem("DivElem", func(x, y float64) float64 { return x / y }, (*mat.Dense).DivElem)

	addOp(&opDef{name: "Mul", recv: rDense, nvars: 3, params: []param{mp(0, 1), mp(1, 2)}, res: resVars(0, 2), strict: true, big: true,
		run: func(x *ctx) { x.recv.d.Mul(x.args[0], x.args[1]) },
		ref: func(x *ctx) (result, bool) { return okRef(refMul(x.lg[0], x.lg[1])) }})

	addOp(&opDef{name: "Product1", recv: rDense, nvars: 2, params: []param{mp(0, 1)}, res: resVars(0, 1), strict: true,
		run: func(x *ctx) { x.recv.d.Product(x.args[0]) },
		ref: func(x *ctx) (result, bool) { return okRef(refChain(x.lg[0])) }})
	addOp(&opDef{name: "Product3", recv: rDense, nvars: 4, params: []param{mp(0, 1), mp(1, 2), mp(2, 3)}, res: resVars(0, 3), strict: true, enumArity: 2,
		run: func(x *ctx) { x.recv.d.Product(x.args[0], x.args[1], x.args[2]) },
		ref: func(x *ctx) (result, bool) { return okRef(refChain(x.lg...)) }})
	addOp(&opDef{name: "Product4", recv: rDense, nvars: 5, params: []param{mp(0, 1), mp(1, 2), mp(2, 3), mp(3, 4)}, res: resVars(0, 4), strict: true, enumArity: 1,
		run: func(x *ctx) { x.recv.d.Product(x.args...) },
		ref: func(x *ctx) (result, bool) { return okRef(refChain(x.lg...)) }})

	addOp(&opDef{name: "Scale", recv: rDense, nvars: 2, params: []param{mp(0, 1)}, res: resVars(0, 1), strict: true,
		run: func(x *ctx) { x.recv.d.Scale(x.alpha, x.args[0]) },
		ref: func(x *ctx) (result, bool) {
			return okRef(refMap(x.lg[0], func(i, j int, v float64) float64 { return x.alpha * v }))
		}})
	applyFn := func(i, j int, v float64) float64 { return v*0.5 + float64(3*i+7*j) }
	addOp(&opDef{name: "Apply", recv: rDense, nvars: 2, params: []param{mp(0, 1)}, res: resVars(0, 1), strict: true,
		run: func(x *ctx) { x.recv.d.Apply(applyFn, x.args[0]) },
		ref: func(x *ctx) (result, bool) { return okRef(refMap(x.lg[0], applyFn)) }})

	// Copy: the receiver has its own shape; only the overlap is written.
	addOp(&opDef{name: "Copy", recv: rDense, nvars: 4, params: []param{mp(0, 1)}, res: resVars(2, 3), sizedOnly: true,
		run: func(x *ctx) { r, c := x.recv.d.Copy(x.args[0]); x.ints = []int{r, c} },
		ref: func(x *ctx) (result, bool) {
			a := x.lg[0]
			r, c := x.d[2], x.d[3]
			res := newResult(r, c)
			copy(res.want, x.recv.init)
			for i := 0; i < min(r, a.r); i++ {
				for j := 0; j < min(c, a.c); j++ {
					res.want[i*c+j] = a.at(i, j)
				}
			}
			return res, true
		},
		sanity: func(x *ctx, _ []float64) *vk.Failure {
			wr, wc := min(x.d[2], x.lg[0].r), min(x.d[3], x.lg[0].c)
			if x.ints[0] != wr || x.ints[1] != wc {
				return vk.Failf("copy-count", "Copy returned (%d,%d), want (%d,%d)", x.ints[0], x.ints[1], wr, wc)
			}
			return nil
		}})
	addOp(&opDef{name: "CloneFrom", recv: rDense, nvars: 2, params: []param{mp(0, 1)}, res: resVars(0, 1), anyShape: true,
		run: func(x *ctx) { x.recv.d.CloneFrom(x.args[0]) },
		ref: func(x *ctx) (result, bool) { return okRef(refChain(x.lg[0])) }})

	addOp(&opDef{name: "Stack", recv: rDense, nvars: 3, params: []param{mp(0, 2), mp(1, 2)}, strict: true,
		res: func(x *ctx) (int, int) { return x.d[0] + x.d[1], x.d[2] },
		run: func(x *ctx) { x.recv.d.Stack(x.args[0], x.args[1]) },
		ref: func(x *ctx) (result, bool) {
			a, b := x.lg[0], x.lg[1]
			res := newResult(a.r+b.r, a.c)
			copy(res.want, a.v)
			copy(res.want[len(a.v):], b.v)
			return res, true
		}})
	addOp(&opDef{name: "Augment", recv: rDense, nvars: 3, params: []param{mp(0, 1), mp(0, 2)}, strict: true,
		res: func(x *ctx) (int, int) { return x.d[0], x.d[1] + x.d[2] },
		run: func(x *ctx) { x.recv.d.Augment(x.args[0], x.args[1]) },
		ref: func(x *ctx) (result, bool) {
			a, b := x.lg[0], x.lg[1]
			c := a.c + b.c
			res := newResult(a.r, c)
			for i := 0; i < a.r; i++ {
				copy(res.want[i*c:], a.v[i*a.c:(i+1)*a.c])
				copy(res.want[i*c+a.c:], b.v[i*b.c:(i+1)*b.c])
			}
			return res, true
		}})
	addOp(&opDef{name: "Kronecker", recv: rDense, nvars: 4, params: []param{mp(0, 1), mp(2, 3)}, strict: true,
		res: func(x *ctx) (int, int) { return x.d[0] * x.d[2], x.d[1] * x.d[3] },
		run: func(x *ctx) { x.recv.d.Kronecker(x.args[0], x.args[1]) },
		ref: func(x *ctx) (result, bool) {
			a, b := x.lg[0], x.lg[1]
			R, C := a.r*b.r, a.c*b.c
			res := newResult(R, C)
			for i := 0; i < R; i++ {
				for j := 0; j < C; j++ {
					res.want[i*C+j] = a.at(i/b.r, j/b.c) * b.at(i%b.r, j%b.c)
				}
			}
			return res, true
		}})

	pows := []int{0, 1, 2, 3, 5, 6}
	addOp(&opDef{name: "Pow", recv: rDense, nvars: 1, params: []param{mp(0, 0)}, res: resVars(0, 0), strict: true, nP: len(pows),
		run: func(x *ctx) { x.recv.d.Pow(x.args[0], pows[x.p]) },
		ref: func(x *ctx) (result, bool) { return okRef(refPow(x.lg[0], pows[x.p])) }})

	// Exp: the operand is rescaled by a power of two so that its 1-norm falls
	// into each of the Padé branches (thresholds 0.015, 0.25, 0.95, 2.1, 5.4).
	expNorms := []float64{0.01, 0.2, 0.9, 2, 5, 12}
	addOp(&opDef{name: "Exp", recv: rDense, nvars: 1, params: []param{mp(0, 0)}, res: resVars(0, 0), strict: true, nP: len(expNorms),
		prep: func(x *ctx, i int, l *logical) {
			n1 := normOne(l.r, l.c, l.v)
			if n1 == 0 {
				return
			}
			s := math.Exp2(math.Floor(math.Log2(expNorms[x.p] / n1)))
			for k := range l.v {
				l.v[k] *= s
			}
		},
		run: func(x *ctx) { x.recv.d.Exp(x.args[0]) },
		ref: func(x *ctx) (result, bool) { return okRef(refExp(x.lg[0])) }})

	addOp(&opDef{name: "Inverse", recv: rDense, nvars: 1, params: []param{mp(0, 0).well()}, res: resVars(0, 0), strict: true,
		run: func(x *ctx) { x.err = x.recv.d.Inverse(x.args[0]) },
		ref: func(x *ctx) (result, bool) { return refInverse(x.lg[0]) }})
	addOp(&opDef{name: "Solve", recv: rDense, nvars: 3, params: []param{mp(0, 1).well(), mp(0, 2)}, res: resVars(1, 2), strict: true, big: true,
		run: func(x *ctx) { x.err = x.recv.d.Solve(x.args[0], x.args[1]) },
		ref: func(x *ctx) (result, bool) { return refSolve(x.lg[0], x.lg[1]) }})

	rankOneRef := func(a *logical, alpha float64, xv, yv []float64) result {
		res := newResult(len(xv), len(yv))
		for i := range xv {
			for j := range yv {
				var s vk.DD
				var base float64
				if a != nil {
					base = a.at(i, j)
				}
				s.Add(base)
				t := alpha * xv[i]
				s.AddProd(t, yv[j])
				res.want[i*len(yv)+j] = s.Float()
				res.tol[i*len(yv)+j] = 4 * vk.Eps * (math.Abs(base) + 2*math.Abs(t*yv[j]))
			}
		}
		return res
	}
	addOp(&opDef{name: "RankOne", recv: rDense, nvars: 2, params: []param{mp(0, 1), vp(0), vp(1)}, res: resVars(0, 1), strict: true, enumArity: 2,
		run: func(x *ctx) { x.recv.d.RankOne(x.args[0], x.alpha, x.V(1), x.V(2)) },
		ref: func(x *ctx) (result, bool) { return okRef(rankOneRef(x.lg[0], x.alpha, x.lg[1].v, x.lg[2].v)) }})
	addOp(&opDef{name: "Outer", recv: rDense, nvars: 2, params: []param{vp(0), vp(1)}, res: resVars(0, 1), strict: true,
		run: func(x *ctx) { x.recv.d.Outer(x.alpha, x.V(0), x.V(1)) },
		ref: func(x *ctx) (result, bool) { return okRef(rankOneRef(nil, x.alpha, x.lg[0].v, x.lg[1].v)) }})

	drawPerm := func(v int) func(x *ctx) { return func(x *ctx) { x.idx = x.rng.Perm(x.d[v]) } }
	addOp(&opDef{name: "Permutation", recv: rDense, nvars: 1, res: resVars(0, 0), strict: true, setup: drawPerm(0),
		run: func(x *ctx) { x.recv.d.Permutation(x.d[0], x.idx) },
		ref: func(x *ctx) (result, bool) {
			n := x.d[0]
			res := newResult(n, n)
			for i, p := range x.idx {
				res.want[i*n+p] = 1
			}
			return res, true
		}})
	preloadGen := func(x *ctx) []float64 {
		l := genLogical(cGeneral, x.d[0], x.d[1], fGeneric, x.c.Mode, false, x.rng)
		x.lg = []*logical{l}
		return l.v
	}
	addOp(&opDef{name: "PermuteRows", recv: rDense, nvars: 2, res: resVars(0, 1), sizedOnly: true, setup: drawPerm(0), preload: preloadGen, nP: 2, enumP: true,
		run: func(x *ctx) { x.recv.d.PermuteRows(x.idx, x.p == 1) },
		ref: func(x *ctx) (result, bool) {
			a := x.lg[0]
			res := newResult(a.r, a.c)
			for i, p := range x.idx {
				for j := 0; j < a.c; j++ {
					if x.p == 1 { // inverse: A[i] moves to A[p[i]]
						res.want[p*a.c+j] = a.at(i, j)
					} else { // A[p[i]] moves to A[i]
						res.want[i*a.c+j] = a.at(p, j)
					}
				}
			}
			return res, true
		}})
	addOp(&opDef{name: "PermuteCols", recv: rDense, nvars: 2, res: resVars(0, 1), sizedOnly: true, setup: drawPerm(1), preload: preloadGen, nP: 2, enumP: true,
		run: func(x *ctx) { x.recv.d.PermuteCols(x.idx, x.p == 1) },
		ref: func(x *ctx) (result, bool) {
			a := x.lg[0]
			res := newResult(a.r, a.c)
			for j, p := range x.idx {
				for i := 0; i < a.r; i++ {
					if x.p == 1 {
						res.want[i*a.c+p] = a.at(i, j)
					} else {
						res.want[i*a.c+j] = a.at(i, p)
					}
				}
			}
			return res, true
		}})

	// ================= VecDense =================
	velem := func(name string, f func(x, y float64) float64, call func(v *mat.VecDense, a, b mat.Vector)) {
		o := &opDef{name: name, recv: rVec, nvars: 1, params: []param{vp(0), vp(0)}, res: resVars(0, -1), strict: true,
			run: func(x *ctx) { call(x.recv.v, x.V(0), x.V(1)) },
			ref: func(x *ctx) (result, bool) { return okRef(refElem(vecAsCol(x.lg[0]), vecAsCol(x.lg[1]), f)) }}
		if name == "DivElemVec" {
			o.params[1] = o.params[1].nonzero()
		}
		addOp(o)
	}
	velem("AddVec", func(x, y float64) float64 { return x + y }, (*mat.VecDense).AddVec)
	velem("SubVec", func(x, y float64) float64 { return x - y }, (*mat.VecDense).SubVec)
	velem("MulElemVec", func(x, y float64) float64 { return x * y }, (*mat.VecDense).MulElemVec)
	velem("DivElemVec", func(x, y float64) float64 { return x / y }, (*mat.VecDense).DivElemVec)
	addOp(&opDef{name: "ScaleVec", recv: rVec, nvars: 1, params: []param{vp(0)}, res: resVars(0, -1), strict: true,
		run: func(x *ctx) { x.recv.v.ScaleVec(x.alpha, x.V(0)) },
		ref: func(x *ctx) (result, bool) {
			return okRef(refMap(vecAsCol(x.lg[0]), func(i, j int, v float64) float64 { return x.alpha * v }))
		}})
	addOp(&opDef{name: "AddScaledVec", recv: rVec, nvars: 1, params: []param{vp(0), vp(0)}, res: resVars(0, -1), strict: true,
		run: func(x *ctx) { x.recv.v.AddScaledVec(x.V(0), x.alpha, x.V(1)) },
		ref: func(x *ctx) (result, bool) {
			a, b := x.lg[0].v, x.lg[1].v
			res := newResult(len(a), 1)
			for i := range a {
				var s vk.DD
				s.Add(a[i])
				s.AddProd(x.alpha, b[i])
				res.want[i] = s.Float()
				res.tol[i] = 4 * vk.Eps * (math.Abs(a[i]) + 2*math.Abs(x.alpha*b[i]))
			}
			return res, true
		}})
	addOp(&opDef{name: "MulVec", recv: rVec, nvars: 2, params: []param{mp(0, 1), vpc(1)}, res: resVars(0, -1), strict: true, big: true,
		run: func(x *ctx) { x.recv.v.MulVec(x.args[0], x.V(1)) },
		ref: func(x *ctx) (result, bool) { return okRef(refMul(x.lg[0], vecAsCol(x.lg[1]))) }})
	addOp(&opDef{name: "SolveVec", recv: rVec, nvars: 2, params: []param{mp(0, 1).well(), vpc(0)}, res: resVars(1, -1), strict: true, big: true,
		run: func(x *ctx) { x.err = x.recv.v.SolveVec(x.args[0], x.V(1)) },
		ref: func(x *ctx) (result, bool) { return refSolve(x.lg[0], vecAsCol(x.lg[1])) }})
	addOp(&opDef{name: "CopyVec", recv: rVec, nvars: 2, params: []param{vp(0)}, res: resVars(1, -1), sizedOnly: true,
		run: func(x *ctx) { x.ints = []int{x.recv.v.CopyVec(x.V(0))} },
		ref: func(x *ctx) (result, bool) {
			a := x.lg[0].v
			res := newResult(x.d[1], 1)
			copy(res.want, x.recv.init)
			copy(res.want[:min(len(a), x.d[1])], a)
			return res, true
		},
		sanity: func(x *ctx, _ []float64) *vk.Failure {
			if w := min(x.d[1], len(x.lg[0].v)); x.ints[0] != w {
				return vk.Failf("copy-count", "CopyVec returned %d, want %d", x.ints[0], w)
			}
			return nil
		}})
	addOp(&opDef{name: "CloneFromVec", recv: rVec, nvars: 1, params: []param{vp(0)}, res: resVars(0, -1), anyShape: true,
		run: func(x *ctx) { x.recv.v.CloneFromVec(x.V(0)) },
		ref: func(x *ctx) (result, bool) { return okRef(refChain(vecAsCol(x.lg[0]))) }})

	// ================= SymDense =================
	addOp(&opDef{name: "AddSym", recv: rSym, nvars: 1, params: []param{sp(0), sp(0)}, res: resVars(0, 0), strict: true,
		run: func(x *ctx) { x.recv.s.AddSym(x.S(0), x.S(1)) },
		ref: func(x *ctx) (result, bool) {
			r := refElem(x.lg[0], x.lg[1], func(a, b float64) float64 { return a + b })
			symmetrize(&r)
			return r, true
		}})
	addOp(&opDef{name: "CopySym", recv: rSym, nvars: 2, params: []param{sp(0)}, res: resVars(1, 1), sizedOnly: true,
		run: func(x *ctx) { x.ints = []int{x.recv.s.CopySym(x.S(0))} },
		ref: func(x *ctx) (result, bool) {
			a := x.lg[0]
			n := x.d[1]
			res := newResult(n, n)
			copy(res.want, x.recv.init)
			for i := 0; i < min(n, a.r); i++ {
				for j := i; j < min(n, a.r); j++ {
					res.want[i*n+j] = a.at(i, j)
				}
			}
			symmetrize(&res)
			return res, true
		},
		sanity: func(x *ctx, _ []float64) *vk.Failure {
			if w := min(x.d[1], x.lg[0].r); x.ints[0] != w {
				return vk.Failf("copy-count", "CopySym returned %d, want %d", x.ints[0], w)
			}
			return nil
		}})
	addOp(&opDef{name: "ScaleSym", recv: rSym, nvars: 1, params: []param{sp(0)}, res: resVars(0, 0), strict: true,
		run: func(x *ctx) { x.recv.s.ScaleSym(x.alpha, x.S(0)) },
		ref: func(x *ctx) (result, bool) {
			r := refMap(x.lg[0], func(i, j int, v float64) float64 { return x.alpha * v })
			symmetrize(&r)
			return r, true
		}})
	addOp(&opDef{name: "SymRankOne", recv: rSym, nvars: 1, params: []param{sp(0), vp(0)}, res: resVars(0, 0), strict: true,
		run: func(x *ctx) { x.recv.s.SymRankOne(x.S(0), x.alpha, x.V(1)) },
		ref: func(x *ctx) (result, bool) {
			r := rankOneRef(x.lg[0], x.alpha, x.lg[1].v, x.lg[1].v)
			symmetrize(&r)
			return r, true
		}})
	rankKRef := func(a *logical, alpha float64, xm *logical) result {
		n, k := xm.r, xm.c
		res := newResult(n, n)
		for i := 0; i < n; i++ {
			for j := i; j < n; j++ {
				var s vk.DD
				var S, base float64
				if a != nil {
					base = a.at(i, j)
				}
				s.Add(base)
				for q := 0; q < k; q++ {
					t := alpha * xm.at(i, q)
					s.AddProd(t, xm.at(j, q))
					S += math.Abs(t * xm.at(j, q))
				}
				res.want[i*n+j] = s.Float()
				res.tol[i*n+j] = vk.SumBound(k+2, vk.Eps, math.Abs(base)+2*S)
			}
		}
		symmetrize(&res)
		return res
	}
	addOp(&opDef{name: "SymRankK", recv: rSym, nvars: 2, params: []param{sp(0), mp(0, 1)}, res: resVars(0, 0), strict: true, big: true,
		run: func(x *ctx) { x.recv.s.SymRankK(x.S(0), x.alpha, x.args[1]) },
		ref: func(x *ctx) (result, bool) { return okRef(rankKRef(x.lg[0], x.alpha, x.lg[1])) }})
	addOp(&opDef{name: "SymOuterK", recv: rSym, nvars: 2, params: []param{mp(0, 1)}, res: resVars(0, 0), strict: true, big: true,
		run: func(x *ctx) { x.recv.s.SymOuterK(x.alpha, x.args[0]) },
		ref: func(x *ctx) (result, bool) { return okRef(rankKRef(nil, x.alpha, x.lg[0])) }})
	addOp(&opDef{name: "RankTwo", recv: rSym, nvars: 1, params: []param{sp(0), vp(0), vp(0)}, res: resVars(0, 0), strict: true, enumArity: 2,
		run: func(x *ctx) { x.recv.s.RankTwo(x.S(0), x.alpha, x.V(1), x.V(2)) },
		ref: func(x *ctx) (result, bool) {
			a, xv, yv := x.lg[0], x.lg[1].v, x.lg[2].v
			n := a.r
			res := newResult(n, n)
			for i := 0; i < n; i++ {
				for j := i; j < n; j++ {
					var s vk.DD
					s.AddProd(xv[i], yv[j])
					s.AddProd(yv[i], xv[j])
					inner := s.Float()
					var w vk.DD
					w.Add(a.at(i, j))
					w.AddProd(x.alpha, inner)
					res.want[i*n+j] = w.Float()
					res.tol[i*n+j] = 8 * vk.Eps * (math.Abs(a.at(i, j)) + 2*math.Abs(x.alpha)*(math.Abs(xv[i]*yv[j])+math.Abs(yv[i]*xv[j])))
				}
			}
			symmetrize(&res)
			return res, true
		}})
	addOp(&opDef{name: "SubsetSym", recv: rSym, nvars: 2, params: []param{sp(0)}, res: resVars(1, 1), strict: true,
		setup: func(x *ctx) {
			x.idx = make([]int, x.d[1])
			for i := range x.idx {
				x.idx[i] = x.rng.Intn(x.d[0])
			}
		},
		run: func(x *ctx) { x.recv.s.SubsetSym(x.S(0), x.idx) },
		ref: func(x *ctx) (result, bool) {
			a := x.lg[0]
			n := len(x.idx)
			res := newResult(n, n)
			for i := 0; i < n; i++ {
				for j := i; j < n; j++ {
					// the symmetric value of a is defined by its upper triangle
					p, q := x.idx[i], x.idx[j]
					if p > q {
						p, q = q, p
					}
					res.want[i*n+j] = a.at(p, q)
					// a user Symmetric whose At is symmetric only to rounding
					// (EigenSym) may be read in either triangle
					res.tol[i*n+j] = math.Abs(a.at(p, q) - a.at(q, p))
				}
			}
			symmetrize(&res)
			return res, true
		}})
	psdPows := []float64{1, 2, -1, 0.5}
	addOp(&opDef{name: "PowPSD", recv: rSym, nvars: 1, params: []param{sp(0).spd()}, res: resVars(0, 0), strict: true, nP: len(psdPows),
		run: func(x *ctx) { x.err = x.recv.s.PowPSD(x.S(0), psdPows[x.p]) },
		ref: func(x *ctx) (result, bool) {
			// the symmetric value is defined by the upper triangle
			a := project(x.lg[0].v, x.lg[0].r, x.lg[0].c, cSym, 0, 0)
			n := a.r
			_, kappa, ok := condInf(n, a.v)
			if !ok {
				return result{}, false
			}
			var res result
			switch psdPows[x.p] {
			case 1:
				res = refChain(a)
			case 2:
				res = refPow(a, 2)
			case -1:
				res, _ = refInverse(a)
			case 0.5:
				// no closed form: checked by squaring in sanity; the reference
				// here is a Newton (Denman–Beavers) iteration.
				res = newResult(n, n)
				y, z := append([]float64(nil), a.v...), identity(n)
				for it := 0; it < 60; it++ {
					yi, _, ok1 := condInf(n, y)
					zi, _, ok2 := condInf(n, z)
					if !ok1 || !ok2 {
						return result{}, false
					}
					for k := range y {
						y[k], z[k] = (y[k]+zi[k])/2, (z[k]+yi[k])/2
					}
				}
				copy(res.want, y)
			}
			// symmetric eigendecomposition is backward stable: C·n·eps·kappa·max|result|
			constTol(&res, linTol(n, kappa, maxAbs(res.want)))
			return res, true
		}})

	// ================= TriDense =================
	addOp(&opDef{name: "TriCopy", recv: rTri, nvars: 3, params: []param{mp(0, 1)}, res: resVars(2, 2), sizedOnly: true, nP: 2, enumP: true,
		upper: func(x *ctx) bool { return x.p == 0 },
		run:   func(x *ctx) { r, c := x.recv.t.Copy(x.args[0]); x.ints = []int{r, c} },
		ref: func(x *ctx) (result, bool) {
			a := x.lg[0]
			n := x.d[2]
			up := x.p == 0
			res := newResult(n, n)
			copy(res.want, x.recv.init)
			for i := 0; i < min(n, a.r); i++ {
				for j := 0; j < min(n, a.c); j++ {
					if (up && j >= i) || (!up && j <= i) {
						res.want[i*n+j] = a.at(i, j)
					}
				}
			}
			return res, true
		},
		sanity: func(x *ctx, _ []float64) *vk.Failure {
			wr, wc := min(x.d[2], x.lg[0].r), min(x.d[2], x.lg[0].c)
			if x.ints[0] != wr || x.ints[1] != wc {
				return vk.Failf("copy-count", "TriDense.Copy returned (%d,%d), want (%d,%d)", x.ints[0], x.ints[1], wr, wc)
			}
			return nil
		}})
	addOp(&opDef{name: "ScaleTri", recv: rTri, nvars: 1, params: []param{tp(0)}, res: resVars(0, 0), strict: true,
		upper: func(x *ctx) bool { return x.ks[0].triUpper },
		run:   func(x *ctx) { x.recv.t.ScaleTri(x.alpha, x.T(0)) },
		ref: func(x *ctx) (result, bool) {
			r := refMap(x.lg[0], func(i, j int, v float64) float64 { return x.alpha * v })
			triMask(&r, x.ks[0].triUpper)
			return r, true
		}})
	addOp(&opDef{name: "MulTri", recv: rTri, nvars: 1, params: []param{tp(0), tp(0)}, res: resVars(0, 0), strict: true,
		upper:  func(x *ctx) bool { return x.ks[0].triUpper },
		panics: func(x *ctx) bool { return x.ks[0].triUpper != x.ks[1].triUpper },
		run:    func(x *ctx) { x.recv.t.MulTri(x.T(0), x.T(1)) },
		ref: func(x *ctx) (result, bool) {
			r := refMul(x.lg[0], x.lg[1])
			triMask(&r, x.ks[0].triUpper)
			return r, true
		}})
	addOp(&opDef{name: "InverseTri", recv: rTri, nvars: 1, params: []param{tp(0).well()}, res: resVars(0, 0), strict: true,
		upper: func(x *ctx) bool { return x.ks[0].triUpper },
		run:   func(x *ctx) { x.err = x.recv.t.InverseTri(x.T(0)) },
		ref: func(x *ctx) (result, bool) {
			r, ok := refInverse(x.lg[0])
			triMask(&r, x.ks[0].triUpper)
			return r, ok
		}})

	// ================= MulVecTo / SolveTo / SolveVecTo on the band types =================
	// The matrix is the method receiver (a fixed concrete kind); dst plays the
	// receiver role of the property; the other operand varies over all kinds.
	mulVecTo := func(name string, fixed func(int) string, nfixed int, square bool, call func(a mat.Matrix, dst *mat.VecDense, trans bool, xv mat.Vector)) {
		for _, trans := range []bool{false, true} {
			trans := trans
			nm := name + ".MulVecTo"
			a := mp(0, 1)
			xi, ri := 1, 0
			if square {
				a = mp(0, 0)
				xi = 0
			}
			if trans {
				nm = name + ".MulVecTo(trans)"
				if !square {
					xi, ri = 0, 1
				}
			}
			a.fixed = fixed
			nv := 2
			if square {
				nv = 1
			}
			addOp(&opDef{name: nm, recv: rVec, nvars: nv, params: []param{a, vp(xi)}, res: resVars(ri, -1), strict: true, big: true, nP: nfixed, enumP: true,
				run: func(x *ctx) { call(x.args[0], x.recv.v, trans, x.V(1)) },
				ref: func(x *ctx) (result, bool) {
					al := x.lg[0]
					if trans {
						al = al.transposed()
					}
					return okRef(refMul(al, vecAsCol(x.lg[1])))
				}})
		}
	}
	mulVecTo("BandDense", func(p int) string { return [...]string{"band", "band.strided"}[p%2] }, 2, false,
		func(a mat.Matrix, dst *mat.VecDense, trans bool, xv mat.Vector) {
			a.(*mat.BandDense).MulVecTo(dst, trans, xv)
		})
	mulVecTo("SymBandDense", fixedKind("symband"), 1, true,
		func(a mat.Matrix, dst *mat.VecDense, trans bool, xv mat.Vector) {
			a.(*mat.SymBandDense).MulVecTo(dst, trans, xv)
		})
	mulVecTo("Tridiag", fixedKind("tridiag"), 1, true,
		func(a mat.Matrix, dst *mat.VecDense, trans bool, xv mat.Vector) {
			a.(*mat.Tridiag).MulVecTo(dst, trans, xv)
		})

	solveTo := func(name string, fixed func(int) string, nfixed int, call func(a mat.Matrix, dst *mat.Dense, trans bool, b mat.Matrix) error) {
		for _, trans := range []bool{false, true} {
			trans := trans
			nm := name + ".SolveTo"
			if trans {
				nm += "(trans)"
			}
			a := mp(0, 0).well()
			a.fixed = fixed
			addOp(&opDef{name: nm, recv: rDense, nvars: 2, params: []param{a, mp(0, 1)}, res: resVars(0, 1), strict: true, big: true, nP: nfixed, enumP: true,
				run: func(x *ctx) { x.err = call(x.args[0], x.recv.d, trans, x.args[1]) },
				ref: func(x *ctx) (result, bool) {
					al := x.lg[0]
					if trans {
						al = al.transposed()
					}
					return refSolve(al, x.lg[1])
				}})
		}
	}
	triKinds := func(p int) string { return [...]string{"triU", "triL.slice"}[p%2] }
	triBandKinds := func(p int) string { return [...]string{"tribandU", "tribandL"}[p%2] }
	solveTo("TriDense", triKinds, 2, func(a mat.Matrix, dst *mat.Dense, trans bool, b mat.Matrix) error {
		return a.(*mat.TriDense).SolveTo(dst, trans, b)
	})
	solveTo("TriBandDense", triBandKinds, 2, func(a mat.Matrix, dst *mat.Dense, trans bool, b mat.Matrix) error {
		return a.(*mat.TriBandDense).SolveTo(dst, trans, b)
	})
	solveTo("Tridiag", fixedKind("tridiag"), 1, func(a mat.Matrix, dst *mat.Dense, trans bool, b mat.Matrix) error {
		return a.(*mat.Tridiag).SolveTo(dst, trans, b)
	})
	solveVecTo := func(name string, fixed func(int) string, nfixed int, call func(a mat.Matrix, dst *mat.VecDense, trans bool, b mat.Vector) error) {
		for _, trans := range []bool{false, true} {
			trans := trans
			nm := name + ".SolveVecTo"
			if trans {
				nm += "(trans)"
			}
			a := mp(0, 0).well()
			a.fixed = fixed
			addOp(&opDef{name: nm, recv: rVec, nvars: 1, params: []param{a, vpc(0)}, res: resVars(0, -1), strict: true, big: true, nP: nfixed, enumP: true,
				run: func(x *ctx) { x.err = call(x.args[0], x.recv.v, trans, x.V(1)) },
				ref: func(x *ctx) (result, bool) {
					al := x.lg[0]
					if trans {
						al = al.transposed()
					}
					return refSolve(al, vecAsCol(x.lg[1]))
				}})
		}
	}
	solveVecTo("TriBandDense", triBandKinds, 2, func(a mat.Matrix, dst *mat.VecDense, trans bool, b mat.Vector) error {
		return a.(*mat.TriBandDense).SolveVecTo(dst, trans, b)
	})
	solveVecTo("Tridiag", fixedKind("tridiag"), 1, func(a mat.Matrix, dst *mat.VecDense, trans bool, b mat.Vector) error {
		return a.(*mat.Tridiag).SolveVecTo(dst, trans, b)
	})

	// ================= package functions =================
	addOp(&opDef{name: "Inner", recv: rNone, nvars: 2, params: []param{vp(0), mp(0, 1), vp(1)}, enumArity: 2, big: true,
		run: func(x *ctx) { x.setScalar(mat.Inner(x.V(0), x.args[1], x.V(2))) },
		ref: func(x *ctx) (result, bool) {
			xv, a, yv := x.lg[0].v, x.lg[1], x.lg[2].v
			var s vk.DD
			var S float64
			for i := range xv {
				for j := range yv {
					t := xv[i] * a.at(i, j)
					s.AddProd(t, yv[j])
					S += math.Abs(t * yv[j])
				}
			}
			return scalarResult(s.Float(), 2*vk.SumBound(len(xv)*len(yv)+2, vk.Eps, S)), true
		}})
	addOp(&opDef{name: "Dot", recv: rNone, nvars: 1, params: []param{vp(0), vp(0)}, big: true,
		run: func(x *ctx) { x.setScalar(mat.Dot(x.V(0), x.V(1))) },
		ref: func(x *ctx) (result, bool) {
			r := refMul(vecAsRow(x.lg[0]), vecAsCol(x.lg[1]))
			return r, true
		}})
	absSum := func(l *logical) (float64, float64) {
		var s vk.DD
		var S float64
		for _, v := range l.v {
			s.Add(v)
			S += math.Abs(v)
		}
		return s.Float(), S
	}
	addOp(&opDef{name: "Sum", recv: rNone, nvars: 2, params: []param{mp(0, 1)}, big: true,
		run: func(x *ctx) { x.setScalar(mat.Sum(x.args[0])) },
		ref: func(x *ctx) (result, bool) {
			s, S := absSum(x.lg[0])
			return scalarResult(s, vk.SumBound(len(x.lg[0].v), vk.Eps, S)), true
		}})
	addOp(&opDef{name: "Max", recv: rNone, nvars: 2, params: []param{mp(0, 1)},
		run: func(x *ctx) { x.setScalar(mat.Max(x.args[0])) },
		ref: func(x *ctx) (result, bool) {
			m := math.Inf(-1)
			for _, v := range x.lg[0].v {
				m = math.Max(m, v)
			}
			return scalarResult(m, 0), true
		}})
	addOp(&opDef{name: "Min", recv: rNone, nvars: 2, params: []param{mp(0, 1)},
		run: func(x *ctx) { x.setScalar(mat.Min(x.args[0])) },
		ref: func(x *ctx) (result, bool) {
			m := math.Inf(1)
			for _, v := range x.lg[0].v {
				m = math.Min(m, v)
			}
			return scalarResult(m, 0), true
		}})
	norms := []float64{1, 2, math.Inf(1)}
	addOp(&opDef{name: "Norm", recv: rNone, nvars: 2, params: []param{mp(0, 1)}, nP: 3, enumP: true, big: true,
		run: func(x *ctx) { x.setScalar(mat.Norm(x.args[0], norms[x.p])) },
		ref: func(x *ctx) (result, bool) {
			a := x.lg[0]
			var want float64
			switch x.p {
			case 0:
				want = normOne(a.r, a.c, a.v)
			case 2:
				want = normInf(a.r, a.c, a.v)
			default:
				var s vk.DD
				for _, v := range a.v {
					s.AddProd(v, v)
				}
				want = math.Sqrt(s.Float())
			}
			return scalarResult(want, vk.SumBound(len(a.v), vk.Eps, want)), true
		}})
	addOp(&opDef{name: "Trace", recv: rNone, nvars: 1, params: []param{mp(0, 0)},
		run: func(x *ctx) { x.setScalar(mat.Trace(x.args[0])) },
		ref: func(x *ctx) (result, bool) {
			a := x.lg[0]
			var s vk.DD
			var S float64
			for i := 0; i < a.r; i++ {
				s.Add(a.at(i, i))
				S += math.Abs(a.at(i, i))
			}
			return scalarResult(s.Float(), vk.SumBound(a.r, vk.Eps, S)), true
		}})
	// Det/LogDet: elimination on a diagonally dominant matrix; the relative
	// perturbation of the determinant under a backward error gamma_n·|L||U| is
	// below n·gamma_n·kappa: bound 200·n^2·eps·kappa·|det|.
	detTol := func(a *logical) (det, rel float64, ok bool) {
		n := a.r
		_, kappa, ok := condInf(n, a.v)
		if !ok {
			return 0, 0, false
		}
		return refDet(n, a.v), 200 * float64(n*n) * vk.Eps * kappa, true
	}
	addOp(&opDef{name: "Det", recv: rNone, nvars: 1, params: []param{mp(0, 0).well()},
		run: func(x *ctx) { x.setScalar(mat.Det(x.args[0])) },
		ref: func(x *ctx) (result, bool) {
			det, rel, ok := detTol(x.lg[0])
			return scalarResult(det, rel*math.Abs(det)), ok
		}})
	addOp(&opDef{name: "LogDet", recv: rNone, nvars: 1, params: []param{mp(0, 0).well()},
		run: func(x *ctx) { d, s := mat.LogDet(x.args[0]); x.out, x.or, x.oc = []float64{d, s}, 1, 2 },
		ref: func(x *ctx) (result, bool) {
			det, rel, ok := detTol(x.lg[0])
			sign := 1.0
			if det < 0 {
				sign = -1
			}
			return result{r: 1, c: 2, want: []float64{math.Log(math.Abs(det)), sign}, tol: []float64{2*rel + 8*vk.Eps*math.Abs(math.Log(math.Abs(det))), 0}}, ok
		}})
	// Cond: LAPACK's estimators give a lower bound of ‖A⁻¹‖, so only
	// 1 <= Cond <= kappa is asserted against the reference; representation
	// independence is asserted to 1e-10 relative (every path copies the values
	// into the same factorization).
	addOp(&opDef{name: "Cond", recv: rNone, nvars: 2, params: []param{mp(0, 1).well()}, nP: 3, enumP: true, noRef: true, relTol3: 1e-10,
		run: func(x *ctx) { x.setScalar(mat.Cond(x.args[0], norms[x.p])) },
		sanity: func(x *ctx, got []float64) *vk.Failure {
			a := x.lg[0]
			if !(got[0] >= 1-1e-8) {
				return vk.Failf("cond-below-one", "Cond(norm %v)=%v < 1", norms[x.p], got[0])
			}
			if a.r != a.c {
				return nil
			}
			_, kinf, ok := condInf(a.r, a.v)
			_, k1, ok1 := condInf(a.r, a.transposed().v)
			if !ok || !ok1 {
				return nil
			}
			var bound float64
			switch x.p {
			case 0:
				bound = k1
			case 2:
				bound = kinf
			default:
				bound = math.Sqrt(k1 * kinf)
			}
			if got[0] > bound*(1+1e-8) {
				return vk.Failf("cond-above-kappa", "Cond(norm %v)=%v exceeds the true condition number bound %v", norms[x.p], got[0], bound)
			}
			return nil
		}})

	// Equal / EqualApprox: both operands are projections of one base matrix; P
	// selects identical / clearly different / different within epsilon.
	eqPrep := func(x *ctx, i int, l *logical) {
		if i != 1 || x.p == 0 || len(l.v) == 0 {
			return
		}
		delta := 0.25
		if x.p == 2 {
			delta = 1e-12
		}
		// perturb one in-structure element (and its mirror image)
		pi, pj := x.rng.Intn(l.r), x.rng.Intn(l.c)
		if !inStruct(l.cl, l.kl, l.ku, pi, pj) {
			pi, pj = 0, 0
		}
		l.v[pi*l.c+pj] += delta
		if isSymClass(l.cl) {
			l.v[pj*l.c+pi] = l.v[pi*l.c+pj]
		}
	}
	eqRef := func(eps float64) func(x *ctx) (result, bool) {
		return func(x *ctx) (result, bool) {
			a, b := x.lg[0], x.lg[1]
			eq := 1.0
			for i := range a.v {
				d := math.Abs(a.v[i] - b.v[i])
				if a.v[i] == b.v[i] {
					continue
				}
				if eps == 0 || !(d <= eps || d/math.Max(math.Abs(a.v[i]), math.Abs(b.v[i])) <= eps) {
					eq = 0
				}
			}
			return scalarResult(eq, 0), true
		}
	}
	b2f := func(b bool) float64 {
		if b {
			return 1
		}
		return 0
	}
	addOp(&opDef{name: "Equal", recv: rNone, nvars: 2, params: []param{mp(0, 1), mp(0, 1)}, shared: true, nP: 2, prep: eqPrep,
		run: func(x *ctx) { x.setScalar(b2f(mat.Equal(x.args[0], x.args[1]))) },
		ref: eqRef(0)})
	addOp(&opDef{name: "EqualApprox", recv: rNone, nvars: 2, params: []param{mp(0, 1), mp(0, 1)}, shared: true, nP: 3, prep: eqPrep,
		run: func(x *ctx) { x.setScalar(b2f(mat.EqualApprox(x.args[0], x.args[1], 1e-9))) },
		ref: eqRef(1e-9)})

	addOp(&opDef{name: "Row", recv: rNone, nvars: 2, params: []param{mp(0, 1)}, nP: 16,
		run: func(x *ctx) {
			i := (x.p / 2) % x.d[0]
			var dst []float64
			if x.p%2 == 1 {
				dst = make([]float64, x.d[1])
				for k := range dst {
					dst[k] = math.NaN()
				}
			}
			x.out, x.or, x.oc = mat.Row(dst, i, x.args[0]), 1, x.d[1]
		},
		ref: func(x *ctx) (result, bool) {
			a := x.lg[0]
			i := (x.p / 2) % x.d[0]
			res := newResult(1, a.c)
			copy(res.want, a.v[i*a.c:(i+1)*a.c])
			return res, true
		}})
	addOp(&opDef{name: "Col", recv: rNone, nvars: 2, params: []param{mp(0, 1)}, nP: 16,
		run: func(x *ctx) {
			j := (x.p / 2) % x.d[1]
			var dst []float64
			if x.p%2 == 1 {
				dst = make([]float64, x.d[0])
				for k := range dst {
					dst[k] = math.NaN()
				}
			}
			x.out, x.or, x.oc = mat.Col(dst, j, x.args[0]), x.d[0], 1
		},
		ref: func(x *ctx) (result, bool) {
			a := x.lg[0]
			j := (x.p / 2) % x.d[1]
			res := newResult(a.r, 1)
			for i := 0; i < a.r; i++ {
				res.want[i] = a.at(i, j)
			}
			return res, true
		}})
	// Formatted: the printed text depends on the values only.
	fmtVerbs := []string{"%v", "%.3g", "% .2f", "%6.2e"}
	addOp(&opDef{name: "Formatted", recv: rNone, nvars: 2, params: []param{mp(0, 1)}, nP: 20, noRef: true,
		run: func(x *ctx) {
			var opts []mat.FormatOption
			switch x.p / len(fmtVerbs) {
			case 1:
				opts = append(opts, mat.Squeeze(), mat.Prefix("  "))
			case 2:
				opts = append(opts, mat.FormatMATLAB())
			case 3:
				opts = append(opts, mat.FormatPython())
			case 4:
				opts = append(opts, mat.Excerpt(2))
			}
			s := fmt.Sprintf(fmtVerbs[x.p%len(fmtVerbs)], mat.Formatted(x.args[0], opts...))
			x.out = make([]float64, len(s))
			for i := range s {
				x.out[i] = float64(s[i])
			}
			x.or, x.oc = 1, len(s)
		}})
	// DiagFrom: the diagonal of any matrix.
	addOp(&opDef{name: "DiagFrom", recv: rNone, nvars: 2, params: []param{mp(0, 1)}, nP: 3,
		run: func(x *ctx) {
			n := min(x.d[0], x.d[1])
			var d *mat.DiagDense
			if x.p == 0 {
				d = &mat.DiagDense{}
			} else if x.p == 2 {
				// a strided receiver: the diagonal view of a Dense full of garbage
				g := make([]float64, n*(n+1))
				for i := range g {
					g[i] = math.NaN()
				}
				d = mat.NewDense(n, n+1, g).DiagView().(*mat.DiagDense)
			} else {
				g := make([]float64, n)
				for i := range g {
					g[i] = math.NaN()
				}
				d = mat.NewDiagDense(n, g)
			}
			d.DiagFrom(x.args[0])
			x.or, x.oc, x.out = readMatrix(d)
		},
		ref: func(x *ctx) (result, bool) {
			a := x.lg[0]
			n := min(a.r, a.c)
			res := newResult(n, n)
			for i := 0; i < n; i++ {
				res.want[i*n+i] = a.at(i, i)
			}
			return res, true
		}})
}
