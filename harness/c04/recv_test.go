package c04

import (
	"math"

	"gonum.org/v1/gonum/mat"
	"verifharness/vk"
)

type recvType int

const (
	rNone recvType = iota // package function: no receiver
	rDense
	rVec
	rSym
	rTri
)

// receiver states
const (
	stZero    = iota // zero value
	stReset          // used before with a larger size and garbage, then Reset()
	stSized          // exact size, compact, NaN garbage contents
	stView           // exact size, view with stride > cols into a sentinel-filled parent, NaN garbage in the window
	stWrong          // sized with the wrong shape: the call must panic and leave it unchanged
	stRowView        // VecDense only: unit-increment view (a RowView) inside a sentinel parent, NaN garbage in the window
	nStates
)

var stateNames = [...]string{"zero", "reset", "sized", "view", "wrong", "rowview"}

// receiver wraps the receiver of one call together with what is needed to
// verify that storage outside its window is untouched.
type receiver struct {
	typ    recvType
	d      *mat.Dense
	v      *mat.VecDense
	s      *mat.SymDense
	t      *mat.TriDense
	r, c   int
	parent []float64
	snap   []float64
	window map[int]bool // parent offsets the call may write (nil: everything)
	init   []float64    // initial logical contents r×c (as read through At) when sized
}

func (rc *receiver) matrix() mat.Matrix {
	switch rc.typ {
	case rDense:
		return rc.d
	case rVec:
		return rc.v
	case rSym:
		return rc.s
	case rTri:
		return rc.t
	}
	return nil
}

// read returns the receiver's value through Dims/At.
func readMatrix(m mat.Matrix) (r, c int, v []float64) {
	r, c = m.Dims()
	v = make([]float64, r*c)
	for i := 0; i < r; i++ {
		for j := 0; j < c; j++ {
			v[i*c+j] = m.At(i, j)
		}
	}
	return
}

func (rc *receiver) snapshot() { rc.snap = append([]float64(nil), rc.parent...) }

// verifyOutside checks that the parent storage outside the receiver's window
// is bit-identical to what it was before the call.
func (rc *receiver) verifyOutside() *vk.Failure {
	if rc.window == nil {
		return nil
	}
	for i := range rc.parent {
		if rc.window[i] {
			continue
		}
		if math.Float64bits(rc.parent[i]) != math.Float64bits(rc.snap[i]) {
			return vk.Failf("recv/outside-window-modified", "parent storage offset %d (outside the receiver's window) changed: %v -> %v", i, rc.snap[i], rc.parent[i])
		}
	}
	return nil
}

// verifyUnchanged checks that nothing at all changed (after a shape panic).
func (rc *receiver) verifyUnchanged() *vk.Failure {
	if i := sameBitsAll(rc.parent, rc.snap); i >= 0 {
		return vk.Failf("recv/changed-by-panicking-call", "receiver storage offset %d changed although the call panicked: %v -> %v", i, rc.snap[i], rc.parent[i])
	}
	m := rc.matrix()
	if r, c := m.Dims(); r != rc.r || c != rc.c {
		return vk.Failf("recv/resized-by-panicking-call", "receiver became %dx%d (was %dx%d) although the call panicked", r, c, rc.r, rc.c)
	}
	return nil
}

// newReceiver builds a receiver of the given type in the given state for an
// r×c result (n = r for the vector and square types). init, when non-nil,
// gives the initial contents (for copy-like and in-place operations), else
// sized receivers are filled with NaN garbage.
func newReceiver(typ recvType, state, r, c int, upper bool, b *builder, init []float64) *receiver {
	rc := &receiver{typ: typ}
	fill := func(i, j int) float64 {
		if init != nil {
			return init[i*c+j]
		}
		return b.nan()
	}
	switch state {
	case stWrong:
		// alternate which dimension is off; square/vector types grow by one
		if typ == rDense && b.rng.Intn(2) == 0 {
			c++
		} else {
			r++
			if typ != rDense && typ != rVec {
				c++
			}
		}
		init = nil
	}
	rc.r, rc.c = r, c
	switch typ {
	case rDense:
		switch state {
		case stZero:
			rc.d = &mat.Dense{}
			rc.r, rc.c = 0, 0
		case stReset:
			rc.parent = b.sentinels((r + 1) * (c + 2))
			rc.d = mat.NewDense(r+1, c+2, rc.parent)
			rc.d.Reset()
			rc.r, rc.c = 0, 0
		case stSized, stWrong:
			rc.parent = make([]float64, r*c)
			for i := 0; i < r; i++ {
				for j := 0; j < c; j++ {
					rc.parent[i*c+j] = fill(i, j)
				}
			}
			rc.d = mat.NewDense(r, c, rc.parent)
		case stView:
			r0, r1, c0, c1 := b.pad(0, 2), b.pad(0, 2), b.pad(0, 2), b.pad(1, 3)
			R, C := r+r0+r1, c+c0+c1
			rc.parent = b.sentinels(R * C)
			rc.window = map[int]bool{}
			for i := 0; i < r; i++ {
				for j := 0; j < c; j++ {
					rc.parent[(i+r0)*C+j+c0] = fill(i, j)
					rc.window[(i+r0)*C+j+c0] = true
				}
			}
			rc.d = mat.NewDense(R, C, rc.parent).Slice(r0, r0+r, c0, c0+c).(*mat.Dense)
		}
	case rVec:
		n := r
		rc.c = 1
		switch state {
		case stZero:
			rc.v = &mat.VecDense{}
			rc.r, rc.c = 0, 0
		case stReset:
			rc.parent = b.sentinels(n + 3)
			rc.v = mat.NewVecDense(n+3, rc.parent)
			rc.v.Reset()
			rc.r, rc.c = 0, 0
		case stSized, stWrong:
			rc.parent = make([]float64, n)
			for i := range rc.parent {
				rc.parent[i] = fill(i, 0)
			}
			rc.v = mat.NewVecDense(n, rc.parent)
		case stView:
			p0, p1 := b.pad(1, 2), b.pad(1, 2)
			W := b.pad(2, 4)
			j := b.rng.Intn(W)
			R := n + p0 + p1
			rc.parent = b.sentinels(R * W)
			rc.window = map[int]bool{}
			for i := 0; i < n; i++ {
				rc.parent[(i+p0)*W+j] = fill(i, 0)
				rc.window[(i+p0)*W+j] = true
			}
			rc.v = mat.NewDense(R, W, rc.parent).ColView(j).(*mat.VecDense).SliceVec(p0, p0+n).(*mat.VecDense)
		case stRowView:
			// row i of an R×C parent, columns c0..c0+n; at least 4 sentinels follow
			// the window (an overrun of a unit-increment kernel lands in them)
			R := b.pad(2, 3)
			i := b.rng.Intn(R - 1)
			c0, c1 := b.pad(0, 2), b.pad(4, 6)
			C := n + c0 + c1
			rc.parent = b.sentinels(R * C)
			rc.window = map[int]bool{}
			for k := 0; k < n; k++ {
				rc.parent[i*C+c0+k] = fill(k, 0)
				rc.window[i*C+c0+k] = true
			}
			rc.v = mat.NewDense(R, C, rc.parent).Slice(0, R, c0, c0+n).(*mat.Dense).RowView(i).(*mat.VecDense)
		}
	case rSym, rTri:
		n := r
		rc.c = n
		mk := func(N int, data []float64) {
			if typ == rSym {
				rc.s = mat.NewSymDense(N, data)
			} else {
				rc.t = mat.NewTriDense(N, mat.TriKind(upper), data)
			}
		}
		inTri := func(i, j int) bool {
			if typ == rSym || upper {
				return j >= i
			}
			return j <= i
		}
		switch state {
		case stZero:
			if typ == rSym {
				rc.s = &mat.SymDense{}
			} else {
				rc.t = &mat.TriDense{}
			}
			rc.r, rc.c = 0, 0
		case stReset:
			rc.parent = b.sentinels((n + 2) * (n + 2))
			mk(n+2, rc.parent)
			if typ == rSym {
				rc.s.Reset()
			} else {
				rc.t.Reset()
			}
			rc.r, rc.c = 0, 0
		case stSized, stWrong:
			rc.parent = b.sentinels(n * n)
			for i := 0; i < n; i++ {
				for j := 0; j < n; j++ {
					if inTri(i, j) {
						rc.parent[i*n+j] = fill(i, j)
					}
				}
			}
			mk(n, rc.parent)
		case stView:
			n0, n1 := b.pad(0, 2), b.pad(1, 2)
			N := n + n0 + n1
			rc.parent = b.sentinels(N * N)
			rc.window = map[int]bool{}
			for i := 0; i < n; i++ {
				for j := 0; j < n; j++ {
					if inTri(i, j) {
						rc.parent[(i+n0)*N+j+n0] = fill(i, j)
					}
					// the whole n×n square is the receiver's window
					rc.window[(i+n0)*N+j+n0] = true
				}
			}
			mk(N, rc.parent)
			if typ == rSym {
				rc.s = rc.s.SliceSym(n0, n0+n).(*mat.SymDense)
			} else {
				rc.t = rc.t.SliceTri(n0, n0+n).(*mat.TriDense)
			}
		}
	}
	if rc.parent != nil {
		rc.snapshot()
	}
	if state >= stSized && state != stWrong {
		_, _, rc.init = readMatrix(rc.matrix())
	}
	return rc
}
