// Package c04 checks property C04: mat results depend only on operand values,
// not on their representation (concrete type, implicit transposition, strided
// views, receiver state).
//
// Files:
//
//	reg_test.go    representation registry: logical operand -> rendered mat.Matrix
//	ref_test.go    element-wise reference definitions and rounding bounds
//	recv_test.go   receiver states (zero value, reset, sized+garbage, view, wrong shape)
//	ops_test.go    operation table (call + reference for every covered operation)
//	check_test.go  case type, the check function, enumeration and random drivers
//	extra_test.go  At-consistency of every kind (incl. CDense) and TriDense.Copy shapes
package c04

import (
	"testing"

	"verifharness/vk"
)

func TestMain(m *testing.M) { vk.Main(m, "C04") }
