package c04

import (
	"fmt"
	"math"

	"gonum.org/v1/gonum/blas"
	"gonum.org/v1/gonum/blas/blas64"
	"gonum.org/v1/gonum/lapack/lapack64"
	"gonum.org/v1/gonum/mat"
	"verifharness/vk"
)

// ---- logical operands -------------------------------------------------------

// class is the structure class of a logical operand.
type class int

const (
	cGeneral class = iota
	cSym
	cTriU
	cTriL
	cBand
	cSymBand
	cTriBandU
	cTriBandL
	cDiag
	cTridiag
)

func (c class) String() string {
	return [...]string{"general", "sym", "triU", "triL", "band", "symband", "tribandU", "tribandL", "diag", "tridiag"}[c]
}

// flavor restricts the values of a logical operand.
type flavor int

const (
	fGeneric flavor = iota // small integers (mode 0) or dyadic/Gaussian values (mode 1)
	fWell                  // strictly diagonally dominant by rows and columns: well conditioned by construction
	fSPD                   // fWell, symmetric with positive diagonal: symmetric positive definite
)

// logical is a value matrix with a structure class. Positions outside the
// structure hold +0.
type logical struct {
	r, c   int
	v      []float64
	cl     class
	kl, ku int // band widths for the band classes (k = ku for symmetric/upper, k = kl for lower)
}

func (l *logical) at(i, j int) float64 { return l.v[i*l.c+j] }

// inStruct reports whether (i,j) lies inside the structure of class cl.
func inStruct(cl class, kl, ku, i, j int) bool {
	switch cl {
	case cGeneral, cSym:
		return true
	case cTriU:
		return i <= j
	case cTriL:
		return i >= j
	case cBand:
		return j-i <= ku && i-j <= kl
	case cSymBand:
		return j-i <= ku && i-j <= ku
	case cTriBandU:
		return i <= j && j-i <= ku
	case cTriBandL:
		return i >= j && i-j <= kl
	case cDiag:
		return i == j
	case cTridiag:
		return j-i <= 1 && i-j <= 1
	}
	panic("bad class")
}

func isSymClass(cl class) bool { return cl == cSym || cl == cSymBand || cl == cDiag }

// transposed returns the logical transpose (a new value).
func (l *logical) transposed() *logical {
	t := &logical{r: l.c, c: l.r, v: make([]float64, len(l.v)), cl: l.cl, kl: l.ku, ku: l.kl}
	switch l.cl {
	case cTriU:
		t.cl = cTriL
	case cTriL:
		t.cl = cTriU
	case cTriBandU:
		t.cl = cTriBandL
	case cTriBandL:
		t.cl = cTriBandU
	case cSymBand:
		t.kl, t.ku = l.kl, l.ku
	}
	for i := 0; i < l.r; i++ {
		for j := 0; j < l.c; j++ {
			t.v[j*t.c+i] = l.v[i*l.c+j]
		}
	}
	return t
}

func clamp(x, lo, hi float64) float64 {
	if x < lo {
		return lo
	}
	if x > hi {
		return hi
	}
	return x
}

// project forces the values of base into the structure of class cl (zeroing
// what lies outside, mirroring the upper triangle for the symmetric classes).
func project(base []float64, r, c int, cl class, kl, ku int) *logical {
	l := &logical{r: r, c: c, v: make([]float64, r*c), cl: cl, kl: kl, ku: ku}
	for i := 0; i < r; i++ {
		for j := 0; j < c; j++ {
			if !inStruct(cl, kl, ku, i, j) {
				continue
			}
			if isSymClass(cl) && i > j {
				l.v[i*c+j] = base[j*c+i]
			} else {
				l.v[i*c+j] = base[i*c+j]
			}
		}
	}
	return l
}

// bandwidths draws band widths for a class.
func bandwidths(cl class, r, c int, rng *vk.SplitMix) (kl, ku int) {
	pick := func(n int) int {
		// n >= 1: a width in [0,n-1], small widths preferred
		if n <= 1 {
			return 0
		}
		if rng.Intn(3) == 0 {
			return rng.Intn(n)
		}
		return rng.Intn(min(n, 3))
	}
	switch cl {
	case cBand:
		return pick(r), pick(c)
	case cSymBand:
		k := pick(r)
		return k, k
	case cTriBandU:
		return 0, pick(r)
	case cTriBandL:
		return pick(r), 0
	case cTridiag:
		return 1, 1
	}
	return 0, 0
}

// genLogical draws a logical operand. mode 0: small integers (every product
// and sum below is exact); mode 1: dyadic fractions and Gaussian values.
func genLogical(cl class, r, c int, fl flavor, mode int, nonzero bool, rng *vk.SplitMix) *logical {
	kl, ku := bandwidths(cl, r, c, rng)
	base := make([]float64, r*c)
	for i := range base {
		var x float64
		if mode == 0 {
			if fl >= fWell {
				x = float64(rng.Intn(5) - 2)
			} else {
				x = float64(rng.Intn(7) - 3)
			}
		} else {
			x = rng.Finite()
			if fl >= fWell {
				x = clamp(x, -2, 2)
			}
		}
		if nonzero && x == 0 {
			x = 1
		}
		base[i] = x
	}
	if fl >= fWell {
		d := float64(2*max(r, c) + 2)
		for i := 0; i < min(r, c); i++ {
			x := d
			if mode == 1 {
				x += float64(rng.Intn(16)) / 16
			}
			if fl != fSPD && rng.Intn(2) == 0 {
				x = -x
			}
			base[i*c+i] = x
		}
	}
	return project(base, r, c, cl, kl, ku)
}

// ---- builder: sentinel padding and guards --------------------------------------

type guard struct {
	name string
	data []float64
	snap []float64
}

// builder renders logical operands. Every backing array it creates is first
// filled with distinct NaN sentinels; after rendering the array is
// snapshotted, and verify checks that the code under test changed nothing.
type builder struct {
	rng    *vk.SplitMix
	guards []*guard
	sent   uint64
}

func (b *builder) nan() float64 {
	b.sent++
	return math.Float64frombits(0x7ff8_0000_0000_0000 | (b.sent & 0xffff_ffff))
}

func (b *builder) sentinels(n int) []float64 {
	s := make([]float64, n)
	for i := range s {
		s[i] = b.nan()
	}
	return s
}

func (b *builder) watch(name string, data []float64) {
	b.guards = append(b.guards, &guard{name: name, data: data, snap: append([]float64(nil), data...)})
}

func sameBitsAll(a, b []float64) int {
	for i := range a {
		if math.Float64bits(a[i]) != math.Float64bits(b[i]) {
			return i
		}
	}
	return -1
}

// verify reports an operand backing array that was modified by the call.
func (b *builder) verify() *vk.Failure {
	for _, g := range b.guards {
		if i := sameBitsAll(g.data, g.snap); i >= 0 {
			return vk.Failf("operand-modified", "backing array of %s changed at offset %d: %v -> %v", g.name, i, g.snap[i], g.data[i])
		}
	}
	return nil
}

func (b *builder) pad(lo, hi int) int { return lo + b.rng.Intn(hi-lo+1) }

// ---- concrete renderings ----------------------------------------------------

func (b *builder) dense(l *logical) *mat.Dense {
	d := append([]float64(nil), l.v...)
	b.watch("dense", d)
	return mat.NewDense(l.r, l.c, d)
}

// denseView returns a view with stride > cols into a sentinel-filled parent.
func (b *builder) denseView(l *logical) *mat.Dense {
	r0, r1, c0, c1 := b.pad(0, 2), b.pad(0, 2), b.pad(0, 2), b.pad(1, 3)
	R, C := l.r+r0+r1, l.c+c0+c1
	d := b.sentinels(R * C)
	for i := 0; i < l.r; i++ {
		copy(d[(i+r0)*C+c0:], l.v[i*l.c:(i+1)*l.c])
	}
	b.watch("dense-view", d)
	return mat.NewDense(R, C, d).Slice(r0, r0+l.r, c0, c0+l.c).(*mat.Dense)
}

// rawGeneral returns strided general storage holding l.
func (b *builder) rawGeneral(l *logical) blas64.General {
	st := l.c + b.pad(1, 3)
	d := b.sentinels((l.r-1)*st + l.c)
	for i := 0; i < l.r; i++ {
		copy(d[i*st:], l.v[i*l.c:(i+1)*l.c])
	}
	b.watch("raw-general", d)
	return blas64.General{Rows: l.r, Cols: l.c, Stride: st, Data: d}
}

// triStorage returns n×n (stride st, offset off) storage with the upper or
// lower triangle of l filled in and sentinels elsewhere.
func (b *builder) triStorage(l *logical, upper bool, n0, n1 int) (data []float64, stride int) {
	n := l.r
	N := n + n0 + n1
	d := b.sentinels(N * N)
	for i := 0; i < n; i++ {
		for j := 0; j < n; j++ {
			if (upper && j >= i) || (!upper && j <= i) {
				d[(i+n0)*N+j+n0] = l.v[i*n+j]
			}
		}
	}
	return d, N
}

func (b *builder) symDense(l *logical, view bool) *mat.SymDense {
	n0, n1 := 0, 0
	if view {
		n0, n1 = b.pad(0, 2), b.pad(1, 2)
	}
	d, N := b.triStorage(l, true, n0, n1)
	b.watch("symdense", d)
	s := mat.NewSymDense(N, d)
	if view {
		return s.SliceSym(n0, n0+l.r).(*mat.SymDense)
	}
	return s
}

func (b *builder) triDense(l *logical, upper, view bool) *mat.TriDense {
	n0, n1 := 0, 0
	if view {
		n0, n1 = b.pad(0, 2), b.pad(1, 2)
	}
	d, N := b.triStorage(l, upper, n0, n1)
	b.watch("tridense", d)
	t := mat.NewTriDense(N, mat.TriKind(upper), d)
	if view {
		return t.SliceTri(n0, n0+l.r).(*mat.TriDense)
	}
	return t
}

// bandStorage packs l (class cBand with l.kl, l.ku) into band storage of the given stride.
func (b *builder) bandStorage(l *logical, extra int) blas64.Band {
	kl, ku := l.kl, l.ku
	rows := min(l.r, l.c+kl)
	st := kl + ku + 1 + extra
	d := b.sentinels(rows * st) // lapack64.Langb insists on rows*stride elements
	for i := 0; i < rows; i++ {
		for j := max(0, i-kl); j <= min(l.c-1, i+ku); j++ {
			d[i*st+j-i+kl] = l.v[i*l.c+j]
		}
	}
	b.watch("band", d)
	return blas64.Band{Rows: l.r, Cols: l.c, KL: kl, KU: ku, Stride: st, Data: d}
}

func (b *builder) bandDense(l *logical, strided bool) *mat.BandDense {
	if !strided {
		raw := b.bandStorage(l, 0) // exactly min(r, c+kl)*(kl+ku+1) elements
		return mat.NewBandDense(l.r, l.c, l.kl, l.ku, raw.Data)
	}
	var bd mat.BandDense
	bd.SetRawBand(b.bandStorage(l, b.pad(1, 2)))
	return &bd
}

func (b *builder) symBandStorage(l *logical, extra int) blas64.SymmetricBand {
	n, k := l.r, l.ku
	st := k + 1 + extra
	d := b.sentinels(n * st)
	for i := 0; i < n; i++ {
		for j := i; j <= min(n-1, i+k); j++ {
			d[i*st+j-i] = l.v[i*n+j]
		}
	}
	b.watch("symband", d)
	return blas64.SymmetricBand{Uplo: blas.Upper, N: n, K: k, Stride: st, Data: d}
}

func (b *builder) symBand(l *logical) *mat.SymBandDense {
	raw := b.symBandStorage(l, 0)
	return mat.NewSymBandDense(l.r, l.ku, raw.Data)
}

func (b *builder) triBandStorage(l *logical, upper bool, extra int) blas64.TriangularBand {
	n := l.r
	k := l.ku
	if !upper {
		k = l.kl
	}
	st := k + 1 + extra
	d := b.sentinels(n * st)
	for i := 0; i < n; i++ {
		if upper {
			for j := i; j <= min(n-1, i+k); j++ {
				d[i*st+j-i] = l.v[i*n+j]
			}
		} else {
			for j := max(0, i-k); j <= i; j++ {
				d[i*st+j-i+k] = l.v[i*n+j]
			}
		}
	}
	b.watch("triband", d)
	ul := blas.Lower
	if upper {
		ul = blas.Upper
	}
	return blas64.TriangularBand{Uplo: ul, Diag: blas.NonUnit, N: n, K: k, Stride: st, Data: d}
}

func (b *builder) triBand(l *logical, upper bool) *mat.TriBandDense {
	raw := b.triBandStorage(l, upper, 0)
	return mat.NewTriBandDense(l.r, raw.K, mat.TriKind(upper), raw.Data)
}

func (b *builder) diag(l *logical) *mat.DiagDense {
	d := make([]float64, l.r)
	for i := range d {
		d[i] = l.v[i*l.c+i]
	}
	b.watch("diag", d)
	return mat.NewDiagDense(l.r, d)
}

// diagView is the DiagView of a strided Dense whose off-diagonal is sentinels:
// a DiagDense with increment stride+1.
func (b *builder) diagView(l *logical) *mat.DiagDense {
	n := l.r
	c0, c1 := b.pad(0, 1), b.pad(1, 2)
	C := n + c0 + c1
	d := b.sentinels(n * C)
	for i := 0; i < n; i++ {
		d[i*C+c0+i] = l.v[i*n+i]
	}
	b.watch("diag-view", d)
	return mat.NewDense(n, C, d).Slice(0, n, c0, c0+n).(*mat.Dense).DiagView().(*mat.DiagDense)
}

func (b *builder) tridiagStorage(l *logical) lapack64.Tridiagonal {
	n := l.r
	d := make([]float64, n)
	dl := make([]float64, max(n-1, 0))
	du := make([]float64, max(n-1, 0))
	for i := 0; i < n; i++ {
		d[i] = l.v[i*n+i]
		if i+1 < n {
			du[i] = l.v[i*n+i+1]
			dl[i] = l.v[(i+1)*n+i]
		}
	}
	b.watch("tridiag-d", d)
	b.watch("tridiag-dl", dl)
	b.watch("tridiag-du", du)
	return lapack64.Tridiagonal{N: n, DL: dl, D: d, DU: du}
}

func (b *builder) tridiag(l *logical) *mat.Tridiag {
	raw := b.tridiagStorage(l)
	return mat.NewTridiag(raw.N, raw.DL, raw.D, raw.DU)
}

// vector renderings; l is n×1 or 1×n, the result is always the column VecDense.
const (
	vecCompact = iota
	vecInc     // column view of a wide matrix: Inc = stride > 1
	vecSlice   // SliceVec of a longer strided vector
	vecRowView // RowView of a matrix: Inc = 1 inside a larger array
)

func (b *builder) vec(l *logical, variant int) *mat.VecDense {
	n := len(l.v)
	switch variant {
	case vecCompact:
		d := append([]float64(nil), l.v...)
		b.watch("vec", d)
		return mat.NewVecDense(n, d)
	case vecInc, vecSlice:
		p0, p1 := 0, 0
		if variant == vecSlice {
			p0, p1 = b.pad(1, 2), b.pad(1, 2)
		}
		W := b.pad(2, 4)
		j := b.rng.Intn(W)
		R := n + p0 + p1
		d := b.sentinels(R * W)
		for i := 0; i < n; i++ {
			d[(i+p0)*W+j] = l.v[i]
		}
		b.watch("vec-strided", d)
		v := mat.NewDense(R, W, d).ColView(j).(*mat.VecDense)
		if variant == vecSlice {
			return v.SliceVec(p0, p0+n).(*mat.VecDense)
		}
		return v
	case vecRowView:
		R := b.pad(2, 3)
		i := b.rng.Intn(R)
		c0, c1 := b.pad(0, 2), b.pad(1, 2)
		C := n + c0 + c1
		d := b.sentinels(R * C)
		copy(d[i*C+c0:], l.v)
		b.watch("vec-rowview", d)
		return mat.NewDense(R, C, d).Slice(0, R, c0, c0+n).(*mat.Dense).RowView(i).(*mat.VecDense)
	}
	panic("bad vec variant")
}

func (b *builder) rawVector(l *logical) blas64.Vector {
	n := len(l.v)
	inc := b.pad(2, 3)
	d := b.sentinels((n-1)*inc + 1)
	for i := 0; i < n; i++ {
		d[i*inc] = l.v[i]
	}
	b.watch("raw-vector", d)
	return blas64.Vector{N: n, Inc: inc, Data: d}
}

// ---- user types -------------------------------------------------------------

// basic exposes only Dims, At and T.
type basic struct {
	r, c int
	v    []float64
}

func (m *basic) Dims() (int, int) { return m.r, m.c }
func (m *basic) At(i, j int) float64 {
	if uint(i) >= uint(m.r) {
		panic(mat.ErrRowAccess)
	}
	if uint(j) >= uint(m.c) {
		panic(mat.ErrColAccess)
	}
	return m.v[i*m.c+j]
}
func (m *basic) T() mat.Matrix { return mat.Transpose{Matrix: m} }

func newBasic(l *logical) basic { return basic{r: l.r, c: l.c, v: append([]float64(nil), l.v...)} }

// basicVal is a user Matrix implemented on a struct VALUE that holds a slice:
// a legal Matrix whose dynamic type is not comparable with ==.
type basicVal struct {
	r, c int
	v    []float64
}

func (m basicVal) Dims() (int, int) { return m.r, m.c }
func (m basicVal) At(i, j int) float64 {
	if uint(i) >= uint(m.r) {
		panic(mat.ErrRowAccess)
	}
	if uint(j) >= uint(m.c) {
		panic(mat.ErrColAccess)
	}
	return m.v[i*m.c+j]
}
func (m basicVal) T() mat.Matrix { return mat.Transpose{Matrix: m} }

// basicVec is a user Vector (column or row shaped).
type basicVec struct{ basic }

func (m *basicVec) Len() int { return len(m.v) }
func (m *basicVec) AtVec(i int) float64 {
	if uint(i) >= uint(len(m.v)) {
		panic(mat.ErrVectorAccess)
	}
	return m.v[i]
}

// basicSym is a user Symmetric.
type basicSym struct{ basic }

func (m *basicSym) SymmetricDim() int { return m.r }

// basicTri is a user Triangular.
type basicTri struct {
	basic
	upper bool
}

func (m *basicTri) Triangle() (int, mat.TriKind) { return m.r, mat.TriKind(m.upper) }
func (m *basicTri) TTri() mat.Triangular         { return mat.TransposeTri{Triangular: m} }

// The raw* types are basic types that additionally implement exactly one Raw*
// method, so that untransposeExtract lifts them to the built-in type.
type rawMat struct {
	basic
	g blas64.General
}

func (m *rawMat) RawMatrix() blas64.General { return m.g }

type rawSym struct {
	basic
	s blas64.Symmetric
}

func (m *rawSym) RawSymmetric() blas64.Symmetric { return m.s }
func (m *rawSym) SymmetricDim() int              { return m.r }

type rawTri struct {
	basicTri
	t blas64.Triangular
}

func (m *rawTri) RawTriangular() blas64.Triangular { return m.t }

type rawBand struct {
	basic
	b blas64.Band
}

func (m *rawBand) RawBand() blas64.Band { return m.b }

type rawSymBand struct {
	basic
	s blas64.SymmetricBand
}

func (m *rawSymBand) RawSymBand() blas64.SymmetricBand { return m.s }

type rawTriBand struct {
	basic
	t blas64.TriangularBand
}

func (m *rawTriBand) RawTriBand() blas64.TriangularBand { return m.t }

type rawVec struct {
	basicVec
	x blas64.Vector
}

func (m *rawVec) RawVector() blas64.Vector { return m.x }

type rawTridiag struct {
	basic
	t lapack64.Tridiagonal
}

func (m *rawTridiag) RawTridiagonal() lapack64.Tridiagonal { return m.t }

// ---- the registry -----------------------------------------------------------

type shapeReq int

const (
	shAny shapeReq = iota
	shSquare
	shCol  // n×1
	shRow  // 1×n
	shTall // rows >= cols
	shWide // rows <= cols
)

// kind is one representation of a logical operand.
type kind struct {
	name     string
	fam      string // family, for the class histogram
	class    class
	shape    shapeReq
	vec      bool // implements mat.Vector
	sym      bool // implements mat.Symmetric
	tri      bool // implements mat.Triangular
	triUpper bool // the TriKind it reports
	compact  bool // a compact *Dense (the trivial representation)
	approx   bool // At reproduces the logical value only to rounding (factorizations)
	special  bool // not part of the general enumeration (used by a dedicated sub-check)
	unit     bool // the logical value has a unit diagonal (Diag == blas.Unit user types)
	flavor   flavor
	trans    string // transposition pattern
	build    func(b *builder, l *logical) mat.Matrix
}

var (
	kinds    []*kind
	kindByID = map[string]*kind{}
)

func addKind(k *kind) {
	if _, dup := kindByID[k.name]; dup {
		panic("duplicate kind " + k.name)
	}
	kinds = append(kinds, k)
	kindByID[k.name] = k
}

func opposite(cl class) class {
	switch cl {
	case cTriU:
		return cTriL
	case cTriL:
		return cTriU
	case cTriBandU:
		return cTriBandL
	case cTriBandL:
		return cTriBandU
	}
	return cl
}

func mustFactor(ok bool, what string) {
	if !ok {
		panic(fmt.Sprintf("c04: %s.Factorize failed on a matrix that is positive definite by construction", what))
	}
}

func init() {
	// --- general dense family
	addKind(&kind{name: "dense", fam: "dense", class: cGeneral, compact: true,
		build: func(b *builder, l *logical) mat.Matrix { return b.dense(l) }})
	addKind(&kind{name: "dense.view", fam: "dense", class: cGeneral,
		build: func(b *builder, l *logical) mat.Matrix { return b.denseView(l) }})
	addKind(&kind{name: "dense.T", fam: "denseT", class: cGeneral, trans: "T",
		build: func(b *builder, l *logical) mat.Matrix { return b.dense(l.transposed()).T() }})
	addKind(&kind{name: "dense.view.T", fam: "denseT", class: cGeneral, trans: "T",
		build: func(b *builder, l *logical) mat.Matrix { return b.denseView(l.transposed()).T() }})
	addKind(&kind{name: "Transpose2(dense.view)", fam: "denseT", class: cGeneral, trans: "TT",
		build: func(b *builder, l *logical) mat.Matrix {
			return mat.Transpose{Matrix: mat.Transpose{Matrix: b.denseView(l)}}
		}})
	addKind(&kind{name: "basic", fam: "basic", class: cGeneral,
		build: func(b *builder, l *logical) mat.Matrix { m := newBasic(l); return &m }})
	addKind(&kind{name: "basicValue", fam: "basic", class: cGeneral, special: true,
		build: func(b *builder, l *logical) mat.Matrix { return basicVal{l.r, l.c, append([]float64(nil), l.v...)} }})
	addKind(&kind{name: "Transpose(basic)", fam: "basic", class: cGeneral, trans: "T",
		build: func(b *builder, l *logical) mat.Matrix {
			m := newBasic(l.transposed())
			return mat.Transpose{Matrix: &m}
		}})
	rawMatOf := func(b *builder, l *logical) *rawMat { return &rawMat{basic: newBasic(l), g: b.rawGeneral(l)} }
	addKind(&kind{name: "rawMatrixer", fam: "raw", class: cGeneral,
		build: func(b *builder, l *logical) mat.Matrix { return rawMatOf(b, l) }})
	addKind(&kind{name: "Transpose(rawMatrixer)", fam: "raw", class: cGeneral, trans: "T",
		build: func(b *builder, l *logical) mat.Matrix { return mat.Transpose{Matrix: rawMatOf(b, l.transposed())} }})

	// --- symmetric
	addKind(&kind{name: "sym", fam: "sym", class: cSym, shape: shSquare, sym: true,
		build: func(b *builder, l *logical) mat.Matrix { return b.symDense(l, false) }})
	addKind(&kind{name: "sym.slice", fam: "sym", class: cSym, shape: shSquare, sym: true,
		build: func(b *builder, l *logical) mat.Matrix { return b.symDense(l, true) }})
	addKind(&kind{name: "Transpose(sym.slice)", fam: "sym", class: cSym, shape: shSquare, trans: "T",
		build: func(b *builder, l *logical) mat.Matrix { return mat.Transpose{Matrix: b.symDense(l, true)} }})
	rawSymOf := func(b *builder, l *logical) *rawSym {
		n0, n1 := b.pad(0, 1), b.pad(1, 2)
		d, N := b.triStorage(l, true, n0, n1)
		b.watch("raw-sym", d)
		return &rawSym{basic: newBasic(l), s: blas64.Symmetric{Uplo: blas.Upper, N: l.r, Stride: N, Data: d[n0*N+n0:]}}
	}
	addKind(&kind{name: "rawSymmetricer", fam: "raw", class: cSym, shape: shSquare, sym: true,
		build: func(b *builder, l *logical) mat.Matrix { return rawSymOf(b, l) }})
	addKind(&kind{name: "Transpose(rawSymmetricer)", fam: "raw", class: cSym, shape: shSquare, trans: "T",
		build: func(b *builder, l *logical) mat.Matrix { return mat.Transpose{Matrix: rawSymOf(b, l)} }})
	addKind(&kind{name: "basicSym", fam: "basic", class: cSym, shape: shSquare, sym: true,
		build: func(b *builder, l *logical) mat.Matrix { return &basicSym{newBasic(l)} }})

	// --- triangular, both orientations
	for _, upper := range []bool{true, false} {
		upper := upper
		cl, u := cTriL, "L"
		if upper {
			cl, u = cTriU, "U"
		}
		ocl := opposite(cl)
		addKind(&kind{name: "tri" + u, fam: "tri", class: cl, shape: shSquare, tri: true, triUpper: upper,
			build: func(b *builder, l *logical) mat.Matrix { return b.triDense(l, upper, false) }})
		addKind(&kind{name: "tri" + u + ".slice", fam: "tri", class: cl, shape: shSquare, tri: true, triUpper: upper,
			build: func(b *builder, l *logical) mat.Matrix { return b.triDense(l, upper, true) }})
		// transposes of a stored triangle of orientation `upper` have the opposite logical class
		addKind(&kind{name: "tri" + u + ".T", fam: "triT", class: ocl, shape: shSquare, trans: "T",
			build: func(b *builder, l *logical) mat.Matrix { return b.triDense(l.transposed(), upper, false).T() }})
		addKind(&kind{name: "tri" + u + ".slice.TTri", fam: "triT", class: ocl, shape: shSquare, tri: true, triUpper: !upper, trans: "T",
			build: func(b *builder, l *logical) mat.Matrix { return b.triDense(l.transposed(), upper, true).TTri() }})
		addKind(&kind{name: "TransposeTri2(tri" + u + ")", fam: "triT", class: cl, shape: shSquare, tri: true, triUpper: upper, trans: "TT",
			build: func(b *builder, l *logical) mat.Matrix {
				return mat.TransposeTri{Triangular: mat.TransposeTri{Triangular: b.triDense(l, upper, false)}}
			}})
		addKind(&kind{name: "Transpose(TransposeTri(tri" + u + "))", fam: "triT", class: cl, shape: shSquare, trans: "TT",
			build: func(b *builder, l *logical) mat.Matrix {
				return mat.Transpose{Matrix: mat.TransposeTri{Triangular: b.triDense(l, upper, false)}}
			}})
		rawTriOf := func(b *builder, l *logical) *rawTri {
			n0, n1 := b.pad(0, 1), b.pad(1, 2)
			d, N := b.triStorage(l, upper, n0, n1)
			b.watch("raw-tri", d)
			ul := blas.Lower
			if upper {
				ul = blas.Upper
			}
			return &rawTri{basicTri: basicTri{basic: newBasic(l), upper: upper},
				t: blas64.Triangular{Uplo: ul, Diag: blas.NonUnit, N: l.r, Stride: N, Data: d[n0*N+n0:]}}
		}
		addKind(&kind{name: "rawTriangular" + u, fam: "raw", class: cl, shape: shSquare, tri: true, triUpper: upper,
			build: func(b *builder, l *logical) mat.Matrix { return rawTriOf(b, l) }})
		addKind(&kind{name: "Transpose(rawTriangular" + u + ")", fam: "raw", class: ocl, shape: shSquare, trans: "T",
			build: func(b *builder, l *logical) mat.Matrix { return mat.Transpose{Matrix: rawTriOf(b, l.transposed())} }})
		addKind(&kind{name: "basicTri" + u, fam: "basic", class: cl, shape: shSquare, tri: true, triUpper: upper,
			build: func(b *builder, l *logical) mat.Matrix { return &basicTri{basic: newBasic(l), upper: upper} }})

		// triangular band
		bcl := cTriBandL
		if upper {
			bcl = cTriBandU
		}
		obcl := opposite(bcl)
		addKind(&kind{name: "triband" + u, fam: "triband", class: bcl, shape: shSquare, tri: true, triUpper: upper,
			build: func(b *builder, l *logical) mat.Matrix { return b.triBand(l, upper) }})
		addKind(&kind{name: "triband" + u + ".T", fam: "triband", class: obcl, shape: shSquare, trans: "T",
			build: func(b *builder, l *logical) mat.Matrix { return b.triBand(l.transposed(), upper).T() }})
		addKind(&kind{name: "triband" + u + ".TTri", fam: "triband", class: obcl, shape: shSquare, tri: true, triUpper: !upper, trans: "T",
			build: func(b *builder, l *logical) mat.Matrix { return b.triBand(l.transposed(), upper).TTri() }})
		addKind(&kind{name: "triband" + u + ".TBand", fam: "triband", class: obcl, shape: shSquare, trans: "T",
			build: func(b *builder, l *logical) mat.Matrix { return b.triBand(l.transposed(), upper).TBand() }})
		addKind(&kind{name: "triband" + u + ".TTriBand", fam: "triband", class: obcl, shape: shSquare, tri: true, triUpper: !upper, trans: "T",
			build: func(b *builder, l *logical) mat.Matrix { return b.triBand(l.transposed(), upper).TTriBand() }})
		addKind(&kind{name: "TransposeTriBand2(triband" + u + ")", fam: "triband", class: bcl, shape: shSquare, tri: true, triUpper: upper, trans: "TT",
			build: func(b *builder, l *logical) mat.Matrix {
				return mat.TransposeTriBand{TriBanded: mat.TransposeTriBand{TriBanded: b.triBand(l, upper)}}
			}})
		rawTriBandOf := func(b *builder, l *logical) *rawTriBand {
			return &rawTriBand{basic: newBasic(l), t: b.triBandStorage(l, upper, b.pad(1, 2))}
		}
		addKind(&kind{name: "rawTriBander" + u, fam: "raw", class: bcl, shape: shSquare,
			build: func(b *builder, l *logical) mat.Matrix { return rawTriBandOf(b, l) }})
		addKind(&kind{name: "Transpose(rawTriBander" + u + ")", fam: "raw", class: obcl, shape: shSquare, trans: "T",
			build: func(b *builder, l *logical) mat.Matrix { return mat.Transpose{Matrix: rawTriBandOf(b, l.transposed())} }})

		// user types whose raw representation has Diag == blas.Unit: the stored
		// diagonal is not referenced (sentinels), At(i,i) is 1. untransposeExtract
		// anticipates them (it does not lift them). Only used by the user-types sub.
		rawTriUnitOf := func(b *builder, l *logical) *rawTri {
			m := rawTriOf(b, l)
			g := b.guards[len(b.guards)-1]
			off := len(g.data) - len(m.t.Data)
			for i := 0; i < l.r; i++ {
				g.data[off+i*m.t.Stride+i] = b.nan()
			}
			copy(g.snap, g.data)
			m.t.Diag = blas.Unit
			return m
		}
		addKind(&kind{name: "rawTriangular" + u + ".unit", fam: "raw", class: cl, shape: shSquare, tri: true, triUpper: upper, special: true, unit: true,
			build: func(b *builder, l *logical) mat.Matrix { return rawTriUnitOf(b, l) }})
		addKind(&kind{name: "Transpose(rawTriangular" + u + ".unit)", fam: "raw", class: ocl, shape: shSquare, trans: "T", special: true, unit: true,
			build: func(b *builder, l *logical) mat.Matrix { return mat.Transpose{Matrix: rawTriUnitOf(b, l.transposed())} }})
		addKind(&kind{name: "rawTriBander" + u + ".unit", fam: "raw", class: bcl, shape: shSquare, special: true, unit: true,
			build: func(b *builder, l *logical) mat.Matrix {
				m := rawTriBandOf(b, l)
				g := b.guards[len(b.guards)-1]
				d0 := 0
				if !upper {
					d0 = m.t.K
				}
				for i := 0; i < l.r; i++ {
					g.data[i*m.t.Stride+d0] = b.nan()
				}
				copy(g.snap, g.data)
				m.t.Diag = blas.Unit
				return m
			}})
	}

	// --- general band (rectangular allowed)
	addKind(&kind{name: "band", fam: "band", class: cBand,
		build: func(b *builder, l *logical) mat.Matrix { return b.bandDense(l, false) }})
	addKind(&kind{name: "band.strided", fam: "band", class: cBand,
		build: func(b *builder, l *logical) mat.Matrix { return b.bandDense(l, true) }})
	addKind(&kind{name: "band.T", fam: "band", class: cBand, trans: "T",
		build: func(b *builder, l *logical) mat.Matrix { return b.bandDense(l.transposed(), false).T() }})
	addKind(&kind{name: "band.TBand", fam: "band", class: cBand, trans: "T",
		build: func(b *builder, l *logical) mat.Matrix { return b.bandDense(l.transposed(), true).TBand() }})
	addKind(&kind{name: "TransposeBand2(band)", fam: "band", class: cBand, trans: "TT",
		build: func(b *builder, l *logical) mat.Matrix {
			return mat.TransposeBand{Banded: mat.TransposeBand{Banded: b.bandDense(l, false)}}
		}})
	rawBandOf := func(b *builder, l *logical) *rawBand {
		return &rawBand{basic: newBasic(l), b: b.bandStorage(l, b.pad(1, 2))}
	}
	addKind(&kind{name: "rawBander", fam: "raw", class: cBand,
		build: func(b *builder, l *logical) mat.Matrix { return rawBandOf(b, l) }})
	addKind(&kind{name: "Transpose(rawBander)", fam: "raw", class: cBand, trans: "T",
		build: func(b *builder, l *logical) mat.Matrix { return mat.Transpose{Matrix: rawBandOf(b, l.transposed())} }})

	// --- symmetric band
	addKind(&kind{name: "symband", fam: "symband", class: cSymBand, shape: shSquare, sym: true,
		build: func(b *builder, l *logical) mat.Matrix { return b.symBand(l) }})
	addKind(&kind{name: "TransposeBand(symband)", fam: "symband", class: cSymBand, shape: shSquare, trans: "T",
		build: func(b *builder, l *logical) mat.Matrix { return mat.TransposeBand{Banded: b.symBand(l)} }})
	addKind(&kind{name: "Transpose(symband)", fam: "symband", class: cSymBand, shape: shSquare, trans: "T",
		build: func(b *builder, l *logical) mat.Matrix { return mat.Transpose{Matrix: b.symBand(l)} }})
	rawSymBandOf := func(b *builder, l *logical) *rawSymBand {
		return &rawSymBand{basic: newBasic(l), s: b.symBandStorage(l, b.pad(1, 2))}
	}
	addKind(&kind{name: "rawSymBander", fam: "raw", class: cSymBand, shape: shSquare,
		build: func(b *builder, l *logical) mat.Matrix { return rawSymBandOf(b, l) }})
	addKind(&kind{name: "Transpose(rawSymBander)", fam: "raw", class: cSymBand, shape: shSquare, trans: "T",
		build: func(b *builder, l *logical) mat.Matrix { return mat.Transpose{Matrix: rawSymBandOf(b, l)} }})

	// --- diagonal
	addKind(&kind{name: "diag", fam: "diag", class: cDiag, shape: shSquare, sym: true, tri: true, triUpper: true,
		build: func(b *builder, l *logical) mat.Matrix { return b.diag(l) }})
	addKind(&kind{name: "diag.view", fam: "diag", class: cDiag, shape: shSquare, sym: true, tri: true, triUpper: true,
		build: func(b *builder, l *logical) mat.Matrix { return b.diagView(l) }})
	addKind(&kind{name: "diag.TTri", fam: "diag", class: cDiag, shape: shSquare, tri: true, triUpper: false, trans: "T",
		build: func(b *builder, l *logical) mat.Matrix { return b.diag(l).TTri() }})
	addKind(&kind{name: "diag.view.TBand", fam: "diag", class: cDiag, shape: shSquare, trans: "T",
		build: func(b *builder, l *logical) mat.Matrix { return b.diagView(l).TBand() }})
	addKind(&kind{name: "diag.TTriBand", fam: "diag", class: cDiag, shape: shSquare, tri: true, triUpper: false, trans: "T",
		build: func(b *builder, l *logical) mat.Matrix { return b.diag(l).TTriBand() }})
	addKind(&kind{name: "Transpose(diag.view)", fam: "diag", class: cDiag, shape: shSquare, trans: "T",
		build: func(b *builder, l *logical) mat.Matrix { return mat.Transpose{Matrix: b.diagView(l)} }})

	// --- tridiagonal
	addKind(&kind{name: "tridiag", fam: "tridiag", class: cTridiag, shape: shSquare,
		build: func(b *builder, l *logical) mat.Matrix { return b.tridiag(l) }})
	addKind(&kind{name: "tridiag.T", fam: "tridiag", class: cTridiag, shape: shSquare, trans: "T",
		build: func(b *builder, l *logical) mat.Matrix { return b.tridiag(l.transposed()).T() }})
	addKind(&kind{name: "tridiag.TBand", fam: "tridiag", class: cTridiag, shape: shSquare, trans: "T",
		build: func(b *builder, l *logical) mat.Matrix { return b.tridiag(l.transposed()).TBand() }})
	addKind(&kind{name: "rawTridiagonaler", fam: "raw", class: cTridiag, shape: shSquare,
		build: func(b *builder, l *logical) mat.Matrix {
			return &rawTridiag{basic: newBasic(l), t: b.tridiagStorage(l)}
		}})
	addKind(&kind{name: "Transpose(rawTridiagonaler)", fam: "raw", class: cTridiag, shape: shSquare, trans: "T",
		build: func(b *builder, l *logical) mat.Matrix {
			lt := l.transposed()
			return mat.Transpose{Matrix: &rawTridiag{basic: newBasic(lt), t: b.tridiagStorage(lt)}}
		}})

	// --- column vectors (n×1)
	for _, v := range []struct {
		name    string
		variant int
	}{{"vec", vecCompact}, {"vec.colview", vecInc}, {"vec.slicevec", vecSlice}, {"vec.rowview", vecRowView}} {
		v := v
		addKind(&kind{name: v.name, fam: "vec", class: cGeneral, shape: shCol, vec: true,
			build: func(b *builder, l *logical) mat.Matrix { return b.vec(l, v.variant) }})
	}
	addKind(&kind{name: "TransposeVec2(vec.colview)", fam: "vecT", class: cGeneral, shape: shCol, vec: true, trans: "TT",
		build: func(b *builder, l *logical) mat.Matrix {
			return mat.TransposeVec{Vector: mat.TransposeVec{Vector: b.vec(l, vecInc)}}
		}})
	addKind(&kind{name: "Transpose(vec.slicevec.TVec)", fam: "vecT", class: cGeneral, shape: shCol, trans: "TT",
		build: func(b *builder, l *logical) mat.Matrix { return mat.Transpose{Matrix: b.vec(l, vecSlice).TVec()} }})
	addKind(&kind{name: "basicVec", fam: "basic", class: cGeneral, shape: shCol, vec: true,
		build: func(b *builder, l *logical) mat.Matrix { return &basicVec{newBasic(l)} }})
	rawVecOf := func(b *builder, l *logical) *rawVec {
		return &rawVec{basicVec: basicVec{newBasic(l)}, x: b.rawVector(l)}
	}
	addKind(&kind{name: "rawVectorer", fam: "raw", class: cGeneral, shape: shCol, vec: true,
		build: func(b *builder, l *logical) mat.Matrix { return rawVecOf(b, l) }})

	// vectors whose unit-increment data slice is longer than N (legal for
	// blas64.Vector; reachable through SetRawVector and user RawVectorers).
	// Only used by the vec-slack sub-check.
	slackVector := func(b *builder, l *logical) blas64.Vector {
		n := len(l.v)
		d := b.sentinels(n + b.pad(1, 3))
		copy(d, l.v)
		b.watch("slack-vector", d)
		return blas64.Vector{N: n, Inc: 1, Data: d}
	}
	addKind(&kind{name: "rawVectorer.slack", fam: "raw", class: cGeneral, shape: shCol, vec: true, special: true,
		build: func(b *builder, l *logical) mat.Matrix {
			return &rawVec{basicVec: basicVec{newBasic(l)}, x: slackVector(b, l)}
		}})
	addKind(&kind{name: "vec.setraw.slack", fam: "vec", class: cGeneral, shape: shCol, vec: true, special: true,
		build: func(b *builder, l *logical) mat.Matrix {
			var v mat.VecDense
			v.SetRawVector(slackVector(b, l))
			return &v
		}})

	// --- row vectors (1×n)
	addKind(&kind{name: "vec.T", fam: "vecT", class: cGeneral, shape: shRow, trans: "T",
		build: func(b *builder, l *logical) mat.Matrix { return b.vec(l, vecCompact).T() }})
	addKind(&kind{name: "vec.colview.T", fam: "vecT", class: cGeneral, shape: shRow, trans: "T",
		build: func(b *builder, l *logical) mat.Matrix { return b.vec(l, vecInc).T() }})
	addKind(&kind{name: "vec.colview.TVec", fam: "vecT", class: cGeneral, shape: shRow, vec: true, trans: "T",
		build: func(b *builder, l *logical) mat.Matrix { return b.vec(l, vecInc).TVec() }})
	addKind(&kind{name: "vec.rowview.T", fam: "vecT", class: cGeneral, shape: shRow, trans: "T",
		build: func(b *builder, l *logical) mat.Matrix { return b.vec(l, vecRowView).T() }})
	addKind(&kind{name: "Transpose(rawVectorer)", fam: "raw", class: cGeneral, shape: shRow, trans: "T",
		build: func(b *builder, l *logical) mat.Matrix { return mat.Transpose{Matrix: rawVecOf(b, l.transposed())} }})
	addKind(&kind{name: "TransposeVec(basicVec)", fam: "basic", class: cGeneral, shape: shRow, vec: true, trans: "T",
		build: func(b *builder, l *logical) mat.Matrix {
			return mat.TransposeVec{Vector: &basicVec{newBasic(l.transposed())}}
		}})

	// --- factorizations used through their Matrix methods
	addKind(&kind{name: "Cholesky", fam: "fact", class: cSym, shape: shSquare, sym: true, approx: true, flavor: fSPD,
		build: func(b *builder, l *logical) mat.Matrix {
			var c mat.Cholesky
			mustFactor(c.Factorize(b.symDense(l, false)), "Cholesky")
			return &c
		}})
	addKind(&kind{name: "PivotedCholesky", fam: "fact", class: cSym, shape: shSquare, sym: true, approx: true, flavor: fSPD,
		build: func(b *builder, l *logical) mat.Matrix {
			var c mat.PivotedCholesky
			mustFactor(c.Factorize(b.symDense(l, false), -1), "PivotedCholesky")
			return &c
		}})
	addKind(&kind{name: "BandCholesky", fam: "fact", class: cSymBand, shape: shSquare, sym: true, approx: true, flavor: fSPD,
		build: func(b *builder, l *logical) mat.Matrix {
			var c mat.BandCholesky
			mustFactor(c.Factorize(b.symBand(l)), "BandCholesky")
			return &c
		}})
	addKind(&kind{name: "EigenSym", fam: "fact", class: cSym, shape: shSquare, sym: true, approx: true,
		build: func(b *builder, l *logical) mat.Matrix {
			var e mat.EigenSym
			mustFactor(e.Factorize(b.symDense(l, false), true), "EigenSym")
			return &e
		}})
	addKind(&kind{name: "LU", fam: "fact", class: cGeneral, shape: shSquare, approx: true, flavor: fWell,
		build: func(b *builder, l *logical) mat.Matrix { var f mat.LU; f.Factorize(b.dense(l)); return &f }})
	addKind(&kind{name: "LU.T", fam: "fact", class: cGeneral, shape: shSquare, approx: true, flavor: fWell, trans: "T",
		build: func(b *builder, l *logical) mat.Matrix {
			var f mat.LU
			f.Factorize(b.dense(l.transposed()))
			return f.T()
		}})
	addKind(&kind{name: "QR", fam: "fact", class: cGeneral, shape: shTall, approx: true, flavor: fWell,
		build: func(b *builder, l *logical) mat.Matrix { var f mat.QR; f.Factorize(b.dense(l)); return &f }})
	addKind(&kind{name: "LQ", fam: "fact", class: cGeneral, shape: shWide, approx: true, flavor: fWell,
		build: func(b *builder, l *logical) mat.Matrix { var f mat.LQ; f.Factorize(b.dense(l)); return &f }})
}

// approxTol is the bound used when a factorization kind is read back through
// At: n·2^k·eps·max|A| with generous constants (backward error of the
// factorization plus the rounding of the reconstruction sum). The operands of
// these kinds are diagonally dominant, so there is no pivot growth.
func approxTol(l *logical) float64 {
	var mx float64
	for _, x := range l.v {
		mx = math.Max(mx, math.Abs(x))
	}
	n := float64(max(l.r, l.c))
	return 200 * n * n * vk.Eps * mx
}

// checkAt is oracle 1: Dims and At of a rendered operand reproduce the logical
// value bit for bit (to rounding for factorization kinds), through T() as well,
// and the Vector/Symmetric/Triangular views agree.
func checkAt(k *kind, m mat.Matrix, l *logical) *vk.Failure {
	r, c := m.Dims()
	if r != l.r || c != l.c {
		return vk.Failf("at/dims", "kind %s: Dims()=(%d,%d) want (%d,%d)", k.name, r, c, l.r, l.c)
	}
	tol := 0.0
	if k.approx {
		tol = approxTol(l)
	}
	mt := m.T()
	if tr, tc := mt.Dims(); tr != l.c || tc != l.r {
		return vk.Failf("at/t-dims", "kind %s: T().Dims()=(%d,%d) want (%d,%d)", k.name, tr, tc, l.c, l.r)
	}
	for i := 0; i < r; i++ {
		for j := 0; j < c; j++ {
			got, want := m.At(i, j), l.at(i, j)
			if tol == 0 {
				if !vk.SameBits(got, want) {
					return vk.Failf("at/value", "kind %s (%dx%d kl=%d ku=%d): At(%d,%d)=%v want %v", k.name, r, c, l.kl, l.ku, i, j, got, want)
				}
			} else if !vk.Close(got, want, tol) {
				return vk.Failf("at/value-approx", "kind %s (%dx%d): At(%d,%d)=%v want %v tol %g", k.name, r, c, i, j, got, want, tol)
			}
			if gt := mt.At(j, i); !vk.SameBits(gt, got) && !(k.approx && vk.Close(gt, got, tol)) {
				return vk.Failf("at/t-value", "kind %s (%dx%d): T().At(%d,%d)=%v but At(%d,%d)=%v", k.name, r, c, j, i, gt, i, j, got)
			}
		}
	}
	if k.vec {
		v, ok := m.(mat.Vector)
		if !ok {
			return vk.Failf("at/not-vector", "kind %s does not implement mat.Vector", k.name)
		}
		if v.Len() != len(l.v) {
			return vk.Failf("at/len", "kind %s: Len()=%d want %d", k.name, v.Len(), len(l.v))
		}
		for i := range l.v {
			if got := v.AtVec(i); !vk.SameBits(got, l.v[i]) {
				return vk.Failf("at/atvec", "kind %s: AtVec(%d)=%v want %v", k.name, i, got, l.v[i])
			}
		}
	}
	if k.sym {
		s, ok := m.(mat.Symmetric)
		if !ok {
			return vk.Failf("at/not-symmetric", "kind %s does not implement mat.Symmetric", k.name)
		}
		if s.SymmetricDim() != l.r {
			return vk.Failf("at/symdim", "kind %s: SymmetricDim()=%d want %d", k.name, s.SymmetricDim(), l.r)
		}
	}
	if k.tri {
		t, ok := m.(mat.Triangular)
		if !ok {
			return vk.Failf("at/not-triangular", "kind %s does not implement mat.Triangular", k.name)
		}
		n, tk := t.Triangle()
		if n != l.r || bool(tk) != k.triUpper {
			return vk.Failf("at/triangle", "kind %s: Triangle()=(%d,%v) want (%d,%v)", k.name, n, tk, l.r, k.triUpper)
		}
		tt := t.TTri()
		if n2, tk2 := tt.Triangle(); n2 != l.r || bool(tk2) == k.triUpper {
			return vk.Failf("at/ttri-triangle", "kind %s: TTri().Triangle()=(%d,%v)", k.name, n2, tk2)
		}
		for i := 0; i < r; i++ {
			for j := 0; j < c; j++ {
				if got := tt.At(j, i); !vk.SameBits(got, l.at(i, j)) {
					return vk.Failf("at/ttri-value", "kind %s: TTri().At(%d,%d)=%v want %v", k.name, j, i, got, l.at(i, j))
				}
			}
		}
	}
	if bd, ok := m.(mat.Banded); ok {
		kl, ku := bd.Bandwidth()
		for i := 0; i < r; i++ {
			for j := 0; j < c; j++ {
				if (j-i > ku || i-j > kl) && l.at(i, j) != 0 {
					return vk.Failf("at/bandwidth", "kind %s: Bandwidth()=(%d,%d) but logical (%d,%d)=%v", k.name, kl, ku, i, j, l.at(i, j))
				}
			}
		}
		tb := bd.TBand()
		tkl, tku := tb.Bandwidth()
		if tkl != ku || tku != kl {
			return vk.Failf("at/tband-bandwidth", "kind %s: Bandwidth()=(%d,%d) TBand().Bandwidth()=(%d,%d)", k.name, kl, ku, tkl, tku)
		}
		for i := 0; i < r; i++ {
			for j := 0; j < c; j++ {
				if got := tb.At(j, i); !vk.SameBits(got, m.At(i, j)) {
					return vk.Failf("at/tband-value", "kind %s: TBand().At(%d,%d)=%v want %v", k.name, j, i, got, m.At(i, j))
				}
			}
		}
	}
	if tb, ok := m.(mat.TriBanded); ok {
		n, kk, tk := tb.TriBand()
		tt := tb.TTriBand()
		n2, k2, tk2 := tt.TriBand()
		if n != l.r || n2 != n || k2 != kk || tk2 == tk {
			return vk.Failf("at/ttriband", "kind %s: TriBand()=(%d,%d,%v) TTriBand().TriBand()=(%d,%d,%v)", k.name, n, kk, tk, n2, k2, tk2)
		}
		for i := 0; i < r; i++ {
			for j := 0; j < c; j++ {
				if got := tt.At(j, i); !vk.SameBits(got, m.At(i, j)) {
					return vk.Failf("at/ttriband-value", "kind %s: TTriBand().At(%d,%d)=%v want %v", k.name, j, i, got, m.At(i, j))
				}
			}
		}
	}
	return nil
}

// adopt replaces the logical values by what At returns (factorization kinds),
// so that everything downstream is exact with respect to the values seen
// through At.
func adopt(m mat.Matrix, l *logical) {
	for i := 0; i < l.r; i++ {
		for j := 0; j < l.c; j++ {
			l.v[i*l.c+j] = m.At(i, j)
		}
	}
}
