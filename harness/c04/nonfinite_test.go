package c04

import (
	"math"
	"testing"

	"gonum.org/v1/gonum/mat"
	"pgregory.net/rapid"
	"verifharness/vk"
)

// ---- element-wise operations on non-finite and signed-zero elements ------------------
//
// (added after seeded change C04-13: a `f == 0` shortcut in the *Dense arm of Dense.Scale that
// writes zeros, where the element-wise arm computes 0*Inf = NaN.) The general registry draws
// finite values only, because for products and solves the treatment of 0*Inf legitimately
// differs between BLAS-backed and element-wise paths. For the operations below the result is
// documented element by element, so IEEE arithmetic fixes it for every element value and the
// answer must not depend on how the operand is represented: Scale, Add, Sub, MulElem, DivElem,
// Apply. Oracle: the scalar expression on At values; NaN matches NaN, zeros match regardless
// of sign.

var nfVals = []float64{0, math.Copysign(0, -1), 1, -2.5, math.Inf(1), math.Inf(-1), math.NaN(), 1e308, 5e-324, 3}

type nfCase struct {
	Op     string
	R, C   int
	F      int
	A, B   []int
	KA, KB int
	Recv   int
}

func nfOperand(kind, r, c int, idx []int) mat.Matrix {
	at := func(i, j int) float64 { return nfVals[idx[i*c+j]] }
	switch kind {
	case 0:
		d := mat.NewDense(r, c, nil)
		for i := 0; i < r; i++ {
			for j := 0; j < c; j++ {
				d.Set(i, j, at(i, j))
			}
		}
		return d
	case 1:
		d := mat.NewDense(c, r, nil)
		for i := 0; i < r; i++ {
			for j := 0; j < c; j++ {
				d.Set(j, i, at(i, j))
			}
		}
		return d.T()
	case 2:
		p := mat.NewDense(r+2, c+3, nil)
		for i := 0; i < r+2; i++ {
			for j := 0; j < c+3; j++ {
				p.Set(i, j, 7)
			}
		}
		v := p.Slice(1, r+1, 2, c+2).(*mat.Dense)
		for i := 0; i < r; i++ {
			for j := 0; j < c; j++ {
				v.Set(i, j, at(i, j))
			}
		}
		return v
	case 3, 4:
		b := &basic{r: r, c: c, v: make([]float64, r*c)}
		if kind == 4 {
			b.r, b.c = c, r
		}
		for i := 0; i < r; i++ {
			for j := 0; j < c; j++ {
				if kind == 4 {
					b.v[j*r+i] = at(i, j)
				} else {
					b.v[i*c+j] = at(i, j)
				}
			}
		}
		if kind == 4 {
			return b.T()
		}
		return b
	}
	panic("kind")
}

func nfSame(a, b float64) bool { return a == b || (math.IsNaN(a) && math.IsNaN(b)) }

func checkNonFinite(c nfCase) *vk.Failure {
	r, cc := c.R, c.C
	a := nfOperand(c.KA, r, cc, c.A)
	b := nfOperand(c.KB, r, cc, c.B)
	f := nfVals[c.F]
	special := false
	for _, i := range append(append([]int{c.F}, c.A...), c.B...) {
		if v := nfVals[i]; math.IsInf(v, 0) || math.IsNaN(v) || (v == 0 && math.Signbit(v)) {
			special = true
		}
	}
	if special && (c.KA >= 3 || c.KB >= 3 || c.KA != c.KB) {
		vk.NonTrivial("nonfinite", c.Op, c.R, c.C, c.F, c.A, c.B, c.KA, c.KB, c.Recv)
	}
	vk.Sample("elementwise-nonfinite", c)
	var m *mat.Dense
	if c.Recv == 0 {
		m = &mat.Dense{}
	} else {
		m = mat.NewDense(r, cc, nil)
		for i := 0; i < r; i++ {
			for j := 0; j < cc; j++ {
				m.Set(i, j, 11)
			}
		}
	}
	var want func(x, y float64) float64
	var call func()
	switch c.Op {
	case "Scale":
		want, call = func(x, _ float64) float64 { return f * x }, func() { m.Scale(f, a) }
	case "Add":
		want, call = func(x, y float64) float64 { return x + y }, func() { m.Add(a, b) }
	case "Sub":
		want, call = func(x, y float64) float64 { return x - y }, func() { m.Sub(a, b) }
	case "MulElem":
		want, call = func(x, y float64) float64 { return x * y }, func() { m.MulElem(a, b) }
	case "DivElem":
		want, call = func(x, y float64) float64 { return x / y }, func() { m.DivElem(a, b) }
	case "Apply":
		want, call = func(x, _ float64) float64 { return f * x }, func() { m.Apply(func(_, _ int, v float64) float64 { return f * v }, a) }
	default:
		return vk.Failf("bad-case", "op %q", c.Op)
	}
	if fl := vk.MustReturn("elementwise-nonfinite-panics/"+c.Op, call); fl != nil {
		return fl
	}
	if mr, mc := m.Dims(); mr != r || mc != cc {
		return vk.Failf("elementwise-nonfinite-dims/"+c.Op, "got %d×%d want %d×%d", mr, mc, r, cc)
	}
	for i := 0; i < r; i++ {
		for j := 0; j < cc; j++ {
			x, y := a.At(i, j), b.At(i, j)
			if w, g := want(x, y), m.At(i, j); !nfSame(w, g) {
				return vk.Failf("elementwise-nonfinite/"+c.Op, "%s f=%v a(%d,%d)=%v b=%v operand kinds %d,%d receiver %d: got %v want %v", c.Op, f, i, j, x, y, c.KA, c.KB, c.Recv, g, w)
			}
		}
	}
	return nil
}

func TestElementwiseNonFinite(t *testing.T) {
	opsNF := []string{"Scale", "Add", "Sub", "MulElem", "DivElem", "Apply"}
	vk.Run(t, "elementwise-nonfinite", vk.Opts{Quick: 4000, Thorough: 80000, NoCrumb: true}, func(t *rapid.T) nfCase {
		c := nfCase{
			Op:   rapid.SampledFrom(opsNF).Draw(t, "op"),
			R:    rapid.IntRange(1, 4).Draw(t, "r"),
			C:    rapid.IntRange(1, 4).Draw(t, "c"),
			F:    rapid.IntRange(0, len(nfVals)-1).Draw(t, "f"),
			KA:   rapid.IntRange(0, 4).Draw(t, "ka"),
			KB:   rapid.IntRange(0, 4).Draw(t, "kb"),
			Recv: rapid.IntRange(0, 1).Draw(t, "recv"),
		}
		c.A = rapid.SliceOfN(rapid.IntRange(0, len(nfVals)-1), c.R*c.C, c.R*c.C).Draw(t, "a")
		c.B = rapid.SliceOfN(rapid.IntRange(0, len(nfVals)-1), c.R*c.C, c.R*c.C).Draw(t, "b")
		return c
	}, checkNonFinite)
}
