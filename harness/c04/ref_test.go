package c04

import (
	"math"

	"verifharness/vk"
)

// result is the element-wise definition of an operation's value together with
// the acceptance bound of every element. tol[i]==0 means the element is exact
// by construction (a copy, or a single correctly rounded IEEE operation whose
// operands are the same in every dispatch path).
type result struct {
	r, c int
	want []float64
	tol  []float64
}

func newResult(r, c int) result {
	return result{r: r, c: c, want: make([]float64, r*c), tol: make([]float64, r*c)}
}

func scalarResult(want, tol float64) result {
	return result{r: 1, c: 1, want: []float64{want}, tol: []float64{tol}}
}

// refElem applies a single IEEE operation element-wise: exact.
func refElem(a, b *logical, f func(x, y float64) float64) result {
	res := newResult(a.r, a.c)
	for i := range a.v {
		res.want[i] = f(a.v[i], b.v[i])
	}
	return res
}

func refMap(a *logical, f func(i, j int, x float64) float64) result {
	res := newResult(a.r, a.c)
	for i := 0; i < a.r; i++ {
		for j := 0; j < a.c; j++ {
			res.want[i*a.c+j] = f(i, j, a.v[i*a.c+j])
		}
	}
	return res
}

// mulDD returns A·B evaluated with a double-double accumulator, and |A|·|B|.
func mulDD(ar, ac int, a []float64, br, bc int, b []float64) (p, ab []float64) {
	if ac != br {
		panic("c04: mulDD shape")
	}
	p = make([]float64, ar*bc)
	ab = make([]float64, ar*bc)
	for i := 0; i < ar; i++ {
		for j := 0; j < bc; j++ {
			var s vk.DD
			var t float64
			for k := 0; k < ac; k++ {
				x, y := a[i*ac+k], b[k*bc+j]
				if x == 0 || y == 0 {
					continue
				}
				s.AddProd(x, y)
				t += math.Abs(x * y)
			}
			p[i*bc+j] = s.Float()
			ab[i*bc+j] = t
		}
	}
	return p, ab
}

// refMul is the matrix product with the §3 sum bound 2(k+4)·eps·Σ|a||b|.
func refMul(a, b *logical) result {
	res := newResult(a.r, b.c)
	p, ab := mulDD(a.r, a.c, a.v, b.r, b.c, b.v)
	copy(res.want, p)
	for i := range ab {
		res.tol[i] = vk.SumBound(a.c, vk.Eps, ab[i])
	}
	return res
}

// refChain is the product of several factors. Any association order commits,
// per multiplication, a relative error gamma_k of the product of absolute
// values, hence the bound 2·(Σk_i + 4·nf)·eps·(|A1|·…·|Anf|).
func refChain(ls ...*logical) result {
	pr, pc := ls[0].r, ls[0].c
	p := append([]float64(nil), ls[0].v...)
	ab := make([]float64, len(p))
	for i, x := range p {
		ab[i] = math.Abs(x)
	}
	ksum := 0
	for _, l := range ls[1:] {
		ksum += l.r
		abl := make([]float64, len(l.v))
		for i, x := range l.v {
			abl[i] = math.Abs(x)
		}
		p, _ = mulDD(pr, pc, p, l.r, l.c, l.v)
		ab, _ = mulDD(pr, pc, ab, l.r, l.c, abl)
		pc = l.c
	}
	res := newResult(pr, pc)
	copy(res.want, p)
	for i := range ab {
		res.tol[i] = 2 * float64(ksum+4*len(ls)) * vk.Eps * ab[i]
	}
	return res
}

// ---- dense linear algebra references (Gaussian elimination, partial pivoting) ----

// solveGE solves A·X = B for square A (n×n) and B (n×k) in float64 with partial
// pivoting and one step of iterative refinement in double-double residuals.
// ok is false when a pivot vanishes.
func solveGE(n int, a []float64, k int, b []float64) (x []float64, ok bool) {
	lu := append([]float64(nil), a...)
	piv := make([]int, n)
	for i := range piv {
		piv[i] = i
	}
	for col := 0; col < n; col++ {
		p := col
		for i := col + 1; i < n; i++ {
			if math.Abs(lu[i*n+col]) > math.Abs(lu[p*n+col]) {
				p = i
			}
		}
		if lu[p*n+col] == 0 {
			return nil, false
		}
		if p != col {
			for j := 0; j < n; j++ {
				lu[p*n+j], lu[col*n+j] = lu[col*n+j], lu[p*n+j]
			}
			piv[p], piv[col] = piv[col], piv[p]
		}
		for i := col + 1; i < n; i++ {
			f := lu[i*n+col] / lu[col*n+col]
			lu[i*n+col] = f
			for j := col + 1; j < n; j++ {
				lu[i*n+j] -= f * lu[col*n+j]
			}
		}
	}
	sub := func(rhs []float64) []float64 { // rhs n×k -> solution
		y := make([]float64, n*k)
		for c := 0; c < k; c++ {
			for i := 0; i < n; i++ {
				s := rhs[piv[i]*k+c]
				for j := 0; j < i; j++ {
					s -= lu[i*n+j] * y[j*k+c]
				}
				y[i*k+c] = s
			}
			for i := n - 1; i >= 0; i-- {
				s := y[i*k+c]
				for j := i + 1; j < n; j++ {
					s -= lu[i*n+j] * y[j*k+c]
				}
				y[i*k+c] = s / lu[i*n+i]
			}
		}
		return y
	}
	x = sub(b)
	// one refinement step with an accurately computed residual
	res := make([]float64, n*k)
	for i := 0; i < n; i++ {
		for c := 0; c < k; c++ {
			var s vk.DD
			s.Add(b[i*k+c])
			for j := 0; j < n; j++ {
				s.AddProd(-a[i*n+j], x[j*k+c])
			}
			res[i*k+c] = s.Float()
		}
	}
	dx := sub(res)
	for i := range x {
		x[i] += dx[i]
	}
	return x, true
}

func normInf(r, c int, a []float64) float64 {
	var mx float64
	for i := 0; i < r; i++ {
		var s float64
		for j := 0; j < c; j++ {
			s += math.Abs(a[i*c+j])
		}
		mx = math.Max(mx, s)
	}
	return mx
}

func normOne(r, c int, a []float64) float64 {
	var mx float64
	for j := 0; j < c; j++ {
		var s float64
		for i := 0; i < r; i++ {
			s += math.Abs(a[i*c+j])
		}
		mx = math.Max(mx, s)
	}
	return mx
}

func maxAbs(a []float64) float64 {
	var mx float64
	for _, x := range a {
		mx = math.Max(mx, math.Abs(x))
	}
	return mx
}

func identity(n int) []float64 {
	e := make([]float64, n*n)
	for i := 0; i < n; i++ {
		e[i*n+i] = 1
	}
	return e
}

// condInf returns the reference inverse and kappa_inf(A) of a square matrix.
func condInf(n int, a []float64) (inv []float64, kappa float64, ok bool) {
	inv, ok = solveGE(n, a, n, identity(n))
	if !ok {
		return nil, math.Inf(1), false
	}
	return inv, normInf(n, n, a) * normInf(n, n, inv), true
}

// linTol is the normwise acceptance bound for the solution X of a linear
// system with a matrix of condition number kappa: C·n·eps·kappa·max|X|, C=200.
// (LU with partial pivoting on the diagonally dominant operands used here has
// no growth; the forward error of a backward stable solve is bounded by
// about 2n·eps·kappa relative to ‖X‖.)
func linTol(n int, kappa, xmax float64) float64 {
	return 200 * float64(n) * vk.Eps * kappa * (xmax + 1e-300)
}

func transposeRaw(r, c int, a []float64) []float64 {
	t := make([]float64, len(a))
	for i := 0; i < r; i++ {
		for j := 0; j < c; j++ {
			t[j*r+i] = a[i*c+j]
		}
	}
	return t
}

// refSolve is the reference for Solve: square systems directly; full-rank
// least squares / minimum norm through the normal equations (the operands are
// well conditioned by construction, kappa_2 <= ~3, so kappa^2 stays tiny).
func refSolve(a, b *logical) (result, bool) {
	m, n, k := a.r, a.c, b.c
	res := newResult(n, k)
	var kappa float64
	switch {
	case m == n:
		x, ok := solveGE(n, a.v, k, b.v)
		if !ok {
			return res, false
		}
		_, kappa, _ = condInf(n, a.v)
		copy(res.want, x)
	case m > n:
		at := transposeRaw(m, n, a.v)
		ata, _ := mulDD(n, m, at, m, n, a.v)
		atb, _ := mulDD(n, m, at, m, k, b.v)
		x, ok := solveGE(n, ata, k, atb)
		if !ok {
			return res, false
		}
		_, kappa, _ = condInf(n, ata)
		copy(res.want, x)
	default:
		at := transposeRaw(m, n, a.v)
		aat, _ := mulDD(m, n, a.v, n, m, at)
		y, ok := solveGE(m, aat, k, b.v)
		if !ok {
			return res, false
		}
		_, kappa, _ = condInf(m, aat)
		x, _ := mulDD(n, m, at, m, k, y)
		copy(res.want, x)
	}
	// scale of the data: the residual of a least squares problem also enters the error
	scale := maxAbs(res.want) + maxAbs(b.v)/math.Max(maxAbs(a.v), 1e-300)
	t := linTol(max(m, n), kappa, scale)
	for i := range res.tol {
		res.tol[i] = t
	}
	return res, true
}

func refInverse(a *logical) (result, bool) {
	n := a.r
	res := newResult(n, n)
	inv, kappa, ok := condInf(n, a.v)
	if !ok {
		return res, false
	}
	copy(res.want, inv)
	t := linTol(n, kappa, maxAbs(inv))
	for i := range res.tol {
		res.tol[i] = t
	}
	return res, true
}

// refDet computes det(A) by elimination with partial pivoting, the product
// accumulated in double-double.
func refDet(n int, a []float64) float64 {
	lu := append([]float64(nil), a...)
	sign := 1.0
	for col := 0; col < n; col++ {
		p := col
		for i := col + 1; i < n; i++ {
			if math.Abs(lu[i*n+col]) > math.Abs(lu[p*n+col]) {
				p = i
			}
		}
		if lu[p*n+col] == 0 {
			return 0
		}
		if p != col {
			for j := 0; j < n; j++ {
				lu[p*n+j], lu[col*n+j] = lu[col*n+j], lu[p*n+j]
			}
			sign = -sign
		}
		for i := col + 1; i < n; i++ {
			f := lu[i*n+col] / lu[col*n+col]
			for j := col + 1; j < n; j++ {
				lu[i*n+j] -= f * lu[col*n+j]
			}
		}
	}
	det := sign
	for i := 0; i < n; i++ {
		det *= lu[i*n+i]
	}
	return det
}

// refPow is A^p by repeated multiplication. Bound: each of the (at most
// 2·log2 p or p-1) multiplications commits gamma_n relative to the product of
// absolute values, so the error is below 2·(p+1)·(n+4)·eps·(|A|^p).
func refPow(a *logical, p int) result {
	n := a.r
	res := newResult(n, n)
	cur := identity(n)
	ab := identity(n)
	abs := make([]float64, len(a.v))
	for i, x := range a.v {
		abs[i] = math.Abs(x)
	}
	for q := 0; q < p; q++ {
		cur, _ = mulDD(n, n, cur, n, n, a.v)
		ab, _ = mulDD(n, n, ab, n, n, abs)
	}
	copy(res.want, cur)
	if p >= 2 {
		for i := range ab {
			res.tol[i] = 2 * float64(p+1) * float64(n+4) * vk.Eps * ab[i]
		}
	}
	return res
}

// refExp is the Taylor series of e^A in double-double-accumulated products,
// summed until the terms vanish. The acceptance bound is normwise:
// C·n·eps·(1+‖A‖1)·e^{‖A‖1}, C = 200 (the condition number of the matrix
// exponential is at most ‖A‖·e^{‖A‖}/‖e^A‖ and Padé scaling-and-squaring is
// backward stable).
func refExp(a *logical) result {
	n := a.r
	res := newResult(n, n)
	sum := identity(n)
	term := identity(n)
	n1 := normOne(n, n, a.v)
	for k := 1; k < 400; k++ {
		term, _ = mulDD(n, n, term, n, n, a.v)
		var mx float64
		for i := range term {
			term[i] /= float64(k)
			mx = math.Max(mx, math.Abs(term[i]))
		}
		for i := range sum {
			sum[i] += term[i]
		}
		if mx < 1e-40 && float64(k) > n1 {
			break
		}
	}
	copy(res.want, sum)
	t := 200 * float64(n) * vk.Eps * (1 + n1) * math.Exp(n1)
	for i := range res.tol {
		res.tol[i] = t
	}
	return res
}

// ---- comparison ------------------------------------------------------------

// compare checks a result read through Dims/At against a reference. slack
// multiplies the bounds (2 when two computed results are compared).
func compare(key string, gr, gc int, got []float64, ref result, slack float64, what string) *vk.Failure {
	if gr != ref.r || gc != ref.c {
		return vk.Failf(key+"-dims", "%s: result is %dx%d, want %dx%d", what, gr, gc, ref.r, ref.c)
	}
	for i := range ref.want {
		if !vk.Close(got[i], ref.want[i], slack*ref.tol[i]) {
			return vk.Failf(key, "%s: element (%d,%d) = %v, want %v (|diff| %g > bound %g)", what,
				i/ref.c, i%ref.c, got[i], ref.want[i], math.Abs(got[i]-ref.want[i]), slack*ref.tol[i])
		}
	}
	return nil
}
