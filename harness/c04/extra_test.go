package c04

import (
	"fmt"
	"math"
	"math/cmplx"
	"testing"

	"gonum.org/v1/gonum/blas/cblas128"
	"gonum.org/v1/gonum/mat"
	"pgregory.net/rapid"
	"verifharness/vk"
)

// ---- At-consistency of every kind at every small shape ---------------------------

type atCase struct {
	Kind string
	R, C int
	Seed uint64
	Mode int
}

func checkAtCase(c atCase) *vk.Failure {
	k := kindByID[c.Kind]
	if k == nil {
		return vk.Failf("bad-case", "unknown kind %q", c.Kind)
	}
	r, cc := max(c.R, 1), max(c.C, 1)
	switch k.shape {
	case shSquare:
		cc = r
	case shCol:
		cc = 1
	case shRow:
		r, cc = 1, max(c.R, 1)
	case shTall:
		if r < cc {
			r, cc = cc, r
		}
	case shWide:
		if r > cc {
			r, cc = cc, r
		}
	}
	rng := vk.NewSplitMix(c.Seed)
	b := &builder{rng: vk.NewSplitMix(c.Seed + 77)}
	l := genLogical(k.class, r, cc, k.flavor, c.Mode, false, rng)
	var m mat.Matrix
	if res := vk.Call(func() { m = k.build(b, l) }); res.Outcome != vk.Returned {
		return vk.Failf("render-panic", "building kind %s (%dx%d kl=%d ku=%d) panicked: %s", k.name, r, cc, l.kl, l.ku, res.Text)
	}
	vk.Class("at:kind=" + k.name)
	if !k.compact && max(r, cc) >= 2 {
		vk.NonTrivial("at", k.name, r, cc, l.kl, l.ku)
	}
	vk.Sample("at", c)
	if f := checkAt(k, m, l); f != nil {
		return f
	}
	// "It will panic if i or j are out of bounds for the matrix."
	for _, ij := range [][2]int{{-1, 0}, {r, 0}, {0, -1}, {0, cc}} {
		ij := ij
		if f := vk.MustPanic("at/out-of-bounds", func() { m.At(ij[0], ij[1]) }); f != nil {
			f.Msg = fmt.Sprintf("kind %s (%dx%d) At(%d,%d): %s", k.name, r, cc, ij[0], ij[1], f.Msg)
			return f
		}
	}
	return b.verify()
}

func TestAtKinds(t *testing.T) {
	reps := vk.Pick(2, 8)
	n := len(kinds) * 64 * reps
	vk.Enumerate(t, "at", n, func(i int) atCase {
		rep := i % reps
		s := (i / reps) % 64
		k := kinds[i/reps/64]
		return atCase{Kind: k.name, R: 1 + s/8, C: 1 + s%8, Seed: hash64(vk.Seed(), "at", i), Mode: rep % 2}
	}, checkAtCase)
}

// ---- complex matrices: At-consistency, Copy, Conj, Slice, Grow, CEqual -------------

// cbasic is a user CMatrix exposing only the interface methods.
type cbasic struct {
	r, c int
	v    []complex128
}

func (m *cbasic) Dims() (int, int) { return m.r, m.c }
func (m *cbasic) At(i, j int) complex128 {
	if uint(i) >= uint(m.r) {
		panic(mat.ErrRowAccess)
	}
	if uint(j) >= uint(m.c) {
		panic(mat.ErrColAccess)
	}
	return m.v[i*m.c+j]
}
func (m *cbasic) H() mat.CMatrix { return mat.ConjTranspose{CMatrix: m} }
func (m *cbasic) T() mat.CMatrix { return mat.CTranspose{CMatrix: m} }

type crawMat struct {
	cbasic
	g cblas128.General
}

func (m *crawMat) RawCMatrix() cblas128.General { return m.g }

type clogical struct {
	r, c int
	v    []complex128
}

func (l *clogical) map2(r, c int, f func(i, j int) complex128) *clogical {
	o := &clogical{r: r, c: c, v: make([]complex128, r*c)}
	for i := 0; i < r; i++ {
		for j := 0; j < c; j++ {
			o.v[i*c+j] = f(i, j)
		}
	}
	return o
}
func (l *clogical) at(i, j int) complex128 { return l.v[i*l.c+j] }
func (l *clogical) transposed() *clogical {
	return l.map2(l.c, l.r, func(i, j int) complex128 { return l.at(j, i) })
}
func (l *clogical) conjT() *clogical {
	return l.map2(l.c, l.r, func(i, j int) complex128 { return cmplx.Conj(l.at(j, i)) })
}

type cguard struct {
	data, snap []complex128
}

type cbuilder struct {
	rng    *vk.SplitMix
	guards []*cguard
	n      uint64
}

func (b *cbuilder) nan() complex128 {
	b.n++
	return complex(math.Float64frombits(0x7ff8_0000_0000_0000|b.n), math.Float64frombits(0x7ff8_0000_0001_0000|b.n))
}
func (b *cbuilder) sentinels(n int) []complex128 {
	s := make([]complex128, n)
	for i := range s {
		s[i] = b.nan()
	}
	return s
}
func (b *cbuilder) watch(d []complex128) {
	b.guards = append(b.guards, &cguard{data: d, snap: append([]complex128(nil), d...)})
}
func sameBitsC(a, b complex128) bool {
	return math.Float64bits(real(a)) == math.Float64bits(real(b)) && math.Float64bits(imag(a)) == math.Float64bits(imag(b))
}
func (b *cbuilder) verify() *vk.Failure {
	for _, g := range b.guards {
		for i := range g.data {
			if !sameBitsC(g.data[i], g.snap[i]) {
				return vk.Failf("operand-modified", "complex operand storage changed at offset %d", i)
			}
		}
	}
	return nil
}
func (b *cbuilder) dense(l *clogical) *mat.CDense {
	d := append([]complex128(nil), l.v...)
	b.watch(d)
	return mat.NewCDense(l.r, l.c, d)
}
func (b *cbuilder) view(l *clogical) *mat.CDense {
	r0, r1, c0, c1 := b.rng.Intn(3), b.rng.Intn(3), b.rng.Intn(3), 1+b.rng.Intn(3)
	R, C := l.r+r0+r1, l.c+c0+c1
	d := b.sentinels(R * C)
	for i := 0; i < l.r; i++ {
		copy(d[(i+r0)*C+c0:], l.v[i*l.c:(i+1)*l.c])
	}
	b.watch(d)
	return mat.NewCDense(R, C, d).Slice(r0, r0+l.r, c0, c0+l.c).(*mat.CDense)
}

var ckinds = []struct {
	name  string
	build func(b *cbuilder, l *clogical) mat.CMatrix
}{
	{"cdense", func(b *cbuilder, l *clogical) mat.CMatrix { return b.dense(l) }},
	{"cdense.view", func(b *cbuilder, l *clogical) mat.CMatrix { return b.view(l) }},
	{"cdense.T", func(b *cbuilder, l *clogical) mat.CMatrix { return b.dense(l.transposed()).T() }},
	{"cdense.view.H", func(b *cbuilder, l *clogical) mat.CMatrix { return b.view(l.conjT()).H() }},
	{"cdense.view.T.H", func(b *cbuilder, l *clogical) mat.CMatrix { return b.view(l.transposed().conjT()).T().H() }},
	{"cdense.H.T", func(b *cbuilder, l *clogical) mat.CMatrix { return b.dense(l.conjT().transposed()).H().T() }},
	{"CTranspose2(cdense.view)", func(b *cbuilder, l *clogical) mat.CMatrix {
		return mat.CTranspose{CMatrix: mat.CTranspose{CMatrix: b.view(l)}}
	}},
	{"ConjTranspose2(cdense)", func(b *cbuilder, l *clogical) mat.CMatrix {
		return mat.ConjTranspose{CMatrix: mat.ConjTranspose{CMatrix: b.dense(l)}}
	}},
	{"cbasic", func(b *cbuilder, l *clogical) mat.CMatrix {
		return &cbasic{l.r, l.c, append([]complex128(nil), l.v...)}
	}},
	{"cbasic.H", func(b *cbuilder, l *clogical) mat.CMatrix {
		lt := l.conjT()
		return (&cbasic{lt.r, lt.c, lt.v}).H()
	}},
	{"rawCMatrixer", func(b *cbuilder, l *clogical) mat.CMatrix {
		st := l.c + 1 + b.rng.Intn(2)
		d := b.sentinels((l.r-1)*st + l.c)
		for i := 0; i < l.r; i++ {
			copy(d[i*st:], l.v[i*l.c:(i+1)*l.c])
		}
		b.watch(d)
		return &crawMat{cbasic{l.r, l.c, append([]complex128(nil), l.v...)}, cblas128.General{Rows: l.r, Cols: l.c, Stride: st, Data: d}}
	}},
	{"rawCMatrixer.T", func(b *cbuilder, l *clogical) mat.CMatrix {
		lt := l.transposed()
		d := append([]complex128(nil), lt.v...)
		b.watch(d)
		return mat.CTranspose{CMatrix: &crawMat{cbasic{lt.r, lt.c, lt.v}, cblas128.General{Rows: lt.r, Cols: lt.c, Stride: lt.c, Data: d}}}
	}},
}

var cops = []string{"At", "Copy", "Conj", "Slice", "Grow", "CEqual", "CEqualApprox"}

type cCase struct {
	Op     string
	Kind   int
	State  int
	R, C   int
	R2, C2 int // receiver size (Copy), slice/grow parameters
	Seed   uint64
}

// cReceiver builds a CDense receiver in a state; parent/window as for Dense.
func cReceiver(b *cbuilder, state, r, c int) (m *mat.CDense, parent []complex128, window map[int]bool) {
	switch state {
	case stZero:
		return &mat.CDense{}, nil, nil
	case stReset:
		m = mat.NewCDense(r+1, c+2, b.sentinels((r+1)*(c+2)))
		m.Reset()
		return m, nil, nil
	case stSized:
		parent = b.sentinels(r * c)
		return mat.NewCDense(r, c, parent), parent, nil
	case stWrong:
		parent = b.sentinels((r + 1) * c)
		return mat.NewCDense(r+1, c, parent), parent, nil
	}
	r0, c0 := b.rng.Intn(3), b.rng.Intn(3)
	R, C := r+r0+b.rng.Intn(3), c+c0+1+b.rng.Intn(3)
	parent = b.sentinels(R * C)
	window = map[int]bool{}
	for i := 0; i < r; i++ {
		for j := 0; j < c; j++ {
			window[(i+r0)*C+j+c0] = true
		}
	}
	return mat.NewCDense(R, C, parent).Slice(r0, r0+r, c0, c0+c).(*mat.CDense), parent, window
}

func checkC(c cCase) *vk.Failure {
	if c.Kind < 0 || c.Kind >= len(ckinds) {
		return vk.Failf("bad-case", "kind index %d", c.Kind)
	}
	ck := ckinds[c.Kind]
	r, cc := max(c.R, 1), max(c.C, 1)
	rng := vk.NewSplitMix(c.Seed)
	b := &cbuilder{rng: vk.NewSplitMix(c.Seed + 5)}
	l := &clogical{r: r, c: cc, v: make([]complex128, r*cc)}
	for i := range l.v {
		l.v[i] = complex(float64(rng.Intn(9)-4), float64(rng.Intn(9)-4))
	}
	a := ck.build(b, l)
	vk.Class("complex:op=" + c.Op)
	vk.Class("complex:kind=" + ck.name)
	if ck.name != "cdense" && max(r, cc) >= 2 {
		vk.NonTrivial("complex", c.Op, ck.name, c.State, r > 1, cc > 1)
	}
	vk.Sample("complex", c)
	what := fmt.Sprintf("%s(%s %dx%d) recv=%s", c.Op, ck.name, r, cc, stateNames[c.State%nStates])

	// oracle 1 for every complex kind
	if ar, ac := a.Dims(); ar != r || ac != cc {
		return vk.Failf("at/dims", "%s: Dims()=(%d,%d)", what, ar, ac)
	}
	at, ah := a.T(), a.H()
	for i := 0; i < r; i++ {
		for j := 0; j < cc; j++ {
			if got := a.At(i, j); !sameBitsC(got, l.at(i, j)) {
				return vk.Failf("at/value", "%s: At(%d,%d)=%v want %v", what, i, j, got, l.at(i, j))
			}
			if got := at.At(j, i); got != l.at(i, j) {
				return vk.Failf("at/t-value", "%s: T().At(%d,%d)=%v want %v", what, j, i, got, l.at(i, j))
			}
			if got := ah.At(j, i); got != cmplx.Conj(l.at(i, j)) {
				return vk.Failf("at/h-value", "%s: H().At(%d,%d)=%v want %v", what, j, i, got, cmplx.Conj(l.at(i, j)))
			}
		}
	}
	readC := func(m mat.CMatrix) (int, int, []complex128) {
		mr, mc := m.Dims()
		v := make([]complex128, mr*mc)
		for i := 0; i < mr; i++ {
			for j := 0; j < mc; j++ {
				v[i*mc+j] = m.At(i, j)
			}
		}
		return mr, mc, v
	}
	outside := func(parent []complex128, snap []complex128, window map[int]bool) *vk.Failure {
		if window == nil {
			return nil
		}
		for i := range parent {
			if !window[i] && !sameBitsC(parent[i], snap[i]) {
				return vk.Failf("recv/outside-window-modified", "%s: complex parent storage offset %d changed", what, i)
			}
		}
		return nil
	}
	state := c.State % nStates
	switch c.Op {
	case "At":
	case "Conj":
		m, parent, window := cReceiver(b, state, r, cc)
		snap := append([]complex128(nil), parent...)
		if state == stWrong {
			if f := vk.MustPanic("conj/shape-panic", func() { m.Conj(a) }); f != nil {
				f.Msg = what + ": " + f.Msg
				return f
			}
			for i := range parent {
				if !sameBitsC(parent[i], snap[i]) {
					return vk.Failf("recv/changed-by-panicking-call", "%s: receiver changed", what)
				}
			}
			break
		}
		if res := vk.Call(func() { m.Conj(a) }); res.Outcome != vk.Returned {
			return vk.Failf("conj/panic", "%s ended in %v: %s", what, res.Outcome, res.Text)
		}
		mr, mc, v := readC(m)
		if mr != r || mc != cc {
			return vk.Failf("conj/dims", "%s: result %dx%d", what, mr, mc)
		}
		for i := range v {
			if v[i] != cmplx.Conj(l.v[i]) {
				return vk.Failf("conj/value", "%s: element %d = %v want %v", what, i, v[i], cmplx.Conj(l.v[i]))
			}
		}
		if f := outside(parent, snap, window); f != nil {
			return f
		}
	case "Copy":
		r2, c2 := max(c.R2, 1), max(c.C2, 1)
		st := stSized
		if state == stView {
			st = stView
		}
		m, parent, window := cReceiver(b, st, r2, c2)
		_, _, before := readC(m)
		snap := append([]complex128(nil), parent...)
		var nr, nc int
		if res := vk.Call(func() { nr, nc = m.Copy(a) }); res.Outcome != vk.Returned {
			return vk.Failf("copy/panic", "%s ended in %v: %s", what, res.Outcome, res.Text)
		}
		if nr != min(r, r2) || nc != min(cc, c2) {
			return vk.Failf("copy/count", "%s into %dx%d returned (%d,%d)", what, r2, c2, nr, nc)
		}
		_, _, v := readC(m)
		for i := 0; i < r2; i++ {
			for j := 0; j < c2; j++ {
				want := before[i*c2+j]
				if i < r && j < cc {
					want = l.at(i, j)
				}
				if !sameBitsC(v[i*c2+j], want) {
					return vk.Failf("copy/value", "%s into %dx%d: element (%d,%d)=%v want %v", what, r2, c2, i, j, v[i*c2+j], want)
				}
			}
		}
		if f := outside(parent, snap, window); f != nil {
			return f
		}
	case "Slice", "Grow":
		cd, ok := a.(*mat.CDense)
		if !ok {
			break
		}
		if c.Op == "Slice" {
			i0, j0 := c.R2%r, c.C2%cc
			i1, j1 := i0+1+int((c.Seed>>8)%uint64(r-i0)), j0+1+int((c.Seed>>16)%uint64(cc-j0))
			s := cd.Slice(i0, i1, j0, j1)
			sr, sc, v := readC(s)
			if sr != i1-i0 || sc != j1-j0 {
				return vk.Failf("slice/dims", "%s Slice(%d,%d,%d,%d): %dx%d", what, i0, i1, j0, j1, sr, sc)
			}
			for i := 0; i < sr; i++ {
				for j := 0; j < sc; j++ {
					if !sameBitsC(v[i*sc+j], l.at(i0+i, j0+j)) {
						return vk.Failf("slice/value", "%s Slice(%d,%d,%d,%d): element (%d,%d)=%v want %v", what, i0, i1, j0, j1, i, j, v[i*sc+j], l.at(i0+i, j0+j))
					}
				}
			}
		} else {
			gr, gc := c.R2%4, c.C2%4
			g := cd.Grow(gr, gc)
			sr, sc, v := readC(g)
			if sr != r+gr || sc != cc+gc {
				return vk.Failf("grow/dims", "%s Grow(%d,%d): %dx%d", what, gr, gc, sr, sc)
			}
			for i := 0; i < r; i++ {
				for j := 0; j < cc; j++ {
					if !sameBitsC(v[i*sc+j], l.at(i, j)) {
						return vk.Failf("grow/value", "%s Grow(%d,%d): element (%d,%d)=%v want %v", what, gr, gc, i, j, v[i*sc+j], l.at(i, j))
					}
				}
			}
		}
	case "CEqual", "CEqualApprox":
		k2 := ckinds[int((c.Seed>>20)%uint64(len(ckinds)))]
		l2 := &clogical{r: r, c: cc, v: append([]complex128(nil), l.v...)}
		want := true
		switch c.State % 3 {
		case 1:
			l2.v[rng.Intn(len(l2.v))] += complex(0, 0.5)
			want = false
		case 2:
			if c.Op == "CEqualApprox" {
				l2.v[rng.Intn(len(l2.v))] += complex(1e-13, 0)
			}
		}
		a2 := k2.build(b, l2)
		var got bool
		if c.Op == "CEqual" {
			got = mat.CEqual(a, a2)
		} else {
			got = mat.CEqualApprox(a, a2, 1e-9)
		}
		if got != want {
			return vk.Failf("cequal/value", "%s vs %s: got %v want %v", what, k2.name, got, want)
		}
	default:
		return vk.Failf("bad-case", "op %q", c.Op)
	}
	return b.verify()
}

func TestComplex(t *testing.T) {
	var cases []cCase
	for _, op := range cops {
		for k := range ckinds {
			for st := 0; st < nStates; st++ {
				for s := 0; s < vk.Pick(6, 24); s++ {
					h := hash64(vk.Seed(), "complex", op, k, st, s)
					cases = append(cases, cCase{Op: op, Kind: k, State: st, R: 1 + int(h%6), C: 1 + int((h>>8)%6), R2: 1 + int((h>>16)%7), C2: 1 + int((h>>24)%7), Seed: h})
				}
			}
		}
	}
	vk.Enumerate(t, "complex", len(cases), func(i int) cCase { return cases[i] }, checkC)
	vk.Run(t, "complex-rand", vk.Opts{Quick: 4000, Thorough: 60000, NoCrumb: true}, func(t *rapid.T) cCase {
		return cCase{
			Op:    rapid.SampledFrom(cops).Draw(t, "op"),
			Kind:  rapid.IntRange(0, len(ckinds)-1).Draw(t, "kind"),
			State: rapid.IntRange(0, nStates-1).Draw(t, "state"),
			R:     rapid.IntRange(1, 8).Draw(t, "r"), C: rapid.IntRange(1, 8).Draw(t, "c"),
			R2: rapid.IntRange(1, 9).Draw(t, "r2"), C2: rapid.IntRange(1, 9).Draw(t, "c2"),
			Seed: vk.SeedGen(t, "seed"),
		}
	}, checkC)
}

// ---- Zero() on every concrete type and view ---------------------------------------

type zeroCase struct {
	Kind string
	R, C int
	Seed uint64
}

var zeroKinds = []string{"dense", "dense.view", "sym", "sym.slice", "triU", "triU.slice", "triL", "triL.slice",
	"band", "band.strided", "symband", "tribandU", "tribandL", "diag", "diag.view", "tridiag",
	"vec", "vec.colview", "vec.slicevec", "vec.rowview"}

// checkZero: after Zero() every element reads 0, the shape is unchanged, every
// stored value of the matrix is zero and every padding element (sentinel) of
// the backing arrays is bit-identical.
func checkZero(c zeroCase) *vk.Failure {
	k := kindByID[c.Kind]
	if k == nil {
		return vk.Failf("bad-case", "unknown kind %q", c.Kind)
	}
	r, cc := max(c.R, 1), max(c.C, 1)
	switch k.shape {
	case shSquare:
		cc = r
	case shCol:
		cc = 1
	}
	b := &builder{rng: vk.NewSplitMix(c.Seed + 3)}
	l := genLogical(k.class, r, cc, fGeneric, 0, true, vk.NewSplitMix(c.Seed))
	m := k.build(b, l)
	z, ok := m.(interface{ Zero() })
	if !ok {
		return vk.Failf("bad-case", "kind %s has no Zero method", k.name)
	}
	vk.Class("zero:kind=" + k.name)
	if max(r, cc) >= 2 {
		vk.NonTrivial("zero", k.name, r, cc, l.kl, l.ku)
	}
	vk.Sample("zero", c)
	what := fmt.Sprintf("%s(%dx%d kl=%d ku=%d).Zero()", k.name, r, cc, l.kl, l.ku)
	if res := vk.Call(z.Zero); res.Outcome != vk.Returned {
		return vk.Failf("zero/panic", "%s ended in %v: %s", what, res.Outcome, res.Text)
	}
	if mr, mc := m.Dims(); mr != r || mc != cc {
		return vk.Failf("zero/dims", "%s: Dims()=(%d,%d)", what, mr, mc)
	}
	for i := 0; i < r; i++ {
		for j := 0; j < cc; j++ {
			if v := m.At(i, j); v != 0 {
				return vk.Failf("zero/value", "%s: At(%d,%d)=%v afterwards", what, i, j, v)
			}
		}
	}
	for _, g := range b.guards {
		for i := range g.data {
			if math.IsNaN(g.snap[i]) {
				if math.Float64bits(g.data[i]) != math.Float64bits(g.snap[i]) {
					return vk.Failf("zero/outside-window-modified", "%s: padding element %d of %s changed to %v", what, i, g.name, g.data[i])
				}
			} else if g.data[i] != 0 {
				return vk.Failf("zero/stored-value-left", "%s: stored element %d of %s is still %v", what, i, g.name, g.data[i])
			}
		}
	}
	return nil
}

func TestZero(t *testing.T) {
	reps := vk.Pick(2, 6)
	n := len(zeroKinds) * 64 * reps
	vk.Enumerate(t, "zero", n, func(i int) zeroCase {
		s := (i / reps) % 64
		return zeroCase{Kind: zeroKinds[i/reps/64], R: 1 + s/8, C: 1 + s%8, Seed: hash64(vk.Seed(), "zero", i)}
	}, checkZero)
}

// ---- vectors whose data slice is longer than N ----------------------------------------

// TestVecSlack runs every operation that takes a Vector with an operand whose
// blas64.Vector has Inc == 1 and len(Data) > N (a legal BLAS vector, obtainable
// with SetRawVector or from a user RawVectorer) in each vector position.
func TestVecSlack(t *testing.T) {
	others := []string{"vec", "vec.colview", "basicVec"}
	specials := []string{"rawVectorer.slack", "vec.setraw.slack"}
	var cases []opCase
	for _, op := range ops {
		if op.enumOnly {
			continue
		}
		var vpos []int
		free := 0
		for _, p := range op.params {
			if p.fixed != nil {
				continue
			}
			if p.role == pVector {
				vpos = append(vpos, free)
			}
			free++
		}
		for _, pos := range vpos {
			for _, sp := range specials {
				for _, st := range statesFor(op) {
					if st == stWrong {
						continue
					}
					for rep := 0; rep < vk.Pick(3, 12); rep++ {
						h := hash64(vk.Seed(), "slack", op.name, pos, sp, st, rep)
						rng := vk.NewSplitMix(h)
						c := opCase{Op: op.name, State: st, Seed: h, Mode: rep % 2, A: rng.Intn(len(alphas)), P: rng.Intn(op.nP)}
						fi := 0
						for _, p := range op.params {
							if p.fixed != nil {
								continue
							}
							switch {
							case fi == pos:
								c.Kinds = append(c.Kinds, sp)
							case p.role == pVector:
								c.Kinds = append(c.Kinds, others[rng.Intn(len(others))])
							default:
								el := eligibleKinds(p)
								c.Kinds = append(c.Kinds, el[rng.Intn(len(el))])
							}
							fi++
						}
						c.Dims = make([]int, op.nvars)
						for k := range c.Dims {
							c.Dims[k] = 1 + rng.Intn(8)
						}
						cases = append(cases, c)
					}
				}
			}
		}
	}
	vk.Enumerate(t, "vec-slack", len(cases), func(i int) opCase { return cases[i] }, checkOpSub("vec-slack"))
}

// ---- user types that the general registry leaves out --------------------------------

// TestUserTypes runs every operation with (a) user RawTriangular/RawTriBander
// types whose raw value has Diag == blas.Unit (stored diagonal not referenced,
// At(i,i) == 1; untransposeExtract anticipates them) and (b) a user Matrix
// implemented on an uncomparable struct value, in every operand position.
func TestUserTypes(t *testing.T) {
	var specials []string
	for _, k := range kinds {
		if k.unit || k.name == "basicValue" {
			specials = append(specials, k.name)
		}
	}
	var cases []opCase
	for _, op := range ops {
		var free []param
		for _, p := range op.params {
			if p.fixed == nil {
				free = append(free, p)
			}
		}
		for pos, pp := range free {
			for _, sp := range specials {
				if !eligible(kindByID[sp], pp) {
					continue
				}
				for _, st := range statesFor(op) {
					if st != stZero && st != stSized && st != stView {
						continue
					}
					for rep := 0; rep < vk.Pick(4, 12); rep++ {
						h := hash64(vk.Seed(), "user-types", op.name, pos, sp, st, rep)
						rng := vk.NewSplitMix(h)
						c := opCase{Op: op.name, State: st, Seed: h, Mode: rep % 2, A: rng.Intn(len(alphas)), P: rng.Intn(op.nP)}
						for fi, p := range free {
							switch {
							case fi == pos, rep%2 == 0 && eligible(kindByID[sp], p):
								// the same user type in every position it fits (even reps)
								c.Kinds = append(c.Kinds, sp)
							default:
								el := eligibleKinds(p)
								c.Kinds = append(c.Kinds, el[rng.Intn(len(el))])
							}
						}
						c.Dims = make([]int, op.nvars)
						for k := range c.Dims {
							c.Dims[k] = 1 + rng.Intn(7)
						}
						cases = append(cases, c)
					}
				}
			}
		}
	}
	vk.Enumerate(t, "user-types", len(cases), func(i int) opCase { return cases[i] }, checkOpSub("user-types"))
}
