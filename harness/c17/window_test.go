package c17

import (
	"fmt"
	"math"
	"testing"

	"gonum.org/v1/gonum/dsp/window"
	"pgregory.net/rapid"
	"verifharness/vk"
)

// ---- window functions ------------------------------------------------------------
//
// The closed forms are the ones in the doc comments, with three corrections
// where a doc comment contradicts itself (reported as documentation defects):
//   - Hamming: the comment's formula has 25/46 and 21/46, its β = -5.37 dB (and
//     the code) correspond to 0.54 and 0.46;
//   - FlatTop: the last term of the comment repeats cos(4πk/(N-1)); the
//     five-term flat top window has cos(8πk/(N-1));
//   - Tukey: the comment's formula uses α for the flat fraction, its β table
//     (and the code, and the cited Wikipedia definition) use α for the tapered
//     fraction: the taper is where |k-M| >= (1-α)M.

type winDef struct {
	name  string
	real  func([]float64) []float64
	cmplx func([]complex128) []complex128
	// w returns the closed form at k for length n; amp bounds |w| and the sum
	// of the absolute coefficients.
	w    func(k, n int) float64
	amp  float64
	end  float64 // closed-form endpoint value w[0] = w[N-1]
	beta float64 // documented coherent gain in dB
}

// cosSum evaluates a0 - a1 cos(2πk/(N-1)) + a2 cos(4πk/(N-1)) - ... with the
// argument of every harmonic reduced exactly.
func cosSum(a []float64) func(k, n int) float64 {
	return func(k, n int) float64 {
		var acc vk.DD
		sign := 1.0
		for h, ah := range a {
			c, _ := unitCS((h*k)%(n-1), n-1)
			acc.AddProd(sign*ah, c)
			sign = -sign
		}
		return acc.Float()
	}
}

func sumAbs(a []float64) float64 {
	s := 0.0
	for _, v := range a {
		s += math.Abs(v)
	}
	return s
}

func endOf(a []float64) float64 {
	var acc vk.DD
	sign := 1.0
	for _, v := range a {
		acc.Add(sign * v)
		sign = -sign
	}
	return acc.Float()
}

var (
	aHann           = []float64{0.5, 0.5}
	aHamming        = []float64{0.54, 0.46}
	aBlackman       = []float64{0.42, 0.5, 0.08}
	aBlackmanHarris = []float64{0.35875, 0.48829, 0.14128, 0.01168}
	aNuttall        = []float64{0.355768, 0.487396, 0.144232, 0.012604}
	aBlackmanNutt   = []float64{0.3635819, 0.4891775, 0.1365995, 0.0106411}
	aFlatTop        = []float64{0.21557895, 0.41663158, 0.277263158, 0.083578947, 0.006947368}
)

var fixedWindows = []winDef{
	{"Rectangular", window.Rectangular, window.RectangularComplex, func(k, n int) float64 { return 1 }, 1, 1, 0},
	{"Sine", window.Sine, window.SineComplex, func(k, n int) float64 {
		_, s := unitCS(k, 2*(n-1)) // sin(πk/(N-1))
		return s
	}, 1, 0, -3.93},
	{"Lanczos", window.Lanczos, window.LanczosComplex, func(k, n int) float64 {
		// sinc(2k/(N-1) - 1), sinc(x) = sin(πx)/(πx); sin(π(2k-(N-1))/(N-1)) = -sin(2πk/(N-1))
		d := 2*k - (n - 1)
		if d == 0 {
			return 1
		}
		_, s := unitCS(k%(n-1), n-1)
		return -s / (math.Pi * float64(d) / float64(n-1))
	}, 1, 0, -4.6},
	{"Triangular", window.Triangular, window.TriangularComplex, func(k, n int) float64 {
		d := 2*k - (n - 1)
		if d < 0 {
			d = -d
		}
		return 1 - float64(d)/float64(n-1)
	}, 1, 0, -6},
	{"Hann", window.Hann, window.HannComplex, cosSum(aHann), 1, 0, -6},
	{"BartlettHann", window.BartlettHann, window.BartlettHannComplex, func(k, n int) float64 {
		d := 2*k - (n - 1)
		if d < 0 {
			d = -d
		}
		c, _ := unitCS(k%(n-1), n-1)
		return 0.62 - 0.48*(float64(d)/float64(2*(n-1))) - 0.38*c
	}, 1.48, 0, -6},
	{"Hamming", window.Hamming, window.HammingComplex, cosSum(aHamming), 1, 0.08, -5.37},
	{"Blackman", window.Blackman, window.BlackmanComplex, cosSum(aBlackman), 1, 0, -7.54},
	{"BlackmanHarris", window.BlackmanHarris, window.BlackmanHarrisComplex, cosSum(aBlackmanHarris), 1, endOf(aBlackmanHarris), -8.91},
	{"Nuttall", window.Nuttall, window.NuttallComplex, cosSum(aNuttall), 1, 0, -9},
	{"BlackmanNuttall", window.BlackmanNuttall, window.BlackmanNuttallComplex, cosSum(aBlackmanNutt), 1, endOf(aBlackmanNutt), -8.8},
	{"FlatTop", window.FlatTop, window.FlatTopComplex, cosSum(aFlatTop), 1, endOf(aFlatTop), -13.34},
}

func gaussianDef(sigma float64) winDef {
	g := window.Gaussian{Sigma: sigma}
	return winDef{
		name: "Gaussian", real: g.Transform, cmplx: g.TransformComplex,
		w: func(k, n int) float64 {
			// exp(-0.5*((k-M)/(σM))^2), M = (N-1)/2
			u := float64(2*k-(n-1)) / (sigma * float64(n-1))
			return math.Exp(-0.5 * u * u)
		},
		amp: 1, end: math.Exp(-0.5 / (sigma * sigma)),
	}
}

func tukeyDef(alpha float64) winDef {
	tk := window.Tukey{Alpha: alpha}
	return winDef{
		name: "Tukey", real: tk.Transform, cmplx: tk.TransformComplex,
		w: func(k, n int) float64 {
			// 0.5*(1+cos(π(|k-M| - (1-α)M)/(αM))) for |k-M| >= (1-α)M, else 1; M=(N-1)/2
			d := 2*k - (n - 1) // 2(k-M)
			if d < 0 {
				d = -d
			}
			flat := (1 - alpha) * float64(n-1) // 2(1-α)M
			if float64(d) < flat {
				return 1
			}
			return 0.5 * (1 + math.Cos(math.Pi*(float64(d)-flat)/(alpha*float64(n-1))))
		},
		amp: 1, end: 0,
	}
}

type winCase struct {
	Win   string
	N     int
	Param vk.F // Gaussian sigma / Tukey alpha
	Seed  uint64
}

func (c winCase) def() winDef {
	switch c.Win {
	case "Gaussian":
		return gaussianDef(float64(c.Param))
	case "Tukey":
		return tukeyDef(float64(c.Param))
	}
	for _, d := range fixedWindows {
		if d.name == c.Win {
			return d
		}
	}
	panic("unknown window " + c.Win)
}

// winTol is the bound on |w_computed - w_closed_form|: 1e-14 relative to the
// size of the window's coefficients (amp).
const winRel = 1e-14

func checkWindow(c winCase) *vk.Failure {
	n := c.N
	d := c.def()
	vk.Class("window " + c.Win)
	vk.NonTrivial("window", c.Win, n, float64(c.Param))
	vk.Sample("window-"+c.Win, c)
	id := fmt.Sprintf("%s N=%d param=%v seed=%d", c.Win, n, float64(c.Param), c.Seed)

	// data: drawn finite values, no zeros so that every weight is observable
	r := vk.NewSplitMix(c.Seed)
	x := make([]float64, n)
	y := make([]float64, n)
	for i := range x {
		for x[i] == 0 {
			x[i] = r.Finite()
		}
		for y[i] == 0 {
			y[i] = r.Finite()
		}
	}
	wtol := winRel * d.amp

	// closed form, in-place semantics
	seq := append([]float64(nil), x...)
	out := d.real(seq)
	if len(out) != n || &out[0] != &seq[0] {
		return vk.Failf(c.Win+"/in-place", "%s: result is not the input slice", id)
	}
	wref := make([]float64, n)
	for k := range wref {
		wref[k] = d.w(k, n)
		if e := math.Abs(out[k] - x[k]*wref[k]); !(e <= wtol*math.Abs(x[k])) {
			return vk.Failf(c.Win+"/closed-form", "%s: k=%d seq[k]=%v result %v, closed form w[k]=%v gives %v (|err|=%.3g)", id, k, x[k], out[k], wref[k], x[k]*wref[k], e)
		}
	}
	// the weights themselves (window applied to ones) via NewValues
	vals := window.NewValues(d.real, n)
	if len(vals) != n {
		return vk.Failf(c.Win+"/NewValues-length", "%s: len=%d", id, len(vals))
	}
	for k, w := range vals {
		if e := math.Abs(w - wref[k]); !(e <= wtol) {
			return vk.Failf(c.Win+"/closed-form-weights", "%s: w[%d]=%v closed form %v", id, k, w, wref[k])
		}
		// symmetry w[k] = w[N-1-k]
		if e := math.Abs(w - vals[n-1-k]); !(e <= 2*wtol) {
			return vk.Failf(c.Win+"/symmetry", "%s: w[%d]=%v w[%d]=%v", id, k, w, n-1-k, vals[n-1-k])
		}
	}
	// endpoints
	for _, k := range []int{0, n - 1} {
		if e := math.Abs(vals[k] - d.end); !(e <= wtol) {
			return vk.Failf(c.Win+"/endpoint", "%s: w[%d]=%v closed form endpoint %v", id, k, vals[k], d.end)
		}
	}
	// centre of an odd-length window is the closed form's peak value w(M)
	// complex variant = real window applied to both parts
	zs := make([]complex128, n)
	for i := range zs {
		zs[i] = complex(x[i], y[i])
	}
	zout := d.cmplx(zs)
	if len(zout) != n || &zout[0] != &zs[0] {
		return vk.Failf(c.Win+"Complex/in-place", "%s: result is not the input slice", id)
	}
	im := d.real(append([]float64(nil), y...))
	for k := range zout {
		if c.Win == "Tukey" && float64(c.Param) < 1 && 2*k > n-1 {
			// The mirrored half of Tukey.TransformComplex is asserted by the
			// sub-check window-tukey-complex (known finding: it is overwritten
			// with the windowed first half).
			continue
		}
		er := math.Abs(real(zout[k]) - out[k])
		ei := math.Abs(imag(zout[k]) - im[k])
		if !(er <= 4*vk.Eps*math.Abs(out[k])) || !(ei <= 4*vk.Eps*math.Abs(im[k])) {
			return vk.Failf(c.Win+"Complex/equals-real-window-on-both-parts", "%s: k=%d seq[k]=%v complex result %v, real window gives (%v, %v)", id, k, complex(x[k], y[k]), zout[k], out[k], im[k])
		}
	}
	// Values built from the function: Transform, TransformTo, complex forms
	vt := vals.Transform(append([]float64(nil), x...))
	dstR := make([]float64, n)
	srcR := append([]float64(nil), x...)
	vals.TransformTo(dstR, srcR)
	zc := vals.TransformComplex(append([]complex128(nil), zs0(x, y)...))
	dstC := make([]complex128, n)
	srcC := zs0(x, y)
	vals.TransformComplexTo(dstC, srcC)
	for k := range vt {
		if !vk.SameBits(vt[k], out[k]) {
			return vk.Failf(c.Win+"/Values.Transform", "%s: k=%d Values.Transform gives %v, the window function %v", id, k, vt[k], out[k])
		}
		if !vk.SameBits(dstR[k], out[k]) || srcR[k] != x[k] {
			return vk.Failf(c.Win+"/Values.TransformTo", "%s: k=%d dst=%v src=%v, the window function gives %v from %v", id, k, dstR[k], srcR[k], out[k], x[k])
		}
		want := complex(vals[k]*x[k], vals[k]*y[k])
		if zc[k] != want {
			return vk.Failf(c.Win+"/Values.TransformComplex", "%s: k=%d got %v want %v", id, k, zc[k], want)
		}
		if dstC[k] != want || srcC[k] != complex(x[k], y[k]) {
			return vk.Failf(c.Win+"/Values.TransformComplexTo", "%s: k=%d dst=%v src=%v want %v", id, k, dstC[k], srcC[k], want)
		}
	}
	return nil
}

func zs0(x, y []float64) []complex128 {
	z := make([]complex128, len(x))
	for i := range z {
		z[i] = complex(x[i], y[i])
	}
	return z
}

func TestWindow(t *testing.T) {
	maxN := vk.Pick(96, 512)
	base := vk.Seed() * 0x9e3779b97f4a7c15
	var cs []winCase
	for n := 2; n <= maxN; n++ {
		for i, d := range fixedWindows {
			cs = append(cs, winCase{Win: d.name, N: n, Seed: base + uint64(n*16+i)})
		}
		for i, s := range []float64{0.3, 0.5, 1.2} {
			cs = append(cs, winCase{Win: "Gaussian", N: n, Param: vk.F(s), Seed: base + uint64(n*16+12+i)})
		}
		for i, a := range []float64{0.3, 0.5, 0.7, 1} {
			cs = append(cs, winCase{Win: "Tukey", N: n, Param: vk.F(a), Seed: base + uint64(n*16+12+i)})
		}
	}
	vk.Enumerate(t, "window", len(cs), func(i int) winCase { return cs[i] }, checkWindow)
	names := []string{"Gaussian", "Tukey", "Gaussian", "Tukey"}
	for _, d := range fixedWindows {
		names = append(names, d.name)
	}
	vk.Run(t, "window-sampled", vk.Opts{Quick: 1500, Thorough: 30000}, func(t *rapid.T) winCase {
		c := winCase{Win: rapid.SampledFrom(names).Draw(t, "win")}
		c.N = vk.Dim(t, "n", 2, rapid.SampledFrom([]int{40, 600, 10000}).Draw(t, "hi"), 3, 16, 256, 4096)
		switch c.Win {
		case "Gaussian":
			c.Param = vk.F(float64(rapid.IntRange(4, 192).Draw(t, "sigma64")) / 64)
		case "Tukey":
			// α in (0, 1]; dyadic values make αM integral at some k (branch boundary)
			c.Param = vk.F(float64(rapid.IntRange(1, 64).Draw(t, "alpha64")) / 64)
		}
		c.Seed = rapid.Uint64().Draw(t, "seed")
		return c
	}, checkWindow)
}

// ---- Tukey.TransformComplex, mirrored half ---------------------------------------

type tukeyCase struct {
	N     int
	Alpha vk.F
	Seed  uint64
}

func checkTukeyComplex(c tukeyCase) *vk.Failure {
	n, alpha := c.N, float64(c.Alpha)
	vk.Sample("window-tukey-complex", c)
	vk.NonTrivial("window-tukey-complex", n, alpha)
	tk := window.Tukey{Alpha: alpha}
	r := vk.NewSplitMix(c.Seed)
	re, im := make([]float64, n), make([]float64, n)
	z := make([]complex128, n)
	for i := range z {
		// distinct values, so that a weight applied to the wrong element shows
		re[i] = float64(i+1) + r.Float()/4
		im[i] = -float64(2*i+1) - r.Float()/4
		z[i] = complex(re[i], im[i])
	}
	wr := tk.Transform(append([]float64(nil), re...))
	wi := tk.Transform(append([]float64(nil), im...))
	out := tk.TransformComplex(append([]complex128(nil), z...))
	bad := func(k int) bool {
		return !(math.Abs(real(out[k])-wr[k]) <= 4*vk.Eps*math.Abs(wr[k])) || !(math.Abs(imag(out[k])-wi[k]) <= 4*vk.Eps*math.Abs(wi[k]))
	}
	for k := 0; 2*k <= n-1; k++ {
		if bad(k) {
			return vk.Failf("TukeyComplex/first-half-equals-real-window", "N=%d α=%v k=%d seq[k]=%v: complex result %v, real window on both parts (%v, %v)", n, alpha, k, z[k], out[k], wr[k], wi[k])
		}
	}
	for k := n - 1; 2*k > n-1; k-- {
		if bad(k) {
			return vk.Failf("TukeyComplex/mirrored-half-equals-real-window", "N=%d α=%v k=%d seq[k]=%v: complex result %v, real window on both parts (%v, %v); seq[N-1-k]=%v", n, alpha, k, z[k], out[k], wr[k], wi[k], z[n-1-k])
		}
	}
	return nil
}

func TestTukeyComplex(t *testing.T) {
	vk.Run(t, "window-tukey-complex", vk.Opts{Quick: 400, Thorough: 5000}, func(t *rapid.T) tukeyCase {
		return tukeyCase{
			N:     vk.Dim(t, "n", 2, 300, 4, 16),
			Alpha: vk.F(float64(rapid.IntRange(1, 63).Draw(t, "alpha64")) / 64),
			Seed:  rapid.Uint64Range(0, 1<<16).Draw(t, "seed"),
		}
	}, checkTukeyComplex)
}

// ---- Values: nil receiver and length mismatches -----------------------------------

type valuesCase struct{ N, M int }

func checkValues(c valuesCase) *vk.Failure {
	vk.Sample("values", c)
	vk.NonTrivial("values", c.N, c.M)
	x := make([]float64, c.M)
	z := make([]complex128, c.M)
	for i := range x {
		x[i] = float64(i + 2)
		z[i] = complex(float64(i+2), -float64(i+3))
	}
	// "If v is nil, Transform is a no-op"
	var nilV window.Values
	x0 := append([]float64(nil), x...)
	z0 := append([]complex128(nil), z...)
	nilV.Transform(x)
	nilV.TransformComplex(z)
	dr, dc := make([]float64, c.M+1), make([]complex128, c.M+1)
	nilV.TransformTo(dr, x)
	nilV.TransformComplexTo(dc, z)
	for i := range x {
		if x[i] != x0[i] || z[i] != z0[i] {
			return vk.Failf("Values-nil-not-a-no-op", "m=%d index %d", c.M, i)
		}
	}
	for i := range dr {
		if dr[i] != 0 || dc[i] != 0 {
			return vk.Failf("Values-nil-TransformTo-writes", "m=%d index %d", c.M, i)
		}
	}
	if c.N == c.M {
		return nil
	}
	// "otherwise the length of v must match the length of seq [src and dst]"
	v := window.NewValues(window.Hann, c.N)
	if v == nil {
		return nil
	}
	if f := vk.MustPanic("Values.Transform-length-mismatch", func() { v.Transform(x) }); f != nil {
		return f
	}
	if f := vk.MustPanic("Values.TransformComplex-length-mismatch", func() { v.TransformComplex(z) }); f != nil {
		return f
	}
	if f := vk.MustPanic("Values.TransformTo-src-mismatch", func() { v.TransformTo(make([]float64, c.N), x) }); f != nil {
		return f
	}
	if f := vk.MustPanic("Values.TransformTo-dst-mismatch", func() { v.TransformTo(x, make([]float64, c.N)) }); f != nil {
		return f
	}
	if f := vk.MustPanic("Values.TransformComplexTo-src-mismatch", func() { v.TransformComplexTo(make([]complex128, c.N), z) }); f != nil {
		return f
	}
	if f := vk.MustPanic("Values.TransformComplexTo-dst-mismatch", func() { v.TransformComplexTo(z, make([]complex128, c.N)) }); f != nil {
		return f
	}
	return nil
}

func TestValues(t *testing.T) {
	var cs []valuesCase
	for n := 2; n <= 12; n++ {
		for m := 0; m <= 13; m++ {
			cs = append(cs, valuesCase{n, m})
		}
	}
	vk.Enumerate(t, "values", len(cs), func(i int) valuesCase { return cs[i] }, checkValues)
}

// ---- coherent gain ------------------------------------------------------------------

type gainCase struct {
	Win   string
	Param vk.F
	Beta  vk.F
}

func checkGain(c gainCase) *vk.Failure {
	const n = 4096
	vk.Sample("window-gain", c)
	vk.NonTrivial("window-gain", c.Win, float64(c.Param))
	d := winCase{Win: c.Win, Param: c.Param}.def()
	vals := window.NewValues(d.real, n)
	var acc vk.DD
	for _, w := range vals {
		acc.Add(w)
	}
	got := 20 * math.Log10(acc.Float()/n)
	if !(math.Abs(got-float64(c.Beta)) <= 0.06) {
		return vk.Failf(c.Win+"/coherent-gain", "%s param=%v: 20*log10(sum(w)/N)=%.4f dB at N=%d, documented β=%v dB", c.Win, float64(c.Param), got, n, float64(c.Beta))
	}
	return nil
}

func TestWindowGain(t *testing.T) {
	var cs []gainCase
	for _, d := range fixedWindows {
		cs = append(cs, gainCase{Win: d.name, Beta: vk.F(d.beta)})
	}
	// tables in the doc comments of Gaussian and Tukey
	for _, e := range [][2]float64{{0.3, -8.52}, {0.5, -4.48}, {1.2, -0.96}} {
		cs = append(cs, gainCase{Win: "Gaussian", Param: vk.F(e[0]), Beta: vk.F(e[1])})
	}
	for _, e := range [][2]float64{{0.3, -1.41}, {0.5, -2.50}, {0.7, -3.74}} {
		cs = append(cs, gainCase{Win: "Tukey", Param: vk.F(e[0]), Beta: vk.F(e[1])})
	}
	vk.Enumerate(t, "window-gain", len(cs), func(i int) gainCase { return cs[i] }, checkGain)
}
