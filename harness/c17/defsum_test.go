package c17

import (
	"fmt"
	"math"
	"math/cmplx"
	"testing"

	"gonum.org/v1/gonum/dsp/fourier"
	"pgregory.net/rapid"
	"verifharness/vk"
)

// dsCase is one (length, input) pair to which every transform is applied.
type dsCase struct {
	N    int
	Kind string
	P    int    // impulse position / tone frequency
	Seed uint64 // expands to the data of the dense kinds
	Idx  []int  // output indices compared with the O(n) defining sum each; empty = all
}

func (c dsCase) indices(m int) []int {
	if m <= 0 {
		return nil
	}
	if len(c.Idx) == 0 {
		out := make([]int, m)
		for i := range out {
			out[i] = i
		}
		return out
	}
	out := make([]int, 0, len(c.Idx)+4)
	for _, v := range c.Idx {
		out = append(out, ((v%m)+m)%m)
	}
	return append(out, 0, 1%m, m/2, m-1)
}

type dsCtx struct {
	c      dsCase
	strict bool
}

func (d dsCtx) tol(inner int, w, n1 float64) float64 {
	return tolUnits(inner, d.strict) * vk.Eps * w * n1
}

// tolPrefix is tol for the FFTPACK cost/sint algorithms (DCT, DST), which
// obtain every second output as a running sum (x[i] = x[i-2] -+ x[i-1]) over
// up to n/2 outputs of the inner real FFT of the pre-processed sequence x'
// (||x'||_1 <= 1.5*w*||x||_1): each of those carries an error of a few eps
// per pass, 4*log2(m)*eps*||x'||_1, and the running sum adds them up, which
// gives the additional 3*n*log2(m) units.
func (d dsCtx) tolPrefix(n, inner int, w, n1 float64) float64 {
	return (tolUnits(inner, d.strict) + 3*float64(n)*log2f(inner)) * vk.Eps * w * n1
}

// fracHook, when set (diagnostics only), receives err/tol of every comparison.
var fracHook func(tr string, frac float64, c dsCase)

func (d dsCtx) fail(tr, what string, i int, got, want any, err, tol float64) *vk.Failure {
	c := d.c
	return vk.Failf(tr+"/"+what, "%s n=%d input=%s p=%d seed=%d: index %d got %v want %v |err|=%.3g tol=%.3g (factors of n %v)",
		tr, c.N, c.Kind, c.P, c.Seed, i, got, want, err, tol, factorize(c.N))
}

func (d dsCtx) cmpR(tr, what string, got []float64, ref func(i int) float64, tol float64) *vk.Failure {
	for _, i := range d.c.indices(len(got)) {
		want := ref(i)
		if fracHook != nil {
			fracHook(tr+"/"+what, math.Abs(got[i]-want)/tol, d.c)
		}
		if e := math.Abs(got[i] - want); !(e <= tol) {
			return d.fail(tr, what, i, got[i], want, e, tol)
		}
	}
	return nil
}

func (d dsCtx) cmpC(tr, what string, got []complex128, ref func(i int) complex128, tol float64) *vk.Failure {
	for _, i := range d.c.indices(len(got)) {
		want := ref(i)
		if fracHook != nil {
			fracHook(tr+"/"+what, cmplx.Abs(got[i]-want)/tol, d.c)
		}
		if e := cmplx.Abs(got[i] - want); !(e <= tol) {
			return d.fail(tr, what, i, got[i], want, e, tol)
		}
	}
	return nil
}

func noteCase(tr string, c dsCase) {
	if nontrivialLen(c.N) && !singleImpulseAt0(c.Kind, c.P, c.N) {
		vk.NonTrivial("defsum", tr, c.N, c.Kind)
	}
}

// checkDefsum compares every transform of the fourier package on the input
// described by c with its defining sum, and the inverse pairs with the scale
// implied by those sums.
func checkDefsum(c dsCase) *vk.Failure { return defsum(dsCtx{c: c}) }

func defsum(d dsCtx) *vk.Failure {
	c := d.c
	n := c.N
	vk.Class("defsum " + lenClass(n))
	vk.Class("defsum input=" + c.Kind)
	if len(c.Idx) == 0 {
		vk.Class("defsum outputs=all")
	} else {
		vk.Class("defsum outputs=drawn-subset")
	}
	vk.Sample("defsum-"+c.Kind, c)

	x := genReal(n, c.Kind, c.P, c.Seed)
	nzx := nonzeroR(x)
	x1 := norm1(x)
	tn := table(n)

	// ---- real FFT ----------------------------------------------------------
	{
		noteCase("FFT.Coefficients", c)
		ft := fourier.NewFFT(n)
		if ft.Len() != n {
			return vk.Failf("FFT/len", "NewFFT(%d).Len()=%d", n, ft.Len())
		}
		orig := append([]float64(nil), x...)
		coef := ft.Coefficients(nil, x)
		if len(coef) != n/2+1 {
			return vk.Failf("FFT.Coefficients/length", "n=%d len(coeff)=%d want %d", n, len(coef), n/2+1)
		}
		tol := d.tol(n, 1, x1)
		if f := d.cmpC("FFT.Coefficients", "defining-sum", coef, func(k int) complex128 { return refRealDFT(orig, nzx, k, -1, tn) }, tol); f != nil {
			return f
		}
		// inverse of the computed spectrum: n*x
		back := ft.Sequence(nil, coef)
		c1 := norm1(cparts(coef))
		rtTol := d.tol(n, 2, c1) + 2*float64(len(coef))*tol
		if f := d.cmpR("FFT", "roundtrip-scale-n", back, func(j int) float64 { return float64(n) * orig[j] }, rtTol); f != nil {
			return f
		}
		// Sequence on an independent half-complex spectrum
		noteCase("FFT.Sequence", c)
		sp := genCmplx(n/2+1, c.Kind, c.P, c.Seed+1)
		nzs := nonzeroC(sp)
		s1 := norm1(cparts(sp))
		seq := ft.Sequence(nil, sp)
		if len(seq) != n {
			return vk.Failf("FFT.Sequence/length", "n=%d len(seq)=%d", n, len(seq))
		}
		if f := d.cmpR("FFT.Sequence", "defining-sum", seq, func(j int) float64 { return refRealSeq(sp, nzs, n, j, tn) }, d.tol(n, 2, s1)); f != nil {
			return f
		}
	}

	// ---- complex FFT -------------------------------------------------------
	{
		noteCase("CmplxFFT.Coefficients", c)
		noteCase("CmplxFFT.Sequence", c)
		z := genCmplx(n, c.Kind, c.P, c.Seed+2)
		nzz := nonzeroC(z)
		z1 := norm1(cparts(z))
		ct := fourier.NewCmplxFFT(n)
		if ct.Len() != n {
			return vk.Failf("CmplxFFT/len", "NewCmplxFFT(%d).Len()=%d", n, ct.Len())
		}
		// The complex general-radix pass reads its twiddles from the table
		// built by Cffti (no recurrence): no allowance for prime factors.
		dz := dsCtx{c: c, strict: true}
		tol := dz.tol(n, 1, z1)
		coef := ct.Coefficients(nil, z)
		if len(coef) != n {
			return vk.Failf("CmplxFFT.Coefficients/length", "n=%d len=%d", n, len(coef))
		}
		if f := d.cmpC("CmplxFFT.Coefficients", "defining-sum", coef, func(k int) complex128 { return refDFT(z, nzz, k, -1, tn) }, tol); f != nil {
			return f
		}
		seq := ct.Sequence(nil, z)
		if f := d.cmpC("CmplxFFT.Sequence", "defining-sum", seq, func(k int) complex128 { return refDFT(z, nzz, k, +1, tn) }, tol); f != nil {
			return f
		}
		back := ct.Sequence(nil, coef)
		rtTol := dz.tol(n, 1, norm1(cparts(coef))) + 2*float64(n)*tol
		if f := d.cmpC("CmplxFFT", "roundtrip-scale-n", back, func(j int) complex128 { return complex(float64(n), 0) * z[j] }, rtTol); f != nil {
			return f
		}
		// real and complex transforms agree on real input (all n outputs of
		// the complex transform; the upper half by conjugate symmetry)
		xc := make([]complex128, n)
		for i, v := range x {
			xc[i] = complex(v, 0)
		}
		rc := fourier.NewFFT(n).Coefficients(nil, x)
		cc := ct.Coefficients(nil, xc)
		atol := 2 * d.tol(n, 1, x1)
		for _, k := range c.indices(n) {
			var want complex128
			if k <= n/2 {
				want = rc[k]
			} else {
				want = cmplx.Conj(rc[n-k])
			}
			if e := cmplx.Abs(cc[k] - want); !(e <= atol) {
				return d.fail("FFT-vs-CmplxFFT", "real-input-agreement", k, cc[k], want, e, atol)
			}
		}
	}

	// ---- DCT (type I) ------------------------------------------------------
	if n >= 2 {
		noteCase("DCT.Transform", c)
		t := table(2 * (n - 1))
		dct := fourier.NewDCT(n)
		if dct.Len() != n {
			return vk.Failf("DCT/len", "NewDCT(%d).Len()=%d", n, dct.Len())
		}
		tol := d.tolPrefix(n, n-1, 2, x1)
		y := dct.Transform(nil, x)
		if f := d.cmpR("DCT.Transform", "defining-sum", y, func(i int) float64 { return refDCT(x, nzx, i, t) }, tol); f != nil {
			return f
		}
		back := dct.Transform(nil, y)
		rtTol := d.tolPrefix(n, n-1, 2, norm1(y)) + 2*float64(n)*tol
		sc := float64(2 * (n - 1))
		if f := d.cmpR("DCT", "roundtrip-scale-2(n-1)", back, func(j int) float64 { return sc * x[j] }, rtTol); f != nil {
			return f
		}
	}

	// ---- DST (type I) ------------------------------------------------------
	{
		noteCase("DST.Transform", c)
		t := table(2 * (n + 1))
		dst := fourier.NewDST(n)
		if dst.Len() != n {
			return vk.Failf("DST/len", "NewDST(%d).Len()=%d", n, dst.Len())
		}
		tol := d.tolPrefix(n, n+1, 2, x1)
		y := dst.Transform(nil, x)
		if f := d.cmpR("DST.Transform", "defining-sum", y, func(i int) float64 { return refDST(x, nzx, i, t) }, tol); f != nil {
			return f
		}
		back := dst.Transform(nil, y)
		rtTol := d.tolPrefix(n, n+1, 2, norm1(y)) + 2*float64(n)*tol
		sc := float64(2 * (n + 1))
		if f := d.cmpR("DST", "roundtrip-scale-2(n+1)", back, func(j int) float64 { return sc * x[j] }, rtTol); f != nil {
			return f
		}
	}

	// ---- quarter-wave transforms ------------------------------------------
	{
		t := table(4 * n)
		q := fourier.NewQuarterWaveFFT(n)
		if q.Len() != n {
			return vk.Failf("QuarterWaveFFT/len", "NewQuarterWaveFFT(%d).Len()=%d", n, q.Len())
		}
		type qw struct {
			name string
			w    float64
			f    func(dst, src []float64) []float64
			ref  func(x []float64, nz []int, i int, t *trig) float64
		}
		fw := []qw{
			{"QuarterWaveFFT.CosCoefficients", 2, q.CosCoefficients, refCosqf},
			{"QuarterWaveFFT.CosSequence", 4, q.CosSequence, refCosqb},
			{"QuarterWaveFFT.SinCoefficients", 2, q.SinCoefficients, refSinqf},
			{"QuarterWaveFFT.SinSequence", 4, q.SinSequence, refSinqb},
		}
		var ys [4][]float64
		var tols [4]float64
		for i, e := range fw {
			noteCase(e.name, c)
			tols[i] = d.tol(n, e.w, x1)
			ys[i] = e.f(nil, x)
			if len(ys[i]) != n {
				return vk.Failf(e.name+"/length", "n=%d len=%d", n, len(ys[i]))
			}
			ref := e.ref
			if f := d.cmpR(e.name, "defining-sum", ys[i], func(k int) float64 { return ref(x, nzx, k, t) }, tols[i]); f != nil {
				return f
			}
		}
		// inverse pairs, both orders: 4n*x
		sc := float64(4 * n)
		pairs := []struct {
			name string
			a, b int
		}{
			{"CosSequence(CosCoefficients)", 0, 1}, {"CosCoefficients(CosSequence)", 1, 0},
			{"SinSequence(SinCoefficients)", 2, 3}, {"SinCoefficients(SinSequence)", 3, 2},
		}
		for _, p := range pairs {
			back := fw[p.b].f(nil, ys[p.a])
			rtTol := d.tol(n, fw[p.b].w, norm1(ys[p.a])) + fw[p.b].w*float64(n)*tols[p.a]
			if f := d.cmpR("QuarterWaveFFT."+p.name, "roundtrip-scale-4n", back, func(j int) float64 { return sc * x[j] }, rtTol); f != nil {
				return f
			}
		}
	}
	return nil
}

// ---- exhaustive small lengths ------------------------------------------------

func smallCases(maxN int) []dsCase {
	var cs []dsCase
	base := vk.Seed() * 0x9e3779b97f4a7c15
	for n := 1; n <= maxN; n++ {
		for p := 0; p < n; p++ {
			cs = append(cs, dsCase{N: n, Kind: kImp, P: p, Seed: uint64(n + p)})
		}
		seen := map[int]bool{}
		for _, p := range []int{1, n / 2, n - 1, n / 3, (2*n + 2) / 5} {
			p = ((p % n) + n) % n
			if !seen[p] {
				seen[p] = true
				cs = append(cs, dsCase{N: n, Kind: kTone, P: p})
			}
		}
		for i, k := range denseKinds {
			cs = append(cs, dsCase{N: n, Kind: k, Seed: base + uint64(n*8+i)})
		}
	}
	return cs
}

func TestDefsumSmall(t *testing.T) {
	cs := smallCases(vk.Pick(96, 512))
	vk.Enumerate(t, "defsum", len(cs), func(i int) dsCase { return cs[i] }, checkDefsum)
}

// ---- sampled lengths to 10^4 ---------------------------------------------------

var primesTo10k = func() []int {
	var ps []int
	for n := 2; n <= 10000; n++ {
		if len(factorize(n)) == 1 {
			ps = append(ps, n)
		}
	}
	return ps
}()

func primeBelow(t *rapid.T, hi int, label string) int {
	// index of the last prime <= hi
	k := 0
	for k+1 < len(primesTo10k) && primesTo10k[k+1] <= hi {
		k++
	}
	return primesTo10k[rapid.IntRange(0, k).Draw(t, label)]
}

// drawLen draws a length <= hi from the factor patterns that select the
// different butterfly passes; hi itself is drawn so that most lengths are small
// (a general-radix pass costs O(p^2)).
func drawLen(t *rapid.T, maxHi int) (int, string) {
	his := []int{64, 300, 300, 1000, 1000, 3000, 3000, 10000}
	var ok []int
	for _, h := range his {
		if h <= maxHi {
			ok = append(ok, h)
		}
	}
	hi := rapid.SampledFrom(ok).Draw(t, "hi")
	pow := func(b, lim int, label string) int {
		v := 1
		k := rapid.IntRange(0, 14).Draw(t, label)
		for i := 0; i < k && v*b <= lim; i++ {
			v *= b
		}
		return v
	}
	pat := rapid.SampledFrom([]string{"2^a", "3^a", "4^a*5", "210k", "prime", "prime^2", "4*prime", "smooth*prime", "smooth", "uniform"}).Draw(t, "pattern")
	n := 1
	switch pat {
	case "2^a":
		n = pow(2, hi, "a")
	case "3^a":
		n = pow(3, hi, "a")
	case "4^a*5":
		n = 5 * pow(4, hi/5, "a")
	case "210k":
		n = 210 * rapid.IntRange(1, max(1, hi/210)).Draw(t, "k")
	case "prime":
		n = primeBelow(t, hi, "p")
	case "prime^2":
		p := primeBelow(t, int(math.Sqrt(float64(hi))), "p")
		n = p * p
	case "4*prime":
		n = 4 * primeBelow(t, max(2, hi/4), "p")
	case "smooth*prime":
		s := pow(2, 16, "a2") * pow(3, 9, "a3") * pow(5, 5, "a5")
		if s > hi/7 {
			s = 2
		}
		n = s * primeBelow(t, max(2, hi/s), "p")
	case "smooth":
		n = pow(2, hi, "a2")
		n *= pow(3, hi/n, "a3")
		n *= pow(5, hi/n, "a5")
	default:
		n = rapid.IntRange(1, hi).Draw(t, "n")
	}
	// DCT and DST run the real FFT at n-1 and n+1: shift so that these inner
	// lengths also meet the pattern.
	n += rapid.SampledFrom([]int{0, 0, 0, 1, -1}).Draw(t, "shift")
	if n < 1 {
		n = 1
	}
	if n > 10000 {
		n = 10000
	}
	return n, pat
}

func drawInput(t *rapid.T, n int) (kind string, p int, seed uint64) {
	kind = rapid.SampledFrom([]string{kImp, kTone, kConst, kAlt, kGauss, kInt, kGauss, kInt}).Draw(t, "kind")
	switch kind {
	case kImp, kTone:
		p = vk.Dim(t, "p", 0, n-1, n/2, n-1)
	case kGauss, kInt:
		seed = rapid.Uint64().Draw(t, "seed")
	}
	return
}

func TestDefsumSampled(t *testing.T) {
	vk.Run(t, "defsum-sampled", vk.Opts{Quick: 560, Thorough: 8000}, func(t *rapid.T) dsCase {
		n, _ := drawLen(t, 10000)
		kind, p, seed := drawInput(t, n)
		c := dsCase{N: n, Kind: kind, P: p, Seed: seed}
		nnz := n
		if kind == kImp {
			nnz = 1
		}
		if nnz*n > 40000 {
			c.Idx = rapid.SliceOfN(rapid.IntRange(0, n-1), 12, 12).Draw(t, "idx")
		}
		return c
	}, checkDefsum)
}

var _ = fmt.Sprint
