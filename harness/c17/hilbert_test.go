package c17

import (
	"math"
	"testing"

	"gonum.org/v1/gonum/dsp/transform"
	"pgregory.net/rapid"
	"verifharness/vk"
)

// ---- Hilbert / analytic signal -------------------------------------------------

type hilbCase struct {
	N     int
	Kind  string
	P     int
	Seed  uint64
	Dst   int   // 0 nil, 1 fresh
	Prior []int // seeds of earlier calls on the same object (history)
	Idx   []int
}

// refHilbertKernel returns g[d] = (2/n) * sum_{k=1}^{K} sin(2*pi*k*d/n), K the
// number of strictly positive frequencies below Nyquist, so that the discrete
// Hilbert transform is h[m] = sum_j x[j]*g[(m-j) mod n].
func refHilbertKernel(n int, t *trig) []float64 {
	g := make([]float64, n)
	kmax := (n+1)/2 - 1
	for d := 0; d < n; d++ {
		var acc vk.DD
		for k := 1; k <= kmax; k++ {
			acc.Add(t.s[(k*d)%n])
		}
		g[d] = 2 * acc.Float() / float64(n)
	}
	return g
}

func checkHilbert(c hilbCase) *vk.Failure {
	n := c.N
	vk.Class("hilbert " + lenClass(n))
	vk.Class("hilbert input=" + c.Kind)
	vk.Sample("hilbert", c)
	if nontrivialLen(n) && !singleImpulseAt0(c.Kind, c.P, n) {
		vk.NonTrivial("hilbert", n, c.Kind)
	}
	h := transform.NewHilbert(n)
	if h.Len() != n {
		return vk.Failf("Len", "NewHilbert(%d).Len()=%d", n, h.Len())
	}
	for _, s := range c.Prior {
		h.AnalyticSignal(nil, genReal(n, kGauss, 0, uint64(s)))
	}
	x := genReal(n, c.Kind, c.P, c.Seed)
	orig := append([]float64(nil), x...)
	var dst []complex128
	if c.Dst == 1 {
		dst = make([]complex128, n)
		for i := range dst {
			dst[i] = complex(math.NaN(), math.NaN())
		}
	}
	out := h.AnalyticSignal(dst, x)
	if len(out) != n {
		return vk.Failf("AnalyticSignal/length", "n=%d len(out)=%d", n, len(out))
	}
	if dst != nil && &out[0] != &dst[0] {
		return vk.Failf("AnalyticSignal/dst-not-returned", "n=%d", n)
	}
	if h.Len() != n {
		return vk.Failf("Len-after-call", "n=%d Len()=%d", n, h.Len())
	}
	// history: equals a fresh object bit for bit
	if len(c.Prior) > 0 || c.Dst == 1 {
		want := transform.NewHilbert(n).AnalyticSignal(nil, orig)
		for i := range out {
			if !vk.SameBits(real(out[i]), real(want[i])) || !vk.SameBits(imag(out[i]), imag(want[i])) {
				return vk.Failf("AnalyticSignal/history-dependent", "n=%d dst mode %d after %d earlier calls: out[%d]=%v, fresh object %v", n, c.Dst, len(c.Prior), i, out[i], want[i])
			}
		}
	}
	// Forward complex FFT (error tol1 per coefficient), weights <= 2, inverse
	// FFT of a spectrum of 1-norm <= 2n||x||_1, division by n:
	// 2*tol1 + tol(2||x||_1) = 4*tol1, taken with a factor two.
	x1 := norm1(orig)
	// (CmplxFFT: no allowance for the twiddle recurrences of the real passes)
	d := dsCtx{c: dsCase{N: n, Kind: c.Kind, P: c.P, Seed: c.Seed, Idx: c.Idx}, strict: true}
	tol := 8 * d.tol(n, 1, x1)
	tn := table(n)
	g := refHilbertKernel(n, tn)
	nz := nonzeroR(orig)
	for _, m := range d.c.indices(n) {
		if e := math.Abs(real(out[m]) - orig[m]); !(e <= tol) {
			return d.fail("AnalyticSignal", "real-part-is-input", m, real(out[m]), orig[m], e, tol)
		}
		var acc vk.DD
		for _, j := range nz {
			acc.AddProd(orig[j], g[((m-j)%n+n)%n])
		}
		want := acc.Float()
		if e := math.Abs(imag(out[m]) - want); !(e <= tol) {
			return d.fail("AnalyticSignal", "imag-part-is-hilbert-transform", m, imag(out[m]), want, e, tol)
		}
	}
	// one-sided spectrum: the coefficients of the negative frequencies of out
	// vanish. DFT(out)[k] = DFT(exact)[k] + DFT(err)[k], |DFT(err)[k]| <= n*tol.
	nzo := nonzeroC(out)
	stol := float64(n)*tol + d.tol(n, 1, norm1(cparts(out)))
	for _, k := range d.c.indices(n) {
		if 2*k <= n {
			continue
		}
		v := refDFT(out, nzo, k, -1, tn)
		if e := math.Hypot(real(v), imag(v)); !(e <= stol) {
			return d.fail("AnalyticSignal", "negative-frequencies-vanish", k, v, 0, e, stol)
		}
	}
	// "The dst slice must be the same length as the input signal, otherwise the
	// method will panic."; signal of the wrong length.
	if f := vk.MustPanic("AnalyticSignal/dst-wrong-length", func() { h.AnalyticSignal(make([]complex128, n+1), orig) }); f != nil {
		return f
	}
	if f := vk.MustPanic("AnalyticSignal/signal-wrong-length", func() { h.AnalyticSignal(nil, make([]float64, n+1)) }); f != nil {
		return f
	}
	return nil
}

func TestHilbert(t *testing.T) {
	maxN := vk.Pick(64, 200)
	base := vk.Seed() * 0x9e3779b97f4a7c15
	var cs []hilbCase
	for n := 1; n <= maxN; n++ {
		for p := 0; p < n; p++ {
			if n > 32 && p > 2 && p < n-2 && p != n/2 {
				continue
			}
			cs = append(cs, hilbCase{N: n, Kind: kImp, P: p, Dst: p % 2})
		}
		for _, p := range []int{1, n / 2, n - 1, n / 3} {
			cs = append(cs, hilbCase{N: n, Kind: kTone, P: p, Dst: n % 2, Prior: []int{p}})
		}
		for i, k := range denseKinds {
			cs = append(cs, hilbCase{N: n, Kind: k, Seed: base + uint64(8*n+i), Dst: i % 2})
		}
	}
	vk.Enumerate(t, "hilbert", len(cs), func(i int) hilbCase { return cs[i] }, checkHilbert)
	vk.Run(t, "hilbert-sampled", vk.Opts{Quick: 250, Thorough: 4000}, func(t *rapid.T) hilbCase {
		n, _ := drawLen(t, 3000)
		kind, p, seed := drawInput(t, n)
		c := hilbCase{N: n, Kind: kind, P: p, Seed: seed, Dst: rapid.IntRange(0, 1).Draw(t, "dst")}
		c.Prior = rapid.SliceOfN(rapid.IntRange(0, 1000), 0, 2).Draw(t, "prior")
		if n > 200 {
			c.Idx = rapid.SliceOfN(rapid.IntRange(0, n-1), 8, 8).Draw(t, "idx")
		}
		return c
	}, checkHilbert)
}
