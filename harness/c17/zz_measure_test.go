package c17

import (
	"fmt"
	"os"
	"sort"
	"testing"
)

func TestZZMeasure(t *testing.T) {
	if os.Getenv("C17_MEASURE") == "" {
		t.Skip()
	}
	type rec struct {
		f float64
		c dsCase
	}
	worst := map[string]rec{}
	fracHook = func(tr string, frac float64, c dsCase) {
		if frac > worst[tr].f {
			worst[tr] = rec{frac, c}
		}
	}
	defer func() { fracHook = nil }()
	for n := 1; n <= 2100; n++ {
		if n > 400 && n%11 > 2 {
			continue
		}
		for _, kind := range []string{kImp, kTone, kAlt, kConst, kGauss, kInt} {
			for _, p := range []int{0, 1, n / 3, n / 2, n - 1} {
				c := dsCase{N: n, Kind: kind, P: p, Seed: uint64(n*13 + p)}
				if n > 300 && kind != kImp {
					c.Idx = []int{3, n / 5, n / 3, n/2 + 1, n - 2, (n * 7) / 9, 17, n / 4}
				}
				if f := checkDefsum(c); f != nil {
					fmt.Println("FAIL", f)
				}
				if kind != kImp && kind != kTone {
					break
				}
			}
		}
	}
	var ks []string
	for k := range worst {
		ks = append(ks, k)
	}
	sort.Strings(ks)
	for _, k := range ks {
		fmt.Printf("%-60s worst err/tol=%.4f at %+v\n", k, worst[k].f, worst[k].c)
	}
}
