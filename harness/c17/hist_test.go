package c17

import (
	"fmt"
	"math"
	"testing"

	"gonum.org/v1/gonum/dsp/fourier"
	"pgregory.net/rapid"
	"verifharness/vk"
)

// ---- history independence -----------------------------------------------------
//
// One transform object is taken through a drawn list of operations (Reset to
// a new length, transform calls with dst nil / fresh / aliasing src, calls
// with wrong lengths). Every transform call must give bit-for-bit the result
// of the same call on a fresh object of the current length with dst == nil.

type hop struct {
	Reset  int    // > 0: Reset(Reset) before the call; 0: keep the length
	Method int    // index into the object's method list (mod its length)
	Dst    int    // 0 nil, 1 fresh slice (pre-filled with NaN), 2 dst == src where documented safe
	Seed   uint64 // input data
	Bad    int    // 0 valid call; 1 src too long; 2 src too short; 3 dst too long; 4 dst too short
}

type histCase struct {
	Obj string // FFT, CmplxFFT, DCT, DST, QuarterWaveFFT
	N0  int
	Ops []hop
}

// obj abstracts the five transform types over []complex128 data (real data is
// carried in the real parts).
type histObj struct {
	reset   func(n int)
	length  func() int
	minN    int
	methods []histMethod
}

type histMethod struct {
	name    string
	inLen   func(n int) int
	outLen  func(n int) int
	aliasOK bool
	realIn  bool
	realOut bool
	callR   func(dst, src []float64) []float64
	callC   func(dst, src []complex128) []complex128
	callRC  func(dst []complex128, src []float64) []complex128
	callCR  func(dst []float64, src []complex128) []float64
}

func same(n int) int { return n }
func half(n int) int { return n/2 + 1 }

func newHistObj(kind string, n int) *histObj {
	switch kind {
	case "FFT":
		t := fourier.NewFFT(n)
		return &histObj{reset: t.Reset, length: t.Len, minN: 1, methods: []histMethod{
			{name: "Coefficients", inLen: same, outLen: half, realIn: true, callRC: t.Coefficients},
			{name: "Sequence", inLen: half, outLen: same, realOut: true, callCR: t.Sequence},
		}}
	case "CmplxFFT":
		t := fourier.NewCmplxFFT(n)
		return &histObj{reset: t.Reset, length: t.Len, minN: 1, methods: []histMethod{
			{name: "Coefficients", inLen: same, outLen: same, aliasOK: true, callC: t.Coefficients},
			{name: "Sequence", inLen: same, outLen: same, aliasOK: true, callC: t.Sequence},
		}}
	case "DCT":
		t := fourier.NewDCT(n)
		return &histObj{reset: t.Reset, length: t.Len, minN: 2, methods: []histMethod{
			{name: "Transform", inLen: same, outLen: same, aliasOK: true, realIn: true, realOut: true, callR: t.Transform},
		}}
	case "DST":
		t := fourier.NewDST(n)
		return &histObj{reset: t.Reset, length: t.Len, minN: 1, methods: []histMethod{
			{name: "Transform", inLen: same, outLen: same, aliasOK: true, realIn: true, realOut: true, callR: t.Transform},
		}}
	default:
		t := fourier.NewQuarterWaveFFT(n)
		return &histObj{reset: t.Reset, length: t.Len, minN: 1, methods: []histMethod{
			{name: "CosCoefficients", inLen: same, outLen: same, aliasOK: true, realIn: true, realOut: true, callR: t.CosCoefficients},
			{name: "CosSequence", inLen: same, outLen: same, aliasOK: true, realIn: true, realOut: true, callR: t.CosSequence},
			{name: "SinCoefficients", inLen: same, outLen: same, aliasOK: true, realIn: true, realOut: true, callR: t.SinCoefficients},
			{name: "SinSequence", inLen: same, outLen: same, aliasOK: true, realIn: true, realOut: true, callR: t.SinSequence},
		}}
	}
}

// invoke calls method m with src (complex carrier) and the dst mode; dstLen is
// the length of a non-nil dst. The result is returned in the complex carrier.
func (m histMethod) invoke(src []complex128, mode, dstLen int) []complex128 {
	nan := math.NaN()
	toR := func(z []complex128) []float64 {
		r := make([]float64, len(z))
		for i, v := range z {
			r[i] = real(v)
		}
		return r
	}
	toC := func(r []float64) []complex128 {
		z := make([]complex128, len(r))
		for i, v := range r {
			z[i] = complex(v, 0)
		}
		return z
	}
	var dr []float64
	var dc []complex128
	if mode == 1 {
		dr = make([]float64, dstLen)
		dc = make([]complex128, dstLen)
		for i := range dr {
			dr[i] = nan
			dc[i] = complex(nan, nan)
		}
	}
	switch {
	case m.callR != nil:
		s := toR(src)
		if mode == 2 {
			dr = s
		}
		return toC(m.callR(dr, s))
	case m.callC != nil:
		s := append([]complex128(nil), src...)
		if mode == 2 {
			dc = s
		}
		return m.callC(dc, s)
	case m.callRC != nil:
		return m.callRC(dc, toR(src))
	default:
		return toC(m.callCR(dr, append([]complex128(nil), src...)))
	}
}

func histData(n int, realIn bool, seed uint64) []complex128 {
	r := vk.NewSplitMix(seed)
	z := make([]complex128, n)
	for i := range z {
		if realIn {
			z[i] = complex(r.Finite(), 0)
		} else {
			z[i] = complex(r.Finite(), r.Finite())
		}
	}
	return z
}

func checkHist(c histCase) *vk.Failure {
	o := newHistObj(c.Obj, c.N0)
	cur := c.N0
	lens := map[int]bool{cur: true}
	vk.Sample("history-"+c.Obj, c)
	calls := 0
	for step, op := range c.Ops {
		where := fmt.Sprintf("%s step %d (after lengths %v)", c.Obj, step, keys(lens))
		if op.Reset > 0 {
			if op.Reset < o.minN {
				// "Reset will panic is n is not greater than 1." (DCT)
				r := op.Reset
				if f := vk.MustPanic("Reset-below-minimum", func() { o.reset(r) }); f != nil {
					f.Msg += " " + where
					return f
				}
				if o.length() != cur {
					return vk.Failf("Len-after-rejected-Reset", "%s: Len()=%d want %d", where, o.length(), cur)
				}
			} else {
				o.reset(op.Reset)
				cur = op.Reset
				lens[cur] = true
				if o.length() != cur {
					return vk.Failf("Len-after-Reset", "%s: Reset(%d) then Len()=%d", where, cur, o.length())
				}
			}
		}
		m := o.methods[((op.Method%len(o.methods))+len(o.methods))%len(o.methods)]
		inLen, outLen := m.inLen(cur), m.outLen(cur)
		mode := op.Dst % 3
		if mode == 2 && !m.aliasOK {
			mode = 1
		}
		if op.Bad != 0 {
			// "If the length of seq is not t.Len(), ... will panic. ... If dst is
			// not nil and the length of dst does not equal ..., ... will panic."
			sl, dl, dm := inLen, outLen, 1
			switch op.Bad {
			case 1:
				sl++
			case 2:
				sl--
			case 3:
				dl++
			default:
				dl--
			}
			if op.Bad <= 2 {
				dm = mode
				if dm == 2 {
					dl = sl
				}
			}
			if sl < 0 || dl < 0 {
				continue
			}
			src := histData(sl, m.realIn, op.Seed)
			vk.Class("history wrong-length call")
			if f := vk.MustPanic(m.name+"-wrong-length", func() { m.invoke(src, dm, dl) }); f != nil {
				f.Msg += fmt.Sprintf(" %s: %s with len(src)=%d len(dst)=%d (dst mode %d) on Len()=%d", where, m.name, sl, dl, dm, cur)
				return f
			}
			continue
		}
		src := histData(inLen, m.realIn, op.Seed)
		got := m.invoke(src, mode, outLen)
		fresh := newHistObj(c.Obj, cur)
		fm := fresh.methods[((op.Method%len(o.methods))+len(o.methods))%len(o.methods)]
		want := fm.invoke(src, 0, outLen)
		calls++
		vk.Class("history dst=" + []string{"nil", "fresh", "alias-src"}[mode])
		if len(got) != len(want) {
			return vk.Failf(m.name+"/history-length", "%s: %s returned %d values, fresh object %d", where, m.name, len(got), len(want))
		}
		for i := range got {
			if !vk.SameBits(real(got[i]), real(want[i])) || !vk.SameBits(imag(got[i]), imag(want[i])) {
				key := "/history-dependent"
				if len(lens) == 1 {
					key = "/dst-mode-dependent"
				}
				return vk.Failf(m.name+key, "%s: %s(n=%d, dst mode %d, seed %d)[%d]=%v on the reused object, %v on a fresh one", where, m.name, cur, mode, op.Seed, i, got[i], want[i])
			}
		}
	}
	if len(lens) >= 2 && calls > 0 {
		vk.NonTrivial("history", c.Obj, fmt.Sprint(keys(lens)), len(c.Ops))
		vk.Class("history >=2 lengths")
	} else {
		vk.Class("history 1 length")
	}
	return nil
}

func keys(m map[int]bool) []int {
	var ks []int
	for k := range m {
		ks = append(ks, k)
	}
	// insertion sort (small)
	for i := 1; i < len(ks); i++ {
		for j := i; j > 0 && ks[j] < ks[j-1]; j-- {
			ks[j], ks[j-1] = ks[j-1], ks[j]
		}
	}
	return ks
}

func TestHistory(t *testing.T) {
	vk.Run(t, "history", vk.Opts{Quick: 6000, Thorough: 100000}, func(t *rapid.T) histCase {
		obj := rapid.SampledFrom([]string{"FFT", "CmplxFFT", "DCT", "DST", "QuarterWaveFFT"}).Draw(t, "obj")
		minN := 1
		if obj == "DCT" {
			minN = 2
		}
		hi := rapid.SampledFrom([]int{8, 40, 40, 200, 700}).Draw(t, "hi")
		lenGen := rapid.Custom(func(t *rapid.T) int {
			return vk.Dim(t, "n", minN, hi, 4, 16, 64)
		})
		c := histCase{Obj: obj, N0: lenGen.Draw(t, "n0")}
		nops := rapid.IntRange(1, 10).Draw(t, "nops")
		for i := 0; i < nops; i++ {
			var op hop
			switch rapid.IntRange(0, 9).Draw(t, "reset") {
			case 0, 1, 2, 3, 4:
				op.Reset = lenGen.Draw(t, "rn")
			case 5:
				op.Reset = 1 // rejected by DCT, smallest length elsewhere
			}
			op.Method = rapid.IntRange(0, 3).Draw(t, "method")
			op.Dst = rapid.IntRange(0, 2).Draw(t, "dst")
			op.Seed = rapid.Uint64Range(0, 1<<20).Draw(t, "seed")
			if rapid.IntRange(0, 7).Draw(t, "bad") == 0 {
				op.Bad = rapid.IntRange(1, 4).Draw(t, "badkind")
			}
			c.Ops = append(c.Ops, op)
		}
		return c
	}, checkHist)
}

// ---- documented minimum length of DCT ---------------------------------------------

type ctorCase struct{ N int }

func checkCtor(c ctorCase) *vk.Failure {
	vk.Sample("dct-min-length", c)
	n := c.N
	if n <= 1 {
		// "NewDCT will panic is n is not greater than 1."
		if f := vk.MustPanic("NewDCT-n<=1", func() { fourier.NewDCT(n) }); f != nil {
			f.Msg += fmt.Sprintf(" n=%d", n)
			return f
		}
		t := fourier.NewDCT(5)
		if f := vk.MustPanic("DCT.Reset-n<=1", func() { t.Reset(n) }); f != nil {
			f.Msg += fmt.Sprintf(" n=%d", n)
			return f
		}
		// the rejected Reset leaves a usable object of the old length
		x := []float64{1, 2, 3, 4, 5}
		got := t.Transform(nil, x)
		want := fourier.NewDCT(5).Transform(nil, x)
		for i := range got {
			if !vk.SameBits(got[i], want[i]) {
				return vk.Failf("DCT-after-rejected-Reset", "n=%d: Transform differs from a fresh DCT(5) at %d: %v vs %v", n, i, got[i], want[i])
			}
		}
		return nil
	}
	return vk.MustReturn("NewDCT-n>=2", func() { fourier.NewDCT(n) })
}

func TestDCTMinLength(t *testing.T) {
	ns := []int{-3, -1, 0, 1, 2, 3}
	vk.Enumerate(t, "dct-min-length", len(ns), func(i int) ctorCase { return ctorCase{ns[i]} }, checkCtor)
}
