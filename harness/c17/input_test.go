package c17

import (
	"verifharness/vk"
)

// Input classes. P is the impulse position or the tone frequency.
const (
	kImp   = "impulse"
	kTone  = "tone"
	kConst = "const"
	kAlt   = "alternating"
	kGauss = "gauss"
	kInt   = "int"
)

var denseKinds = []string{kConst, kAlt, kGauss, kInt}

// genReal expands (kind, p, seed) to a real sequence of length n.
func genReal(n int, kind string, p int, seed uint64) []float64 {
	x := make([]float64, n)
	if n == 0 {
		return x
	}
	r := vk.NewSplitMix(seed)
	switch kind {
	case kImp:
		x[((p%n)+n)%n] = 1
	case kTone:
		f := ((p % n) + n) % n
		m := 0
		for j := range x {
			x[j], _ = unitCS(m, n)
			m += f
			if m >= n {
				m -= n
			}
		}
	case kConst:
		for j := range x {
			x[j] = 1
		}
	case kAlt:
		for j := range x {
			x[j] = float64(1 - 2*(j&1))
		}
	case kGauss:
		for j := range x {
			x[j] = r.Norm()
		}
	default: // kInt
		for j := range x {
			x[j] = float64(r.Intn(17) - 8)
		}
	}
	return x
}

// genCmplx expands (kind, p, seed) to a complex sequence of length n.
func genCmplx(n int, kind string, p int, seed uint64) []complex128 {
	x := make([]complex128, n)
	if n == 0 {
		return x
	}
	r := vk.NewSplitMix(seed ^ 0x5bd1e995)
	switch kind {
	case kImp:
		// the seed selects 1, i, or 1+i
		v := []complex128{1, 1i, 1 - 1i}[seed%3]
		x[((p%n)+n)%n] = v
	case kTone:
		f := ((p % n) + n) % n
		m := 0
		for j := range x {
			c, s := unitCS(m, n)
			x[j] = complex(c, s)
			m += f
			if m >= n {
				m -= n
			}
		}
	case kConst:
		for j := range x {
			x[j] = 1 - 2i
		}
	case kAlt:
		for j := range x {
			s := float64(1 - 2*(j&1))
			x[j] = complex(s, -s)
		}
	case kGauss:
		for j := range x {
			x[j] = complex(r.Norm(), r.Norm())
		}
	default:
		for j := range x {
			x[j] = complex(float64(r.Intn(17)-8), float64(r.Intn(17)-8))
		}
	}
	return x
}

func singleImpulseAt0(kind string, p, n int) bool {
	return kind == kImp && n > 0 && ((p%n)+n)%n == 0
}
